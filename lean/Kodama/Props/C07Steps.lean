/-
C07, second half — the OBSERVABLE CONSEQUENCE of the condensed layout.

Property: entry `k` of the input slice is the dissimilarity of the `k`-th pair of
`(0,1),(0,2),…,(0,n-1),(1,2),…,(n-2,n-1)` (= `Spec.pairs n`; the layout itself is `Props/C07.lean`).
Consequence: if exactly one entry is strictly smallest, the first step merges exactly that pair of
observations at exactly that value; under single linkage the second step then joins the clusters
containing the pair of the (unique) second-smallest entry at exactly that entry's value.
Quantifier: every `n`, every slot `k < n(n-1)/2`, every entry point.

Conventions of all statements below.  `data` is the caller's slice, `hl : 2·data.size = n(n-1)`;
slot `k` (`hk : k < data.size`) is the pair `(r, c)` given by `hp : (pairs n)[k]? = some (r, c)`
(so `r < c < n`, `C07_bij`); "unique strictly smallest" is
`hmin : ∀ j < data.size, j ≠ k → Num.lt data[k] data[j] = true`; "unique second-smallest" is slot
`k₂ ≠ k`, pair `(r₂, c₂)`, `hmin₂ : ∀ j < data.size, j ≠ k → j ≠ k₂ → Num.lt data[k₂] data[j] = true`.
`n ≥ 2` (resp. `n ≥ 3`) is IMPLIED by the existence of a slot (two distinct slots) and is therefore
not a hypothesis.  A step is `⟨c1, c2, d, size⟩`; observation labels are `0 … n-1`, the first merge
creates label `n`.  `C07_label n r c x` = label of the cluster containing observation `x` after the
merge of `(r, c)` (`n` if `x ∈ {r, c}`, else `x`); `C07_csize r c x` = its size (2 / 1).
`C07_height m x` = what the specification reports for a merge of two observations with input entry
`x`: `x` for single / complete / average / weighted, `Num.sqrt (Num.mul x x)` for Ward / centroid /
median (the crate squares the entries and takes a root at the end: `Spec.init`, `Spec.post`);
`C07_height_plain`, `C07_height_squares`, `C07_height_eq` (`= x` as soon as `sqrt (x·x) = x`).

## 1. Specification level, first step (every `GreedyValid m n data steps`; no algorithm mentioned)
* `C07_first_step_of_greedy_table`  ANY method, NO number law: if the TABLE value of slot `k`
      (`C07_tab m data[k]`: the entry, squared for the methods on squares) is strictly below the table
      value of every other slot, then `steps = ⟨r, c, C07_height m data[k], 2⟩ :: rest`.
      (No `OrderLaws` needed: `Spec.Admissible` says "no live pair strictly closer", and the pair of
      slot `k` IS strictly closer than any other pair.)
* `C07_first_step_of_greedy`        ANY method, hypothesis on the RAW entries (`hmin`) plus, for the
      methods on squares only, `hsq`: squaring keeps `data[k]` strictly below the other entries.
* `C07_first_step_of_greedy_plain`  single / complete / average / weighted (`m.onSquares = false`):
      only `hmin`, no law; first step `⟨r, c, data[k], 2⟩`.
* `C07_first_step_of_greedy_exact`  all seven methods in exact arithmetic (`FieldLaws K`, strictly
      ordered field): `hmin` and, for the methods on squares, `0 ≤ data[k]` (NEEDED: with a negative
      smallest entry squaring reorders the entries, e.g. `-3 < 1` but `9 > 1`).  `C07_sq_lt_exact`
      discharges `hsq`.  Height `sqrt (data[k]·data[k])`; `= data[k]` by `C07_height_eq` when the
      instance's `sqrt` undoes that square (`sqrt` is otherwise unconstrained in `ExactLaws`).

## 2. Specification level, second step, single linkage
* `C07_second_step_single_of_greedy`  `OrderLaws α` (only `asymm` is used: `Gen.single x d₂` must
      pick `d₂` when `d₂ < x`); every `GreedyValid .single n data steps` is
      `⟨r, c, data[k], 2⟩ :: ⟨min l₁ l₂, max l₁ l₂, data[k₂], C07_csize r c r₂ + C07_csize r c c₂⟩ :: rest`
      with `l₁ = C07_label n r c r₂`, `l₂ = C07_label n r c c₂`.
      `C07_second_size`: that size is 3 if the two pairs share an observation, 2 otherwise;
      `C07_slots_ne`: `(r₂, c₂) ≠ (r, c)`.  No NaN hypothesis: the strict inequalities suffice.
* `C07_first_step_of_greedy_upTo`, `C07_second_step_single_of_greedy_upTo`  the same from the weaker
      `Spec.GreedyValidUpTo` (heights only order-equivalent to the table values): labels and sizes
      exactly as above, heights `C07_equiv` (neither `<` the other) to `data[k]`, `data[k₂]`;
      `C07_equiv_eq`: equality under `LtTrichotomy`.

## 3. Entry points (model functions; both build modes `chk`; every prior state; `n < 2^31`).
All are compositions of 1/2 with the C03 theorem named, under exactly its hypotheses; each says the
call RETURNS `.ok (st', d', M')` and `d'.steps.toList` starts with the step(s) above.
* `mst_with`:      `C07_first_step_mst`, `C07_second_step_mst` (`C03_mst_total`: `OrderLaws`,
                   `LtTrichotomy`, `NoNaN`, `InfTop`);
                   `C07_first_step_mst_upTo`, `C07_second_step_mst_upTo` (`C03_mst_upTo`: `OrderLaws`,
                   `NoNaN`, `InfTop` ONLY — hypotheses true of IEEE floats; heights up to `C07_equiv`,
                   i.e. for floats up to the sign of a zero).
* `linkage_with`:  `C07_first_step_linkage_single`, `C07_second_step_linkage_single`, `…_upTo` (Single →
                   mst); `C07_first_step_linkage` ALL seven methods in EXACT arithmetic
                   (`C07_linkage_greedy_exact`: Single → mst needs `InfTop`; complete / average /
                   weighted / Ward → nnchain, `C03_linkage_nnchain`; centroid / median → generic,
                   `C03_linkage_centroid_median`, needs its good-set hypotheses).
* `primitive_with`: `C07_first_step_primitive` all seven methods, EXACT arithmetic
                   (`C03_primitive_exact`); `C07_first_step_primitive_single`, `…_complete`,
                   `C07_second_step_primitive_single` abstract number type (`OrderLaws`, `LtTrichotomy`,
                   `InitNoNaN`).
* `generic_with`:  `C07_first_step_generic` (any method under the hypotheses of
                   `C03_generic_reducible`; for average / weighted / Ward these include `Reducible` /
                   `LBClosed`, true in exact arithmetic only), `C07_first_step_generic_unsorted`
                   (centroid, median; `C03_generic_unsorted`), `C07_first_step_generic_single`,
                   `C07_second_step_generic_single` (`C03_generic_single`).
* `nnchain_with`:  `C07_first_step_nnchain` all five methods, EXACT arithmetic (`C03_nnchain_exact`);
                   `C07_first_step_nnchain_single`, `C07_second_step_nnchain_single` abstract number
                   type with `OrderLaws`, `LtTrichotomy`, no NaN at all (`C03_nnchain_single_laws`).

## 4. Non-vacuity: `example`s at the end (toy numbers `Nat`, and `ℚ` for Ward).

## NOT proved
* Anything about IEEE rounding for the methods on squares: `hsq` ("squaring keeps the smallest entry
  strictly smallest") is FALSE for floats when squares underflow / overflow / round to the same value
  (`1e-200 < 2e-200`, both squares are `0`), and `sqrt (x·x) = x` can fail by an ulp or by
  over/underflow; there the statement is an exact-arithmetic one and the height is stated as
  `sqrt (data[k]·data[k])`.
* For average / weighted / Ward through nnchain / generic / primitive the C03 theorems used exist
  in exact arithmetic only (reducibility fails under rounding), so those corollaries inherit that.
  (The first step itself does not depend on reducibility; a direct proof from the first loop
  iteration of each algorithm — bypassing `GreedyValid` of the whole run and the stable sort — was
  not attempted.)
* With `LtTrichotomy` (false for floats: `±0`) the heights are EQUAL to the entries; without it only
  the `_upTo` forms (mst / linkage-single) are proved.
Trusted: `Spec/Naive.lean`, `Spec/Pairs.lean`, the model ↔ Rust correspondence, as for C03.
-/
import Kodama.Props.C03
import Kodama.Props.C03Mst
import Kodama.Props.C03Nnchain
import Kodama.Props.C04
import Kodama.Props.C07
import Kodama.Lemmas.MstPrimEntry
namespace Kodama
open Spec
variable {α : Type} [Num α]

/-! ## Vocabulary -/

/-- What the specification's initial table holds for an input entry `x`: `x·x` for the methods
that work on squares (Ward, centroid, median), `x` itself otherwise (`Spec.init`). -/
def C07_tab (m : Method) (x : α) : α := if m.onSquares then Num.mul x x else x

/-- The height the specification reports for a merge of two observations whose input entry is
`x`: `sqrt (x·x)` for the methods on squares, `x` otherwise (`Spec.post ∘ C07_tab`). -/
def C07_height (m : Method) (x : α) : α := post m (C07_tab m x)

theorem C07_height_plain {m : Method} (hm : m.onSquares = false) (x : α) : C07_height m x = x := by
  simp [C07_height, C07_tab, post, hm]

theorem C07_height_squares {m : Method} (hm : m.onSquares = true) (x : α) :
    C07_height m x = Num.sqrt (Num.mul x x) := by
  simp [C07_height, C07_tab, post, hm]

/-- If `sqrt` undoes the squaring of `x` (a hypothesis on the number type at that one value; true in
exact arithmetic with a real square root when `0 ≤ x`), the reported height is `x` itself. -/
theorem C07_height_eq {m : Method} (x : α)
    (hs : m.onSquares = true → Num.sqrt (Num.mul x x) = x) : C07_height m x = x := by
  cases hm : m.onSquares
  · exact C07_height_plain hm x
  · rw [C07_height_squares hm, hs hm]

/-! ## Slots and entries -/

omit [Num α] in
/-- The table entry of two distinct observations is the slot of their ordered pair. -/
theorem C07_entry_slot (n : Nat) (data : Array α) (hl : 2 * data.size = n * (n - 1)) (dflt : α)
    (u v : Nat) (hu : u < n) (hv : v < n) (huv : u ≠ v) :
    ∃ j, ∃ hj : j < data.size, (pairs n)[j]? = some (min u v, max u v) ∧
      entry n data dflt u v = data[j] := by
  have key : ∀ a b, a < b → b < n → ∃ j, ∃ hj : j < data.size, (pairs n)[j]? = some (a, b) ∧
      entry n data dflt a b = data[j] := by
    intro a b hab hb
    have h1 := idxN_lt n a b hab hb
    have hlt : Gen.idxN n a b < data.size := by omega
    refine ⟨Gen.idxN n a b, hlt, C07_layout n a b hab hb, ?_⟩
    rw [entry_eq_getD n data dflt a b hab hb]
    simp [Array.getD, hlt]
  by_cases h : u < v
  · rw [Nat.min_eq_left (by omega), Nat.max_eq_right (by omega)]
    exact key u v h hv
  · have h' : v < u := by omega
    rw [Nat.min_eq_right (by omega), Nat.max_eq_left (by omega), entry_symm]
    exact key v u h' hu

omit [Num α] in
/-- Slot `k` of a valid condensed array is a pair `r < c < n`, and the table entry of that pair is
`data[k]`. -/
theorem C07_slot_entry (n : Nat) (data : Array α) (dflt : α)
    (k : Nat) (hk : k < data.size) (r c : Nat) (hp : (pairs n)[k]? = some (r, c)) :
    r < c ∧ c < n ∧ entry n data dflt r c = data[k] := by
  obtain ⟨hkl, he⟩ := List.getElem?_eq_some_iff.mp hp
  have hb := (C07_bij n).2.2.2 k hkl
  rw [he] at hb
  obtain ⟨hrc, hcn, hidx⟩ := hb
  simp only at hrc hcn hidx
  refine ⟨hrc, hcn, ?_⟩
  rw [entry_eq_getD n data dflt r c hrc hcn, hidx]
  simp [Array.getD, hk]

/-! ## 1. The first step (specification level) -/

omit [Num α] in
private theorem two_le_of_slot {n : Nat} {data : Array α} (hl : 2 * data.size = n * (n - 1))
    {k : Nat} (hk : k < data.size) : 2 ≤ n := by
  rcases n with _ | _ | n
  · simp only [Nat.zero_mul] at hl; omega
  · simp only [Nat.zero_add, Nat.sub_self, Nat.mul_zero] at hl; omega
  · omega


/-- The pair chosen by an admissible first move: only the clauses "two live labels, smaller first,
no live pair strictly closer" of `Spec.Admissible` are used, and no number law. -/
private theorem first_pair (m : Method) (n : Nat) (data : Array α)
    (hl : 2 * data.size = n * (n - 1)) (st : Step α)
    (h1 : st.c1 ∈ (init m n data).live) (h2 : st.c2 ∈ (init m n data).live) (h3 : st.c1 < st.c2)
    (h4 : ∀ x ∈ (init m n data).live, ∀ y ∈ (init m n data).live, x ≠ y →
      Num.lt ((init m n data).D x y) ((init m n data).D st.c1 st.c2) = false)
    (k : Nat) (hk : k < data.size) (r c : Nat) (hp : (pairs n)[k]? = some (r, c))
    (hmin : ∀ j (hj : j < data.size), j ≠ k →
      Num.lt (C07_tab m data[k]) (C07_tab m data[j]) = true) :
    st.c1 = r ∧ st.c2 = c ∧ (init m n data).D st.c1 st.c2 = C07_tab m data[k] ∧
      (init m n data).size st.c1 + (init m n data).size st.c2 = 2 := by
  obtain ⟨hrc, hcn, hek⟩ := C07_slot_entry n data Num.infinity k hk r c hp
  have h1' : st.c1 < n := by simpa [init] using h1
  have h2' : st.c2 < n := by simpa [init] using h2
  have hr : r ∈ (init m n data).live := by simp [init]; omega
  have hc : c ∈ (init m n data).live := by simp [init]; omega
  have hD : ∀ x y, (init m n data).D x y = C07_tab m (entry n data Num.infinity x y) :=
    fun _ _ => rfl
  obtain ⟨j, hj, hpj, hej⟩ := C07_entry_slot n data hl Num.infinity st.c1 st.c2 h1' h2' (by omega)
  rw [Nat.min_eq_left (by omega), Nat.max_eq_right (by omega)] at hpj
  have hjk : j = k := by
    by_contra hne
    have := h4 r hr c hc (by omega)
    rw [hD, hD, hek, hej, hmin j hj hne] at this
    cases this
  subst hjk
  rw [hp] at hpj
  simp only [Option.some.injEq, Prod.mk.injEq] at hpj
  exact ⟨hpj.1.symm, hpj.2.symm, by rw [hD, hej], rfl⟩

/-- **First step, table form** (no number law at all).  If the table value of slot `k` is strictly
below the table value of every other slot, every greedy run starts by merging the pair of slot `k`
at the height the specification derives from that value, with size 2. -/
theorem C07_first_step_of_greedy_table (m : Method) (n : Nat) (data : Array α)
    (steps : List (Step α)) (hl : 2 * data.size = n * (n - 1))
    (hv : GreedyValid m n data steps) (k : Nat) (hk : k < data.size) (r c : Nat)
    (hp : (pairs n)[k]? = some (r, c))
    (hmin : ∀ j (hj : j < data.size), j ≠ k →
      Num.lt (C07_tab m data[k]) (C07_tab m data[j]) = true) :
    ∃ rest, steps = ⟨r, c, C07_height m data[k], 2⟩ :: rest := by
  have hn2 := two_le_of_slot hl hk
  obtain ⟨hlen, hg⟩ := hv
  cases steps with
  | nil => simp at hlen; omega
  | cons st rest =>
    refine ⟨rest, ?_⟩
    obtain ⟨⟨h1, h2, h3, h4, h5, h6⟩, -⟩ := hg
    obtain ⟨e1, e2, e3, e4⟩ := first_pair m n data hl st h1 h2 h3 h4 k hk r c hp hmin
    cases st with
    | mk c1 c2 d size =>
      simp only at e1 e2 e3 e4 h5 h6
      rw [e3] at h5
      rw [e4] at h6
      rw [e1, e2, h5, h6]
      rfl

/-- **C07, first step, any method.**  Slot `k` holds the unique strictly smallest entry of the
input.  For the methods on squares the hypothesis `hsq` says that squaring keeps that entry strictly
smallest (see `C07_sq_lt_exact`: true in exact arithmetic when `0 ≤ data[k]`; it can FAIL for IEEE
floats when squares underflow, overflow or round together).  Then every greedy run starts with
`(r, c, C07_height m data[k], 2)`, `(r, c)` the `k`-th pair of the row-major enumeration. -/
theorem C07_first_step_of_greedy (m : Method) (n : Nat) (data : Array α)
    (steps : List (Step α)) (hl : 2 * data.size = n * (n - 1))
    (hv : GreedyValid m n data steps) (k : Nat) (hk : k < data.size) (r c : Nat)
    (hp : (pairs n)[k]? = some (r, c))
    (hmin : ∀ j (hj : j < data.size), j ≠ k → Num.lt data[k] data[j] = true)
    (hsq : m.onSquares = true → ∀ j (hj : j < data.size), Num.lt data[k] data[j] = true →
      Num.lt (Num.mul data[k] data[k]) (Num.mul data[j] data[j]) = true) :
    ∃ rest, steps = ⟨r, c, C07_height m data[k], 2⟩ :: rest := by
  refine C07_first_step_of_greedy_table m n data steps hl hv k hk r c hp ?_
  intro j hj hne
  cases hm : m.onSquares
  · simpa [C07_tab, hm] using hmin j hj hne
  · simpa [C07_tab, hm] using hsq hm j hj (hmin j hj hne)

/-- **C07, first step, methods that do not square** (single, complete, average, weighted): the
height is exactly `data[k]`; no number law is used. -/
theorem C07_first_step_of_greedy_plain (m : Method) (hm : m.onSquares = false) (n : Nat)
    (data : Array α) (steps : List (Step α)) (hl : 2 * data.size = n * (n - 1))
    (hv : GreedyValid m n data steps) (k : Nat) (hk : k < data.size) (r c : Nat)
    (hp : (pairs n)[k]? = some (r, c))
    (hmin : ∀ j (hj : j < data.size), j ≠ k → Num.lt data[k] data[j] = true) :
    ∃ rest, steps = ⟨r, c, data[k], 2⟩ :: rest := by
  have := C07_first_step_of_greedy m n data steps hl hv k hk r c hp hmin
    (fun h => by rw [hm] at h; cases h)
  rwa [C07_height_plain hm] at this

/-! ## 2. The second step under single linkage (specification level) -/

/-- Label of the cluster containing observation `x` after the first merge `(r, c)` of a run on `n`
observations: the new label `n` for `r` and `c`, the observation itself otherwise. -/
def C07_label (n r c x : Nat) : Nat := if x = r ∨ x = c then n else x

/-- Size of that cluster. -/
def C07_csize (r c x : Nat) : Nat := if x = r ∨ x = c then 2 else 1

/-- `{u, v} = {a, b}` as unordered pairs. -/
private def pairEq (u v a b : Nat) : Prop := (u = a ∧ v = b) ∨ (u = b ∧ v = a)

/-- `single` of the second-smallest value and a larger one, in either order. -/
private theorem single_left (d x : α) (h : Num.lt d x = true) : Gen.single d x = d := by
  simp [Gen.single, h]

private theorem single_right (L : OrderLaws α) (d x : α) (h : Num.lt d x = true) :
    Gen.single x d = d := by
  simp [Gen.single, L.asymm d x h]

private theorem single_gt (d x y : α) (hx : Num.lt d x = true) (hy : Num.lt d y = true) :
    Num.lt d (Gen.single x y) = true := by
  rcases single_cases x y with h | h <;> rw [h] <;> assumption

/-- Core of the second step, about an arbitrary symmetric "matrix" `e` read through the state after
one single-linkage merge of `(r, c)`: the table value at the labels of `r₂`, `c₂` is `d₂`, and every
other live pair is strictly above `d₂`. -/
private theorem second_core (L : OrderLaws α) (s : NState α) (e : Nat → Nat → α)
    (n r c r₂ c₂ : Nat) (d₂ : α)
    (hsym : ∀ u v, e u v = e v u)
    (hrc : r < c) (hcn : c < n) (hrc₂ : r₂ < c₂) (hcn₂ : c₂ < n) (hne : ¬ (r₂ = r ∧ c₂ = c))
    (hDn : ∀ y, s.D n y = Gen.single (e r y) (e c y))
    (hDn' : ∀ x, x ≠ n → s.D x n = Gen.single (e r x) (e c x))
    (hDo : ∀ x y, x ≠ n → y ≠ n → s.D x y = e x y)
    (E2 : e r₂ c₂ = d₂)
    (E3 : ∀ u v, u < n → v < n → u ≠ v → ¬ pairEq u v r c → ¬ pairEq u v r₂ c₂ →
      Num.lt d₂ (e u v) = true) :
    s.D (C07_label n r c r₂) (C07_label n r c c₂) = d₂ ∧
    (∀ x y, (x < n ∧ x ≠ r ∧ x ≠ c) ∨ x = n → (y < n ∧ y ≠ r ∧ y ≠ c) ∨ y = n → x ≠ y →
      ¬ pairEq x y (C07_label n r c r₂) (C07_label n r c c₂) → Num.lt d₂ (s.D x y) = true) := by
  have E2' : e c₂ r₂ = d₂ := by rw [hsym]; exact E2
  constructor
  · unfold C07_label
    by_cases h1 : r₂ = r ∨ r₂ = c
    · have h2 : ¬ (c₂ = r ∨ c₂ = c) := by omega
      rw [if_pos h1, if_neg h2, hDn]
      rcases h1 with h1 | h1
      · subst h1
        rw [E2]
        exact single_left _ _ (E3 c c₂ hcn hcn₂ (by omega) (by unfold pairEq; omega)
          (by unfold pairEq; omega))
      · subst h1
        rw [E2]
        exact single_right L _ _ (E3 r c₂ (by omega) hcn₂ (by omega) (by unfold pairEq; omega)
          (by unfold pairEq; omega))
    · rw [if_neg h1]
      by_cases h2 : c₂ = r ∨ c₂ = c
      · rw [if_pos h2, hDn' _ (by omega)]
        rcases h2 with h2 | h2
        · subst h2
          rw [E2']
          exact single_left _ _ (by
            rw [hsym]
            exact E3 r₂ c (by omega) hcn (by omega) (by unfold pairEq; omega)
              (by unfold pairEq; omega))
        · subst h2
          rw [E2']
          exact single_right L _ _ (by
            rw [hsym]
            exact E3 r₂ r (by omega) (by omega) (by omega) (by unfold pairEq; omega)
              (by unfold pairEq; omega))
      · rw [if_neg h2, hDo _ _ (by omega) (by omega)]
        exact E2
  · intro x y hx hy hxy hnp
    unfold C07_label pairEq at hnp
    by_cases hxn : x = n
    · subst hxn
      have hy' : y < x ∧ y ≠ r ∧ y ≠ c := by omega
      rw [hDn]
      refine single_gt _ _ _ (E3 r y (by omega) hy'.1 (by omega) (by unfold pairEq; omega) ?_)
        (E3 c y (by omega) hy'.1 (by omega) (by unfold pairEq; omega) ?_)
      · unfold pairEq
        rintro (⟨h1, h2⟩ | ⟨h1, h2⟩)
        · subst h1 h2
          apply hnp; left; split_ifs <;> omega
        · subst h1 h2
          apply hnp; right; split_ifs <;> omega
      · unfold pairEq
        rintro (⟨h1, h2⟩ | ⟨h1, h2⟩)
        · subst h1 h2
          apply hnp; left; split_ifs <;> omega
        · subst h1 h2
          apply hnp; right; split_ifs <;> omega
    · have hx' : x < n ∧ x ≠ r ∧ x ≠ c := by omega
      by_cases hyn : y = n
      · subst hyn
        rw [hDn' _ hxn]
        refine single_gt _ _ _ (E3 r x (by omega) hx'.1 (by omega) (by unfold pairEq; omega) ?_)
          (E3 c x (by omega) hx'.1 (by omega) (by unfold pairEq; omega) ?_)
        · unfold pairEq
          rintro (⟨h1, h2⟩ | ⟨h1, h2⟩)
          · subst h1 h2
            apply hnp; right; split_ifs <;> omega
          · subst h1 h2
            apply hnp; left; split_ifs <;> omega
        · unfold pairEq
          rintro (⟨h1, h2⟩ | ⟨h1, h2⟩)
          · subst h1 h2
            apply hnp; right; split_ifs <;> omega
          · subst h1 h2
            apply hnp; left; split_ifs <;> omega
      · have hy' : y < n ∧ y ≠ r ∧ y ≠ c := by omega
        rw [hDo _ _ hxn hyn]
        refine E3 x y hx'.1 hy'.1 hxy (by unfold pairEq; omega) ?_
        unfold pairEq
        rintro (⟨h1, h2⟩ | ⟨h1, h2⟩)
        · subst h1 h2
          apply hnp; left; split_ifs <;> omega
        · subst h1 h2
          apply hnp; right; split_ifs <;> omega

omit [Num α] in
private theorem three_le_of_slots {n : Nat} {data : Array α} (hl : 2 * data.size = n * (n - 1))
    {k k₂ : Nat} (hk : k < data.size) (hk₂ : k₂ < data.size) (hkk : k₂ ≠ k) : 3 ≤ n := by
  rcases n with _ | _ | _ | n
  · simp only [Nat.zero_mul] at hl; omega
  · simp only [Nat.zero_add, Nat.sub_self, Nat.mul_zero] at hl; omega
  · simp at hl; omega
  · omega

/-- Distinct slots hold distinct pairs (injectivity of the index, `C07_bij`). -/
theorem C07_slots_ne (n k k₂ : Nat) (hkk : k₂ ≠ k) (r c r₂ c₂ : Nat)
    (hp : (pairs n)[k]? = some (r, c)) (hp₂ : (pairs n)[k₂]? = some (r₂, c₂)) :
    ¬ (r₂ = r ∧ c₂ = c) := by
  rintro ⟨rfl, rfl⟩
  have hb := (C07_bij n).2.2.2
  obtain ⟨hkl, he⟩ := List.getElem?_eq_some_iff.mp hp
  obtain ⟨hkl₂, he₂⟩ := List.getElem?_eq_some_iff.mp hp₂
  have b1 := (hb k hkl).2.2
  have b2 := (hb k₂ hkl₂).2.2
  rw [he] at b1; rw [he₂] at b2
  simp only at b1 b2
  omega

/-- The pair chosen by an admissible move in the state after the single-linkage merge of `(r, c)`
(only the clauses "two live labels, smaller first, no live pair strictly closer" are used). -/
private theorem second_pair (L : OrderLaws α) (n : Nat) (data : Array α)
    (hl : 2 * data.size = n * (n - 1))
    (k : Nat) (hk : k < data.size) (r c : Nat) (hp : (pairs n)[k]? = some (r, c))
    (k₂ : Nat) (hk₂ : k₂ < data.size) (hkk : k₂ ≠ k) (r₂ c₂ : Nat)
    (hp₂ : (pairs n)[k₂]? = some (r₂, c₂))
    (hmin₂ : ∀ j (hj : j < data.size), j ≠ k → j ≠ k₂ → Num.lt data[k₂] data[j] = true)
    (s2 : Step α)
    (a1 : s2.c1 ∈ (merge .single (init .single n data) r c).live)
    (a2 : s2.c2 ∈ (merge .single (init .single n data) r c).live) (a3 : s2.c1 < s2.c2)
    (a4 : ∀ x ∈ (merge .single (init .single n data) r c).live,
      ∀ y ∈ (merge .single (init .single n data) r c).live, x ≠ y →
      Num.lt ((merge .single (init .single n data) r c).D x y)
        ((merge .single (init .single n data) r c).D s2.c1 s2.c2) = false) :
    s2.c1 = min (C07_label n r c r₂) (C07_label n r c c₂) ∧
    s2.c2 = max (C07_label n r c r₂) (C07_label n r c c₂) ∧
    (merge .single (init .single n data) r c).D s2.c1 s2.c2 = data[k₂] ∧
    (merge .single (init .single n data) r c).size s2.c1 +
      (merge .single (init .single n data) r c).size s2.c2
        = C07_csize r c r₂ + C07_csize r c c₂ := by
  obtain ⟨hrc, hcn, hek⟩ := C07_slot_entry n data Num.infinity k hk r c hp
  obtain ⟨hrc₂, hcn₂, hek₂⟩ := C07_slot_entry n data Num.infinity k₂ hk₂ r₂ c₂ hp₂
  have hne := C07_slots_ne n k k₂ hkk r c r₂ c₂ hp hp₂
  -- the state after the first merge
  have hlive : ∀ x, x ∈ (merge .single (init .single n data) r c).live ↔
      (x < n ∧ x ≠ r ∧ x ≠ c) ∨ x = n := by
    intro x
    rw [mem_merge_live]
    simp [init]
  have hsz : ∀ x, (merge .single (init .single n data) r c).size x = if x = n then 2 else 1 := by
    intro x
    rfl
  have hsymD := merge_DSymm .single (init .single n data) r c (init_DSymm .single n data)
  -- the entries
  have E3 : ∀ u v, u < n → v < n → u ≠ v → ¬ pairEq u v r c → ¬ pairEq u v r₂ c₂ →
      Num.lt data[k₂] (entry n data Num.infinity u v) = true := by
    intro u v hu hv' huv n1 n2
    obtain ⟨j, hj, hpj, hej⟩ := C07_entry_slot n data hl Num.infinity u v hu hv' huv
    rw [hej]
    refine hmin₂ j hj ?_ ?_
    · rintro rfl
      rw [hp] at hpj
      simp only [Option.some.injEq, Prod.mk.injEq] at hpj
      apply n1; unfold pairEq; omega
    · rintro rfl
      rw [hp₂] at hpj
      simp only [Option.some.injEq, Prod.mk.injEq] at hpj
      apply n2; unfold pairEq; omega
  obtain ⟨T1, T2⟩ := second_core L (merge .single (init .single n data) r c)
    (entry n data Num.infinity) n r c r₂ c₂ data[k₂] (entry_symm n data Num.infinity)
    hrc hcn hrc₂ hcn₂ hne
    (fun y => merge_single_D_new (init .single n data) r c y)
    (fun x hx => merge_single_D_new' (init .single n data) r c x hx)
    (fun x y hx hy => merge_D_old .single (init .single n data) r c x y hx hy)
    hek₂ E3
  -- the labels of the two clusters
  have hpl : (C07_label n r c r₂ < n ∧ C07_label n r c r₂ ≠ r ∧ C07_label n r c r₂ ≠ c) ∨
      C07_label n r c r₂ = n := by
    unfold C07_label; split_ifs <;> omega
  have hql : (C07_label n r c c₂ < n ∧ C07_label n r c c₂ ≠ r ∧ C07_label n r c c₂ ≠ c) ∨
      C07_label n r c c₂ = n := by
    unfold C07_label; split_ifs <;> omega
  have hpq : C07_label n r c r₂ ≠ C07_label n r c c₂ := by
    unfold C07_label; split_ifs <;> omega
  have hpsz : (merge .single (init .single n data) r c).size (C07_label n r c r₂)
      = C07_csize r c r₂ := by
    rw [hsz]; unfold C07_label C07_csize; split_ifs <;> omega
  have hqsz : (merge .single (init .single n data) r c).size (C07_label n r c c₂)
      = C07_csize r c c₂ := by
    rw [hsz]; unfold C07_label C07_csize; split_ifs <;> omega
  have b1 := (hlive _).1 a1
  have b2 := (hlive _).1 a2
  have hpe : pairEq s2.c1 s2.c2 (C07_label n r c r₂) (C07_label n r c c₂) := by
    by_contra hnp
    have h1 := T2 s2.c1 s2.c2 b1 b2 (by omega) hnp
    have h2 := a4 _ ((hlive _).2 hpl) _ ((hlive _).2 hql) hpq
    rw [T1, h1] at h2
    cases h2
  unfold pairEq at hpe
  rcases hpe with ⟨e1, e2⟩ | ⟨e1, e2⟩
  · refine ⟨by omega, by omega, ?_, ?_⟩
    · rw [e1, e2, T1]
    · rw [e1, e2, hpsz, hqsz]
  · refine ⟨by omega, by omega, ?_, ?_⟩
    · rw [e1, e2, hsymD, T1]
    · rw [e1, e2, hpsz, hqsz, Nat.add_comm]

/-- **C07, second step under single linkage.**  Slot `k` holds the unique strictly smallest entry
and slot `k₂ ≠ k` the unique second-smallest one (strictly below every entry other than slot `k`).
Then every greedy single-linkage run starts with `(r, c, data[k], 2)` and continues with the merge of
the clusters containing `r₂` and `c₂` — label `n` for an observation in `{r, c}`, the observation
itself otherwise, smaller label first — at height exactly `data[k₂]`, with the merged size
(2 if the two pairs are disjoint, 3 if they share an observation: `C07_second_size`).
Only `OrderLaws.asymm` is used (`Gen.single x d₂` must select `d₂` when `d₂ < x`).
`3 ≤ n` is implied by the existence of two distinct slots. -/
theorem C07_second_step_single_of_greedy (L : OrderLaws α) (n : Nat) (data : Array α)
    (steps : List (Step α)) (hl : 2 * data.size = n * (n - 1))
    (hv : GreedyValid .single n data steps)
    (k : Nat) (hk : k < data.size) (r c : Nat) (hp : (pairs n)[k]? = some (r, c))
    (hmin : ∀ j (hj : j < data.size), j ≠ k → Num.lt data[k] data[j] = true)
    (k₂ : Nat) (hk₂ : k₂ < data.size) (hkk : k₂ ≠ k) (r₂ c₂ : Nat)
    (hp₂ : (pairs n)[k₂]? = some (r₂, c₂))
    (hmin₂ : ∀ j (hj : j < data.size), j ≠ k → j ≠ k₂ → Num.lt data[k₂] data[j] = true) :
    ∃ rest, steps = ⟨r, c, data[k], 2⟩ ::
      ⟨min (C07_label n r c r₂) (C07_label n r c c₂), max (C07_label n r c r₂) (C07_label n r c c₂),
        data[k₂], C07_csize r c r₂ + C07_csize r c c₂⟩ :: rest := by
  have h3 := three_le_of_slots hl hk hk₂ hkk
  obtain ⟨rest1, hs⟩ :=
    C07_first_step_of_greedy_plain .single rfl n data steps hl hv k hk r c hp hmin
  subst hs
  obtain ⟨hlen, -, hg⟩ := hv
  cases rest1 with
  | nil => simp at hlen; omega
  | cons s2 rest =>
  refine ⟨rest, ?_⟩
  obtain ⟨⟨a1, a2, a3, a4, a5, a6⟩, -⟩ := hg
  obtain ⟨e1, e2, e3, e4⟩ := second_pair L n data hl k hk r c hp k₂ hk₂ hkk r₂ c₂ hp₂ hmin₂ s2
    a1 a2 a3 a4
  have hpost : ∀ v : α, post .single v = v := fun _ => rfl
  cases s2 with
  | mk c1 c2 d size =>
    simp only at e1 e2 e3 e4 a5 a6
    rw [hpost, e3] at a5
    rw [e4] at a6
    rw [e1, e2, a5, a6]

/-- The size recorded by the second step: 3 when the two pairs share an observation, 2 when they
are disjoint (they cannot share both). -/
theorem C07_second_size (r c r₂ c₂ : Nat) (hrc : r < c) (hrc₂ : r₂ < c₂)
    (hne : ¬ (r₂ = r ∧ c₂ = c)) :
    C07_csize r c r₂ + C07_csize r c c₂ =
      if r₂ = r ∨ r₂ = c ∨ c₂ = r ∨ c₂ = c then 3 else 2 := by
  unfold C07_csize; split_ifs <;> omega

/-! ### The same two steps from `Spec.GreedyValidUpTo` (heights up to order-equivalence)

`Spec.GreedyValidUpTo` (`Lemmas/MstGreedyUpTo.lean`) is `Spec.GreedyValid` with the height clause
weakened to "recorded height and table value are incomparable"; it is what `C03_mst_upTo` proves
about `mst_with` WITHOUT `LtTrichotomy`, i.e. under hypotheses that are true of IEEE floats.  The
labels and sizes of the first two steps are determined exactly as before; the heights are
order-equivalent (`C07_equiv`; for floats: equal, or zeros of different sign) to the two entries. -/

/-- Order-equivalence: neither value is strictly below the other. -/
def C07_equiv (a b : α) : Prop := Num.lt a b = false ∧ Num.lt b a = false

/-- Where incomparable values are equal, order-equivalence is equality. -/
theorem C07_equiv_eq (T : LtTrichotomy α) {a b : α} (h : C07_equiv a b) : a = b := T a b h.1 h.2

/-- First step from `GreedyValidUpTo`: pair and size exact, height order-equivalent. -/
theorem C07_first_step_of_greedy_upTo (m : Method) (n : Nat) (data : Array α)
    (steps : List (Step α)) (hl : 2 * data.size = n * (n - 1))
    (hv : GreedyValidUpTo m n data steps) (k : Nat) (hk : k < data.size) (r c : Nat)
    (hp : (pairs n)[k]? = some (r, c))
    (hmin : ∀ j (hj : j < data.size), j ≠ k → Num.lt data[k] data[j] = true)
    (hsq : m.onSquares = true → ∀ j (hj : j < data.size), Num.lt data[k] data[j] = true →
      Num.lt (Num.mul data[k] data[k]) (Num.mul data[j] data[j]) = true) :
    ∃ s₁ rest, steps = s₁ :: rest ∧ s₁.c1 = r ∧ s₁.c2 = c ∧ s₁.size = 2 ∧
      C07_equiv s₁.d (C07_height m data[k]) := by
  have hn2 := two_le_of_slot hl hk
  have hmin' : ∀ j (hj : j < data.size), j ≠ k →
      Num.lt (C07_tab m data[k]) (C07_tab m data[j]) = true := by
    intro j hj hne
    cases hm : m.onSquares
    · simpa [C07_tab, hm] using hmin j hj hne
    · simpa [C07_tab, hm] using hsq hm j hj (hmin j hj hne)
  obtain ⟨hlen, hg⟩ := hv
  cases steps with
  | nil => simp at hlen; omega
  | cons st rest =>
    obtain ⟨⟨h1, h2, h3, h4, ⟨h5, h5'⟩, h6⟩, -⟩ := hg
    obtain ⟨e1, e2, e3, e4⟩ := first_pair m n data hl st h1 h2 h3 h4 k hk r c hp hmin'
    rw [e3] at h5 h5'
    exact ⟨st, rest, rfl, e1, e2, by rw [h6, e4], h5, h5'⟩

/-- First and second step under single linkage from `GreedyValidUpTo`. -/
theorem C07_second_step_single_of_greedy_upTo (L : OrderLaws α) (n : Nat) (data : Array α)
    (steps : List (Step α)) (hl : 2 * data.size = n * (n - 1))
    (hv : GreedyValidUpTo .single n data steps)
    (k : Nat) (hk : k < data.size) (r c : Nat) (hp : (pairs n)[k]? = some (r, c))
    (hmin : ∀ j (hj : j < data.size), j ≠ k → Num.lt data[k] data[j] = true)
    (k₂ : Nat) (hk₂ : k₂ < data.size) (hkk : k₂ ≠ k) (r₂ c₂ : Nat)
    (hp₂ : (pairs n)[k₂]? = some (r₂, c₂))
    (hmin₂ : ∀ j (hj : j < data.size), j ≠ k → j ≠ k₂ → Num.lt data[k₂] data[j] = true) :
    ∃ s₁ s₂ rest, steps = s₁ :: s₂ :: rest ∧
      (s₁.c1 = r ∧ s₁.c2 = c ∧ s₁.size = 2 ∧ C07_equiv s₁.d data[k]) ∧
      (s₂.c1 = min (C07_label n r c r₂) (C07_label n r c c₂) ∧
       s₂.c2 = max (C07_label n r c r₂) (C07_label n r c c₂) ∧
       s₂.size = C07_csize r c r₂ + C07_csize r c c₂ ∧ C07_equiv s₂.d data[k₂]) := by
  have h3 := three_le_of_slots hl hk hk₂ hkk
  obtain ⟨s₁, rest1, hs, f1, f2, f3, f4⟩ := C07_first_step_of_greedy_upTo .single n data steps hl hv
    k hk r c hp hmin (fun h => by cases h)
  rw [C07_height_plain rfl] at f4
  subst hs
  obtain ⟨hlen, -, hg⟩ := hv
  cases rest1 with
  | nil => simp at hlen; omega
  | cons s2 rest =>
  obtain ⟨⟨a1, a2, a3, a4, ⟨a5, a5'⟩, a6⟩, -⟩ := hg
  rw [f1, f2] at a1 a2 a4 a5 a5' a6
  obtain ⟨e1, e2, e3, e4⟩ := second_pair L n data hl k hk r c hp k₂ hk₂ hkk r₂ c₂ hp₂ hmin₂ s2
    a1 a2 a3 a4
  have hpost : ∀ v : α, post .single v = v := fun _ => rfl
  rw [hpost, e3] at a5 a5'
  exact ⟨s₁, s2, rest, rfl, ⟨f1, f2, f3, f4⟩, e1, e2, by rw [a6, e4], a5, a5'⟩

/-! ## 3. Entry points (composition with the C03 theorems) -/

private theorem lift_total {X : R (State α × Dendrogram α × Mat α)} {m : Method} {n : Nat}
    {data : Array α} {P : List (Step α) → Prop}
    (h : ∃ st' d' M', X = .ok (st', d', M') ∧ GreedyValid m n data d'.steps.toList)
    (hP : ∀ steps, GreedyValid m n data steps → P steps) :
    ∃ st' d' M', X = .ok (st', d', M') ∧ P d'.steps.toList := by
  obtain ⟨st', d', M', h1, h2⟩ := h
  exact ⟨st', d', M', h1, hP _ h2⟩

/-! ### `mst_with` and `linkage_with(.., Single)` -/

/-- `mst_with` returns and its first step merges the pair of the unique smallest entry at exactly
that value.  Hypotheses of `C03_mst_total`. -/
theorem C07_first_step_mst (L : OrderLaws α) (T : LtTrichotomy α) (chk : Bool) (st : State α)
    (d : Dendrogram α) (data : Array α) (n : Nat) (hs : n < 2147483648)
    (hl : 2 * data.size = n * (n - 1)) (hnan : NoNaN n data) (hinf : InfTop n data)
    (k : Nat) (hk : k < data.size) (r c : Nat) (hp : (pairs n)[k]? = some (r, c))
    (hmin : ∀ j (hj : j < data.size), j ≠ k → Num.lt data[k] data[j] = true) :
    ∃ st' d' M', mstWith chk st d data n = .ok (st', d', M') ∧
      ∃ rest, d'.steps.toList = ⟨r, c, data[k], 2⟩ :: rest :=
  lift_total (C03_mst_total L T chk st d data n (two_le_of_slot hl hk) hs hl hnan hinf)
    (fun steps hv => C07_first_step_of_greedy_plain .single rfl n data steps hl hv k hk r c hp hmin)

/-- `mst_with`: first and second step (unique smallest and unique second-smallest entry). -/
theorem C07_second_step_mst (L : OrderLaws α) (T : LtTrichotomy α) (chk : Bool) (st : State α)
    (d : Dendrogram α) (data : Array α) (n : Nat) (hs : n < 2147483648)
    (hl : 2 * data.size = n * (n - 1)) (hnan : NoNaN n data) (hinf : InfTop n data)
    (k : Nat) (hk : k < data.size) (r c : Nat) (hp : (pairs n)[k]? = some (r, c))
    (hmin : ∀ j (hj : j < data.size), j ≠ k → Num.lt data[k] data[j] = true)
    (k₂ : Nat) (hk₂ : k₂ < data.size) (hkk : k₂ ≠ k) (r₂ c₂ : Nat)
    (hp₂ : (pairs n)[k₂]? = some (r₂, c₂))
    (hmin₂ : ∀ j (hj : j < data.size), j ≠ k → j ≠ k₂ → Num.lt data[k₂] data[j] = true) :
    ∃ st' d' M', mstWith chk st d data n = .ok (st', d', M') ∧
      ∃ rest, d'.steps.toList = ⟨r, c, data[k], 2⟩ ::
        ⟨min (C07_label n r c r₂) (C07_label n r c c₂),
          max (C07_label n r c r₂) (C07_label n r c c₂),
          data[k₂], C07_csize r c r₂ + C07_csize r c c₂⟩ :: rest :=
  lift_total (C03_mst_total L T chk st d data n (two_le_of_slot hl hk) hs hl hnan hinf)
    (fun steps hv => C07_second_step_single_of_greedy L n data steps hl hv k hk r c hp hmin
      k₂ hk₂ hkk r₂ c₂ hp₂ hmin₂)

/-- `linkage_with(.., Method::Single, ..)` (routed to `mst_with`): first step. -/
theorem C07_first_step_linkage_single (L : OrderLaws α) (T : LtTrichotomy α) (chk : Bool)
    (st : State α) (d : Dendrogram α) (data : Array α) (n : Nat) (hs : n < 2147483648)
    (hl : 2 * data.size = n * (n - 1)) (hnan : NoNaN n data) (hinf : InfTop n data)
    (k : Nat) (hk : k < data.size) (r c : Nat) (hp : (pairs n)[k]? = some (r, c))
    (hmin : ∀ j (hj : j < data.size), j ≠ k → Num.lt data[k] data[j] = true) :
    ∃ st' d' M', linkageWith chk .single st d data n = .ok (st', d', M') ∧
      ∃ rest, d'.steps.toList = ⟨r, c, data[k], 2⟩ :: rest := by
  rw [linkage_single_eq]
  exact C07_first_step_mst L T chk st d data n hs hl hnan hinf k hk r c hp hmin

/-- `linkage_with(.., Method::Single, ..)`: first and second step. -/
theorem C07_second_step_linkage_single (L : OrderLaws α) (T : LtTrichotomy α) (chk : Bool)
    (st : State α) (d : Dendrogram α) (data : Array α) (n : Nat) (hs : n < 2147483648)
    (hl : 2 * data.size = n * (n - 1)) (hnan : NoNaN n data) (hinf : InfTop n data)
    (k : Nat) (hk : k < data.size) (r c : Nat) (hp : (pairs n)[k]? = some (r, c))
    (hmin : ∀ j (hj : j < data.size), j ≠ k → Num.lt data[k] data[j] = true)
    (k₂ : Nat) (hk₂ : k₂ < data.size) (hkk : k₂ ≠ k) (r₂ c₂ : Nat)
    (hp₂ : (pairs n)[k₂]? = some (r₂, c₂))
    (hmin₂ : ∀ j (hj : j < data.size), j ≠ k → j ≠ k₂ → Num.lt data[k₂] data[j] = true) :
    ∃ st' d' M', linkageWith chk .single st d data n = .ok (st', d', M') ∧
      ∃ rest, d'.steps.toList = ⟨r, c, data[k], 2⟩ ::
        ⟨min (C07_label n r c r₂) (C07_label n r c c₂),
          max (C07_label n r c r₂) (C07_label n r c c₂),
          data[k₂], C07_csize r c r₂ + C07_csize r c c₂⟩ :: rest := by
  rw [linkage_single_eq]
  exact C07_second_step_mst L T chk st d data n hs hl hnan hinf k hk r c hp hmin
    k₂ hk₂ hkk r₂ c₂ hp₂ hmin₂

/-- `mst_with` WITHOUT `LtTrichotomy` (hypotheses true of IEEE floats on NaN-free input: `OrderLaws`,
`NoNaN`, `InfTop`): the call returns, its first step merges exactly the pair of the unique smallest
entry with size 2, and the recorded height is order-equivalent to that entry. -/
theorem C07_first_step_mst_upTo (L : OrderLaws α) (chk : Bool) (st : State α)
    (d : Dendrogram α) (data : Array α) (n : Nat) (hs : n < 2147483648)
    (hl : 2 * data.size = n * (n - 1)) (hnan : NoNaN n data) (hinf : InfTop n data)
    (k : Nat) (hk : k < data.size) (r c : Nat) (hp : (pairs n)[k]? = some (r, c))
    (hmin : ∀ j (hj : j < data.size), j ≠ k → Num.lt data[k] data[j] = true) :
    ∃ st' d' M', mstWith chk st d data n = .ok (st', d', M') ∧
      ∃ s₁ rest, d'.steps.toList = s₁ :: rest ∧ s₁.c1 = r ∧ s₁.c2 = c ∧ s₁.size = 2 ∧
        C07_equiv s₁.d data[k] := by
  have h2 := two_le_of_slot hl hk
  obtain ⟨⟨st', d', M'⟩, hr⟩ := C04_mst_total L chk st d data n h2 hs hl hnan hinf
  have hv := C03_mst_upTo L chk st st' d d' data n M' h2 hs hl hnan hinf hr
  have := C07_first_step_of_greedy_upTo .single n data _ hl hv k hk r c hp hmin
    (fun h => by cases h)
  rw [C07_height_plain rfl] at this
  exact ⟨st', d', M', hr, this⟩

/-- `mst_with` WITHOUT `LtTrichotomy`: first and second step. -/
theorem C07_second_step_mst_upTo (L : OrderLaws α) (chk : Bool) (st : State α)
    (d : Dendrogram α) (data : Array α) (n : Nat) (hs : n < 2147483648)
    (hl : 2 * data.size = n * (n - 1)) (hnan : NoNaN n data) (hinf : InfTop n data)
    (k : Nat) (hk : k < data.size) (r c : Nat) (hp : (pairs n)[k]? = some (r, c))
    (hmin : ∀ j (hj : j < data.size), j ≠ k → Num.lt data[k] data[j] = true)
    (k₂ : Nat) (hk₂ : k₂ < data.size) (hkk : k₂ ≠ k) (r₂ c₂ : Nat)
    (hp₂ : (pairs n)[k₂]? = some (r₂, c₂))
    (hmin₂ : ∀ j (hj : j < data.size), j ≠ k → j ≠ k₂ → Num.lt data[k₂] data[j] = true) :
    ∃ st' d' M', mstWith chk st d data n = .ok (st', d', M') ∧
      ∃ s₁ s₂ rest, d'.steps.toList = s₁ :: s₂ :: rest ∧
        (s₁.c1 = r ∧ s₁.c2 = c ∧ s₁.size = 2 ∧ C07_equiv s₁.d data[k]) ∧
        (s₂.c1 = min (C07_label n r c r₂) (C07_label n r c c₂) ∧
         s₂.c2 = max (C07_label n r c r₂) (C07_label n r c c₂) ∧
         s₂.size = C07_csize r c r₂ + C07_csize r c c₂ ∧ C07_equiv s₂.d data[k₂]) := by
  have h2 := two_le_of_slot hl hk
  obtain ⟨⟨st', d', M'⟩, hr⟩ := C04_mst_total L chk st d data n h2 hs hl hnan hinf
  have hv := C03_mst_upTo L chk st st' d d' data n M' h2 hs hl hnan hinf hr
  exact ⟨st', d', M', hr, C07_second_step_single_of_greedy_upTo L n data _ hl hv k hk r c hp hmin
    k₂ hk₂ hkk r₂ c₂ hp₂ hmin₂⟩

/-- `linkage_with(.., Method::Single, ..)` WITHOUT `LtTrichotomy`: first step. -/
theorem C07_first_step_linkage_single_upTo (L : OrderLaws α) (chk : Bool) (st : State α)
    (d : Dendrogram α) (data : Array α) (n : Nat) (hs : n < 2147483648)
    (hl : 2 * data.size = n * (n - 1)) (hnan : NoNaN n data) (hinf : InfTop n data)
    (k : Nat) (hk : k < data.size) (r c : Nat) (hp : (pairs n)[k]? = some (r, c))
    (hmin : ∀ j (hj : j < data.size), j ≠ k → Num.lt data[k] data[j] = true) :
    ∃ st' d' M', linkageWith chk .single st d data n = .ok (st', d', M') ∧
      ∃ s₁ rest, d'.steps.toList = s₁ :: rest ∧ s₁.c1 = r ∧ s₁.c2 = c ∧ s₁.size = 2 ∧
        C07_equiv s₁.d data[k] := by
  rw [linkage_single_eq]
  exact C07_first_step_mst_upTo L chk st d data n hs hl hnan hinf k hk r c hp hmin

/-- `linkage_with(.., Method::Single, ..)` WITHOUT `LtTrichotomy`: first and second step. -/
theorem C07_second_step_linkage_single_upTo (L : OrderLaws α) (chk : Bool) (st : State α)
    (d : Dendrogram α) (data : Array α) (n : Nat) (hs : n < 2147483648)
    (hl : 2 * data.size = n * (n - 1)) (hnan : NoNaN n data) (hinf : InfTop n data)
    (k : Nat) (hk : k < data.size) (r c : Nat) (hp : (pairs n)[k]? = some (r, c))
    (hmin : ∀ j (hj : j < data.size), j ≠ k → Num.lt data[k] data[j] = true)
    (k₂ : Nat) (hk₂ : k₂ < data.size) (hkk : k₂ ≠ k) (r₂ c₂ : Nat)
    (hp₂ : (pairs n)[k₂]? = some (r₂, c₂))
    (hmin₂ : ∀ j (hj : j < data.size), j ≠ k → j ≠ k₂ → Num.lt data[k₂] data[j] = true) :
    ∃ st' d' M', linkageWith chk .single st d data n = .ok (st', d', M') ∧
      ∃ s₁ s₂ rest, d'.steps.toList = s₁ :: s₂ :: rest ∧
        (s₁.c1 = r ∧ s₁.c2 = c ∧ s₁.size = 2 ∧ C07_equiv s₁.d data[k]) ∧
        (s₂.c1 = min (C07_label n r c r₂) (C07_label n r c c₂) ∧
         s₂.c2 = max (C07_label n r c r₂) (C07_label n r c c₂) ∧
         s₂.size = C07_csize r c r₂ + C07_csize r c c₂ ∧ C07_equiv s₂.d data[k₂]) := by
  rw [linkage_single_eq]
  exact C07_second_step_mst_upTo L chk st d data n hs hl hnan hinf k hk r c hp hmin
    k₂ hk₂ hkk r₂ c₂ hp₂ hmin₂

/-! ### `primitive_with` -/

/-- `primitive_with`, single linkage, abstract number type (hypotheses of `C03_primitive_single`):
first step. -/
theorem C07_first_step_primitive_single (L : OrderLaws α) (T : LtTrichotomy α) (chk : Bool)
    (st : State α) (d : Dendrogram α) (data : Array α) (n : Nat) (hs : n < 2147483648)
    (hl : 2 * data.size = n * (n - 1)) (h0 : InitNoNaN .single n data)
    (k : Nat) (hk : k < data.size) (r c : Nat) (hp : (pairs n)[k]? = some (r, c))
    (hmin : ∀ j (hj : j < data.size), j ≠ k → Num.lt data[k] data[j] = true) :
    ∃ st' d' M', primitiveWith chk .single st d data n = .ok (st', d', M') ∧
      ∃ rest, d'.steps.toList = ⟨r, c, data[k], 2⟩ :: rest :=
  lift_total (C03_primitive_single L T chk st d data n (two_le_of_slot hl hk) hs hl h0)
    (fun steps hv => C07_first_step_of_greedy_plain .single rfl n data steps hl hv k hk r c hp hmin)

/-- `primitive_with`, complete linkage, abstract number type: first step. -/
theorem C07_first_step_primitive_complete (L : OrderLaws α) (T : LtTrichotomy α) (chk : Bool)
    (st : State α) (d : Dendrogram α) (data : Array α) (n : Nat) (hs : n < 2147483648)
    (hl : 2 * data.size = n * (n - 1)) (h0 : InitNoNaN .complete n data)
    (k : Nat) (hk : k < data.size) (r c : Nat) (hp : (pairs n)[k]? = some (r, c))
    (hmin : ∀ j (hj : j < data.size), j ≠ k → Num.lt data[k] data[j] = true) :
    ∃ st' d' M', primitiveWith chk .complete st d data n = .ok (st', d', M') ∧
      ∃ rest, d'.steps.toList = ⟨r, c, data[k], 2⟩ :: rest :=
  lift_total (C03_primitive_complete L T chk st d data n (two_le_of_slot hl hk) hs hl h0)
    (fun steps hv =>
      C07_first_step_of_greedy_plain .complete rfl n data steps hl hv k hk r c hp hmin)

/-- `primitive_with`, single linkage: first and second step. -/
theorem C07_second_step_primitive_single (L : OrderLaws α) (T : LtTrichotomy α) (chk : Bool)
    (st : State α) (d : Dendrogram α) (data : Array α) (n : Nat) (hs : n < 2147483648)
    (hl : 2 * data.size = n * (n - 1)) (h0 : InitNoNaN .single n data)
    (k : Nat) (hk : k < data.size) (r c : Nat) (hp : (pairs n)[k]? = some (r, c))
    (hmin : ∀ j (hj : j < data.size), j ≠ k → Num.lt data[k] data[j] = true)
    (k₂ : Nat) (hk₂ : k₂ < data.size) (hkk : k₂ ≠ k) (r₂ c₂ : Nat)
    (hp₂ : (pairs n)[k₂]? = some (r₂, c₂))
    (hmin₂ : ∀ j (hj : j < data.size), j ≠ k → j ≠ k₂ → Num.lt data[k₂] data[j] = true) :
    ∃ st' d' M', primitiveWith chk .single st d data n = .ok (st', d', M') ∧
      ∃ rest, d'.steps.toList = ⟨r, c, data[k], 2⟩ ::
        ⟨min (C07_label n r c r₂) (C07_label n r c c₂),
          max (C07_label n r c r₂) (C07_label n r c c₂),
          data[k₂], C07_csize r c r₂ + C07_csize r c c₂⟩ :: rest :=
  lift_total (C03_primitive_single L T chk st d data n (two_le_of_slot hl hk) hs hl h0)
    (fun steps hv => C07_second_step_single_of_greedy L n data steps hl hv k hk r c hp hmin
      k₂ hk₂ hkk r₂ c₂ hp₂ hmin₂)

/-! ### `generic_with` -/

section Generic
variable {G : α → Prop}

/-- `generic_with`, any method under the hypotheses of `C03_generic_reducible` (single, complete
unconditionally — see `C07_first_step_generic_single`; average, weighted, Ward with `Reducible` /
`LBClosed` as hypotheses, i.e. exact arithmetic): first step.  `hsq` as in
`C07_first_step_of_greedy`. -/
theorem C07_first_step_generic (L : OrderLaws α) (hbeq : BeqLe α) (gs : GoodSet G)
    (chk : Bool) (m : Method) (hcl : UpdClosed G m) (hlbc : l1Mode m = .fix → LBClosed G m)
    (hsym : LwSymm α m) (hred : Reducible α m) (hmax : Num.isNaN (Num.maxValue : α) = false)
    (st : State α) (d : Dendrogram α) (data : Array α) (n : Nat)
    (hs : n < 2147483648) (hl : 2 * data.size = n * (n - 1))
    (hin : ∀ i (h : i < (squareData m data).size), G (squareData m data)[i])
    (k : Nat) (hk : k < data.size) (r c : Nat) (hp : (pairs n)[k]? = some (r, c))
    (hmin : ∀ j (hj : j < data.size), j ≠ k → Num.lt data[k] data[j] = true)
    (hsq : m.onSquares = true → ∀ j (hj : j < data.size), Num.lt data[k] data[j] = true →
      Num.lt (Num.mul data[k] data[k]) (Num.mul data[j] data[j]) = true) :
    ∃ st' d' M', genericWith chk m st d data n = .ok (st', d', M') ∧
      ∃ rest, d'.steps.toList = ⟨r, c, C07_height m data[k], 2⟩ :: rest :=
  lift_total (C03_generic_reducible L hbeq gs chk m hcl hlbc hsym hred hmax st d data n
      (two_le_of_slot hl hk) hs hl hin)
    (fun steps hv => C07_first_step_of_greedy m n data steps hl hv k hk r c hp hmin hsq)

/-- `generic_with`, centroid and median (hypotheses of `C03_generic_unsorted`): first step, height
`sqrt (data[k]·data[k])`. -/
theorem C07_first_step_generic_unsorted (L : OrderLaws α) (hbeq : BeqLe α) (gs : GoodSet G)
    (chk : Bool) (m : Method) (hm : m.requiresSorting = false) (hcl : UpdClosed G m)
    (hsym : LwSymm α m) (hmax : Num.isNaN (Num.maxValue : α) = false)
    (st : State α) (d : Dendrogram α) (data : Array α) (n : Nat)
    (hs : n < 2147483648) (hl : 2 * data.size = n * (n - 1))
    (hin : ∀ i (h : i < (squareData m data).size), G (squareData m data)[i])
    (k : Nat) (hk : k < data.size) (r c : Nat) (hp : (pairs n)[k]? = some (r, c))
    (hmin : ∀ j (hj : j < data.size), j ≠ k → Num.lt data[k] data[j] = true)
    (hsq : m.onSquares = true → ∀ j (hj : j < data.size), Num.lt data[k] data[j] = true →
      Num.lt (Num.mul data[k] data[k]) (Num.mul data[j] data[j]) = true) :
    ∃ st' d' M', genericWith chk m st d data n = .ok (st', d', M') ∧
      ∃ rest, d'.steps.toList = ⟨r, c, C07_height m data[k], 2⟩ :: rest :=
  lift_total (C03_generic_unsorted L hbeq gs chk m hm hcl hsym hmax st d data n
      (two_le_of_slot hl hk) hs hl hin)
    (fun steps hv => C07_first_step_of_greedy m n data steps hl hv k hk r c hp hmin hsq)

/-- `generic_with`, single linkage (hypotheses of `C03_generic_single`): first step. -/
theorem C07_first_step_generic_single (L : OrderLaws α) (T : LtTrichotomy α) (hbeq : BeqLe α)
    (gs : GoodSet G) (chk : Bool) (hmax : Num.isNaN (Num.maxValue : α) = false)
    (st : State α) (d : Dendrogram α) (data : Array α) (n : Nat)
    (hs : n < 2147483648) (hl : 2 * data.size = n * (n - 1))
    (hin : ∀ i (h : i < (squareData .single data).size), G (squareData .single data)[i])
    (k : Nat) (hk : k < data.size) (r c : Nat) (hp : (pairs n)[k]? = some (r, c))
    (hmin : ∀ j (hj : j < data.size), j ≠ k → Num.lt data[k] data[j] = true) :
    ∃ st' d' M', genericWith chk .single st d data n = .ok (st', d', M') ∧
      ∃ rest, d'.steps.toList = ⟨r, c, data[k], 2⟩ :: rest :=
  lift_total (C03_generic_single L T hbeq gs chk hmax st d data n (two_le_of_slot hl hk) hs hl hin)
    (fun steps hv => C07_first_step_of_greedy_plain .single rfl n data steps hl hv k hk r c hp hmin)

/-- `generic_with`, single linkage: first and second step. -/
theorem C07_second_step_generic_single (L : OrderLaws α) (T : LtTrichotomy α) (hbeq : BeqLe α)
    (gs : GoodSet G) (chk : Bool) (hmax : Num.isNaN (Num.maxValue : α) = false)
    (st : State α) (d : Dendrogram α) (data : Array α) (n : Nat)
    (hs : n < 2147483648) (hl : 2 * data.size = n * (n - 1))
    (hin : ∀ i (h : i < (squareData .single data).size), G (squareData .single data)[i])
    (k : Nat) (hk : k < data.size) (r c : Nat) (hp : (pairs n)[k]? = some (r, c))
    (hmin : ∀ j (hj : j < data.size), j ≠ k → Num.lt data[k] data[j] = true)
    (k₂ : Nat) (hk₂ : k₂ < data.size) (hkk : k₂ ≠ k) (r₂ c₂ : Nat)
    (hp₂ : (pairs n)[k₂]? = some (r₂, c₂))
    (hmin₂ : ∀ j (hj : j < data.size), j ≠ k → j ≠ k₂ → Num.lt data[k₂] data[j] = true) :
    ∃ st' d' M', genericWith chk .single st d data n = .ok (st', d', M') ∧
      ∃ rest, d'.steps.toList = ⟨r, c, data[k], 2⟩ ::
        ⟨min (C07_label n r c r₂) (C07_label n r c c₂),
          max (C07_label n r c r₂) (C07_label n r c c₂),
          data[k₂], C07_csize r c r₂ + C07_csize r c c₂⟩ :: rest :=
  lift_total (C03_generic_single L T hbeq gs chk hmax st d data n (two_le_of_slot hl hk) hs hl hin)
    (fun steps hv => C07_second_step_single_of_greedy L n data steps hl hv k hk r c hp hmin
      k₂ hk₂ hkk r₂ c₂ hp₂ hmin₂)

end Generic

/-! ### `nnchain_with`, single linkage, abstract number type -/

/-- `nnchain_with`, single linkage (hypotheses of `C03_nnchain_single_laws`: `<` is a linear order
without NaN): first step. -/
theorem C07_first_step_nnchain_single (L : OrderLaws α) (T : LtTrichotomy α)
    (hnan : ∀ x : α, Num.isNaN x = false) (chk : Bool)
    (st : State α) (d : Dendrogram α) (data : Array α) (n : Nat)
    (hs : n < 2147483648) (hl : 2 * data.size = n * (n - 1))
    (k : Nat) (hk : k < data.size) (r c : Nat) (hp : (pairs n)[k]? = some (r, c))
    (hmin : ∀ j (hj : j < data.size), j ≠ k → Num.lt data[k] data[j] = true) :
    ∃ st' d' M', nnchainWith chk .single st d data n = .ok (st', d', M') ∧
      ∃ rest, d'.steps.toList = ⟨r, c, data[k], 2⟩ :: rest :=
  lift_total (C03_nnchain_single_laws L T hnan chk st d data n (two_le_of_slot hl hk) hs hl)
    (fun steps hv => C07_first_step_of_greedy_plain .single rfl n data steps hl hv k hk r c hp hmin)

/-- `nnchain_with`, single linkage: first and second step. -/
theorem C07_second_step_nnchain_single (L : OrderLaws α) (T : LtTrichotomy α)
    (hnan : ∀ x : α, Num.isNaN x = false) (chk : Bool)
    (st : State α) (d : Dendrogram α) (data : Array α) (n : Nat)
    (hs : n < 2147483648) (hl : 2 * data.size = n * (n - 1))
    (k : Nat) (hk : k < data.size) (r c : Nat) (hp : (pairs n)[k]? = some (r, c))
    (hmin : ∀ j (hj : j < data.size), j ≠ k → Num.lt data[k] data[j] = true)
    (k₂ : Nat) (hk₂ : k₂ < data.size) (hkk : k₂ ≠ k) (r₂ c₂ : Nat)
    (hp₂ : (pairs n)[k₂]? = some (r₂, c₂))
    (hmin₂ : ∀ j (hj : j < data.size), j ≠ k → j ≠ k₂ → Num.lt data[k₂] data[j] = true) :
    ∃ st' d' M', nnchainWith chk .single st d data n = .ok (st', d', M') ∧
      ∃ rest, d'.steps.toList = ⟨r, c, data[k], 2⟩ ::
        ⟨min (C07_label n r c r₂) (C07_label n r c c₂),
          max (C07_label n r c r₂) (C07_label n r c c₂),
          data[k₂], C07_csize r c r₂ + C07_csize r c c₂⟩ :: rest :=
  lift_total (C03_nnchain_single_laws L T hnan chk st d data n (two_le_of_slot hl hk) hs hl)
    (fun steps hv => C07_second_step_single_of_greedy L n data steps hl hv k hk r c hp hmin
      k₂ hk₂ hkk r₂ c₂ hp₂ hmin₂)

section Exact
variable {K : Type} [Field K] [LinearOrder K] [IsStrictOrderedRing K] [Num K]

/-- In exact arithmetic squaring is strictly monotone from a non-negative value upwards. -/
theorem C07_sq_lt_exact (F : FieldLaws K) (a b : K) (ha : 0 ≤ a) (h : Num.lt a b = true) :
    Num.lt (Num.mul a a) (Num.mul b b) = true := by
  rw [F.lt_true] at h ⊢
  rw [F.mul, F.mul]
  exact mul_self_lt_mul_self ha h

/-- **C07, first step, exact arithmetic, all seven methods.**  For the methods on squares the
smallest entry must be non-negative (otherwise squaring reorders the entries). -/
theorem C07_first_step_of_greedy_exact (F : FieldLaws K) (m : Method) (n : Nat) (data : Array K)
    (steps : List (Step K)) (hl : 2 * data.size = n * (n - 1))
    (hv : GreedyValid m n data steps) (k : Nat) (hk : k < data.size) (r c : Nat)
    (hp : (pairs n)[k]? = some (r, c))
    (hmin : ∀ j (hj : j < data.size), j ≠ k → Num.lt data[k] data[j] = true)
    (h0 : m.onSquares = true → 0 ≤ data[k]) :
    ∃ rest, steps = ⟨r, c, C07_height m data[k], 2⟩ :: rest :=
  C07_first_step_of_greedy m n data steps hl hv k hk r c hp hmin
    (fun hm _ _ h => C07_sq_lt_exact F _ _ (h0 hm) h)

/-! ### Entry points in exact arithmetic (all methods) -/

/-- `primitive_with`, all seven methods, exact arithmetic (`C03_primitive_exact`): first step. -/
theorem C07_first_step_primitive (E : ExactLaws K) (chk : Bool) (m : Method) (st : State K)
    (d : Dendrogram K) (data : Array K) (n : Nat) (hs : n < 2147483648)
    (hl : 2 * data.size = n * (n - 1))
    (k : Nat) (hk : k < data.size) (r c : Nat) (hp : (pairs n)[k]? = some (r, c))
    (hmin : ∀ j (hj : j < data.size), j ≠ k → Num.lt data[k] data[j] = true)
    (h0 : m.onSquares = true → 0 ≤ data[k]) :
    ∃ st' d' M', primitiveWith chk m st d data n = .ok (st', d', M') ∧
      ∃ rest, d'.steps.toList = ⟨r, c, C07_height m data[k], 2⟩ :: rest :=
  lift_total (C03_primitive_exact E chk m st d data n (two_le_of_slot hl hk) hs hl)
    (fun steps hv =>
      C07_first_step_of_greedy_exact E.field m n data steps hl hv k hk r c hp hmin h0)

/-- `nnchain_with`, all five methods it accepts, exact arithmetic (`C03_nnchain_exact`): first
step. -/
theorem C07_first_step_nnchain (E : ExactLaws K) (chk : Bool) (mc : MethodChain) (st : State K)
    (d : Dendrogram K) (data : Array K) (n : Nat) (hs : n < 2147483648)
    (hl : 2 * data.size = n * (n - 1))
    (k : Nat) (hk : k < data.size) (r c : Nat) (hp : (pairs n)[k]? = some (r, c))
    (hmin : ∀ j (hj : j < data.size), j ≠ k → Num.lt data[k] data[j] = true)
    (h0 : mc.intoMethod.onSquares = true → 0 ≤ data[k]) :
    ∃ st' d' M', nnchainWith chk mc st d data n = .ok (st', d', M') ∧
      ∃ rest, d'.steps.toList = ⟨r, c, C07_height mc.intoMethod data[k], 2⟩ :: rest :=
  lift_total (C03_nnchain_exact E chk mc st d data n (two_le_of_slot hl hk) hs hl)
    (fun steps hv =>
      C07_first_step_of_greedy_exact E.field mc.intoMethod n data steps hl hv k hk r c hp hmin h0)

/-- `linkage_with` returns a greedy-valid dendrogram for every method in exact arithmetic: single
through `mst_with` (needs `InfTop`: the sentinel is not below an entry), complete / average /
weighted / Ward through `nnchain_with`, centroid / median through `generic_with` (needs the value
hypotheses of `C03_linkage_centroid_median` for some good set `G`). -/
theorem C07_linkage_greedy_exact (E : ExactLaws K) (chk : Bool) (m : Method) (st : State K)
    (d : Dendrogram K) (data : Array K) (n : Nat) (h2 : 2 ≤ n) (hs : n < 2147483648)
    (hl : 2 * data.size = n * (n - 1))
    (hinf : m = .single → InfTop n data)
    (hgen : m = .centroid ∨ m = .median → ∃ G : K → Prop, BeqLe K ∧ GoodSet G ∧ UpdClosed G m ∧
      Num.isNaN (Num.maxValue : K) = false ∧
      ∀ i (h : i < (squareData m data).size), G (squareData m data)[i]) :
    ∃ st' d' M', linkageWith chk m st d data n = .ok (st', d', M') ∧
      GreedyValid m n data d'.steps.toList := by
  have gen : m = .centroid ∨ m = .median →
      ∃ st' d' M', linkageWith chk m st d data n = .ok (st', d', M') ∧
        GreedyValid m n data d'.steps.toList := fun hm => by
    obtain ⟨G, hbeq, gs, hcl, hmax, hin⟩ := hgen hm
    exact (C03_linkage_centroid_median E.field.orderLaws hbeq gs chk m hm hcl (E.field.lwSymm m)
      hmax st d data n h2 hs hl hin).2
  cases m with
  | single =>
    exact C03_linkage_single_total E.field.orderLaws E.field.ltTrichotomy chk st d data n h2 hs hl
      (E.noNaN_data n data) (hinf rfl)
  | complete => exact C03_linkage_nnchain E chk .complete (by decide) st d data n h2 hs hl
  | average => exact C03_linkage_nnchain E chk .average (by decide) st d data n h2 hs hl
  | weighted => exact C03_linkage_nnchain E chk .weighted (by decide) st d data n h2 hs hl
  | ward => exact C03_linkage_nnchain E chk .ward (by decide) st d data n h2 hs hl
  | centroid => exact gen (Or.inl rfl)
  | median => exact gen (Or.inr rfl)

/-- `linkage_with`, all seven methods, exact arithmetic: first step. -/
theorem C07_first_step_linkage (E : ExactLaws K) (chk : Bool) (m : Method) (st : State K)
    (d : Dendrogram K) (data : Array K) (n : Nat) (hs : n < 2147483648)
    (hl : 2 * data.size = n * (n - 1))
    (hinf : m = .single → InfTop n data)
    (hgen : m = .centroid ∨ m = .median → ∃ G : K → Prop, BeqLe K ∧ GoodSet G ∧ UpdClosed G m ∧
      Num.isNaN (Num.maxValue : K) = false ∧
      ∀ i (h : i < (squareData m data).size), G (squareData m data)[i])
    (k : Nat) (hk : k < data.size) (r c : Nat) (hp : (pairs n)[k]? = some (r, c))
    (hmin : ∀ j (hj : j < data.size), j ≠ k → Num.lt data[k] data[j] = true)
    (h0 : m.onSquares = true → 0 ≤ data[k]) :
    ∃ st' d' M', linkageWith chk m st d data n = .ok (st', d', M') ∧
      ∃ rest, d'.steps.toList = ⟨r, c, C07_height m data[k], 2⟩ :: rest :=
  lift_total (C07_linkage_greedy_exact E chk m st d data n (two_le_of_slot hl hk) hs hl hinf hgen)
    (fun steps hv =>
      C07_first_step_of_greedy_exact E.field m n data steps hl hv k hk r c hp hmin h0)

end Exact

/-! ## 4. Non-vacuity -/

section Example
attribute [local instance] Toy.natNum

/-- Condensed matrix `d01=5 d02=9 d03=7 d12=8 d13=6 d23=1` (`n = 4`): the unique smallest entry
sits in slot 5 = pair `(2,3)`, the unique second-smallest in slot 0 = pair `(0,1)` (disjoint pairs:
size 2, labels `0` and `1`). -/
private def exA : Array Nat := #[5, 9, 7, 8, 6, 1]

/-- `d01=1 d02=2 d03=5 d12=6 d13=7 d23=8`: smallest in slot 0 = `(0,1)`, second-smallest in slot
1 = `(0,2)` (shared observation `0`: the second step joins label `2` with the new label `4`,
size 3). -/
private def exB : Array Nat := #[1, 2, 5, 6, 7, 8]

/-- The hypotheses of theorem 1 hold on `exA` for a greedy-valid list, and its conclusion is what
that list starts with. -/
example : ∃ rest, ([⟨2, 3, 1, 2⟩, ⟨0, 1, 5, 2⟩, ⟨4, 5, 6, 4⟩] : List (Step Nat))
    = ⟨2, 3, exA[5], 2⟩ :: rest :=
  C07_first_step_of_greedy_plain .single rfl 4 exA _ (by decide) (by decide) 5 (by decide) 2 3
    (by decide) (by decide)

/-- Theorem 1 for a method on squares over the toy numbers (`sqrt` is the identity there, so the
"height" is the squared entry): centroid on `exA`. -/
example : ∃ rest, ([⟨2, 3, 1, 2⟩, ⟨0, 1, 25, 2⟩, ⟨4, 5, 51, 4⟩] : List (Step Nat))
    = ⟨2, 3, C07_height .centroid exA[5], 2⟩ :: rest :=
  C07_first_step_of_greedy .centroid 4 exA _ (by decide) (by decide) 5 (by decide) 2 3
    (by decide) (by decide) (by decide)

/-- Theorem 2 on `exA` (disjoint pairs). -/
example : ∃ rest, ([⟨2, 3, 1, 2⟩, ⟨0, 1, 5, 2⟩, ⟨4, 5, 6, 4⟩] : List (Step Nat))
    = ⟨2, 3, exA[5], 2⟩ :: ⟨min (C07_label 4 2 3 0) (C07_label 4 2 3 1),
        max (C07_label 4 2 3 0) (C07_label 4 2 3 1), exA[0],
        C07_csize 2 3 0 + C07_csize 2 3 1⟩ :: rest :=
  C07_second_step_single_of_greedy Toy.natOrderLaws 4 exA _ (by decide) (by decide)
    5 (by decide) 2 3 (by decide) (by decide) 0 (by decide) (by decide) 0 1 (by decide) (by decide)

/-- Theorem 2 on `exB` (the pairs share observation `0`): second step `(2, 4, 2, 3)`. -/
example : ∃ rest, ([⟨0, 1, 1, 2⟩, ⟨2, 4, 2, 3⟩, ⟨3, 5, 5, 4⟩] : List (Step Nat))
    = ⟨0, 1, exB[0], 2⟩ :: ⟨min (C07_label 4 0 1 0) (C07_label 4 0 1 2),
        max (C07_label 4 0 1 0) (C07_label 4 0 1 2), exB[1],
        C07_csize 0 1 0 + C07_csize 0 1 2⟩ :: rest :=
  C07_second_step_single_of_greedy Toy.natOrderLaws 4 exB _ (by decide) (by decide)
    0 (by decide) 0 1 (by decide) (by decide) 1 (by decide) (by decide) 0 2 (by decide) (by decide)

example : (C07_label 4 0 1 0, C07_label 4 0 1 2, C07_csize 0 1 0 + C07_csize 0 1 2) = (4, 2, 3) := by
  decide

private theorem exA_noNaN : NoNaN 4 exA := fun _ _ _ _ _ => rfl

private theorem exA_infTop : InfTop 4 exA := by
  refine ⟨rfl, ?_⟩
  have : ∀ u, u < 4 → ∀ v, v < 4 → u ≠ v →
      Num.lt (Num.infinity : Nat) (entry 4 exA Num.infinity u v) = false := by decide
  intro u v hu hv huv
  exact this u hu v hv huv

/-- Through an entry point: all hypotheses of `C07_second_step_mst` hold on `exA`. -/
example : ∃ st' d' M', mstWith true State.new (Dendrogram.new 0) exA 4 = .ok (st', d', M') ∧
    ∃ rest, d'.steps.toList = ⟨2, 3, 1, 2⟩ :: ⟨0, 1, 5, 2⟩ :: rest :=
  C07_second_step_mst Toy.natOrderLaws Toy.natTrichotomy true State.new (Dendrogram.new 0) exA 4
    (by decide) (by decide) exA_noNaN exA_infTop 5 (by decide) 2 3 (by decide) (by decide)
    0 (by decide) (by decide) 0 1 (by decide) (by decide)

/-- … and of the trichotomy-free form. -/
example := C07_second_step_linkage_single_upTo Toy.natOrderLaws false State.new (Dendrogram.new 0)
  exA 4 (by decide) (by decide) exA_noNaN exA_infTop 5 (by decide) 2 3 (by decide) (by decide)
  0 (by decide) (by decide) 0 1 (by decide) (by decide)

end Example

section ExactExample

/-- A `sqrt` on `ℚ` that is right at the one value needed. -/
private def sq4 (x : ℚ) : ℚ := if x = 4 then 2 else 0

/-- Ward through `primitive_with` over `ℚ` on `d01=2 d02=9 d12=4`: the first step is `(0, 1, ·, 2)`
with height `sqrt (2·2)`, which is the entry `2` itself for a `sqrt` that undoes that square. -/
example : ∃ st' d' M',
    @primitiveWith ℚ (fieldNumWith ℚ sq4) true .ward State.new (Dendrogram.new 0) #[2, 9, 4] 3
      = .ok (st', d', M') ∧
    ∃ rest, d'.steps.toList = ⟨0, 1, 2, 2⟩ :: rest := by
  have h := @C07_first_step_primitive ℚ _ _ _ (fieldNumWith ℚ sq4) (exactLaws_fieldNumWith ℚ sq4)
    true .ward State.new (Dendrogram.new 0) #[2, 9, 4] 3 (by decide) (by decide) 0 (by decide) 0 1
    (by decide)
    (by
      intro j hj hne
      have hj' : j < 3 := hj
      have : j = 1 ∨ j = 2 := by omega
      rcases this with rfl | rfl <;> simp [Num.lt] <;> norm_num)
    (fun _ => by norm_num)
  have e : @C07_height ℚ (fieldNumWith ℚ sq4) .ward (#[2, 9, 4] : Array ℚ)[0] = 2 := by
    refine @C07_height_eq ℚ (fieldNumWith ℚ sq4) .ward _ (fun _ => ?_)
    simp [Num.sqrt, Num.mul, sq4]
    norm_num
  rw [e] at h
  exact h

end ExactExample

end Kodama
