/-
C13 — malformed shapes are rejected.

Proved here against the shape guard *regenerated from `CondensedMatrix::new`* (`Gen.shapeM`, with
the `usize` arithmetic of the build mode made explicit):

* `C13_exact`     for every `len` and every `n < 2^32`, in checked and unchecked builds alike, the
                  guard accepts iff `(n ≤ 1 ∧ len = 0) ∨ (2 ≤ n ∧ len = n(n-1)/2)`; when it accepts it
                  returns the normalised observation count (0 for n ≤ 1, else n); when it rejects,
                  the result is `Panic.shape`.
* `C13_checked_all_n` in a checked build the same characterisation holds for ALL n (an overflowing
                  product is a panic, never an acceptance).
* `C13_wrap`      in an unchecked build, for arbitrary n the guard accepts a non-empty `len` iff
                  `n ≥ 2 ∧ (n(n-1) mod 2^64)/2 = len` — the exact acceptance condition of the
                  wrapping arithmetic; `C13_extremes` evaluates it at `2^63` and `2^64-1`.
* `C13_first`     in every `_with` entry point of the model the guard's verdict is the verdict of
                  the call: a rejected shape makes the whole call return that panic (nothing is
                  clustered, whatever the prior state).

NOT proved: for 2^32 ≤ n the unchecked build accepts any `len` with `n(n-1) mod 2^64 = 2·len (+1)`;
`C13_wrap` characterises these but does not exclude them (they are outside the property's stated
quantifier: n ≤ 64 plus the two extremes; a dendrogram for such n cannot be allocated).
That the Rust entry points call the guard before touching state is hand-modelled (order of
statements in each `_with`) and covered by the correspondence run.
-/
import Kodama.Model.Linkage
namespace Kodama

/-- The specification of an acceptable shape, written without reference to the code. -/
def ShapeOk (len n : Nat) : Prop := (n ≤ 1 ∧ len = 0) ∨ (2 ≤ n ∧ len = n * (n - 1) / 2)

instance (len n : Nat) : Decidable (ShapeOk len n) := by unfold ShapeOk; infer_instance

/-- Normalised observation count. -/
def normObs (n : Nat) : Nat := if n ≤ 1 then 0 else n

theorem C13_exact (chk : Bool) (len n : Nat) (hn : n < 4294967296) :
    (ShapeOk len n → Gen.shapeM chk len n = .ok (normObs n)) ∧
    (¬ ShapeOk len n → Gen.shapeM chk len n = .error .shape) := by
  have hmul : n * (n - 1) < usizeMod := by
    unfold usizeMod
    have h1 : n - 1 < 4294967296 := by omega
    calc n * (n - 1) ≤ 4294967296 * (n - 1) := Nat.mul_le_mul_right _ (by omega)
      _ < 4294967296 * 4294967296 := Nat.mul_lt_mul_of_pos_left h1 (by omega)
      _ = 18446744073709551616 := by decide
  unfold ShapeOk normObs Gen.shapeM
  constructor
  · rintro (⟨h1, h2⟩ | ⟨h1, h2⟩)
    · subst h2; simp [guard', h1, bind, Except.bind, pure, Except.pure]
    · have hn1 : ¬ n ≤ 1 := by omega
      have h1' : 1 ≤ n := by omega
      have hge : 2 ≤ n * (n - 1) := by
        calc 2 = 2 * 1 := rfl
          _ ≤ n * (n - 1) := Nat.mul_le_mul h1 (by omega)
      have hl : ¬ len = 0 := by omega
      have hl' : ¬ n * (n - 1) / 2 = 0 := by omega
      subst h2
      simp [hl', guard', h1, usub, umul, udiv, h1', hmul, bind, Except.bind, pure, Except.pure,
        hn1]
  · intro hno
    have hno' := not_or.mp hno
    by_cases hl : len = 0
    · subst hl
      have : ¬ n ≤ 1 := fun h => hno'.1 ⟨h, rfl⟩
      simp [guard', this, bind, Except.bind]
    · by_cases h2 : 2 ≤ n
      · have hne : ¬ (n * (n - 1) / 2 = len) := fun h => hno'.2 ⟨h2, h.symm⟩
        have h1' : 1 ≤ n := by omega
        simp [hl, guard', h2, usub, umul, udiv, h1', hmul, bind, Except.bind, hne]
      · simp [hl, guard', h2, bind, Except.bind]

theorem C13_checked_all_n (len n : Nat) :
    (ShapeOk len n ∧ n * (n - 1) < usizeMod → Gen.shapeM true len n = .ok (normObs n)) ∧
    (¬ ShapeOk len n → ∃ p, Gen.shapeM true len n = .error p) := by
  unfold ShapeOk normObs Gen.shapeM
  constructor
  · rintro ⟨(⟨h1, h2⟩ | ⟨h1, h2⟩), hmul⟩
    · subst h2; simp [guard', h1, bind, Except.bind, pure, Except.pure]
    · have hn1 : ¬ n ≤ 1 := by omega
      have h1' : 1 ≤ n := by omega
      have hge : 2 ≤ n * (n - 1) := by
        calc 2 = 2 * 1 := rfl
          _ ≤ n * (n - 1) := Nat.mul_le_mul h1 (by omega)
      have hl : ¬ len = 0 := by omega
      have hl' : ¬ n * (n - 1) / 2 = 0 := by omega
      subst h2
      simp [hl', guard', h1, usub, umul, udiv, h1', hmul, bind, Except.bind, pure, Except.pure,
        hn1]
  · intro hno
    have hno' := not_or.mp hno
    by_cases hl : len = 0
    · subst hl
      have : ¬ n ≤ 1 := fun h => hno'.1 ⟨h, rfl⟩
      exact ⟨.shape, by simp [guard', this, bind, Except.bind]⟩
    · by_cases h2 : 2 ≤ n
      · have h1' : 1 ≤ n := by omega
        by_cases hmul : n * (n - 1) < usizeMod
        · have hne : ¬ (n * (n - 1) / 2 = len) := fun h => hno'.2 ⟨h2, h.symm⟩
          exact ⟨.shape, by simp [hl, guard', h2, usub, umul, udiv, h1', hmul, bind, Except.bind, hne]⟩
        · exact ⟨.arith, by simp [hl, guard', h2, usub, umul, h1', hmul, bind, Except.bind]⟩
      · exact ⟨.shape, by simp [hl, guard', h2, bind, Except.bind]⟩

/-- Exact acceptance condition of the unchecked (wrapping) build, for arbitrary `n < 2^64`. -/
theorem C13_wrap (len n : Nat) (hl : len ≠ 0) (hn : 1 ≤ n) :
    (∃ k, Gen.shapeM false len n = .ok k) ↔ (2 ≤ n ∧ (n * (n - 1) % usizeMod) / 2 = len) := by
  unfold Gen.shapeM
  by_cases h2 : 2 ≤ n
  · by_cases hmul : n * (n - 1) < usizeMod
    · have : n * (n - 1) % usizeMod = n * (n - 1) := Nat.mod_eq_of_lt hmul
      rw [this]
      by_cases he : n * (n - 1) / 2 = len
      · simp [hl, guard', h2, usub, umul, udiv, hn, hmul, bind, Except.bind, pure, Except.pure, he]
      · simp [hl, guard', h2, usub, umul, udiv, hn, hmul, bind, Except.bind, he]
    · by_cases he : n * (n - 1) % usizeMod / 2 = len
      · simp [hl, guard', h2, usub, umul, udiv, hn, hmul, bind, Except.bind, pure, Except.pure, he]
      · simp [hl, guard', h2, usub, umul, udiv, hn, hmul, bind, Except.bind, he]
  · simp [hl, guard', h2, bind, Except.bind]

/-- The two extremes named by the property. -/
theorem C13_extremes :
    -- n = 2^63: unchecked accepts exactly len = 2^62; checked panics (overflow)
    (∀ len, len ≠ 0 → ((∃ k, Gen.shapeM false len 9223372036854775808 = .ok k) ↔ len = 4611686018427387904)) ∧
    (∀ len, len ≠ 0 → Gen.shapeM true len 9223372036854775808 = .error .arith) ∧
    -- n = 2^64 - 1: unchecked accepts exactly len = 1; checked panics
    (∀ len, len ≠ 0 → ((∃ k, Gen.shapeM false len 18446744073709551615 = .ok k) ↔ len = 1)) ∧
    (∀ len, len ≠ 0 → Gen.shapeM true len 18446744073709551615 = .error .arith) ∧
    -- an empty matrix is rejected for both
    Gen.shapeM false 0 9223372036854775808 = .error .shape ∧
    Gen.shapeM true 0 18446744073709551615 = .error .shape := by
  refine ⟨?_, ?_, ?_, ?_, ?_, ?_⟩
  · intro len hl
    rw [C13_wrap len _ hl (by decide)]
    have : (9223372036854775808 * (9223372036854775808 - 1) % usizeMod) / 2 = 4611686018427387904 := by
      unfold usizeMod; decide
    rw [this]; constructor
    · intro h; exact h.2.symm
    · intro h; exact ⟨by decide, h.symm⟩
  · intro len hl
    simp [Gen.shapeM, hl, guard', usub, umul, usizeMod, bind, Except.bind]
  · intro len hl
    rw [C13_wrap len _ hl (by decide)]
    have : (18446744073709551615 * (18446744073709551615 - 1) % usizeMod) / 2 = 1 := by
      unfold usizeMod; decide
    rw [this]; constructor
    · intro h; exact h.2.symm
    · intro h; exact ⟨by decide, h.symm⟩
  · intro len hl
    simp [Gen.shapeM, hl, guard', usub, umul, usizeMod, bind, Except.bind]
  · simp [Gen.shapeM, guard', bind, Except.bind]
  · simp [Gen.shapeM, guard', bind, Except.bind]

/-- In every `_with` entry point a rejected shape is the result of the whole call, for every
method, prior state and prior dendrogram (squaring the matrix first does not change its length). -/
theorem C13_first {α : Type} [Num α] (chk : Bool) (alg : Alg) (m : Method) (st : State α)
    (d : Dendrogram α) (data : Array α) (n : Nat) (p : Panic)
    (hacc : alg.accepts m = true) (h : Gen.shapeM chk data.size n = .error p) :
    runWith chk alg m st d data n = .error p := by
  have hsq : ∀ m' : Method, (squareData m' data).size = data.size := by
    intro m'; unfold squareData; split <;> simp
  have hnew : ∀ m' : Method, Mat.new chk (squareData m' data) n = .error p := by
    intro m'; unfold Mat.new; rw [hsq, h]; rfl
  have hnew0 : Mat.new chk data n = .error p := by
    unfold Mat.new; rw [h]; rfl
  have hP : primitiveWith chk m st d data n = .error p := by
    unfold primitiveWith; simp only [hnew m, bind, Except.bind]
  have hG : genericWith chk m st d data n = .error p := by
    unfold genericWith; simp only [hnew m, bind, Except.bind]
  have hM : mstWith chk st d data n = .error p := by
    unfold mstWith; simp only [hnew0, bind, Except.bind]
  have hC : ∀ mc, nnchainWith chk mc st d data n = .error p := by
    intro mc; unfold nnchainWith; simp only [hnew mc.intoMethod, bind, Except.bind]
  cases alg
  · exact hP
  · unfold runWith
    cases hm : m.intoMethodChain with
    | none => simp [Alg.accepts, hm] at hacc
    | some mc => simp only; exact hC mc
  · exact hG
  · unfold runWith
    have : m = .single := by simpa [Alg.accepts] using hacc
    simp only [this, if_true]; exact hM
  · unfold runWith linkageWith
    cases hd : dispatch m with
    | mst => exact hM
    | nnchain =>
      cases hm : m.intoMethodChain with
      | none => cases m <;> simp [dispatch, Method.intoMethodChain] at hd hm
      | some mc => simp only; exact hC mc
    | generic => exact hG
    | primitive => exact hP
    | linkage => cases m <;> simp [dispatch, Method.intoMethodChain] at hd

/-- Non-vacuity: a malformed and a well-formed shape. -/
example : Gen.shapeM true 5 4 = .error .shape ∧ Gen.shapeM false 6 4 = .ok 4 ∧ ShapeOk 6 4 ∧ ¬ ShapeOk 5 4 :=
  ⟨rfl, rfl, by decide, by decide⟩

end Kodama
