/-
C11 — renumbering the observations renumbers the dendrogram (permutation equivariance).

## Specification level

Proved here (FULL statements, for the label-based specification `Spec.GreedyValid` of
`Kodama/Spec/Naive.lean` — NOT yet for any algorithm model; the per-algorithm theorems are to be
added to this file on top of these):

Setting: `π` is a permutation of the observations `0 … n-1` with inverse `ρ` (`Spec.IsPerm n π ρ`),
and the condensed matrix `data'` is the matrix `data` with rows and columns renumbered, which is
*characterised* by the hypothesis
    `hperm : ∀ i j < n, entry n data' ∞ i j = entry n data ∞ (π i) (π j)`
rather than constructed (no permuted array is built; any `data'` with these entries will do).
`σ π n` is the label map (`π` on observations, identity on internal labels `≥ n`) and
`mapStep (σ π n)` relabels the two children of a step, smaller label first, keeping height and size.

* `C11_spec`        every greedy-valid dendrogram `steps` of `data'` yields a greedy-valid dendrogram
                    `steps'` of `data` with the same heights, the same sizes, and, for every internal
                    label `n+i`, the leaf set of `n+i` in `steps'` is the `π`-image of its leaf set in
                    `steps` (as lists: up to `List.Perm`, because relabelling may swap the two
                    children of a step).  The witness is `steps.map (mapStep (σ π n))`.
* `C11_spec_unique` if moreover `steps₀` is a greedy-valid dendrogram of `data` whose run never meets
                    a tie (`TieFreeFrom`), then `steps₀` IS `steps.map (mapStep (σ π n))`; hence the
                    same three conclusions hold of `steps₀`.
* `C11_spec_unique'` the same with the tie-freeness hypothesis placed on the run on `data'` instead
                    (the two are equivalent: `Spec.tieFreeFrom_perm`).
* `C11_lwSymm`      which number laws discharge the hypothesis `LwSymm` for each of the seven
                    generated update formulas; `C11_spec_of_laws` is `C11_spec` with the laws plugged in.

Number laws used (hypotheses, not axioms): ONLY `Spec.LwSymm α m` — the generated Lance–Williams
formula of `m` is symmetric in the two merged clusters — needed because the renumbering may swap
which child is "a" and which is "b".  It is discharged
  - for weighted / centroid / median by `CommLaws` (commutativity of `+`, and of
    `×` for centroid only), which is true of IEEE add/mul as operations on values (the only caveat
    is the payload of a NaN produced from two NaN operands);
  - for single / complete by `OrderLaws.asymm` + `LtTrichotomy` (incomparable ⇒ equal).
    `LtTrichotomy` is FALSE of IEEE floats (`+0`/`-0`, NaN), so for floats the single/complete
    instance is a theorem about the inputs on which it holds (e.g. no NaN and no zero of both signs
    among the values compared); the NaN/±0-robust statement for single linkage is the C04
    threshold theorem, not this one;
  - for average by ALL THREE: `CommLaws.add_comm` for the mean, `OrderLaws.asymm` + `LtTrichotomy`
    for the clamp `least := if a < b then a else b; if mean < least then least else mean` that the
    `fix:` commit of the crate added to `method::average` (a minimum written with one `<`, as in
    single).  Before the fix `CommLaws` alone sufficed; with the clamp `CommLaws → LwSymm α .average`
    is no longer provable for an abstract `Num` (the two `least`s of order-equivalent, non-identical
    arguments such as `±0` are different values), so average moved to the second group — same
    proviso for floats as for single/complete;
  - for Ward by ALL THREE, for the same reason: `CommLaws.add_comm` for the quotient (outer sum of
    the numerator, `sa + sb` of the denominator), `OrderLaws.asymm` + `LtTrichotomy` for the guarded
    clamp `least := if a < b then a else b; if !(least < c) && value < least then least else value`
    that the SECOND `fix:` commit of the crate added to `method::ward`.  Before that fix `CommLaws`
    alone sufficed (Ward was in the first group); same proviso for floats as for single/complete.
No field law (associativity, distributivity, exactness of rounding, …) is used, and neither is any
well-formedness of `steps` beyond what `GreedyValid` says.

NOT proved here: anything about the five algorithm models (that their outputs on `data'` and `data`
are related) — that needs "the model's output is `GreedyValid`" per algorithm plus, where ties are
possible, a tie-freeness hypothesis as in `C11_spec_unique`.  With ties, two greedy runs of the same
matrix may legitimately differ, so only the existence statement `C11_spec` holds.

Trusted: nothing beyond the definitions of `Spec.GreedyValid`, `Spec.entry`, `Spec.leaves`.
-/
import Kodama.Lemmas.SpecPerm
import Kodama.Lemmas.SpecUnique
import Kodama.Lemmas.FieldInstances
import Kodama.Props.C03
namespace Kodama
open Spec
variable {α : Type} [Num α]

/-! ## Specification level -/

theorem C11_spec {n : Nat} {π ρ : Nat → Nat} {m : Method} {data data' : Array α}
    {steps : List (Step α)} (hπ : IsPerm n π ρ) (hS : LwSymm α m)
    (hperm : ∀ i j, i < n → j < n →
      entry n data' Num.infinity i j = entry n data Num.infinity (π i) (π j))
    (h : GreedyValid m n data' steps) :
    ∃ steps' : List (Step α), GreedyValid m n data steps' ∧
      steps'.map (·.d) = steps.map (·.d) ∧
      steps'.map (·.size) = steps.map (·.size) ∧
      ∀ i, (leaves n steps' steps'.length (n + i)).Perm
        ((leaves n steps steps.length (n + i)).map π) := by
  refine ⟨steps.map (mapStep (σ π n)), greedyValid_perm hπ hS hperm h,
    (heights_sizes_mapStep _ _).1, (heights_sizes_mapStep _ _).2, ?_⟩
  intro i
  have := leaves_mapStep hπ steps steps.length (n + i)
  rw [σ_of_ge π (Nat.le_add_right n i), leaves_map_σ] at this
  rw [List.length_map]
  exact this

theorem C11_spec_unique {n : Nat} {π ρ : Nat → Nat} {m : Method} {data data' : Array α}
    {steps steps₀ : List (Step α)} (hπ : IsPerm n π ρ) (hS : LwSymm α m)
    (hperm : ∀ i j, i < n → j < n →
      entry n data' Num.infinity i j = entry n data Num.infinity (π i) (π j))
    (h : GreedyValid m n data' steps)
    (h₀ : GreedyValid m n data steps₀) (ht : TieFreeFrom m (init m n data) steps₀) :
    steps₀ = steps.map (mapStep (σ π n)) ∧
      steps₀.map (·.d) = steps.map (·.d) ∧
      steps₀.map (·.size) = steps.map (·.size) ∧
      ∀ i, (leaves n steps₀ steps₀.length (n + i)).Perm
        ((leaves n steps steps.length (n + i)).map π) := by
  have hv := greedyValid_perm hπ hS hperm h
  have e : steps₀ = steps.map (mapStep (σ π n)) :=
    greedyFrom_unique _ _ _ (h₀.1.trans hv.1.symm) h₀.2 hv.2 ht
  subst e
  refine ⟨rfl, (heights_sizes_mapStep _ _).1, (heights_sizes_mapStep _ _).2, ?_⟩
  intro i
  have := leaves_mapStep hπ steps steps.length (n + i)
  rw [σ_of_ge π (Nat.le_add_right n i), leaves_map_σ] at this
  rw [List.length_map]
  exact this

/-- `C11_spec_unique` with the tie-freeness hypothesis on the run on the renumbered matrix. -/
theorem C11_spec_unique' {n : Nat} {π ρ : Nat → Nat} {m : Method} {data data' : Array α}
    {steps steps₀ : List (Step α)} (hπ : IsPerm n π ρ) (hS : LwSymm α m)
    (hperm : ∀ i j, i < n → j < n →
      entry n data' Num.infinity i j = entry n data Num.infinity (π i) (π j))
    (h : GreedyValid m n data' steps) (ht : TieFreeFrom m (init m n data') steps)
    (h₀ : GreedyValid m n data steps₀) :
    steps₀ = steps.map (mapStep (σ π n)) ∧
      steps₀.map (·.d) = steps.map (·.d) ∧
      steps₀.map (·.size) = steps.map (·.size) ∧
      ∀ i, (leaves n steps₀ steps₀.length (n + i)).Perm
        ((leaves n steps steps.length (n + i)).map π) := by
  have hv := greedyValid_perm hπ hS hperm h
  have ht' := (tieFreeFrom_perm hπ hS hperm h).1 ht
  have e : steps.map (mapStep (σ π n)) = steps₀ :=
    greedyFrom_unique _ _ _ (hv.1.trans h₀.1.symm) hv.2 h₀.2 ht'
  exact C11_spec_unique hπ hS hperm h h₀ (e ▸ ht')

/-- Which laws give `LwSymm` for which generated formula. -/
theorem C11_lwSymm (α : Type) [Num α] :
    (CommLaws α → LwSymm α .weighted ∧ LwSymm α .centroid ∧ LwSymm α .median) ∧
    (OrderLaws α → LtTrichotomy α → LwSymm α .single ∧ LwSymm α .complete) ∧
    (OrderLaws α → LtTrichotomy α → CommLaws α → LwSymm α .average ∧ LwSymm α .ward) ∧
    (OrderLaws α → LtTrichotomy α → CommLaws α → ∀ m : Method, LwSymm α m) :=
  ⟨fun C => ⟨lwSymm_weighted C, lwSymm_centroid C, lwSymm_median C⟩,
   fun L T => ⟨lwSymm_single L T, lwSymm_complete L T⟩,
   fun L T C => ⟨lwSymm_average L T C, lwSymm_ward L T C⟩,
   fun L T C m => lwSymm_all L T C m⟩

/-- `C11_spec` with the number laws plugged in (all seven methods). -/
theorem C11_spec_of_laws (L : OrderLaws α) (T : LtTrichotomy α) (C : CommLaws α)
    {n : Nat} {π ρ : Nat → Nat} {m : Method} {data data' : Array α}
    {steps : List (Step α)} (hπ : IsPerm n π ρ)
    (hperm : ∀ i j, i < n → j < n →
      entry n data' Num.infinity i j = entry n data Num.infinity (π i) (π j))
    (h : GreedyValid m n data' steps) :
    ∃ steps' : List (Step α), GreedyValid m n data steps' ∧
      steps'.map (·.d) = steps.map (·.d) ∧
      steps'.map (·.size) = steps.map (·.size) ∧
      ∀ i, (leaves n steps' steps'.length (n + i)).Perm
        ((leaves n steps steps.length (n + i)).map π) :=
  C11_spec hπ (lwSymm_all L T C m) hperm h

/-! ### Non-vacuity -/

section NonVacuity

/-- The 3-cycle `0 ↦ 1 ↦ 2 ↦ 0` and its inverse. -/
private def cyc : Nat → Nat
  | 0 => 1 | 1 => 2 | 2 => 0 | k => k
private def cycInv : Nat → Nat
  | 0 => 2 | 1 => 0 | 2 => 1 | k => k

/-- (1) The hypotheses on `π` are satisfiable by a non-trivial permutation. -/
private theorem cyc_isPerm : IsPerm 3 cyc cycInv := by
  refine ⟨?_, ?_, ?_, ?_⟩ <;> intro i hi <;>
    (have h : i = 0 ∨ i = 1 ∨ i = 2 := by omega) <;>
    rcases h with rfl | rfl | rfl <;> decide

example : IsPerm 3 cyc cycInv := cyc_isPerm

/-- A toy exact number type (`Nat` with its own `<`, `+`, `*`). -/
@[instance_reducible] private def natNum : Num Nat where
  lt a b := decide (a < b)
  beq a b := decide (a = b)
  add := (· + ·)
  sub := (· - ·)
  mul := (· * ·)
  div := (· / ·)
  ofNat := id
  half := 0
  quarter := 0
  sqrt := id
  abs := id
  maxValue := 1000
  infinity := 1000
  isNaN _ := false

attribute [local instance] natNum

private theorem natNum_lt (a b : Nat) : (Num.lt a b : Bool) = decide (a < b) := rfl

/-- (2) The three law bundles hold of the toy instance, hence `LwSymm` for all seven methods. -/
private theorem natNum_laws : OrderLaws Nat ∧ LtTrichotomy Nat ∧ CommLaws Nat := by
  refine ⟨⟨?_, ?_⟩, ?_, ⟨?_, ?_⟩⟩
  · intro a b h
    rw [natNum_lt, decide_eq_true_eq] at h
    rw [natNum_lt, decide_eq_false_iff_not]; omega
  · intro a b c _ h
    rw [natNum_lt, decide_eq_true_eq] at h
    rw [natNum_lt, natNum_lt, decide_eq_true_eq, decide_eq_true_eq]; omega
  · intro a b h1 h2
    rw [natNum_lt, decide_eq_false_iff_not] at h1 h2
    omega
  · intro a b; exact Nat.add_comm a b
  · intro a b; exact Nat.mul_comm a b

example : OrderLaws Nat ∧ LtTrichotomy Nat ∧ CommLaws Nat := natNum_laws

example (m : Method) : LwSymm Nat m :=
  lwSymm_all natNum_laws.1 natNum_laws.2.1 natNum_laws.2.2 m

/-- (3) A concrete instance, `n = 3`, single linkage, `π` the 3-cycle.  `exData` has
`d(0,1) = 5, d(0,2) = 2, d(1,2) = 9`; `exData'` is the renumbered matrix
`d'(i,j) = d(π i, π j)`, i.e. `d'(0,1) = 9, d'(0,2) = 5, d'(1,2) = 2`. -/
private def exData : Array Nat := #[5, 2, 9]
private def exData' : Array Nat := #[9, 5, 2]
/-- The greedy run on `exData'`: merge `1,2` at height 2, then `0` with the new cluster `3` at 5. -/
private def exSteps : List (Step Nat) := [⟨1, 2, 2, 2⟩, ⟨0, 3, 5, 3⟩]

private theorem ex_hperm : ∀ i j, i < 3 → j < 3 →
    entry 3 exData' Num.infinity i j = entry 3 exData Num.infinity (cyc i) (cyc j) := by
  intro i j hi hj
  have h : i = 0 ∨ i = 1 ∨ i = 2 := by omega
  have h' : j = 0 ∨ j = 1 ∨ j = 2 := by omega
  rcases h with rfl | rfl | rfl <;> rcases h' with rfl | rfl | rfl <;> decide

private theorem ex_valid : GreedyValid .single 3 exData' exSteps := by
  refine ⟨rfl, ?_⟩
  simp only [exSteps, GreedyFrom, Admissible]
  decide

/-- All hypotheses of `C11_spec` hold simultaneously, so its conclusion is not vacuous … -/
example : ∃ steps' : List (Step Nat), GreedyValid .single 3 exData steps' ∧
    steps'.map (·.d) = exSteps.map (·.d) ∧ steps'.map (·.size) = exSteps.map (·.size) ∧
    ∀ i, (leaves 3 steps' steps'.length (3 + i)).Perm
      ((leaves 3 exSteps exSteps.length (3 + i)).map cyc) :=
  C11_spec cyc_isPerm (lwSymm_single natNum_laws.1 natNum_laws.2.1) ex_hperm ex_valid

/-- … and the witness is the expected relabelled dendrogram: in `exData` the closest pair is `0,2`
(the images of `2,1`: the children swap), then `1` joins the new cluster `3`. -/
example : exSteps.map (mapStep (σ cyc 3)) = [⟨0, 2, 2, 2⟩, ⟨1, 3, 5, 3⟩] := by decide

example : GreedyValid .single 3 exData [⟨0, 2, 2, 2⟩, ⟨1, 3, 5, 3⟩] :=
  greedyValid_perm cyc_isPerm (lwSymm_single natNum_laws.1 natNum_laws.2.1) ex_hperm ex_valid

end NonVacuity


/-! ## EXACT ARITHMETIC: `primitive_with` is permutation-equivariant on tie-free input
## (appended section)

Scope.  Exact arithmetic ONLY: `K` a linearly ordered field whose `Num K` instance computes the field
operations and has no NaN (`ExactLaws K`, `Lemmas/FieldInstances.lean`: `fieldNum K`,
`fieldNumWith K sq`).  IEEE floats are not a field; the float gap is measured by the oracles.

Entry point: `primitive_with` (model `primitiveWith`), called twice — on `data` and on the renumbered
matrix `data'` — with arbitrary (possibly different) build modes and prior states; all seven methods;
both matrices of valid shape `2 ≤ n < 2^31`, `2·len = n(n-1)`.

Hypotheses: `IsPerm n π ρ`; `hperm` (`data'` is `data` renumbered by `π`, characterised entrywise as
in `C11_spec`); tie-freeness — in `C11_primitive` of ANY greedy-valid reference run `steps₀` of
`data`; in `C11_primitive_self` of the run of either returned dendrogram (no reference needed).

Conclusion: both calls return; the steps returned on `data` are the steps returned on `data'`
relabelled by `σ π n` (`mapStep`: smaller label first); hence same heights, same sizes, and the leaf
set of every internal label `n+i` in the first is the `π`-image of its leaf set in the second.
(`C03_primitive_exact` twice + `C11_spec_unique` / `C11_spec_unique'`.)  With ties two greedy runs may
legitimately differ, so no such statement holds without the hypothesis.
-/

section primitive
variable {K : Type} [Field K] [LinearOrder K] [IsStrictOrderedRing K] [Num K]

/-- **C11 for `primitive_with`, exact arithmetic, tie-free input.** -/
theorem C11_primitive (E : ExactLaws K) (chk chk' : Bool) (m : Method) (st st' : State K)
    (d d' : Dendrogram K) (data data' : Array K) (n : Nat) (h2 : 2 ≤ n) (hs : n < 2147483648)
    (hl : 2 * data.size = n * (n - 1)) (hl' : 2 * data'.size = n * (n - 1))
    {π ρ : Nat → Nat} (hπ : IsPerm n π ρ)
    (hperm : ∀ i j, i < n → j < n →
      entry n data' Num.infinity i j = entry n data Num.infinity (π i) (π j))
    (steps₀ : List (Step K)) (h₀ : GreedyValid m n data steps₀)
    (ht : TieFreeFrom m (init m n data) steps₀) :
    ∃ s₁ e M₁ s₂ e' M₂,
      primitiveWith chk m st d data n = .ok (s₁, e, M₁) ∧
      primitiveWith chk' m st' d' data' n = .ok (s₂, e', M₂) ∧
      e.steps.toList = e'.steps.toList.map (mapStep (σ π n)) ∧
      e.steps.toList.map (·.d) = e'.steps.toList.map (·.d) ∧
      e.steps.toList.map (·.size) = e'.steps.toList.map (·.size) ∧
      ∀ i, (leaves n e.steps.toList e.steps.toList.length (n + i)).Perm
        ((leaves n e'.steps.toList e'.steps.toList.length (n + i)).map π) := by
  obtain ⟨s₁, e, M₁, hr, hg⟩ := C03_primitive_exact E chk m st d data n h2 hs hl
  obtain ⟨s₂, e', M₂, hr', hg'⟩ := C03_primitive_exact E chk' m st' d' data' n h2 hs hl'
  have he : steps₀ = e.steps.toList := greedyFrom_unique _ steps₀ _ (h₀.1.trans hg.1.symm) h₀.2 hg.2 ht
  subst he
  exact ⟨s₁, e, M₁, s₂, e', M₂, hr, hr', C11_spec_unique hπ (E.field.lwSymm m) hperm hg' hg ht⟩

/-- The same with the tie-freeness hypothesis on the run of either returned dendrogram. -/
theorem C11_primitive_self (E : ExactLaws K) (chk chk' : Bool) (m : Method) (st st' : State K)
    (d d' : Dendrogram K) (data data' : Array K) (n : Nat) (h2 : 2 ≤ n) (hs : n < 2147483648)
    (hl : 2 * data.size = n * (n - 1)) (hl' : 2 * data'.size = n * (n - 1))
    {π ρ : Nat → Nat} (hπ : IsPerm n π ρ)
    (hperm : ∀ i j, i < n → j < n →
      entry n data' Num.infinity i j = entry n data Num.infinity (π i) (π j)) :
    ∃ s₁ e M₁ s₂ e' M₂,
      primitiveWith chk m st d data n = .ok (s₁, e, M₁) ∧
      primitiveWith chk' m st' d' data' n = .ok (s₂, e', M₂) ∧
      (TieFreeFrom m (init m n data) e.steps.toList ∨
          TieFreeFrom m (init m n data') e'.steps.toList →
        e.steps.toList = e'.steps.toList.map (mapStep (σ π n)) ∧
        e.steps.toList.map (·.d) = e'.steps.toList.map (·.d) ∧
        e.steps.toList.map (·.size) = e'.steps.toList.map (·.size) ∧
        ∀ i, (leaves n e.steps.toList e.steps.toList.length (n + i)).Perm
          ((leaves n e'.steps.toList e'.steps.toList.length (n + i)).map π)) := by
  obtain ⟨s₁, e, M₁, hr, hg⟩ := C03_primitive_exact E chk m st d data n h2 hs hl
  obtain ⟨s₂, e', M₂, hr', hg'⟩ := C03_primitive_exact E chk' m st' d' data' n h2 hs hl'
  refine ⟨s₁, e, M₁, s₂, e', M₂, hr, hr', ?_⟩
  rintro (ht | ht)
  · exact C11_spec_unique hπ (E.field.lwSymm m) hperm hg' hg ht
  · exact C11_spec_unique' hπ (E.field.lwSymm m) hperm hg' ht hg

end primitive

/-! ### Non-vacuity over `ℚ` -/

section primitiveExample
@[reducible] private def qNum : Num ℚ := fieldNum ℚ
attribute [local instance] qNum

/-- `d(0,1) = 5, d(0,2) = 2, d(1,2) = 9` and its renumbering by the 3-cycle `cyc`. -/
private def exQ : Array ℚ := #[5, 2, 9]
private def exQ' : Array ℚ := #[9, 5, 2]
private def exQSteps : List (Step ℚ) := [⟨0, 2, 2, 2⟩, ⟨1, 3, 5, 3⟩]

private theorem exQ_hperm : ∀ i j, i < 3 → j < 3 →
    entry 3 exQ' Num.infinity i j = entry 3 exQ Num.infinity (cyc i) (cyc j) := by
  intro i j hi hj
  have h : i = 0 ∨ i = 1 ∨ i = 2 := by omega
  have h' : j = 0 ∨ j = 1 ∨ j = 2 := by omega
  rcases h with rfl | rfl | rfl <;> rcases h' with rfl | rfl | rfl <;> decide

/-- All hypotheses of `C11_primitive` hold of a concrete rational instance with a non-trivial
permutation (single linkage; different build modes for the two calls). -/
example : ∃ s₁ e M₁ s₂ e' M₂,
    primitiveWith true .single State.new (Dendrogram.new 0) exQ 3 = .ok (s₁, e, M₁) ∧
    primitiveWith false .single State.new (Dendrogram.new 3) exQ' 3 = .ok (s₂, e', M₂) ∧
    e.steps.toList = e'.steps.toList.map (mapStep (σ cyc 3)) ∧
    e.steps.toList.map (·.d) = e'.steps.toList.map (·.d) ∧
    e.steps.toList.map (·.size) = e'.steps.toList.map (·.size) ∧
    ∀ i, (leaves 3 e.steps.toList e.steps.toList.length (3 + i)).Perm
      ((leaves 3 e'.steps.toList e'.steps.toList.length (3 + i)).map cyc) :=
  C11_primitive (exactLaws_fieldNum ℚ) true false .single _ _ _ _ exQ exQ' 3 (by decide)
    (by decide) (by decide) (by decide) cyc_isPerm exQ_hperm exQSteps (by decide) (by decide)

end primitiveExample

end Kodama
