/-
C02 (tie to the source) — fingerprints of the hand-modelled functions this property's theorems are about.

The model of these functions is written by hand and tied to the crate by the bit-exact correspondence
run, which is bounded by the sizes it generates.  `Generated/Bodies.lean` is re-emitted from /repo on
every run with a fingerprint of each function's NORMALISED body (comments, attributes, cfg(test) items
and whitespace removed; parameters and local bindings alpha-renamed; tools/extract_bodies.py); each
theorem below pins the fingerprint of the text the model was written against.  A theorem that no longer
checks names the function that was edited: the model may no longer describe it (for instance on sizes the
correspondence run does not reach), and `check` searches for a failing input.  Written by
tools/mk_source_snapshot.py — by hand, after the model has been brought up to date, never by a check.
-/
import Kodama.Generated.Bodies
namespace Kodama

theorem C02_source_chain_nnchain_with : Gen.bodyHash "chain.rs::nnchain_with" = some 106125546475694288 := by decide
theorem C02_source_generic_generic_with : Gen.bodyHash "generic.rs::generic_with" = some 666595537043039253 := by decide
theorem C02_source_chain_single : Gen.bodyHash "chain.rs::single" = some 548024668511678133 := by decide
theorem C02_source_chain_complete : Gen.bodyHash "chain.rs::complete" = some 1032925656827140883 := by decide
theorem C02_source_chain_average : Gen.bodyHash "chain.rs::average" = some 618677340003473376 := by decide
theorem C02_source_chain_weighted : Gen.bodyHash "chain.rs::weighted" = some 147808584175107373 := by decide
theorem C02_source_chain_ward : Gen.bodyHash "chain.rs::ward" = some 947791683857424921 := by decide
theorem C02_source_generic_single : Gen.bodyHash "generic.rs::single" = some 644996484007636956 := by decide
theorem C02_source_generic_complete : Gen.bodyHash "generic.rs::complete" = some 1037487414753074802 := by decide
theorem C02_source_generic_average : Gen.bodyHash "generic.rs::average" = some 1116265116762071441 := by decide
theorem C02_source_generic_weighted : Gen.bodyHash "generic.rs::weighted" = some 935098845084524492 := by decide
theorem C02_source_generic_ward : Gen.bodyHash "generic.rs::ward" = some 874016737665832682 := by decide
theorem C02_source_generic_centroid : Gen.bodyHash "generic.rs::centroid" = some 107088843728231042 := by decide
theorem C02_source_generic_median : Gen.bodyHash "generic.rs::median" = some 356816801408632543 := by decide
theorem C02_source_chain_nnchain : Gen.bodyHash "chain.rs::nnchain" = some 24852539402900289 := by decide
theorem C02_source_generic_generic : Gen.bodyHash "generic.rs::generic" = some 580816253015378521 := by decide
theorem C02_source_lib_Method_square : Gen.bodyHash "lib.rs::Method::square" = some 182235919696160391 := by decide
theorem C02_source_lib_Method_sqrt : Gen.bodyHash "lib.rs::Method::sqrt" = some 571966038718100224 := by decide

end Kodama
