/-
C03 for `mst_with` / `linkage_with(.., Method::Single, ..)` — each returned step merges a closest
pair of the clusters then existing.

Entry points: `mst_with` (model `mstWith`: Prim over the condensed matrix, then `relabel .single` =
stable sort by height + union–find labels) and `linkage_with` with `Method::Single` (generated
dispatch table); both build modes `chk`, every prior `LinkageState`/`Dendrogram`, every valid shape
`2 ≤ n < 2^31`, `2·len = n(n-1)`, abstract number type `α`.

Hypotheses (all explicit, never axioms):
  `OrderLaws α`            asymmetry + co-transitivity through non-NaN (true of IEEE floats);
  `NoNaN n data`           no off-diagonal entry of the matrix is NaN;
  `InfTop n data`          the sentinel `T::infinity()` is not NaN and not strictly below an entry
                           (true of IEEE floats, ±∞ entries allowed);
  `LtTrichotomy α`         (only for `C03_mst`, `C03_mst_total`, `C03_linkage_single`) incomparable
                           values are equal.  FALSE for IEEE floats (`±0`, NaN): `Spec.Admissible`
                           demands `st.d = D c1 c2` as an EQUALITY of table value and recorded height,
                           while Prim's recorded weight is only known to be order-EQUIVALENT to the
                           minimum crossing entry (`IsMinCross`: lower bound + reached up to
                           equivalence).  So, as for `C03_primitive_single`, the statement about the
                           spec replay is an exact-order statement; for floats it speaks about inputs
                           on which incomparable values are equal.  `C03_mst_pair_min` does not need it.

Proved:
* `C03_mst_pair_min`  (stage 1; `OrderLaws`, `NoNaN`, `InfTop` only).  `mstWith`'s output `d'` is the
      relabelling (`OutOf`: heights kept, the observations beneath label `n+k` are the component of
      the `k`-th processed edge after `k+1` edges) of a Prim path `rs` (`PrimRun`) processed in the
      stably sorted order `ps` (`StableSorted`: permutation, sorted, ties keep the Prim order).
      With `compAt (edgesOf ps) i` the current clusters before processing `ps[i] = s0`:
      every entry between two DIFFERENT current clusters is not below `s0.d`, and some entry between
      the current clusters of the two endpoints of `s0` is not above `s0.d`.
      Why the stable sort matters: the tree vertex `u` at which the minimum crossing weight of the
      Prim step is reached is joined to the previously added vertex by EARLIER path edges of weight
      `≤ s0.d` (interval lemma); only a stable sort guarantees that they have been processed.
* `C03_mst_upTo`      (`OrderLaws`, `NoNaN`, `InfTop` only — a statement that is true of IEEE floats)
      the returned steps are `Spec.GreedyValidUpTo .single n data` (`Lemmas/MstGreedyUpTo.lean`):
      `Spec.GreedyValid` with the height clause `st.d = D c1 c2` weakened to "`st.d` and `D c1 c2`
      are incomparable" (`¬ <` both ways; for floats: equal, or `±0` of different sign).  Everything
      else — live labels, smaller first, NO live pair strictly closer, sizes — is as in the spec.
* `C03_mst`           the returned steps are `Spec.GreedyValid .single n data` — replayed with the
      independent label-based bookkeeping of `Spec/Naive.lean`, every step merges two live labels,
      smaller first, no live pair is strictly closer, the recorded height is the pair's table value
      and the recorded size is the merged size.
* `C03_mst_total`     the call returns (no NaN reaches the sort) and the result is greedy-valid.
* `C03_linkage_single`, `C03_linkage_single_total`  the same through `linkage_with`.

Proof: `Lemmas/MstGreedySort.lean` (stability of `List.mergeSort` in index form),
`Lemmas/MstGreedyPair.lean` (the Prim argument on component maps), `Lemmas/MstGreedyUpTo.lean`
(`GreedyValidUpTo`, `merge_SInv'`), `Lemmas/MstGreedyReplay.lean`
(replay of a well-formed list; single-linkage table invariant `SInv` of `Lemmas/SpecSingle.lean`
carried along a run whose admissibility is proved step by step).

NOT proved here: `Spec.GreedyValid` (height EQUAL to the table value) without `LtTrichotomy`.  It is
not to be expected of IEEE floats (argued, not checked by a run): with entries `-0.0` and `+0.0`
tied for a minimum the spec's table and Prim's `min_dists` slot may hold zeros of different sign
(`Gen.single` keeps its second argument on ties; the two computations fold the entries in different
orders).
Trusted: the definitions in `Spec/Naive.lean`, `Spec/Pairs.lean`, and for `C03_mst_upTo` the weakened
predicate `Spec.GreedyValidUpTo` (`Lemmas/MstGreedyUpTo.lean`, 20 lines; `greedyValidUpTo_iff` ties
it to `Spec.GreedyValid`); that the model `mstWith` is the Rust
`mst_with` (translator + bit-exact correspondence run); std's `sort_by` being a stable sort
(`List.mergeSort`).
-/
import Kodama.Lemmas.MstGreedyPair
import Kodama.Lemmas.MstGreedyReplay
import Kodama.Props.C04
namespace Kodama
open Spec
variable {α : Type} [Num α]

/-- A successful `mstWith` is the `relabel` of a Prim path. -/
theorem mstWith_decompose (L : OrderLaws α) (chk : Bool) (st st' : State α)
    (d d' : Dendrogram α) (data : Array α) (n : Nat) (M' : Mat α) (h2 : 2 ≤ n)
    (hs : n < 2147483648) (hl : 2 * data.size = n * (n - 1)) (hnan : NoNaN n data)
    (hinf : InfTop n data) (hrun : mstWith chk st d data n = .ok (st', d', M')) :
    ∃ st1 dend1 M1 ord uf, MstLoopResult n data st1 dend1 M1 ∧
      PrimRun n data ord dend1.steps.toList ∧ relabel .single st1.set dend1 = .ok (uf, d') := by
  obtain ⟨st1, dend1, M1, ord, hres, hprim, heq⟩ :=
    mstWith_prim L chk st d data n h2 hs hl hnan hinf
  rw [heq] at hrun
  obtain ⟨⟨uf, rel⟩, hrel, hr⟩ := bind_ok.mp hrun
  simp only [pure_ok, Prod.mk.injEq] at hr
  rw [hr.2.1] at hrel
  exact ⟨st1, dend1, M1, ord, uf, hres, hprim, hrel⟩

/-- The output of `relabel` on a raw spanning tree, as an `OutOf`. -/
theorem relabel_outOf (m : Method) (uf0 uf : UF) (d d' : Dendrogram α) (n : Nat) (hn : 2 ≤ n)
    (hobs : d.obs = n) (hraw : RawTree n (rawOf d)) (h : relabel m uf0 d = .ok (uf, d')) :
    OutOf n (processed m d.steps).toList d'.steps.toList := by
  have hraw' : RawTree n (d.steps.toList.map (fun s => (s.c1, s.c2))) := hraw
  obtain ⟨hsize, hall⟩ := relabel_leaves m uf0 uf d d' n hn hobs hraw' h
  obtain ⟨_, hwf⟩ := relabel_wellFormed m uf0 uf d d' n hn hobs hraw' h
  have hlen : d'.steps.toList.length = (processed m d.steps).toList.length := by
    simpa using hsize
  refine ⟨hwf, hlen, rawTree_processed m hraw', ?_⟩
  intro k st hst
  have hk : k < (processed m d.steps).toList.length := by
    rw [← hlen]; exact (List.getElem?_eq_some_iff.mp hst).1
  obtain ⟨s', hs', hd, _, hmem⟩ := hall k (processed m d.steps).toList[k] (by simp)
  rw [hst] at hs'
  cases hs'
  rw [Array.length_toList]
  exact ⟨_, by simp, hd, hmem⟩

/-- **C03 for `mst_with`, stage 1** (no trichotomy): in the stably sorted processing order, before
edge `i` every entry between two different current clusters is not below its weight, and some entry
between the current clusters of its two endpoints is not above it. -/
theorem C03_mst_pair_min (L : OrderLaws α) (chk : Bool) (st st' : State α) (d d' : Dendrogram α)
    (data : Array α) (n : Nat) (M' : Mat α) (h2 : 2 ≤ n) (hs : n < 2147483648)
    (hl : 2 * data.size = n * (n - 1)) (hnan : NoNaN n data) (hinf : InfTop n data)
    (hrun : mstWith chk st d data n = .ok (st', d', M')) :
    ∃ (ord : List Nat) (rs ps : List (Step α)),
      PrimRun n data ord rs ∧ StableSorted rs ps ∧ OutOf n ps d'.steps.toList ∧
      ∀ (i : Nat) (s0 : Step α), ps[i]? = some s0 →
        (∀ u v, u < n → v < n → compAt (edgesOf ps) i u ≠ compAt (edgesOf ps) i v →
          Num.lt (entry n data Num.infinity u v) s0.d = false) ∧
        (∃ u v, u < n ∧ v < n ∧ compAt (edgesOf ps) i u = compAt (edgesOf ps) i s0.c1 ∧
          compAt (edgesOf ps) i v = compAt (edgesOf ps) i s0.c2 ∧
          Num.lt s0.d (entry n data Num.infinity u v) = false) := by
  obtain ⟨st1, dend1, M1, ord, uf, hres, hprim, hrel⟩ :=
    mstWith_decompose L chk st st' d d' data n M' h2 hs hl hnan hinf hrun
  have S := processed_stableSorted L dend1.steps (fun s hs' => hprim.nn hs') hprim.steps_nodup
  refine ⟨ord, dend1.steps.toList, (processed .single dend1.steps).toList, hprim, S,
    relabel_outOf .single st1.set uf dend1 d' n h2 hres.obs hres.raw hrel, ?_⟩
  intro i s0 hs0
  exact ⟨fun u v hu hv hne => mst_pair_lb L hnan hprim S hs0 hu hv hne,
    mst_pair_att L hnan hprim S hs0⟩

/-- **C03 for `mst_with`, up to order-equivalence of the heights** (no trichotomy; true of IEEE
floats on NaN-free input): replayed with the label-based bookkeeping of the specification, every
returned step merges two live labels, smaller first, no live pair is strictly closer, the recorded
size is the merged size, and the recorded height is ORDER-EQUIVALENT to the pair's table value. -/
theorem C03_mst_upTo (L : OrderLaws α) (chk : Bool) (st st' : State α)
    (d d' : Dendrogram α) (data : Array α) (n : Nat) (M' : Mat α) (h2 : 2 ≤ n)
    (hs : n < 2147483648) (hl : 2 * data.size = n * (n - 1)) (hnan : NoNaN n data)
    (hinf : InfTop n data) (hrun : mstWith chk st d data n = .ok (st', d', M')) :
    GreedyValidUpTo .single n data d'.steps.toList := by
  obtain ⟨ord, rs, ps, run, S, O, hmin⟩ :=
    C03_mst_pair_min L chk st st' d d' data n M' h2 hs hl hnan hinf hrun
  exact O.greedyValidUpTo L hnan (fun s hs' => run.nn (S.perm.subset hs'))
    (fun i s0 h => (hmin i s0 h).1) (fun i s0 h => (hmin i s0 h).2)

/-- **C03 for `mst_with`**: the returned steps are a greedy run of the single-linkage
specification. -/
theorem C03_mst (L : OrderLaws α) (T : LtTrichotomy α) (chk : Bool) (st st' : State α)
    (d d' : Dendrogram α) (data : Array α) (n : Nat) (M' : Mat α) (h2 : 2 ≤ n)
    (hs : n < 2147483648) (hl : 2 * data.size = n * (n - 1)) (hnan : NoNaN n data)
    (hinf : InfTop n data) (hrun : mstWith chk st d data n = .ok (st', d', M')) :
    GreedyValid .single n data d'.steps.toList :=
  (greedyValidUpTo_iff L T _ _ _ _).1
    (C03_mst_upTo L chk st st' d d' data n M' h2 hs hl hnan hinf hrun)

/-- `mst_with` returns, and what it returns is greedy-valid. -/
theorem C03_mst_total (L : OrderLaws α) (T : LtTrichotomy α) (chk : Bool) (st : State α)
    (d : Dendrogram α) (data : Array α) (n : Nat) (h2 : 2 ≤ n) (hs : n < 2147483648)
    (hl : 2 * data.size = n * (n - 1)) (hnan : NoNaN n data) (hinf : InfTop n data) :
    ∃ st' d' M', mstWith chk st d data n = .ok (st', d', M') ∧
      GreedyValid .single n data d'.steps.toList := by
  obtain ⟨⟨st', d', M'⟩, hr⟩ := C04_mst_total L chk st d data n h2 hs hl hnan hinf
  exact ⟨st', d', M', hr, C03_mst L T chk st st' d d' data n M' h2 hs hl hnan hinf hr⟩

/-- **C03 through `linkage_with(.., Method::Single, ..)`.** -/
theorem C03_linkage_single (L : OrderLaws α) (T : LtTrichotomy α) (chk : Bool) (st st' : State α)
    (d d' : Dendrogram α) (data : Array α) (n : Nat) (M' : Mat α) (h2 : 2 ≤ n)
    (hs : n < 2147483648) (hl : 2 * data.size = n * (n - 1)) (hnan : NoNaN n data)
    (hinf : InfTop n data) (hrun : linkageWith chk .single st d data n = .ok (st', d', M')) :
    GreedyValid .single n data d'.steps.toList := by
  rw [linkage_single_eq] at hrun
  exact C03_mst L T chk st st' d d' data n M' h2 hs hl hnan hinf hrun

/-- `C03_mst_upTo` through `linkage_with(.., Method::Single, ..)`. -/
theorem C03_linkage_single_upTo (L : OrderLaws α) (chk : Bool) (st st' : State α)
    (d d' : Dendrogram α) (data : Array α) (n : Nat) (M' : Mat α) (h2 : 2 ≤ n)
    (hs : n < 2147483648) (hl : 2 * data.size = n * (n - 1)) (hnan : NoNaN n data)
    (hinf : InfTop n data) (hrun : linkageWith chk .single st d data n = .ok (st', d', M')) :
    GreedyValidUpTo .single n data d'.steps.toList := by
  rw [linkage_single_eq] at hrun
  exact C03_mst_upTo L chk st st' d d' data n M' h2 hs hl hnan hinf hrun

theorem C03_linkage_single_total (L : OrderLaws α) (T : LtTrichotomy α) (chk : Bool)
    (st : State α) (d : Dendrogram α) (data : Array α) (n : Nat) (h2 : 2 ≤ n)
    (hs : n < 2147483648) (hl : 2 * data.size = n * (n - 1)) (hnan : NoNaN n data)
    (hinf : InfTop n data) :
    ∃ st' d' M', linkageWith chk .single st d data n = .ok (st', d', M') ∧
      GreedyValid .single n data d'.steps.toList := by
  rw [linkage_single_eq]
  exact C03_mst_total L T chk st d data n h2 hs hl hnan hinf

/-! ### Non-vacuity (toy exact numbers, the 4-observation matrix of `Props/C04.lean`) -/

section NonVacuity
attribute [local instance] Toy.natNum

/-- Condensed matrix `d01=5 d02=9 d03=7 d12=8 d13=6 d23=1`. -/
private def exData : Array Nat := #[5, 9, 7, 8, 6, 1]

private theorem exNoNaN : NoNaN 4 exData := fun _ _ _ _ _ => rfl

private theorem exInfTop : InfTop 4 exData := by
  refine ⟨rfl, ?_⟩
  have : ∀ u, u < 4 → ∀ v, v < 4 → u ≠ v →
      Num.lt (Num.infinity : Nat) (entry 4 exData Num.infinity u v) = false := by decide
  intro u v hu hv huv
  exact this u hu v hv huv

/-- All hypotheses of `C03_mst` are satisfiable together, the run returns, and its steps are a greedy
run of the specification. -/
example : OrderLaws Nat ∧ LtTrichotomy Nat ∧ NoNaN 4 exData ∧ InfTop 4 exData ∧
    ∃ st' d' M', mstWith true State.new (Dendrogram.new 4) exData 4 = .ok (st', d', M') ∧
      GreedyValid .single 4 exData d'.steps.toList :=
  ⟨Toy.natOrderLaws, Toy.natTrichotomy, exNoNaN, exInfTop,
    C03_mst_total Toy.natOrderLaws Toy.natTrichotomy true State.new (Dendrogram.new 4) exData 4
      (by decide) (by decide) (by decide) exNoNaN exInfTop⟩

end NonVacuity

end Kodama
