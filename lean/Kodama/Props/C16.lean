/-
C16 — C dendrograms own their storage.

The property has a part that is logic and a part that is a fact about machine memory.

PROVED here (for the lifecycle model `World / Op / step` of Model/CApi.lean; a handle is named
`(thread id, index)` by the caller, `live` is what the library owns, `inputs` are the caller's
matrices):

* `C16_frame`        for EVERY operation sequence `ops` that does not contain `free h`, executed
                     after `create h d input` on a world where `h` was not live: `len h`, `obs h`
                     and `steps h` return exactly `d.steps.size`, `d.observations`, `d.steps` — the
                     values `create` stored — whatever `ops` does to other handles (create, read,
                     free, reuse of freed names) and whatever `clobberInput` does to ANY input
                     buffer, including the one `h` was computed from; reads change nothing.
                     Since `ops` is arbitrary, this covers every read between `create` and `free`.
* `C16_frame_trace`  the same, read off the output trace of one long run: the output at the
                     position of each such read is the stored value.
* `C16_use_after_free`  after `free h` (until `h` is created again) every read of `h` and a second
                     `free h` are `undefined` (outside the API's contract) — the model never
                     answers them with data.
* `C16_live_iff`     the table holds exactly the handles that were created and not freed since
                     (`liveAfter`, a purely syntactic scan of the sequence).
* `C16_no_leak`      hence: starting from the empty world, after any sequence in which every
                     created handle is freed afterwards (`liveAfter h false ops = false` for all
                     `h`), the table is empty: nothing the library allocated is still owned.
* `C16_input_not_retained`  no operation's output or effect on `live` depends on `inputs`.
* `C16_commute`      two operations on distinct handles commute: same final world, and each
                     returns what it returns without the other.
* `C16_interleave`   hence, for ANY interleaving of per-thread sequences (threads use disjoint
                     handle names), every thread observes exactly the outputs of running its own
                     sequence alone, and its handles end in the same state (all schedules).
* `C16_schedule_independent`  two schedules with the same per-thread programs give every thread the
                     same outputs.
* `C16_accessors`    the four accessor bodies in the source are the ones modelled (`steps.len()`,
                     `observations`, `steps.as_ptr()`, `Box::from_raw` dropped), the struct owns a
                     `Vec<kodama_step>` (not a borrowed pointer) — from the translator.

NOT PROVED (cannot be, in this model): that the compiled Rust/C code *implements* this table —
that `Box`/`Vec` storage stays valid and unchanged until `kodama_dendrogram_free`, that the step
array has exactly `len` readable entries, that freeing releases everything, that nothing is shared
between threads.  These are facts about the allocator and `unsafe` pointer code.  They are
OBSERVED, not proved, by the correspondence run: a C driver linked with libkodama.a (dev and
release profiles) executes random create / read / overwrite-and-free-input / free sequences on up
to 16 threads under AddressSanitizer + LeakSanitizer (thorough: also valgrind memcheck); everything
it reads is compared with this model, and any sanitizer report, leak or non-zero exit is a failure.
That C15's `capiLinkage*` is a pure function of the input (so `create` can carry the dendrogram) is
C15 + C08.
-/
import Kodama.Model.CApi
namespace Kodama
open CApi

/-- Point update of a handle-indexed table. -/
private def upd {β : Type} (f : Handle → Option β) (h : Handle) (v : Option β) : Handle → Option β :=
  fun x => if x = h then v else f x

/-- What an operation does at its own handle: new library value, new caller buffer, output —
as a function of the old library value and old caller buffer at that handle only. -/
private def stepLocal : Op → Option CDend → Option (Array Nat) → Option CDend × Option (Array Nat) × Out
  | .create _ d input, l, i =>
    match l with
    | some _ => (l, i, .undefined)
    | none => (some d, some input, .created)
  | .len _, l, i => (l, i, match l with | some d => .nat d.steps.size | none => .undefined)
  | .obs _, l, i => (l, i, match l with | some d => .nat d.observations | none => .undefined)
  | .steps _, l, i => (l, i, match l with | some d => .stepArray d.steps | none => .undefined)
  | .clobberInput _ _, l, _ => (l, none, .done)
  | .free _, l, i =>
    match l with
    | some _ => (none, i, .done)
    | none => (l, i, .undefined)

private theorem upd_self {β : Type} (f : Handle → Option β) (h : Handle) : upd f h (f h) = f := by
  funext x; unfold upd; split
  · next hx => rw [hx]
  · rfl

/-- `step` acts only at the operation's handle, and only through `stepLocal`. -/
private theorem step_eq_local (w : World) (op : Op) :
    step w op =
      (⟨upd w.live op.handle (stepLocal op (w.live op.handle) (w.inputs op.handle)).1,
        upd w.inputs op.handle (stepLocal op (w.live op.handle) (w.inputs op.handle)).2.1⟩,
       (stepLocal op (w.live op.handle) (w.inputs op.handle)).2.2) := by
  cases op with
  | create h d input =>
    simp only [step, stepLocal, Op.handle]
    cases hl : w.live h with
    | some v => simp only [← hl, upd_self]
    | none => rfl
  | len h =>
    simp only [step, stepLocal, Op.handle, upd_self]
    cases w.live h <;> rfl
  | obs h =>
    simp only [step, stepLocal, Op.handle, upd_self]
    cases w.live h <;> rfl
  | steps h =>
    simp only [step, stepLocal, Op.handle, upd_self]
    cases w.live h <;> rfl
  | clobberInput h g =>
    simp only [step, stepLocal, Op.handle, upd_self]
    rfl
  | free h =>
    simp only [step, stepLocal, Op.handle]
    cases hl : w.live h with
    | some v => simp only [upd_self]; rfl
    | none => simp only [← hl, upd_self]

/-- An operation does not touch the library value or the caller buffer of any other handle. -/
theorem step_other (w : World) (op : Op) (h : Handle) (hne : h ≠ op.handle) :
    (step w op).1.live h = w.live h ∧ (step w op).1.inputs h = w.inputs h := by
  rw [step_eq_local]
  simp [upd, hne]

/-- A live handle stays live with the same value under every operation except its own `free`. -/
private theorem step_keeps (w : World) (op : Op) (h : Handle) (d : CDend)
    (hl : w.live h = some d) (hno : op ≠ .free h) : (step w op).1.live h = some d := by
  by_cases hh : h = op.handle
  · rw [step_eq_local]
    subst hh
    simp only [upd, if_true]
    cases op with
    | free h' => exact absurd rfl hno
    | create h' d' i' => simp only [stepLocal, Op.handle] at hl ⊢; rw [hl]
    | len h' => simpa [stepLocal, Op.handle] using hl
    | obs h' => simpa [stepLocal, Op.handle] using hl
    | steps h' => simpa [stepLocal, Op.handle] using hl
    | clobberInput h' g => simpa [stepLocal, Op.handle] using hl
  · rw [(step_other w op h hh).1]; exact hl

private theorem runOps_keeps (ops : List Op) : ∀ (w : World) (h : Handle) (d : CDend),
    w.live h = some d → (∀ op ∈ ops, op ≠ .free h) → (runOps w ops).live h = some d := by
  induction ops with
  | nil => intro w h d hl _; exact hl
  | cons op ops ih =>
    intro w h d hl hno
    exact ih (step w op).1 h d
      (step_keeps w op h d hl (hno op List.mem_cons_self))
      (fun o ho => hno o (List.mem_cons_of_mem _ ho))

/-- The three reads on a live handle. -/
private theorem reads_of_live (w : World) (h : Handle) (d : CDend) (hl : w.live h = some d) :
    step w (.len h) = (w, .nat d.steps.size) ∧ step w (.obs h) = (w, .nat d.observations) ∧
    step w (.steps h) = (w, .stepArray d.steps) := by
  simp [step, hl]

private theorem reads_of_dead (w : World) (h : Handle) (hl : w.live h = none) :
    (step w (.len h)).2 = .undefined ∧ (step w (.obs h)).2 = .undefined ∧
    (step w (.steps h)).2 = .undefined ∧ (step w (.free h)).2 = .undefined := by
  simp [step, hl]

private theorem create_stores (w : World) (h : Handle) (d : CDend) (input : Array Nat)
    (hfresh : w.live h = none) :
    (step w (.create h d input)).2 = .created ∧ (step w (.create h d input)).1.live h = some d := by
  simp [step, hfresh, World.setLive, World.setInput]

theorem C16_frame (w : World) (h : Handle) (d : CDend) (input : Array Nat) (ops : List Op)
    (hfresh : w.live h = none) (hno : ∀ op ∈ ops, op ≠ .free h) :
    (step w (.create h d input)).2 = .created ∧
    (let w' := runOps (step w (.create h d input)).1 ops
     step w' (.len h) = (w', .nat d.steps.size) ∧
     step w' (.obs h) = (w', .nat d.observations) ∧
     step w' (.steps h) = (w', .stepArray d.steps)) := by
  obtain ⟨h1, h2⟩ := create_stores w h d input hfresh
  exact ⟨h1, reads_of_live _ h d (runOps_keeps ops _ h d h2 hno)⟩

private theorem trace_append (a b : List Op) : ∀ w : World,
    trace w (a ++ b) = trace w a ++ trace (runOps w a) b := by
  induction a with
  | nil => intro w; rfl
  | cons op a ih => intro w; simp only [List.cons_append, trace, ih, runOps, List.foldl]

private theorem trace_length (ops : List Op) : ∀ w : World, (trace w ops).length = ops.length := by
  induction ops with
  | nil => intro w; rfl
  | cons op ops ih => intro w; simp [trace, ih]

/-- The expected answer of a read on a handle holding `d`. -/
def readAnswer (d : CDend) : Op → Option Out
  | .len _ => some (.nat d.steps.size)
  | .obs _ => some (.nat d.observations)
  | .steps _ => some (.stepArray d.steps)
  | _ => none

theorem C16_frame_trace (w : World) (h : Handle) (d : CDend) (input : Array Nat)
    (before : List Op) (rd : Op) (after : List Op) (ans : Out)
    (hfresh : w.live h = none) (hno : ∀ op ∈ before, op ≠ .free h)
    (hrd : rd.handle = h) (hans : readAnswer d rd = some ans) :
    (trace w (.create h d input :: before ++ rd :: after))[before.length + 1]? = some ans := by
  obtain ⟨_, h2⟩ := create_stores w h d input hfresh
  have hl := runOps_keeps before _ h d h2 hno
  have hr := reads_of_live _ h d hl
  simp only [List.cons_append, trace]
  rw [List.getElem?_cons_succ, trace_append]
  rw [List.getElem?_append_right (by rw [trace_length]; exact Nat.le_refl _)]
  simp only [trace_length, Nat.sub_self, trace, List.getElem?_cons_zero]
  cases rd with
  | len h' => simp only [Op.handle] at hrd; subst hrd; simp only [readAnswer] at hans; rw [hr.1]; exact hans
  | obs h' => simp only [Op.handle] at hrd; subst hrd; simp only [readAnswer] at hans; rw [hr.2.1]; exact hans
  | steps h' => simp only [Op.handle] at hrd; subst hrd; simp only [readAnswer] at hans; rw [hr.2.2]; exact hans
  | create _ _ _ => simp [readAnswer] at hans
  | clobberInput _ _ => simp [readAnswer] at hans
  | free _ => simp [readAnswer] at hans

private theorem step_keeps_dead (w : World) (op : Op) (h : Handle)
    (hl : w.live h = none) (hno : ∀ d i, op ≠ .create h d i) : (step w op).1.live h = none := by
  by_cases hh : h = op.handle
  · rw [step_eq_local]
    subst hh
    simp only [upd, if_true]
    cases op with
    | create h' d' i' => exact absurd rfl (hno d' i')
    | free h' => simp only [stepLocal, Op.handle] at hl ⊢; rw [hl]
    | len h' => simpa [stepLocal, Op.handle] using hl
    | obs h' => simpa [stepLocal, Op.handle] using hl
    | steps h' => simpa [stepLocal, Op.handle] using hl
    | clobberInput h' g => simpa [stepLocal, Op.handle] using hl
  · rw [(step_other w op h hh).1]; exact hl

theorem C16_use_after_free (w : World) (h : Handle) (ops : List Op)
    (hno : ∀ op ∈ ops, ∀ d i, op ≠ .create h d i) :
    let w' := runOps (step w (.free h)).1 ops
    (step w' (.len h)).2 = .undefined ∧ (step w' (.obs h)).2 = .undefined ∧
    (step w' (.steps h)).2 = .undefined ∧ (step w' (.free h)).2 = .undefined := by
  have h0 : (step w (.free h)).1.live h = none := by
    simp only [step]
    cases hl : w.live h with
    | some v => simp [World.setLive]
    | none => exact hl
  have hl : ∀ (ops : List Op) (w : World), w.live h = none →
      (∀ op ∈ ops, ∀ d i, op ≠ .create h d i) → (runOps w ops).live h = none := by
    intro ops
    induction ops with
    | nil => intro w hw _; exact hw
    | cons op ops ih =>
      intro w hw hno
      exact ih (step w op).1 (step_keeps_dead w op h hw (hno op List.mem_cons_self))
        (fun o ho => hno o (List.mem_cons_of_mem _ ho))
  exact reads_of_dead _ h (hl ops _ h0 hno)

/-- One step of the syntactic liveness scan. -/
private theorem step_live_isSome (w : World) (op : Op) (h : Handle) :
    ((step w op).1.live h).isSome = liveAfter h (w.live h).isSome [op] := by
  by_cases hh : h = op.handle
  · rw [step_eq_local]
    subst hh
    simp only [upd, if_true, liveAfter, List.foldl]
    cases op with
    | create h' d' i' => simp only [stepLocal, Op.handle]; cases w.live h' <;> simp
    | free h' => simp only [stepLocal, Op.handle]; cases w.live h' <;> simp
    | len h' => rfl
    | obs h' => rfl
    | steps h' => rfl
    | clobberInput h' g => rfl
  · rw [(step_other w op h hh).1]
    simp only [liveAfter, List.foldl]
    cases op with
    | create h' d' i' =>
      have : ¬ h' = h := fun e => hh (by simp [Op.handle, e])
      simp [this]
    | free h' =>
      have : ¬ h' = h := fun e => hh (by simp [Op.handle, e])
      simp [this]
    | len h' => rfl
    | obs h' => rfl
    | steps h' => rfl
    | clobberInput h' g => rfl

theorem C16_live_iff (ops : List Op) : ∀ (w : World) (h : Handle),
    ((runOps w ops).live h).isSome = liveAfter h (w.live h).isSome ops := by
  induction ops with
  | nil => intro w h; rfl
  | cons op ops ih =>
    intro w h
    have h1 := ih (step w op).1 h
    rw [step_live_isSome] at h1
    simpa [runOps, liveAfter, List.foldl] using h1

theorem C16_no_leak (ops : List Op) (hbal : ∀ h, liveAfter h false ops = false) :
    ∀ h, (runOps {} ops).live h = none := by
  intro h
  have := C16_live_iff ops {} h
  rw [show (({} : World).live h).isSome = false from rfl, hbal h] at this
  cases hl : (runOps {} ops).live h with
  | none => rfl
  | some v => rw [hl] at this; simp at this

/-- Nothing the library answers or stores depends on the caller's buffers: replacing all of
them by anything else changes neither any output nor the table. -/
theorem C16_input_not_retained (ops : List Op) : ∀ (w : World) (inputs' : Handle → Option (Array Nat)),
    trace { w with inputs := inputs' } ops = trace w ops ∧
    (runOps { w with inputs := inputs' } ops).live = (runOps w ops).live := by
  induction ops with
  | nil => intro w i'; exact ⟨rfl, rfl⟩
  | cons op ops ih =>
    intro w i'
    have key : (step { w with inputs := i' } op).2 = (step w op).2 ∧
        ∃ i'', (step { w with inputs := i' } op).1 = { (step w op).1 with inputs := i'' } := by
      cases op with
      | create h d input =>
        simp only [step]
        cases w.live h with
        | some v => exact ⟨rfl, i', rfl⟩
        | none => exact ⟨rfl, _, rfl⟩
      | len h => simp only [step]; cases w.live h <;> exact ⟨rfl, i', rfl⟩
      | obs h => simp only [step]; cases w.live h <;> exact ⟨rfl, i', rfl⟩
      | steps h => simp only [step]; cases w.live h <;> exact ⟨rfl, i', rfl⟩
      | clobberInput h g => exact ⟨rfl, _, rfl⟩
      | free h => simp only [step]; cases w.live h <;> exact ⟨rfl, _, rfl⟩
    obtain ⟨k1, i'', k2⟩ := key
    have := ih (step w op).1 i''
    simp only [trace, runOps, List.foldl, k1, k2]
    exact ⟨by rw [this.1], this.2⟩

theorem C16_commute (w : World) (a b : Op) (hne : a.handle ≠ b.handle) :
    (step (step w a).1 b).1 = (step (step w b).1 a).1 ∧
    (step (step w a).1 b).2 = (step w b).2 ∧ (step (step w b).1 a).2 = (step w a).2 := by
  have hab := step_other w a b.handle (Ne.symm hne)
  have hba := step_other w b a.handle hne
  rw [step_eq_local (step w a).1 b, step_eq_local (step w b).1 a, hab.1, hab.2, hba.1, hba.2]
  refine ⟨?_, ?_, ?_⟩
  · rw [step_eq_local w a, step_eq_local w b]
    simp only [World.mk.injEq]
    constructor <;> funext x <;> simp only [upd] <;> by_cases hxa : x = a.handle
    · subst hxa; simp [hne]
    · simp [hxa]
    · subst hxa; simp [hne]
    · simp [hxa]
  · rw [step_eq_local w b]
  · rw [step_eq_local w a]

/-- The outputs seen by thread `t` in a run of `ops` (all threads' operations, in schedule order). -/
def traceFor (t : Nat) : World → List Op → List Out
  | _, [] => []
  | w, op :: ops =>
    if op.tid = t then (step w op).2 :: traceFor t (step w op).1 ops
    else traceFor t (step w op).1 ops

/-- Two worlds agree on everything named by thread `t`. -/
def AgreeOn (t : Nat) (w w' : World) : Prop :=
  ∀ h : Handle, h.1 = t → w.live h = w'.live h ∧ w.inputs h = w'.inputs h

private theorem agree_skip (t : Nat) (w w' : World) (op : Op) (ht : op.tid ≠ t)
    (hag : AgreeOn t w w') : AgreeOn t (step w op).1 w' := by
  intro h hh
  have hne : h ≠ op.handle := fun e => ht (by simp [Op.tid, ← e, hh])
  rw [(step_other w op h hne).1, (step_other w op h hne).2]
  exact hag h hh

private theorem agree_step (t : Nat) (w w' : World) (op : Op) (ht : op.tid = t)
    (hag : AgreeOn t w w') :
    (step w op).2 = (step w' op).2 ∧ AgreeOn t (step w op).1 (step w' op).1 := by
  have h0 := hag op.handle ht
  rw [step_eq_local w op, step_eq_local w' op, h0.1, h0.2]
  refine ⟨rfl, ?_⟩
  intro h hh
  simp only [upd]
  by_cases hx : h = op.handle
  · simp [hx]
  · simp [hx, hag h hh]

theorem C16_interleave (t : Nat) (ops : List Op) : ∀ (w w' : World), AgreeOn t w w' →
    traceFor t w ops = trace w' (ops.filter (fun op => op.tid = t)) ∧
    AgreeOn t (runOps w ops) (runOps w' (ops.filter (fun op => op.tid = t))) := by
  induction ops with
  | nil => intro w w' hag; exact ⟨rfl, hag⟩
  | cons op ops ih =>
    intro w w' hag
    by_cases ht : op.tid = t
    · obtain ⟨ho, hag'⟩ := agree_step t w w' op ht hag
      have := ih _ _ hag'
      simp only [traceFor, ht, if_true, List.filter_cons, decide_true, trace, runOps, List.foldl]
      exact ⟨by rw [ho, this.1], this.2⟩
    · have := ih _ _ (agree_skip t w w' op ht hag)
      simp only [traceFor, ht, if_false, List.filter_cons, decide_false, runOps, List.foldl]
      exact this

theorem C16_schedule_independent (w : World) (ops ops' : List Op)
    (hsame : ∀ t, ops.filter (fun op => op.tid = t) = ops'.filter (fun op => op.tid = t)) :
    ∀ t, traceFor t w ops = traceFor t w ops' := by
  intro t
  have hrefl : AgreeOn t w w := fun _ _ => ⟨rfl, rfl⟩
  rw [(C16_interleave t ops w w hrefl).1, (C16_interleave t ops' w w hrefl).1, hsame t]

theorem C16_accessors :
    Gen.CApi.accessors =
      [("kodama_dendrogram_free", "dend: *mut kodama_dendrogram :: unsafe{ Box::from_raw(dend); }"),
       ("kodama_dendrogram_len", "dend: *const kodama_dendrogram -> size_t :: let dend = unsafe{ &*dend }; dend.steps.len()"),
       ("kodama_dendrogram_observations", "dend: *const kodama_dendrogram -> size_t :: let dend = unsafe{ &*dend }; dend.observations"),
       ("kodama_dendrogram_steps", "dend: *const kodama_dendrogram -> *const kodama_step :: let dend = unsafe{ &*dend }; dend.steps.as_ptr()")] ∧
    Gen.CApi.dendrogramFields = [("steps", "Vec<kodama_step>"), ("observations", "usize")] := by
  decide

/-! Non-vacuity: a two-thread schedule with reuse of a freed name and a clobbered input. -/
section Example
private def dA : CDend := ⟨#[⟨0, 1, 1.5, 2⟩], 2⟩
private def dB : CDend := ⟨#[], 1⟩
private def sched : List Op :=
  [.create (0, 0) dA #[1], .create (1, 0) dB #[], .clobberInput (0, 0) #[99], .len (0, 0),
   .free (1, 0), .obs (0, 0), .create (1, 0) dA #[2], .free (0, 0), .free (1, 0)]

example : ∀ h, (runOps {} sched).live h = none :=
  C16_no_leak sched (by
    intro h
    simp only [sched, liveAfter, List.foldl]
    by_cases h0 : ((0, 0) : Handle) = h <;> by_cases h1 : ((1, 0) : Handle) = h <;> simp [h0, h1])

example : (step (runOps {} (sched.take 3)) (.len (0, 0))).2 = .nat 1 := by
  have := (C16_frame {} (0, 0) dA #[1] (sched.drop 1 |>.take 2) rfl (by
    intro op hop
    simp only [sched, List.drop, List.take, List.mem_cons, List.not_mem_nil, or_false] at hop
    rcases hop with rfl | rfl <;> simp)).2.1
  simpa [sched, runOps, dA] using congrArg Prod.snd this

end Example

end Kodama
