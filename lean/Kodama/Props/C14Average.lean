/-
C14 (work bound: number of condensed-index computations) for AVERAGE linkage through `nnchain_with` /
`linkage_with`, for EVERY ordered number type — the formal counterpart of the `fix:` commit of the crate.

Before the fix `C14_nnchain` / `C14_linkage` needed the hypothesis `ChainReducible α .average`, FALSE
for IEEE floats (the rounded mean `(sa·a + sb·b)/(sa + sb)` can be one ulp below both arguments; a
concrete failing run of the real crate exists: n = 14, f32 — the chain entries are then no longer
pairwise distinct live clusters, which is what the potential argument of `C14_nnchain_tight` charges
against).  The repaired `method::average` clamps the mean from below by the smaller argument; for that
formula `ChainReducible α .average` is a THEOREM from `OrderLaws α` plus the no-NaN-generation hypothesis
(`chainReducible_average`, `Lemmas/ChainIter.lean`) — no field law, no exact arithmetic.

Proved here (by instantiating `C14_nnchain_tight` / `C14_nnchain` / `C14_linkage`), for every valid
matrix (2 ≤ n < 2^31, 2·len = n(n−1)), both build modes, every prior state, whenever the call returns
`(st', d', M')` (it does: `C12_nnchain_average_ok`):

* `C14_nnchain_average_tight`  at most `7·n(n+1) − 10` index computations;
* `C14_nnchain_average`        hence `≤ 10 n² + 50 n`;
* `C14_linkage_average`        the same through `linkageWith chk .average`.

Hypotheses (explicit): `OrderLaws α` (true of IEEE `<`), `NoNaNData data`, `AverageNoNaN α` (the update
of two non-NaN values with positive sizes is not NaN; hypothesis, not proved for floats).

Weighted: `Props/C14Weighted.lean`; Ward (repaired by the second `fix:` commit of the crate):
`Props/C14Ward.lean`.
-/
import Kodama.Props.C14
import Kodama.Props.C12Average
namespace Kodama
open Spec
variable {α : Type} [Num α]

theorem C14_nnchain_average_tight (L : OrderLaws α) (hn : AverageNoNaN α) (chk : Bool)
    (st st' : State α) (d d' : Dendrogram α) (data : Array α) (n : Nat) (M' : Mat α)
    (h2 : 2 ≤ n) (hs : n < 2147483648) (hl : 2 * data.size = n * (n - 1))
    (hnan : NoNaNData data)
    (h : nnchainWith chk .average st d data n = .ok (st', d', M')) :
    M'.acc + 10 ≤ 7 * (n * (n + 1)) :=
  C14_nnchain_tight L chk .average (chainReducible_average L hn) st st' d d' data n M' h2 hs hl
    (by rw [squareData_average]; exact hnan) h

/-- **C14, average linkage through `nnchain_with`, any ordered number type.** -/
theorem C14_nnchain_average (L : OrderLaws α) (hn : AverageNoNaN α) (chk : Bool)
    (st st' : State α) (d d' : Dendrogram α) (data : Array α) (n : Nat) (M' : Mat α)
    (h2 : 2 ≤ n) (hs : n < 2147483648) (hl : 2 * data.size = n * (n - 1))
    (hnan : NoNaNData data)
    (h : nnchainWith chk .average st d data n = .ok (st', d', M')) :
    M'.acc ≤ 10 * (n * n) + 50 * n :=
  C14_nnchain L chk .average (chainReducible_average L hn) st st' d d' data n M' h2 hs hl
    (by rw [squareData_average]; exact hnan) h

/-- **C14, average linkage through `linkage_with`** (dispatched to `nnchain_with`). -/
theorem C14_linkage_average (L : OrderLaws α) (hn : AverageNoNaN α) (chk : Bool)
    (st st' : State α) (d d' : Dendrogram α) (data : Array α) (n : Nat) (M' : Mat α)
    (h2 : 2 ≤ n) (hs : n < 2147483648) (hl : 2 * data.size = n * (n - 1))
    (hnan : NoNaNData data)
    (h : linkageWith chk .average st d data n = .ok (st', d', M')) :
    M'.acc ≤ 10 * (n * n) + 50 * n :=
  C14_linkage L chk .average rfl
    (by
      intro mc hmc
      simp only [Method.intoMethodChain, Option.some.injEq] at hmc
      rw [← hmc]; exact chainReducible_average L hn)
    st st' d d' data n M' h2 hs hl
    (fun _ => by
      have : squareData Method.average data = data := by simp [squareData, Method.onSquares]
      rw [this]; exact hnan)
    h

/-! ### Non-vacuity (toy exact number type, a valid 4-point matrix) -/

section NonVacuity
attribute [local instance] Toy.natNum

example (st' : State Nat) (d' : Dendrogram Nat) (M' : Mat Nat)
    (h : nnchainWith true .average State.new (Dendrogram.new 4)
      (#[5, 2, 9, 7, 4, 1] : Array Nat) 4 = .ok (st', d', M')) :
    M'.acc ≤ 10 * (4 * 4) + 50 * 4 :=
  C14_nnchain_average Toy.natOrderLaws (fun _ _ _ _ _ _ _ _ _ _ _ _ _ _ _ _ => rfl) true _ st' _ d'
    _ 4 M' (by decide) (by decide) (by decide) (fun _ _ => rfl) h

end NonVacuity

end Kodama
