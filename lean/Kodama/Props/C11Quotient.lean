/-
C11 for SINGLE and COMPLETE linkage WITHOUT `LtTrichotomy` (quotient + naturality, as `Props/C03Quotient.lean`).

* `C11_single_complete_upTo`   `data'` is the matrix of the renumbered observations; if the input is tie-free in
  the quotient by order-equivalence (`TieFreeFrom` along a greedy-valid reference run `steps₀` of the PROJECTED
  `data`), then `primitive_with` and `nnchain_with` applied to `data'` return steps whose projection `e'` satisfies
  `steps₀ = e'.map (mapStep (σ π n))`: renumbering only renumbers — same sizes, order-equivalent heights, and
  the cluster created by step `i`, mapped back through `π`, is the cluster created by step `i` of the reference.
  Hypotheses: `OrderLaws α`, no NaN, `BeqOrd α`.
-/
import Kodama.Props.C11Order
import Kodama.Props.C03Quotient
set_option linter.unusedSectionVars false
namespace Kodama
open Spec
variable {α : Type} [Num α]

theorem C11_single_complete_upTo (L : OrderLaws α) (hnan : ∀ x : α, Num.isNaN x = false)
    (B : BeqOrd α) {m : Method} (hm : m.selectsOnly) (data data' : Array α) (n : Nat) (h2 : 2 ≤ n)
    (hs : n < 2147483648) (hl' : 2 * data'.size = n * (n - 1))
    {π ρ : Nat → Nat} (hπ : IsPerm n π ρ)
    (hperm : ∀ i j, i < n → j < n →
      entry n data' Num.infinity i j = entry n data Num.infinity (π i) (π j))
    (steps₀ : List (Step (OrdQ L hnan)))
    (h₀ : @GreedyValid _ (ordQNum L hnan) m n (data.map (OrdQ.mk L hnan)) steps₀)
    (ht : @TieFreeFrom _ (ordQNum L hnan) m
      (@init _ (ordQNum L hnan) m n (data.map (OrdQ.mk L hnan))) steps₀) :
    (∀ (chk : Bool) (st : State α) (d : Dendrogram α),
      ∃ st' e' M', primitiveWith chk m st d data' n = .ok (st', e', M') ∧
        steps₀ = (e'.steps.toList.map (mapStep (OrdQ.mk L hnan))).map (Spec.mapStep (σ π n))) ∧
    (∀ mc : MethodChain, m.intoMethodChain = some mc → ∀ (chk : Bool) (st : State α) (d : Dendrogram α),
      ∃ st' e' M', nnchainWith chk mc st d data' n = .ok (st', e', M') ∧
        steps₀ = (e'.steps.toList.map (mapStep (OrdQ.mk L hnan))).map (Spec.mapStep (σ π n))) := by
  letI : Num (OrdQ L hnan) := ordQNum L hnan
  have G := ordQ_ordHom L hnan B
  have hlq : 2 * (data'.map (OrdQ.mk L hnan)).size = n * (n - 1) := by rw [Array.size_map]; exact hl'
  -- the renumbering relation between the two projected matrices
  have hpermq : ∀ i j, i < n → j < n →
      entry n (data'.map (OrdQ.mk L hnan)) Num.infinity i j =
        entry n (data.map (OrdQ.mk L hnan)) Num.infinity (π i) (π j) := by
    intro i j hi hj
    have e1 := entry_map (OrdQ.mk L hnan) n data' Num.infinity i j
    have e2 := entry_map (OrdQ.mk L hnan) n data Num.infinity (π i) (π j)
    change entry n (data'.map (OrdQ.mk L hnan)) (OrdQ.mk L hnan Num.infinity) i j = _
    rw [e1, hperm i j hi hj, ← e2]
    rfl
  have hmc : m = .single ∨ m = .complete := hm
  have key := C11_single_complete_order (ordQ_orderLaws L hnan) (ordQ_trichotomy L hnan)
    (ordQ_noNaN L hnan) m hmc (data.map (OrdQ.mk L hnan)) (data'.map (OrdQ.mk L hnan)) n h2 hs hlq hπ
    hpermq steps₀ h₀ ht
  constructor
  · intro chk st d
    refine quotient_transfer L hnan B hm .primitive rfl rfl chk st d data' n
      (fun l => steps₀ = l.map (Spec.mapStep (σ π n))) ?_
    obtain ⟨a, b, c, hr, he, _⟩ := key.1 chk (State.new) (Dendrogram.new 0)
    exact ⟨a, b, c, hr, he⟩
  · intro mc hmcc chk st d
    have tr := quotient_transfer L hnan B hm .nnchain rfl rfl chk st d data' n
      (fun l => steps₀ = l.map (Spec.mapStep (σ π n)))
    simp only [runWith, hmcc] at tr
    apply tr
    have hmi : mc.intoMethod = m := intoMethod_of_intoMethodChain hmcc
    obtain ⟨a, b, c, hr, he, _⟩ := key.2 mc hmi chk (State.new) (Dendrogram.new 0)
    exact ⟨a, b, c, hr, he⟩

end Kodama
