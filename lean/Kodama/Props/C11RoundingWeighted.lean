/-
C11 UNDER FLOATING-POINT ROUNDING, WEIGHTED LINKAGE (WPGMA) — the companion of `Props/C11Rounding.lean`.

Same statement, with the recursively halved mean `Crit.wdist` over MERGE TREES in place of the mean over
observation sets:

* `clusterTree_mapStep`            the merge tree of a label in the renumbered list is — up to the order of
  children (`Rnn.Sw`; `mapStep` re-sorts the two labels of a step) — the image of its merge tree;
* `wgtGreedyUpTo_mapStep`          greedy-up-to-rounding (`WgtGreedyUpTo`) is equivariant under renumbering
  (`D` symmetric; `wdist` does not depend on the order of children and is symmetric);
* `C11_weighted_rounded_family`    a well-formed run `s₁` for `D` with the rounding-safe margin
  (`WgtMarginAlong`) and ANY well-formed run `s₂` for `D' = D ∘ (π × π)` that is greedy up to rounding
  build, step by step, the same clusters after mapping back through `π`, with the same sizes;
* `C11_weighted_rounded_heights`   and heights within `2·2·(size−2)` rounding factors of each other when
  both lists are within rounding of the exact `wdist` (the C02 rounding theorems).

* `C11_linkage_weighted_rounded`   entry point: `linkage_with(Weighted)` on `data` and on the renumbered `data'`, under
  the hypotheses of the C02/C03 rounding theorems for weighted linkage on both inputs (appended at the end).
-/
import Kodama.Props.C11Rounding
import Kodama.Props.C06RoundingWeighted
set_option linter.unusedSectionVars false
namespace Kodama
open Spec Crit MTree Finset Round

variable {K : Type} [Field K] [LinearOrder K] [IsStrictOrderedRing K]
variable {α : Type} [Num α]

/-! ## Images of merge trees -/

/-- Renumber the observations of a merge tree. -/
def MTree.mapObs (f : Nat → Nat) : MTree Nat → MTree Nat
  | .leaf i => .leaf (f i)
  | .node l r => .node (MTree.mapObs f l) (MTree.mapObs f r)

theorem MTree.leaves_mapObs (f : Nat → Nat) (t : MTree Nat) :
    (MTree.mapObs f t).leaves = t.leaves.image f := by
  induction t with
  | leaf i => simp [MTree.mapObs]
  | node l r ihl ihr => simp [MTree.mapObs, ihl, ihr, Finset.image_union]

theorem wdistLeaf_mapObs {D : Nat → Nat → K} {π f : Nat → Nat} (i : Nat) (hi : f i = π i)
    (t : MTree Nat) (ht : ∀ y ∈ t.leaves, f y = π y) :
    wdistLeaf (fun a b => D (π a) (π b)) i t = wdistLeaf D (f i) (MTree.mapObs f t) := by
  induction t with
  | leaf j =>
    simp only [wdistLeaf, MTree.mapObs]
    rw [hi, ht j (by simp)]
  | node l r ihl ihr =>
    simp only [wdistLeaf, MTree.mapObs]
    rw [ihl (fun y hy => ht y (by simp [hy])), ihr (fun y hy => ht y (by simp [hy]))]

/-- Reindexing the recursively halved mean along a map that agrees with `π` on the two trees. -/
theorem wdist_mapObs {D : Nat → Nat → K} {π f : Nat → Nat} (s t : MTree Nat)
    (hs : ∀ x ∈ s.leaves, f x = π x) (ht : ∀ y ∈ t.leaves, f y = π y) :
    wdist (fun a b => D (π a) (π b)) s t = wdist D (MTree.mapObs f s) (MTree.mapObs f t) := by
  induction s with
  | leaf i =>
    simp only [wdist, MTree.mapObs]
    exact wdistLeaf_mapObs i (hs i (by simp)) t ht
  | node l r ihl ihr =>
    simp only [wdist, MTree.mapObs]
    rw [ihl (fun x hx => hs x (by simp [hx])), ihr (fun x hx => hs x (by simp [hx]))]

/-- The merge tree of a label in the renumbered list, up to the order of children. -/
theorem clusterTree_mapStep {n : Nat} {f : Nat → Nat} (hf : LabelMap n f) {steps : List (Step α)}
    (wf : WellFormed n steps) :
    ∀ l, l < n + steps.length →
      Rnn.Sw (clusterTree n (steps.map (mapStep f)) (f l)) (MTree.mapObs f (clusterTree n steps l)) := by
  have ho := labelsOrdered_of_wf wf
  have ho' := labelsOrdered_of_wf (wellFormed_mapStep hf wf)
  intro l
  induction l using Nat.strong_induction_on with
  | _ l ih =>
    intro hl
    by_cases c : l < n
    · have c' := hf.lt l c
      unfold clusterTree
      rw [finalCl_of_lt _ _ _ _ c, finalCl_of_lt _ _ _ _ c']
      exact Rnn.Sw.leaf _
    · obtain ⟨j, rfl⟩ : ∃ j, l = n + j := ⟨l - n, by omega⟩
      have hj : j < steps.length := by omega
      obtain ⟨b, hb⟩ : ∃ b, steps[j]? = some b := ⟨steps[j], List.getElem?_eq_getElem hj⟩
      have hb' : (steps.map (mapStep f))[j]? = some (mapStep f b) := by
        rw [List.getElem?_map, hb]; rfl
      have o := wf.ordered j b hb
      rw [hf.fix (n + j) (by omega)]
      unfold clusterTree
      rw [finalCl_step leaf n steps ho j b hb, finalCl_step leaf n _ ho' j _ hb']
      have h1 := ih b.c1 (by omega) (by omega)
      have h2 := ih b.c2 (by omega) (by omega)
      unfold clusterTree at h1 h2
      simp only [MTree.mapObs]
      rcases mapStep_cases f b with ⟨e1, e2, _⟩ | ⟨e1, e2, _⟩
      · rw [e1, e2]; exact Rnn.Sw.node h1 h2
      · rw [e1, e2]
        -- children swapped: node (T' c2) (T' c1) against node (map T c1) (map T c2)
        exact Rnn.Sw.swap h2 h1

/-! ## Transport of greediness -/

/-- **Greedy-up-to-rounding (weighted linkage) is equivariant under renumbering.** -/
theorem wgtGreedyUpTo_mapStep {D : Nat → Nat → K} {u : K} {n : Nat} {π ρ : Nat → Nat}
    (hπ : IsPerm n π ρ) (hsym : ∀ i j, D i j = D j i) {steps : List (Step α)}
    (wf : WellFormed n steps)
    (g : WgtGreedyUpTo (fun i j => D (π i) (π j)) u n steps) :
    WgtGreedyUpTo D u n (steps.map (mapStep (σ π n))) := by
  have hf := σ_labelMap hπ
  have hinj := hf.injective
  have ho := labelsOrdered_of_wf wf
  intro i s' hi p q hp hq hpq
  rw [List.getElem?_map] at hi
  cases hb : steps[i]? with
  | none => rw [hb] at hi; cases hi
  | some b =>
    rw [hb] at hi
    simp only [Option.map_some, Option.some.injEq] at hi
    subst hi
    have hil : i < steps.length := (List.getElem?_eq_some_iff.mp hb).1
    obtain ⟨p₀, rfl⟩ := hf.surj' p
    obtain ⟨q₀, rfl⟩ := hf.surj' q
    have hp₀ := (presentBefore_mapStep hf steps i p₀).mp hp
    have hq₀ := (presentBefore_mapStep hf steps i q₀).mp hq
    have hne₀ : p₀ ≠ q₀ := fun h => hpq (by rw [h])
    have h := g i b hb p₀ q₀ hp₀ hq₀ hne₀
    simp only at h ⊢
    obtain ⟨hdis, hcAB, hcXY, h0, hle⟩ := h
    have o := wf.ordered i b hb
    -- trees of the renumbered list
    have sw : ∀ l, l < n + i → Rnn.Sw (clusterTree n (steps.map (mapStep (σ π n))) (σ π n l))
        (MTree.mapObs (σ π n) (clusterTree n steps l)) :=
      fun l hl => clusterTree_mapStep hf wf l (by omega)
    have lv : ∀ l, l < n + i → (clusterTree n (steps.map (mapStep (σ π n))) (σ π n l)).leaves =
        (clusterTree n steps l).leaves.image (σ π n) := by
      intro l hl
      rw [(sw l hl).leaves_eq, MTree.leaves_mapObs]
    have hobs : ∀ l, l < n + i → ∀ x ∈ (clusterTree n steps l).leaves, σ π n x = π x := by
      intro l hl x hx
      rw [clusterTree_leaves n steps ho steps.length l
        (by by_cases c : l < n; exact Or.inl c; exact Or.inr ⟨by omega, by omega⟩)] at hx
      exact σ_of_lt π (leaves_lt n steps steps.length l x (List.mem_toFinset.mp hx))
    have ew : ∀ l l', l < n + i → l' < n + i →
        wdist (fun a b => D (π a) (π b)) (clusterTree n steps l) (clusterTree n steps l') =
        wdist D (clusterTree n (steps.map (mapStep (σ π n))) (σ π n l))
          (clusterTree n (steps.map (mapStep (σ π n))) (σ π n l')) := by
      intro l l' hl hl'
      rw [wdist_mapObs (f := σ π n) _ _ (hobs l hl) (hobs l' hl'),
        ← (sw l hl).wdist_left, ← (sw l' hl').wdist_right]
    have ecard : ∀ l, l < n + i → (clusterTree n (steps.map (mapStep (σ π n))) (σ π n l)).leaves.card =
        (clusterTree n steps l).leaves.card := by
      intro l hl
      rw [lv l hl, Finset.card_image_of_injective _ hinj]
    have b1 : b.c1 < n + i := by omega
    have b2 : b.c2 < n + i := o.2
    rcases mapStep_cases (σ π n) b with ⟨e1, e2, _⟩ | ⟨e1, e2, _⟩
    · rw [e1, e2, lv p₀ hp₀.1, lv q₀ hq₀.1, ecard b.c1 b1, ecard b.c2 b2,
        Finset.card_image_of_injective _ hinj, Finset.card_image_of_injective _ hinj,
        ← ew b.c1 b.c2 b1 b2, ← ew p₀ q₀ hp₀.1 hq₀.1]
      exact ⟨(Finset.disjoint_image hinj).mpr hdis, hcAB, hcXY, h0, hle⟩
    · rw [e1, e2, lv p₀ hp₀.1, lv q₀ hq₀.1, ecard b.c1 b1, ecard b.c2 b2,
        Finset.card_image_of_injective _ hinj, Finset.card_image_of_injective _ hinj,
        wdist_symm hsym, ← ew b.c1 b.c2 b1 b2, ← ew p₀ q₀ hp₀.1 hq₀.1]
      exact ⟨(Finset.disjoint_image hinj).mpr hdis, by rw [Nat.add_comm]; exact hcAB, hcXY, h0,
        by rw [Nat.add_comm (Finset.card (clusterTree n steps b.c2).leaves)]; exact hle⟩

/-! ## The hierarchy -/

/-- From label agreement with the renumbered list to the family of clusters (shared by the average and
the weighted theorem). -/
theorem family_of_labAgree {n : Nat} {π ρ : Nat → Nat} (hπ : IsPerm n π ρ) {s₁ s₂ : List (Step α)}
    (wf₁ : WellFormed n s₁) (wf₂ : WellFormed n s₂)
    (hlab : ∀ i, LabAgree i s₁ (s₂.map (mapStep (σ π n)))) :
    ∀ (i : Nat) (a b : Step α), s₁[i]? = some a → s₂[i]? = some b →
      (Spec.leaves n s₁ s₁.length (n + i)).toFinset =
        (Spec.leaves n s₂ s₂.length (n + i)).toFinset.image π ∧ a.size = b.size := by
  have hf := σ_labelMap hπ
  have wf₂' := wellFormed_mapStep hf wf₂
  intro i a b ha hb
  have hil : i < s₁.length := (List.getElem?_eq_some_iff.mp ha).1
  have hlen : (s₂.map (mapStep (σ π n))).length = s₁.length := by rw [wf₂'.len, wf₁.len]
  have hord : ∀ (k : Nat) (s : Step α), k < i + 1 → s₁[k]? = some s → s.c1 < s.c2 ∧ s.c2 < n + k :=
    fun k s _ hs => wf₁.ordered k s hs
  have hlv := leaves_lab (hlab (i + 1)) hord s₁.length (s₂.map (mapStep (σ π n))).length (n + i)
    (by omega) (by omega) (by omega)
  constructor
  · rw [hlv, List.length_map]
    have := leaves_toFinset_mapStep hf s₂ s₂.length (n + i)
    rw [σ_of_ge π (Nat.le_add_right n i)] at this
    rw [this]
    apply Finset.image_congr
    intro x hx
    exact σ_of_lt π (leaves_lt n s₂ s₂.length (n + i) x (List.mem_toFinset.mp hx))
  · have hsz := C06_average_rounded_sizes_unique wf₁ wf₂' hlab (i + 1) i (Nat.lt_succ_self i)
    rw [ha, List.getElem?_map, hb] at hsz
    simpa using hsz

/-- **C11 under rounding, weighted linkage: the family of clusters.** -/
theorem C11_weighted_rounded_family {D : Nat → Nat → K} {u : K} {n : Nat} {π ρ : Nat → Nat}
    (hπ : IsPerm n π ρ) (hsym : ∀ i j, D i j = D j i) {s₁ s₂ : List (Step α)}
    (wf₁ : WellFormed n s₁) (wf₂ : WellFormed n s₂)
    (m₁ : WgtMarginAlong D u n s₁) (g₂ : WgtGreedyUpTo (fun i j => D (π i) (π j)) u n s₂) :
    ∀ (i : Nat) (a b : Step α), s₁[i]? = some a → s₂[i]? = some b →
      (Spec.leaves n s₁ s₁.length (n + i)).toFinset =
        (Spec.leaves n s₂ s₂.length (n + i)).toFinset.image π ∧ a.size = b.size :=
  family_of_labAgree hπ wf₁ wf₂
    (C06_weighted_rounded_labels_unique wf₁ (wellFormed_mapStep (σ_labelMap hπ) wf₂) m₁
      (wgtGreedyUpTo_mapStep hπ hsym wf₂ g₂))

/-- **C11 under rounding, weighted linkage: the heights.** -/
theorem C11_weighted_rounded_heights {D : Nat → Nat → K} {u : K} {n : Nat} {π ρ : Nat → Nat}
    {val : α → K} (hu : u < 1)
    (hπ : IsPerm n π ρ) (hsym : ∀ i j, D i j = D j i) {s₁ s₂ : List (Step α)}
    (wf₁ : WellFormed n s₁) (wf₂ : WellFormed n s₂)
    (m₁ : WgtMarginAlong D u n s₁) (g₂ : WgtGreedyUpTo (fun i j => D (π i) (π j)) u n s₂)
    (h₁ : WgtHeightsNear D u n val s₁)
    (h₂ : WgtHeightsNear (fun i j => D (π i) (π j)) u n val s₂) :
    ∀ (i : Nat) (a b : Step α), s₁[i]? = some a → s₂[i]? = some b →
      Near u (2 * (2 * (a.size - 2))) (val a.d) (val b.d) := by
  have hf := σ_labelMap hπ
  have ho₂ := labelsOrdered_of_wf wf₂
  have wf₂' := wellFormed_mapStep hf wf₂
  have g₂' := wgtGreedyUpTo_mapStep hπ hsym wf₂ g₂
  have h₂' : WgtHeightsNear D u n val (s₂.map (mapStep (σ π n))) := by
    intro i s' hi
    rw [List.getElem?_map] at hi
    cases hb : s₂[i]? with
    | none => rw [hb] at hi; cases hi
    | some b =>
      rw [hb] at hi
      simp only [Option.map_some, Option.some.injEq] at hi
      subst hi
      have hil : i < s₂.length := (List.getElem?_eq_some_iff.mp hb).1
      have o := wf₂.ordered i b hb
      have hn := h₂ i b hb
      rw [mapStep_d, mapStep_size]
      have sw : ∀ l, l < n + i → Rnn.Sw (clusterTree n (s₂.map (mapStep (σ π n))) (σ π n l))
          (MTree.mapObs (σ π n) (clusterTree n s₂ l)) :=
        fun l hl => clusterTree_mapStep hf wf₂ l (by omega)
      have hobs : ∀ l, l < n + i → ∀ x ∈ (clusterTree n s₂ l).leaves, σ π n x = π x := by
        intro l hl x hx
        rw [clusterTree_leaves n s₂ ho₂ s₂.length l
          (by by_cases c : l < n; exact Or.inl c; exact Or.inr ⟨by omega, by omega⟩)] at hx
        exact σ_of_lt π (leaves_lt n s₂ s₂.length l x (List.mem_toFinset.mp hx))
      have b1 : b.c1 < n + i := by omega
      rw [wdist_mapObs (f := σ π n) _ _ (hobs b.c1 b1) (hobs b.c2 o.2),
        ← (sw b.c1 b1).wdist_left, ← (sw b.c2 o.2).wdist_right] at hn
      rcases mapStep_cases (σ π n) b with ⟨e1, e2, _⟩ | ⟨e1, e2, _⟩
      · rw [e1, e2]; exact hn
      · rw [e1, e2, wdist_symm hsym]; exact hn
  intro i a b ha hb
  have := C06_weighted_rounded_agree hu wf₁ wf₂' m₁ g₂' h₁ h₂'
  have r := this.2 i a (mapStep (σ π n) b) ha (by rw [List.getElem?_map, hb]; rfl)
  rw [mapStep_d] at r
  exact r.2.2.2

end Kodama

namespace Kodama
open Spec Crit MTree Finset Round

variable {K : Type} [Field K] [LinearOrder K] [IsStrictOrderedRing K]
variable {α : Type} [Num α]

/-! ## Entry point: `linkage_with(Weighted)` on the original and on the renumbered matrix -/

/-- `wdistLeaf` only reads `D` on the leaf and the tree's leaves. -/
theorem wdistLeaf_congr_on {D D' : Nat → Nat → K} (i : Nat) (t : MTree Nat)
    (h : ∀ y ∈ t.leaves, D i y = D' i y) : wdistLeaf D i t = wdistLeaf D' i t := by
  induction t with
  | leaf j => simp only [wdistLeaf]; exact h j (by simp)
  | node l r ihl ihr =>
    simp only [wdistLeaf]
    rw [ihl (fun y hy => h y (by simp [hy])), ihr (fun y hy => h y (by simp [hy]))]

/-- `wdist` only reads `D` on the leaves of the two trees. -/
theorem wdist_congr_on {D D' : Nat → Nat → K} (s t : MTree Nat)
    (h : ∀ x ∈ s.leaves, ∀ y ∈ t.leaves, D x y = D' x y) : wdist D s t = wdist D' s t := by
  induction s with
  | leaf i => simp only [wdist]; exact wdistLeaf_congr_on i t (fun y hy => h i (by simp) y hy)
  | node l r ihl ihr =>
    simp only [wdist]
    rw [ihl (fun x hx => h x (by simp [hx])), ihr (fun x hx => h x (by simp [hx]))]

/-- Leaves of the merge tree of a label below `n + length` are observations. -/
theorem clusterTree_leaves_lt {n : Nat} {steps : List (Step α)} (ho : LabelsOrdered n steps) (l : Nat)
    (hl : l < n + steps.length) : ∀ x ∈ (clusterTree n steps l).leaves, x < n := by
  intro x hx
  rw [clusterTree_leaves n steps ho steps.length l
    (by by_cases c : l < n; exact Or.inl c; exact Or.inr ⟨hl, by omega⟩)] at hx
  exact leaves_lt n steps steps.length l x (List.mem_toFinset.mp hx)

/-- `WgtGreedyUpTo` only reads `D` on observations. -/
theorem wgtGreedyUpTo_congr {D D' : Nat → Nat → K} {u : K} {n : Nat} {steps : List (Step α)}
    (wf : WellFormed n steps) (h : ∀ i j, i < n → j < n → D i j = D' i j)
    (g : WgtGreedyUpTo D u n steps) : WgtGreedyUpTo D' u n steps := by
  have ho := labelsOrdered_of_wf wf
  intro i s hi p q hp hq hpq
  have hg := g i s hi p q hp hq hpq
  have hil : i < steps.length := (List.getElem?_eq_some_iff.mp hi).1
  have o := wf.ordered i s hi
  have e : ∀ l l', l < n + i → l' < n + i →
      wdist D (clusterTree n steps l) (clusterTree n steps l') =
      wdist D' (clusterTree n steps l) (clusterTree n steps l') :=
    fun l l' hl hl' => wdist_congr_on _ _ (fun x hx y hy =>
      h x y (clusterTree_leaves_lt ho l (by omega) x hx) (clusterTree_leaves_lt ho l' (by omega) y hy))
  simp only at hg ⊢
  rw [← e s.c1 s.c2 (by omega) o.2, ← e p q hp.1 hq.1]
  exact hg

/-- `WgtHeightsNear` only reads `D` on observations. -/
theorem wgtHeightsNear_congr {D D' : Nat → Nat → K} {u : K} {n : Nat} {val : α → K}
    {steps : List (Step α)} (wf : WellFormed n steps) (h : ∀ i j, i < n → j < n → D i j = D' i j)
    (g : WgtHeightsNear D u n val steps) : WgtHeightsNear D' u n val steps := by
  have ho := labelsOrdered_of_wf wf
  intro i s hi
  have hg := g i s hi
  have hil : i < steps.length := (List.getElem?_eq_some_iff.mp hi).1
  have o := wf.ordered i s hi
  rw [wdist_congr_on (D := D) (D' := D') _ _ (fun x hx y hy =>
    h x y (clusterTree_leaves_lt ho s.c1 (by omega) x hx)
      (clusterTree_leaves_lt ho s.c2 (by omega) y hy))] at hg
  exact hg

/-- **C11 for IEEE-style arithmetic, weighted linkage, through `linkage_with`.** -/
theorem C11_linkage_weighted_rounded (L : OrderLaws α) {val : α → K} {fin : α → Prop}
    {u lo hi : K} {N : Nat} (RM : Round.Model val fin u lo hi N)
    {ok : α → Prop} (hge : ChainGeOn ok .weighted)
    (chk chk' : Bool) (st st' : State α) (d d' : Dendrogram α) (data data' : Array α) (n : Nat)
    (h2 : 2 ≤ n) (hs : n < 2147483648) (hl : 2 * data.size = n * (n - 1))
    (hl' : 2 * data'.size = n * (n - 1))
    {π ρ : Nat → Nat} (hπ : IsPerm n π ρ)
    (hperm : ∀ i j, i < n → j < n →
      entry n data' Num.infinity i j = entry n data Num.infinity (π i) (π j))
    {dlo dhi : K} (hdlo : 0 < dlo)
    (hdata : ∀ (k : Nat) (h : k < data.size), fin data[k] ∧ dlo ≤ val data[k] ∧ val data[k] ≤ dhi)
    (hdata' : ∀ (k : Nat) (h : k < data'.size), fin data'[k] ∧ dlo ≤ val data'[k] ∧ val data'[k] ≤ dhi)
    (Rg : RangeOkW u lo hi n dlo dhi)
    (hok : ∀ v, fin v → dlo * (1 - u) ^ (2 * n) ≤ val v → val v ≤ dhi / (1 - u) ^ (2 * n) → ok v) :
    ∃ s₁ e M₁ s₂ e' M₂,
      linkageWith chk .weighted st d data n = .ok (s₁, e, M₁) ∧
      linkageWith chk' .weighted st' d' data' n = .ok (s₂, e', M₂) ∧
      (WgtMarginAlong (valD val n data) u n e.steps.toList →
        ∀ (i : Nat) (a b : Step α), e.steps.toList[i]? = some a → e'.steps.toList[i]? = some b →
          (Spec.leaves n e.steps.toList e.steps.toList.length (n + i)).toFinset =
            (Spec.leaves n e'.steps.toList e'.steps.toList.length (n + i)).toFinset.image π ∧
          a.size = b.size ∧ Near u (2 * (2 * (a.size - 2))) (val a.d) (val b.d)) := by
  obtain ⟨s₁, e, M₁, r₁, wf₁, _⟩ :=
    C03_linkage_weighted_rounded L RM hge chk st d data n h2 hs hl hdlo hdata Rg hok
  obtain ⟨s₁', e₁', M₁', r₁', c₁⟩ :=
    C02_linkage_weighted_rounded L RM hge chk st d data n h2 hs hl hdlo hdata Rg hok
  obtain ⟨s₂, e', M₂, r₂, wf₂, g₂⟩ :=
    C03_linkage_weighted_rounded L RM hge chk' st' d' data' n h2 hs hl' hdlo hdata' Rg hok
  obtain ⟨s₂', e₂', M₂', r₂', c₂⟩ :=
    C02_linkage_weighted_rounded L RM hge chk' st' d' data' n h2 hs hl' hdlo hdata' Rg hok
  rw [r₁] at r₁'; cases r₁'
  rw [r₂] at r₂'; cases r₂'
  refine ⟨s₁, e, M₁, s₂, e', M₂, r₁, r₂, fun m₁ i a b ha hb => ?_⟩
  have hsym : ∀ i j, valD val n data i j = valD val n data j i := by
    intro i j; unfold valD; rw [init_D_symm]
  have hD : ∀ i j, i < n → j < n →
      valD val n data' i j = (fun i j => valD val n data (π i) (π j)) i j := by
    intro i j hi hj
    show val (let x := Spec.entry n data' Num.infinity i j;
        if Method.average.onSquares then Num.mul x x else x) =
      val (let x := Spec.entry n data Num.infinity (π i) (π j);
        if Method.average.onSquares then Num.mul x x else x)
    rw [hperm i j hi hj]
  have g₂' := wgtGreedyUpTo_congr wf₂ hD g₂
  have h₂' : WgtHeightsNear (fun i j => valD val n data (π i) (π j)) u n val e'.steps.toList :=
    wgtHeightsNear_congr wf₂ hD (fun i s hi => (c₂ i s hi).2.2.2)
  have fam := C11_weighted_rounded_family hπ hsym wf₁ wf₂ m₁ g₂' i a b ha hb
  have hts := C11_weighted_rounded_heights RM.u_lt_one hπ hsym wf₁ wf₂ m₁ g₂'
    (fun i s hi => (c₁ i s hi).2.2.2) h₂' i a b ha hb
  exact ⟨fam.1, fam.2, hts⟩

end Kodama
