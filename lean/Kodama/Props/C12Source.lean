/-
C12 (tie to the source) — fingerprints of the hand-modelled functions this property's theorems are about.

The model of these functions is written by hand and tied to the crate by the bit-exact correspondence
run, which is bounded by the sizes it generates.  `Generated/Bodies.lean` is re-emitted from /repo on
every run with a fingerprint of each function's NORMALISED body (comments, attributes, cfg(test) items
and whitespace removed; parameters and local bindings alpha-renamed; tools/extract_bodies.py); each
theorem below pins the fingerprint of the text the model was written against.  A theorem that no longer
checks names the function that was edited: the model may no longer describe it (for instance on sizes the
correspondence run does not reach), and `check` searches for a failing input.  Written by
tools/mk_source_snapshot.py — by hand, after the model has been brought up to date, never by a check.
-/
import Kodama.Generated.Bodies
namespace Kodama

theorem C12_source_queue_LinkageHeap_is_empty : Gen.bodyHash "queue.rs::LinkageHeap::is_empty" = some 541810837262901355 := by decide
theorem C12_source_queue_LinkageHeap_len : Gen.bodyHash "queue.rs::LinkageHeap::len" = some 356601399460223757 := by decide
theorem C12_source_queue_LinkageHeap_pop : Gen.bodyHash "queue.rs::LinkageHeap::pop" = some 581318552547960198 := by decide
theorem C12_source_queue_LinkageHeap_peek : Gen.bodyHash "queue.rs::LinkageHeap::peek" = some 14713158983686933 := by decide
theorem C12_source_queue_LinkageHeap_heapify : Gen.bodyHash "queue.rs::LinkageHeap::heapify" = some 626637675946396237 := by decide
theorem C12_source_queue_LinkageHeap_priority : Gen.bodyHash "queue.rs::LinkageHeap::priority" = some 1022848217240348545 := by decide
theorem C12_source_queue_LinkageHeap_set_priority : Gen.bodyHash "queue.rs::LinkageHeap::set_priority" = some 396773740064790583 := by decide
theorem C12_source_queue_LinkageHeap_sift_up : Gen.bodyHash "queue.rs::LinkageHeap::sift_up" = some 405030374798999656 := by decide
theorem C12_source_queue_LinkageHeap_sift_down : Gen.bodyHash "queue.rs::LinkageHeap::sift_down" = some 480213012234795859 := by decide
theorem C12_source_queue_LinkageHeap_swap : Gen.bodyHash "queue.rs::LinkageHeap::swap" = some 546835196994282615 := by decide
theorem C12_source_queue_LinkageHeap_parent : Gen.bodyHash "queue.rs::LinkageHeap::parent" = some 414042300786923807 := by decide
theorem C12_source_queue_LinkageHeap_children : Gen.bodyHash "queue.rs::LinkageHeap::children" = some 140235334618584006 := by decide
theorem C12_source_active_Active_contains : Gen.bodyHash "active.rs::Active::contains" = some 654886494140433379 := by decide
theorem C12_source_active_Active_remove : Gen.bodyHash "active.rs::Active::remove" = some 386005549530244905 := by decide
theorem C12_source_active_Active_iter : Gen.bodyHash "active.rs::Active::iter" = some 515319513971985362 := by decide
theorem C12_source_active_Active_range : Gen.bodyHash "active.rs::Active::range" = some 148316777747368857 := by decide
theorem C12_source_active_ActiveIter_next : Gen.bodyHash "active.rs::ActiveIter::next" = some 1007075780930307687 := by decide
theorem C12_source_active_ActiveRange_next : Gen.bodyHash "active.rs::ActiveRange::next" = some 547352909114454429 := by decide
theorem C12_source_chain_nnchain_with : Gen.bodyHash "chain.rs::nnchain_with" = some 106125546475694288 := by decide
theorem C12_source_generic_generic_with : Gen.bodyHash "generic.rs::generic_with" = some 666595537043039253 := by decide
theorem C12_source_generic_single : Gen.bodyHash "generic.rs::single" = some 644996484007636956 := by decide
theorem C12_source_generic_complete : Gen.bodyHash "generic.rs::complete" = some 1037487414753074802 := by decide
theorem C12_source_generic_average : Gen.bodyHash "generic.rs::average" = some 1116265116762071441 := by decide
theorem C12_source_generic_weighted : Gen.bodyHash "generic.rs::weighted" = some 935098845084524492 := by decide
theorem C12_source_generic_ward : Gen.bodyHash "generic.rs::ward" = some 874016737665832682 := by decide
theorem C12_source_generic_centroid : Gen.bodyHash "generic.rs::centroid" = some 107088843728231042 := by decide
theorem C12_source_generic_median : Gen.bodyHash "generic.rs::median" = some 356816801408632543 := by decide
theorem C12_source_chain_nnchain : Gen.bodyHash "chain.rs::nnchain" = some 24852539402900289 := by decide
theorem C12_source_generic_generic : Gen.bodyHash "generic.rs::generic" = some 580816253015378521 := by decide

end Kodama
