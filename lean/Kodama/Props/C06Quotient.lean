/-
C06 for SINGLE and COMPLETE linkage WITHOUT `LtTrichotomy` — see `Props/C03Quotient.lean` for the
quotient + naturality argument (`quotient_transfer`, `C03_single_complete_upTo`).

* `C06_single_complete_agree_upTo`   on an input that is tie-free in the quotient (`TieFreeFrom` along a
  greedy-valid reference run `steps₀` of the projected input), `primitive_with` and `nnchain_with` (hence
  `linkage_with(Complete)`) return the SAME labels and sizes in the same order and order-equivalent
  heights: the projections of the outputs ARE `steps₀`.  Hypotheses: `OrderLaws α`, no NaN, `BeqOrd α`.
-/
import Kodama.Props.C03Quotient
import Kodama.Props.C06Order
set_option linter.unusedSectionVars false
namespace Kodama
open Spec
variable {α : Type} [Num α]

/-- **C06 for single / complete, up to order-equivalence of heights, no trichotomy**: on an input that is
tie-free in the quotient, the projections of the outputs of `primitive_with` and `nnchain_with` (and of
`linkage_with(Complete)`, which is `nnchain_with`) are all equal to the reference run — same labels, same
sizes, same order, order-equivalent heights. -/
theorem C06_single_complete_agree_upTo (L : OrderLaws α) (hnan : ∀ x : α, Num.isNaN x = false)
    (B : BeqOrd α) {m : Method} (hm : m.selectsOnly) (data : Array α) (n : Nat) (h2 : 2 ≤ n)
    (hs : n < 2147483648) (hl : 2 * data.size = n * (n - 1))
    (steps₀ : List (Step (OrdQ L hnan)))
    (h₀ : @GreedyValid _ (ordQNum L hnan) m n (data.map (OrdQ.mk L hnan)) steps₀)
    (htf : @TieFreeFrom _ (ordQNum L hnan) m
      (@init _ (ordQNum L hnan) m n (data.map (OrdQ.mk L hnan))) steps₀) :
    (∀ (chk : Bool) (st : State α) (d : Dendrogram α),
      ∃ st' d' M', primitiveWith chk m st d data n = .ok (st', d', M') ∧
        d'.steps.toList.map (mapStep (OrdQ.mk L hnan)) = steps₀) ∧
    (∀ mc : MethodChain, m.intoMethodChain = some mc → ∀ (chk : Bool) (st : State α) (d : Dendrogram α),
      ∃ st' d' M', nnchainWith chk mc st d data n = .ok (st', d', M') ∧
        d'.steps.toList.map (mapStep (OrdQ.mk L hnan)) = steps₀) := by
  let _ : Num (OrdQ L hnan) := ordQNum L hnan
  constructor
  · intro chk st d
    obtain ⟨⟨st', d', M', hr, hg⟩, _⟩ := C03_single_complete_upTo L hnan B hm chk st d data n h2 hs hl
    exact ⟨st', d', M', hr, (C06_unique m n _ steps₀ _ h₀ hg htf).symm⟩
  · intro mc hmc chk st d
    obtain ⟨_, hn⟩ := C03_single_complete_upTo L hnan B hm chk st d data n h2 hs hl
    obtain ⟨st', d', M', hr, hg⟩ := hn mc hmc
    exact ⟨st', d', M', hr, (C06_unique m n _ steps₀ _ h₀ hg htf).symm⟩


end Kodama
