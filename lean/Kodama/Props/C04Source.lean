/-
C04 (tie to the source) — fingerprints of the hand-modelled functions this property's theorems are about.

The model of these functions is written by hand and tied to the crate by the bit-exact correspondence
run, which is bounded by the sizes it generates.  `Generated/Bodies.lean` is re-emitted from /repo on
every run with a fingerprint of each function's NORMALISED body (comments, attributes, cfg(test) items
and whitespace removed; parameters and local bindings alpha-renamed; tools/extract_bodies.py); each
theorem below pins the fingerprint of the text the model was written against.  A theorem that no longer
checks names the function that was edited: the model may no longer describe it (for instance on sizes the
correspondence run does not reach), and `check` searches for a failing input.  Written by
tools/mk_source_snapshot.py — by hand, after the model has been brought up to date, never by a check.
-/
import Kodama.Generated.Bodies
namespace Kodama

theorem C04_source_active_Active_contains : Gen.bodyHash "active.rs::Active::contains" = some 654886494140433379 := by decide
theorem C04_source_active_Active_remove : Gen.bodyHash "active.rs::Active::remove" = some 386005549530244905 := by decide
theorem C04_source_active_Active_iter : Gen.bodyHash "active.rs::Active::iter" = some 515319513971985362 := by decide
theorem C04_source_active_Active_range : Gen.bodyHash "active.rs::Active::range" = some 148316777747368857 := by decide
theorem C04_source_active_ActiveIter_next : Gen.bodyHash "active.rs::ActiveIter::next" = some 1007075780930307687 := by decide
theorem C04_source_active_ActiveRange_next : Gen.bodyHash "active.rs::ActiveRange::next" = some 547352909114454429 := by decide
theorem C04_source_spanning_mst_with : Gen.bodyHash "spanning.rs::mst_with" = some 666729020279403072 := by decide
theorem C04_source_spanning_mst : Gen.bodyHash "spanning.rs::mst" = some 18907340084940961 := by decide

end Kodama
