/-
C05 — no inversions for single, complete, average, weighted and Ward.

Proved here (FULL statement, for the model): for every entry point (`runWith`: the five algorithms
in `_with` form; the allocating wrappers are the instance `State.new`, `Dendrogram.new n`), every
build mode, every input array and `n`, every prior state and dendrogram, and every method whose
*generated* table entry `requiresSorting` is true:

* `C05_sorted`      whenever the call returns, the step dissimilarities are pairwise `≤` in step
                    order (exactly: `¬ (later < earlier)`).
* `C05_tables`      `requiresSorting m = false ↔ m ∈ {centroid, median}` and nnchain's method
                    conversion round-trips (finite tables, `decide`).
* `C05_unsorted_order` for centroid/median no permutation is applied: the output heights are the
                    heights in merge order (then `sqrt`).

* `C05_epilogue`    (translated call sites) every `_with` in the SOURCE ends with
                    `state.set.relabel(steps, <its method>)` (then `sqrt` for the three that square),
                    and `relabel` in the source has the shape reset; `if requires_sorting { sort_by
                    partial_cmp .expect }`; the seven-statement relabel loop — so a refactor that
                    bypasses or replaces the sort in one entry point breaks the build.

Number laws used (hypotheses, not axioms): `OrderLaws` (`<` is a strict weak order on non-NaN
values) and `MonoSqrt`.  Both are true of IEEE f32/f64 including NaN handling; the sort itself
panics (model: `Panic.nanInSort`) when a NaN height is present.

Trusted/modelled: `slice::sort_by` is a stable sort (modelled by `List.mergeSort`); the position of
sort / relabel / sqrt in each `_with` is hand-modelled and tied by the bit-exact correspondence run.
-/
import Kodama.Lemmas.Relabel
import Kodama.Lemmas.Tail
import Kodama.Generated.Shape
namespace Kodama
variable {α : Type} [Num α]

theorem C05_sorted (L : OrderLaws α) (S : MonoSqrt α) (chk : Bool) (alg : Alg) (m : Method)
    (hm : m.requiresSorting = true) (st : State α) (d : Dendrogram α) (data : Array α) (n : Nat)
    (st' : State α) (d' : Dendrogram α) (M' : Mat α)
    (h : runWith chk alg m st d data n = .ok (st', d', M')) :
    (heights d'.steps).Pairwise HLe := by
  rcases runWith_tail chk alg m st d data n st' d' M' h with h0 | ⟨raw, uf0, uf, rel, hrel, rfl⟩
  · simp [heights, h0]
  · exact sqrtSteps_sorted S m rel (relabel_sorted L m hm raw rel uf0 uf hrel)

theorem C05_tables :
    (∀ m : Method, m.requiresSorting = false ↔ (m = .centroid ∨ m = .median)) ∧
    (∀ (m : Method) (mc : MethodChain), m.intoMethodChain = some mc → mc.intoMethod = m ∧ m.requiresSorting = true) := by
  constructor
  · intro m; cases m <;> simp [Method.requiresSorting]
  · intro m mc h
    cases m <;> cases mc <;> simp [Method.intoMethodChain, MethodChain.intoMethod, Method.requiresSorting] at h ⊢

/-- Centroid / median: heights come out in the order the merges were pushed. -/
theorem C05_unsorted_order (m : Method) (hm : m.requiresSorting = false) (raw rel : Dendrogram α)
    (uf0 uf : UF) (h : relabel m uf0 raw = .ok (uf, rel)) :
    heights (sqrtSteps m rel).steps =
      (heights raw.steps).map (fun x => if m.onSquares then Num.sqrt x else x) := by
  unfold relabel at h
  simp only [hm, Bool.false_eq_true, if_false, bind_ok, pure_ok] at h
  obtain ⟨s0, hs0, ⟨uf', steps'⟩, hfold, heq⟩ := h
  subst hs0
  have hd : rel.steps = steps' := by
    have := congrArg Prod.snd heq; simp at this; rw [← this]
  have hh := relabelFold_heights raw.obs _ _ _ _ _ hfold
  unfold sqrtSteps
  split
  · next ho =>
    simp only [heights, hd, ho, if_true, Array.toList_map, List.map_map] at hh ⊢
    have e1 : ∀ l : List (Step α),
        List.map ((fun x => x.d) ∘ fun s => ({ s with d := Num.sqrt s.d } : Step α)) l
          = List.map (fun x => Num.sqrt x) (List.map (fun x : Step α => x.d) l) := by
      intro l; rw [List.map_map]; rfl
    rw [e1, hh, List.map_map]
  · next ho => simp [heights, hd, ho] at hh ⊢; exact hh

theorem C05_epilogue :
    Gen.epilogue = [("primitive_with", ["relabel method", "sqrt method"]),
                    ("nnchain_with", ["relabel method.into_method()", "sqrt method"]),
                    ("generic_with", ["relabel method", "sqrt method"]),
                    ("mst_with", ["relabel Method::Single"])] ∧
    Gen.relabelShape = ["reset", "if requires_sorting", "sort_by partial_cmp expect", "for i in 0..len"] ∧
    Gen.relabelLoop = ["let new_cluster1 = self.find(dendrogram[i].cluster1)",
                       "let new_cluster2 = self.find(dendrogram[i].cluster2)",
                       "self.union(new_cluster1, new_cluster2)",
                       "let size1 = dendrogram.cluster_size(new_cluster1)",
                       "let size2 = dendrogram.cluster_size(new_cluster2)",
                       "dendrogram[i].set_clusters(new_cluster1, new_cluster2)",
                       "dendrogram[i].size = size1 + size2"] := by
  decide

/-- Non-vacuity of the law bundles: a three-element strict order satisfies them. -/
instance : Num (Fin 3) where
  lt a b := decide (a < b)
  beq a b := decide (a = b)
  add a _ := a
  sub a _ := a
  mul a _ := a
  div a _ := a
  ofNat _ := 0
  half := 0
  quarter := 0
  sqrt a := a
  abs a := a
  maxValue := 2
  infinity := 2
  isNaN _ := false

example : OrderLaws (Fin 3) ∧ MonoSqrt (Fin 3) := by
  refine ⟨⟨by decide, by decide⟩, ⟨by decide⟩⟩

end Kodama
