/-
C01 for `generic_with` under a RUN-DEPENDENT value hypothesis (no closure of the good set under the
Lance–Williams update; motivation and the two formulations (A) / (B): headers of
`Props/C03GenericRun.lean` and `Props/C12Generic.lean`).

* `C01_generic_run`         under (B) `Spec.RunGood G m n data`: whatever `generic_with` returns has
                            `observations = n` and is `Spec.WellFormed`.
* `C01_generic_run_model`   under (A) `GenericRunGood G chk m n data` — the hypotheses of the
                            closure-based `C01_generic` minus `UpdClosed`, which implies (A)
                            (`genericRunGood_of_updClosed`): `C01_generic` is a corollary (`example`).
* `C01_generic_run_exact`   exact arithmetic, all seven methods: `RunGood (· < max_value)` alone.
* `C01_linkage_run`, `C01_linkage_run_exact`   centroid / median through `linkageWith`.
* non-vacuity: Ward / centroid / median on NON-constant rational matrices.
-/
import Kodama.Props.C01
import Kodama.Props.C12Generic
namespace Kodama
open Spec

section Run
variable {α : Type} [Num α] {G : α → Prop}

theorem C01_generic_run (L : OrderLaws α) (hbeq : BeqLe α) (gs : GoodSet G) (chk : Bool)
    (m : Method) (hlbc : l1Mode m = .fix → LBClosed G m) (hsym : LwSymm α m)
    (hmax : Num.isNaN (Num.maxValue : α) = false)
    (st st' : State α) (d d' : Dendrogram α) (data : Array α) (n : Nat) (M' : Mat α)
    (h2 : 2 ≤ n) (hs : n < 2147483648) (hl : 2 * data.size = n * (n - 1))
    (hrun : RunGood G m n data)
    (h : genericWith chk m st d data n = .ok (st', d', M')) :
    d'.obs = n ∧ WellFormed n d'.steps.toList := by
  obtain ⟨st1, dend1, M1, hres, _, heq⟩ :=
    genericWith_sim_run L hbeq gs chk m hlbc hsym hmax st d data n h2 hs hl hrun
  rw [heq] at h
  obtain ⟨⟨uf, rel⟩, hrel, hr⟩ := bind_ok.mp h
  simp only [pure_ok, Prod.mk.injEq] at hr
  rw [← hr.2.1]
  have := C01_relabel m st1.set uf dend1 rel n h2 hres.res.obs hres.res.raw hrel
  refine ⟨?_, wellFormed_sqrtSteps m n rel this.2⟩
  unfold sqrtSteps; split <;> exact this.1

theorem C01_generic_run_model (L : OrderLaws α) (gs : GoodSet G) (chk : Bool) (m : Method)
    (hmax : Num.isNaN (Num.maxValue : α) = false)
    (st st' : State α) (d d' : Dendrogram α) (data : Array α) (n : Nat) (M' : Mat α)
    (h2 : 2 ≤ n) (hs : n < 2147483648) (hl : 2 * data.size = n * (n - 1))
    (hrun : GenericRunGood G chk m n data)
    (h : genericWith chk m st d data n = .ok (st', d', M')) :
    d'.obs = n ∧ WellFormed n d'.steps.toList := by
  obtain ⟨st1, dend1, M1, hres, _, heq⟩ :=
    genericWith_eq_run L gs chk m hmax st d data n h2 hs hl hrun
  rw [heq] at h
  obtain ⟨⟨uf, rel⟩, hrel, hr⟩ := bind_ok.mp h
  simp only [pure_ok, Prod.mk.injEq] at hr
  rw [← hr.2.1]
  have := C01_relabel m st1.set uf dend1 rel n h2 hres.obs hres.raw hrel
  refine ⟨?_, wellFormed_sqrtSteps m n rel this.2⟩
  unfold sqrtSteps; split <;> exact this.1

/-- The closure-based `C01_generic` is a corollary. -/
example (L : OrderLaws α) (gs : GoodSet G) (chk : Bool) (m : Method)
    (hcl : UpdClosed G m) (hmax : Num.isNaN (Num.maxValue : α) = false)
    (st st' : State α) (d d' : Dendrogram α) (data : Array α) (n : Nat) (M' : Mat α)
    (h2 : 2 ≤ n) (hs : n < 2147483648) (hl : 2 * data.size = n * (n - 1))
    (hin : ∀ i (h : i < (squareData m data).size), G (squareData m data)[i])
    (h : genericWith chk m st d data n = .ok (st', d', M')) :
    d'.obs = n ∧ WellFormed n d'.steps.toList :=
  C01_generic_run_model L gs chk m hmax st st' d d' data n M' h2 hs hl
    (genericRunGood_of_updClosed L gs chk m hcl hmax data n h2 hs hl hin) h

/-- `linkage(.., Centroid | Median)` (routed to `generic_with`). -/
theorem C01_linkage_run (L : OrderLaws α) (hbeq : BeqLe α) (gs : GoodSet G) (chk : Bool)
    (m : Method) (hm : m = .centroid ∨ m = .median) (hsym : LwSymm α m)
    (hmax : Num.isNaN (Num.maxValue : α) = false)
    (st st' : State α) (d d' : Dendrogram α) (data : Array α) (n : Nat) (M' : Mat α)
    (h2 : 2 ≤ n) (hs : n < 2147483648) (hl : 2 * data.size = n * (n - 1))
    (hrun : RunGood G m n data)
    (h : linkageWith chk m st d data n = .ok (st', d', M')) :
    d'.obs = n ∧ WellFormed n d'.steps.toList := by
  have hd : dispatch m = .generic := by rcases hm with rfl | rfl <;> rfl
  have hlink : linkageWith chk m st d data n = genericWith chk m st d data n := by
    unfold linkageWith; rw [hd]
  rw [hlink] at h
  refine C01_generic_run L hbeq gs chk m ?_ hsym hmax st st' d d' data n M' h2 hs hl hrun h
  intro h'
  rcases hm with rfl | rfl <;> simp [l1Mode] at h'

end Run

section Exact
variable {K : Type} [Field K] [LinearOrder K] [IsStrictOrderedRing K] [Num K]

theorem C01_generic_run_exact (E : ExactLaws K) (B : BeqExact K) (chk : Bool) (m : Method)
    (st st' : State K) (d d' : Dendrogram K) (data : Array K) (n : Nat) (M' : Mat K)
    (h2 : 2 ≤ n) (hs : n < 2147483648) (hl : 2 * data.size = n * (n - 1))
    (hrun : RunGood (fun v : K => v < (Num.maxValue : K)) m n data)
    (h : genericWith chk m st d data n = .ok (st', d', M')) :
    d'.obs = n ∧ WellFormed n d'.steps.toList :=
  C01_generic_run E.field.orderLaws (B.beqLe E) (goodSet_exact B E (fun _ h => h)) chk m
    (lbClosed_exact_of_fix E _ m) (E.field.lwSymm m) (E.noNaN _) st st' d d' data n M' h2 hs hl
    hrun h

theorem C01_linkage_run_exact (E : ExactLaws K) (B : BeqExact K) (chk : Bool) (m : Method)
    (hm : m = .centroid ∨ m = .median)
    (st st' : State K) (d d' : Dendrogram K) (data : Array K) (n : Nat) (M' : Mat K)
    (h2 : 2 ≤ n) (hs : n < 2147483648) (hl : 2 * data.size = n * (n - 1))
    (hrun : RunGood (fun v : K => v < (Num.maxValue : K)) m n data)
    (h : linkageWith chk m st d data n = .ok (st', d', M')) :
    d'.obs = n ∧ WellFormed n d'.steps.toList :=
  C01_linkage_run E.field.orderLaws (B.beqLe E) (goodSet_exact B E (fun _ h => h)) chk m hm
    (E.field.lwSymm m) (E.noNaN _) st st' d d' data n M' h2 hs hl hrun h

end Exact

/-! ## Non-vacuity: Ward, centroid, median on NON-constant rational matrices -/
section Example
@[reducible] private def qNumRun01 : Num ℚ := ratNumMax 1000
attribute [local instance] qNumRun01

/-- Ward, `d01 = 1, d02 = 3, d12 = 2`: every hypothesis of `C01_generic_run` holds. -/
example (st' : State ℚ) (d' : Dendrogram ℚ) (M' : Mat ℚ)
    (h : genericWith true .ward State.new (Dendrogram.new 0) (#[1, 3, 2] : Array ℚ) 3
      = .ok (st', d', M')) :
    d'.obs = 3 ∧ WellFormed 3 d'.steps.toList :=
  C01_generic_run (ratNumMax_exact 1000).field.orderLaws
    ((ratNumMax_beq 1000).beqLe (ratNumMax_exact 1000))
    (goodSet_exact (ratNumMax_beq 1000) (ratNumMax_exact 1000) (fun _ h => h)) true .ward
    (lbClosed_exact_of_fix (ratNumMax_exact 1000) _ .ward)
    ((ratNumMax_exact 1000).field.lwSymm .ward) rfl _ st' _ d' _ 3 M' (by decide) (by decide)
    (by decide) runGood_ward3 h

/-- Centroid, 4 points. -/
example (st' : State ℚ) (d' : Dendrogram ℚ) (M' : Mat ℚ)
    (h : genericWith true .centroid State.new (Dendrogram.new 0) (#[1, 3, 2, 4, 5, 7] : Array ℚ) 4
      = .ok (st', d', M')) :
    d'.obs = 4 ∧ WellFormed 4 d'.steps.toList :=
  C01_generic_run_exact (ratNumMax_exact 1000) (ratNumMax_beq 1000) true .centroid _ st' _ d' _ 4
    M' (by decide) (by decide) (by decide) runGood_centroid4 h

/-- Median through `linkage_with`, 4 points. -/
example (st' : State ℚ) (d' : Dendrogram ℚ) (M' : Mat ℚ)
    (h : linkageWith false .median State.new (Dendrogram.new 0) (#[1, 3, 2, 4, 5, 7] : Array ℚ) 4
      = .ok (st', d', M')) :
    d'.obs = 4 ∧ WellFormed 4 d'.steps.toList :=
  C01_linkage_run_exact (ratNumMax_exact 1000) (ratNumMax_beq 1000) false .median (Or.inr rfl)
    _ st' _ d' _ 4 M' (by decide) (by decide) (by decide) runGood_median4 h

end Example

end Kodama
