/-
C11 UNDER FLOATING-POINT ROUNDING (average linkage) — "on a tie-free (margin-certified) input,
permuting the observations yields the same hierarchy: after mapping indices back, the same family of
clusters as sets of observations, merged at the same heights up to rounding".

`Props/C11*.lean` prove C11 in exact arithmetic.  Here, for average linkage under the standard model of
floating-point arithmetic:

Let `π` be a permutation of the observations (`IsPerm n π ρ`), `D` the exact (symmetric) dissimilarities
of the original input and `D' i j = D (π i) (π j)` those of the renumbered input.  Let `s₁` be a
well-formed output for `D` along which the rounding-safe margin holds (`AvgMarginAlong D u n s₁`,
`Props/C06Rounding.lean`) and `s₂` ANY well-formed output for `D'` that is greedy up to rounding
(`AvgGreedyUpTo D' u n s₂` — what `Props/C03Rounding.lean` proves of every entry point).  Then

* `C11_average_rounded_family`   for every step `i` the cluster created by step `i` of `s₂`, mapped back
  through `π`, IS the cluster created by step `i` of `s₁` (as sets of observations), and the two steps
  report the same size;
* `C11_average_rounded_heights`  and, when both lists are within rounding of the exact means (the C02
  rounding theorems), their heights are within `2·4·(size−2)` rounding factors of each other.

Proof: renumber `s₂` back (`steps.map (mapStep (σ π n))`, `Lemmas/SpecPerm.lean`); well-formedness,
presence of labels, observation sets (as images) and — by reindexing the double sums, `D` symmetric —
`AvgGreedyUpTo` transport along the renumbering (`avgGreedyUpTo_mapStep`); then `C06_average_rounded_unique`
(uniqueness under the margin) identifies the renumbered `s₂` with `s₁` label by label.

* `C11_linkage_average_rounded`, `C11_nnchain_average_rounded`, `C11_primitive_average_rounded`  entry points: the call on
  `data` and on the renumbered `data'`, under the hypotheses of the C02/C03 rounding theorems for both inputs.

Non-vacuity (`C11Ex`): on the round-down toy type (`u = 1/1000`, every operation rounded) the inputs
`d01 = 1, d02 = 9, d12 = 4` and its renumbering by `0 ↔ 2` meet every hypothesis, the margin included.

NOT proved: `generic_with` is not restated (same composition with `C03_generic_average_rounded` /
`C02_generic_average_rounded`, plus its sentinel hypotheses for both inputs); weighted linkage (same argument over merge trees); Ward / centroid / median (no relative bound).
-/
import Kodama.Props.C06Rounding
import Kodama.Lemmas.PermTransport
set_option linter.unusedSectionVars false
namespace Kodama
open Spec Crit MTree Finset Round

variable {K : Type} [Field K] [LinearOrder K] [IsStrictOrderedRing K]
variable {α : Type} [Num α]

/-! ## Transport of sums, presence and greediness along a renumbering -/

/-- Reindexing the mean over cross pairs along an injective map that agrees with `π` on the sets. -/
theorem avg_image {D : Nat → Nat → K} {π f : Nat → Nat} (hf : Function.Injective f)
    {X Y : Finset Nat} (hX : ∀ x ∈ X, f x = π x) (hY : ∀ y ∈ Y, f y = π y) :
    avg (fun i j => D (π i) (π j)) X Y = avg D (X.image f) (Y.image f) := by
  unfold avg S
  rw [Finset.card_image_of_injective _ hf, Finset.card_image_of_injective _ hf,
    Finset.sum_image (fun a _ b _ h => hf h)]
  congr 1
  apply Finset.sum_congr rfl
  intro a ha
  rw [Finset.sum_image (fun a _ b _ h => hf h)]
  apply Finset.sum_congr rfl
  intro b hb
  rw [hX a ha, hY b hb]

theorem presentBefore_mapStep {n : Nat} {f : Nat → Nat} (hf : LabelMap n f) (steps : List (Step α))
    (i l : Nat) : PresentBefore n (steps.map (mapStep f)) i (f l) ↔ PresentBefore n steps i l := by
  unfold PresentBefore
  rw [hf.lt_add_iff, usedBefore_mapStep hf]

/-- **Greedy-up-to-rounding is equivariant under renumbering.** -/
theorem avgGreedyUpTo_mapStep {D : Nat → Nat → K} {u : K} {n : Nat} {π ρ : Nat → Nat}
    (hπ : IsPerm n π ρ) (hsym : ∀ i j, D i j = D j i) {steps : List (Step α)}
    (g : AvgGreedyUpTo (fun i j => D (π i) (π j)) u n steps) :
    AvgGreedyUpTo D u n (steps.map (mapStep (σ π n))) := by
  have hf := σ_labelMap hπ
  have hinj := hf.injective
  intro i s' hi p q hp hq hpq
  rw [List.getElem?_map] at hi
  cases hb : steps[i]? with
  | none => rw [hb] at hi; cases hi
  | some b =>
    rw [hb] at hi
    simp only [Option.map_some, Option.some.injEq] at hi
    subst hi
    obtain ⟨p₀, rfl⟩ := hf.surj' p
    obtain ⟨q₀, rfl⟩ := hf.surj' q
    have hp₀ := (presentBefore_mapStep hf steps i p₀).mp hp
    have hq₀ := (presentBefore_mapStep hf steps i q₀).mp hq
    have hne₀ : p₀ ≠ q₀ := fun h => hpq (by rw [h])
    have h := g i b hb p₀ q₀ hp₀ hq₀ hne₀
    simp only at h ⊢
    obtain ⟨hX, hY, hdis, hcAB, hcXY, h0, hle⟩ := h
    rw [List.length_map]
    -- the four observation sets of the renumbered list are the images of the original ones
    have eL : ∀ l, (Spec.leaves n (steps.map (mapStep (σ π n))) steps.length (σ π n l)).toFinset =
        (Spec.leaves n steps steps.length l).toFinset.image (σ π n) :=
      fun l => leaves_toFinset_mapStep hf steps steps.length l
    have hσ : ∀ l, ∀ x ∈ (Spec.leaves n steps steps.length l).toFinset, σ π n x = π x := by
      intro l x hx
      exact σ_of_lt π (leaves_lt n steps steps.length l x (List.mem_toFinset.mp hx))
    have eavg : ∀ l l', avg (fun i j => D (π i) (π j)) (Spec.leaves n steps steps.length l).toFinset
          (Spec.leaves n steps steps.length l').toFinset =
        avg D ((Spec.leaves n steps steps.length l).toFinset.image (σ π n))
          ((Spec.leaves n steps steps.length l').toFinset.image (σ π n)) :=
      fun l l' => avg_image hinj (hσ l) (hσ l')
    have ecard : ∀ l, ((Spec.leaves n steps steps.length l).toFinset.image (σ π n)).card =
        (Spec.leaves n steps steps.length l).toFinset.card :=
      fun l => Finset.card_image_of_injective _ hinj
    rw [eL p₀, eL q₀]
    rcases mapStep_cases (σ π n) b with ⟨e1, e2, _⟩ | ⟨e1, e2, _⟩
    · rw [e1, e2, eL b.c1, eL b.c2, ecard, ecard, ecard, ecard, ← eavg, ← eavg]
      exact ⟨hX.image _, hY.image _, (Finset.disjoint_image hinj).mpr hdis, hcAB, hcXY, h0, hle⟩
    · rw [e1, e2, eL b.c1, eL b.c2, ecard, ecard, ecard, ecard, ← eavg, ← eavg,
        avg_symm (fun i j => hsym (π i) (π j))]
      exact ⟨hX.image _, hY.image _, (Finset.disjoint_image hinj).mpr hdis,
        by rw [Nat.add_comm]; exact hcAB, hcXY, h0,
        by rw [Nat.add_comm (Finset.card (Spec.leaves n steps steps.length b.c2).toFinset)]; exact hle⟩

/-! ## The hierarchy -/

/-- **C11 under rounding, average linkage: the family of clusters.**  See the file header. -/
theorem C11_average_rounded_family {D : Nat → Nat → K} {u : K} {n : Nat} {π ρ : Nat → Nat}
    (hπ : IsPerm n π ρ) (hsym : ∀ i j, D i j = D j i) {s₁ s₂ : List (Step α)}
    (wf₁ : WellFormed n s₁) (wf₂ : WellFormed n s₂)
    (m₁ : AvgMarginAlong D u n s₁) (g₂ : AvgGreedyUpTo (fun i j => D (π i) (π j)) u n s₂) :
    ∀ (i : Nat) (a b : Step α), s₁[i]? = some a → s₂[i]? = some b →
      (Spec.leaves n s₁ s₁.length (n + i)).toFinset =
        (Spec.leaves n s₂ s₂.length (n + i)).toFinset.image π ∧ a.size = b.size := by
  have hf := σ_labelMap hπ
  have wf₂' := wellFormed_mapStep hf wf₂
  have g₂' := avgGreedyUpTo_mapStep hπ hsym g₂
  have hlab := C06_average_rounded_labels_unique wf₁ wf₂' m₁ g₂'
  intro i a b ha hb
  have hil : i < s₁.length := (List.getElem?_eq_some_iff.mp ha).1
  have hlen : (s₂.map (mapStep (σ π n))).length = s₁.length := by
    rw [wf₂'.len, wf₁.len]
  have hord : ∀ (k : Nat) (s : Step α), k < i + 1 → s₁[k]? = some s → s.c1 < s.c2 ∧ s.c2 < n + k :=
    fun k s _ hs => wf₁.ordered k s hs
  have hlv := leaves_lab (hlab (i + 1)) hord s₁.length (s₂.map (mapStep (σ π n))).length (n + i)
    (by omega) (by omega) (by omega)
  constructor
  · rw [hlv, List.length_map]
    have := leaves_toFinset_mapStep hf s₂ s₂.length (n + i)
    rw [σ_of_ge π (Nat.le_add_right n i)] at this
    rw [this]
    -- on observation sets `σ π n` is `π`
    apply Finset.image_congr
    intro x hx
    exact σ_of_lt π (leaves_lt n s₂ s₂.length (n + i) x (List.mem_toFinset.mp hx))
  · have hsz := C06_average_rounded_sizes_unique wf₁ wf₂' hlab (i + 1) i (Nat.lt_succ_self i)
    rw [ha, List.getElem?_map, hb] at hsz
    simpa using hsz

/-- **C11 under rounding, average linkage: the heights.** -/
theorem C11_average_rounded_heights {D : Nat → Nat → K} {u : K} {n : Nat} {π ρ : Nat → Nat}
    {val : α → K} (hu : u < 1)
    (hπ : IsPerm n π ρ) (hsym : ∀ i j, D i j = D j i) {s₁ s₂ : List (Step α)}
    (wf₁ : WellFormed n s₁) (wf₂ : WellFormed n s₂)
    (m₁ : AvgMarginAlong D u n s₁) (g₂ : AvgGreedyUpTo (fun i j => D (π i) (π j)) u n s₂)
    (h₁ : AvgHeightsNear D u n val s₁)
    (h₂ : AvgHeightsNear (fun i j => D (π i) (π j)) u n val s₂) :
    ∀ (i : Nat) (a b : Step α), s₁[i]? = some a → s₂[i]? = some b →
      Near u (2 * (4 * (a.size - 2))) (val a.d) (val b.d) := by
  have hf := σ_labelMap hπ
  have hinj := hf.injective
  have wf₂' := wellFormed_mapStep hf wf₂
  have g₂' := avgGreedyUpTo_mapStep hπ hsym g₂
  have hlab := C06_average_rounded_labels_unique wf₁ wf₂' m₁ g₂'
  -- heights of the renumbered list are near the exact means for `D`
  have h₂' : AvgHeightsNear D u n val (s₂.map (mapStep (σ π n))) := by
    intro i s' hi
    rw [List.getElem?_map] at hi
    cases hb : s₂[i]? with
    | none => rw [hb] at hi; cases hi
    | some b =>
      rw [hb] at hi
      simp only [Option.map_some, Option.some.injEq] at hi
      subst hi
      have hn := h₂ i b hb
      rw [List.length_map, mapStep_d, mapStep_size]
      have eL : ∀ l, (Spec.leaves n (s₂.map (mapStep (σ π n))) s₂.length (σ π n l)).toFinset =
          (Spec.leaves n s₂ s₂.length l).toFinset.image (σ π n) :=
        fun l => leaves_toFinset_mapStep hf s₂ s₂.length l
      have hσ : ∀ l, ∀ x ∈ (Spec.leaves n s₂ s₂.length l).toFinset, σ π n x = π x := by
        intro l x hx
        exact σ_of_lt π (leaves_lt n s₂ s₂.length l x (List.mem_toFinset.mp hx))
      rw [avg_image hinj (hσ b.c1) (hσ b.c2)] at hn
      rcases mapStep_cases (σ π n) b with ⟨e1, e2, _⟩ | ⟨e1, e2, _⟩
      · rw [e1, e2, eL, eL]; exact hn
      · rw [e1, e2, eL, eL, avg_symm hsym]; exact hn
  intro i a b ha hb
  have := C06_average_rounded_heights hu wf₁ wf₂' hlab h₁ h₂' i a (mapStep (σ π n) b) ha
    (by rw [List.getElem?_map, hb]; rfl)
  rw [mapStep_d] at this
  exact this.2.2.2

/-! ## Entry point: `linkage_with` on the original and on the renumbered matrix -/

/-- The mean over cross pairs only reads `D` on the two sets. -/
theorem avg_congr_on {D D' : Nat → Nat → K} {X Y : Finset Nat}
    (h : ∀ x ∈ X, ∀ y ∈ Y, D x y = D' x y) : avg D X Y = avg D' X Y := by
  unfold avg S
  congr 1
  exact Finset.sum_congr rfl (fun a ha => Finset.sum_congr rfl (fun b hb => h a ha b hb))

/-- `AvgGreedyUpTo` only reads `D` on observations. -/
theorem avgGreedyUpTo_congr {D D' : Nat → Nat → K} {u : K} {n : Nat} {steps : List (Step α)}
    (h : ∀ i j, i < n → j < n → D i j = D' i j) (g : AvgGreedyUpTo D u n steps) :
    AvgGreedyUpTo D' u n steps := by
  intro i s hi p q hp hq hpq
  have hg := g i s hi p q hp hq hpq
  have e : ∀ l l', avg D (Spec.leaves n steps steps.length l).toFinset
      (Spec.leaves n steps steps.length l').toFinset =
      avg D' (Spec.leaves n steps steps.length l).toFinset
        (Spec.leaves n steps steps.length l').toFinset :=
    fun l l' => avg_congr_on (fun x hx y hy =>
      h x y (leaves_lt n steps steps.length l x (List.mem_toFinset.mp hx))
        (leaves_lt n steps steps.length l' y (List.mem_toFinset.mp hy)))
  simp only at hg ⊢
  rw [← e, ← e]
  exact hg

/-- `AvgHeightsNear` only reads `D` on observations. -/
theorem avgHeightsNear_congr {D D' : Nat → Nat → K} {u : K} {n : Nat} {val : α → K}
    {steps : List (Step α)} (h : ∀ i j, i < n → j < n → D i j = D' i j)
    (g : AvgHeightsNear D u n val steps) : AvgHeightsNear D' u n val steps := by
  intro i s hi
  have hg := g i s hi
  rw [avg_congr_on (D := D) (D' := D') (fun x hx y hy =>
    h x y (leaves_lt n steps steps.length s.c1 x (List.mem_toFinset.mp hx))
      (leaves_lt n steps steps.length s.c2 y (List.mem_toFinset.mp hy)))] at hg
  exact hg

/-- **C11 for IEEE-style arithmetic, average linkage, through `linkage_with`.**  `data'` is the matrix of
the renumbered observations (`hperm`).  Under the hypotheses of the C02/C03 rounding theorems for BOTH
inputs the two calls return, and IF the rounding-safe margin holds along the output for `data` THEN, step
by step, the cluster created from `data'`, mapped back through `π`, is the cluster created from `data`,
with the same size and a height within `2·4·(size−2)` rounding factors. -/
theorem C11_linkage_average_rounded (L : OrderLaws α) {val : α → K} {fin : α → Prop}
    {u lo hi : K} {N : Nat} (RM : Round.Model val fin u lo hi N)
    (chk chk' : Bool) (st st' : State α) (d d' : Dendrogram α) (data data' : Array α) (n : Nat)
    (h2 : 2 ≤ n) (hs : n < 2147483648) (hl : 2 * data.size = n * (n - 1))
    (hl' : 2 * data'.size = n * (n - 1))
    {π ρ : Nat → Nat} (hπ : IsPerm n π ρ)
    (hperm : ∀ i j, i < n → j < n →
      entry n data' Num.infinity i j = entry n data Num.infinity (π i) (π j))
    {dlo dhi : K} (hdlo : 0 < dlo) (hdle : dlo ≤ dhi)
    (hdata : ∀ (k : Nat) (h : k < data.size), fin data[k] ∧ In0 dlo dhi (val data[k]))
    (hdata' : ∀ (k : Nat) (h : k < data'.size), fin data'[k] ∧ In0 dlo dhi (val data'[k]))
    (Rg : RangeOk u lo hi N n dlo dhi) :
    ∃ s₁ e M₁ s₂ e' M₂,
      linkageWith chk .average st d data n = .ok (s₁, e, M₁) ∧
      linkageWith chk' .average st' d' data' n = .ok (s₂, e', M₂) ∧
      (AvgMarginAlong (valD val n data) u n e.steps.toList →
        ∀ (i : Nat) (a b : Step α), e.steps.toList[i]? = some a → e'.steps.toList[i]? = some b →
          (Spec.leaves n e.steps.toList e.steps.toList.length (n + i)).toFinset =
            (Spec.leaves n e'.steps.toList e'.steps.toList.length (n + i)).toFinset.image π ∧
          a.size = b.size ∧ Near u (2 * (4 * (a.size - 2))) (val a.d) (val b.d)) := by
  obtain ⟨s₁, e, M₁, r₁, wf₁, _⟩ :=
    C03_linkage_average_rounded L RM chk st d data n h2 hs hl hdlo hdle hdata Rg
  obtain ⟨s₁', e₁', M₁', r₁', c₁⟩ :=
    C02_linkage_average_rounded L RM chk st d data n h2 hs hl hdlo hdle hdata Rg
  obtain ⟨s₂, e', M₂, r₂, wf₂, g₂⟩ :=
    C03_linkage_average_rounded L RM chk' st' d' data' n h2 hs hl' hdlo hdle hdata' Rg
  obtain ⟨s₂', e₂', M₂', r₂', c₂⟩ :=
    C02_linkage_average_rounded L RM chk' st' d' data' n h2 hs hl' hdlo hdle hdata' Rg
  rw [r₁] at r₁'; cases r₁'
  rw [r₂] at r₂'; cases r₂'
  refine ⟨s₁, e, M₁, s₂, e', M₂, r₁, r₂, fun m₁ i a b ha hb => ?_⟩
  have hsym : ∀ i j, valD val n data i j = valD val n data j i := by
    intro i j; unfold valD; rw [init_D_symm]
  have hD : ∀ i j, i < n → j < n →
      valD val n data' i j = (fun i j => valD val n data (π i) (π j)) i j := by
    intro i j hi hj
    show val ((Spec.init .average n data').D i j) = val ((Spec.init .average n data).D (π i) (π j))
    show val (let x := Spec.entry n data' Num.infinity i j;
        if Method.average.onSquares then Num.mul x x else x) =
      val (let x := Spec.entry n data Num.infinity (π i) (π j);
        if Method.average.onSquares then Num.mul x x else x)
    rw [hperm i j hi hj]
  have g₂' := avgGreedyUpTo_congr hD g₂
  have h₂' : AvgHeightsNear (fun i j => valD val n data (π i) (π j)) u n val e'.steps.toList :=
    avgHeightsNear_congr hD (fun i s hi => (c₂ i s hi).2.2.2.2.2)
  have fam := C11_average_rounded_family hπ hsym wf₁ wf₂ m₁ g₂' i a b ha hb
  have hts := C11_average_rounded_heights RM.u_lt_one hπ hsym wf₁ wf₂ m₁ g₂'
    (fun i s hi => (c₁ i s hi).2.2.2.2.2) h₂' i a b ha hb
  exact ⟨fam.1, fam.2, hts⟩

/-- **C11 for IEEE-style arithmetic, average linkage, through `nnchain_with`.**  `data'` is the matrix of
the renumbered observations (`hperm`).  Under the hypotheses of the C02/C03 rounding theorems for BOTH
inputs the two calls return, and IF the rounding-safe margin holds along the output for `data` THEN, step
by step, the cluster created from `data'`, mapped back through `π`, is the cluster created from `data`,
with the same size and a height within `2·4·(size−2)` rounding factors. -/
theorem C11_nnchain_average_rounded (L : OrderLaws α) {val : α → K} {fin : α → Prop}
    {u lo hi : K} {N : Nat} (RM : Round.Model val fin u lo hi N)
    (chk chk' : Bool) (st st' : State α) (d d' : Dendrogram α) (data data' : Array α) (n : Nat)
    (h2 : 2 ≤ n) (hs : n < 2147483648) (hl : 2 * data.size = n * (n - 1))
    (hl' : 2 * data'.size = n * (n - 1))
    {π ρ : Nat → Nat} (hπ : IsPerm n π ρ)
    (hperm : ∀ i j, i < n → j < n →
      entry n data' Num.infinity i j = entry n data Num.infinity (π i) (π j))
    {dlo dhi : K} (hdlo : 0 < dlo) (hdle : dlo ≤ dhi)
    (hdata : ∀ (k : Nat) (h : k < data.size), fin data[k] ∧ In0 dlo dhi (val data[k]))
    (hdata' : ∀ (k : Nat) (h : k < data'.size), fin data'[k] ∧ In0 dlo dhi (val data'[k]))
    (Rg : RangeOk u lo hi N n dlo dhi) :
    ∃ s₁ e M₁ s₂ e' M₂,
      nnchainWith chk .average st d data n = .ok (s₁, e, M₁) ∧
      nnchainWith chk' .average st' d' data' n = .ok (s₂, e', M₂) ∧
      (AvgMarginAlong (valD val n data) u n e.steps.toList →
        ∀ (i : Nat) (a b : Step α), e.steps.toList[i]? = some a → e'.steps.toList[i]? = some b →
          (Spec.leaves n e.steps.toList e.steps.toList.length (n + i)).toFinset =
            (Spec.leaves n e'.steps.toList e'.steps.toList.length (n + i)).toFinset.image π ∧
          a.size = b.size ∧ Near u (2 * (4 * (a.size - 2))) (val a.d) (val b.d)) := by
  obtain ⟨s₁, e, M₁, r₁, wf₁, _⟩ :=
    C03_nnchain_average_rounded L RM chk st d data n h2 hs hl hdlo hdle hdata Rg
  obtain ⟨s₁', e₁', M₁', r₁', c₁⟩ :=
    C02_nnchain_average_rounded L RM chk st d data n h2 hs hl hdlo hdle hdata Rg
  obtain ⟨s₂, e', M₂, r₂, wf₂, g₂⟩ :=
    C03_nnchain_average_rounded L RM chk' st' d' data' n h2 hs hl' hdlo hdle hdata' Rg
  obtain ⟨s₂', e₂', M₂', r₂', c₂⟩ :=
    C02_nnchain_average_rounded L RM chk' st' d' data' n h2 hs hl' hdlo hdle hdata' Rg
  rw [r₁] at r₁'; cases r₁'
  rw [r₂] at r₂'; cases r₂'
  refine ⟨s₁, e, M₁, s₂, e', M₂, r₁, r₂, fun m₁ i a b ha hb => ?_⟩
  have hsym : ∀ i j, valD val n data i j = valD val n data j i := by
    intro i j; unfold valD; rw [init_D_symm]
  have hD : ∀ i j, i < n → j < n →
      valD val n data' i j = (fun i j => valD val n data (π i) (π j)) i j := by
    intro i j hi hj
    show val ((Spec.init .average n data').D i j) = val ((Spec.init .average n data).D (π i) (π j))
    show val (let x := Spec.entry n data' Num.infinity i j;
        if Method.average.onSquares then Num.mul x x else x) =
      val (let x := Spec.entry n data Num.infinity (π i) (π j);
        if Method.average.onSquares then Num.mul x x else x)
    rw [hperm i j hi hj]
  have g₂' := avgGreedyUpTo_congr hD g₂
  have h₂' : AvgHeightsNear (fun i j => valD val n data (π i) (π j)) u n val e'.steps.toList :=
    avgHeightsNear_congr hD (fun i s hi => (c₂ i s hi).2.2.2.2.2)
  have fam := C11_average_rounded_family hπ hsym wf₁ wf₂ m₁ g₂' i a b ha hb
  have hts := C11_average_rounded_heights RM.u_lt_one hπ hsym wf₁ wf₂ m₁ g₂'
    (fun i s hi => (c₁ i s hi).2.2.2.2.2) h₂' i a b ha hb
  exact ⟨fam.1, fam.2, hts⟩

/-- **C11 for IEEE-style arithmetic, average linkage, through `primitive_with`.**  `data'` is the matrix of
the renumbered observations (`hperm`).  Under the hypotheses of the C02/C03 rounding theorems for BOTH
inputs the two calls return, and IF the rounding-safe margin holds along the output for `data` THEN, step
by step, the cluster created from `data'`, mapped back through `π`, is the cluster created from `data`,
with the same size and a height within `2·4·(size−2)` rounding factors. -/
theorem C11_primitive_average_rounded (L : OrderLaws α) {val : α → K} {fin : α → Prop}
    {u lo hi : K} {N : Nat} (RM : Round.Model val fin u lo hi N)
    (chk chk' : Bool) (st st' : State α) (d d' : Dendrogram α) (data data' : Array α) (n : Nat)
    (h2 : 2 ≤ n) (hs : n < 2147483648) (hl : 2 * data.size = n * (n - 1))
    (hl' : 2 * data'.size = n * (n - 1))
    {π ρ : Nat → Nat} (hπ : IsPerm n π ρ)
    (hperm : ∀ i j, i < n → j < n →
      entry n data' Num.infinity i j = entry n data Num.infinity (π i) (π j))
    {dlo dhi : K} (hdlo : 0 < dlo) (hdle : dlo ≤ dhi)
    (hdata : ∀ (k : Nat) (h : k < data.size), fin data[k] ∧ In0 dlo dhi (val data[k]))
    (hdata' : ∀ (k : Nat) (h : k < data'.size), fin data'[k] ∧ In0 dlo dhi (val data'[k]))
    (Rg : RangeOk u lo hi N n dlo dhi) :
    ∃ s₁ e M₁ s₂ e' M₂,
      primitiveWith chk .average st d data n = .ok (s₁, e, M₁) ∧
      primitiveWith chk' .average st' d' data' n = .ok (s₂, e', M₂) ∧
      (AvgMarginAlong (valD val n data) u n e.steps.toList →
        ∀ (i : Nat) (a b : Step α), e.steps.toList[i]? = some a → e'.steps.toList[i]? = some b →
          (Spec.leaves n e.steps.toList e.steps.toList.length (n + i)).toFinset =
            (Spec.leaves n e'.steps.toList e'.steps.toList.length (n + i)).toFinset.image π ∧
          a.size = b.size ∧ Near u (2 * (4 * (a.size - 2))) (val a.d) (val b.d)) := by
  obtain ⟨s₁, e, M₁, r₁, wf₁, _⟩ :=
    C03_primitive_average_rounded L RM chk st d data n h2 hs hl hdlo hdle hdata Rg
  obtain ⟨s₁', e₁', M₁', r₁', c₁⟩ :=
    C02_primitive_average_rounded L RM chk st d data n h2 hs hl hdlo hdle hdata Rg
  obtain ⟨s₂, e', M₂, r₂, wf₂, g₂⟩ :=
    C03_primitive_average_rounded L RM chk' st' d' data' n h2 hs hl' hdlo hdle hdata' Rg
  obtain ⟨s₂', e₂', M₂', r₂', c₂⟩ :=
    C02_primitive_average_rounded L RM chk' st' d' data' n h2 hs hl' hdlo hdle hdata' Rg
  rw [r₁] at r₁'; cases r₁'
  rw [r₂] at r₂'; cases r₂'
  refine ⟨s₁, e, M₁, s₂, e', M₂, r₁, r₂, fun m₁ i a b ha hb => ?_⟩
  have hsym : ∀ i j, valD val n data i j = valD val n data j i := by
    intro i j; unfold valD; rw [init_D_symm]
  have hD : ∀ i j, i < n → j < n →
      valD val n data' i j = (fun i j => valD val n data (π i) (π j)) i j := by
    intro i j hi hj
    show val ((Spec.init .average n data').D i j) = val ((Spec.init .average n data).D (π i) (π j))
    show val (let x := Spec.entry n data' Num.infinity i j;
        if Method.average.onSquares then Num.mul x x else x) =
      val (let x := Spec.entry n data Num.infinity (π i) (π j);
        if Method.average.onSquares then Num.mul x x else x)
    rw [hperm i j hi hj]
  have g₂' := avgGreedyUpTo_congr hD g₂
  have h₂' : AvgHeightsNear (fun i j => valD val n data (π i) (π j)) u n val e'.steps.toList :=
    avgHeightsNear_congr hD (fun i s hi => (c₂ i s hi).2.2.2.2.2)
  have fam := C11_average_rounded_family hπ hsym wf₁ wf₂ m₁ g₂' i a b ha hb
  have hts := C11_average_rounded_heights RM.u_lt_one hπ hsym wf₁ wf₂ m₁ g₂'
    (fun i s hi => (c₁ i s hi).2.2.2.2.2) h₂' i a b ha hb
  exact ⟨fam.1, fam.2, hts⟩

/-! ## Non-vacuity -/

namespace C11Ex
attribute [local instance] downNum

def π (i : Nat) : Nat := if i = 0 then 2 else if i = 2 then 0 else i

theorem isPerm : IsPerm 3 π π := by
  refine ⟨?_, ?_, ?_, ?_⟩ <;> intro i hi <;> (have : i = 0 ∨ i = 1 ∨ i = 2 := by omega) <;>
    rcases this with rfl | rfl | rfl <;> decide

theorem data_ok' : ∀ (k : Nat) (h : k < (#[4, 9, 1] : Array ℚ).size),
    (fun _ : ℚ => True) (#[4, 9, 1] : Array ℚ)[k] ∧
      In0 (1 : ℚ) 9 ((fun x : ℚ => x) (#[4, 9, 1] : Array ℚ)[k]) := by
  intro k hk
  have hk' : k = 0 ∨ k = 1 ∨ k = 2 := by
    simp only [List.size_toArray, List.length_cons, List.length_nil] at hk; omega
  rcases hk' with rfl | rfl | rfl
  · exact ⟨trivial, Or.inr ⟨by norm_num, by norm_num⟩⟩
  · exact ⟨trivial, Or.inr ⟨by norm_num, by norm_num⟩⟩
  · exact ⟨trivial, Or.inr ⟨by norm_num, by norm_num⟩⟩

theorem hperm : ∀ i j, i < 3 → j < 3 →
    entry 3 (#[4, 9, 1] : Array ℚ) Num.infinity i j =
      entry 3 (#[1, 9, 4] : Array ℚ) Num.infinity (π i) (π j) := by
  intro i j hi hj
  have : i = 0 ∨ i = 1 ∨ i = 2 := by omega
  have : j = 0 ∨ j = 1 ∨ j = 2 := by omega
  rcases ‹i = 0 ∨ i = 1 ∨ i = 2› with rfl | rfl | rfl <;>
    rcases ‹j = 0 ∨ j = 1 ∨ j = 2› with rfl | rfl | rfl <;> rfl

/-- Round-down toy type: `linkage_with` on `d01 = 1, d02 = 9, d12 = 4` and on the matrix of the
observations renumbered by `0 ↔ 2` build the same clusters (mapped back), with the same sizes and heights
equal up to rounding — all hypotheses of `C11_linkage_average_rounded`, the margin included, hold. -/
example : ∃ s₁ e M₁ s₂ e' M₂,
    linkageWith true .average State.new (Dendrogram.new 0) (#[1, 9, 4] : Array ℚ) 3 = .ok (s₁, e, M₁) ∧
    linkageWith true .average State.new (Dendrogram.new 0) (#[4, 9, 1] : Array ℚ) 3 = .ok (s₂, e', M₂) ∧
    ∀ (i : Nat) (a b : Step ℚ), e.steps.toList[i]? = some a → e'.steps.toList[i]? = some b →
      (Spec.leaves 3 e.steps.toList e.steps.toList.length (3 + i)).toFinset =
        (Spec.leaves 3 e'.steps.toList e'.steps.toList.length (3 + i)).toFinset.image π ∧
      a.size = b.size ∧
      Near (1 / 1000 : ℚ) (2 * (4 * (a.size - 2))) a.d b.d := by
  have RM := downNum_model (lo := 1 / 100) (hi := 100) (N := 10) (by norm_num) (by norm_num)
    (by norm_num)
  obtain ⟨s₁, e, M₁, s₂, e', M₂, r₁, r₂, h⟩ := C11_linkage_average_rounded downNum_orderLaws RM
    true true State.new State.new (Dendrogram.new 0) (Dendrogram.new 0) #[1, 9, 4] #[4, 9, 1] 3
    (by decide) (by decide) (by decide) (by decide) isPerm hperm
    (dlo := 1) (dhi := 9) (by norm_num) (by norm_num) example_data_ok data_ok'
    ⟨by decide, by norm_num, by norm_num⟩
  refine ⟨s₁, e, M₁, s₂, e', M₂, r₁, r₂, h ?_⟩
  -- the margin along the returned run: it has the labels of `C06Ex.exSteps`
  obtain ⟨_, e₀, _, r₀, wf, g⟩ := C03_linkage_average_rounded downNum_orderLaws RM
    true State.new (Dendrogram.new 0) #[1, 9, 4] 3 (by decide) (by decide) (by decide)
    (dlo := 1) (dhi := 9) (by norm_num) (by norm_num)
    example_data_ok ⟨by decide, by norm_num, by norm_num⟩
  rw [r₁] at r₀; cases r₀
  exact C06_average_rounded_margin_of_labAgree C06Ex.exSteps_wf wf
    (C06_average_rounded_labels_unique C06Ex.exSteps_wf wf C06Ex.exSteps_margin g)
    C06Ex.exSteps_margin
end C11Ex

end Kodama
