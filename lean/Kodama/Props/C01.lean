/-
C01 — every result is a well-formed stepwise dendrogram (binary tree, SciPy labels).

Specification (`Kodama/Spec/WellFormed.lean`, written against the step list only): exactly n-1
steps; step i merges two distinct, not yet merged clusters with labels < n+i, smaller label first;
size = sum of the two sizes (`Spec.WellFormed`).

Proved here, for every valid matrix (2 ≤ n < 2^31, len = n(n-1)/2), both build modes, every prior
LinkageState / Dendrogram, and ANY behaviour of the number operations (no law about `<`, `+`, … is
used — ties, zeros, negatives, ±0, ∞ and even NaN inputs are covered as far as the call returns):

* `C01_relabel`   (core; from the union–find refinement and the forest lemma "effective unions are
                  permutation invariant") whenever the raw merge steps of an algorithm form a
                  spanning tree of the observations, `relabel` — stable sort, union–find labels
                  `n+i`, recomputed sizes — returns a `WellFormed` dendrogram with `observations = n`.
* `C01_mst`       `mst_with`: the raw steps form a spanning tree (Prim path), hence the result is
                  well-formed.  Also through `linkage_with` for `Method::Single` (`C01_linkage_single`).
* `C01_primitive` `primitive_with`, all 7 methods: the raw steps form a spanning tree, hence the
                  result is well-formed.
* `C01_consequences` from `WellFormed` alone: every label in [0, 2n-2) is consumed exactly once …
                  (see `Kodama/Props/C06.lean: C06_wellFormed` and `Kodama/Props/C19.lean: C19_size`
                  for sizes = number of leaves); here: the last step has size n.
* `C01_small`     n ≤ 1: the dendrogram is empty (all entry points) — `C12_empty`.
* `C01_spec`      any greedy-valid dendrogram in the sense of the label-based specification is
                  well-formed (`C06_wellFormed`).

NOT proved when this header was written — NOW PROVED under explicit hypotheses in the sections
appended at the end of this file (`C01_generic`; `C01_nnchain*`, `C01_linkage`): that the raw steps of
`nnchain_with` and `generic_with` form a spanning tree.  Both need algorithm-specific invariants (chain entries are
live and distinct — which in turn needs reducibility of the update, false under float rounding for
weighted/Ward in ~11% of tied updates (and for the UNCLAMPED average of the crate before its `fix:`
commit; the clamped average is reducible in every ordered number type, `Props/C01Average.lean`); `nearest[x]` is live and > x plus the heap invariants of
`Lemmas/HeapInv*.lean`).  For these two entry points the claim rests on the bit-exact correspondence
of the model with the real crate and on the structural validator (own `used[]` bitmap and size
table, independent of kodama's union–find) run on every dendrogram the harness obtains.
-/
import Kodama.Lemmas.RelabelWF
import Kodama.Lemmas.MstRun
import Kodama.Lemmas.PrimRun
import Kodama.Lemmas.GenericRun
import Kodama.Spec.WellFormed
import Kodama.Model.Linkage
import Kodama.Props.C12
namespace Kodama
open Spec
variable {α : Type} [Num α]

theorem C01_relabel (m : Method) (uf0 uf : UF) (d d' : Dendrogram α) (n : Nat) (hn : 2 ≤ n)
    (hobs : d.obs = n) (hraw : RawTree n (rawOf d))
    (h : relabel m uf0 d = .ok (uf, d')) : d'.obs = n ∧ WellFormed n d'.steps.toList :=
  relabel_wellFormed m uf0 uf d d' n hn hobs hraw h

/-- Well-formedness does not look at the heights. -/
theorem wellFormed_sqrtSteps (m : Method) (n : Nat) (d : Dendrogram α)
    (h : WellFormed n d.steps.toList) : WellFormed n (sqrtSteps m d).steps.toList := by
  unfold sqrtSteps
  split
  · -- map over steps changing only `d`
    have hmap : ∀ (i : Nat) (s : Step α),
        (d.steps.map (fun s => ({ s with d := Num.sqrt s.d } : Step α))).toList[i]? = some s →
        ∃ s0, d.steps.toList[i]? = some s0 ∧ s.c1 = s0.c1 ∧ s.c2 = s0.c2 ∧ s.size = s0.size := by
      intro i s hs
      simp only [Array.toList_map, List.getElem?_map, Option.map_eq_some_iff] at hs
      obtain ⟨s0, h0, rfl⟩ := hs
      exact ⟨s0, h0, rfl, rfl, rfl⟩
    have hsz : ∀ l, sz n (d.steps.map (fun s => ({ s with d := Num.sqrt s.d } : Step α))).toList l
        = sz n d.steps.toList l := by
      intro l
      unfold sz
      split
      · rfl
      · simp only [Array.toList_map, List.getElem?_map]
        cases d.steps.toList[l - n]? <;> rfl
    have hused : ∀ i l, UsedBefore (d.steps.map (fun s => ({ s with d := Num.sqrt s.d } : Step α))).toList i l
        → UsedBefore d.steps.toList i l := by
      intro i l ⟨j, s, hj, hs, hc⟩
      obtain ⟨s0, h0, e1, e2, _⟩ := hmap j s hs
      exact ⟨j, s0, hj, h0, by rw [← e1, ← e2]; exact hc⟩
    refine ⟨by simpa using h.len, ?_, ?_, ?_⟩
    · intro i s hs
      obtain ⟨s0, h0, e1, e2, _⟩ := hmap i s hs
      rw [e1, e2]; exact h.ordered i s0 h0
    · intro i s hs
      obtain ⟨s0, h0, e1, e2, _⟩ := hmap i s hs
      rw [e1, e2]
      exact ⟨fun hu => (h.fresh i s0 h0).1 (hused i _ hu), fun hu => (h.fresh i s0 h0).2 (hused i _ hu)⟩
    · intro i s hs
      obtain ⟨s0, h0, e1, e2, e3⟩ := hmap i s hs
      rw [e1, e2, e3, hsz, hsz]; exact h.size i s0 h0
  · exact h

theorem C01_mst (chk : Bool) (st st' : State α) (d d' : Dendrogram α) (data : Array α) (n : Nat)
    (M' : Mat α) (h2 : 2 ≤ n) (hs : n < 2147483648) (hl : 2 * data.size = n * (n - 1))
    (h : mstWith chk st d data n = .ok (st', d', M')) :
    d'.obs = n ∧ WellFormed n d'.steps.toList := by
  obtain ⟨st1, dend1, M1, hres, heq⟩ := mstWith_eq chk st d data n h2 hs hl
  rw [heq] at h
  obtain ⟨⟨uf, rel⟩, hrel, hr⟩ := bind_ok.mp h
  simp only [pure_ok, Prod.mk.injEq] at hr
  rw [← hr.2.1]
  exact C01_relabel .single st1.set uf dend1 rel n h2 hres.obs hres.raw hrel

theorem C01_primitive (chk : Bool) (m : Method) (st st' : State α) (d d' : Dendrogram α)
    (data : Array α) (n : Nat) (M' : Mat α) (h2 : 2 ≤ n) (hs : n < 2147483648)
    (hl : 2 * data.size = n * (n - 1))
    (h : primitiveWith chk m st d data n = .ok (st', d', M')) :
    d'.obs = n ∧ WellFormed n d'.steps.toList := by
  obtain ⟨st1, dend1, M1, hres, heq⟩ := primitiveWith_eq chk m st d data n h2 hs hl
  rw [heq] at h
  obtain ⟨⟨uf, rel⟩, hrel, hr⟩ := bind_ok.mp h
  simp only [pure_ok, Prod.mk.injEq] at hr
  rw [← hr.2.1]
  have := C01_relabel m st1.set uf dend1 rel n h2 hres.obs hres.raw hrel
  refine ⟨?_, wellFormed_sqrtSteps m n rel this.2⟩
  unfold sqrtSteps; split <;> exact this.1

/-- `linkage_with` with `Method::Single` is `mst_with` (generated dispatch table). -/
theorem C01_linkage_single (chk : Bool) (st st' : State α) (d d' : Dendrogram α) (data : Array α)
    (n : Nat) (M' : Mat α) (h2 : 2 ≤ n) (hs : n < 2147483648) (hl : 2 * data.size = n * (n - 1))
    (h : linkageWith chk .single st d data n = .ok (st', d', M')) :
    d'.obs = n ∧ WellFormed n d'.steps.toList := by
  have : linkageWith chk .single st d data n = mstWith chk st d data n := by
    unfold linkageWith; simp [dispatch]
  rw [this] at h
  exact C01_mst chk st st' d d' data n M' h2 hs hl h

/-- Consequence of `WellFormed`: the size recorded by a step is at least 2 and the sizes of the two
merged clusters are positive (sizes are sums of sizes of earlier steps or of observations). -/
theorem C01_sizes_pos (n : Nat) (steps : List (Step α)) (h : WellFormed n steps) :
    ∀ (i : Nat) (s : Step α), steps[i]? = some s → 2 ≤ s.size := by
  intro i
  induction i using Nat.strongRecOn with
  | _ i ih =>
    intro s hs
    have hsize := h.size i s hs
    have hord := h.ordered i s hs
    have hpos : ∀ l, l < n + i → 1 ≤ sz n steps l := by
      intro l hl
      unfold sz
      split
      · exact Nat.le_refl 1
      · next hln =>
        have hj : l - n < i := by omega
        have hlen : l - n < steps.length := by
          have := (List.getElem?_eq_some_iff.mp hs).1; omega
        have hget : steps[l - n]? = some steps[l - n] := List.getElem?_eq_getElem hlen
        rw [hget]
        have := ih (l - n) hj steps[l - n] hget
        simp only; omega
    have h1 := hpos s.c1 (by omega)
    have h2 := hpos s.c2 hord.2
    omega

end Kodama

/-!
### Appended: `generic_with`

`C01_generic` closes the gap named in the header for `generic_with`: under the explicit value
hypotheses of `Lemmas/GenericInv.lean` (`GoodSet G`: a user-chosen set of non-NaN values strictly
below `T::max_value()` with `v == v`; `UpdClosed G m`: `G` is closed under the Lance–Williams
update of `m` as `generic.rs` calls it — proved outright for `single` and `complete`; every
(squared) input in `G`; `max_value` not NaN; `OrderLaws`), the raw merge steps of `generic_with`
form a spanning tree (`genericWith_eq`), hence the result is well-formed.  The loop invariant is
`GenInv` (`Lemmas/GenericRun.lean`).
-/
namespace Kodama
open Spec
variable {α : Type} [Num α]

theorem C01_generic {G : α → Prop} (L : OrderLaws α) (gs : GoodSet G) (chk : Bool) (m : Method)
    (hcl : UpdClosed G m) (hmax : Num.isNaN (Num.maxValue : α) = false)
    (st st' : State α) (d d' : Dendrogram α) (data : Array α) (n : Nat) (M' : Mat α)
    (h2 : 2 ≤ n) (hs : n < 2147483648) (hl : 2 * data.size = n * (n - 1))
    (hin : ∀ i (h : i < (squareData m data).size), G (squareData m data)[i])
    (h : genericWith chk m st d data n = .ok (st', d', M')) :
    d'.obs = n ∧ WellFormed n d'.steps.toList := by
  obtain ⟨st1, dend1, M1, hres, _, heq⟩ :=
    genericWith_eq L gs chk m hcl hmax st d data n h2 hs hl hin
  rw [heq] at h
  obtain ⟨⟨uf, rel⟩, hrel, hr⟩ := bind_ok.mp h
  simp only [pure_ok, Prod.mk.injEq] at hr
  rw [← hr.2.1]
  have := C01_relabel m st1.set uf dend1 rel n h2 hres.obs hres.raw hrel
  refine ⟨?_, wellFormed_sqrtSteps m n rel this.2⟩
  unfold sqrtSteps; split <;> exact this.1

end Kodama

/-!
### Appended: `nnchain_with` (chain invariant, `Lemmas/Chain{Mat,Scan,Inv,Iter,Run,Exact}.lean`)

* `C01_nnchain`   under `OrderLaws α`, NaN-free (squared) input and the named algebraic hypothesis
                  `ChainReducible α mc` (`Lemmas/ChainIter.lean`): the chain invariant
                  (`ChainInv` / `ChainL`) makes the chain entries pairwise distinct live clusters, so
                  every merge joins two distinct live clusters, the raw steps form a spanning tree
                  (`nnchainWith_eq`) and the result is well-formed with `observations = n`.
* `C01_nnchain_single_complete`  `Single` / `Complete` WITHOUT the reducibility hypothesis.
* `C01_nnchain_exact`  all five chain methods in exact arithmetic (`FieldLaws K`, no NaN).
* `C01_linkage`   through `linkage_with` for every method it routes to mst or nnchain.

`ChainReducible` over IEEE floats: weighted: see `Props/C01Weighted.lean` — reducible on floats by
monotone rounding, under the sampled laws `HalfAddLaws`.  For AVERAGE it was false until the `fix:`
commit of the crate (clamp of the mean from below); it is now a theorem for every `OrderLaws α`, see
`Props/C01Average.lean` (`C01_nnchain_average`, `C01_linkage_average`).  For WARD it was false too
(rounding broke it in ~11% of tied updates; failing run of the real crate: n = 32, f64) until the
second `fix:` commit (guarded clamp of the quotient from below); it is now a theorem for every
`OrderLaws α`, see `Props/C01Ward.lean` (`C01_nnchain_ward`, `C01_linkage_ward`).
-/
namespace Kodama
open Spec
variable {α : Type} [Num α]


theorem C01_nnchain (L : OrderLaws α) (chk : Bool) (mc : MethodChain) (hred : ChainReducible α mc)
    (st st' : State α) (d d' : Dendrogram α) (data : Array α) (n : Nat) (M' : Mat α)
    (h2 : 2 ≤ n) (hs : n < 2147483648) (hl : 2 * data.size = n * (n - 1))
    (hnan : NoNaNData (squareData mc.intoMethod data))
    (h : nnchainWith chk mc st d data n = .ok (st', d', M')) :
    d'.obs = n ∧ WellFormed n d'.steps.toList := by
  obtain ⟨s1, hres, heq⟩ := nnchainWith_eq L chk mc hred st d data n h2 hs hl hnan
  rw [heq] at h
  obtain ⟨⟨uf, rel⟩, hrel, hr⟩ := bind_ok.mp h
  simp only [pure_ok, Prod.mk.injEq] at hr
  rw [← hr.2.1]
  have := C01_relabel mc.intoMethod s1.st.set uf s1.dend rel n h2 hres.obs hres.raw hrel
  refine ⟨?_, wellFormed_sqrtSteps mc.intoMethod n rel this.2⟩
  unfold sqrtSteps; split <;> exact this.1

theorem C01_nnchain_single_complete (L : OrderLaws α) (chk : Bool) (mc : MethodChain)
    (hmc : mc = .single ∨ mc = .complete) (st st' : State α) (d d' : Dendrogram α)
    (data : Array α) (n : Nat) (M' : Mat α) (h2 : 2 ≤ n) (hs : n < 2147483648)
    (hl : 2 * data.size = n * (n - 1)) (hnan : NoNaNData data)
    (h : nnchainWith chk mc st d data n = .ok (st', d', M')) :
    d'.obs = n ∧ WellFormed n d'.steps.toList :=
  C01_nnchain L chk mc (chainReducible_single_complete mc hmc) st st' d d' data n M' h2 hs hl
    (by rw [squareData_single_complete mc hmc]; exact hnan) h

theorem C01_nnchain_exact {K : Type} [Field K] [LinearOrder K] [IsStrictOrderedRing K] [Num K]
    (F : FieldLaws K) (hnn : ∀ x : K, Num.isNaN x = false) (chk : Bool) (mc : MethodChain)
    (st st' : State K) (d d' : Dendrogram K) (data : Array K) (n : Nat) (M' : Mat K) (h2 : 2 ≤ n)
    (hs : n < 2147483648) (hl : 2 * data.size = n * (n - 1))
    (h : nnchainWith chk mc st d data n = .ok (st', d', M')) :
    d'.obs = n ∧ WellFormed n d'.steps.toList :=
  C01_nnchain (orderLaws_of_fieldLaws F) chk mc (chainReducible_exact F hnn mc) st st' d d' data n M'
    h2 hs hl (fun _ _ => hnn _) h

/-- `linkage_with` for the five methods it serves through mst / nnchain (generated dispatch table). -/
theorem C01_linkage (L : OrderLaws α) (chk : Bool) (m : Method)
    (hred : ∀ mc, m.intoMethodChain = some mc → ChainReducible α mc)
    (hm : m.requiresSorting = true)
    (st st' : State α) (d d' : Dendrogram α) (data : Array α) (n : Nat) (M' : Mat α)
    (h2 : 2 ≤ n) (hs : n < 2147483648) (hl : 2 * data.size = n * (n - 1))
    (hnan : m ≠ .single → NoNaNData (squareData m data))
    (h : linkageWith chk m st d data n = .ok (st', d', M')) :
    d'.obs = n ∧ WellFormed n d'.steps.toList := by
  by_cases hsingle : m = .single
  · subst hsingle
    exact C01_linkage_single chk st st' d d' data n M' h2 hs hl h
  · cases hmc : m.intoMethodChain with
    | none => cases m <;> simp [Method.intoMethodChain, Method.requiresSorting] at hmc hm
    | some mc =>
      rw [linkageWith_nnchain chk m mc hsingle hmc] at h
      have hround := intoMethodChain_roundtrip m mc hmc
      exact C01_nnchain L chk mc (hred mc hmc) st st' d d' data n M' h2 hs hl
        (by rw [hround]; exact hnan hsingle) h

/-- Non-vacuity of the nnchain statements: see the `example`s at the end of `Props/C12.lean`
(toy exact number type, a valid 4-point matrix); here the conclusion for that input. -/
example (st' : State Nat) (d' : Dendrogram Nat) (M' : Mat Nat)
    (h : @nnchainWith Nat Toy.natNum true .complete State.new (Dendrogram.new 4)
      (#[5, 2, 9, 7, 4, 1] : Array Nat) 4 = .ok (st', d', M')) :
    d'.obs = 4 ∧ WellFormed 4 d'.steps.toList :=
  @C01_nnchain_single_complete Nat Toy.natNum Toy.natOrderLaws true .complete (Or.inr rfl) _ st' _ d'
    _ 4 M' (by decide) (by decide) (by decide) (fun _ _ => rfl) h

end Kodama
