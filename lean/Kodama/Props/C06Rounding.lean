/-
C06 UNDER FLOATING-POINT ROUNDING (average linkage) — "whenever no two candidate cluster
dissimilarities arising during clustering are closer than a rounding-safe margin, all entry points
return the same labels and sizes in the same step order and dissimilarities equal up to rounding".

`Props/C06*.lean` prove C06 in exact arithmetic.  `Props/C03Rounding.lean` proves, under the standard
model of floating-point arithmetic, that every entry point returns a dendrogram that is greedy UP TO
the rounding factor `(1−u)^(−K)` with respect to the EXACT mean of the ORIGINAL matrix
(`AvgGreedyUpTo`).  This file closes the gap between the two for average linkage:

## The margin (`AvgMarginAlong D u n steps`, a definition)

Along the run `steps`: at every step `i`, for every pair of present labels `p < q` OTHER than the
merged pair, with `A, B, X, Y` the observation sets of the merged pair and of `p, q`,

    mean(A,B)  <  mean(X,Y) · (1−u)^K ,      K = 4·(|A|+|B|−2) + 4·(|X|+|Y|−2)   (≤ 8n − 16).

This is the property's "rounding-safe margin", with the SAME `K` by which `AvgGreedyUpTo` is loose: the
best pair beats every other candidate by more than rounding can blur.  It is a condition on the INPUT
(exact means of the original matrix along one run), it is decidable over ℚ, and for `u = 0` it is
exactly `Spec.TieFreeFrom` read on exact means.

## What is proved

* `C06_average_rounded_labels_unique`  (entry-point independent, no number law): if `s₁`, `s₂` are
  well-formed step lists for `n` observations, `s₂` is greedy up to rounding (`AvgGreedyUpTo D u n s₂`)
  and the margin holds along `s₁`, then `s₁` and `s₂` merge THE SAME LABELS at every step.
* `C06_average_rounded_sizes_unique`   … and report the same sizes.
* `C06_average_rounded_unique`         both together: `(c1, c2, size)` agree at every position.
* `C06_average_rounded_margin_of_labAgree`  the margin is a property of the input and of the LABEL sequence of a run:
  it transfers between well-formed lists that merge the same labels (so it can be certified on any one of them).
* `C06_average_margin_of_gap`, `_f64`, `_f32`  the margin in the property's words: a RELATIVE GAP `γ` between the exact
  mean of the merged pair and that of every other present pair is a rounding-safe margin as soon as `16·n·u ≤ c`,
  `1 ≤ (1+γ)(1−c)`; for `f64` (`u ≤ 2⁻⁵³`, `n ≤ 10⁶`) a gap of `2·10⁻⁹` suffices, for `f32` (`u ≤ 2⁻²⁴`, `n ≤ 2000`) `2·10⁻³`.
* `C06_average_rounded_reference`      the same against an EXACT-arithmetic greedy reference
  (`AvgGreedyUpTo D 0 n ref`: every step merges an exact minimiser of the mean — what an independently
  written naive clustering in exact arithmetic returns): exact-greedy implies greedy up to every `u`
  (`avgGreedyUpTo_mono`), so a float run with margin has the labels and sizes of the reference.
* `C06_primitive_nnchain_average_rounded`, `C06_primitive_linkage_average_rounded`,
  `C06_primitive_generic_average_rounded`  entry points: under exactly the hypotheses of the C03/C02
  rounding theorems (`OrderLaws`, `Round.Model`, valid matrix, entries finite and `0` or in
  `[dlo, dhi]`, `RangeOk`; for generic what `generic_with` needs to run), all the calls return, and IF the
  margin holds along the output of `primitive_with` THEN at every position the two outputs have the same
  labels and the same size and their heights are within `2·4·(size−2)` rounding factors of each other
  (`Round.Near`) — C06 for IEEE floats, average linkage, all four entry points that accept it
  (transitively through `primitive`).

## What is NOT proved

* weighted linkage (the same argument over `WgtGreedyUpTo`; not restated), Ward / centroid / median
  (no relative rounding bound, see `Props/C02Rounding.lean`); single / complete need no rounding analysis
  (their heights are input entries: `Props/C06All.lean` over `OrderLaws`).
* That IEEE-754 arithmetic satisfies `Round.Model` (hypothesis; sampled on every run by `kodama-laws`).

Non-vacuity (`C06Ex`): the input `d01 = 1, d02 = 9, d12 = 4` has the margin along the explicit run
`[(0,1,size 2), (2,3,size 3)]` for `u = 1/1000`, and `C06_average_rounded_unique` predicts from it the labels and
sizes of what `nnchain_with` returns on the round-down toy type `downNum` (every operation rounded).
-/
import Kodama.Props.C03Rounding
import Kodama.Lemmas.LabelAgree
set_option linter.unusedSectionVars false
namespace Kodama
open Spec Crit MTree Finset Round

variable {K : Type} [Field K] [LinearOrder K] [IsStrictOrderedRing K]
variable {α : Type} [Num α]

/-! ## The margin -/

/-- **Rounding-safe margin along a run** (see the file header). -/
def AvgMarginAlong (D : Nat → Nat → K) (u : K) (n : Nat) (steps : List (Step α)) : Prop :=
  ∀ (i : Nat) (s : Step α), steps[i]? = some s →
    ∀ p q : Nat, PresentBefore n steps i p → PresentBefore n steps i q → p < q →
      ¬ (p = s.c1 ∧ q = s.c2) →
      let A := (Spec.leaves n steps steps.length s.c1).toFinset
      let B := (Spec.leaves n steps steps.length s.c2).toFinset
      let X := (Spec.leaves n steps steps.length p).toFinset
      let Y := (Spec.leaves n steps steps.length q).toFinset
      avg D A B < avg D X Y * (1 - u) ^ (4 * (A.card + B.card - 2) + 4 * (X.card + Y.card - 2))

/-! ## Uniqueness of the labels -/

/-- Presence of a label transfers between two lists that agree on the labels of their first `i`
steps. -/
theorem presentBefore_lab {n i : Nat} {L L' : List (Step α)} (h : LabAgree i L L') (l : Nat)
    (hp : PresentBefore n L i l) : PresentBefore n L' i l :=
  ⟨hp.1, fun hu => hp.2 ((usedBefore_lab h (Nat.le_refl i) l).mpr hu)⟩

/-- **Labels are unique under the margin.** -/
theorem C06_average_rounded_labels_unique {D : Nat → Nat → K} {u : K} {n : Nat}
    {s₁ s₂ : List (Step α)} (wf₁ : WellFormed n s₁) (wf₂ : WellFormed n s₂)
    (m₁ : AvgMarginAlong D u n s₁) (g₂ : AvgGreedyUpTo D u n s₂) :
    ∀ i, LabAgree i s₁ s₂ := by
  intro i
  induction i with
  | zero => intro j hj; omega
  | succ i ih =>
    intro j hj
    by_cases hji : j < i
    · exact ih j hji
    have hj' : j = i := by omega
    subst hj'
    cases ha : s₁[j]? with
    | none =>
      have h1 : s₁.length ≤ j := List.getElem?_eq_none_iff.mp ha
      have h2 : s₂[j]? = none := List.getElem?_eq_none_iff.mpr (by rw [wf₂.len, ← wf₁.len]; exact h1)
      rw [h2]
    | some a =>
      have hjl : j < s₁.length := (List.getElem?_eq_some_iff.mp ha).1
      have hjl2 : j < s₂.length := by rw [wf₂.len, ← wf₁.len]; exact hjl
      obtain ⟨b, hb⟩ : ∃ b, s₂[j]? = some b := ⟨s₂[j], List.getElem?_eq_getElem hjl2⟩
      rw [hb]
      simp only [Option.map_some, Option.some.injEq, Prod.mk.injEq]
      by_contra hne
      -- presence of both merged pairs in both lists
      obtain ⟨pa1, pa2, hane⟩ := C03_rounded_merged_present wf₁ j a ha
      obtain ⟨pb1, pb2, _⟩ := C03_rounded_merged_present wf₂ j b hb
      have oa := wf₁.ordered j a ha
      have ob := wf₂.ordered j b hb
      have pa1' := presentBefore_lab ih a.c1 pa1
      have pa2' := presentBefore_lab ih a.c2 pa2
      have pb1' := presentBefore_lab ih.symm b.c1 pb1
      have pb2' := presentBefore_lab ih.symm b.c2 pb2
      -- observation sets agree on labels below n + j
      have hord : ∀ (k : Nat) (s : Step α), k < j → s₁[k]? = some s → s.c1 < s.c2 ∧ s.c2 < n + k :=
        fun k s _ hs => wf₁.ordered k s hs
      have hlv : ∀ l, l < n + j →
          Spec.leaves n s₁ s₁.length l = Spec.leaves n s₂ s₂.length l :=
        fun l hl => leaves_lab ih hord s₁.length s₂.length l hl (by omega) (by omega)
      have g := g₂ j b hb a.c1 a.c2 pa1' pa2' hane
      have m := m₁ j a ha b.c1 b.c2 pb1' pb2' ob.1 (fun h => hne ⟨h.1.symm, h.2.symm⟩)
      simp only at g m
      obtain ⟨_, _, _, _, _, _, g⟩ := g
      rw [← hlv a.c1 (by omega), ← hlv a.c2 (by omega)] at g
      rw [hlv b.c1 (by omega), hlv b.c2 (by omega)] at m
      rw [Nat.add_comm (4 * _) (4 * _)] at m
      exact absurd (lt_of_lt_of_le m g) (lt_irrefl _)

/-! ## Uniqueness of the sizes -/

/-- `sz` of a label below `n + i` when the sizes of the first `i` steps agree. -/
theorem sz_of_sizes {n i : Nat} {L L' : List (Step α)}
    (h : ∀ j, j < i → (L[j]?).map (fun s : Step α => s.size) = (L'[j]?).map (fun s : Step α => s.size)) {l : Nat} (hl : l < n + i) :
    sz n L l = sz n L' l := by
  unfold sz
  by_cases c : l < n
  · simp [c]
  · simp only [c, if_false]
    have := h (l - n) (by omega)
    cases h1 : L[l - n]? <;> cases h2 : L'[l - n]? <;> rw [h1, h2] at this <;>
      simp only [Option.map_some, Option.map_none, Option.some.injEq, reduceCtorEq] at this ⊢
    exact this

/-- **Sizes are unique once the labels are.** -/
theorem C06_average_rounded_sizes_unique {n : Nat} {s₁ s₂ : List (Step α)}
    (wf₁ : WellFormed n s₁) (wf₂ : WellFormed n s₂) (hlab : ∀ i, LabAgree i s₁ s₂) :
    ∀ i j : Nat, j < i → (s₁[j]?).map (fun s : Step α => s.size) = (s₂[j]?).map (fun s : Step α => s.size) := by
  intro i
  induction i with
  | zero => intro j hj; omega
  | succ i ih =>
    intro j hj
    by_cases hji : j < i
    · exact ih j hji
    have hj' : j = i := by omega
    subst hj'
    cases ha : s₁[j]? with
    | none =>
      have h1 : s₁.length ≤ j := List.getElem?_eq_none_iff.mp ha
      have h2 : s₂[j]? = none := List.getElem?_eq_none_iff.mpr (by rw [wf₂.len, ← wf₁.len]; exact h1)
      rw [h2]
    | some a =>
      obtain ⟨b, hb, e1, e2⟩ := (hlab (j + 1)).get (Nat.lt_succ_self j) ha
      rw [hb]
      simp only [Option.map_some, Option.some.injEq]
      have oa := wf₁.ordered j a ha
      rw [wf₁.size j a ha, wf₂.size j b hb, e1, e2,
        sz_of_sizes ih (l := a.c1) (by omega), sz_of_sizes ih (l := a.c2) (by omega)]

/-- **C06 under rounding, labels and sizes**: a well-formed run with the rounding-safe margin and any
well-formed run that is greedy up to rounding have the same labels and sizes at every position. -/
theorem C06_average_rounded_unique {D : Nat → Nat → K} {u : K} {n : Nat}
    {s₁ s₂ : List (Step α)} (wf₁ : WellFormed n s₁) (wf₂ : WellFormed n s₂)
    (m₁ : AvgMarginAlong D u n s₁) (g₂ : AvgGreedyUpTo D u n s₂) :
    ∀ i : Nat, (s₁[i]?).map (fun s : Step α => (s.c1, s.c2, s.size)) =
      (s₂[i]?).map (fun s : Step α => (s.c1, s.c2, s.size)) := by
  intro i
  have hl := C06_average_rounded_labels_unique wf₁ wf₂ m₁ g₂
  have hs := C06_average_rounded_sizes_unique wf₁ wf₂ hl (i + 1) i (Nat.lt_succ_self i)
  have hli := hl (i + 1) i (Nat.lt_succ_self i)
  cases h1 : s₁[i]? <;> cases h2 : s₂[i]? <;> rw [h1, h2] at hs hli <;>
    simp only [Option.map_some, Option.map_none, Option.some.injEq, reduceCtorEq, Prod.mk.injEq] at hs hli ⊢
  exact ⟨hli.1, hli.2, hs⟩

/-! ## Against an exact-arithmetic reference -/

/-- Exact-greedy implies greedy up to every rounding unit `0 ≤ u ≤ 1`. -/
theorem avgGreedyUpTo_mono {D : Nat → Nat → K} {u : K} {n : Nat} {steps : List (Step α)}
    (hu0 : 0 ≤ u) (hu1 : u ≤ 1) (g : AvgGreedyUpTo D 0 n steps) : AvgGreedyUpTo D u n steps := by
  intro i s hi p q hp hq hpq
  have h := g i s hi p q hp hq hpq
  simp only at h ⊢
  obtain ⟨a, b, c, d, e, f, h⟩ := h
  refine ⟨a, b, c, d, e, f, ?_⟩
  simp only [sub_zero, one_pow, mul_one] at h
  have hw : (1 - u) ^ (4 * ((Spec.leaves n steps steps.length s.c1).toFinset.card +
      (Spec.leaves n steps steps.length s.c2).toFinset.card - 2) +
      4 * ((Spec.leaves n steps steps.length p).toFinset.card +
      (Spec.leaves n steps steps.length q).toFinset.card - 2)) ≤ 1 :=
    pow_le_one₀ (by linarith) (by linarith)
  calc _ ≤ avg D _ _ * 1 := mul_le_mul_of_nonneg_left hw f
    _ = avg D _ _ := mul_one _
    _ ≤ _ := h

/-- **Agreement with an exact reference**: a run with the margin agrees, in labels and sizes, with every
well-formed run that merges an EXACT minimiser of the mean at every step. -/
theorem C06_average_rounded_reference {D : Nat → Nat → K} {u : K} {n : Nat}
    {s ref : List (Step α)} (hu0 : 0 ≤ u) (hu1 : u ≤ 1) (wf : WellFormed n s) (wfr : WellFormed n ref)
    (m : AvgMarginAlong D u n s) (g : AvgGreedyUpTo D 0 n ref) :
    ∀ i : Nat, (s[i]?).map (fun s : Step α => (s.c1, s.c2, s.size)) =
      (ref[i]?).map (fun s : Step α => (s.c1, s.c2, s.size)) :=
  C06_average_rounded_unique wf wfr m (avgGreedyUpTo_mono hu0 hu1 g)

/-- The margin is a property of the input and of the LABEL sequence of the run. -/
theorem C06_average_rounded_margin_of_labAgree {D : Nat → Nat → K} {u : K} {n : Nat} {s₁ s₂ : List (Step α)}
    (wf₁ : WellFormed n s₁) (wf₂ : WellFormed n s₂) (h : ∀ i, LabAgree i s₁ s₂)
    (m : AvgMarginAlong D u n s₁) : AvgMarginAlong D u n s₂ := by
  intro i b hb p q hp hq hpq hne
  obtain ⟨a, ha, e1, e2⟩ := (h (i + 1)).symm.get (Nat.lt_succ_self i) hb
  have hp' := presentBefore_lab (h i).symm p hp
  have hq' := presentBefore_lab (h i).symm q hq
  have hm := m i a ha p q hp' hq' hpq (by rw [e1, e2]; exact hne)
  have ob := wf₂.ordered i b hb
  have hil : i < s₁.length := (List.getElem?_eq_some_iff.mp ha).1
  have hlen : s₂.length = s₁.length := by rw [wf₂.len, wf₁.len]
  have hord : ∀ (k : Nat) (s : Step α), k < i → s₁[k]? = some s → s.c1 < s.c2 ∧ s.c2 < n + k :=
    fun k s _ hs => wf₁.ordered k s hs
  have hlv : ∀ l, l < n + i → Spec.leaves n s₁ s₁.length l = Spec.leaves n s₂ s₂.length l :=
    fun l hl => leaves_lab (h i) hord s₁.length s₂.length l hl (by omega) (by omega)
  simp only at hm ⊢
  rw [e1, e2, hlv b.c1 (by omega), hlv b.c2 (by omega), hlv p hp.1, hlv q hq.1] at hm
  exact hm


/-! ## Heights -/

/-- What the C02 rounding theorems say about the heights of a returned list: each is within
`4·(size−2)` rounding factors of the exact mean over the cross pairs of the two merged clusters. -/
def AvgHeightsNear (D : Nat → Nat → K) (u : K) (n : Nat) (val : α → K) (steps : List (Step α)) : Prop :=
  ∀ (i : Nat) (s : Step α), steps[i]? = some s →
    Near u (4 * (s.size - 2))
      (avg D (Spec.leaves n steps steps.length s.c1).toFinset
        (Spec.leaves n steps steps.length s.c2).toFinset) (val s.d)

/-- **Heights agree up to rounding once labels and sizes do.** -/
theorem C06_average_rounded_heights {D : Nat → Nat → K} {u : K} {n : Nat} {val : α → K}
    {s₁ s₂ : List (Step α)} (hu : u < 1) (wf₁ : WellFormed n s₁) (wf₂ : WellFormed n s₂)
    (hlab : ∀ i, LabAgree i s₁ s₂)
    (h₁ : AvgHeightsNear D u n val s₁) (h₂ : AvgHeightsNear D u n val s₂) :
    ∀ (i : Nat) (a b : Step α), s₁[i]? = some a → s₂[i]? = some b →
      a.c1 = b.c1 ∧ a.c2 = b.c2 ∧ a.size = b.size ∧
        Near u (2 * (4 * (a.size - 2))) (val a.d) (val b.d) := by
  intro i a b ha hb
  obtain ⟨b', hb', e1, e2⟩ := (hlab (i + 1)).get (Nat.lt_succ_self i) ha
  rw [hb] at hb'; cases hb'
  have hsz := C06_average_rounded_sizes_unique wf₁ wf₂ hlab (i + 1) i (Nat.lt_succ_self i)
  rw [ha, hb] at hsz
  simp only [Option.map_some, Option.some.injEq] at hsz
  have oa := wf₁.ordered i a ha
  have hil : i < s₁.length := (List.getElem?_eq_some_iff.mp ha).1
  have hlen : s₂.length = s₁.length := by rw [wf₂.len, wf₁.len]
  have hord : ∀ (k : Nat) (s : Step α), k < i → s₁[k]? = some s → s.c1 < s.c2 ∧ s.c2 < n + k :=
    fun k s _ hs => wf₁.ordered k s hs
  have hlv : ∀ l, l < n + i → Spec.leaves n s₁ s₁.length l = Spec.leaves n s₂ s₂.length l :=
    fun l hl => leaves_lab (hlab i) hord s₁.length s₂.length l hl (by omega) (by omega)
  have n1 := h₁ i a ha
  have n2 := h₂ i b hb
  rw [e1, e2, ← hlv a.c1 (by omega), ← hlv a.c2 (by omega), ← hsz] at n2
  exact ⟨e1.symm, e2.symm, hsz, C02_average_rounded_agree hu n1 n2⟩

/-- **C06 under rounding, entry-point independent form**: two well-formed outputs that are both within
rounding of the exact means, one of them greedy up to rounding, the other with the rounding-safe
margin, agree in labels, sizes and — up to `2·4·(size−2)` rounding factors — heights. -/
theorem C06_average_rounded_agree {D : Nat → Nat → K} {u : K} {n : Nat} {val : α → K}
    {s₁ s₂ : List (Step α)} (hu : u < 1) (wf₁ : WellFormed n s₁) (wf₂ : WellFormed n s₂)
    (m₁ : AvgMarginAlong D u n s₁) (g₂ : AvgGreedyUpTo D u n s₂)
    (h₁ : AvgHeightsNear D u n val s₁) (h₂ : AvgHeightsNear D u n val s₂) :
    s₁.length = s₂.length ∧
    ∀ (i : Nat) (a b : Step α), s₁[i]? = some a → s₂[i]? = some b →
      a.c1 = b.c1 ∧ a.c2 = b.c2 ∧ a.size = b.size ∧
        Near u (2 * (4 * (a.size - 2))) (val a.d) (val b.d) :=
  ⟨by rw [wf₁.len, wf₂.len],
    C06_average_rounded_heights hu wf₁ wf₂ (C06_average_rounded_labels_unique wf₁ wf₂ m₁ g₂) h₁ h₂⟩

/-! ## Entry points -/

section EntryPoints
variable {val : α → K} {fin : α → Prop} {u lo hi : K} {N : Nat}

/-- The conclusion shared by the entry-point theorems below: both calls return, and IF the margin holds
along the first output THEN the two outputs agree. -/
def AgreeIfMargin (D : Nat → Nat → K) (u : K) (n : Nat) (val : α → K) (d₁ d₂ : Dendrogram α) : Prop :=
  AvgMarginAlong D u n d₁.steps.toList →
    d₁.steps.toList.length = d₂.steps.toList.length ∧
    ∀ (i : Nat) (a b : Step α), d₁.steps.toList[i]? = some a → d₂.steps.toList[i]? = some b →
      a.c1 = b.c1 ∧ a.c2 = b.c2 ∧ a.size = b.size ∧
        Near u (2 * (4 * (a.size - 2))) (val a.d) (val b.d)

/-- **C06 for IEEE-style arithmetic, average linkage, `primitive_with` vs `nnchain_with`.** -/
theorem C06_primitive_nnchain_average_rounded (L : OrderLaws α)
    (RM : Round.Model val fin u lo hi N)
    (chk : Bool) (st : State α) (d : Dendrogram α) (data : Array α) (n : Nat)
    (h2 : 2 ≤ n) (hs : n < 2147483648) (hl : 2 * data.size = n * (n - 1))
    {dlo dhi : K} (hdlo : 0 < dlo) (hdle : dlo ≤ dhi)
    (hdata : ∀ (k : Nat) (h : k < data.size), fin data[k] ∧ In0 dlo dhi (val data[k]))
    (Rg : RangeOk u lo hi N n dlo dhi) :
    ∃ st₁ d₁ M₁ st₂ d₂ M₂,
      primitiveWith chk .average st d data n = .ok (st₁, d₁, M₁) ∧
      nnchainWith chk .average st d data n = .ok (st₂, d₂, M₂) ∧
      AgreeIfMargin (valD val n data) u n val d₁ d₂ := by
  obtain ⟨st₁, d₁, M₁, r₁, wf₁, _⟩ :=
    C03_primitive_average_rounded L RM chk st d data n h2 hs hl hdlo hdle hdata Rg
  obtain ⟨st₁', d₁', M₁', r₁', c₁⟩ :=
    C02_primitive_average_rounded L RM chk st d data n h2 hs hl hdlo hdle hdata Rg
  obtain ⟨st₂, d₂, M₂, r₂, wf₂, g₂⟩ :=
    C03_nnchain_average_rounded L RM chk st d data n h2 hs hl hdlo hdle hdata Rg
  obtain ⟨st₂', d₂', M₂', r₂', c₂⟩ :=
    C02_nnchain_average_rounded L RM chk st d data n h2 hs hl hdlo hdle hdata Rg
  rw [r₁] at r₁'; cases r₁'
  rw [r₂] at r₂'; cases r₂'
  refine ⟨st₁, d₁, M₁, st₂, d₂, M₂, r₁, r₂, fun m₁ => ?_⟩
  exact C06_average_rounded_agree RM.u_lt_one wf₁ wf₂ m₁ g₂
    (fun i s hi => (c₁ i s hi).2.2.2.2.2) (fun i s hi => (c₂ i s hi).2.2.2.2.2)

/-- **… `primitive_with` vs `linkage_with`** (the main entry point). -/
theorem C06_primitive_linkage_average_rounded (L : OrderLaws α)
    (RM : Round.Model val fin u lo hi N)
    (chk : Bool) (st : State α) (d : Dendrogram α) (data : Array α) (n : Nat)
    (h2 : 2 ≤ n) (hs : n < 2147483648) (hl : 2 * data.size = n * (n - 1))
    {dlo dhi : K} (hdlo : 0 < dlo) (hdle : dlo ≤ dhi)
    (hdata : ∀ (k : Nat) (h : k < data.size), fin data[k] ∧ In0 dlo dhi (val data[k]))
    (Rg : RangeOk u lo hi N n dlo dhi) :
    ∃ st₁ d₁ M₁ st₂ d₂ M₂,
      primitiveWith chk .average st d data n = .ok (st₁, d₁, M₁) ∧
      linkageWith chk .average st d data n = .ok (st₂, d₂, M₂) ∧
      AgreeIfMargin (valD val n data) u n val d₁ d₂ := by
  obtain ⟨st₁, d₁, M₁, r₁, wf₁, _⟩ :=
    C03_primitive_average_rounded L RM chk st d data n h2 hs hl hdlo hdle hdata Rg
  obtain ⟨st₁', d₁', M₁', r₁', c₁⟩ :=
    C02_primitive_average_rounded L RM chk st d data n h2 hs hl hdlo hdle hdata Rg
  obtain ⟨st₂, d₂, M₂, r₂, wf₂, g₂⟩ :=
    C03_linkage_average_rounded L RM chk st d data n h2 hs hl hdlo hdle hdata Rg
  obtain ⟨st₂', d₂', M₂', r₂', c₂⟩ :=
    C02_linkage_average_rounded L RM chk st d data n h2 hs hl hdlo hdle hdata Rg
  rw [r₁] at r₁'; cases r₁'
  rw [r₂] at r₂'; cases r₂'
  refine ⟨st₁, d₁, M₁, st₂, d₂, M₂, r₁, r₂, fun m₁ => ?_⟩
  exact C06_average_rounded_agree RM.u_lt_one wf₁ wf₂ m₁ g₂
    (fun i s hi => (c₁ i s hi).2.2.2.2.2) (fun i s hi => (c₂ i s hi).2.2.2.2.2)

/-- **… `primitive_with` vs `generic_with`** (in addition what `generic_with` needs to run at all). -/
theorem C06_primitive_generic_average_rounded (L : OrderLaws α) (hbeq : BeqLe α)
    (RM : Round.Model val fin u lo hi N)
    (hmax : Num.isNaN (Num.maxValue : α) = false) {G : α → Prop} (gs : GoodSet G)
    (chk : Bool) (st : State α) (d : Dendrogram α) (data : Array α) (n : Nat)
    (h2 : 2 ≤ n) (hs : n < 2147483648) (hl : 2 * data.size = n * (n - 1))
    {dlo dhi : K} (hdlo : 0 < dlo) (hdle : dlo ≤ dhi)
    (hdata : ∀ (k : Nat) (h : k < data.size), fin data[k] ∧ In0 dlo dhi (val data[k]))
    (Rg : RangeOk u lo hi N n dlo dhi)
    (hG : ∀ v, fin v → In0 (vlo u n dlo) (vhi u n dhi) (val v) → G v) :
    ∃ st₁ d₁ M₁ st₂ d₂ M₂,
      primitiveWith chk .average st d data n = .ok (st₁, d₁, M₁) ∧
      genericWith chk .average st d data n = .ok (st₂, d₂, M₂) ∧
      AgreeIfMargin (valD val n data) u n val d₁ d₂ := by
  obtain ⟨st₁, d₁, M₁, r₁, wf₁, _⟩ :=
    C03_primitive_average_rounded L RM chk st d data n h2 hs hl hdlo hdle hdata Rg
  obtain ⟨st₁', d₁', M₁', r₁', c₁⟩ :=
    C02_primitive_average_rounded L RM chk st d data n h2 hs hl hdlo hdle hdata Rg
  obtain ⟨st₂, d₂, M₂, r₂, wf₂, g₂⟩ :=
    C03_generic_average_rounded L hbeq RM hmax gs chk st d data n h2 hs hl hdlo hdle hdata Rg hG
  obtain ⟨st₂', d₂', M₂', r₂', c₂⟩ :=
    C02_generic_average_rounded L hbeq RM hmax gs chk st d data n h2 hs hl hdlo hdle hdata Rg hG
  rw [r₁] at r₁'; cases r₁'
  rw [r₂] at r₂'; cases r₂'
  refine ⟨st₁, d₁, M₁, st₂, d₂, M₂, r₁, r₂, fun m₁ => ?_⟩
  exact C06_average_rounded_agree RM.u_lt_one wf₁ wf₂ m₁ g₂
    (fun i s hi => (c₁ i s hi).2.2.2.2.2) (fun i s hi => (c₂ i s hi).2.2.2.2.2)

end EntryPoints

/-! ## The margin in numbers -/

/-- Observation sets have at most `n` elements. -/
theorem card_leaves_le (n : Nat) (steps : List (Step α)) (fuel l : Nat) :
    (Spec.leaves n steps fuel l).toFinset.card ≤ n := by
  have : (Spec.leaves n steps fuel l).toFinset ⊆ Finset.range n := by
    intro x hx
    exact Finset.mem_range.mpr (leaves_lt n steps fuel l x (List.mem_toFinset.mp hx))
  simpa using Finset.card_le_card this

/-- **The margin in the property's words**: if along the run the exact mean of the merged pair is
non-negative and every other present pair's exact mean exceeds it by the relative gap `γ`, where
`16·n·u ≤ c` and `1 ≤ (1+γ)(1−c)`, then the rounding-safe margin holds. -/
theorem C06_average_margin_of_gap {D : Nat → Nat → K} {u : K} {n : Nat} {steps : List (Step α)}
    (h0 : 0 ≤ u) (hu : u < 1) {c γ : K} (hc : 16 * (n : K) * u ≤ c) (hγ0 : 0 ≤ γ)
    (hγ : 1 ≤ (1 + γ) * (1 - c))
    (hgap : ∀ (i : Nat) (s : Step α), steps[i]? = some s →
      ∀ p q : Nat, PresentBefore n steps i p → PresentBefore n steps i q → p < q →
        ¬ (p = s.c1 ∧ q = s.c2) →
        0 ≤ avg D (Spec.leaves n steps steps.length s.c1).toFinset
              (Spec.leaves n steps steps.length s.c2).toFinset ∧
        avg D (Spec.leaves n steps steps.length s.c1).toFinset
            (Spec.leaves n steps steps.length s.c2).toFinset * (1 + γ) <
          avg D (Spec.leaves n steps steps.length p).toFinset
            (Spec.leaves n steps steps.length q).toFinset) :
    AvgMarginAlong D u n steps := by
  intro i s hi p q hp hq hpq hne
  obtain ⟨hnn, hlt⟩ := hgap i s hi p q hp hq hpq hne
  simp only
  have cA := card_leaves_le n steps steps.length s.c1
  have cB := card_leaves_le n steps steps.length s.c2
  have cX := card_leaves_le n steps steps.length p
  have cY := card_leaves_le n steps steps.length q
  generalize (Spec.leaves n steps steps.length s.c1).toFinset.card = a at cA ⊢
  generalize (Spec.leaves n steps steps.length s.c2).toFinset.card = b at cB ⊢
  generalize (Spec.leaves n steps steps.length p).toFinset.card = x at cX ⊢
  generalize (Spec.leaves n steps steps.length q).toFinset.card = y at cY ⊢
  generalize avg D (Spec.leaves n steps steps.length s.c1).toFinset
    (Spec.leaves n steps steps.length s.c2).toFinset = mAB at hnn hlt ⊢
  generalize avg D (Spec.leaves n steps steps.length p).toFinset
    (Spec.leaves n steps steps.length q).toFinset = mXY at hlt ⊢
  have hK : 4 * (a + b - 2) + 4 * (x + y - 2) ≤ 16 * n := by omega
  have hw1 : (1 - u) ≤ 1 := by linarith
  have hw0 : 0 ≤ (1 - u) := by linarith
  have hmono : (1 - u) ^ (16 * n) ≤ (1 - u) ^ (4 * (a + b - 2) + 4 * (x + y - 2)) :=
    pow_le_pow_of_le_one hw0 hw1 hK
  have h1 := one_sub_mul_le_pow_w hu (16 * n)
  have hk : ((16 * n : Nat) : K) * u = 16 * (n : K) * u := by push_cast; ring
  rw [hk] at h1
  have hg : 0 < 1 + γ := by linarith
  have hw : 1 ≤ (1 + γ) * (1 - u) ^ (4 * (a + b - 2) + 4 * (x + y - 2)) :=
    calc (1 : K) ≤ (1 + γ) * (1 - c) := hγ
      _ ≤ (1 + γ) * (1 - 16 * (n : K) * u) := mul_le_mul_of_nonneg_left (by linarith) hg.le
      _ ≤ (1 + γ) * (1 - u) ^ (16 * n) := mul_le_mul_of_nonneg_left h1 hg.le
      _ ≤ _ := mul_le_mul_of_nonneg_left hmono hg.le
  have hXY : 0 < mXY := lt_of_le_of_lt (mul_nonneg hnn hg.le) hlt
  calc mAB = mAB * 1 := (mul_one _).symm
    _ ≤ mAB * ((1 + γ) * (1 - u) ^ (4 * (a + b - 2) + 4 * (x + y - 2))) :=
        mul_le_mul_of_nonneg_left hw hnn
    _ = (mAB * (1 + γ)) * (1 - u) ^ (4 * (a + b - 2) + 4 * (x + y - 2)) := by ring
    _ < mXY * (1 - u) ^ (4 * (a + b - 2) + 4 * (x + y - 2)) :=
        mul_lt_mul_of_pos_right hlt (pow_pos (by linarith) _)

/-- **`f64`**: `u ≤ 2⁻⁵³`, `n ≤ 10⁶`: a relative gap of `2·10⁻⁹` between the best and every other
candidate pair (exact means of the input, along one run) is a rounding-safe margin. -/
theorem C06_average_margin_of_gap_f64 {D : Nat → Nat → K} {u : K} {n : Nat} {steps : List (Step α)}
    (h0 : 0 ≤ u) (hu : u ≤ 1 / 2 ^ 53) (hn : n ≤ 1000000)
    (hgap : ∀ (i : Nat) (s : Step α), steps[i]? = some s →
      ∀ p q : Nat, PresentBefore n steps i p → PresentBefore n steps i q → p < q →
        ¬ (p = s.c1 ∧ q = s.c2) →
        0 ≤ avg D (Spec.leaves n steps steps.length s.c1).toFinset
              (Spec.leaves n steps steps.length s.c2).toFinset ∧
        avg D (Spec.leaves n steps steps.length s.c1).toFinset
            (Spec.leaves n steps steps.length s.c2).toFinset * (1 + 2 / 1000000000) <
          avg D (Spec.leaves n steps steps.length p).toFinset
            (Spec.leaves n steps steps.length q).toFinset) :
    AvgMarginAlong D u n steps := by
  have hnK : (n : K) ≤ 1000000 := by exact_mod_cast hn
  have hn0 : (0 : K) ≤ (n : K) := Nat.cast_nonneg n
  have hu1 : u < 1 := lt_of_le_of_lt hu (by norm_num)
  refine C06_average_margin_of_gap h0 hu1 (c := 16 * 1000000 * (1 / 2 ^ 53)) ?_ (by norm_num)
    (by norm_num) hgap
  calc 16 * (n : K) * u ≤ 16 * 1000000 * u := by nlinarith
    _ ≤ 16 * 1000000 * (1 / 2 ^ 53) := by nlinarith

/-- **`f32`**: `u ≤ 2⁻²⁴`, `n ≤ 2000`: a relative gap of `2·10⁻³` between the best and every other
candidate pair (exact means of the input, along one run) is a rounding-safe margin. -/
theorem C06_average_margin_of_gap_f32 {D : Nat → Nat → K} {u : K} {n : Nat} {steps : List (Step α)}
    (h0 : 0 ≤ u) (hu : u ≤ 1 / 2 ^ 24) (hn : n ≤ 2000)
    (hgap : ∀ (i : Nat) (s : Step α), steps[i]? = some s →
      ∀ p q : Nat, PresentBefore n steps i p → PresentBefore n steps i q → p < q →
        ¬ (p = s.c1 ∧ q = s.c2) →
        0 ≤ avg D (Spec.leaves n steps steps.length s.c1).toFinset
              (Spec.leaves n steps steps.length s.c2).toFinset ∧
        avg D (Spec.leaves n steps steps.length s.c1).toFinset
            (Spec.leaves n steps steps.length s.c2).toFinset * (1 + 2 / 1000) <
          avg D (Spec.leaves n steps steps.length p).toFinset
            (Spec.leaves n steps steps.length q).toFinset) :
    AvgMarginAlong D u n steps := by
  have hnK : (n : K) ≤ 2000 := by exact_mod_cast hn
  have hn0 : (0 : K) ≤ (n : K) := Nat.cast_nonneg n
  have hu1 : u < 1 := lt_of_le_of_lt hu (by norm_num)
  refine C06_average_margin_of_gap h0 hu1 (c := 16 * 2000 * (1 / 2 ^ 24)) ?_ (by norm_num)
    (by norm_num) hgap
  calc 16 * (n : K) * u ≤ 16 * 2000 * u := by nlinarith
    _ ≤ 16 * 2000 * (1 / 2 ^ 24) := by nlinarith

/-! ## Non-vacuity: an input with the margin, and the theorem predicting a rounded run -/

namespace C06Ex
attribute [local instance] downNum

def exSteps : List (Step ℚ) := [⟨0, 1, 1, 2⟩, ⟨2, 3, 13 / 2, 3⟩]

theorem exD (i j : Nat) : valD (fun x : ℚ => x) 3 #[1, 9, 4] i j =
    (Spec.entry 3 (#[1, 9, 4] : Array ℚ) Num.infinity i j) := by
  simp [valD, Spec.init, Method.onSquares]

theorem e01 : Spec.entry 3 (#[1, 9, 4] : Array ℚ) Num.infinity 0 1 = 1 := rfl
theorem e02 : Spec.entry 3 (#[1, 9, 4] : Array ℚ) Num.infinity 0 2 = 9 := rfl
theorem e12 : Spec.entry 3 (#[1, 9, 4] : Array ℚ) Num.infinity 1 2 = 4 := rfl

theorem exSteps_margin :
    AvgMarginAlong (valD (fun x : ℚ => x) 3 #[1, 9, 4]) (1 / 1000 : ℚ) 3 exSteps := by
  intro i s hi p q hp hq hpq hne
  have hi2 : i < 2 := (List.getElem?_eq_some_iff.mp hi).1
  have hcases : i = 0 ∨ i = 1 := by omega
  rcases hcases with rfl | rfl
  · have hs : s = ⟨0, 1, 1, 2⟩ := by simpa [exSteps] using hi.symm
    subst hs
    have hq3 : q < 3 := hq.1
    have : (p = 0 ∧ q = 2) ∨ (p = 1 ∧ q = 2) := by
      simp only at hne; omega
    rcases this with ⟨rfl, rfl⟩ | ⟨rfl, rfl⟩
    · simp only [exSteps, List.length_cons, List.length_nil]
      norm_num [Spec.leaves, avg, S, exD, e01, e02]
    · simp only [exSteps, List.length_cons, List.length_nil]
      norm_num [Spec.leaves, avg, S, exD, e01, e12]
  · have hs : s = ⟨2, 3, 13 / 2, 3⟩ := by simpa [exSteps] using hi.symm
    subst hs
    exfalso
    have hq4 : q < 4 := hq.1
    have u0 : UsedBefore exSteps 1 0 := ⟨0, ⟨0, 1, 1, 2⟩, by omega, rfl, Or.inl rfl⟩
    have u1 : UsedBefore exSteps 1 1 := ⟨0, ⟨0, 1, 1, 2⟩, by omega, rfl, Or.inr rfl⟩
    have hp0 : p ≠ 0 := fun e => hp.2 (e ▸ u0)
    have hp1 : p ≠ 1 := fun e => hp.2 (e ▸ u1)
    have hq1 : q ≠ 1 := fun e => hq.2 (e ▸ u1)
    apply hne
    simp only
    omega

theorem exSteps_wf : WellFormed 3 exSteps := by
  refine ⟨rfl, ?_, ?_, ?_⟩
  · intro i s hi
    have hi2 : i < 2 := (List.getElem?_eq_some_iff.mp hi).1
    have hcases : i = 0 ∨ i = 1 := by omega
    rcases hcases with rfl | rfl
    · have hs : s = ⟨0, 1, 1, 2⟩ := by simpa [exSteps] using hi.symm
      subst hs; simp
    · have hs : s = ⟨2, 3, 13 / 2, 3⟩ := by simpa [exSteps] using hi.symm
      subst hs; simp
  · intro i s hi
    have hi2 : i < 2 := (List.getElem?_eq_some_iff.mp hi).1
    have hcases : i = 0 ∨ i = 1 := by omega
    rcases hcases with rfl | rfl
    · constructor <;> rintro ⟨j, _, hj, _, _⟩ <;> omega
    · have hs : s = ⟨2, 3, 13 / 2, 3⟩ := by simpa [exSteps] using hi.symm
      subst hs
      constructor <;> rintro ⟨j, t, hj, ht, hl⟩ <;>
        (have : j = 0 := by omega) <;> subst this <;>
        (have ht' : t = ⟨0, 1, 1, 2⟩ := by simpa [exSteps] using ht.symm) <;> subst ht' <;>
        simp at hl
  · intro i s hi
    have hi2 : i < 2 := (List.getElem?_eq_some_iff.mp hi).1
    have hcases : i = 0 ∨ i = 1 := by omega
    rcases hcases with rfl | rfl
    · have hs : s = ⟨0, 1, 1, 2⟩ := by simpa [exSteps] using hi.symm
      subst hs; rfl
    · have hs : s = ⟨2, 3, 13 / 2, 3⟩ := by simpa [exSteps] using hi.symm
      subst hs; rfl

/-- The round-down toy type (`u = 1/1000`): the theorem predicts the labels and sizes of the output of
`nnchain_with` (computed with rounding) from the exact means of the input. -/
example : ∃ st' d' M',
    nnchainWith true .average State.new (Dendrogram.new 0) (#[1, 9, 4] : Array ℚ) 3
      = .ok (st', d', M') ∧
    ∀ i : Nat, (exSteps[i]?).map (fun s : Step ℚ => (s.c1, s.c2, s.size)) =
      (d'.steps.toList[i]?).map (fun s : Step ℚ => (s.c1, s.c2, s.size)) := by
  obtain ⟨st', d', M', hrun, wf, g⟩ := C03_nnchain_average_rounded downNum_orderLaws
    (downNum_model (lo := 1 / 100) (hi := 100) (N := 10) (by norm_num) (by norm_num) (by norm_num))
    true State.new (Dendrogram.new 0) #[1, 9, 4] 3 (by decide) (by decide) (by decide)
    (dlo := 1) (dhi := 9) (by norm_num) (by norm_num)
    example_data_ok ⟨by decide, by norm_num, by norm_num⟩
  exact ⟨st', d', M', hrun, C06_average_rounded_unique exSteps_wf wf exSteps_margin g⟩
end C06Ex

end Kodama
