/-
C12, second half — "every reported dissimilarity is finite and not NaN, and NON-NEGATIVE when the
inputs are."  (The first half, "returns normally", is in `Props/C12.lean`, `C12Average`, `C12Ward`,
`C12Weighted`, `C12Generic`.)

## Mathematical content (`Lemmas/NonNegSpec.lean`)
A greedy step merges a pair `(A,B)` of MINIMUM current dissimilarity `c`, so `c ≤ a := d(A,X)` and
`c ≤ b := d(B,X)` for every other cluster `X`; with `0 ≤ c` every Lance–Williams update is `≥ 0`
(`FieldLaws.lw_nonneg`: single/complete return one of `a, b`; average/weighted a mean; Ward
`≥ (sa·a+(sx+sb)·b)/(sa+sb+sx)`; centroid `≥ c·(sa²+sa·sb+sb²)/(sa+sb)²`; median `≥ 3c/4`).
The hypothesis "closest pair" is essential for Ward/centroid/median: `{v | 0 ≤ v}` is NOT closed under
their updates (`a = b = 0`, `c = 1`), so this is a theorem about greedy runs, not about the formulas.

## 1, 2. EXACT ARITHMETIC — all seven methods, all five entry points
`K` a linearly ordered field (`[Field K] [LinearOrder K] [IsStrictOrderedRing K]`) whose `Num K`
instance computes the field operations (`FieldLaws K`; for the entry points `ExactLaws K` = that + no
NaN, exactly the hypotheses of the C03 theorems).  `sqrt` is left UNCONSTRAINED by these bundles, so
the result for Ward/centroid/median is stated in two layers (`HeightsNonneg m steps`):
  (a) every height is `Spec.post m v` — `sqrt v` for the methods on squares, `v` otherwise — of a
      table value `0 ≤ v`  (no hypothesis on `sqrt`);
  (b) under `SqrtNonneg K m` (`m.onSquares = true → ∀ v ≥ 0, 0 ≤ Num.sqrt v`; vacuous for the four
      methods that do not square; follows from `MonoSqrt K` and `0 ≤ sqrt 0`: `sqrtNonneg_of_mono`)
      every height is `≥ 0`.
Input hypothesis `InputNonneg m data`: `m.onSquares = false → ∀ v ∈ data, 0 ≤ v`.  For Ward, centroid
and median NOTHING is assumed about the signs of the input: the initial table consists of squares.

Specification level (no algorithm):
* `C12_greedy_table_nonneg`     `Spec.RunGood (0 ≤ ·) m n data`: every table value of every state
                                reached by every greedy run of the specification is `≥ 0`.
* `C12_greedy_heights_nonneg`   `HeightsNonneg m steps` for every `GreedyValid m n data steps`
                                (any `n`, including `n < 2`); `C12_greedy_rawHeights_nonneg` (the
                                squared heights), `C12_greedy_heights_nonneg_plain` (methods that do not
                                square: plain `0 ≤ height`); `C12_lw_nonneg` (the update-formula fact).
Entry points (both build modes, every prior state; hypotheses = those of the C03 theorem used +
`InputNonneg`): the call returns normally, the returned steps are `GreedyValid`, and `HeightsNonneg`:
* `C12_primitive_nonneg`   all 7 methods                         (`C03_primitive_exact`)
* `C12_nnchain_nonneg`     single/complete/average/weighted/Ward (`C03_nnchain_exact`)
* `C12_generic_nonneg`     all 7 methods; extra hypotheses `BeqExact K` and
                           `RunGood (· < max_value)` (sentinel)  (`C03_generic_run_exact`)
* `C12_mst_nonneg`         single; extra hypothesis `InfSafe`    (`C03_mst_total`)
* `C12_linkage_nonneg`     all 7 methods                         (`C03_linkage_run_exact`)
and their run forms `C12_*_nonneg_of_run` ("whatever the call returned …").
"Not NaN" is part of `ExactLaws` (`isNaN` is constantly `false`); "finite" has no content in a field.

## 3. NUMBER TYPES WITHOUT FIELD LAWS (IEEE floats)
### 3a. single / complete: every height IS an input entry (`Lemmas/NonNegEntry.lean`)
No arithmetic happens (`Gen.single a b`, `Gen.complete a b` ∈ `{a, b}`), so whatever holds of every
input entry — finite, not NaN, `≥ 0`, `≤ B` — holds of every height (`C12_heights_transfer`).
* `C12_single_complete_height_is_entry`   SPEC level, ANY `[Num α]`, no law at all: every height of a
      `GreedyValid` single/complete dendrogram is an element of `data`;
      `C12_single_complete_height_equiv_entry`: for `GreedyValidUpTo` (heights recorded up to
      order-equivalence) every height is order-equivalent to an element of `data`.
* Entry points under `OrderLaws α` ONLY (true of IEEE `<` incl. NaN, `±0`, `±∞`; NO `LtTrichotomy`),
  NaN-free input — the call returns and every returned height IS an element of `data`:
      `C12_primitive_single_complete_height_is_entry`   `primitive_with`, single and complete;
      `C12_nnchain_single_complete_height_is_entry`     `nnchain_with`, single and complete;
      `C12_generic_single_complete_height_is_entry`     `generic_with`, single and complete (input in a
                                                        `GoodSet`: not NaN, `< max_value`, `v == v`);
      `C12_linkage_complete_height_is_entry`            `linkage_with(Complete)`.
* `mst_with` / `linkage_with(Single)` under `OrderLaws` only (`C12_mst_height_equiv_entry`,
  `C12_linkage_single_height_equiv_entry`; input NaN-free and not above `T::infinity()`): the call
  returns, no returned height is NaN, and every returned height is ORDER-EQUIVALENT (`¬ <` both ways)
  to an element of `data` — Prim compares `<`-minima, so a recorded `-0.0` may stand for an entry
  `+0.0`; bounds transfer along order-equivalence (`C12_heights_transfer_equiv`: `≥ z`, `≤ B`).
  With `LtTrichotomy α` (no two incomparable distinct values): IS an element
  (`C12_mst_height_is_entry`, `C12_linkage_single_height_is_entry`).
### 3b. average / weighted under the standard model of floating-point arithmetic
`C12_average_rounded_finite_nonneg_{nnchain,linkage,primitive,generic}`,
`C12_weighted_rounded_finite_nonneg_{nnchain,linkage,primitive,generic}`: corollaries of the
`C02_*_rounded` theorems (same hypotheses: `Round.Model`, non-negative finite entries in `{0}∪[dlo,dhi]`
resp. `[dlo,dhi]`, `RangeOk`/`RangeOkW`; weighted: reducibility on a domain `ChainGeOn`): every returned
height `h` satisfies `fin h ∧ isNaN h = false ∧ 0 ≤ val h`.
### 3c. median / centroid / Ward under the standard model (`Lemmas/NonNegRound.lean`)
Model `Round.SubModel` = `Round.Model` + the same relative-error law for `−` + `0.25` exact; `u ≤ 1/16`.
* `C12_lw_nonneg_rounded`            ONE update of a closest pair computed with rounding is finite and
      `≥ 0`: the computed subtrahend is at most `¾` of the computed minuend (no catastrophic
      cancellation), arguments finite in `{0}∪[l,h]`, sizes `≤ m`, range bookkeeping `Rng`.
* `C12_greedy_table_nonneg_rounded`  SPEC level: if every table value of every greedy run is finite
      with magnitude `0` or in `[l,h]` (NO over/underflow along the run — a RUN-DEPENDENT hypothesis of
      the kind the `generic_with` theorems already take; it cannot follow from a rounding model, exact
      centroid/median dissimilarities can be arbitrarily small) then every such value is `≥ 0`.
* `C12_generic_nonneg_rounded`       `generic_with(Median|Centroid|Ward)`: under that hypothesis (+ the
      `generic_with` hypotheses `BeqLe`, `GoodSet`, `LwSymm`, `LBClosed` for Ward) the call returns and
      every returned height is `sqrt v` of a finite `v`, `0 ≤ val v`; with the law
      "`sqrt` maps finite non-negative values to finite non-negative values" every height is finite `≥ 0`.

## 4. Non-vacuity
`ℚ` (`fieldNum ℚ`, `ratNumMax 1000`) for 1 and 2, every method / entry point, incl. Ward/centroid/median
on NEGATIVE entries and on the non-constant 4-point matrix; toy `Nat` for 3a; `downNum` (`ℚ` rounding
every operation down by `999/1000`) for 3b and 3c; exact `ℚ` through `generic_with(Median)` for 3c.

## NOT proved
* That IEEE binary32/64 satisfy `Round.Model` / `Round.SubModel` (trusted textbook fact, as in C02Rounding).
* 3c for the entry points `primitive_with`, `nnchain_with(Ward)`, `linkage_with(Ward)` (only the
  spec-level statement and `generic_with`; `linkage_with(Centroid|Median)` IS `generic_with`), and the
  absence of over/underflow along the run for median/centroid/Ward (hypothesis, see 3c).
* 3a for `nnchain_with`/`primitive_with`/`generic_with` needs a NaN-free input; nothing is claimed for
  inputs containing NaN.

## Trusted
`Spec/Naive.lean` (the specification), the model ↔ Rust correspondence, as for C03.
-/
import Kodama.Lemmas.NonNegSpec
import Kodama.Lemmas.NonNegEntry
import Kodama.Lemmas.NonNegRound
import Kodama.Props.C03GenericRun
import Kodama.Props.C03Mst
import Kodama.Props.C02RoundingGeneric
namespace Kodama
open Spec

section Exact
variable {K : Type} [Field K] [LinearOrder K] [IsStrictOrderedRing K] [Num K]

/-- The input hypothesis: the entries are non-negative — required only for the four methods that do
NOT square their input (single, complete, average, weighted). -/
def InputNonneg (m : Method) (data : Array K) : Prop :=
  m.onSquares = false → ∀ v ∈ data.toList, 0 ≤ v

/-- The only fact about `sqrt` that is used (and only by Ward, centroid, median). -/
def SqrtNonneg (K : Type) [Field K] [LinearOrder K] [Num K] (m : Method) : Prop :=
  m.onSquares = true → ∀ v : K, 0 ≤ v → 0 ≤ Num.sqrt v

/-- Conclusion of the theorems: (a) every height is `post m v` of a table value `v ≥ 0`;
(b) if `sqrt` maps non-negative values to non-negative values, every height is `≥ 0`. -/
def HeightsNonneg (m : Method) (steps : List (Step K)) : Prop :=
  (∀ st ∈ steps, ∃ v : K, 0 ≤ v ∧ st.d = post m v) ∧
  (SqrtNonneg K m → ∀ st ∈ steps, 0 ≤ st.d)

omit [IsStrictOrderedRing K] in
theorem sqrtNonneg_of_not_onSquares (m : Method) (h : m.onSquares = false) : SqrtNonneg K m :=
  fun h' => by rw [h] at h'; cases h'

omit [IsStrictOrderedRing K] in
/-- `SqrtNonneg` from the project's `MonoSqrt` and `0 ≤ sqrt 0`. -/
theorem sqrtNonneg_of_mono (F : FieldLaws K) (S : MonoSqrt K) (h0 : (0 : K) ≤ Num.sqrt 0)
    (m : Method) : SqrtNonneg K m := by
  intro _ v hv
  have := S.mono 0 v (F.lt_false.2 hv)
  exact le_trans h0 (F.lt_false.1 this)

omit [IsStrictOrderedRing K] in
theorem heightsNonneg_of_post {m : Method} {steps : List (Step K)}
    (h : ∀ st ∈ steps, ∃ v : K, 0 ≤ v ∧ st.d = post m v) : HeightsNonneg m steps := by
  refine ⟨h, fun hsq st hst => ?_⟩
  obtain ⟨v, hv, e⟩ := h st hst
  rw [e]
  unfold post
  cases hm : m.onSquares with
  | true => simpa using hsq hm v hv
  | false => simpa using hv

/-! ## 1. Specification level -/

/-- The update of a closest pair is non-negative. -/
theorem C12_lw_nonneg (F : FieldLaws K) (m : Method) (a b c : K) (sa sb sx : Nat)
    (hsa : 0 < sa) (hsb : 0 < sb) (hc : 0 ≤ c) (hca : c ≤ a) (hcb : c ≤ b) :
    0 ≤ lw m a b c sa sb sx :=
  F.lw_nonneg m a b c sa sb sx hsa hsb hc hca hcb

/-- **Every table value of every greedy run is non-negative** when the (squared, for the methods on
squares — then automatically) input entries are. -/
theorem C12_greedy_table_nonneg (F : FieldLaws K) (m : Method) (data : Array K) (n : Nat)
    (h2 : 2 ≤ n) (hs : n < 2147483648) (hl : 2 * data.size = n * (n - 1))
    (hin : InputNonneg m data) : RunGood (fun v : K => 0 ≤ v) m n data :=
  runGood_nonneg F (init_TableNonneg F m data n h2 hs hl hin)

/-- **Every height of a greedy-valid dendrogram is non-negative** (in the two-layer sense of
`HeightsNonneg`). -/
theorem C12_greedy_heights_nonneg (F : FieldLaws K) (m : Method) (data : Array K) (n : Nat)
    (hs : n < 2147483648) (hl : 2 * data.size = n * (n - 1)) (hin : InputNonneg m data)
    (steps : List (Step K)) (hg : GreedyValid m n data steps) : HeightsNonneg m steps := by
  by_cases h2 : 2 ≤ n
  · exact heightsNonneg_of_post
      (greedyFrom_heights_post F steps _ 0 (init_StInv m n data) (init_SizePos m n data)
        (init_TableNonneg F m data n h2 hs hl hin) hg.2)
  · have : steps = [] := List.eq_nil_of_length_eq_zero (by have := hg.1; omega)
    subst this
    exact heightsNonneg_of_post (fun st hst => by cases hst)

/-- The squared heights (raw table values of the merged pairs) of a greedy-valid dendrogram are
non-negative — for all methods, no `sqrt` involved. -/
theorem C12_greedy_rawHeights_nonneg (F : FieldLaws K) (m : Method) (data : Array K) (n : Nat)
    (h2 : 2 ≤ n) (hs : n < 2147483648) (hl : 2 * data.size = n * (n - 1))
    (hin : InputNonneg m data) (steps : List (Step K)) (hg : GreedyValid m n data steps) :
    ∀ v ∈ rawHeights m (init m n data) steps, 0 ≤ v :=
  greedyFrom_rawHeights_nonneg F steps _ 0 (init_StInv m n data) (init_SizePos m n data)
    (init_TableNonneg F m data n h2 hs hl hin) hg.2

/-- The methods that do not square: plain `0 ≤ height`. -/
theorem C12_greedy_heights_nonneg_plain (F : FieldLaws K) (m : Method) (hm : m.onSquares = false)
    (data : Array K) (n : Nat) (hs : n < 2147483648) (hl : 2 * data.size = n * (n - 1))
    (hin : ∀ v ∈ data.toList, 0 ≤ v) (steps : List (Step K))
    (hg : GreedyValid m n data steps) : ∀ st ∈ steps, 0 ≤ st.d :=
  (C12_greedy_heights_nonneg F m data n hs hl (fun _ => hin) steps hg).2
    (sqrtNonneg_of_not_onSquares m hm)

/-! ## 2. Entry points -/

/-- **`primitive_with`, all seven methods.** -/
theorem C12_primitive_nonneg (E : ExactLaws K) (chk : Bool) (m : Method) (st : State K)
    (d : Dendrogram K) (data : Array K) (n : Nat) (h2 : 2 ≤ n) (hs : n < 2147483648)
    (hl : 2 * data.size = n * (n - 1)) (hin : InputNonneg m data) :
    ∃ st' d' M', primitiveWith chk m st d data n = .ok (st', d', M') ∧
      GreedyValid m n data d'.steps.toList ∧ HeightsNonneg m d'.steps.toList := by
  obtain ⟨st', d', M', hr, hg⟩ := C03_primitive_exact E chk m st d data n h2 hs hl
  exact ⟨st', d', M', hr, hg, C12_greedy_heights_nonneg E.field m data n hs hl hin _ hg⟩

/-- **`nnchain_with`, single / complete / average / weighted / Ward.** -/
theorem C12_nnchain_nonneg (E : ExactLaws K) (chk : Bool) (mc : MethodChain) (st : State K)
    (d : Dendrogram K) (data : Array K) (n : Nat) (h2 : 2 ≤ n) (hs : n < 2147483648)
    (hl : 2 * data.size = n * (n - 1)) (hin : InputNonneg mc.intoMethod data) :
    ∃ st' d' M', nnchainWith chk mc st d data n = .ok (st', d', M') ∧
      GreedyValid mc.intoMethod n data d'.steps.toList ∧
      HeightsNonneg mc.intoMethod d'.steps.toList := by
  obtain ⟨st', d', M', hr, hg⟩ := C03_nnchain_exact E chk mc st d data n h2 hs hl
  exact ⟨st', d', M', hr, hg, C12_greedy_heights_nonneg E.field _ data n hs hl hin _ hg⟩

/-- **`generic_with`, all seven methods** (sentinel hypothesis of `C03_generic_run_exact`: every table
value of every greedy run is below `T::max_value()`). -/
theorem C12_generic_nonneg (E : ExactLaws K) (B : BeqExact K) (chk : Bool) (m : Method)
    (st : State K) (d : Dendrogram K) (data : Array K) (n : Nat) (h2 : 2 ≤ n) (hs : n < 2147483648)
    (hl : 2 * data.size = n * (n - 1))
    (hrun : RunGood (fun v : K => v < (Num.maxValue : K)) m n data) (hin : InputNonneg m data) :
    ∃ st' d' M', genericWith chk m st d data n = .ok (st', d', M') ∧
      GreedyValid m n data d'.steps.toList ∧ HeightsNonneg m d'.steps.toList := by
  obtain ⟨st', d', M', hr, hg⟩ := C03_generic_run_exact E B chk m st d data n h2 hs hl hrun
  exact ⟨st', d', M', hr, hg, C12_greedy_heights_nonneg E.field m data n hs hl hin _ hg⟩

/-- **`mst_with`** (single linkage; sentinel hypothesis `InfSafe`: no entry exceeds
`T::infinity()`). -/
theorem C12_mst_nonneg (E : ExactLaws K) (chk : Bool) (st : State K) (d : Dendrogram K)
    (data : Array K) (n : Nat) (h2 : 2 ≤ n) (hs : n < 2147483648)
    (hl : 2 * data.size = n * (n - 1)) (hinf : InfSafe n data)
    (hin : ∀ v ∈ data.toList, 0 ≤ v) :
    ∃ st' d' M', mstWith chk st d data n = .ok (st', d', M') ∧
      GreedyValid .single n data d'.steps.toList ∧ ∀ s ∈ d'.steps.toList, 0 ≤ s.d := by
  obtain ⟨st', d', M', hr, hg⟩ := C03_mst_total E.field.orderLaws E.field.ltTrichotomy chk st d
    data n h2 hs hl (E.noNaN_data n data) (infSafe_infTop E hinf)
  exact ⟨st', d', M', hr, hg,
    C12_greedy_heights_nonneg_plain E.field .single rfl data n hs hl hin _ hg⟩

/-- **`linkage_with`, all seven methods** (hypotheses of `C03_linkage_run_exact`: `InfSafe` when routed
to `mst_with`, `BeqExact ∧ RunGood (· < max_value)` when routed to `generic_with`). -/
theorem C12_linkage_nonneg (E : ExactLaws K) (chk : Bool) (m : Method) (st : State K)
    (d : Dendrogram K) (data : Array K) (n : Nat) (h2 : 2 ≤ n) (hs : n < 2147483648)
    (hl : 2 * data.size = n * (n - 1))
    (hinf : dispatch m = .mst → InfSafe n data)
    (hgen : dispatch m = .generic →
      BeqExact K ∧ RunGood (fun v : K => v < (Num.maxValue : K)) m n data)
    (hin : InputNonneg m data) :
    ∃ st' d' M', linkageWith chk m st d data n = .ok (st', d', M') ∧
      GreedyValid m n data d'.steps.toList ∧ HeightsNonneg m d'.steps.toList := by
  obtain ⟨st', d', M', hr, hg⟩ := C03_linkage_run_exact E chk m st d data n h2 hs hl hinf hgen
  exact ⟨st', d', M', hr, hg, C12_greedy_heights_nonneg E.field m data n hs hl hin _ hg⟩

omit [Field K] [LinearOrder K] [IsStrictOrderedRing K] [Num K] in
/-- Helper for the run forms. -/
theorem eq_of_ok_eq {A B C : Type} {r : R (A × B × C)} {a a' : A} {b b' : B} {c c' : C}
    (h : r = .ok (a, b, c)) (h' : r = .ok (a', b', c')) : b = b' := by
  rw [h] at h'
  simp only [Except.ok.injEq, Prod.mk.injEq] at h'
  exact h'.2.1

/-- Run form: whatever `primitive_with` returned has non-negative heights. -/
theorem C12_primitive_nonneg_of_run (E : ExactLaws K) (chk : Bool) (m : Method) (st st' : State K)
    (d d' : Dendrogram K) (M' : Mat K) (data : Array K) (n : Nat) (h2 : 2 ≤ n)
    (hs : n < 2147483648) (hl : 2 * data.size = n * (n - 1)) (hin : InputNonneg m data)
    (hrun : primitiveWith chk m st d data n = .ok (st', d', M')) :
    HeightsNonneg m d'.steps.toList := by
  obtain ⟨_, d'', _, hr, -, hh⟩ := C12_primitive_nonneg E chk m st d data n h2 hs hl hin
  rw [eq_of_ok_eq hrun hr]; exact hh

theorem C12_nnchain_nonneg_of_run (E : ExactLaws K) (chk : Bool) (mc : MethodChain)
    (st st' : State K) (d d' : Dendrogram K) (M' : Mat K) (data : Array K) (n : Nat) (h2 : 2 ≤ n)
    (hs : n < 2147483648) (hl : 2 * data.size = n * (n - 1))
    (hin : InputNonneg mc.intoMethod data)
    (hrun : nnchainWith chk mc st d data n = .ok (st', d', M')) :
    HeightsNonneg mc.intoMethod d'.steps.toList := by
  obtain ⟨_, d'', _, hr, -, hh⟩ := C12_nnchain_nonneg E chk mc st d data n h2 hs hl hin
  rw [eq_of_ok_eq hrun hr]; exact hh

theorem C12_generic_nonneg_of_run (E : ExactLaws K) (B : BeqExact K) (chk : Bool) (m : Method)
    (st st' : State K) (d d' : Dendrogram K) (M' : Mat K) (data : Array K) (n : Nat) (h2 : 2 ≤ n)
    (hs : n < 2147483648) (hl : 2 * data.size = n * (n - 1))
    (hrun : RunGood (fun v : K => v < (Num.maxValue : K)) m n data) (hin : InputNonneg m data)
    (hret : genericWith chk m st d data n = .ok (st', d', M')) :
    HeightsNonneg m d'.steps.toList := by
  obtain ⟨_, d'', _, hr, -, hh⟩ := C12_generic_nonneg E B chk m st d data n h2 hs hl hrun hin
  rw [eq_of_ok_eq hret hr]; exact hh

theorem C12_mst_nonneg_of_run (E : ExactLaws K) (chk : Bool) (st st' : State K)
    (d d' : Dendrogram K) (M' : Mat K) (data : Array K) (n : Nat) (h2 : 2 ≤ n)
    (hs : n < 2147483648) (hl : 2 * data.size = n * (n - 1)) (hinf : InfSafe n data)
    (hin : ∀ v ∈ data.toList, 0 ≤ v) (hrun : mstWith chk st d data n = .ok (st', d', M')) :
    ∀ s ∈ d'.steps.toList, 0 ≤ s.d := by
  obtain ⟨_, d'', _, hr, -, hh⟩ := C12_mst_nonneg E chk st d data n h2 hs hl hinf hin
  rw [eq_of_ok_eq hrun hr]; exact hh

theorem C12_linkage_nonneg_of_run (E : ExactLaws K) (chk : Bool) (m : Method) (st st' : State K)
    (d d' : Dendrogram K) (M' : Mat K) (data : Array K) (n : Nat) (h2 : 2 ≤ n)
    (hs : n < 2147483648) (hl : 2 * data.size = n * (n - 1))
    (hinf : dispatch m = .mst → InfSafe n data)
    (hgen : dispatch m = .generic →
      BeqExact K ∧ RunGood (fun v : K => v < (Num.maxValue : K)) m n data)
    (hin : InputNonneg m data) (hrun : linkageWith chk m st d data n = .ok (st', d', M')) :
    HeightsNonneg m d'.steps.toList := by
  obtain ⟨_, d'', _, hr, -, hh⟩ := C12_linkage_nonneg E chk m st d data n h2 hs hl hinf hgen hin
  rw [eq_of_ok_eq hrun hr]; exact hh

end Exact

/-! ## 3. Number types WITHOUT field laws (IEEE floats)

### 3a. Single and complete linkage: every height IS an input entry

`Gen.single a b` / `Gen.complete a b` return one of their arguments, so no arithmetic happens. -/

section Entry
variable {α : Type} [Num α]

/-- **Specification level, ANY number type (no law at all)**: every height of a `GreedyValid`
single- or complete-linkage dendrogram is an element of the input array. -/
theorem C12_single_complete_height_is_entry (m : Method) (hm : m = .single ∨ m = .complete)
    (data : Array α) (n : Nat) (hs : n < 2147483648) (hl : 2 * data.size = n * (n - 1))
    (steps : List (Step α)) (hg : GreedyValid m n data steps) :
    ∀ st ∈ steps, st.d ∈ data.toList :=
  greedyValid_heights_mem m hm data n hs hl steps hg

/-- The same for runs that record heights only up to order-equivalence (`GreedyValidUpTo`): every
height is order-equivalent (`¬ <` both ways) to an element of the input array. -/
theorem C12_single_complete_height_equiv_entry (m : Method) (hm : m = .single ∨ m = .complete)
    (data : Array α) (n : Nat) (hs : n < 2147483648) (hl : 2 * data.size = n * (n - 1))
    (steps : List (Step α)) (hg : GreedyValidUpTo m n data steps) :
    ∀ st ∈ steps, ∃ e ∈ data.toList, Num.lt st.d e = false ∧ Num.lt e st.d = false :=
  greedyValidUpTo_heights_equiv m hm data n hs hl steps hg

omit [Num α] in
/-- Whatever holds of every input entry (finite, not NaN, non-negative, `≤ B`, …) holds of every
height that is an input entry. -/
theorem C12_heights_transfer {P : α → Prop} {data : Array α} {steps : List (Step α)}
    (h : ∀ s ∈ steps, s.d ∈ data.toList) (hP : ∀ v ∈ data.toList, P v) : ∀ s ∈ steps, P s.d :=
  fun s hs => hP _ (h s hs)

/-- Bounds transfer along order-equivalence: if every entry is not NaN, `≥ z` and `≤ B` (in the sense
of `¬ <`), so is every height that is order-equivalent to an entry. -/
theorem C12_heights_transfer_equiv (L : OrderLaws α) {data : Array α} {steps : List (Step α)}
    (h : ∀ s ∈ steps, ∃ e ∈ data.toList, Num.lt s.d e = false ∧ Num.lt e s.d = false)
    (hnan : ∀ v ∈ data.toList, Num.isNaN v = false) (z B : α)
    (hz : ∀ v ∈ data.toList, Num.lt v z = false) (hB : ∀ v ∈ data.toList, Num.lt B v = false) :
    ∀ s ∈ steps, Num.lt s.d z = false ∧ Num.lt B s.d = false := by
  intro s hs
  obtain ⟨e, he, h1, h2⟩ := h s hs
  exact ⟨L.le_trans z e s.d (hnan e he) (hz e he) h1, L.le_trans s.d e B (hnan e he) h2 (hB e he)⟩

/-- **`primitive_with(Single | Complete)`, `OrderLaws` only** (true of IEEE `<`; no trichotomy, so
`±0` may both occur), NaN-free input: returns, and every returned height IS an input entry. -/
theorem C12_primitive_single_complete_height_is_entry (L : OrderLaws α) (chk : Bool) (m : Method)
    (hm : m = .single ∨ m = .complete) (st : State α) (d : Dendrogram α) (data : Array α)
    (n : Nat) (h2 : 2 ≤ n) (hs : n < 2147483648) (hl : 2 * data.size = n * (n - 1))
    (hnan : ∀ v ∈ data.toList, Num.isNaN v = false) :
    ∃ st' d' M', primitiveWith chk m st d data n = .ok (st', d', M') ∧
      ∀ s ∈ d'.steps.toList, s.d ∈ data.toList :=
  primitiveWith_single_complete_heights_mem L chk m hm st d data n h2 hs hl hnan

/-- **`nnchain_with(Single | Complete)`, `OrderLaws` only**, NaN-free input. -/
theorem C12_nnchain_single_complete_height_is_entry (L : OrderLaws α) (chk : Bool)
    (mc : MethodChain) (hmc : mc = .single ∨ mc = .complete) (st : State α) (d : Dendrogram α)
    (data : Array α) (n : Nat) (h2 : 2 ≤ n) (hs : n < 2147483648)
    (hl : 2 * data.size = n * (n - 1)) (hnan : ∀ v ∈ data.toList, Num.isNaN v = false) :
    ∃ st' d' M', nnchainWith chk mc st d data n = .ok (st', d', M') ∧
      ∀ s ∈ d'.steps.toList, s.d ∈ data.toList :=
  nnchainWith_single_complete_heights_mem L chk mc hmc st d data n h2 hs hl hnan

/-- **`linkage_with(Complete)`** (routed to `nnchain_with`), `OrderLaws` only, NaN-free input. -/
theorem C12_linkage_complete_height_is_entry (L : OrderLaws α) (chk : Bool) (st : State α)
    (d : Dendrogram α) (data : Array α) (n : Nat) (h2 : 2 ≤ n) (hs : n < 2147483648)
    (hl : 2 * data.size = n * (n - 1)) (hnan : ∀ v ∈ data.toList, Num.isNaN v = false) :
    ∃ st' d' M', linkageWith chk .complete st d data n = .ok (st', d', M') ∧
      ∀ s ∈ d'.steps.toList, s.d ∈ data.toList := by
  have e := linkageWith_eq_nnchainWith chk .complete (by decide) st d data n
  rw [show MethodChain.intoMethod .complete = Method.complete from rfl] at e
  rw [e]
  exact nnchainWith_single_complete_heights_mem L chk .complete (Or.inr rfl) st d data n h2 hs hl
    hnan

/-- **`generic_with(Single | Complete)`, `OrderLaws` only**, input in a `GoodSet` (not NaN, below
`T::max_value()`, `v == v`). -/
theorem C12_generic_single_complete_height_is_entry {G : α → Prop} (L : OrderLaws α)
    (gs : GoodSet G) (chk : Bool) (m : Method) (hm : m = .single ∨ m = .complete)
    (hmax : Num.isNaN (Num.maxValue : α) = false) (st : State α) (d : Dendrogram α)
    (data : Array α) (n : Nat) (h2 : 2 ≤ n) (hs : n < 2147483648)
    (hl : 2 * data.size = n * (n - 1)) (hin : ∀ v ∈ data.toList, G v) :
    ∃ st' d' M', genericWith chk m st d data n = .ok (st', d', M') ∧
      ∀ s ∈ d'.steps.toList, s.d ∈ data.toList := by
  obtain ⟨st', d', M', hr, h⟩ :=
    genericWith_single_complete_heights_mem L gs chk m hm hmax st d data n h2 hs hl hin
  exact ⟨st', d', M', hr, fun s hs' => (h s hs').1⟩

/-- Every off-diagonal entry of the matrix is an element of the condensed array. -/
theorem entry_mem_data (data : Array α) (n : Nat) (h2 : 2 ≤ n) (hs : n < 2147483648)
    (hl : 2 * data.size = n * (n - 1)) (u v : Nat) (hu : u < n) (hv : v < n) (huv : u ≠ v) :
    entry n data Num.infinity u v ∈ data.toList :=
  init_TableGood_mem .single rfl data n h2 hs hl u (by simpa [init] using hu) v
    (by simpa [init] using hv) huv

theorem noNaN_of_data (data : Array α) (n : Nat) (h2 : 2 ≤ n) (hs : n < 2147483648)
    (hl : 2 * data.size = n * (n - 1)) (hnan : ∀ v ∈ data.toList, Num.isNaN v = false) :
    NoNaN n data :=
  fun u v hu hv huv => hnan _ (entry_mem_data data n h2 hs hl u v hu hv huv)

theorem infTop_of_data (data : Array α) (n : Nat) (h2 : 2 ≤ n) (hs : n < 2147483648)
    (hl : 2 * data.size = n * (n - 1)) (hinfn : Num.isNaN (Num.infinity : α) = false)
    (hinf : ∀ v ∈ data.toList, Num.lt (Num.infinity : α) v = false) : InfTop n data :=
  ⟨hinfn, fun u v hu hv huv => hinf _ (entry_mem_data data n h2 hs hl u v hu hv huv)⟩

/-- **`mst_with`, `OrderLaws` only** (true of IEEE floats), NaN-free input not above
`T::infinity()`: the call returns, no returned height is NaN, and every returned height is
ORDER-EQUIVALENT to an input entry (it may be `-0.0` where the entry is `+0.0`, nothing else). -/
theorem C12_mst_height_equiv_entry (L : OrderLaws α) (chk : Bool) (st : State α)
    (d : Dendrogram α) (data : Array α) (n : Nat) (h2 : 2 ≤ n) (hs : n < 2147483648)
    (hl : 2 * data.size = n * (n - 1)) (hnan : ∀ v ∈ data.toList, Num.isNaN v = false)
    (hinfn : Num.isNaN (Num.infinity : α) = false)
    (hinf : ∀ v ∈ data.toList, Num.lt (Num.infinity : α) v = false) :
    ∃ st' d' M', mstWith chk st d data n = .ok (st', d', M') ∧
      ∀ s ∈ d'.steps.toList, Num.isNaN s.d = false ∧
        ∃ e ∈ data.toList, Num.lt s.d e = false ∧ Num.lt e s.d = false := by
  have hN := noNaN_of_data data n h2 hs hl hnan
  have hI := infTop_of_data data n h2 hs hl hinfn hinf
  obtain ⟨⟨st', d', M'⟩, hr⟩ := C04_mst_total L chk st d data n h2 hs hl hN hI
  refine ⟨st', d', M', hr, fun s hs' => ⟨?_, ?_⟩⟩
  · obtain ⟨st1, dend1, M1, ord, uf, _, hprim, hrel⟩ :=
      mstWith_decompose L chk st st' d d' data n M' h2 hs hl hN hI hr
    obtain ⟨s0, hs0, e⟩ := relabel_heights_mem .single st1.set uf dend1 d' hrel s hs'
    rw [e]; exact hprim.nn hs0
  · exact greedyValidUpTo_heights_equiv .single (Or.inl rfl) data n hs hl _
      (C03_mst_upTo L chk st st' d d' data n M' h2 hs hl hN hI hr) s hs'

/-- The same through `linkage_with(Single)` (routed to `mst_with`). -/
theorem C12_linkage_single_height_equiv_entry (L : OrderLaws α) (chk : Bool) (st : State α)
    (d : Dendrogram α) (data : Array α) (n : Nat) (h2 : 2 ≤ n) (hs : n < 2147483648)
    (hl : 2 * data.size = n * (n - 1)) (hnan : ∀ v ∈ data.toList, Num.isNaN v = false)
    (hinfn : Num.isNaN (Num.infinity : α) = false)
    (hinf : ∀ v ∈ data.toList, Num.lt (Num.infinity : α) v = false) :
    ∃ st' d' M', linkageWith chk .single st d data n = .ok (st', d', M') ∧
      ∀ s ∈ d'.steps.toList, Num.isNaN s.d = false ∧
        ∃ e ∈ data.toList, Num.lt s.d e = false ∧ Num.lt e s.d = false := by
  rw [linkage_single_eq]
  exact C12_mst_height_equiv_entry L chk st d data n h2 hs hl hnan hinfn hinf

/-- **`mst_with` where incomparable values are equal** (`LtTrichotomy`; for floats: inputs on which
`-0.0` does not occur next to `+0.0`): every returned height IS an input entry. -/
theorem C12_mst_height_is_entry (L : OrderLaws α) (T : LtTrichotomy α) (chk : Bool) (st : State α)
    (d : Dendrogram α) (data : Array α) (n : Nat) (h2 : 2 ≤ n) (hs : n < 2147483648)
    (hl : 2 * data.size = n * (n - 1)) (hnan : ∀ v ∈ data.toList, Num.isNaN v = false)
    (hinfn : Num.isNaN (Num.infinity : α) = false)
    (hinf : ∀ v ∈ data.toList, Num.lt (Num.infinity : α) v = false) :
    ∃ st' d' M', mstWith chk st d data n = .ok (st', d', M') ∧
      ∀ s ∈ d'.steps.toList, s.d ∈ data.toList := by
  obtain ⟨st', d', M', hr, hg⟩ := C03_mst_total L T chk st d data n h2 hs hl
    (noNaN_of_data data n h2 hs hl hnan) (infTop_of_data data n h2 hs hl hinfn hinf)
  exact ⟨st', d', M', hr, greedyValid_heights_mem .single (Or.inl rfl) data n hs hl _ hg⟩

theorem C12_linkage_single_height_is_entry (L : OrderLaws α) (T : LtTrichotomy α) (chk : Bool)
    (st : State α) (d : Dendrogram α) (data : Array α) (n : Nat) (h2 : 2 ≤ n)
    (hs : n < 2147483648) (hl : 2 * data.size = n * (n - 1))
    (hnan : ∀ v ∈ data.toList, Num.isNaN v = false)
    (hinfn : Num.isNaN (Num.infinity : α) = false)
    (hinf : ∀ v ∈ data.toList, Num.lt (Num.infinity : α) v = false) :
    ∃ st' d' M', linkageWith chk .single st d data n = .ok (st', d', M') ∧
      ∀ s ∈ d'.steps.toList, s.d ∈ data.toList := by
  rw [linkage_single_eq]
  exact C12_mst_height_is_entry L T chk st d data n h2 hs hl hnan hinfn hinf

end Entry

/-! ### 3b. Average and weighted linkage under the standard model of floating-point arithmetic

Corollaries of the `C02_*_rounded` theorems (`Props/C02Rounding*.lean`; hypotheses as there): every
returned height `h` is finite, not NaN and `0 ≤ val h` — from `Near u k mean (val h)` with
`0 ≤ mean`, `u < 1`: `0 ≤ mean·(1−u)^k ≤ val h`. -/

section Rounded
open Round Crit
variable {K : Type} [Field K] [LinearOrder K] [IsStrictOrderedRing K]
variable {α : Type} [Num α]

theorem near_nonneg {u A x : K} {k : Nat} (hu : u < 1) (hA : 0 ≤ A) (h : Near u k A x) : 0 ≤ x :=
  le_trans (mul_nonneg hA (pow_w_pos hu k).le) h.1

/-- average, `nnchain_with`. -/
theorem C12_average_rounded_finite_nonneg_nnchain (L : OrderLaws α) {val : α → K} {fin : α → Prop}
    {u lo hi : K} {N : Nat} (RM : Round.Model val fin u lo hi N)
    (chk : Bool) (st : State α) (d : Dendrogram α) (data : Array α) (n : Nat)
    (h2 : 2 ≤ n) (hs : n < 2147483648) (hl : 2 * data.size = n * (n - 1))
    {dlo dhi : K} (hdlo : 0 < dlo) (hdle : dlo ≤ dhi)
    (hdata : ∀ (k : Nat) (h : k < data.size), fin data[k] ∧ In0 dlo dhi (val data[k]))
    (Rg : RangeOk u lo hi N n dlo dhi) :
    ∃ st' d' M', nnchainWith chk .average st d data n = .ok (st', d', M') ∧
      ∀ s ∈ d'.steps.toList, fin s.d ∧ Num.isNaN s.d = false ∧ 0 ≤ val s.d := by
  obtain ⟨st', d', M', hr, h⟩ :=
    C02_nnchain_average_rounded L RM chk st d data n h2 hs hl hdlo hdle hdata Rg
  refine ⟨st', d', M', hr, fun s hs' => ?_⟩
  obtain ⟨i, hi⟩ := List.mem_iff_getElem?.mp hs'
  obtain ⟨hf, _, _, _, hnn, hnear⟩ := h i s hi
  exact ⟨hf, RM.notNaN _ hf, near_nonneg RM.u_lt_one hnn hnear⟩

/-- average, `linkage_with`. -/
theorem C12_average_rounded_finite_nonneg_linkage (L : OrderLaws α) {val : α → K} {fin : α → Prop}
    {u lo hi : K} {N : Nat} (RM : Round.Model val fin u lo hi N)
    (chk : Bool) (st : State α) (d : Dendrogram α) (data : Array α) (n : Nat)
    (h2 : 2 ≤ n) (hs : n < 2147483648) (hl : 2 * data.size = n * (n - 1))
    {dlo dhi : K} (hdlo : 0 < dlo) (hdle : dlo ≤ dhi)
    (hdata : ∀ (k : Nat) (h : k < data.size), fin data[k] ∧ In0 dlo dhi (val data[k]))
    (Rg : RangeOk u lo hi N n dlo dhi) :
    ∃ st' d' M', linkageWith chk .average st d data n = .ok (st', d', M') ∧
      ∀ s ∈ d'.steps.toList, fin s.d ∧ Num.isNaN s.d = false ∧ 0 ≤ val s.d := by
  obtain ⟨st', d', M', hr, h⟩ :=
    C02_linkage_average_rounded L RM chk st d data n h2 hs hl hdlo hdle hdata Rg
  refine ⟨st', d', M', hr, fun s hs' => ?_⟩
  obtain ⟨i, hi⟩ := List.mem_iff_getElem?.mp hs'
  obtain ⟨hf, _, _, _, hnn, hnear⟩ := h i s hi
  exact ⟨hf, RM.notNaN _ hf, near_nonneg RM.u_lt_one hnn hnear⟩

/-- average, `primitive_with`. -/
theorem C12_average_rounded_finite_nonneg_primitive (L : OrderLaws α) {val : α → K}
    {fin : α → Prop} {u lo hi : K} {N : Nat} (RM : Round.Model val fin u lo hi N)
    (chk : Bool) (st : State α) (d : Dendrogram α) (data : Array α) (n : Nat)
    (h2 : 2 ≤ n) (hs : n < 2147483648) (hl : 2 * data.size = n * (n - 1))
    {dlo dhi : K} (hdlo : 0 < dlo) (hdle : dlo ≤ dhi)
    (hdata : ∀ (k : Nat) (h : k < data.size), fin data[k] ∧ In0 dlo dhi (val data[k]))
    (Rg : RangeOk u lo hi N n dlo dhi) :
    ∃ st' d' M', primitiveWith chk .average st d data n = .ok (st', d', M') ∧
      ∀ s ∈ d'.steps.toList, fin s.d ∧ Num.isNaN s.d = false ∧ 0 ≤ val s.d := by
  obtain ⟨st', d', M', hr, h⟩ :=
    C02_primitive_average_rounded L RM chk st d data n h2 hs hl hdlo hdle hdata Rg
  refine ⟨st', d', M', hr, fun s hs' => ?_⟩
  obtain ⟨i, hi⟩ := List.mem_iff_getElem?.mp hs'
  obtain ⟨hf, _, _, _, hnn, hnear⟩ := h i s hi
  exact ⟨hf, RM.notNaN _ hf, near_nonneg RM.u_lt_one hnn hnear⟩

/-- average, `generic_with` (extra hypotheses of `C02_generic_average_rounded`). -/
theorem C12_average_rounded_finite_nonneg_generic (L : OrderLaws α) (hbeq : BeqLe α) {val : α → K}
    {fin : α → Prop} {u lo hi : K} {N : Nat} (RM : Round.Model val fin u lo hi N)
    (hmax : Num.isNaN (Num.maxValue : α) = false) {G : α → Prop} (gs : GoodSet G)
    (chk : Bool) (st : State α) (d : Dendrogram α) (data : Array α) (n : Nat)
    (h2 : 2 ≤ n) (hs : n < 2147483648) (hl : 2 * data.size = n * (n - 1))
    {dlo dhi : K} (hdlo : 0 < dlo) (hdle : dlo ≤ dhi)
    (hdata : ∀ (k : Nat) (h : k < data.size), fin data[k] ∧ In0 dlo dhi (val data[k]))
    (Rg : RangeOk u lo hi N n dlo dhi)
    (hG : ∀ v, fin v → In0 (vlo u n dlo) (vhi u n dhi) (val v) → G v) :
    ∃ st' d' M', genericWith chk .average st d data n = .ok (st', d', M') ∧
      ∀ s ∈ d'.steps.toList, fin s.d ∧ Num.isNaN s.d = false ∧ 0 ≤ val s.d := by
  obtain ⟨st', d', M', hr, h⟩ :=
    C02_generic_average_rounded L hbeq RM hmax gs chk st d data n h2 hs hl hdlo hdle hdata Rg hG
  refine ⟨st', d', M', hr, fun s hs' => ?_⟩
  obtain ⟨i, hi⟩ := List.mem_iff_getElem?.mp hs'
  obtain ⟨hf, _, _, _, hnn, hnear⟩ := h i s hi
  exact ⟨hf, RM.notNaN _ hf, near_nonneg RM.u_lt_one hnn hnear⟩

/-- weighted, `nnchain_with` (hypotheses of `C02_nnchain_weighted_rounded`, including reducibility of
the weighted update on a domain, `ChainGeOn ok .weighted`). -/
theorem C12_weighted_rounded_finite_nonneg_nnchain (L : OrderLaws α) {val : α → K}
    {fin : α → Prop} {u lo hi : K} {N : Nat} (RM : Round.Model val fin u lo hi N)
    {ok : α → Prop} (hge : ChainGeOn ok .weighted)
    (chk : Bool) (st : State α) (d : Dendrogram α) (data : Array α) (n : Nat)
    (h2 : 2 ≤ n) (hs : n < 2147483648) (hl : 2 * data.size = n * (n - 1))
    {dlo dhi : K} (hdlo : 0 < dlo)
    (hdata : ∀ (k : Nat) (h : k < data.size),
      fin data[k] ∧ dlo ≤ val data[k] ∧ val data[k] ≤ dhi)
    (Rg : RangeOkW u lo hi n dlo dhi)
    (hok : ∀ v, fin v → dlo * (1 - u) ^ (2 * n) ≤ val v → val v ≤ dhi / (1 - u) ^ (2 * n) → ok v) :
    ∃ st' d' M', nnchainWith chk .weighted st d data n = .ok (st', d', M') ∧
      ∀ s ∈ d'.steps.toList, fin s.d ∧ Num.isNaN s.d = false ∧ 0 ≤ val s.d := by
  obtain ⟨st', d', M', hr, h⟩ :=
    C02_nnchain_weighted_rounded L RM hge chk st d data n h2 hs hl hdlo hdata Rg hok
  refine ⟨st', d', M', hr, fun s hs' => ?_⟩
  obtain ⟨i, hi⟩ := List.mem_iff_getElem?.mp hs'
  obtain ⟨hf, _, hnn, hnear⟩ := h i s hi
  exact ⟨hf, RM.notNaN _ hf, near_nonneg RM.u_lt_one hnn hnear⟩

/-- weighted, `linkage_with`. -/
theorem C12_weighted_rounded_finite_nonneg_linkage (L : OrderLaws α) {val : α → K}
    {fin : α → Prop} {u lo hi : K} {N : Nat} (RM : Round.Model val fin u lo hi N)
    {ok : α → Prop} (hge : ChainGeOn ok .weighted)
    (chk : Bool) (st : State α) (d : Dendrogram α) (data : Array α) (n : Nat)
    (h2 : 2 ≤ n) (hs : n < 2147483648) (hl : 2 * data.size = n * (n - 1))
    {dlo dhi : K} (hdlo : 0 < dlo)
    (hdata : ∀ (k : Nat) (h : k < data.size),
      fin data[k] ∧ dlo ≤ val data[k] ∧ val data[k] ≤ dhi)
    (Rg : RangeOkW u lo hi n dlo dhi)
    (hok : ∀ v, fin v → dlo * (1 - u) ^ (2 * n) ≤ val v → val v ≤ dhi / (1 - u) ^ (2 * n) → ok v) :
    ∃ st' d' M', linkageWith chk .weighted st d data n = .ok (st', d', M') ∧
      ∀ s ∈ d'.steps.toList, fin s.d ∧ Num.isNaN s.d = false ∧ 0 ≤ val s.d := by
  obtain ⟨st', d', M', hr, h⟩ :=
    C02_linkage_weighted_rounded L RM hge chk st d data n h2 hs hl hdlo hdata Rg hok
  refine ⟨st', d', M', hr, fun s hs' => ?_⟩
  obtain ⟨i, hi⟩ := List.mem_iff_getElem?.mp hs'
  obtain ⟨hf, _, hnn, hnear⟩ := h i s hi
  exact ⟨hf, RM.notNaN _ hf, near_nonneg RM.u_lt_one hnn hnear⟩

/-- weighted, `primitive_with`. -/
theorem C12_weighted_rounded_finite_nonneg_primitive (L : OrderLaws α) {val : α → K}
    {fin : α → Prop} {u lo hi : K} {N : Nat} (RM : Round.Model val fin u lo hi N)
    {ok : α → Prop} (hge : ChainGeOn ok .weighted)
    (chk : Bool) (st : State α) (d : Dendrogram α) (data : Array α) (n : Nat)
    (h2 : 2 ≤ n) (hs : n < 2147483648) (hl : 2 * data.size = n * (n - 1))
    {dlo dhi : K} (hdlo : 0 < dlo)
    (hdata : ∀ (k : Nat) (h : k < data.size),
      fin data[k] ∧ dlo ≤ val data[k] ∧ val data[k] ≤ dhi)
    (Rg : RangeOkW u lo hi n dlo dhi)
    (hok : ∀ v, fin v → dlo * (1 - u) ^ (2 * n) ≤ val v → val v ≤ dhi / (1 - u) ^ (2 * n) → ok v) :
    ∃ st' d' M', primitiveWith chk .weighted st d data n = .ok (st', d', M') ∧
      ∀ s ∈ d'.steps.toList, fin s.d ∧ Num.isNaN s.d = false ∧ 0 ≤ val s.d := by
  obtain ⟨st', d', M', hr, h⟩ :=
    C02_primitive_weighted_rounded L RM hge chk st d data n h2 hs hl hdlo hdata Rg hok
  refine ⟨st', d', M', hr, fun s hs' => ?_⟩
  obtain ⟨i, hi⟩ := List.mem_iff_getElem?.mp hs'
  obtain ⟨hf, _, hnn, hnear⟩ := h i s hi
  exact ⟨hf, RM.notNaN _ hf, near_nonneg RM.u_lt_one hnn hnear⟩

/-- weighted, `generic_with` (extra hypotheses of `C02_generic_weighted_rounded`). -/
theorem C12_weighted_rounded_finite_nonneg_generic (L : OrderLaws α) (hbeq : BeqLe α)
    {val : α → K} {fin : α → Prop} {u lo hi : K} {N : Nat} (RM : Round.Model val fin u lo hi N)
    (hmax : Num.isNaN (Num.maxValue : α) = false) {G : α → Prop} (gs : GoodSet G)
    (hge : ChainGeOn G .weighted)
    (chk : Bool) (st : State α) (d : Dendrogram α) (data : Array α) (n : Nat)
    (h2 : 2 ≤ n) (hs : n < 2147483648) (hl : 2 * data.size = n * (n - 1))
    {dlo dhi : K} (hdlo : 0 < dlo)
    (hdata : ∀ (k : Nat) (h : k < data.size),
      fin data[k] ∧ dlo ≤ val data[k] ∧ val data[k] ≤ dhi)
    (Rg : RangeOkW u lo hi n dlo dhi)
    (hG : ∀ v, fin v → dlo * (1 - u) ^ (2 * n) ≤ val v → val v ≤ dhi / (1 - u) ^ (2 * n) → G v) :
    ∃ st' d' M', genericWith chk .weighted st d data n = .ok (st', d', M') ∧
      ∀ s ∈ d'.steps.toList, fin s.d ∧ Num.isNaN s.d = false ∧ 0 ≤ val s.d := by
  obtain ⟨st', d', M', hr, h⟩ :=
    C02_generic_weighted_rounded L hbeq RM hmax gs hge chk st d data n h2 hs hl hdlo hdata Rg hG
  refine ⟨st', d', M', hr, fun s hs' => ?_⟩
  obtain ⟨i, hi⟩ := List.mem_iff_getElem?.mp hs'
  obtain ⟨hf, _, hnn, hnear⟩ := h i s hi
  exact ⟨hf, RM.notNaN _ hf, near_nonneg RM.u_lt_one hnn hnear⟩

end Rounded

/-! ### 3c. Median, centroid and Ward under the standard model of floating-point arithmetic

The update is `p − q` with the computed `q` at most `¾` of the computed `p` when the merged pair is a
closest pair: no catastrophic cancellation (`Lemmas/NonNegRound.lean`).  Model: `Round.SubModel` =
`Round.Model` + the same relative-error law for `−` + exactness of the constant `0.25`; `u ≤ 1/16`.
What CANNOT be derived from a rounding model is that no value of the run under- or overflows (exact
centroid / median dissimilarities can be arbitrarily small or `0`), so that is the RUN-DEPENDENT
hypothesis `hrun` — the same kind of hypothesis the `generic_with` theorems already take
(`Spec.RunGood`), here "every table value of every greedy run is finite with magnitude `0` or in
`[l, h]`".  Conclusion: every such value is `≥ 0`. -/

section RoundedSub
open Round
variable {K : Type} [Field K] [LinearOrder K] [IsStrictOrderedRing K]
variable {α : Type} [Num α] {val : α → K} {fin : α → Prop} {u lo hi Lm Hm : K} {N : Nat}

/-- One update of a closest pair (median / centroid / Ward) computed with rounding is finite and
`≥ 0`. -/
theorem C12_lw_nonneg_rounded (RM : SubModel val fin u lo hi N) (hu16 : u ≤ 1 / 16) (mt : Method)
    (hmt : mt = .median ∨ mt = .centroid ∨ mt = .ward) {a b c : α} {sa sb sx : Nat} {l h m : K}
    (fa : fin a) (fb : fin b) (fc : fin c) (hl : 0 < l) (hlh : l ≤ h)
    (ra : In0 l h (val a)) (rb : In0 l h (val b)) (rc : In0 l h (val c))
    (hca : Num.lt a c = false) (hcb : Num.lt b c = false)
    (hsa : 0 < sa) (hsb : 0 < sb) (hsx : 0 < sx) (hN : sa + sb + sx ≤ N)
    (hm : (sa : K) + (sb : K) + (sx : K) ≤ m)
    (R : Rng u lo hi Lm Hm) (hLm1 : Lm ≤ 1) (hLm2 : Lm * (4 * (m * m)) ≤ l * (1 - u) ^ 4)
    (hHm1 : m * m ≤ Hm) (hHm2 : 2 * (m * m * h) ≤ Hm * (1 - u) ^ 4) :
    fin (Spec.lw mt a b c sa sb sx) ∧ 0 ≤ val (Spec.lw mt a b c sa sb sx) :=
  RM.lw_nonneg hu16 mt hmt fa fb fc hl hlh ra rb rc hca hcb hsa hsb hsx hN hm R hLm1 hLm2 hHm1 hHm2

/-- **Specification level**: if no table value of any greedy run under- or overflows, every table
value of every greedy run is non-negative (`In0 l h x` is `x = 0 ∨ l ≤ x ≤ h`). -/
theorem C12_greedy_table_nonneg_rounded (RM : SubModel val fin u lo hi N) (hu16 : u ≤ 1 / 16)
    (mt : Method) (hmt : mt = .median ∨ mt = .centroid ∨ mt = .ward) {n : Nat} {data : Array α}
    {l h : K} (hl : 0 < l) (hlh : l ≤ h) (hnN : n ≤ N) (R : Rng u lo hi Lm Hm) (hLm1 : Lm ≤ 1)
    (hLm2 : Lm * (4 * ((n : K) * (n : K))) ≤ l * (1 - u) ^ 4)
    (hHm1 : (n : K) * (n : K) ≤ Hm) (hHm2 : 2 * ((n : K) * (n : K) * h) ≤ Hm * (1 - u) ^ 4)
    (h2 : 2 ≤ n) (hs : n < 2147483648) (hlen : 2 * data.size = n * (n - 1))
    (hdata : ∀ x ∈ data.toList, fin x ∧ InRange lo hi (val x * val x))
    (hrun : RunGood (fun v => fin v ∧ InRange l h (val v)) mt n data) :
    RunGood (fun v => fin v ∧ In0 l h (val v)) mt n data :=
  runGood_nonneg_rounded RM hu16 mt hmt hl hlh hnN R hLm1 hLm2 hHm1 hHm2 h2 hs hlen hdata hrun

omit [Field K] [LinearOrder K] [IsStrictOrderedRing K] in
/-- `generic_with` under a run-dependent value hypothesis: the call returns and every returned height
is `post m v` (`sqrt v` for the methods on squares) of a raw height `v ∈ G`. -/
theorem genericWith_run_heights {G : α → Prop} (L : OrderLaws α) (hbeq : BeqLe α) (gs : GoodSet G)
    (chk : Bool) (m : Method) (hlbc : l1Mode m = .fix → LBClosed G m) (hsym : LwSymm α m)
    (hmax : Num.isNaN (Num.maxValue : α) = false)
    (st : State α) (d : Dendrogram α) (data : Array α) (n : Nat) (h2 : 2 ≤ n)
    (hs : n < 2147483648) (hl : 2 * data.size = n * (n - 1)) (hrun : RunGood G m n data) :
    ∃ st' d' M', genericWith chk m st d data n = .ok (st', d', M') ∧
      ∀ s ∈ d'.steps.toList, ∃ v, G v ∧ s.d = post m v := by
  obtain ⟨st1, dend1, M1, hres, hdg, heq⟩ :=
    genericWith_sim_run L hbeq gs chk m hlbc hsym hmax st d data n h2 hs hl hrun
  obtain ⟨⟨uf, d'⟩, hr⟩ := relabel_total m st1.set dend1 n h2 hres.res.obs hres.res.raw
    (Or.inr (Or.inr (fun s hs' => gs.notNaN _ (hdg s hs'))))
  refine ⟨{ st1 with set := uf }, sqrtSteps m d', M1, by rw [heq, hr]; rfl, ?_⟩
  intro s hs'
  rw [sqrtSteps_toList] at hs'
  obtain ⟨s0, hs0, e⟩ := List.mem_map.mp hs'
  obtain ⟨s1, hs1, e1⟩ := relabel_heights_mem m st1.set uf dend1 d' hr s0 hs0
  refine ⟨s1.d, hdg s1 hs1, ?_⟩
  rw [← e, e1]

/-- **`generic_with(Median | Centroid | Ward)` under rounding**: if no table value of any greedy run
under- or overflows (and all lie in a `GoodSet G0`: below `T::max_value()`), the call returns normally
and every returned height is `sqrt v` of a finite `v` with `0 ≤ val v`; with the `sqrt` law `hsqrt`
every returned height is finite and `≥ 0`.  (`hsym`: `+`, `×` commute — `lwSymm_median`,
`lwSymm_centroid`, `lwSymm_ward`; `hlbc` is needed for Ward only.) -/
theorem C12_generic_nonneg_rounded (L : OrderLaws α) (hbeq : BeqLe α) {G0 : α → Prop}
    (gs : GoodSet G0) (RM : SubModel val fin u lo hi N) (hu16 : u ≤ 1 / 16) (chk : Bool)
    (mt : Method) (hmt : mt = .median ∨ mt = .centroid ∨ mt = .ward) {l h : K}
    (hlbc : l1Mode mt = .fix → LBClosed (fun v => G0 v ∧ fin v ∧ In0 l h (val v)) mt)
    (hsym : LwSymm α mt) (hmax : Num.isNaN (Num.maxValue : α) = false)
    (st : State α) (d : Dendrogram α) (data : Array α) (n : Nat) (h2 : 2 ≤ n)
    (hs : n < 2147483648) (hlen : 2 * data.size = n * (n - 1))
    (hl : 0 < l) (hlh : l ≤ h) (hnN : n ≤ N) (R : Rng u lo hi Lm Hm) (hLm1 : Lm ≤ 1)
    (hLm2 : Lm * (4 * ((n : K) * (n : K))) ≤ l * (1 - u) ^ 4)
    (hHm1 : (n : K) * (n : K) ≤ Hm) (hHm2 : 2 * ((n : K) * (n : K) * h) ≤ Hm * (1 - u) ^ 4)
    (hdata : ∀ x ∈ data.toList, fin x ∧ InRange lo hi (val x * val x))
    (hrun : RunGood (fun v => G0 v ∧ fin v ∧ InRange l h (val v)) mt n data) :
    ∃ st' d' M', genericWith chk mt st d data n = .ok (st', d', M') ∧
      (∀ s ∈ d'.steps.toList, ∃ v, fin v ∧ 0 ≤ val v ∧ s.d = Num.sqrt v) ∧
      ((∀ v, fin v → 0 ≤ val v → fin (Num.sqrt v) ∧ 0 ≤ val (Num.sqrt v)) →
        ∀ s ∈ d'.steps.toList, fin s.d ∧ 0 ≤ val s.d) := by
  have hsq : mt.onSquares = true := by rcases hmt with rfl | rfl | rfl <;> rfl
  have hrun1 : RunGood (fun v => fin v ∧ In0 l h (val v)) mt n data :=
    runGood_nonneg_rounded RM hu16 mt hmt hl hlh hnN R hLm1 hLm2 hHm1 hHm2 h2 hs hlen hdata
      (hrun.mono (fun _ h => h.2))
  have hrun2 : RunGood (fun v => G0 v ∧ fin v ∧ In0 l h (val v)) mt n data :=
    fun l' hl' x hx y hy hxy =>
      ⟨(hrun l' hl' x hx y hy hxy).1, hrun1 l' hl' x hx y hy hxy⟩
  have gs' : GoodSet (fun v => G0 v ∧ fin v ∧ In0 l h (val v)) :=
    ⟨fun v h => gs.notNaN v h.1, fun v h => gs.ltMax v h.1, fun v h => gs.beqRefl v h.1⟩
  obtain ⟨st', d', M', hr, hh⟩ :=
    genericWith_run_heights L hbeq gs' chk mt hlbc hsym hmax st d data n h2 hs hlen hrun2
  have key : ∀ s ∈ d'.steps.toList, ∃ v, fin v ∧ 0 ≤ val v ∧ s.d = Num.sqrt v := by
    intro s hs'
    obtain ⟨v, ⟨_, fv, rv⟩, e⟩ := hh s hs'
    refine ⟨v, fv, rv.nonneg hl.le, ?_⟩
    rw [e]; unfold post; simp [hsq]
  refine ⟨st', d', M', hr, key, fun hsqrt s hs' => ?_⟩
  obtain ⟨v, fv, v0, e⟩ := key s hs'
  rw [e]; exact hsqrt v fv v0

end RoundedSub

/-! ## 4. Non-vacuity over `ℚ`

`fieldNum ℚ` / `ratNumMax 1000` (= `fieldNum ℚ` with both sentinels `1000`) have `sqrt := id`, so
`SqrtNonneg ℚ m` holds and layer (b) of `HeightsNonneg` gives plain `0 ≤ height`. -/

section Example

theorem sqrtNonneg_fieldNum (m : Method) : @SqrtNonneg ℚ _ _ (fieldNum ℚ) m := fun _ _ hv => hv

theorem sqrtNonneg_ratNumMax (M : ℚ) (m : Method) : @SqrtNonneg ℚ _ _ (ratNumMax M) m :=
  fun _ _ hv => hv

private theorem mem3 {v : ℚ} {a b c : ℚ} (hv : v ∈ (#[a, b, c] : Array ℚ).toList) :
    v = a ∨ v = b ∨ v = c := by simpa using hv

/-- Spec level, every method, the matrix `d01=1 d02=9 d12=4`: every table value of every greedy run is
`≥ 0`. -/
example (m : Method) :
    @RunGood ℚ (fieldNum ℚ) (fun v => 0 ≤ v) m 3 #[1, 9, 4] :=
  @C12_greedy_table_nonneg ℚ _ _ _ (fieldNum ℚ) (fieldNum_laws ℚ) m _ 3 (by decide) (by decide)
    (by decide) (fun _ v hv => by rcases mem3 hv with rfl | rfl | rfl <;> norm_num)

/-- Spec level, Ward / centroid / median on a matrix with NEGATIVE entries (`d01=-1 d02=3 d12=-2`):
no sign hypothesis is needed, the initial table consists of squares. -/
example (m : Method) (hm : m.onSquares = true) :
    @RunGood ℚ (fieldNum ℚ) (fun v => 0 ≤ v) m 3 #[-1, 3, -2] :=
  @C12_greedy_table_nonneg ℚ _ _ _ (fieldNum ℚ) (fieldNum_laws ℚ) m _ 3 (by decide) (by decide)
    (by decide) (fun h => by rw [hm] at h; cases h)

/-- `primitive_with`, every method: returns, greedy-valid, every height `≥ 0`. -/
example (m : Method) : ∃ st' d' M',
    @primitiveWith ℚ (fieldNum ℚ) true m State.new (Dendrogram.new 0) #[1, 9, 4] 3
      = .ok (st', d', M') ∧ ∀ s ∈ d'.steps.toList, 0 ≤ s.d := by
  obtain ⟨st', d', M', hr, -, hh⟩ :=
    @C12_primitive_nonneg ℚ _ _ _ (fieldNum ℚ) (exactLaws_fieldNum ℚ) true m State.new
      (Dendrogram.new 0) #[1, 9, 4] 3 (by decide) (by decide) (by decide)
      (fun _ v hv => by rcases mem3 hv with rfl | rfl | rfl <;> norm_num)
  exact ⟨st', d', M', hr, hh.2 (sqrtNonneg_fieldNum m)⟩

/-- `nnchain_with`, every chain method. -/
example (mc : MethodChain) : ∃ st' d' M',
    @nnchainWith ℚ (fieldNum ℚ) false mc State.new (Dendrogram.new 0) #[1, 9, 4] 3
      = .ok (st', d', M') ∧ ∀ s ∈ d'.steps.toList, 0 ≤ s.d := by
  obtain ⟨st', d', M', hr, -, hh⟩ :=
    @C12_nnchain_nonneg ℚ _ _ _ (fieldNum ℚ) (exactLaws_fieldNum ℚ) false mc State.new
      (Dendrogram.new 0) #[1, 9, 4] 3 (by decide) (by decide) (by decide)
      (fun _ v hv => by rcases mem3 hv with rfl | rfl | rfl <;> norm_num)
  exact ⟨st', d', M', hr, hh.2 (sqrtNonneg_fieldNum _)⟩

@[reducible] private def qNumNN : Num ℚ := ratNumMax 1000
attribute [local instance] qNumNN

/-- `generic_with`, Ward / centroid / median on the NON-constant 4-point matrix of
`Props/C03GenericRun.lean` (`runGood_ward4`, `runGood_centroid4`, `runGood_median4`). -/
example : ∃ st' d' M',
    genericWith true .ward State.new (Dendrogram.new 0) (#[1, 3, 2, 4, 5, 7] : Array ℚ) 4
      = .ok (st', d', M') ∧ ∀ s ∈ d'.steps.toList, 0 ≤ s.d := by
  obtain ⟨st', d', M', hr, -, hh⟩ :=
    C12_generic_nonneg (ratNumMax_exact 1000) (ratNumMax_beq 1000) true .ward State.new
      (Dendrogram.new 0) (#[1, 3, 2, 4, 5, 7] : Array ℚ) 4 (by decide) (by decide) (by decide)
      runGood_ward4 (fun h => by cases h)
  exact ⟨st', d', M', hr, hh.2 (sqrtNonneg_ratNumMax 1000 _)⟩

example : ∃ st' d' M',
    genericWith false .centroid State.new (Dendrogram.new 0) (#[1, 3, 2, 4, 5, 7] : Array ℚ) 4
      = .ok (st', d', M') ∧ ∀ s ∈ d'.steps.toList, 0 ≤ s.d := by
  obtain ⟨st', d', M', hr, -, hh⟩ :=
    C12_generic_nonneg (ratNumMax_exact 1000) (ratNumMax_beq 1000) false .centroid State.new
      (Dendrogram.new 0) (#[1, 3, 2, 4, 5, 7] : Array ℚ) 4 (by decide) (by decide) (by decide)
      runGood_centroid4 (fun h => by cases h)
  exact ⟨st', d', M', hr, hh.2 (sqrtNonneg_ratNumMax 1000 _)⟩

/-- `linkage_with(Median)` (routed to `generic_with`) on the same matrix. -/
example : ∃ st' d' M',
    linkageWith true .median State.new (Dendrogram.new 0) (#[1, 3, 2, 4, 5, 7] : Array ℚ) 4
      = .ok (st', d', M') ∧ ∀ s ∈ d'.steps.toList, 0 ≤ s.d := by
  obtain ⟨st', d', M', hr, -, hh⟩ :=
    C12_linkage_nonneg (ratNumMax_exact 1000) true .median State.new
      (Dendrogram.new 0) (#[1, 3, 2, 4, 5, 7] : Array ℚ) 4 (by decide) (by decide) (by decide)
      (fun h => by cases h) (fun _ => ⟨ratNumMax_beq 1000, runGood_median4⟩) (fun h => by cases h)
  exact ⟨st', d', M', hr, hh.2 (sqrtNonneg_ratNumMax 1000 _)⟩

/-- `mst_with` and `linkage_with(Single)` on `d01=1 d02=9 d12=4` (`InfSafe`: entries `≤ 1000`). -/
private theorem infSafe_ex : InfSafe 3 (#[1, 9, 4] : Array ℚ) := by
  intro u v hu hv _
  have hu' : u = 0 ∨ u = 1 ∨ u = 2 := by omega
  have hv' : v = 0 ∨ v = 1 ∨ v = 2 := by omega
  rcases hu' with rfl | rfl | rfl <;> rcases hv' with rfl | rfl | rfl <;> decide +kernel

example : ∃ st' d' M',
    mstWith true State.new (Dendrogram.new 0) (#[1, 9, 4] : Array ℚ) 3 = .ok (st', d', M') ∧
      ∀ s ∈ d'.steps.toList, 0 ≤ s.d := by
  obtain ⟨st', d', M', hr, -, hh⟩ :=
    C12_mst_nonneg (ratNumMax_exact 1000) true State.new (Dendrogram.new 0)
      (#[1, 9, 4] : Array ℚ) 3 (by decide) (by decide) (by decide) infSafe_ex
      (fun v hv => by rcases mem3 hv with rfl | rfl | rfl <;> norm_num)
  exact ⟨st', d', M', hr, hh⟩

example (m : Method) (hm : dispatch m ≠ .generic) : ∃ st' d' M',
    linkageWith true m State.new (Dendrogram.new 0) (#[1, 9, 4] : Array ℚ) 3
      = .ok (st', d', M') ∧ ∀ s ∈ d'.steps.toList, 0 ≤ s.d := by
  obtain ⟨st', d', M', hr, -, hh⟩ :=
    C12_linkage_nonneg (ratNumMax_exact 1000) true m State.new (Dendrogram.new 0)
      (#[1, 9, 4] : Array ℚ) 3 (by decide) (by decide) (by decide) (fun _ => infSafe_ex)
      (fun h => absurd h hm) (fun _ v hv => by rcases mem3 hv with rfl | rfl | rfl <;> norm_num)
  exact ⟨st', d', M', hr, hh.2 (sqrtNonneg_ratNumMax 1000 _)⟩

end Example

/-! ### Non-vacuity of part 3 -/

section ExampleEntry
attribute [local instance] Toy.natNum

/-- 3a on the toy exact type `Nat` (`OrderLaws` only), 4 observations: `primitive_with` and
`nnchain_with` with single and complete linkage, `mst_with`. -/
example (m : Method) (hm : m = .single ∨ m = .complete) : ∃ st' d' M',
    primitiveWith true m State.new (Dendrogram.new 0) (#[5, 2, 9, 7, 4, 1] : Array Nat) 4
      = .ok (st', d', M') ∧ ∀ s ∈ d'.steps.toList, s.d ∈ [5, 2, 9, 7, 4, 1] :=
  C12_primitive_single_complete_height_is_entry Toy.natOrderLaws true m hm _ _ _ 4 (by decide)
    (by decide) (by decide) (fun _ _ => rfl)

example (mc : MethodChain) (hmc : mc = .single ∨ mc = .complete) : ∃ st' d' M',
    nnchainWith false mc State.new (Dendrogram.new 0) (#[5, 2, 9, 7, 4, 1] : Array Nat) 4
      = .ok (st', d', M') ∧ ∀ s ∈ d'.steps.toList, s.d ∈ [5, 2, 9, 7, 4, 1] :=
  C12_nnchain_single_complete_height_is_entry Toy.natOrderLaws false mc hmc _ _ _ 4 (by decide)
    (by decide) (by decide) (fun _ _ => rfl)

example : ∃ st' d' M',
    mstWith true State.new (Dendrogram.new 0) (#[5, 2, 9, 7, 4, 1] : Array Nat) 4
      = .ok (st', d', M') ∧
      ∀ s ∈ d'.steps.toList, Num.isNaN s.d = false ∧
        ∃ e ∈ [5, 2, 9, 7, 4, 1], Num.lt s.d e = false ∧ Num.lt e s.d = false :=
  C12_mst_height_equiv_entry Toy.natOrderLaws true _ _ _ 4 (by decide) (by decide) (by decide)
    (fun _ _ => rfl) rfl (fun v hv => by
      have : v = 5 ∨ v = 2 ∨ v = 9 ∨ v = 7 ∨ v = 4 ∨ v = 1 := by simpa using hv
      rcases this with rfl | rfl | rfl | rfl | rfl | rfl <;> decide)

end ExampleEntry

section ExampleRounded
attribute [local instance] downNum

/-- 3b on `downNum` (`ℚ` with every `+ − × /` rounded DOWN by the factor `999/1000`; the clamp of
`method::average` fires there): every height returned by `nnchain_with(Average)` is `≥ 0`. -/
example : ∃ st' d' M',
    nnchainWith true .average State.new (Dendrogram.new 0) (#[1, 9, 4] : Array ℚ) 3
      = .ok (st', d', M') ∧ ∀ s ∈ d'.steps.toList, (0 : ℚ) ≤ s.d := by
  obtain ⟨st', d', M', hr, h⟩ := C12_average_rounded_finite_nonneg_nnchain downNum_orderLaws
    (downNum_model (lo := 1 / 100) (hi := 100) (N := 10) (by norm_num) (by norm_num) (by norm_num))
    true State.new (Dendrogram.new 0) #[1, 9, 4] 3 (by decide) (by decide) (by decide)
    (dlo := 1) (dhi := 9) (by norm_num) (by norm_num)
    example_data_ok ⟨by decide, by norm_num, by norm_num⟩
  exact ⟨st', d', M', hr, fun s hs => (h s hs).2.2⟩

end ExampleRounded

section ExampleRoundedSub
open Round

/-- Exact arithmetic satisfies the extended model with `u = 0`. -/
theorem subModel_of_exact {K : Type} [Field K] [LinearOrder K] [IsStrictOrderedRing K] [Num K]
    (E : ExactLaws K) {lo hi : K} {N : Nat} (hlo : 0 < lo) (hlo1 : lo ≤ 1) (hN : (N : K) ≤ hi) :
    Round.SubModel (fun x : K => x) (fun _ => True) 0 lo hi N :=
  { model_of_exact E hlo hlo1 hN with
    sub := fun a b _ _ _ => ⟨trivial, 0, by simp, by simp [E.field.sub]⟩
    quarter := ⟨trivial, E.field.quarter⟩ }

/-- The Boolean form of "below the sentinel, magnitude `0` or in `[1/100, 500]`". -/
private def okB (v : ℚ) : Bool :=
  decide (v < 1000) && (decide (v = 0) || (decide ((1 : ℚ) / 100 ≤ |v|) && decide (|v| ≤ 500)))

private theorem okB_spec {v : ℚ} (h : okB v = true) :
    v < 1000 ∧ True ∧ InRange ((1 : ℚ) / 100) 500 v := by
  unfold okB at h
  simp only [Bool.and_eq_true, Bool.or_eq_true, decide_eq_true_eq] at h
  refine ⟨h.1, trivial, ?_⟩
  rcases h.2 with h0 | hr
  · exact Or.inl h0
  · exact Or.inr hr

section ExactQ
@[reducible] private def qNumSub : Num ℚ := ratNumMax 1000
attribute [local instance] qNumSub

/-- 3c on exact `ℚ` (`u = 0`), MEDIAN through `generic_with` on the non-constant 4-point matrix
`#[1, 3, 2, 4, 5, 7]`: the run-dependent hypothesis is discharged by the exhaustive checker
`Spec.runGoodB`; every returned height is `≥ 0`. -/
example : ∃ st' d' M',
    genericWith true .median State.new (Dendrogram.new 0) (#[1, 3, 2, 4, 5, 7] : Array ℚ) 4
      = .ok (st', d', M') ∧ ∀ s ∈ d'.steps.toList, (0 : ℚ) ≤ s.d := by
  have E := ratNumMax_exact 1000
  have Bq := ratNumMax_beq 1000
  have RM : Round.SubModel (fun x : ℚ => x) (fun _ => True) 0 (1 / 10000) 100000 10 :=
    subModel_of_exact E (by norm_num) (by norm_num) (by norm_num)
  have hrun : RunGood (fun v : ℚ => v < 1000 ∧ True ∧ InRange ((1 : ℚ) / 100) 500 v) .median 4
      (#[1, 3, 2, 4, 5, 7] : Array ℚ) :=
    (runGood_of_check okB .median 4 _ 3 (by decide +kernel)).mono (fun _ h => okB_spec h)
  obtain ⟨st', d', M', hr, -, h⟩ := C12_generic_nonneg_rounded (val := fun x : ℚ => x)
    (fin := fun _ => True) (Lm := 1 / 6400) (Hm := 16000) (l := 1 / 100) (h := 500)
    E.field.orderLaws (Bq.beqLe E)
    (goodSet_exact Bq E (G := fun v => v < 1000) (fun _ h => h)) RM (by norm_num) true .median
    (Or.inl rfl) (fun h => by simp [l1Mode] at h) (E.field.lwSymm .median) (E.noNaN _)
    State.new (Dendrogram.new 0) (#[1, 3, 2, 4, 5, 7] : Array ℚ) 4 (by decide) (by decide)
    (by decide) (by norm_num) (by norm_num) (by decide)
    ⟨by norm_num, by norm_num, by norm_num, by norm_num⟩ (by norm_num) (by norm_num)
    (by norm_num) (by norm_num)
    (fun x hx => by
      have : x = 1 ∨ x = 3 ∨ x = 2 ∨ x = 4 ∨ x = 5 ∨ x = 7 := by simpa using hx
      refine ⟨trivial, Or.inr ?_⟩
      rcases this with rfl | rfl | rfl | rfl | rfl | rfl <;> norm_num)
    hrun
  exact ⟨st', d', M', hr, fun s hs' => (h (fun v _ hv => ⟨trivial, hv⟩) s hs').2⟩

end ExactQ

section RoundDownSub
attribute [local instance] downNum

/-- `downNum` (every `+ − × /` rounded DOWN by `999/1000`) satisfies the extended model with
`u = 1/1000`. -/
theorem downNum_subModel {lo hi : ℚ} {N : Nat} (hlo : 0 < lo) (hlo1 : lo ≤ 1) (hN : (N : ℚ) ≤ hi) :
    Round.SubModel (fun x : ℚ => x) (fun _ => True) (1 / 1000) lo hi N :=
  { downNum_model hlo hlo1 hN with
    sub := fun a b _ _ _ => ⟨trivial, -(1 / 1000), by norm_num [abs_le], by
      show (a - b) * (999 / 1000) = _; ring⟩
    quarter := ⟨trivial, rfl⟩ }

private def okD (v : ℚ) : Bool :=
  decide (v = 0) || (decide ((1 : ℚ) / 100 ≤ |v|) && decide (|v| ≤ 100))

private theorem okD_spec {v : ℚ} (h : okD v = true) : True ∧ InRange ((1 : ℚ) / 100) 100 v := by
  unfold okD at h
  simp only [Bool.and_eq_true, Bool.or_eq_true, decide_eq_true_eq] at h
  exact ⟨trivial, h⟩

/-- 3c on the ROUNDING toy type, specification level, median / centroid / Ward on `d01=1 d02=3
d12=2`: every table value of every greedy run is `≥ 0`. -/
example (mt : Method) (hmt : mt = .median ∨ mt = .centroid ∨ mt = .ward) :
    RunGood (fun v : ℚ => True ∧ In0 ((1 : ℚ) / 100) 100 v) mt 3 (#[1, 3, 2] : Array ℚ) := by
  have hrun : RunGood (fun v : ℚ => True ∧ InRange ((1 : ℚ) / 100) 100 v) mt 3
      (#[1, 3, 2] : Array ℚ) := by
    rcases hmt with rfl | rfl | rfl <;>
      exact (runGood_of_check okD _ 3 _ 2 (by decide +kernel)).mono (fun _ h => okD_spec h)
  exact C12_greedy_table_nonneg_rounded (val := fun x : ℚ => x) (fin := fun _ => True)
    (Lm := 1 / 10000) (Hm := 2000)
    (downNum_subModel (lo := 1 / 100000) (hi := 3000) (N := 10) (by norm_num) (by norm_num)
      (by norm_num)) (by norm_num) mt hmt (by norm_num) (by norm_num) (by decide)
    ⟨by norm_num, by norm_num, by norm_num, by norm_num⟩ (by norm_num) (by norm_num)
    (by norm_num) (by norm_num) (by decide) (by decide) (by decide)
    (fun x hx => by
      have : x = 1 ∨ x = 3 ∨ x = 2 := by simpa using hx
      refine ⟨trivial, Or.inr ?_⟩
      rcases this with rfl | rfl | rfl <;> norm_num)
    hrun

end RoundDownSub

end ExampleRoundedSub

end Kodama
