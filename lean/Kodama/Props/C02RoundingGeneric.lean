/-
C02 UNDER FLOATING-POINT ROUNDING, ENTRY POINT `generic_with` — the rounding-error theorems of
`Props/C02Rounding.lean` (nnchain / linkage) and `Props/C02RoundingPrim.lean` (primitive) for
Müllner's generic algorithm (`src/generic.rs`), which also accepts `Method::Average` and
`Method::Weighted`.  With this file the three entry points that accept these two methods are covered
by the SAME conclusion, so any two of them compose (`C02_average_rounded_agree`).

## What is proved

* `C02_generic_average_rounded`   for every valid matrix the call `genericWith chk .average st d data n`
      RETURNS, and EVERY returned step `(c1, c2, h, size)` satisfies, with `A`, `B` the observation sets
      (`Spec.leaves`) of the labels `c1`, `c2` and `mean` the EXACT mean of the original values over the
      cross pairs:
          h finite,   A ∩ B = ∅,   size = |A| + |B| ≤ n,   0 ≤ mean,
          Round.Near u (4·(size − 2)) mean (val h)
      — word for word the conclusion of `C02_nnchain_average_rounded` / `C02_primitive_average_rounded`.
* `C02_generic_average_rounded_bounds`, `_gamma`, `_1e9`, `_1e3`   `Near` unfolded, and the numeric
      corollaries (`u ≤ 2⁻⁵³`, `n ≤ 10⁶` ⇒ relative error `≤ 10⁻⁹`; `u ≤ 2⁻²⁴`, `n ≤ 2000` ⇒ `≤ 10⁻³`).
* `C02_generic_weighted_rounded`, `_of_halfAdd`   weighted linkage: every returned height is within
      `2·(size − 2)` factors of the recursively halved mean `Crit.wdist` over the merge trees of the two
      merged labels (as `C02_nnchain_weighted_rounded`).
* Non-vacuity: exact `ℚ` with sentinel `1000` (`ratNumMax 1000`, `u = 0`: heights ARE the means /
  halved means), and a round-down toy type with sentinel `1000` (`u = 1/1000`, average).

## Hypotheses

Those of the nnchain / primitive theorems (`OrderLaws α`, `Round.Model`, valid matrix, entries finite
and `0` or in `[dlo, dhi]` resp. in `[dlo, dhi]`, `Round.RangeOk` / `RangeOkW`; for weighted:
reducibility `ChainGeOn G .weighted`), PLUS what `generic_with` needs to run at all — unlike
`primitive_with` and `nnchain_with` it is not total for arbitrary number operations: it leaves its
repair loop on `==`, starts every row scan from `T::max_value()`, and relies on the heap priorities
being lower bounds of the row minima.  These are exactly the hypotheses of the existing (exact or
closure-based) theorems about `generic_with` (`Props/C03GenericRun.lean`, `C12Generic.lean`); none is
part of the standard model of floating-point arithmetic:

* `BeqLe α`            `a == b → ¬ (b < a)` (true of IEEE floats);
* `max_value` is not NaN;
* `GoodSet G`          a set `G` of values that are not NaN, strictly below `max_value`, `v == v`;
* `hG`                 `G` contains every FINITE value in the range of the run
                       (average: `0` or in `[dlo/n²·(1−u)^(4n), dhi/(1−u)^(4n)]`, `Round.RAvg.range`;
                       weighted: `[dlo·(1−u)^(2n), dhi/(1−u)^(2n)]`, `Round.RWgt.range`).
  For IEEE floats: `G` = "finite, below `f64::MAX`"; `hG` holds because the run's range is far below the
  largest finite number by `RangeOk` (`n·dhi ≤ hi·(1−u)^(4n+3)`) — but `val v < val max_value ⇒
  v < max_value` is a statement about the order on finite floats, i.e. `Round.Model.lt` applied to
  `max_value`; it is kept as the hypothesis `hG` so that `max_value` need not be `fin`.
* the lower-bound closure `LBClosed G m` of the generic algorithm is DERIVED: for the clamped average
  from `OrderLaws` (`lbClosed_average`), for weighted from `ChainGeOn G .weighted`
  (`lbClosed_weighted_of_chainGeOn`).

## What is NOT proved

As in `Props/C02Rounding.lean` / `C02RoundingPrim.lean`: that IEEE arithmetic satisfies `Round.Model`,
`BeqLe`, `HalfAddLaws`; Ward / centroid / median (cancellation).  That two entry points return the
same clusters (under rounding they need not).

## Proof

`Lemmas/RoundGeneric.lean`: one iteration of `generic_with` satisfies `MergeFacts` (the popped pair is a
global minimum, `generic_pop_min`; the three ranges act on the matrix as `updateRows`,
`genericUpdate_lb'`) while `GenInv` (totality) and `LB` (lower bounds) are maintained as in
`Lemmas/GenericGreedySim.lean`; the run-dependent goodness hypothesis `UpdGoodAt` of the update is
discharged FROM THE ROUNDING RELATION (the value about to be written is `RAvg`/`RWgt`-related to the
merged trees, hence finite and in range, hence in `G`).  `roundCore_step` (`Lemmas/RoundPrimitive.lean`)
then carries the entry-point independent invariant, and `relabel_round` / `relabel_round_sw`
(`Lemmas/RoundSort.lean`) the sort/relabel stage.
-/
import Kodama.Lemmas.RoundGeneric
import Kodama.Props.C02RoundingPrim
import Kodama.Lemmas.ComposeExample
set_option linter.unusedSectionVars false
namespace Kodama
open Spec Crit MTree Finset Round

variable {K : Type} [Field K] [LinearOrder K] [IsStrictOrderedRing K]
variable {α : Type} [Num α]

/-- The input range `[dlo, dhi]` (or `0`) lies inside the range of all values of an average-linkage
run. -/
theorem in0_base_run {u dlo dhi x : K} {n : Nat} (h0 : 0 ≤ u) (hu : u < 1) (hn : 1 ≤ n)
    (hdlo : 0 < dlo) (hdle : dlo ≤ dhi) (hx : In0 dlo dhi x) :
    In0 (vlo u n dlo) (vhi u n dhi) x := by
  have hw := pow_w_pos hu (4 * n)
  have hw1 := pow_w_le_one h0 hu (4 * n)
  have hnK : (1 : K) ≤ (n : K) := by exact_mod_cast hn
  have hnn : (1 : K) ≤ (n : K) * (n : K) := by nlinarith
  refine hx.weaken ?_ ?_
  · unfold vlo
    have h1 : dlo / ((n : K) * (n : K)) ≤ dlo := div_le_self hdlo.le hnn
    have h2 : 0 ≤ dlo / ((n : K) * (n : K)) := div_nonneg hdlo.le (by linarith)
    calc dlo / ((n : K) * (n : K)) * (1 - u) ^ (4 * n) ≤ dlo / ((n : K) * (n : K)) * 1 :=
          mul_le_mul_of_nonneg_left hw1 h2
      _ ≤ dlo := by rw [mul_one]; exact h1
  · unfold vhi
    rw [le_div_iff₀ hw]
    have hdhi : 0 ≤ dhi := le_trans hdlo.le hdle
    calc dhi * (1 - u) ^ (4 * n) ≤ dhi * 1 := mul_le_mul_of_nonneg_left hw1 hdhi
      _ = dhi := mul_one _

/-- **C02 for average linkage through `generic_with`, under the standard model of floating-point
arithmetic.**  Same conclusion as `C02_nnchain_average_rounded`; see the file header for the extra
hypotheses (`BeqLe`, `GoodSet G`, `hG`, `max_value` not NaN) and why `generic_with` needs them. -/
theorem C02_generic_average_rounded (L : OrderLaws α) (hbeq : BeqLe α) {val : α → K}
    {fin : α → Prop} {u lo hi : K} {N : Nat} (RM : Round.Model val fin u lo hi N)
    (hmax : Num.isNaN (Num.maxValue : α) = false) {G : α → Prop} (gs : GoodSet G)
    (chk : Bool) (st : State α) (d : Dendrogram α) (data : Array α) (n : Nat)
    (h2 : 2 ≤ n) (hs : n < 2147483648) (hl : 2 * data.size = n * (n - 1))
    {dlo dhi : K} (hdlo : 0 < dlo) (hdle : dlo ≤ dhi)
    (hdata : ∀ (k : Nat) (h : k < data.size), fin data[k] ∧ In0 dlo dhi (val data[k]))
    (Rg : RangeOk u lo hi N n dlo dhi)
    (hG : ∀ v, fin v → In0 (vlo u n dlo) (vhi u n dhi) (val v) → G v) :
    ∃ st' d' M', genericWith chk .average st d data n = .ok (st', d', M') ∧
      ∀ (i : Nat) (s : Step α), d'.steps.toList[i]? = some s →
        let steps := d'.steps.toList
        let A := (Spec.leaves n steps steps.length s.c1).toFinset
        let B := (Spec.leaves n steps steps.length s.c2).toFinset
        fin s.d ∧ Disjoint A B ∧ s.size = A.card + B.card ∧ s.size ≤ n ∧
          0 ≤ avg (valD val n data) A B ∧
          Near u (4 * (s.size - 2)) (avg (valD val n data) A B) (val s.d) := by
  have B := baseOk_valD (val := val) (fin := fin) data n h2 hs hl hdlo hdle hdata
  have C : LWCompat Method.average (RAvg val fin u n (valD val n data)) := lwCompat_RAvg RM B Rg
  have hsq : squareData Method.average data = data := by simp [squareData, Method.onSquares]
  have hin : ∀ i (h : i < (squareData Method.average data).size),
      G (squareData Method.average data)[i] := by
    rw [hsq]
    intro i hi
    exact hG _ (hdata i hi).1
      (in0_base_run RM.u_nonneg RM.u_lt_one (by omega) hdlo hdle (hdata i hi).2)
  obtain ⟨st1, dend1, M1, uf, d', hres, hr, hrun⟩ :=
    genericWith_round L hbeq gs chk .average (fun _ => lbClosed_average L gs) hmax
      (lwGeOn_average L (fun _ => True)) C
      (fun _ _ _ h => RM.notNaN _ h.fin) (fun _ _ _ _ => trivial)
      (fun _ _ v hd h => hG v h.fin (h.range RM.u_nonneg RM.u_lt_one B hd))
      st d data n h2 hs hl hin
      (fun i j hi hj hij => by
        obtain ⟨k, hk, e⟩ := init_D_average_mem data n h2 hs hl i j hi hj hij
        refine RAvg.leaf hi hj ?_ rfl
        show fin ((Spec.init .average n data).D i j)
        rw [e]; exact (hdata k hk).1)
  obtain ⟨hwf, hall⟩ := relabel_round L .average rfl st1.set uf dend1 d'
    n h2 hres.obs hres.raw hres.heights hres.run hr
  have hsqrt : sqrtSteps Method.average d' = d' := by
    simp [sqrtSteps, Method.onSquares]
  refine ⟨{ st1 with set := uf }, d', M1, by rw [hrun, hsqrt], ?_⟩
  intro i s hi
  obtain ⟨T₁, T₂, hR, hdisj, hleaves, hsize⟩ := hall i s hi
  have hcard : T₁.leaves.card + T₂.leaves.card ≤ n := by
    have : (T₁.leaves ∪ T₂.leaves).card ≤ n :=
      card_le_of_lt (fun x hx => by
        rcases mem_union.mp hx with h' | h'
        · exact hR.ls x h'
        · exact hR.lt x h')
    rwa [card_union_of_disjoint hdisj] at this
  have hnn := B.avg_nonneg hR.ls hR.lt hdisj T₁.leaves_nonempty T₂.leaves_nonempty
  rcases hleaves with ⟨e1, e2⟩ | ⟨e1, e2⟩
  · simp only [e1, e2]
    exact ⟨hR.fin, hdisj, hsize, by omega, hnn, by rw [hsize]; exact hR.near⟩
  · have hR' := hR.symm B
    simp only [e1, e2]
    refine ⟨hR.fin, hdisj.symm, by omega, by omega, ?_, ?_⟩
    · rw [avg_symm B.symm]; exact hnn
    · rw [hsize, Nat.add_comm]; exact hR'.near

/-- `C02_generic_average_rounded` with the two-sided bound written out. -/
theorem C02_generic_average_rounded_bounds (L : OrderLaws α) (hbeq : BeqLe α) {val : α → K}
    {fin : α → Prop} {u lo hi : K} {N : Nat} (RM : Round.Model val fin u lo hi N)
    (hmax : Num.isNaN (Num.maxValue : α) = false) {G : α → Prop} (gs : GoodSet G)
    (chk : Bool) (st : State α) (d : Dendrogram α) (data : Array α) (n : Nat)
    (h2 : 2 ≤ n) (hs : n < 2147483648) (hl : 2 * data.size = n * (n - 1))
    {dlo dhi : K} (hdlo : 0 < dlo) (hdle : dlo ≤ dhi)
    (hdata : ∀ (k : Nat) (h : k < data.size), fin data[k] ∧ In0 dlo dhi (val data[k]))
    (Rg : RangeOk u lo hi N n dlo dhi)
    (hG : ∀ v, fin v → In0 (vlo u n dlo) (vhi u n dhi) (val v) → G v) :
    ∃ st' d' M', genericWith chk .average st d data n = .ok (st', d', M') ∧
      ∀ (i : Nat) (s : Step α), d'.steps.toList[i]? = some s →
        let steps := d'.steps.toList
        let A := (Spec.leaves n steps steps.length s.c1).toFinset
        let B := (Spec.leaves n steps steps.length s.c2).toFinset
        let mean := avg (valD val n data) A B
        mean * (1 - u) ^ (4 * (s.size - 2)) ≤ val s.d ∧
          val s.d * (1 - u) ^ (4 * (s.size - 2)) ≤ mean := by
  obtain ⟨st', d', M', hrun, h⟩ :=
    C02_generic_average_rounded L hbeq RM hmax gs chk st d data n h2 hs hl hdlo hdle hdata Rg hG
  exact ⟨st', d', M', hrun, fun i s hi => (h i s hi).2.2.2.2.2⟩

/-! ## Numeric corollaries -/

/-- **Relative-error form**: every height returned by `generic_with` is within `γ · mean` of the
exact mean whenever `4·n·u ≤ c` and `1 ≤ (1+γ)(1−c)`. -/
theorem C02_generic_average_rounded_gamma (L : OrderLaws α) (hbeq : BeqLe α) {val : α → K}
    {fin : α → Prop} {u lo hi : K} {N : Nat} (RM : Round.Model val fin u lo hi N)
    (hmax : Num.isNaN (Num.maxValue : α) = false) {G : α → Prop} (gs : GoodSet G)
    (chk : Bool) (st : State α) (d : Dendrogram α) (data : Array α) (n : Nat)
    (h2 : 2 ≤ n) (hs : n < 2147483648) (hl : 2 * data.size = n * (n - 1))
    {dlo dhi : K} (hdlo : 0 < dlo) (hdle : dlo ≤ dhi)
    (hdata : ∀ (k : Nat) (h : k < data.size), fin data[k] ∧ In0 dlo dhi (val data[k]))
    (Rg : RangeOk u lo hi N n dlo dhi)
    (hG : ∀ v, fin v → In0 (vlo u n dlo) (vhi u n dhi) (val v) → G v)
    {c γ : K} (hc : 4 * (n : K) * u ≤ c) (hγ0 : 0 ≤ γ) (hγ : 1 ≤ (1 + γ) * (1 - c)) :
    ∃ st' d' M', genericWith chk .average st d data n = .ok (st', d', M') ∧
      ∀ (i : Nat) (s : Step α), d'.steps.toList[i]? = some s →
        let steps := d'.steps.toList
        let A := (Spec.leaves n steps steps.length s.c1).toFinset
        let B := (Spec.leaves n steps steps.length s.c2).toFinset
        |val s.d - avg (valD val n data) A B| ≤ γ * avg (valD val n data) A B := by
  obtain ⟨st', d', M', hrun, h⟩ :=
    C02_generic_average_rounded L hbeq RM hmax gs chk st d data n h2 hs hl hdlo hdle hdata Rg hG
  refine ⟨st', d', M', hrun, fun i s hi => ?_⟩
  obtain ⟨_, _, _, hle, hnn, hnear⟩ := h i s hi
  refine near_rel_le RM.u_nonneg RM.u_lt_one hnn hnear ?_ hγ0 hγ
  have hk : ((4 * (s.size - 2) : Nat) : K) ≤ 4 * (n : K) := by
    have : 4 * (s.size - 2) ≤ 4 * n := by omega
    exact_mod_cast this
  exact le_trans (mul_le_mul_of_nonneg_right hk RM.u_nonneg) hc

/-- **The tolerance of the property for `f64`, entry point `generic_with`**: `u ≤ 2⁻⁵³`, `n ≤ 10⁶`
⇒ every returned height is within `10⁻⁹` (relative) of the exact mean. -/
theorem C02_generic_average_rounded_1e9 (L : OrderLaws α) (hbeq : BeqLe α) {val : α → K}
    {fin : α → Prop} {u lo hi : K} {N : Nat} (RM : Round.Model val fin u lo hi N)
    (hmax : Num.isNaN (Num.maxValue : α) = false) {G : α → Prop} (gs : GoodSet G)
    (chk : Bool) (st : State α) (d : Dendrogram α) (data : Array α) (n : Nat)
    (h2 : 2 ≤ n) (hs : n < 2147483648) (hl : 2 * data.size = n * (n - 1))
    {dlo dhi : K} (hdlo : 0 < dlo) (hdle : dlo ≤ dhi)
    (hdata : ∀ (k : Nat) (h : k < data.size), fin data[k] ∧ In0 dlo dhi (val data[k]))
    (Rg : RangeOk u lo hi N n dlo dhi)
    (hG : ∀ v, fin v → In0 (vlo u n dlo) (vhi u n dhi) (val v) → G v)
    (hu : u ≤ 1 / 2 ^ 53) (hn : n ≤ 1000000) :
    ∃ st' d' M', genericWith chk .average st d data n = .ok (st', d', M') ∧
      ∀ (i : Nat) (s : Step α), d'.steps.toList[i]? = some s →
        let steps := d'.steps.toList
        let A := (Spec.leaves n steps steps.length s.c1).toFinset
        let B := (Spec.leaves n steps steps.length s.c2).toFinset
        |val s.d - avg (valD val n data) A B| ≤ 1 / 1000000000 * avg (valD val n data) A B := by
  have hnK : (n : K) ≤ 1000000 := by exact_mod_cast hn
  have hn0 : (0 : K) ≤ (n : K) := Nat.cast_nonneg n
  refine C02_generic_average_rounded_gamma L hbeq RM hmax gs chk st d data n h2 hs hl hdlo hdle hdata
    Rg hG (c := 4 * 1000000 * (1 / 2 ^ 53)) ?_ (by norm_num) (by norm_num)
  have h1 : 4 * (n : K) * u ≤ 4 * (n : K) * (1 / 2 ^ 53) :=
    mul_le_mul_of_nonneg_left hu (by linarith)
  have h2' : 4 * (n : K) * (1 / 2 ^ 53) ≤ 4 * 1000000 * (1 / 2 ^ 53) :=
    mul_le_mul_of_nonneg_right (by linarith) (by norm_num)
  linarith

/-- **The tolerance of the property for `f32`, entry point `generic_with`**: `u ≤ 2⁻²⁴`, `n ≤ 2000`
⇒ relative error at most `10⁻³`. -/
theorem C02_generic_average_rounded_1e3 (L : OrderLaws α) (hbeq : BeqLe α) {val : α → K}
    {fin : α → Prop} {u lo hi : K} {N : Nat} (RM : Round.Model val fin u lo hi N)
    (hmax : Num.isNaN (Num.maxValue : α) = false) {G : α → Prop} (gs : GoodSet G)
    (chk : Bool) (st : State α) (d : Dendrogram α) (data : Array α) (n : Nat)
    (h2 : 2 ≤ n) (hs : n < 2147483648) (hl : 2 * data.size = n * (n - 1))
    {dlo dhi : K} (hdlo : 0 < dlo) (hdle : dlo ≤ dhi)
    (hdata : ∀ (k : Nat) (h : k < data.size), fin data[k] ∧ In0 dlo dhi (val data[k]))
    (Rg : RangeOk u lo hi N n dlo dhi)
    (hG : ∀ v, fin v → In0 (vlo u n dlo) (vhi u n dhi) (val v) → G v)
    (hu : u ≤ 1 / 2 ^ 24) (hn : n ≤ 2000) :
    ∃ st' d' M', genericWith chk .average st d data n = .ok (st', d', M') ∧
      ∀ (i : Nat) (s : Step α), d'.steps.toList[i]? = some s →
        let steps := d'.steps.toList
        let A := (Spec.leaves n steps steps.length s.c1).toFinset
        let B := (Spec.leaves n steps steps.length s.c2).toFinset
        |val s.d - avg (valD val n data) A B| ≤ 1 / 1000 * avg (valD val n data) A B := by
  have hnK : (n : K) ≤ 2000 := by exact_mod_cast hn
  have hn0 : (0 : K) ≤ (n : K) := Nat.cast_nonneg n
  refine C02_generic_average_rounded_gamma L hbeq RM hmax gs chk st d data n h2 hs hl hdlo hdle hdata
    Rg hG (c := 4 * 2000 * (1 / 2 ^ 24)) ?_ (by norm_num) (by norm_num)
  have h1 : 4 * (n : K) * u ≤ 4 * (n : K) * (1 / 2 ^ 24) :=
    mul_le_mul_of_nonneg_left hu (by linarith)
  have h2' : 4 * (n : K) * (1 / 2 ^ 24) ≤ 4 * 2000 * (1 / 2 ^ 24) :=
    mul_le_mul_of_nonneg_right (by linarith) (by norm_num)
  linarith

/-! ## Weighted linkage -/

/-- **C02 for weighted linkage through `generic_with`, under the standard model AND reducibility of
the weighted update on the good set `G`** (`hge : ChainGeOn G .weighted`; `hG`: `G` contains every
finite value in `[dlo·(1−u)^(2n), dhi/(1−u)^(2n)]`, the range of the run).  Same conclusion as
`C02_nnchain_weighted_rounded`.  Here reducibility is used twice: for the lower-bound invariant of
the heap (`LBClosed`) and for the legality of the sort. -/
theorem C02_generic_weighted_rounded (L : OrderLaws α) (hbeq : BeqLe α) {val : α → K}
    {fin : α → Prop} {u lo hi : K} {N : Nat} (RM : Round.Model val fin u lo hi N)
    (hmax : Num.isNaN (Num.maxValue : α) = false) {G : α → Prop} (gs : GoodSet G)
    (hge : ChainGeOn G .weighted)
    (chk : Bool) (st : State α) (d : Dendrogram α) (data : Array α) (n : Nat)
    (h2 : 2 ≤ n) (hs : n < 2147483648) (hl : 2 * data.size = n * (n - 1))
    {dlo dhi : K} (hdlo : 0 < dlo)
    (hdata : ∀ (k : Nat) (h : k < data.size),
      fin data[k] ∧ dlo ≤ val data[k] ∧ val data[k] ≤ dhi)
    (Rg : RangeOkW u lo hi n dlo dhi)
    (hG : ∀ v, fin v → dlo * (1 - u) ^ (2 * n) ≤ val v → val v ≤ dhi / (1 - u) ^ (2 * n) → G v) :
    ∃ st' d' M', genericWith chk .weighted st d data n = .ok (st', d', M') ∧
      ∀ (i : Nat) (s : Step α), d'.steps.toList[i]? = some s →
        let steps := d'.steps.toList
        let w := wdist (valD val n data) (clusterTree n steps s.c1) (clusterTree n steps s.c2)
        fin s.d ∧ s.size ≤ n ∧ 0 ≤ w ∧ Near u (2 * (s.size - 2)) w (val s.d) := by
  have B : BaseOkW n (valD val n data) dlo dhi :=
    { symm := fun i j => by unfold valD; rw [init_D_symm]
      dlo_pos := hdlo
      entry := fun i j hi hj hij => by
        obtain ⟨k, hk, e⟩ := init_D_average_mem data n h2 hs hl i j hi hj hij
        unfold valD; rw [e]; exact (hdata k hk).2 }
  have C : LWCompat Method.weighted (RWgt val fin u n (valD val n data)) := lwCompat_RWgt RM B Rg
  have hge' : LwGeOn G Method.weighted := hge.lw
  have hRG : ∀ s t v, RWgt val fin u n (valD val n data) s t v → G v := fun _ _ v h =>
    hG v h.fin (h.range RM.u_nonneg RM.u_lt_one B).1 (h.range RM.u_nonneg RM.u_lt_one B).2
  have hsq : squareData Method.weighted data = data := by simp [squareData, Method.onSquares]
  have hw := pow_w_pos RM.u_lt_one (2 * n)
  have hw1 := pow_w_le_one RM.u_nonneg RM.u_lt_one (2 * n)
  have hin : ∀ i (h : i < (squareData Method.weighted data).size),
      G (squareData Method.weighted data)[i] := by
    rw [hsq]
    intro i hi
    obtain ⟨f, l1, l2⟩ := hdata i hi
    refine hG _ f ?_ ?_
    · calc dlo * (1 - u) ^ (2 * n) ≤ dlo * 1 := mul_le_mul_of_nonneg_left hw1 hdlo.le
        _ = dlo := mul_one _
        _ ≤ _ := l1
    · rw [le_div_iff₀ hw]
      have hv0 : 0 ≤ val data[i] := le_trans hdlo.le l1
      calc val data[i] * (1 - u) ^ (2 * n) ≤ val data[i] * 1 :=
            mul_le_mul_of_nonneg_left hw1 hv0
        _ = val data[i] := mul_one _
        _ ≤ dhi := l2
  obtain ⟨st1, dend1, M1, uf, d', hres, hr, hrun⟩ :=
    genericWith_round L hbeq gs chk .weighted
      (fun _ => lbClosed_weighted_of_chainGeOn L gs hge) hmax hge' C
      (fun _ _ _ h => RM.notNaN _ h.fin) hRG (fun s t v _ h => hRG s t v h)
      st d data n h2 hs hl hin
      (fun i j hi hj hij => by
        obtain ⟨k, hk, e⟩ := init_D_average_mem data n h2 hs hl i j hi hj hij
        refine RWgt.leaf hi hj hij ?_ rfl
        show fin ((Spec.init .average n data).D i j)
        rw [e]; exact (hdata k hk).1)
  obtain ⟨hwf, hall⟩ := relabel_round_sw L .weighted rfl st1.set uf dend1 d'
    n h2 hres.obs hres.raw hres.heights hres.run hr
  have hsqrt : sqrtSteps Method.weighted d' = d' := by
    simp [sqrtSteps, Method.onSquares]
  refine ⟨{ st1 with set := uf }, d', M1, by rw [hrun, hsqrt], ?_⟩
  intro i s hi
  obtain ⟨T₁, T₂, hR, hdisj, hsw, hsize⟩ := hall i s hi
  have hcard : T₁.leaves.card + T₂.leaves.card ≤ n := by
    have : (T₁.leaves ∪ T₂.leaves).card ≤ n :=
      card_le_of_lt (fun x hx => by
        rcases mem_union.mp hx with h' | h'
        · exact hR.ls x h'
        · exact hR.lt x h')
    rwa [card_union_of_disjoint hdisj] at this
  have hnn : 0 ≤ wdist (valD val n data) T₁ T₂ :=
    le_trans hdlo.le (B.wdist_mem T₁ T₂ hR.ls hR.lt hdisj).1
  have hwd : wdist (valD val n data) (clusterTree n d'.steps.toList s.c1)
      (clusterTree n d'.steps.toList s.c2) = wdist (valD val n data) T₁ T₂ := by
    rcases hsw with ⟨a, b⟩ | ⟨a, b⟩
    · rw [a.wdist_left, b.wdist_right]
    · rw [a.wdist_left, b.wdist_right, wdist_symm B.symm]
  simp only [hwd]
  exact ⟨hR.fin, by omega, hnn, by rw [hsize]; exact hR.near⟩

/-- `C02_generic_weighted_rounded` with reducibility obtained from the monotonicity laws of `+` and
`½·` on the good set (`HalfAddLaws α G`, `Lemmas/WeightedMono.lean`). -/
theorem C02_generic_weighted_rounded_of_halfAdd (L : OrderLaws α) (hbeq : BeqLe α) {val : α → K}
    {fin : α → Prop} {u lo hi : K} {N : Nat} (RM : Round.Model val fin u lo hi N)
    (hmax : Num.isNaN (Num.maxValue : α) = false) {G : α → Prop} (gs : GoodSet G)
    (H : HalfAddLaws α G)
    (chk : Bool) (st : State α) (d : Dendrogram α) (data : Array α) (n : Nat)
    (h2 : 2 ≤ n) (hs : n < 2147483648) (hl : 2 * data.size = n * (n - 1))
    {dlo dhi : K} (hdlo : 0 < dlo)
    (hdata : ∀ (k : Nat) (h : k < data.size),
      fin data[k] ∧ dlo ≤ val data[k] ∧ val data[k] ≤ dhi)
    (Rg : RangeOkW u lo hi n dlo dhi)
    (hG : ∀ v, fin v → dlo * (1 - u) ^ (2 * n) ≤ val v → val v ≤ dhi / (1 - u) ^ (2 * n) → G v) :
    ∃ st' d' M', genericWith chk .weighted st d data n = .ok (st', d', M') ∧
      ∀ (i : Nat) (s : Step α), d'.steps.toList[i]? = some s →
        let steps := d'.steps.toList
        let w := wdist (valD val n data) (clusterTree n steps s.c1) (clusterTree n steps s.c2)
        fin s.d ∧ s.size ≤ n ∧ 0 ≤ w ∧ Near u (2 * (s.size - 2)) w (val s.d) :=
  C02_generic_weighted_rounded L hbeq RM hmax gs (chainReducibleOn_weighted L H).chainGeOn chk st d
    data n h2 hs hl hdlo hdata Rg hG

/-! ## Non-vacuity

`generic_with` needs a sentinel above the data, so the exact type is `ratNumMax 1000` (`fieldNum ℚ` with
`max_value = 1000`, `Lemmas/ComposeExample.lean`) and the rounding toy type is `downNum` of
`Props/C02Rounding.lean` with `max_value = 1000`.  Good set: `G v := v < 1000`. -/

section Examples

/-- Exact rational arithmetic with sentinel `1000`. -/
@[reducible] def ratNum1000 : Num ℚ := ratNumMax 1000

theorem run_range_lt_1000_exact : ∀ v : ℚ, True →
    In0 (vlo (0 : ℚ) 3 1) (vhi (0 : ℚ) 3 9) v → v < 1000 := by
  intro v _ h
  have e : vhi (0 : ℚ) 3 9 = 9 := by norm_num [vhi]
  rcases h with h | ⟨_, h⟩
  · rw [h]; norm_num
  · rw [e] at h; linarith

section ExactRat
attribute [local instance] ratNum1000

/-- Exact `ℚ` (sentinel `1000`): all hypotheses hold, and (with `u = 0`) every height returned by
`generic_with` IS the mean over the cross pairs. -/
example : ∃ st' d' M',
    genericWith true .average State.new (Dendrogram.new 0) (#[1, 9, 4] : Array ℚ) 3
      = .ok (st', d', M') ∧
    ∀ (i : Nat) (s : Step ℚ), d'.steps.toList[i]? = some s →
      s.d = avg (valD (fun x : ℚ => x) 3 #[1, 9, 4])
        (Spec.leaves 3 d'.steps.toList d'.steps.toList.length s.c1).toFinset
        (Spec.leaves 3 d'.steps.toList d'.steps.toList.length s.c2).toFinset := by
  have E := ratNumMax_exact 1000
  have Bq := ratNumMax_beq 1000
  have RM : Round.Model (fun x : ℚ => x) (fun _ => True) 0 (1 / 100) 100 10 :=
    model_of_exact E (by norm_num) (by norm_num) (by norm_num)
  obtain ⟨st', d', M', hrun, h⟩ := C02_generic_average_rounded_bounds E.field.orderLaws
    (Bq.beqLe E) RM (E.noNaN _) (goodSet_exact Bq E (G := fun v => v < 1000) (fun _ h => h))
    true State.new (Dendrogram.new 0) #[1, 9, 4] 3
    (by decide) (by decide) (by decide) (dlo := 1) (dhi := 9) (by norm_num) (by norm_num)
    example_data_ok ⟨by decide, by norm_num, by norm_num⟩ run_range_lt_1000_exact
  refine ⟨st', d', M', hrun, fun i s hi => ?_⟩
  have := h i s hi
  simp only [sub_zero, one_pow, mul_one] at this
  exact le_antisymm this.2 this.1

/-- Exact `ℚ` (sentinel `1000`), weighted linkage through `generic_with`: every returned height IS the
recursively halved mean. -/
example : ∃ st' d' M',
    genericWith true .weighted State.new (Dendrogram.new 0) (#[1, 9, 4] : Array ℚ) 3
      = .ok (st', d', M') ∧
    ∀ (i : Nat) (s : Step ℚ), d'.steps.toList[i]? = some s →
      s.d = wdist (valD (fun x : ℚ => x) 3 #[1, 9, 4])
        (clusterTree 3 d'.steps.toList s.c1) (clusterTree 3 d'.steps.toList s.c2) := by
  have E := ratNumMax_exact 1000
  have Bq := ratNumMax_beq 1000
  have RM : Round.Model (fun x : ℚ => x) (fun _ => True) 0 (1 / 100) 100 10 :=
    model_of_exact E (by norm_num) (by norm_num) (by norm_num)
  obtain ⟨st', d', M', hrun, h⟩ := C02_generic_weighted_rounded E.field.orderLaws
    (Bq.beqLe E) RM (E.noNaN _) (goodSet_exact Bq E (G := fun v => v < 1000) (fun _ h => h))
    ((chainReducible_exact E.field E.noNaN .weighted).chainGe.on _)
    true State.new (Dendrogram.new 0) #[1, 9, 4] 3 (by decide) (by decide) (by decide)
    (dlo := 1) (dhi := 9) (by norm_num) example_data_pos ⟨by norm_num, by norm_num⟩
    (by
      intro v _ _ h
      have e : (9 : ℚ) / (1 - 0) ^ (2 * 3) = 9 := by norm_num
      rw [e] at h
      show v < 1000
      linarith)
  refine ⟨st', d', M', hrun, fun i s hi => ?_⟩
  obtain ⟨_, _, _, hn⟩ := h i s hi
  have := hn
  unfold Near at this
  simp only [sub_zero, one_pow, mul_one] at this
  exact le_antisymm this.2 this.1

end ExactRat

/-- `downNum` (`Props/C02Rounding.lean`: every arithmetic result multiplied by `999/1000`) with
`max_value = 1000`. -/
@[reducible] def downNum1000 : Num ℚ := { downNum with maxValue := 1000 }

section RoundDown
attribute [local instance] downNum1000

theorem downNum1000_orderLaws : OrderLaws ℚ :=
  OrderNum.orderLaws (OrderNum.mk (fun _ _ => rfl))

theorem downNum1000_model {lo hi : ℚ} {N : Nat} (hlo : 0 < lo) (hlo1 : lo ≤ 1)
    (hN : (N : ℚ) ≤ hi) :
    Round.Model (fun x : ℚ => x) (fun _ => True) (1 / 1000) lo hi N where
  u_nonneg := by norm_num
  u_lt_one := by norm_num
  lo_pos := hlo
  lo_le_one := hlo1
  nat_le_hi := hN
  add := fun a b _ _ _ => ⟨trivial, -(1 / 1000), by norm_num [abs_le], by
    show (a + b) * (999 / 1000) = _; ring⟩
  mul := fun a b _ _ _ => ⟨trivial, -(1 / 1000), by norm_num [abs_le], by
    show a * b * (999 / 1000) = _; ring⟩
  div := fun a b _ _ _ _ => ⟨trivial, -(1 / 1000), by norm_num [abs_le], by
    show a / b * (999 / 1000) = _; ring⟩
  ofNat := fun k _ => ⟨trivial, rfl⟩
  half := ⟨trivial, rfl⟩
  lt := fun a b _ _ => by show decide (a < b) = true ↔ a < b; rw [decide_eq_true_eq]
  notNaN := fun a _ => rfl

theorem downNum1000_beqLe : BeqLe ℚ := by
  intro a b h
  have e : a = b := by
    have : decide (a = b) = true := h
    simpa using this
  subst e
  show decide (a < a) = false
  simp

theorem downNum1000_goodSet : GoodSet (fun v : ℚ => v < 1000) where
  notNaN := fun _ _ => rfl
  ltMax := fun v hv => by show decide (v < 1000) = true; simpa using hv
  beqRefl := fun v _ => by show decide (v = v) = true; simp

/-- The round-down toy type with sentinel `1000`: all hypotheses hold (standard model with
`u = 1/1000`; `==` is equality; `G v := v < 1000` contains the range of the run), so `generic_with`
returns and every returned height is within `4·(size − 2)` factors `(1 − 1/1000)` of the exact mean
over the cross pairs. -/
example : ∃ st' d' M',
    genericWith true .average State.new (Dendrogram.new 0) (#[1, 9, 4] : Array ℚ) 3
      = .ok (st', d', M') ∧
    ∀ (i : Nat) (s : Step ℚ), d'.steps.toList[i]? = some s →
      let A := (Spec.leaves 3 d'.steps.toList d'.steps.toList.length s.c1).toFinset
      let B := (Spec.leaves 3 d'.steps.toList d'.steps.toList.length s.c2).toFinset
      let mean := avg (valD (fun x : ℚ => x) 3 #[1, 9, 4]) A B
      mean * (1 - 1 / 1000) ^ (4 * (s.size - 2)) ≤ s.d ∧
        s.d * (1 - 1 / 1000) ^ (4 * (s.size - 2)) ≤ mean :=
  C02_generic_average_rounded_bounds downNum1000_orderLaws downNum1000_beqLe
    (downNum1000_model (lo := 1 / 100) (hi := 100) (N := 10) (by norm_num) (by norm_num)
      (by norm_num)) rfl downNum1000_goodSet
    true State.new (Dendrogram.new 0) #[1, 9, 4] 3 (by decide) (by decide) (by decide)
    (dlo := 1) (dhi := 9) (by norm_num) (by norm_num)
    example_data_ok ⟨by decide, by norm_num, by norm_num⟩
    (by
      intro v _ h
      have e : vhi (1 / 1000 : ℚ) 3 9 ≤ 10 := by norm_num [vhi]
      show v < 1000
      rcases h with h | ⟨_, h⟩
      · rw [h]; norm_num
      · linarith)

end RoundDown

end Examples

end Kodama
