/-
C17 — the Rust FFI definitions, both shipped headers and the Go bindings agree.

Everything here is stated over `Kodama.Gen.Abi`, plain data that the translator
(`tools/extract_abi.py`) re-reads on every run from
  `kodama-capi/include/kodama.h` (capiH_*), `go-kodama/kodama.h` (goH_*, the copy cgo includes),
  `kodama-capi/src/lib.rs` + `macros.rs` (rust_*), `go-kodama/kodama.go` (go_*),
  `src/dendrogram.rs` (core_stepFields) and, via `Generated/Tables`, `src/lib.rs` (`Method`).
The quantifier is a finite configuration (7 methods, 6 functions, 4 fields, 2 header copies), so
`decide` over the whole table is a proof.  All comparison logic (name maps, type maps, layout
computation) is defined in this file, not in the translator.

Proved:

* `C17_enum`      both headers declare `kodama_method` with the same enumerators, in the same order,
                  with values 0..6; enumerator k is `kodama_method_` ++ lowercase of the k-th Rust
                  `kodama_method` constructor, whose discriminant is k and which is `repr(C)`; the
                  Rust constructor names are exactly the names of `Kodama.Method.all` (the library's
                  `Method`, from Generated/Tables) in order; `into_method` maps every constructor to
                  its namesake `Method::X` (imported from `kodama`), has 7 arms and no wildcard; the
                  Go iota block is `MethodX` at value k for the same X; Go `enum()` switches on its
                  receiver, sends every constant to its namesake `C.kodama_method_x`, has exactly 7
                  cases, no other case, and a `default:` that panics.
* `C17_enum_pointwise`  the same as one statement per method m with index k: at every layer the
                  k-th name is m's name and the two conversion tables send it to m.
* `C17_struct`    `kodama_step`: same member names, order and type tokens in both headers; under
                  `size_t ↦ usize, double ↦ f64` (C) and the crate's aliases `size_t = usize,
                  c_double = f64` (Rust) the same (name, machine type) list as the `repr(C)` Rust
                  struct; the x86-64 SysV layout computed here from the type lists is offsets
                  [0,8,16,24], size 32, alignment 8 for all three; `kodama_dendrogram` is an incomplete
                  type in both headers (its Rust layout is not ABI); Go `Steps()` reinterprets the
                  result of `kodama_dendrogram_steps` (declared `kodama_step *`) as `C.kodama_step`
                  and reads each C member into the like-named Go field with that field's Go type.
* `C17_fns`       the prototype lists of the two headers are token-for-token equal (names, order,
                  parameter names, qualifiers); they are the six expected functions; for each, the
                  Rust item of the same name produced by `ffi_fn!` has the same return and parameter
                  types at ABI level (pointer constness dropped, `size_t ↦ usize`, `void ↦ ()`,
                  pointee names equal), every type being one this file knows; Rust exports no
                  seventh function; the macro arm selected for each invocation emits
                  `#[no_mangle] pub extern fn` (bare `extern` is `extern "C"`).
* `C17_len`       Go `expectedLen` (both functions) and Rust `dis_len` (both functions) are the same
                  function `Nat → Nat` for ALL n (n = 0 included), and Go's formula evaluated in
                  signed `int` arithmetic (`/` truncating toward zero) equals it for all n as well;
                  Rust's expression contains no plain `-` (only `saturating_sub`), so reading it
                  with truncated subtraction is exact; `dis_len` is the slice length passed to
                  `from_raw_parts_mut`; Go panics unless `len(matrix) = expectedLen`.
                  Token equality of the two expressions is NOT demanded (Rust writes
                  `observations.saturating_sub(1)`, Go `observations - 1`).
                  At n = 0: Go computes `0 * -1 / 2 = 0`; Rust `0 * 0 / 2 = 0`.  (Before the fix
                  0456afd Rust had `observations - 1`, a `usize` underflow in checked builds: that
                  is C15's subject; here it would make the "-" conjunct fail.)
* `C17_go_calls`  `Linkage64` passes a `*C.double` into `kodama_linkage_double`, `Linkage32` a
                  `*C.float` into `kodama_linkage_float`, argument order (matrix, `C.size_t(n)`,
                  `method.enum()`) matching the header's parameter types; `Len`, `Observations`,
                  `Steps` and the finalizer call the like-named C functions and nothing else.
* `C17_rust_bodies`  the Rust wrappers copy each step field from the namesake field of the
                  library's `Step` (cast `as c_double` only for the float variant's dissimilarity),
                  store `observations: observations`, pass `method.into_method()` to `linkage`,
                  and the accessors return `steps.len()`, `observations`, `steps.as_ptr()`.

NOT proved / trusted:
* the translator: that the emitted tokens are what the files say (token-level readers, comments
  stripped, headers read as a C compiler would with `__cplusplus` undefined; an unknown directive,
  `#pragma pack`, attribute, bit-field, extra C in the cgo preamble etc. is a TRANSLATOR-ERROR,
  not silently ignored);
* the C compiler's layout rules for x86-64 SysV as encoded in `sizeAlign`/`layout` below
  (size_t 8/8, double 8/8, float 4/4, members at the next multiple of their alignment), and that
  rustc's `repr(C)` follows them; that a C enum and a fieldless `repr(C)` Rust enum have the same
  size; other targets are not covered;
* cgo and the Go compiler: there is NO Go toolchain in this sandbox, the Go file is only read,
  never compiled or run; that `C.kodama_method_x` denotes the enumerator of the header next to
  the Go file, and that `int(size_t)` is value-preserving below 2^63, is Go's documented
  behaviour, not checked here;
* that the library's `Method::X` *behaves* as method X is the business of C01..C12; the per-name
  behaviour through the real C API is exercised by C15's driver.
-/
import Kodama.Generated.Abi
import Kodama.Generated.Tables
namespace Kodama
open Gen.Abi

namespace Abi

/-- Association-list lookup (first match), list first. -/
def assoc {α β : Type} [BEq α] (l : List (α × β)) (a : α) : Option β := List.lookup a l

/-! ### name maps between the layers -/

def lower (s : String) : String := String.ofList (s.toList.map Char.toLower)

def capitalise (s : String) : String :=
  match s.toList with
  | [] => ""
  | c :: cs => String.ofList (c.toUpper :: cs)

/-- Rust constructor `X` ↦ C enumerator `kodama_method_x`. -/
def cEnumerator (ctor : String) : String := "kodama_method_" ++ lower ctor

/-- Rust constructor `X` ↦ Go constant `MethodX`. -/
def goConst (ctor : String) : String := "Method" ++ ctor

/-- Go constant `MethodX` ↦ `X` (none without the prefix). -/
def goCtor (c : String) : Option String :=
  if c.toList.take 6 = "Method".toList then some (String.ofList (c.toList.drop 6)) else none

/-! ### machine types and the x86-64 SysV layout -/

/-- C scalar type tokens ↦ machine type (named like the Rust primitive). -/
def cScalar : List (List String × String) :=
  [(["size_t"], "usize"), (["double"], "f64"), (["float"], "f32")]

/-- Struct/enum names that may appear as pointees or by value, and `void`. -/
def cNamed : List (List String × String) :=
  [(["void"], "()"), (["kodama_dendrogram"], "kodama_dendrogram"), (["kodama_step"], "kodama_step"),
   (["kodama_method"], "kodama_method")]

def rustKnown : List String :=
  ["usize", "f64", "f32", "()", "kodama_dendrogram", "kodama_step", "kodama_method"]

/-- A Rust type name through the crate's `pub type` aliases. -/
def rustResolve (t : String) : Option String :=
  let r := (assoc rust_aliases t).getD t
  if r ∈ rustKnown then some r else none

def cFieldType (t : List String) : Option String := assoc cScalar t

def rustFieldType : List String → Option String
  | [t] => (rustResolve t).bind fun r => if r ∈ cScalar.map (·.2) then some r else none
  | _ => none

/-- (size, alignment) on x86-64 SysV. -/
def sizeAlign : List (String × Nat × Nat) := [("usize", 8, 8), ("f64", 8, 8), ("f32", 4, 4)]

def roundUp (x a : Nat) : Nat := (x + a - 1) / a * a

/-- C struct layout: each member at the next multiple of its alignment; struct alignment is the
maximum; size rounded up to it.  Returns (offsets, size, alignment). -/
def layout (members : List (Nat × Nat)) : List Nat × Nat × Nat :=
  let r := members.foldl
    (fun (acc : List Nat × Nat × Nat) (m : Nat × Nat) =>
      let o := roundUp acc.2.1 m.2
      (acc.1 ++ [o], o + m.1, max acc.2.2 m.2))
    ([], 0, 1)
  (r.1, roundUp r.2.1 r.2.2, r.2.2)

def allSome {α : Type} : List (Option α) → Option (List α)
  | [] => some []
  | none :: _ => none
  | some a :: t => (allSome t).map (a :: ·)

def layoutOf (tys : List (Option String)) : Option (List Nat × Nat × Nat) :=
  ((allSome tys).bind fun ts => allSome (ts.map (assoc sizeAlign))).map layout

/-! ### ABI-level normal form of a type: (pointee or scalar, pointer depth), constness dropped -/

def cAbiTy (t : List String) : Option (String × Nat) :=
  (assoc (cScalar ++ cNamed) (t.filter (fun s => s ≠ "const" ∧ s ≠ "*"))).map (·, t.count "*")

def rustAbiTy : List String → Option (String × Nat)
  | [] => none
  | [t] => (rustResolve t).map (·, 0)
  | s :: q :: rest =>
    if s = "*" ∧ (q = "const" ∨ q = "mut") then (rustAbiTy rest).map (fun p => (p.1, p.2 + 1))
    else none

abbrev Proto := String × List String × List (String × List String)

def sigWith (f : List String → Option (String × Nat)) (p : List String × List (String × List String)) :
    Option ((String × Nat) × List (String × Nat)) :=
  (f p.1).bind fun r => (allSome (p.2.map (f ·.2))).map (r, ·)

def cSig (p : Proto) := sigWith cAbiTy p.2
def rustSig (p : List String × List (String × List String)) := sigWith rustAbiTy p

def exported : List String :=
  ["kodama_linkage_double", "kodama_linkage_float", "kodama_dendrogram_len",
   "kodama_dendrogram_observations", "kodama_dendrogram_steps", "kodama_dendrogram_free"]

/-- Go type used for a machine type in `Step`. -/
def goTypeOf : List (String × String) := [("usize", "int"), ("f64", "float64")]

end Abi
open Abi

/-! ## C17_enum -/

theorem C17_enum :
    -- the two headers
    capiH_enumerators = goH_enumerators ∧
    capiH_enumTag = ("kodama_method", "kodama_method") ∧ goH_enumTag = capiH_enumTag ∧
    capiH_enumerators.map (·.2) = List.range 7 ∧
    -- Rust `kodama_method`: repr(C), the library's method names in order, discriminants 0..6
    "repr(C)" ∈ rust_methodAttrs ∧
    rust_methodCtors.map (·.1) = Method.all.map Method.name ∧
    rust_methodCtors.map (·.2) = List.range 7 ∧
    -- header enumerator k is the k-th Rust constructor, name-wise and value-wise
    capiH_enumerators = rust_methodCtors.map (fun c => (cEnumerator c.1, c.2)) ∧
    -- Rust `into_method`: namesake to namesake, total, no wildcard, into kodama's `Method`
    rust_intoMethodRet = "Method" ∧ "Method" ∈ rust_kodamaImports ∧
    rust_intoMethod.length = 7 ∧
    (∀ a ∈ rust_intoMethod, a.1 = a.2) ∧
    (∀ c ∈ rust_methodCtors, assoc rust_intoMethod c.1 = some c.1) ∧
    -- Go iota constants: `MethodX` at the value of `kodama_method_x`
    go_constType = "Method" ∧
    go_consts = rust_methodCtors.map (fun c => (goConst c.1, c.2)) ∧
    go_consts.map (fun c => ((goCtor c.1).map cEnumerator, c.2))
      = goH_enumerators.map (fun e => (some e.1, e.2)) ∧
    -- Go `enum()`: every constant to its namesake, all seven, nothing else, default panics
    go_enumRet = "C.kodama_method" ∧
    go_enumSwitch.length = 7 ∧
    (∀ p ∈ go_enumSwitch, (goCtor p.1).map cEnumerator = some p.2 ∧ p.1 ∈ go_consts.map (·.1)) ∧
    (∀ c ∈ go_consts, (assoc go_enumSwitch c.1).bind (assoc goH_enumerators) = some c.2) ∧
    go_enumDefault = ["panic"] := by
  decide

/-- One statement per method: index k carries the name of method m at every layer, and both
conversion tables lead to m. -/
theorem C17_enum_pointwise :
    ∀ m ∈ Method.all,
      let k := Method.all.idxOf m
      capiH_enumerators[k]? = some (cEnumerator m.name, k) ∧
      goH_enumerators[k]? = some (cEnumerator m.name, k) ∧
      rust_methodCtors[k]? = some (m.name, k) ∧
      assoc rust_intoMethod m.name = some m.name ∧
      go_consts[k]? = some (goConst m.name, k) ∧
      assoc go_enumSwitch (goConst m.name) = some (cEnumerator m.name) := by
  decide

theorem C17_methods_complete : Method.all.length = 7 ∧ Method.all.Nodup := by decide

/-! ## C17_struct -/

theorem C17_struct :
    -- the two headers: token equality
    capiH_stepFields = goH_stepFields ∧
    capiH_stepTag = ("kodama_step", "kodama_step") ∧ goH_stepTag = capiH_stepTag ∧
    capiH_stepFields.map (·.1) = ["cluster1", "cluster2", "dissimilarity", "size"] ∧
    -- Rust: repr(C), same names, order and machine types
    "repr(C)" ∈ rust_stepAttrs ∧
    capiH_stepFields.map (fun f => (f.1, cFieldType f.2))
      = rust_stepFields.map (fun f => (f.1, rustFieldType f.2)) ∧
    (∀ f ∈ rust_stepFields, (rustFieldType f.2).isSome) ∧
    -- computed layout
    layoutOf (capiH_stepFields.map (cFieldType ·.2)) = some ([0, 8, 16, 24], 32, 8) ∧
    layoutOf (goH_stepFields.map (cFieldType ·.2)) = some ([0, 8, 16, 24], 32, 8) ∧
    layoutOf (rust_stepFields.map (rustFieldType ·.2)) = some ([0, 8, 16, 24], 32, 8) ∧
    -- the dendrogram is opaque to C
    capiH_opaque = [("kodama_dendrogram", "kodama_dendrogram")] ∧ goH_opaque = capiH_opaque ∧
    -- Go `Steps()`
    go_cgoIncludes = ["kodama.h"] ∧
    go_stepsSource = "kodama_dendrogram_steps" ∧
    (assoc goH_protos go_stepsSource).bind (cAbiTy ·.1) = some (go_stepsElem, 1) ∧
    go_stepsElem = goH_stepTag.2 ∧
    go_stepsConv.length = 4 ∧ go_stepFields.length = 4 ∧
    (∀ f ∈ goH_stepFields,
      go_stepsConv.filter (fun c => c.2.2 = f.1)
        = [(capitalise f.1, ((cFieldType f.2).bind (assoc goTypeOf)).getD "?", f.1)] ∧
      assoc go_stepFields (capitalise f.1) = (cFieldType f.2).bind (assoc goTypeOf)) := by
  decide

/-! ## C17_fns -/

theorem C17_fns :
    -- the two headers: token equality of all prototypes
    capiH_protos = goH_protos ∧
    capiH_protos.map (·.1) = exported ∧ exported.Nodup ∧
    -- Rust: same set of names, nothing else exported
    rust_fns.length = 6 ∧ (∀ f ∈ rust_fns, f.1 ∈ exported) ∧ (rust_fns.map (·.1)).Nodup ∧
    -- per function: same ABI signature, all types known
    (∀ p ∈ capiH_protos, (cSig p).isSome ∧ (assoc rust_fns p.1).bind rustSig = cSig p) ∧
    -- linkage of the Rust items
    rust_fnLinkage.map (·.1) = rust_fns.map (·.1) ∧
    (∀ f ∈ rust_fnLinkage, "no_mangle" ∈ f.2.1 ∧ f.2.2.1 = "pub" ∧ f.2.2.2 = "C") := by
  decide

/-! ## C17_len -/

private theorem tdiv_tri (n : Nat) :
    Int.tdiv ((n : Int) * ((n : Int) - 1)) 2 = ((n * (n - 1) / 2 : Nat) : Int) := by
  cases n with
  | zero => decide
  | succ k =>
    have h : ((k + 1 : Nat) : Int) - 1 = (k : Int) := by omega
    rw [h, Nat.add_sub_cancel, ← Int.natCast_mul,
      Int.tdiv_eq_ediv_of_nonneg (Int.natCast_nonneg _)]
    exact (Int.natCast_ediv _ _).symm

theorem C17_len :
    -- the same function over Nat, for all n
    (∀ n : Nat, go_expectedLenN_64 n = rust_disLenN_double n) ∧
    (∀ n : Nat, go_expectedLenN_32 n = rust_disLenN_float n) ∧
    -- Go's signed arithmetic gives the same value, for all n ≥ 0
    (∀ n : Nat, go_expectedLenZ_64 (n : Int) = ((rust_disLenN_double n : Nat) : Int)) ∧
    (∀ n : Nat, go_expectedLenZ_32 (n : Int) = ((rust_disLenN_float n : Nat) : Int)) ∧
    -- and it is the condensed length
    (∀ n : Nat, rust_disLenN_double n = n * (n - 1) / 2 ∧ rust_disLenN_float n = n * (n - 1) / 2) ∧
    -- Rust has no partial subtraction, so the Nat reading is exact
    rust_disLenOps.map (·.1) = ["kodama_linkage_double", "kodama_linkage_float"] ∧
    (∀ f ∈ rust_disLenOps, "-" ∉ f.2) ∧
    -- the variable is the observation count on both sides, the length is used as the length
    rust_disLenVar = [("kodama_linkage_double", "observations"), ("kodama_linkage_float", "observations")] ∧
    rust_sliceArgs.map (·.2) = [["dis", "dis", "dis_len"], ["dis", "dis", "dis_len"]] ∧
    go_expectedLenVar.map (·.1) = ["Linkage64", "Linkage32"] ∧
    go_lenGuard = [("Linkage64", "len(MATRIX) != expectedLen", true),
                   ("Linkage32", "len(MATRIX) != expectedLen", true)] ∧
    -- which Go function feeds which Rust function
    go_linkageCall.map (fun c => (c.1, c.2.1))
      = [("Linkage64", "kodama_linkage_double"), ("Linkage32", "kodama_linkage_float")] := by
  refine ⟨fun _ => rfl, fun _ => rfl, ?_, ?_, fun _ => ⟨rfl, rfl⟩, by decide, by decide, by decide,
    by decide, by decide, by decide, by decide⟩
  · intro n; simp only [go_expectedLenZ_64, rust_disLenN_double]; exact tdiv_tri n
  · intro n; simp only [go_expectedLenZ_32, rust_disLenN_float]; exact tdiv_tri n

/-! ## C17_go_calls -/

/-- Go slice element type ↦ the C scalar it is reinterpreted as. -/
def Abi.goSliceElem : List (String × String) := [("[]float64", "double"), ("[]float32", "float")]

theorem C17_go_calls :
    go_calls = [("Method.enum", []),
                ("newDendrogram", ["kodama_dendrogram_free"]),
                ("Dendrogram.Len", ["kodama_dendrogram_len"]),
                ("Dendrogram.Observations", ["kodama_dendrogram_observations"]),
                ("Dendrogram.Steps", ["kodama_dendrogram_steps"]),
                ("Linkage64", ["kodama_linkage_double"]),
                ("Linkage32", ["kodama_linkage_float"])] ∧
    go_linkageCall.length = 2 ∧
    (∀ c ∈ go_linkageCall,
      -- arguments in header order: matrix pointer, observation count, method
      c.2.2 = ["CMAT", "C.size_t(OBS)", "method.enum()"] ∧
      -- parameter types of the called prototype in the header cgo includes
      ((assoc goH_protos c.2.1).map fun p => p.2.map (·.2))
        = (assoc go_cmat c.1).map (fun t => [[t, "*"], ["size_t"], ["kodama_method"]]) ∧
      -- the C pointer type is the one the Go slice's element type corresponds to
      ((assoc go_linkageParams c.1).bind fun ps => (ps.head?).bind fun p => assoc Abi.goSliceElem p.2)
        = assoc go_cmat c.1 ∧
      ((assoc go_linkageParams c.1).map fun ps => ps.map (·.2) |>.drop 1) = some ["int", "Method"]) := by
  decide

/-! ## C17_rust_bodies -/

theorem C17_rust_bodies :
    -- the library's Step has these fields (T = the float type)
    core_stepFields = [("cluster1", "usize"), ("cluster2", "usize"), ("dissimilarity", "T"), ("size", "usize")] ∧
    -- each C step field is copied from the namesake; only the float variant casts, and only the float
    rust_stepCopy =
      [("kodama_linkage_double", rust_stepFields.map fun f => (f.1, f.1, "")),
       ("kodama_linkage_float", rust_stepFields.map fun f =>
          (f.1, f.1, if f.1 = "dissimilarity" then "c_double" else ""))] ∧
    rust_stepCopy.all (fun fc => fc.2.map (·.1) == core_stepFields.map (·.1)) = true ∧
    rust_dendLiteral.map (·.2)
      = [[("steps", "STEPS"), ("observations", "observations")],
         [("steps", "STEPS"), ("observations", "observations")]] ∧
    rust_linkageArgs.map (·.2)
      = [["dis", "observations", "method.into_method()"], ["dis", "observations", "method.into_method()"]] ∧
    rust_accessors = [("kodama_dendrogram_len", "dend.steps.len()"),
                      ("kodama_dendrogram_observations", "dend.observations"),
                      ("kodama_dendrogram_steps", "dend.steps.as_ptr()")] ∧
    rust_dendrogramFields = [("steps", "Vec<kodama_step>"), ("observations", "size_t")] := by
  decide

/-! ## non-vacuity: concrete rows of the data, and the layout function on a padded struct -/

example :
    capiH_enumerators[4]? = some ("kodama_method_ward", 4) ∧
    rust_methodCtors[4]? = some ("Ward", 4) ∧ go_consts[4]? = some ("MethodWard", 4) ∧
    assoc go_enumSwitch "MethodWard" = some "kodama_method_ward" ∧
    assoc rust_intoMethod "Ward" = some "Ward" ∧ Method.all[4]? = some .ward ∧
    goH_stepFields[2]? = some ("dissimilarity", ["double"]) ∧
    rust_stepFields[2]? = some ("dissimilarity", ["c_double"]) := by
  decide

example :
    (assoc capiH_protos "kodama_dendrogram_steps").bind (fun p => cSig ("", p))
      = some (("kodama_step", 1), [("kodama_dendrogram", 1)]) ∧
    (assoc rust_fns "kodama_dendrogram_steps").bind rustSig
      = some (("kodama_step", 1), [("kodama_dendrogram", 1)]) ∧
    -- the comparison functions do distinguish: a different scalar, an unknown type, a swap
    cAbiTy ["int"] = none ∧ cAbiTy ["double", "*"] ≠ cAbiTy ["float", "*"] ∧
    cAbiTy ["const", "kodama_step", "*"] = rustAbiTy ["*", "mut", "kodama_step"] := by
  decide

example :
    layout [(8, 8), (4, 4), (8, 8)] = ([0, 8, 16], 24, 8) ∧
    layout [(4, 4), (8, 8), (4, 4)] = ([0, 8, 16], 24, 8) ∧
    layout [(4, 4), (4, 4), (8, 8)] = ([0, 4, 8], 16, 8) ∧
    go_expectedLenZ_64 0 = 0 ∧ go_expectedLenN_64 5 = 10 ∧ rust_disLenN_double 0 = 0 := by
  decide

end Kodama
