/-
C06 for SINGLE and COMPLETE linkage over ANY ordered number type — no field, no rounding.

Single and complete linkage only compare and select input entries (`Gen.single`, `Gen.complete`), so
their C03 theorems hold over every number type with the order laws `OrderLaws α` + `LtTrichotomy α`
(true of IEEE floats on inputs that do not contain both `+0` and `−0`; NaN-free carrier).  `C06_unique`
uses no number law at all.  Composing them gives the property's statement for these two methods with
EXACT equality of the returned steps (heights included — they are input entries), for the float widths as
for every other ordered type:

* `C06_single_complete_agree`  on a tie-free input (`TieFreeFrom` along the greedy-valid reference
  `steps₀`), `primitive_with`, `nnchain_with`, `generic_with` (under what it needs to run: `BeqLe`,
  `GoodSet` containing the data, non-NaN `max_value`), for single linkage `mst_with` (non-NaN data not
  above the `+∞` sentinel), and `linkage_with` return EXACTLY `steps₀`, in every build mode, from every
  prior state.

Average / weighted under rounding: `Props/C06Rounding.lean`, `C06RoundingWeighted.lean`.  All seven methods
in exact arithmetic: `Props/C06All.lean`.
-/
import Kodama.Props.C06All
import Kodama.Props.C03Nnchain
set_option linter.unusedSectionVars false
namespace Kodama
open Spec
variable {α : Type} [Num α]

theorem C06_single_complete_agree (L : OrderLaws α) (T : LtTrichotomy α)
    (hnan : ∀ x : α, Num.isNaN x = false)
    (m : Method) (hm : m = .single ∨ m = .complete) (data : Array α) (n : Nat) (h2 : 2 ≤ n)
    (hs : n < 2147483648) (hl : 2 * data.size = n * (n - 1)) (steps₀ : List (Step α))
    (h₀ : GreedyValid m n data steps₀) (htf : TieFreeFrom m (init m n data) steps₀) :
    (∀ (chk : Bool) (st : State α) (d : Dendrogram α),
      ReturnsSteps (primitiveWith chk m st d data n) steps₀) ∧
    (∀ mc : MethodChain, mc.intoMethod = m → ∀ (chk : Bool) (st : State α) (d : Dendrogram α),
      ReturnsSteps (nnchainWith chk mc st d data n) steps₀) ∧
    (∀ {G : α → Prop}, BeqLe α → GoodSet G → Num.isNaN (Num.maxValue : α) = false →
      (∀ i (h : i < (squareData m data).size), G (squareData m data)[i]) →
      ∀ (chk : Bool) (st : State α) (d : Dendrogram α),
        ReturnsSteps (genericWith chk m st d data n) steps₀) ∧
    (m = .single → NoNaN n data → InfTop n data → ∀ (chk : Bool) (st : State α) (d : Dendrogram α),
      ReturnsSteps (mstWith chk st d data n) steps₀ ∧
      ReturnsSteps (linkageWith chk .single st d data n) steps₀) ∧
    (m = .complete → ∀ (chk : Bool) (st : State α) (d : Dendrogram α),
      ReturnsSteps (linkageWith chk .complete st d data n) steps₀) := by
  have h0 : InitNoNaN m n data := fun _ _ _ _ _ => hnan _
  refine ⟨?_, ?_, ?_, ?_, ?_⟩
  · intro chk st d
    rcases hm with rfl | rfl
    · obtain ⟨st', d', M', hr, hg⟩ := C03_primitive_single L T chk st d data n h2 hs hl h0
      exact ⟨st', d', M', hr, (C06_unique _ n data steps₀ _ h₀ hg htf).symm⟩
    · obtain ⟨st', d', M', hr, hg⟩ := C03_primitive_complete L T chk st d data n h2 hs hl h0
      exact ⟨st', d', M', hr, (C06_unique _ n data steps₀ _ h₀ hg htf).symm⟩
  · intro mc e chk st d
    rcases hm with rfl | rfl
    · have : mc = .single := by cases mc <;> simp [MethodChain.intoMethod] at e <;> rfl
      subst this
      obtain ⟨st', d', M', hr, hg⟩ := C03_nnchain_single_laws L T hnan chk st d data n h2 hs hl
      exact ⟨st', d', M', hr, (C06_unique _ n data steps₀ _ h₀ hg htf).symm⟩
    · have : mc = .complete := by cases mc <;> simp [MethodChain.intoMethod] at e <;> rfl
      subst this
      obtain ⟨st', d', M', hr, hg⟩ := C03_nnchain_complete_laws L T hnan chk st d data n h2 hs hl
      exact ⟨st', d', M', hr, (C06_unique _ n data steps₀ _ h₀ hg htf).symm⟩
  · intro G hbeq gs hmax hin chk st d
    rcases hm with rfl | rfl
    · obtain ⟨st', d', M', hr, hg⟩ := C03_generic_single L T hbeq gs chk hmax st d data n h2 hs hl hin
      exact ⟨st', d', M', hr, (C06_unique _ n data steps₀ _ h₀ hg htf).symm⟩
    · obtain ⟨st', d', M', hr, hg⟩ :=
        C03_generic_complete L T hbeq gs chk hmax st d data n h2 hs hl hin
      exact ⟨st', d', M', hr, (C06_unique _ n data steps₀ _ h₀ hg htf).symm⟩
  · intro e hn hinf chk st d
    subst e
    constructor
    · obtain ⟨st', d', M', hr, hg⟩ := C03_mst_total L T chk st d data n h2 hs hl hn hinf
      exact ⟨st', d', M', hr, (C06_unique _ n data steps₀ _ h₀ hg htf).symm⟩
    · obtain ⟨st', d', M', hr, hg⟩ := C03_linkage_single_total L T chk st d data n h2 hs hl hn hinf
      exact ⟨st', d', M', hr, (C06_unique _ n data steps₀ _ h₀ hg htf).symm⟩
  · intro e chk st d
    subst e
    have hlk := linkageWith_eq_nnchainWith chk .complete (by decide) st d data n
    rw [show MethodChain.intoMethod .complete = Method.complete from rfl] at hlk
    obtain ⟨st', d', M', hr, hg⟩ := C03_nnchain_complete_laws L T hnan chk st d data n h2 hs hl
    exact ⟨st', d', M', by rw [hlk]; exact hr, (C06_unique _ n data steps₀ _ h₀ hg htf).symm⟩

/-! ## Non-vacuity (toy exact numbers `Nat`; the 4-observation matrix of `Props/C06.lean`) -/

section Example
attribute [local instance] Toy.natNum

/-- `d01=5 d02=9 d03=7 d12=8 d13=6 d23=1` is tie-free for complete linkage; all hypotheses hold, so
`primitive_with`, `nnchain_with` and `linkage_with` return exactly the reference run. -/
example :
    (∀ (chk : Bool) (st : State Nat) (d : Dendrogram Nat),
      ReturnsSteps (primitiveWith chk .complete st d #[5, 9, 7, 8, 6, 1] 4)
        [⟨2, 3, 1, 2⟩, ⟨0, 1, 5, 2⟩, ⟨4, 5, 9, 4⟩]) ∧
    (∀ (chk : Bool) (st : State Nat) (d : Dendrogram Nat),
      ReturnsSteps (linkageWith chk .complete st d #[5, 9, 7, 8, 6, 1] 4)
        [⟨2, 3, 1, 2⟩, ⟨0, 1, 5, 2⟩, ⟨4, 5, 9, 4⟩]) := by
  have h := C06_single_complete_agree Toy.natOrderLaws Toy.natTrichotomy (fun _ => rfl) .complete
    (Or.inr rfl) #[5, 9, 7, 8, 6, 1] 4 (by decide) (by decide) (by decide)
    [⟨2, 3, 1, 2⟩, ⟨0, 1, 5, 2⟩, ⟨4, 5, 9, 4⟩] (by decide) (by decide)
  exact ⟨h.1, h.2.2.2.2 rfl⟩

end Example

end Kodama
