/-
C07 (tie to the source) — fingerprints of the hand-modelled functions this property's theorems are about.

The model of these functions is written by hand and tied to the crate by the bit-exact correspondence
run, which is bounded by the sizes it generates.  `Generated/Bodies.lean` is re-emitted from /repo on
every run with a fingerprint of each function's NORMALISED body (comments, attributes, cfg(test) items
and whitespace removed; parameters and local bindings alpha-renamed; tools/extract_bodies.py); each
theorem below pins the fingerprint of the text the model was written against.  A theorem that no longer
checks names the function that was edited: the model may no longer describe it (for instance on sizes the
correspondence run does not reach), and `check` searches for a failing input.  Written by
tools/mk_source_snapshot.py — by hand, after the model has been brought up to date, never by a check.
-/
import Kodama.Generated.Bodies
namespace Kodama

theorem C07_source_primitive_primitive_with : Gen.bodyHash "primitive.rs::primitive_with" = some 761770269870546089 := by decide
theorem C07_source_primitive_argmin : Gen.bodyHash "primitive.rs::argmin" = some 1121607890787478695 := by decide
theorem C07_source_primitive_primitive : Gen.bodyHash "primitive.rs::primitive" = some 1103101677825009426 := by decide
theorem C07_source_condensed_CondensedMatrix_index : Gen.bodyHash "condensed.rs::CondensedMatrix::index" = some 830530491063850309 := by decide
theorem C07_source_condensed_CondensedMatrix_index_mut : Gen.bodyHash "condensed.rs::CondensedMatrix::index_mut" = some 382210323831302514 := by decide

end Kodama
