/-
C06 — all algorithms agree with each other and with a reference on tie-free inputs.

## Specification level (this section; the per-algorithm theorems `C06_agree …` are added below it)

Proved here, against the label-based specification `Kodama/Spec/Naive.lean` only (no algorithm
model is mentioned), for EVERY method `m`, every `n`, every input array `data` (any length, any
content, NaN included) and every number type `α`:

* `C06_unique_from`  from an arbitrary common state `s`: if `l₁` and `l₂` have the same length, both
                     are greedy runs from `s` (`GreedyFrom m s`) and `l₁` never meets a tie
                     (`TieFreeFrom m s l₁`: at every state of its replay the pair it merges is the
                     STRICT minimum over the live pairs), then `l₁ = l₂`.
* `C06_unique`       if `steps₁`, `steps₂` are both `GreedyValid m n data` and `steps₁` is tie-free,
                     then `steps₁ = steps₂` as lists of `Step α` — labels, sizes and heights.
* `C06_wellFormed`   every `GreedyValid m n data` step list is a well-formed stepwise dendrogram
                     (`Spec.WellFormed n`: `n-1` steps, smaller label first, labels `< n+i`, no label
                     merged twice, recorded size = sum of the sizes of the two members as given by
                     `Spec.sz`).

Number laws used: NONE.  `C06_unique` does not even need asymmetry of `<`: tie-freeness of run 1 says
`D(p₁) < D(p)` for every live pair `p ≠ p₁`, admissibility of run 2's step says `¬ D(p) < D(p₂)`
for every live pair `p`, in particular `p = p₁`; so `p₂ = p₁`, hence the same height
(`post m (D p₁)`), the same size, the same merged state, and induction.  Consequently the theorems
hold verbatim for IEEE `f32`/`f64` (`Num Float`, `Num Float32`) — what floats do not give is the
tie-freeness *hypothesis* being stable under rounding (the margin certificate of the oracle).

NOT proved here: that any algorithm of the crate returns a `GreedyValid` list (that is C03), hence
`C06_agree`; nothing about inputs with ties.
Trusted: nothing beyond the definitions in `Spec/Naive.lean`, `Spec/WellFormed.lean`.
-/
import Kodama.Lemmas.SpecUnique
import Kodama.Lemmas.SpecWellFormed
import Kodama.Lemmas.SpecDecide
import Kodama.Lemmas.FieldInstances
import Kodama.Props.C03
namespace Kodama
open Spec
variable {α : Type} [Num α]

/-! ## Specification level -/

theorem C06_unique_from (m : Method) (s : NState α) (l₁ l₂ : List (Step α))
    (hlen : l₁.length = l₂.length)
    (h₁ : GreedyFrom m s l₁) (h₂ : GreedyFrom m s l₂) (htf : TieFreeFrom m s l₁) : l₁ = l₂ :=
  greedyFrom_unique s l₁ l₂ hlen h₁ h₂ htf

theorem C06_unique (m : Method) (n : Nat) (data : Array α) (steps₁ steps₂ : List (Step α))
    (h₁ : GreedyValid m n data steps₁) (h₂ : GreedyValid m n data steps₂)
    (htf : TieFreeFrom m (init m n data) steps₁) : steps₁ = steps₂ :=
  greedyFrom_unique _ steps₁ steps₂ (h₁.1.trans h₂.1.symm) h₁.2 h₂.2 htf

theorem C06_wellFormed (m : Method) (n : Nat) (data : Array α) (steps : List (Step α))
    (h : GreedyValid m n data steps) : WellFormed n steps :=
  greedyValid_wellFormed h

/-! ### Non-vacuity: a concrete tie-free instance (4 observations, exact toy numbers) -/

section NonVacuity
attribute [local instance] Toy.natNum

/-- Condensed matrix `d01=5 d02=9 d03=7 d12=8 d13=6 d23=1`. -/
private def exData : Array Nat := #[5, 9, 7, 8, 6, 1]

private def exSingle : List (Step Nat) := [⟨2, 3, 1, 2⟩, ⟨0, 1, 5, 2⟩, ⟨4, 5, 6, 4⟩]
private def exComplete : List (Step Nat) := [⟨2, 3, 1, 2⟩, ⟨0, 1, 5, 2⟩, ⟨4, 5, 9, 4⟩]
/-- Average linkage with `Nat` division: `(1·9+1·7)/2 = 8`, `(1·8+1·6)/2 = 7`, `(1·8+1·7)/2 = 7`. -/
private def exAverage : List (Step Nat) := [⟨2, 3, 1, 2⟩, ⟨0, 1, 5, 2⟩, ⟨4, 5, 7, 4⟩]

example : GreedyValid .single 4 exData exSingle ∧
    TieFreeFrom .single (init .single 4 exData) exSingle := by decide
example : GreedyValid .complete 4 exData exComplete ∧
    TieFreeFrom .complete (init .complete 4 exData) exComplete := by decide
example : GreedyValid .average 4 exData exAverage ∧
    TieFreeFrom .average (init .average 4 exData) exAverage := by decide

/-- The hypotheses of `C06_unique` are satisfiable, and its conclusion then pins down every other
greedy-valid list. -/
example (steps₂ : List (Step Nat)) (h₂ : GreedyValid .single 4 exData steps₂) :
    exSingle = steps₂ :=
  C06_unique .single 4 exData exSingle steps₂ (by decide) h₂ (by decide)

/-- A greedy-valid list that is NOT tie-free (two pairs at distance 1): uniqueness genuinely needs
the hypothesis — both orders are greedy-valid. -/
example : GreedyValid .single 3 (#[1, 1, 3] : Array Nat) [⟨0, 1, 1, 2⟩, ⟨2, 3, 1, 3⟩] ∧
    GreedyValid .single 3 (#[1, 1, 3] : Array Nat) [⟨0, 2, 1, 2⟩, ⟨1, 3, 1, 3⟩] ∧
    ¬ TieFreeFrom .single (init .single 3 (#[1, 1, 3] : Array Nat)) [⟨0, 1, 1, 2⟩, ⟨2, 3, 1, 3⟩] := by
  decide

example : WellFormed 4 exSingle := C06_wellFormed .single 4 exData exSingle (by decide)

end NonVacuity

/-! ## EXACT ARITHMETIC: `primitive_with` agrees with every greedy-valid reference on tie-free
## input (appended section)

Scope.  Exact arithmetic ONLY: `K` a linearly ordered field whose `Num K` instance computes the field
operations and has no NaN (`ExactLaws K`, `Lemmas/FieldInstances.lean`: `fieldNum K`,
`fieldNumWith K sq`).  IEEE floats are not a field; the float gap is measured by the oracles.

Entry point: `primitive_with` (model `primitiveWith`), both build modes, every prior state, every
valid matrix `2 ≤ n < 2^31`, `2·len = n(n-1)`, all seven methods.

* `C06_primitive`         hypotheses: `steps₀` is ANY `GreedyValid m n data` step list (e.g. the
      output of an independently written naive clustering) and its run meets no tie
      (`TieFreeFrom m (init m n data) steps₀`).  Conclusion: `primitiveWith` returns normally and
      its steps ARE `steps₀` (labels, sizes and heights).  `C03_primitive_exact` + `C06_unique`.
* `C06_primitive_unique`  the tie-freeness hypothesis placed on the run of `primitiveWith`'s own
      output instead: then every greedy-valid list equals that output.
* `C06_primitive_modes`   consequently, on tie-free input, the returned steps do not depend on the
      build mode or on the prior state/dendrogram (both calls return `steps₀`).
* `C06_primitive_mst_statement`  NOT proved (a definition, nothing asserted): on tie-free input
      `mstWith` and `primitiveWith .single` return the same steps.  Blocked by: no theorem says the
      output of `mstWith` is `GreedyValid .single` (`C04_mst` proves the threshold characterisation
      directly, not through `GreedyValid`).  What composes instead is
      `C04_primitive_mst_same_cuts` (`Props/C04.lean`): the two outputs induce the same partition
      at every level.
-/

section primitive
variable {K : Type} [Field K] [LinearOrder K] [IsStrictOrderedRing K] [Num K]

/-- **C06 for `primitive_with`, exact arithmetic.**  On tie-free input the returned steps are the
steps of any greedy-valid dendrogram of the same matrix. -/
theorem C06_primitive (E : ExactLaws K) (chk : Bool) (m : Method) (st : State K)
    (d : Dendrogram K) (data : Array K) (n : Nat) (h2 : 2 ≤ n) (hs : n < 2147483648)
    (hl : 2 * data.size = n * (n - 1)) (steps₀ : List (Step K))
    (h₀ : GreedyValid m n data steps₀) (htf : TieFreeFrom m (init m n data) steps₀) :
    ∃ st' d' M', primitiveWith chk m st d data n = .ok (st', d', M') ∧
      d'.steps.toList = steps₀ := by
  obtain ⟨st', d', M', hrun, hg⟩ := C03_primitive_exact E chk m st d data n h2 hs hl
  exact ⟨st', d', M', hrun, (C06_unique m n data steps₀ _ h₀ hg htf).symm⟩

/-- The same with the tie-freeness hypothesis on the run of the returned steps. -/
theorem C06_primitive_unique (E : ExactLaws K) (chk : Bool) (m : Method) (st : State K)
    (d : Dendrogram K) (data : Array K) (n : Nat) (h2 : 2 ≤ n) (hs : n < 2147483648)
    (hl : 2 * data.size = n * (n - 1)) :
    ∃ st' d' M', primitiveWith chk m st d data n = .ok (st', d', M') ∧
      GreedyValid m n data d'.steps.toList ∧
      (TieFreeFrom m (init m n data) d'.steps.toList →
        ∀ steps₂ : List (Step K), GreedyValid m n data steps₂ → steps₂ = d'.steps.toList) := by
  obtain ⟨st', d', M', hrun, hg⟩ := C03_primitive_exact E chk m st d data n h2 hs hl
  exact ⟨st', d', M', hrun, hg, fun htf steps₂ h₂ => (C06_unique m n data _ steps₂ hg h₂ htf).symm⟩

/-- On tie-free input the returned steps depend neither on the build mode nor on the prior state. -/
theorem C06_primitive_modes (E : ExactLaws K) (chk₁ chk₂ : Bool) (m : Method) (st₁ st₂ : State K)
    (d₁ d₂ : Dendrogram K) (data : Array K) (n : Nat) (h2 : 2 ≤ n) (hs : n < 2147483648)
    (hl : 2 * data.size = n * (n - 1)) (steps₀ : List (Step K))
    (h₀ : GreedyValid m n data steps₀) (htf : TieFreeFrom m (init m n data) steps₀) :
    ∃ r₁ r₂, primitiveWith chk₁ m st₁ d₁ data n = .ok r₁ ∧
      primitiveWith chk₂ m st₂ d₂ data n = .ok r₂ ∧
      r₁.2.1.steps.toList = r₂.2.1.steps.toList := by
  obtain ⟨s1, e1, M1, hr1, he1⟩ := C06_primitive E chk₁ m st₁ d₁ data n h2 hs hl steps₀ h₀ htf
  obtain ⟨s2, e2, M2, hr2, he2⟩ := C06_primitive E chk₂ m st₂ d₂ data n h2 hs hl steps₀ h₀ htf
  exact ⟨_, _, hr1, hr2, he1.trans he2.symm⟩

end primitive

/-- NOT proved (nothing asserted): on tie-free input over an exact number type `mst_with` and
`primitive_with` with `Method::Single` return the same steps.  Missing ingredient: a theorem
"`mstWith`'s output is `GreedyValid .single n data`" (then `C06_unique` closes it). -/
def C06_primitive_mst_statement (K : Type) [Field K] [LinearOrder K] [Num K] : Prop :=
  ExactLaws K → ∀ (chk : Bool) (st : State K) (d : Dendrogram K) (data : Array K) (n : Nat),
    2 ≤ n → n < 2147483648 → 2 * data.size = n * (n - 1) →
    ∀ steps₀ : List (Step K), GreedyValid .single n data steps₀ →
      TieFreeFrom .single (init .single n data) steps₀ →
      ∀ st' d' M', mstWith chk st d data n = .ok (st', d', M') → d'.steps.toList = steps₀

/-! ### Non-vacuity over `ℚ` -/

section primitiveExample
@[reducible] private def qNum : Num ℚ := fieldNum ℚ
attribute [local instance] qNum

/-- `d01 = 5, d02 = 2, d12 = 9`. -/
private def exQ : Array ℚ := #[5, 2, 9]
private def exQSteps : List (Step ℚ) := [⟨0, 2, 2, 2⟩, ⟨1, 3, 5, 3⟩]

/-- All hypotheses of `C06_primitive` hold of a concrete rational instance (single linkage), so the
model returns exactly the hand-written reference run. -/
example : ∃ st' d' M',
    primitiveWith true .single State.new (Dendrogram.new 0) exQ 3 = .ok (st', d', M') ∧
    d'.steps.toList = exQSteps :=
  C06_primitive (exactLaws_fieldNum ℚ) true .single _ _ exQ 3 (by decide) (by decide) (by decide)
    exQSteps (by decide) (by decide)

end primitiveExample

end Kodama
