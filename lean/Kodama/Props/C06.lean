/-
C06 — all algorithms agree with each other and with a reference on tie-free inputs.

## Specification level (this section; the per-algorithm theorems `C06_agree …` are added below it)

Proved here, against the label-based specification `Kodama/Spec/Naive.lean` only (no algorithm
model is mentioned), for EVERY method `m`, every `n`, every input array `data` (any length, any
content, NaN included) and every number type `α`:

* `C06_unique_from`  from an arbitrary common state `s`: if `l₁` and `l₂` have the same length, both
                     are greedy runs from `s` (`GreedyFrom m s`) and `l₁` never meets a tie
                     (`TieFreeFrom m s l₁`: at every state of its replay the pair it merges is the
                     STRICT minimum over the live pairs), then `l₁ = l₂`.
* `C06_unique`       if `steps₁`, `steps₂` are both `GreedyValid m n data` and `steps₁` is tie-free,
                     then `steps₁ = steps₂` as lists of `Step α` — labels, sizes and heights.
* `C06_wellFormed`   every `GreedyValid m n data` step list is a well-formed stepwise dendrogram
                     (`Spec.WellFormed n`: `n-1` steps, smaller label first, labels `< n+i`, no label
                     merged twice, recorded size = sum of the sizes of the two members as given by
                     `Spec.sz`).

Number laws used: NONE.  `C06_unique` does not even need asymmetry of `<`: tie-freeness of run 1 says
`D(p₁) < D(p)` for every live pair `p ≠ p₁`, admissibility of run 2's step says `¬ D(p) < D(p₂)`
for every live pair `p`, in particular `p = p₁`; so `p₂ = p₁`, hence the same height
(`post m (D p₁)`), the same size, the same merged state, and induction.  Consequently the theorems
hold verbatim for IEEE `f32`/`f64` (`Num Float`, `Num Float32`) — what floats do not give is the
tie-freeness *hypothesis* being stable under rounding (the margin certificate of the oracle).

NOT proved here: that any algorithm of the crate returns a `GreedyValid` list (that is C03), hence
`C06_agree`; nothing about inputs with ties.
Trusted: nothing beyond the definitions in `Spec/Naive.lean`, `Spec/WellFormed.lean`.
-/
import Kodama.Lemmas.SpecUnique
import Kodama.Lemmas.SpecWellFormed
import Kodama.Lemmas.SpecDecide
namespace Kodama
open Spec
variable {α : Type} [Num α]

/-! ## Specification level -/

theorem C06_unique_from (m : Method) (s : NState α) (l₁ l₂ : List (Step α))
    (hlen : l₁.length = l₂.length)
    (h₁ : GreedyFrom m s l₁) (h₂ : GreedyFrom m s l₂) (htf : TieFreeFrom m s l₁) : l₁ = l₂ :=
  greedyFrom_unique s l₁ l₂ hlen h₁ h₂ htf

theorem C06_unique (m : Method) (n : Nat) (data : Array α) (steps₁ steps₂ : List (Step α))
    (h₁ : GreedyValid m n data steps₁) (h₂ : GreedyValid m n data steps₂)
    (htf : TieFreeFrom m (init m n data) steps₁) : steps₁ = steps₂ :=
  greedyFrom_unique _ steps₁ steps₂ (h₁.1.trans h₂.1.symm) h₁.2 h₂.2 htf

theorem C06_wellFormed (m : Method) (n : Nat) (data : Array α) (steps : List (Step α))
    (h : GreedyValid m n data steps) : WellFormed n steps :=
  greedyValid_wellFormed h

/-! ### Non-vacuity: a concrete tie-free instance (4 observations, exact toy numbers) -/

section NonVacuity
attribute [local instance] Toy.natNum

/-- Condensed matrix `d01=5 d02=9 d03=7 d12=8 d13=6 d23=1`. -/
private def exData : Array Nat := #[5, 9, 7, 8, 6, 1]

private def exSingle : List (Step Nat) := [⟨2, 3, 1, 2⟩, ⟨0, 1, 5, 2⟩, ⟨4, 5, 6, 4⟩]
private def exComplete : List (Step Nat) := [⟨2, 3, 1, 2⟩, ⟨0, 1, 5, 2⟩, ⟨4, 5, 9, 4⟩]
/-- Average linkage with `Nat` division: `(1·9+1·7)/2 = 8`, `(1·8+1·6)/2 = 7`, `(1·8+1·7)/2 = 7`. -/
private def exAverage : List (Step Nat) := [⟨2, 3, 1, 2⟩, ⟨0, 1, 5, 2⟩, ⟨4, 5, 7, 4⟩]

example : GreedyValid .single 4 exData exSingle ∧
    TieFreeFrom .single (init .single 4 exData) exSingle := by decide
example : GreedyValid .complete 4 exData exComplete ∧
    TieFreeFrom .complete (init .complete 4 exData) exComplete := by decide
example : GreedyValid .average 4 exData exAverage ∧
    TieFreeFrom .average (init .average 4 exData) exAverage := by decide

/-- The hypotheses of `C06_unique` are satisfiable, and its conclusion then pins down every other
greedy-valid list. -/
example (steps₂ : List (Step Nat)) (h₂ : GreedyValid .single 4 exData steps₂) :
    exSingle = steps₂ :=
  C06_unique .single 4 exData exSingle steps₂ (by decide) h₂ (by decide)

/-- A greedy-valid list that is NOT tie-free (two pairs at distance 1): uniqueness genuinely needs
the hypothesis — both orders are greedy-valid. -/
example : GreedyValid .single 3 (#[1, 1, 3] : Array Nat) [⟨0, 1, 1, 2⟩, ⟨2, 3, 1, 3⟩] ∧
    GreedyValid .single 3 (#[1, 1, 3] : Array Nat) [⟨0, 2, 1, 2⟩, ⟨1, 3, 1, 3⟩] ∧
    ¬ TieFreeFrom .single (init .single 3 (#[1, 1, 3] : Array Nat)) [⟨0, 1, 1, 2⟩, ⟨2, 3, 1, 3⟩] := by
  decide

example : WellFormed 4 exSingle := C06_wellFormed .single 4 exData exSingle (by decide)

end NonVacuity

end Kodama
