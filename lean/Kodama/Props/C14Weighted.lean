/-
C14 (work bound: number of condensed-index computations) for WEIGHTED linkage through `nnchain_with` /
`linkage_with`, for every ordered number type whose `+` and `½·` satisfy `HalfAddLaws` on a domain `ok`
that contains the input.

`C14_nnchain` / `C14_linkage` need `ChainReducible α .weighted`, a statement about ALL non-NaN values,
false for IEEE floats through overflow (`a = b = t = −max_value`) and `∞ + (−∞)` only — NOT through
rounding as several older headers say.  On a domain `ok` on which the textbook laws `HalfAddLaws α ok`
hold (`Lemmas/WeightedMono.lean`) the weighted update is reducible (`chainReducibleOn_weighted`) and
the chain invariant — including the potential `acc + 7·ℓ(ℓ+1) ≤ 7·n(n+1) + 2·ℓ·chain.size` — goes
through with "every live matrix entry is `ok`" as an extra invariant (`Lemmas/ChainOn.lean`).

Proved here, for every valid matrix (2 ≤ n < 2^31, 2·len = n(n−1)), both build modes, every prior state,
whenever the call returns `(st', d', M')` (it does: `C12_nnchain_weighted_ok`):

* `C14_nnchain_tight_on`        (any chain method, any domain) under `ChainReducibleOn α ok mc`;
* `C14_nnchain_weighted_tight`  at most `7·n(n+1) − 10` index computations;
* `C14_nnchain_weighted`        hence `≤ 10 n² + 50 n`;
* `C14_linkage_weighted`        the same through `linkageWith chk .weighted`.

Hypotheses (explicit): `OrderLaws α` (true of IEEE `<`), `NoNaNData data`, `OkData ok data`,
`HalfAddLaws α ok`.

TRUSTED, not proved: `HalfAddLaws` for IEEE `f32`/`f64` on `ok := moderate` — sampled by `kodama-laws`
(`check_HalfAddLaws_*`), no counterexample; see the header of `Props/C01Weighted.lean`.  PROVED for
exact arithmetic (`halfAddLaws_of_fieldLaws`).

Ward (reducible since the second `fix:` commit of the crate, from `OrderLaws` alone): `Props/C14Ward.lean`.
-/
import Kodama.Props.C14
import Kodama.Props.C12Weighted
namespace Kodama
open Spec
variable {α : Type} [Num α]

/-- The bound the potential argument gives, for a method that is reducible on a domain containing the
(squared) input.  `C14_nnchain_tight` is the case `ok := fun _ => True`. -/
theorem C14_nnchain_tight_on (L : OrderLaws α) (chk : Bool) (mc : MethodChain) (ok : α → Prop)
    (hred : ChainReducibleOn α ok mc)
    (st st' : State α) (d d' : Dendrogram α) (data : Array α) (n : Nat) (M' : Mat α)
    (h2 : 2 ≤ n) (hs : n < 2147483648) (hl : 2 * data.size = n * (n - 1))
    (hnan : NoNaNData (squareData mc.intoMethod data))
    (hd : OkData ok (squareData mc.intoMethod data))
    (h : nnchainWith chk mc st d data n = .ok (st', d', M')) :
    M'.acc + 10 ≤ 7 * (n * (n + 1)) := by
  obtain ⟨s1, hres, heq⟩ := nnchainWith_eq_on L chk mc ok hred st d data n h2 hs hl hnan hd
  rw [heq] at h
  obtain ⟨r, _, hr⟩ := bind_ok.mp h
  simp only [pure_ok, Prod.mk.injEq] at hr
  rw [← hr.2.2]
  exact hres.acc

theorem C14_nnchain_weighted_tight (L : OrderLaws α) (ok : α → Prop) (H : HalfAddLaws α ok)
    (chk : Bool) (st st' : State α) (d d' : Dendrogram α) (data : Array α) (n : Nat) (M' : Mat α)
    (h2 : 2 ≤ n) (hs : n < 2147483648) (hl : 2 * data.size = n * (n - 1))
    (hnan : NoNaNData data) (hd : OkData ok data)
    (h : nnchainWith chk .weighted st d data n = .ok (st', d', M')) :
    M'.acc + 10 ≤ 7 * (n * (n + 1)) :=
  C14_nnchain_tight_on L chk .weighted ok (chainReducibleOn_weighted L H) st st' d d' data n M' h2 hs
    hl (by rw [squareData_weighted]; exact hnan) (by rw [squareData_weighted]; exact hd) h

/-- **C14, weighted linkage through `nnchain_with`.** -/
theorem C14_nnchain_weighted (L : OrderLaws α) (ok : α → Prop) (H : HalfAddLaws α ok)
    (chk : Bool) (st st' : State α) (d d' : Dendrogram α) (data : Array α) (n : Nat) (M' : Mat α)
    (h2 : 2 ≤ n) (hs : n < 2147483648) (hl : 2 * data.size = n * (n - 1))
    (hnan : NoNaNData data) (hd : OkData ok data)
    (h : nnchainWith chk .weighted st d data n = .ok (st', d', M')) :
    M'.acc ≤ 10 * (n * n) + 50 * n := by
  have := C14_nnchain_weighted_tight L ok H chk st st' d d' data n M' h2 hs hl hnan hd h
  have e : n * (n + 1) = n * n + n := by rw [Nat.mul_add, Nat.mul_one]
  rw [e] at this
  omega

/-- **C14, weighted linkage through `linkage_with`** (dispatched to `nnchain_with`). -/
theorem C14_linkage_weighted (L : OrderLaws α) (ok : α → Prop) (H : HalfAddLaws α ok)
    (chk : Bool) (st st' : State α) (d d' : Dendrogram α) (data : Array α) (n : Nat) (M' : Mat α)
    (h2 : 2 ≤ n) (hs : n < 2147483648) (hl : 2 * data.size = n * (n - 1))
    (hnan : NoNaNData data) (hd : OkData ok data)
    (h : linkageWith chk .weighted st d data n = .ok (st', d', M')) :
    M'.acc ≤ 10 * (n * n) + 50 * n := by
  rw [linkageWith_nnchain chk .weighted .weighted (by decide) rfl] at h
  exact C14_nnchain_weighted L ok H chk st st' d d' data n M' h2 hs hl hnan hd h

/-! ### Non-vacuity (ℚ with its field operations, a valid 4-point matrix, the domain `0 ≤ ·`) -/

section NonVacuity
attribute [local instance] fieldNum

example (st' : State ℚ) (d' : Dendrogram ℚ) (M' : Mat ℚ)
    (h : nnchainWith true .weighted State.new (Dendrogram.new 4)
      (#[5, 2, 9, 7, 4, 1] : Array ℚ) 4 = .ok (st', d', M')) :
    M'.acc ≤ 10 * (4 * 4) + 50 * 4 :=
  C14_nnchain_weighted Toy.ratOrderLaws _ Toy.ratHalfAddLaws true _ st' _ d' _ 4 M'
    (by decide) (by decide) (by decide) (fun _ _ => rfl) Toy.ratOkData h

end NonVacuity

end Kodama
