/-
C19 (tie to the source) — fingerprints of the hand-modelled functions this property's theorems are about.

The model of these functions is written by hand and tied to the crate by the bit-exact correspondence
run, which is bounded by the sizes it generates.  `Generated/Bodies.lean` is re-emitted from /repo on
every run with a fingerprint of each function's NORMALISED body (comments, attributes, cfg(test) items
and whitespace removed; parameters and local bindings alpha-renamed; tools/extract_bodies.py); each
theorem below pins the fingerprint of the text the model was written against.  A theorem that no longer
checks names the function that was edited: the model may no longer describe it (for instance on sizes the
correspondence run does not reach), and `check` searches for a failing input.  Written by
tools/mk_source_snapshot.py — by hand, after the model has been brought up to date, never by a check.
-/
import Kodama.Generated.Bodies
namespace Kodama

theorem C19_source_dendrogram_Dendrogram_new : Gen.bodyHash "dendrogram.rs::Dendrogram::new" = some 881231569632461823 := by decide
theorem C19_source_dendrogram_Dendrogram_push : Gen.bodyHash "dendrogram.rs::Dendrogram::push" = some 1068277134546096908 := by decide
theorem C19_source_dendrogram_Dendrogram_len : Gen.bodyHash "dendrogram.rs::Dendrogram::len" = some 576102335745201653 := by decide
theorem C19_source_dendrogram_Dendrogram_is_empty : Gen.bodyHash "dendrogram.rs::Dendrogram::is_empty" = some 762393176365876312 := by decide
theorem C19_source_dendrogram_Dendrogram_observations : Gen.bodyHash "dendrogram.rs::Dendrogram::observations" = some 590533105440475782 := by decide
theorem C19_source_dendrogram_Dendrogram_cluster_size : Gen.bodyHash "dendrogram.rs::Dendrogram::cluster_size" = some 36394306766873447 := by decide
theorem C19_source_dendrogram_Dendrogram_eq_with_epsilon : Gen.bodyHash "dendrogram.rs::Dendrogram::eq_with_epsilon" = some 380150401863318009 := by decide
theorem C19_source_dendrogram_Step_new : Gen.bodyHash "dendrogram.rs::Step::new" = some 890580594722173371 := by decide
theorem C19_source_dendrogram_Step_set_clusters : Gen.bodyHash "dendrogram.rs::Step::set_clusters" = some 888573702486550835 := by decide
theorem C19_source_dendrogram_Step_eq_with_epsilon : Gen.bodyHash "dendrogram.rs::Step::eq_with_epsilon" = some 240740203726954700 := by decide

end Kodama
