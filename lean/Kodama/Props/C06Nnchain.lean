/-
C06 for `nnchain_with` (and `linkage_with` with complete / average / weighted / Ward): on tie-free
input the nearest-neighbour-chain algorithm returns THE greedy-valid dendrogram, hence agrees with
every greedy-valid reference and with `primitive_with`.

Scope.  EXACT ARITHMETIC ONLY: `K` a linearly ordered field whose `Num K` instance computes the field
operations and has no NaN (`ExactLaws K`: `fieldNum K`, `fieldNumWith K sq`).  IEEE floats are not a
field, and reducibility of the weighted update is false under rounding (for the clamped average / Ward
updates of the repaired crate it follows from `OrderLaws`, `Lemmas/ChainIter.lean`, but the theorems
of this file are stated against `ExactLaws` all the same); the float
claim rests on the bit-exact correspondence run and the greedy-replay oracle.  Entry point
`nnchain_with` (model `nnchainWith`), both build modes, every prior state, every valid matrix
`2 ≤ n < 2^31`, `2·len = n(n−1)`, all five chain methods.

* `C06_nnchain`         `steps₀` ANY `GreedyValid` list whose run meets no tie ⇒ `nnchainWith` returns
                        exactly `steps₀` (labels, sizes, heights).  `C03_nnchain_exact` + `C06_unique`.
* `C06_nnchain_unique`  tie-freeness placed on the run of the returned steps instead.
* `C06_nnchain_agree`   `nnchainWith mc` and `primitiveWith mc.intoMethod` both return, both are
                        greedy-valid, and if the run of either output is tie-free they return the SAME
                        steps (with ties two greedy runs may legitimately differ).
* `C06_nnchain_modes`   on tie-free input the result depends neither on the build mode nor on the
                        prior state.
* `C06_linkage_nnchain` the same through `linkageWith` for complete / average / weighted / Ward.
-/
import Kodama.Props.C03Nnchain
import Kodama.Props.C06
namespace Kodama
open Spec
variable {K : Type} [Field K] [LinearOrder K] [IsStrictOrderedRing K] [Num K]

/-- **C06 for `nnchain_with`, exact arithmetic.**  On tie-free input the returned steps are the steps
of any greedy-valid dendrogram of the same matrix. -/
theorem C06_nnchain (E : ExactLaws K) (chk : Bool) (mc : MethodChain) (st : State K)
    (d : Dendrogram K) (data : Array K) (n : Nat) (h2 : 2 ≤ n) (hs : n < 2147483648)
    (hl : 2 * data.size = n * (n - 1)) (steps₀ : List (Step K))
    (h₀ : GreedyValid mc.intoMethod n data steps₀)
    (htf : TieFreeFrom mc.intoMethod (init mc.intoMethod n data) steps₀) :
    ∃ st' d' M', nnchainWith chk mc st d data n = .ok (st', d', M') ∧
      d'.steps.toList = steps₀ := by
  obtain ⟨st', d', M', hrun, hg⟩ := C03_nnchain_exact E chk mc st d data n h2 hs hl
  exact ⟨st', d', M', hrun, (C06_unique mc.intoMethod n data steps₀ _ h₀ hg htf).symm⟩

/-- The same with the tie-freeness hypothesis on the run of the returned steps. -/
theorem C06_nnchain_unique (E : ExactLaws K) (chk : Bool) (mc : MethodChain) (st : State K)
    (d : Dendrogram K) (data : Array K) (n : Nat) (h2 : 2 ≤ n) (hs : n < 2147483648)
    (hl : 2 * data.size = n * (n - 1)) :
    ∃ st' d' M', nnchainWith chk mc st d data n = .ok (st', d', M') ∧
      GreedyValid mc.intoMethod n data d'.steps.toList ∧
      (TieFreeFrom mc.intoMethod (init mc.intoMethod n data) d'.steps.toList →
        ∀ steps₂ : List (Step K), GreedyValid mc.intoMethod n data steps₂ →
          steps₂ = d'.steps.toList) := by
  obtain ⟨st', d', M', hrun, hg⟩ := C03_nnchain_exact E chk mc st d data n h2 hs hl
  exact ⟨st', d', M', hrun, hg,
    fun htf steps₂ h₂ => (C06_unique mc.intoMethod n data _ steps₂ hg h₂ htf).symm⟩

/-- **`nnchain_with` and `primitive_with` agree on tie-free input** (exact arithmetic): both return
greedy-valid dendrograms, and when the run of either one meets no tie the two step lists are equal. -/
theorem C06_nnchain_agree (E : ExactLaws K) (chk₁ chk₂ : Bool) (mc : MethodChain)
    (st₁ st₂ : State K) (d₁ d₂ : Dendrogram K) (data : Array K) (n : Nat) (h2 : 2 ≤ n)
    (hs : n < 2147483648) (hl : 2 * data.size = n * (n - 1)) :
    ∃ s₁ e₁ M₁ s₂ e₂ M₂,
      nnchainWith chk₁ mc st₁ d₁ data n = .ok (s₁, e₁, M₁) ∧
      primitiveWith chk₂ mc.intoMethod st₂ d₂ data n = .ok (s₂, e₂, M₂) ∧
      GreedyValid mc.intoMethod n data e₁.steps.toList ∧
      GreedyValid mc.intoMethod n data e₂.steps.toList ∧
      (TieFreeFrom mc.intoMethod (init mc.intoMethod n data) e₁.steps.toList ∨
        TieFreeFrom mc.intoMethod (init mc.intoMethod n data) e₂.steps.toList →
        e₁.steps.toList = e₂.steps.toList) := by
  obtain ⟨s₁, e₁, M₁, hr₁, hg₁⟩ := C03_nnchain_exact E chk₁ mc st₁ d₁ data n h2 hs hl
  obtain ⟨s₂, e₂, M₂, hr₂, hg₂⟩ := C03_primitive_exact E chk₂ mc.intoMethod st₂ d₂ data n h2 hs hl
  refine ⟨s₁, e₁, M₁, s₂, e₂, M₂, hr₁, hr₂, hg₁, hg₂, ?_⟩
  rintro (ht | ht)
  · exact C06_unique mc.intoMethod n data _ _ hg₁ hg₂ ht
  · exact (C06_unique mc.intoMethod n data _ _ hg₂ hg₁ ht).symm

/-- On tie-free input the returned steps depend neither on the build mode nor on the prior state. -/
theorem C06_nnchain_modes (E : ExactLaws K) (chk₁ chk₂ : Bool) (mc : MethodChain)
    (st₁ st₂ : State K) (d₁ d₂ : Dendrogram K) (data : Array K) (n : Nat) (h2 : 2 ≤ n)
    (hs : n < 2147483648) (hl : 2 * data.size = n * (n - 1)) (steps₀ : List (Step K))
    (h₀ : GreedyValid mc.intoMethod n data steps₀)
    (htf : TieFreeFrom mc.intoMethod (init mc.intoMethod n data) steps₀) :
    ∃ r₁ r₂, nnchainWith chk₁ mc st₁ d₁ data n = .ok r₁ ∧
      nnchainWith chk₂ mc st₂ d₂ data n = .ok r₂ ∧
      r₁.2.1.steps.toList = r₂.2.1.steps.toList := by
  obtain ⟨s1, e1, M1, hr1, he1⟩ := C06_nnchain E chk₁ mc st₁ d₁ data n h2 hs hl steps₀ h₀ htf
  obtain ⟨s2, e2, M2, hr2, he2⟩ := C06_nnchain E chk₂ mc st₂ d₂ data n h2 hs hl steps₀ h₀ htf
  exact ⟨_, _, hr1, hr2, he1.trans he2.symm⟩

/-- `C06_nnchain` through `linkage_with` (complete / average / weighted / Ward). -/
theorem C06_linkage_nnchain (E : ExactLaws K) (chk : Bool) (mc : MethodChain) (hm : mc ≠ .single)
    (st : State K) (d : Dendrogram K) (data : Array K) (n : Nat) (h2 : 2 ≤ n)
    (hs : n < 2147483648) (hl : 2 * data.size = n * (n - 1)) (steps₀ : List (Step K))
    (h₀ : GreedyValid mc.intoMethod n data steps₀)
    (htf : TieFreeFrom mc.intoMethod (init mc.intoMethod n data) steps₀) :
    ∃ st' d' M', linkageWith chk mc.intoMethod st d data n = .ok (st', d', M') ∧
      d'.steps.toList = steps₀ := by
  rw [linkageWith_eq_nnchainWith chk mc hm]
  exact C06_nnchain E chk mc st d data n h2 hs hl steps₀ h₀ htf

/-! ### Non-vacuity over `ℚ` -/

section Example
@[reducible] private def qNum : Num ℚ := fieldNum ℚ
attribute [local instance] qNum

/-- `d01 = 5, d02 = 2, d12 = 9`, complete linkage: the model returns the hand-written reference. -/
example : ∃ st' d' M',
    nnchainWith true .complete State.new (Dendrogram.new 0) (#[5, 2, 9] : Array ℚ) 3
      = .ok (st', d', M') ∧
    d'.steps.toList = [⟨0, 2, 2, 2⟩, ⟨1, 3, 9, 3⟩] :=
  C06_nnchain (exactLaws_fieldNum ℚ) true .complete _ _ _ 3 (by decide) (by decide) (by decide)
    [⟨0, 2, 2, 2⟩, ⟨1, 3, 9, 3⟩] (by decide) (by decide)

end Example

end Kodama
