/-
C06 — ALL algorithms agree with each other and with any reference on tie-free input: the
exact-arithmetic statement of the property, for all five entry points at once.

## Scope
EXACT ARITHMETIC ONLY: `K` a linearly ordered field whose `Num K` instance computes the field
operations and has no NaN (`ExactLaws K`).  IEEE floats are not a field; tie-freeness is moreover not
stable under rounding (the float claim rests on the margin certificate of the oracle and on the
bit-exact correspondence runs — measured, not proved).  Every build mode, every prior
`LinkageState`/`Dendrogram`, every valid matrix `2 ≤ n < 2^31`, `2·len = n(n−1)`.

## Main theorem
`C06_all_agree`: let `steps₀` be ANY greedy-valid dendrogram of the matrix for method `m`
(`Spec.GreedyValid m n data steps₀`, e.g. the output of an independently written naive clustering)
whose run meets no tie (`Spec.TieFreeFrom m (init m n data) steps₀`: at every state of the replay the
merged pair is the STRICT minimum over the live pairs).  Then, for all build modes and prior states
(`ReturnsSteps r steps₀` := `r` is `.ok` and its dendrogram's step list is exactly `steps₀` — labels,
heights and sizes):
  1. `primitiveWith chk m …`  returns `steps₀`                         — no further hypothesis;
  2. `nnchainWith chk mc …`   returns `steps₀` for the chain method `mc` with `mc.intoMethod = m`
                              (single, complete, average, weighted, Ward)  — no further hypothesis;
  3. `mstWith chk …`          returns `steps₀` when `m = single`           — hypothesis `InfSafe n data`;
  4. `genericWith chk m …`    returns `steps₀`          — hypotheses `BeqExact K`, `GenericSafe m data`;
  5. `linkageWith chk m …`    returns `steps₀`          — `InfSafe n data` if routed to mst (single),
                              `BeqExact K ∧ GenericSafe m data` if routed to generic (centroid, median),
                              nothing for complete / average / weighted / Ward.
Hence any two of these calls return the same steps.  With ties two greedy runs may legitimately
differ, so nothing is claimed without the tie-freeness hypothesis.

The three extra hypotheses are exactly what `ExactLaws` leaves unconstrained (`Lemmas/ComposeExact.lean`):
`BeqExact K` (`==` is equality), `GenericSafe m data` (a set of values below `T::max_value()`, closed
under the update of `m`, containing the (squared) input — for single/complete/average/weighted it
follows from "all entries `< max_value`", `genericSafe_of_lt_max`; for Ward/centroid/median see the
limitation in `Props/C03Generic.lean`: over an Archimedean field it is satisfiable only by constant /
all-zero matrices), `InfSafe n data` (no entry above `T::infinity()`).

## Other theorems
* `C06_generic`, `C06_generic_unique`   `generic_with` against a tie-free reference / tie-freeness on
                                        the run of the output itself.
* `C06_generic_agree`                   `genericWith` and `primitiveWith` both return greedy-valid
                                        dendrograms, equal as soon as the run of either is tie-free.
* `C06_generic_modes`                   on tie-free input the result of `generic_with` depends neither
                                        on the build mode nor on the prior state.
* `C06_linkage`, `C06_linkage_modes`    the same through `linkage_with`, all seven methods.
All are `C03_*_exact` (`Props/C03*.lean`) + `C06_unique` (`Props/C06.lean`).

## NOT proved
Anything about inputs with ties; anything about floats; `GenericSafe` for Ward/centroid/median from a
bound on the input (see `Props/C03Generic.lean`).
Trusted: `Spec/Naive.lean`, `Spec/Pairs.lean`; model = Rust (translator + correspondence runs).
-/
import Kodama.Props.C03Generic
import Kodama.Props.C06
import Kodama.Props.C06Mst
import Kodama.Props.C06Nnchain
namespace Kodama
open Spec
variable {K : Type} [Field K] [LinearOrder K] [IsStrictOrderedRing K] [Num K]

/-- **C06 for `generic_with`, exact arithmetic.**  On tie-free input the returned steps are the steps
of any greedy-valid dendrogram of the same matrix. -/
theorem C06_generic (E : ExactLaws K) (B : BeqExact K) (chk : Bool) (m : Method) (st : State K)
    (d : Dendrogram K) (data : Array K) (n : Nat) (h2 : 2 ≤ n) (hs : n < 2147483648)
    (hl : 2 * data.size = n * (n - 1)) (S : GenericSafe m data) (steps₀ : List (Step K))
    (h₀ : GreedyValid m n data steps₀) (htf : TieFreeFrom m (init m n data) steps₀) :
    ∃ st' d' M', genericWith chk m st d data n = .ok (st', d', M') ∧
      d'.steps.toList = steps₀ := by
  obtain ⟨st', d', M', hrun, hg⟩ := C03_generic_exact E B chk m st d data n h2 hs hl S
  exact ⟨st', d', M', hrun, (C06_unique m n data steps₀ _ h₀ hg htf).symm⟩

/-- The same with the tie-freeness hypothesis on the run of the returned steps. -/
theorem C06_generic_unique (E : ExactLaws K) (B : BeqExact K) (chk : Bool) (m : Method)
    (st : State K) (d : Dendrogram K) (data : Array K) (n : Nat) (h2 : 2 ≤ n) (hs : n < 2147483648)
    (hl : 2 * data.size = n * (n - 1)) (S : GenericSafe m data) :
    ∃ st' d' M', genericWith chk m st d data n = .ok (st', d', M') ∧
      GreedyValid m n data d'.steps.toList ∧
      (TieFreeFrom m (init m n data) d'.steps.toList →
        ∀ steps₂ : List (Step K), GreedyValid m n data steps₂ → steps₂ = d'.steps.toList) := by
  obtain ⟨st', d', M', hrun, hg⟩ := C03_generic_exact E B chk m st d data n h2 hs hl S
  exact ⟨st', d', M', hrun, hg, fun htf steps₂ h₂ => (C06_unique m n data _ steps₂ hg h₂ htf).symm⟩

/-- **`generic_with` and `primitive_with` agree on tie-free input** (exact arithmetic): both return
greedy-valid dendrograms, and when the run of either one meets no tie the two step lists are equal. -/
theorem C06_generic_agree (E : ExactLaws K) (B : BeqExact K) (chk₁ chk₂ : Bool) (m : Method)
    (st₁ st₂ : State K) (d₁ d₂ : Dendrogram K) (data : Array K) (n : Nat) (h2 : 2 ≤ n)
    (hs : n < 2147483648) (hl : 2 * data.size = n * (n - 1)) (S : GenericSafe m data) :
    ∃ s₁ e₁ M₁ s₂ e₂ M₂,
      genericWith chk₁ m st₁ d₁ data n = .ok (s₁, e₁, M₁) ∧
      primitiveWith chk₂ m st₂ d₂ data n = .ok (s₂, e₂, M₂) ∧
      GreedyValid m n data e₁.steps.toList ∧
      GreedyValid m n data e₂.steps.toList ∧
      (TieFreeFrom m (init m n data) e₁.steps.toList ∨
        TieFreeFrom m (init m n data) e₂.steps.toList →
        e₁.steps.toList = e₂.steps.toList) := by
  obtain ⟨s₁, e₁, M₁, hr₁, hg₁⟩ := C03_generic_exact E B chk₁ m st₁ d₁ data n h2 hs hl S
  obtain ⟨s₂, e₂, M₂, hr₂, hg₂⟩ := C03_primitive_exact E chk₂ m st₂ d₂ data n h2 hs hl
  refine ⟨s₁, e₁, M₁, s₂, e₂, M₂, hr₁, hr₂, hg₁, hg₂, ?_⟩
  rintro (ht | ht)
  · exact C06_unique m n data _ _ hg₁ hg₂ ht
  · exact (C06_unique m n data _ _ hg₂ hg₁ ht).symm

/-- On tie-free input the steps returned by `generic_with` depend neither on the build mode nor on
the prior state. -/
theorem C06_generic_modes (E : ExactLaws K) (B : BeqExact K) (chk₁ chk₂ : Bool) (m : Method)
    (st₁ st₂ : State K) (d₁ d₂ : Dendrogram K) (data : Array K) (n : Nat) (h2 : 2 ≤ n)
    (hs : n < 2147483648) (hl : 2 * data.size = n * (n - 1)) (S : GenericSafe m data)
    (steps₀ : List (Step K)) (h₀ : GreedyValid m n data steps₀)
    (htf : TieFreeFrom m (init m n data) steps₀) :
    ∃ r₁ r₂, genericWith chk₁ m st₁ d₁ data n = .ok r₁ ∧
      genericWith chk₂ m st₂ d₂ data n = .ok r₂ ∧
      r₁.2.1.steps.toList = r₂.2.1.steps.toList := by
  obtain ⟨s1, e1, M1, hr1, he1⟩ := C06_generic E B chk₁ m st₁ d₁ data n h2 hs hl S steps₀ h₀ htf
  obtain ⟨s2, e2, M2, hr2, he2⟩ := C06_generic E B chk₂ m st₂ d₂ data n h2 hs hl S steps₀ h₀ htf
  exact ⟨_, _, hr1, hr2, he1.trans he2.symm⟩

/-- **C06 for `linkage_with`, exact arithmetic, all seven methods.** -/
theorem C06_linkage (E : ExactLaws K) (chk : Bool) (m : Method) (st : State K)
    (d : Dendrogram K) (data : Array K) (n : Nat) (h2 : 2 ≤ n) (hs : n < 2147483648)
    (hl : 2 * data.size = n * (n - 1))
    (hinf : dispatch m = .mst → InfSafe n data)
    (hgen : dispatch m = .generic → BeqExact K ∧ GenericSafe m data)
    (steps₀ : List (Step K)) (h₀ : GreedyValid m n data steps₀)
    (htf : TieFreeFrom m (init m n data) steps₀) :
    ∃ st' d' M', linkageWith chk m st d data n = .ok (st', d', M') ∧
      d'.steps.toList = steps₀ := by
  obtain ⟨st', d', M', hrun, hg⟩ := C03_linkage_exact E chk m st d data n h2 hs hl hinf hgen
  exact ⟨st', d', M', hrun, (C06_unique m n data steps₀ _ h₀ hg htf).symm⟩

/-- On tie-free input the steps returned by `linkage_with` depend neither on the build mode nor on
the prior state. -/
theorem C06_linkage_modes (E : ExactLaws K) (chk₁ chk₂ : Bool) (m : Method)
    (st₁ st₂ : State K) (d₁ d₂ : Dendrogram K) (data : Array K) (n : Nat) (h2 : 2 ≤ n)
    (hs : n < 2147483648) (hl : 2 * data.size = n * (n - 1))
    (hinf : dispatch m = .mst → InfSafe n data)
    (hgen : dispatch m = .generic → BeqExact K ∧ GenericSafe m data)
    (steps₀ : List (Step K)) (h₀ : GreedyValid m n data steps₀)
    (htf : TieFreeFrom m (init m n data) steps₀) :
    ∃ r₁ r₂, linkageWith chk₁ m st₁ d₁ data n = .ok r₁ ∧
      linkageWith chk₂ m st₂ d₂ data n = .ok r₂ ∧
      r₁.2.1.steps.toList = r₂.2.1.steps.toList := by
  obtain ⟨s1, e1, M1, hr1, he1⟩ :=
    C06_linkage E chk₁ m st₁ d₁ data n h2 hs hl hinf hgen steps₀ h₀ htf
  obtain ⟨s2, e2, M2, hr2, he2⟩ :=
    C06_linkage E chk₂ m st₂ d₂ data n h2 hs hl hinf hgen steps₀ h₀ htf
  exact ⟨_, _, hr1, hr2, he1.trans he2.symm⟩

/-- **C06, exact arithmetic: every entry point returns the tie-free greedy-valid reference.** -/
theorem C06_all_agree (E : ExactLaws K) (m : Method) (data : Array K) (n : Nat) (h2 : 2 ≤ n)
    (hs : n < 2147483648) (hl : 2 * data.size = n * (n - 1)) (steps₀ : List (Step K))
    (h₀ : GreedyValid m n data steps₀) (htf : TieFreeFrom m (init m n data) steps₀) :
    (∀ (chk : Bool) (st : State K) (d : Dendrogram K),
      ReturnsSteps (primitiveWith chk m st d data n) steps₀) ∧
    (∀ mc : MethodChain, mc.intoMethod = m → ∀ (chk : Bool) (st : State K) (d : Dendrogram K),
      ReturnsSteps (nnchainWith chk mc st d data n) steps₀) ∧
    (m = .single → InfSafe n data → ∀ (chk : Bool) (st : State K) (d : Dendrogram K),
      ReturnsSteps (mstWith chk st d data n) steps₀) ∧
    (BeqExact K → GenericSafe m data → ∀ (chk : Bool) (st : State K) (d : Dendrogram K),
      ReturnsSteps (genericWith chk m st d data n) steps₀) ∧
    ((dispatch m = .mst → InfSafe n data) →
      (dispatch m = .generic → BeqExact K ∧ GenericSafe m data) →
      ∀ (chk : Bool) (st : State K) (d : Dendrogram K),
        ReturnsSteps (linkageWith chk m st d data n) steps₀) := by
  refine ⟨?_, ?_, ?_, ?_, ?_⟩
  · intro chk st d
    exact C06_primitive E chk m st d data n h2 hs hl steps₀ h₀ htf
  · intro mc e chk st d
    subst e
    exact C06_nnchain E chk mc st d data n h2 hs hl steps₀ h₀ htf
  · intro e hinf chk st d
    subst e
    obtain ⟨st', d', M', hrun, hg⟩ := C03_mst_total E.field.orderLaws E.field.ltTrichotomy chk st d
      data n h2 hs hl (E.noNaN_data n data) (infSafe_infTop E hinf)
    exact ⟨st', d', M', hrun, (C06_unique .single n data steps₀ _ h₀ hg htf).symm⟩
  · intro B S chk st d
    exact C06_generic E B chk m st d data n h2 hs hl S steps₀ h₀ htf
  · intro hinf hgen chk st d
    exact C06_linkage E chk m st d data n h2 hs hl hinf hgen steps₀ h₀ htf

/-- Consequence: under the hypotheses of `C06_all_agree`, any two entry points that accept `m`
return the same steps — here spelled out for `linkage_with` against `primitive_with`. -/
theorem C06_linkage_primitive_agree (E : ExactLaws K) (chk₁ chk₂ : Bool) (m : Method)
    (st₁ st₂ : State K) (d₁ d₂ : Dendrogram K) (data : Array K) (n : Nat) (h2 : 2 ≤ n)
    (hs : n < 2147483648) (hl : 2 * data.size = n * (n - 1))
    (hinf : dispatch m = .mst → InfSafe n data)
    (hgen : dispatch m = .generic → BeqExact K ∧ GenericSafe m data) :
    ∃ s₁ e₁ M₁ s₂ e₂ M₂,
      linkageWith chk₁ m st₁ d₁ data n = .ok (s₁, e₁, M₁) ∧
      primitiveWith chk₂ m st₂ d₂ data n = .ok (s₂, e₂, M₂) ∧
      GreedyValid m n data e₁.steps.toList ∧
      GreedyValid m n data e₂.steps.toList ∧
      (TieFreeFrom m (init m n data) e₁.steps.toList ∨
        TieFreeFrom m (init m n data) e₂.steps.toList →
        e₁.steps.toList = e₂.steps.toList) := by
  obtain ⟨s₁, e₁, M₁, hr₁, hg₁⟩ := C03_linkage_exact E chk₁ m st₁ d₁ data n h2 hs hl hinf hgen
  obtain ⟨s₂, e₂, M₂, hr₂, hg₂⟩ := C03_primitive_exact E chk₂ m st₂ d₂ data n h2 hs hl
  refine ⟨s₁, e₁, M₁, s₂, e₂, M₂, hr₁, hr₂, hg₁, hg₂, ?_⟩
  rintro (ht | ht)
  · exact C06_unique m n data _ _ hg₁ hg₂ ht
  · exact (C06_unique m n data _ _ hg₂ hg₁ ht).symm

/-! ### Non-vacuity over `ℚ` (`ratNumMax 1000`: `fieldNum ℚ` with both sentinels `1000`) -/

section Example
@[reducible] private def qNum : Num ℚ := ratNumMax 1000
attribute [local instance] qNum

/-- `d01 = 5, d02 = 2, d12 = 9` (tie-free for single and average linkage). -/
private def exQ : Array ℚ := #[5, 2, 9]
private def exSingle : List (Step ℚ) := [⟨0, 2, 2, 2⟩, ⟨1, 3, 5, 3⟩]
private def exAverage : List (Step ℚ) := [⟨0, 2, 2, 2⟩, ⟨1, 3, 7, 3⟩]

private theorem exQ_inf : InfSafe 3 exQ := by
  have : ∀ u, u < 3 → ∀ v, v < 3 → u ≠ v → entry 3 exQ (1000 : ℚ) u v ≤ (1000 : ℚ) := by decide
  intro u v hu hv huv
  exact this u hu v hv huv

private theorem exQ_lt : ∀ v ∈ exQ.toList, v < (Num.maxValue : ℚ) := by
  intro v hv
  have : v = 5 ∨ v = 2 ∨ v = 9 := by simpa [exQ] using hv
  show v < (1000 : ℚ)
  rcases this with rfl | rfl | rfl <;> norm_num

/-- Single linkage: ALL hypotheses of `C06_all_agree`, including the three sentinel hypotheses, hold
of a concrete rational instance; so all five entry points return the hand-written reference run,
for every build mode and every prior state. -/
example :
    (∀ chk st d, ReturnsSteps (primitiveWith chk .single st d exQ 3) exSingle) ∧
    (∀ chk st d, ReturnsSteps (nnchainWith chk .single st d exQ 3) exSingle) ∧
    (∀ chk st d, ReturnsSteps (mstWith chk st d exQ 3) exSingle) ∧
    (∀ chk st d, ReturnsSteps (genericWith chk .single st d exQ 3) exSingle) ∧
    (∀ chk st d, ReturnsSteps (linkageWith chk .single st d exQ 3) exSingle) := by
  obtain ⟨h1, h2, h3, h4, h5⟩ := C06_all_agree (ratNumMax_exact 1000) .single exQ 3 (by decide)
    (by decide) (by decide) exSingle (by decide) (by decide)
  exact ⟨h1, h2 .single rfl, h3 rfl exQ_inf,
    h4 (ratNumMax_beq 1000) (genericSafe_of_lt_max (ratNumMax_exact 1000) .single rfl exQ exQ_lt),
    h5 (fun _ => exQ_inf) (fun h => by cases h)⟩

/-- Average linkage (an arithmetic method): primitive, nnchain, generic and linkage all return the
reference `[(0,2,2,2), (1,3,7,3)]` (`(5 + 9)/2 = 7`). -/
example :
    (∀ chk st d, ReturnsSteps (primitiveWith chk .average st d exQ 3) exAverage) ∧
    (∀ chk st d, ReturnsSteps (nnchainWith chk .average st d exQ 3) exAverage) ∧
    (∀ chk st d, ReturnsSteps (genericWith chk .average st d exQ 3) exAverage) ∧
    (∀ chk st d, ReturnsSteps (linkageWith chk .average st d exQ 3) exAverage) := by
  obtain ⟨h1, h2, -, h4, h5⟩ := C06_all_agree (ratNumMax_exact 1000) .average exQ 3 (by decide)
    (by decide) (by decide) exAverage (by decide +kernel) (by decide +kernel)
  exact ⟨h1, h2 .average rfl,
    h4 (ratNumMax_beq 1000) (genericSafe_of_lt_max (ratNumMax_exact 1000) .average rfl exQ exQ_lt),
    h5 (fun h => by cases h) (fun h => by cases h)⟩

end Example

end Kodama
