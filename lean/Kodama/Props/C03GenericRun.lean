/-
C03 for `generic_with` under a RUN-DEPENDENT value hypothesis (instead of a fixed set closed under the
Lance–Williams update).

## Why
The closure-based theorems (`C03_generic_*` in `Props/C03.lean`, `C03_generic_exact`,
`C03_linkage_exact` in `Props/C03Generic.lean`) assume a FIXED set `G` of good values (`GoodSet G`:
non-NaN, strictly below `T::max_value()`, `v == v`) that is CLOSED under the update of the method
(`UpdClosed G m`).  For Ward / centroid / median — whose formulas subtract — the closure of a
non-constant set is unbounded in every Archimedean field, so over `ℚ`/`ℝ` those theorems speak about
constant / all-zero matrices only (see the limitation paragraphs of those files).

## The new hypothesis (`Lemmas/SpecRunGood.lean`)
`Spec.RunGood G m n data`:  for EVERY greedy-valid partial run `l` of the label-based specification
(`Spec/Naive.lean`: `GreedyFrom m (init m n data) l`), every table value `D x y` (`x ≠ y` live) of
the state `replay m (init m n data) l` reached by it lies in `G`.
It mentions neither the algorithm nor its data structures; for a tie-free input there is exactly
one maximal greedy run, and the hypothesis says "the input and the `n − 2` updated tables of that run
stay below the sentinel".  `UpdClosed G m` + inputs in `G` imply it (`runGood_of_updClosed`), so every
closure-based theorem is a special case of its `_run` version (see the `example`s below).

How it enters the proof: the simulation invariant of `generic_with` (`GenSim`,
`Lemmas/GenericGreedySim.lean`) says that the working matrix IS the specification table of the greedy
run performed so far; the pair popped from the heap is a global minimum, hence an admissible next
step; so the table of the NEXT specification state — whose new entries are exactly the values the
update is about to write — is good by `RunGood` (`primSim_pair_good`).  The per-update lemmas
(`genericUpdate_ok'`, `genericUpdate_lb'`) no longer ask for closure but only for "the values this
update writes are good" (`UpdGoodAt`), tracked through the three ranges by a frame invariant.

## Theorems (all: both build modes, every prior state / dendrogram, every valid matrix)
* `C03_generic_run_mergeorder`   (stage 3) `genericWith` is a total loop followed by `relabel`,
                                 `sqrt`; the raw dendrogram of the loop relabelled in merge order is
                                 `GreedyValid`; its heights are the spec's table values and lie in `G`.
* `C03_generic_run_of_monotone`  any method: returned steps greedy-valid if greedy runs of the SPEC
                                 have non-decreasing heights.
* `C03_generic_run_reducible`    … from `Spec.Reducible α m`.
* `C03_generic_run_unsorted`     centroid / median (no sort, no `LBClosed`, no `Reducible`): the call
                                 returns normally and the RETURNED steps are `GreedyValid`.
* `C03_linkage_centroid_median_run`  the same through `linkageWith`.
* `C03_generic_run_exact`        EXACT ARITHMETIC (`ExactLaws K`, `BeqExact K`), ALL SEVEN methods:
                                 hypothesis `RunGood (· < max_value) m n data` instead of `GenericSafe`.
* `C03_generic_run`              run form of the previous.
* `C03_linkage_run_exact`        all seven methods through `linkageWith` in exact arithmetic
                                 (`InfSafe` for single, `BeqExact ∧ RunGood (· < max_value)` for
                                 centroid / median, nothing for the other four).

## Non-vacuity (the point): NON-constant matrices over `ℚ` for Ward, centroid and median
`ratNumMax 1000` = `fieldNum ℚ` with both sentinels `1000`.  The hypothesis `RunGood (· < 1000)` is
discharged by the checker `Spec.runGoodB` (exhaustive exploration of all greedy runs, `decide +kernel`).

## Trusted
As `Props/C03Generic.lean`.
-/
import Kodama.Props.C03Generic
namespace Kodama
open Spec

section Run
variable {α : Type} [Num α] {G : α → Prop}

/-- Stage 3 under `Spec.RunGood`: the loop of `generic_with`, relabelled in merge order, is a greedy
run of the spec. -/
theorem C03_generic_run_mergeorder (L : OrderLaws α) (hbeq : BeqLe α) (gs : GoodSet G)
    (chk : Bool) (m : Method) (hlbc : l1Mode m = .fix → LBClosed G m)
    (hsym : LwSymm α m) (hmax : Num.isNaN (Num.maxValue : α) = false)
    (st : State α) (d : Dendrogram α) (data : Array α) (n : Nat) (h2 : 2 ≤ n)
    (hs : n < 2147483648) (hl : 2 * data.size = n * (n - 1))
    (hrun : RunGood G m n data) :
    ∃ (st1 : State α) (dend1 : Dendrogram α) (M1 : Mat α),
      genericWith chk m st d data n =
        (relabel m st1.set dend1 >>= fun r =>
          pure ({ st1 with set := r.1 }, sqrtSteps m r.2, M1)) ∧
      GreedyValid m n data (mergeOrder m n dend1.steps.toList) ∧
      dend1.steps.toList.map (·.d)
        = rawHeights m (init m n data) (mergeOrder m n dend1.steps.toList) ∧
      (∀ s ∈ dend1.steps.toList, G s.d) := by
  obtain ⟨st1, dend1, M1, hres, hdg, heq⟩ :=
    genericWith_sim_run L hbeq gs chk m hlbc hsym hmax st d data n h2 hs hl hrun
  exact ⟨st1, dend1, M1, heq, hres.valid, hres.hts, hdg⟩

/-- Stage 4 under `Spec.RunGood`, any method: the returned steps are greedy-valid whenever every
greedy run of the SPECIFICATION has non-decreasing raw heights. -/
theorem C03_generic_run_of_monotone (L : OrderLaws α) (hbeq : BeqLe α) (gs : GoodSet G)
    (chk : Bool) (m : Method) (hlbc : l1Mode m = .fix → LBClosed G m)
    (hsym : LwSymm α m) (hmax : Num.isNaN (Num.maxValue : α) = false)
    (st : State α) (d : Dendrogram α) (data : Array α) (n : Nat) (h2 : 2 ≤ n)
    (hs : n < 2147483648) (hl : 2 * data.size = n * (n - 1))
    (hrun : RunGood G m n data)
    (hmono : ∀ l, GreedyValid m n data l →
      (rawHeights m (init m n data) l).Pairwise (fun a b => Num.lt b a = false)) :
    ∃ st' dend' M', genericWith chk m st d data n = .ok (st', dend', M') ∧
      GreedyValid m n data dend'.steps.toList := by
  obtain ⟨st1, dend1, M1, hres, hdg, heq⟩ :=
    genericWith_sim_run L hbeq gs chk m hlbc hsym hmax st d data n h2 hs hl hrun
  have hpw : dend1.steps.toList.Pairwise (fun s t => Num.lt t.d s.d = false) := by
    have h := hmono _ hres.valid
    rw [← hres.hts, List.pairwise_map] at h
    exact h
  obtain ⟨uf, d', hr, _, hg⟩ := relabel_greedy' hres (fun s hs' => gs.notNaN _ (hdg s hs')) h2
    st1.set (processed_of_pairwise m _ hpw)
  refine ⟨{ st1 with set := uf }, sqrtSteps m d', M1, ?_, hg⟩
  rw [heq, hr]; rfl

/-- Stage 4 under `Spec.RunGood`, reducible methods. -/
theorem C03_generic_run_reducible (L : OrderLaws α) (hbeq : BeqLe α) (gs : GoodSet G)
    (chk : Bool) (m : Method) (hlbc : l1Mode m = .fix → LBClosed G m)
    (hsym : LwSymm α m) (hred : Reducible α m) (hmax : Num.isNaN (Num.maxValue : α) = false)
    (st : State α) (d : Dendrogram α) (data : Array α) (n : Nat) (h2 : 2 ≤ n)
    (hs : n < 2147483648) (hl : 2 * data.size = n * (n - 1))
    (hrun : RunGood G m n data) :
    ∃ st' dend' M', genericWith chk m st d data n = .ok (st', dend', M') ∧
      GreedyValid m n data dend'.steps.toList := by
  have hnn : NoNaNRun m n data := hrun.noNaNRun gs.notNaN
  apply C03_generic_run_of_monotone L hbeq gs chk m hlbc hsym hmax st d data n h2 hs hl hrun
  intro l hl'
  exact greedy_heights_mono L hred l (init m n data) 0 (init_StInv m n data) hl'.2
    (runNoNaN_of_noNaNRun hnn _ [] hl'.2)

/-- **Stage 4 under `Spec.RunGood`, centroid and median** (no sort; no `LBClosed`, no `Reducible`):
the call returns normally and the returned steps are greedy-valid. -/
theorem C03_generic_run_unsorted (L : OrderLaws α) (hbeq : BeqLe α) (gs : GoodSet G)
    (chk : Bool) (m : Method) (hm : m.requiresSorting = false)
    (hsym : LwSymm α m) (hmax : Num.isNaN (Num.maxValue : α) = false)
    (st : State α) (d : Dendrogram α) (data : Array α) (n : Nat) (h2 : 2 ≤ n)
    (hs : n < 2147483648) (hl : 2 * data.size = n * (n - 1))
    (hrun : RunGood G m n data) :
    ∃ st' dend' M', genericWith chk m st d data n = .ok (st', dend', M') ∧
      GreedyValid m n data dend'.steps.toList := by
  have hlbc : l1Mode m = .fix → LBClosed G m := by
    intro h; cases m <;> simp [Method.requiresSorting] at hm <;> simp [l1Mode] at h
  obtain ⟨st1, dend1, M1, hres, hdg, heq⟩ :=
    genericWith_sim_run L hbeq gs chk m hlbc hsym hmax st d data n h2 hs hl hrun
  obtain ⟨uf, d', hr, _, hg⟩ := relabel_greedy' hres (fun s hs' => gs.notNaN _ (hdg s hs')) h2
    st1.set (processed_of_unsorted m _ hm)
  refine ⟨{ st1 with set := uf }, sqrtSteps m d', M1, ?_, hg⟩
  rw [heq, hr]; rfl

/-- **`linkage(.., Centroid | Median)` under `Spec.RunGood`**: routed to `generic_with`; the call
returns normally and the returned steps are greedy-valid. -/
theorem C03_linkage_centroid_median_run (L : OrderLaws α) (hbeq : BeqLe α) (gs : GoodSet G)
    (chk : Bool) (m : Method) (hm : m = .centroid ∨ m = .median)
    (hsym : LwSymm α m) (hmax : Num.isNaN (Num.maxValue : α) = false)
    (st : State α) (d : Dendrogram α) (data : Array α) (n : Nat) (h2 : 2 ≤ n)
    (hs : n < 2147483648) (hl : 2 * data.size = n * (n - 1))
    (hrun : RunGood G m n data) :
    dispatch m = .generic ∧
    ∃ st' dend' M', linkageWith chk m st d data n = .ok (st', dend', M') ∧
      GreedyValid m n data dend'.steps.toList := by
  have hd : dispatch m = .generic := by rcases hm with rfl | rfl <;> rfl
  have hr : m.requiresSorting = false := by rcases hm with rfl | rfl <;> rfl
  have hlink : linkageWith chk m st d data n = genericWith chk m st d data n := by
    unfold linkageWith; rw [hd]
  rw [hlink]
  exact ⟨hd, C03_generic_run_unsorted L hbeq gs chk m hr hsym hmax st d data n h2 hs hl hrun⟩

/-- The closure-based theorem is the special case `runGood_of_updClosed` of the run-dependent one. -/
example (L : OrderLaws α) (hbeq : BeqLe α) (gs : GoodSet G)
    (chk : Bool) (m : Method) (hm : m.requiresSorting = false) (hcl : UpdClosed G m)
    (hsym : LwSymm α m) (hmax : Num.isNaN (Num.maxValue : α) = false)
    (st : State α) (d : Dendrogram α) (data : Array α) (n : Nat) (h2 : 2 ≤ n)
    (hs : n < 2147483648) (hl : 2 * data.size = n * (n - 1))
    (hin : ∀ i (h : i < (squareData m data).size), G (squareData m data)[i]) :
    ∃ st' dend' M', genericWith chk m st d data n = .ok (st', dend', M') ∧
      GreedyValid m n data dend'.steps.toList :=
  C03_generic_run_unsorted L hbeq gs chk m hm hsym hmax st d data n h2 hs hl
    (runGood_of_updClosed hcl (init_TableGood m data n h2 hs hl hin))

end Run

section Exact
variable {K : Type} [Field K] [LinearOrder K] [IsStrictOrderedRing K] [Num K]

/-- **C03 for `generic_with` in exact arithmetic, all seven methods, RUN-DEPENDENT hypothesis**: if
every table value of every greedy run of the specification is strictly below `T::max_value()`, then
`genericWith` returns normally and the returned steps are `GreedyValid`. -/
theorem C03_generic_run_exact (E : ExactLaws K) (B : BeqExact K) (chk : Bool) (m : Method)
    (st : State K) (d : Dendrogram K) (data : Array K) (n : Nat) (h2 : 2 ≤ n) (hs : n < 2147483648)
    (hl : 2 * data.size = n * (n - 1))
    (hrun : RunGood (fun v : K => v < (Num.maxValue : K)) m n data) :
    ∃ st' d' M', genericWith chk m st d data n = .ok (st', d', M') ∧
      GreedyValid m n data d'.steps.toList := by
  have L := E.field.orderLaws
  have gs : GoodSet (fun v : K => v < (Num.maxValue : K)) := goodSet_exact B E (fun _ h => h)
  cases hm : m.requiresSorting with
  | true =>
    refine C03_generic_run_of_monotone L (B.beqLe E) gs chk m (lbClosed_exact_of_fix E _ m)
      (E.field.lwSymm m) (E.noNaN _) st d data n h2 hs hl hrun ?_
    intro l hl'
    exact greedy_heights_mono_pos L (E.field.reduciblePos m hm) l (init m n data) 0
      (init_StInv m n data) (init_SizePos m n data) hl'.2
      (runNoNaN_of_noNaNRun (E.noNaNRun m n data) _ [] hl'.2)
  | false =>
    exact C03_generic_run_unsorted L (B.beqLe E) gs chk m hm (E.field.lwSymm m) (E.noNaN _) st d
      data n h2 hs hl hrun

/-- Run form: whatever `genericWith` returns on such a matrix is greedy-valid. -/
theorem C03_generic_run (E : ExactLaws K) (B : BeqExact K) (chk : Bool) (m : Method)
    (st st' : State K) (d d' : Dendrogram K) (M' : Mat K) (data : Array K) (n : Nat) (h2 : 2 ≤ n)
    (hs : n < 2147483648) (hl : 2 * data.size = n * (n - 1))
    (hrun : RunGood (fun v : K => v < (Num.maxValue : K)) m n data)
    (hret : genericWith chk m st d data n = .ok (st', d', M')) :
    GreedyValid m n data d'.steps.toList := by
  obtain ⟨st'', d'', M'', hrun', hg⟩ := C03_generic_run_exact E B chk m st d data n h2 hs hl hrun
  rw [hret] at hrun'
  simp only [Except.ok.injEq, Prod.mk.injEq] at hrun'
  obtain ⟨-, rfl, -⟩ := hrun'
  exact hg

/-- `GenericSafe` (the closure-based sentinel hypothesis) implies the run-dependent one. -/
theorem runGood_of_genericSafe {m : Method} {data : Array K} {n : Nat} (h2 : 2 ≤ n)
    (hs : n < 2147483648) (hl : 2 * data.size = n * (n - 1)) (S : GenericSafe m data) :
    RunGood (fun v : K => v < (Num.maxValue : K)) m n data := by
  obtain ⟨G, hG, hcl, hin⟩ := S
  exact (runGood_of_updClosed hcl (init_TableGood m data n h2 hs hl hin)).mono hG

/-- **C03 for `linkage_with` in exact arithmetic, all seven methods, run-dependent hypothesis for the
two methods routed to `generic_with`.** -/
theorem C03_linkage_run_exact (E : ExactLaws K) (chk : Bool) (m : Method) (st : State K)
    (d : Dendrogram K) (data : Array K) (n : Nat) (h2 : 2 ≤ n) (hs : n < 2147483648)
    (hl : 2 * data.size = n * (n - 1))
    (hinf : dispatch m = .mst → InfSafe n data)
    (hgen : dispatch m = .generic →
      BeqExact K ∧ RunGood (fun v : K => v < (Num.maxValue : K)) m n data) :
    ∃ st' d' M', linkageWith chk m st d data n = .ok (st', d', M') ∧
      GreedyValid m n data d'.steps.toList := by
  have gen : ∀ m', m' = m → (m' = .centroid ∨ m' = .median) →
      ∃ st' d' M', linkageWith chk m st d data n = .ok (st', d', M') ∧
        GreedyValid m n data d'.steps.toList := by
    intro m' e hm
    subst e
    have hd : dispatch m' = .generic := by rcases hm with rfl | rfl <;> rfl
    obtain ⟨B, hrun⟩ := hgen hd
    exact (C03_linkage_centroid_median_run E.field.orderLaws (B.beqLe E)
      (goodSet_exact B E (fun _ h => h)) chk m' hm (E.field.lwSymm m') (E.noNaN _) st d data n h2 hs
      hl hrun).2
  cases m with
  | single =>
    exact C03_linkage_single_total E.field.orderLaws E.field.ltTrichotomy chk st d data n h2 hs hl
      (E.noNaN_data n data) (infSafe_infTop E (hinf rfl))
  | complete => exact C03_linkage_nnchain E chk .complete (by decide) st d data n h2 hs hl
  | average => exact C03_linkage_nnchain E chk .average (by decide) st d data n h2 hs hl
  | weighted => exact C03_linkage_nnchain E chk .weighted (by decide) st d data n h2 hs hl
  | ward => exact C03_linkage_nnchain E chk .ward (by decide) st d data n h2 hs hl
  | centroid => exact gen .centroid rfl (Or.inl rfl)
  | median => exact gen .median rfl (Or.inr rfl)

/-- `C03_generic_exact` (closure-based) is a corollary of `C03_generic_run_exact`. -/
example (E : ExactLaws K) (B : BeqExact K) (chk : Bool) (m : Method)
    (st : State K) (d : Dendrogram K) (data : Array K) (n : Nat) (h2 : 2 ≤ n) (hs : n < 2147483648)
    (hl : 2 * data.size = n * (n - 1)) (S : GenericSafe m data) :
    ∃ st' d' M', genericWith chk m st d data n = .ok (st', d', M') ∧
      GreedyValid m n data d'.steps.toList :=
  C03_generic_run_exact E B chk m st d data n h2 hs hl (runGood_of_genericSafe h2 hs hl S)

end Exact

/-! ## Non-vacuity over `ℚ`: NON-constant matrices for Ward, centroid and median

`ratNumMax 1000` is `fieldNum ℚ` with both sentinels `1000`.  The run-dependent hypothesis
`RunGood (· < 1000) m n data` is discharged by the checker `Spec.runGoodB` (exhaustive exploration of
all greedy runs of the specification; `decide +kernel` evaluates the rational arithmetic). -/

section Example
@[reducible] private def qNumRun : Num ℚ := ratNumMax 1000
attribute [local instance] qNumRun

/-- The checker's verdict as the hypothesis of the theorems (`G v ↔ v < 1000`). -/
theorem runGood_lt_of_check (m : Method) (n : Nat) (data : Array ℚ) (k : Nat)
    (h : runGoodB (fun v : ℚ => decide (v < 1000)) m k (init m n data) = true) :
    RunGood (fun v : ℚ => v < (Num.maxValue : ℚ)) m n data :=
  (runGood_of_check _ m n data k h).mono (fun v hv => by
    have h' : v < (1000 : ℚ) := by simpa using hv
    exact h')

/-- WARD on the 3-point matrix `d01 = 1, d02 = 3, d12 = 2` (squared: `1, 9, 4`; after merging
`{0,1}` the table holds `25/3`): the run-dependent hypothesis holds. -/
theorem runGood_ward3 :
    RunGood (fun v : ℚ => v < (Num.maxValue : ℚ)) .ward 3 (#[1, 3, 2] : Array ℚ) :=
  runGood_lt_of_check .ward 3 _ 2 (by decide +kernel)

/-- WARD on a 4-point matrix. -/
theorem runGood_ward4 :
    RunGood (fun v : ℚ => v < (Num.maxValue : ℚ)) .ward 4 (#[1, 3, 2, 4, 5, 7] : Array ℚ) :=
  runGood_lt_of_check .ward 4 _ 3 (by decide +kernel)

/-- CENTROID on a 4-point matrix. -/
theorem runGood_centroid4 :
    RunGood (fun v : ℚ => v < (Num.maxValue : ℚ)) .centroid 4 (#[1, 3, 2, 4, 5, 7] : Array ℚ) :=
  runGood_lt_of_check .centroid 4 _ 3 (by decide +kernel)

/-- MEDIAN on a 4-point matrix. -/
theorem runGood_median4 :
    RunGood (fun v : ℚ => v < (Num.maxValue : ℚ)) .median 4 (#[1, 3, 2, 4, 5, 7] : Array ℚ) :=
  runGood_lt_of_check .median 4 _ 3 (by decide +kernel)

/-- **Ward through `generic_with`, non-constant 3-point matrix**: `C03_generic_run_exact` applies. -/
example : ∃ st' d' M',
    genericWith true .ward State.new (Dendrogram.new 0) (#[1, 3, 2] : Array ℚ) 3
      = .ok (st', d', M') ∧
    GreedyValid .ward 3 (#[1, 3, 2] : Array ℚ) d'.steps.toList :=
  C03_generic_run_exact (ratNumMax_exact 1000) (ratNumMax_beq 1000) true .ward _ _ _ 3
    (by decide) (by decide) (by decide) runGood_ward3

/-- Ward, 4 points. -/
example : ∃ st' d' M',
    genericWith false .ward State.new (Dendrogram.new 0) (#[1, 3, 2, 4, 5, 7] : Array ℚ) 4
      = .ok (st', d', M') ∧
    GreedyValid .ward 4 (#[1, 3, 2, 4, 5, 7] : Array ℚ) d'.steps.toList :=
  C03_generic_run_exact (ratNumMax_exact 1000) (ratNumMax_beq 1000) false .ward _ _ _ 4
    (by decide) (by decide) (by decide) runGood_ward4

/-- **Centroid through `generic_with`, non-constant 4-point matrix.** -/
example : ∃ st' d' M',
    genericWith true .centroid State.new (Dendrogram.new 0) (#[1, 3, 2, 4, 5, 7] : Array ℚ) 4
      = .ok (st', d', M') ∧
    GreedyValid .centroid 4 (#[1, 3, 2, 4, 5, 7] : Array ℚ) d'.steps.toList :=
  C03_generic_run_exact (ratNumMax_exact 1000) (ratNumMax_beq 1000) true .centroid _ _ _ 4
    (by decide) (by decide) (by decide) runGood_centroid4

/-- **Median through `generic_with`, non-constant 4-point matrix.** -/
example : ∃ st' d' M',
    genericWith true .median State.new (Dendrogram.new 0) (#[1, 3, 2, 4, 5, 7] : Array ℚ) 4
      = .ok (st', d', M') ∧
    GreedyValid .median 4 (#[1, 3, 2, 4, 5, 7] : Array ℚ) d'.steps.toList :=
  C03_generic_run_exact (ratNumMax_exact 1000) (ratNumMax_beq 1000) true .median _ _ _ 4
    (by decide) (by decide) (by decide) runGood_median4

/-- **Centroid and median through `linkage_with`** (routed to `generic_with`) on the same non-constant
matrix: `C03_linkage_run_exact` applies (compare the all-zero example of `Props/C03Generic.lean`). -/
example (m : Method) (hm : m = .centroid ∨ m = .median) : ∃ st' d' M',
    linkageWith true m State.new (Dendrogram.new 0) (#[1, 3, 2, 4, 5, 7] : Array ℚ) 4
      = .ok (st', d', M') ∧
    GreedyValid m 4 (#[1, 3, 2, 4, 5, 7] : Array ℚ) d'.steps.toList := by
  refine C03_linkage_run_exact (ratNumMax_exact 1000) true m _ _ _ 4 (by decide) (by decide)
    (by decide) (fun h => by rcases hm with rfl | rfl <;> cases h)
    (fun _ => ⟨ratNumMax_beq 1000, ?_⟩)
  rcases hm with rfl | rfl
  · exact runGood_centroid4
  · exact runGood_median4

end Example

end Kodama
