/-
C18 — `locations` prints exactly the library result, for every schedule.

Proved here about the model of `kodama-bin/src/locations.rs` (`Model/Locations.lean`), for ALL
record counts, ALL distance functions / number types, ALL method strings and ALL schedules:

* `C18_order`       for EVERY schedule — any binary split tree over the outer range `0..n`, any
                    split tree per row over the inner range `i+1..n`, every cut point — the fork–join
                    evaluation of `into_par_iter().flat_map(..).map(..).collect()` is the list
                    `(Spec.pairs n).map dist`: the row-major upper triangle of C07, the same for
                    every schedule (hence for every thread count).
* `C18_order_jobs`  the same for the job-list reading: the leaf jobs of the split trees executed in
                    ANY order (any list of job numbers that contains every job; repeats allowed),
                    results filed by job number and concatenated in job order.
* `C18_layout`      entry `Gen.idxN n r c` (the index expression *regenerated from
                    src/condensed.rs*) of the matrix built under any schedule is `dist r c`: the
                    tool fills exactly the slot `linkage` reads for the pair `(r, c)` (via C07).
* `C18_bytes`       the bytes written by `--save-dist-to` are the same for any two schedules.
* `C18_codec`       `decodeLE (encodeLE ws) = some ws` for all lists of 64-bit patterns; a byte
                    list is rejected iff its length is not a multiple of 8; an accepted one has
                    `len/8` words; re-encoding a decoded file gives the file back.
* `C18_method`      `Method.parse s = some m ↔ s` is the lower-case name of `m` (by cases over the
                    if-chain *regenerated from `impl FromStr for Method`*; the seven names are written
                    out here independently); no `--method` selects single; an unknown name gives
                    exit status 1, no row and no saved file, whatever the other arguments.
* `C18_output`      with a known method and no `--load-dist-from`, the outcome under any schedule is
                    the presentation of `linkage` (model of `kodama::linkage`, release build) on the
                    specification matrix: status 0 and one row `(cluster1, cluster2, dissimilarity,
                    size)` per step, in step order — or status 101 and no row if `linkage` panics.
* `C18_saved_bytes` with a known method, `--save-dist-to` writes the little-endian image of the
                    specification matrix (independent of method and schedule).
* `C18_save_load`   if a run with `--save-dist-to` wrote `bytes`, then a run with
                    `--load-dist-from` on those bytes — under any schedule, for any CSV with the same
                    number of records — has the same status and the same rows, and if it saves again
                    it writes the same bytes.  Hypotheses (named, not axioms): `from_bits (to_bits x)
                    = x` and `to_bits x < 2^64` for the number type.
* `C18_load_reject` a `--load-dist-from` file whose length is not a multiple of 8 gives status 1
                    and no row.

NOT verified — trusted or only observed by the correspondence run (`tools/run_loc.py`):
* rayon: that `collect` into a `Vec` after `into_par_iter().flat_map(..).map(..)` concatenates the
  per-split results in range order (its documented contract); the model *is* that contract, the
  theorems show the result then cannot depend on splits or execution order.  Observed: the saved
  matrix is byte-identical for RAYON_NUM_THREADS ∈ {1,2,3,8,16} and repeated runs.
* csv/serde (record and number parsing), ryu (shortest round-trip float printing), clap
  (`--method` absent vs. present; `--method=` gives the empty string), byteorder, the file system.
  The runner feeds the model the bit patterns of Python's correctly rounded `float(text)` and
  re-parses the printed heights with `float`; both are checked against the tool's own matrix file
  and against an independent Rust call of `kodama::linkage` on that file.
* glibc libm `sin`/`cos`/`atan` and the hardware `sqrt`: shared by the Rust binary and Lean's
  runtime, which is why the model's Haversine matrix can be (and is, on every run) compared bit for
  bit; nothing is proved about the accuracy of `haversine`.
* `Float`: the two `Word64` laws of `C18_save_load` are not provable for Lean's opaque `Float`;
  observed by the save → load runs (byte-identical stdout).
* That the model is the tool: correspondence run (matrix bytes, step rows, exit status).
-/
import Kodama.Lemmas.Loc
import Kodama.Props.C07
namespace Kodama
open Loc Spec

/-! ### Schedules -/

theorem C18_order {β : Type} (s : Sched) (n : Nat) (dist : Nat → Nat → β) :
    parMatrix s n dist = (pairs n).map (fun p => dist p.1 p.2) :=
  parMatrix_eq s n dist

theorem C18_order_jobs {β : Type} (s : Sched) (ord : List Nat) (n : Nat) (dist : Nat → Nat → β)
    (hall : ∀ i, i < (allJobs s n).length → i ∈ ord) :
    parMatrixOrd s ord n dist = (pairs n).map (fun p => dist p.1 p.2) := by
  unfold parMatrixOrd
  rw [runJobs_eq _ _ _ hall]
  exact allJobs_flatMap s n dist

/-- Every schedule puts `dist r c` into the slot the library's index expression assigns to `(r, c)`. -/
theorem C18_layout {β : Type} (s : Sched) (n r c : Nat) (dist : Nat → Nat → β)
    (hrc : r < c) (hcn : c < n) :
    (parMatrix s n dist)[Gen.idxN n r c]? = some (dist r c) := by
  rw [C18_order, List.getElem?_map, C07_layout n r c hrc hcn]
  rfl

/-- The saved file does not depend on the schedule. -/
theorem C18_bytes {α : Type} [Word64 α] (s s' : Sched) (n : Nat) (dist : Nat → Nat → α) :
    encodeLE ((parMatrix s n dist).map Word64.toBits)
      = encodeLE ((parMatrix s' n dist).map Word64.toBits) := by
  rw [C18_order, C18_order]

/-! ### Codec -/

theorem C18_codec :
    (∀ ws : List Nat, (∀ w, w ∈ ws → w < 2 ^ 64) → decodeLE (encodeLE ws) = some ws) ∧
    (∀ bs : List Nat, decodeLE bs = none ↔ bs.length % 8 ≠ 0) ∧
    (∀ bs ws : List Nat, decodeLE bs = some ws → 8 * ws.length = bs.length) ∧
    (∀ bs ws : List Nat, (∀ b, b ∈ bs → b < 256) → decodeLE bs = some ws → encodeLE ws = bs) := by
  refine ⟨?_, ?_, decodeLE_length, encodeLE_decodeLE⟩
  · intro ws h
    exact decodeLE_encodeLE ws (fun w hw => by have := h w hw; omega)
  · intro bs
    have := decodeLE_isSome_iff bs
    cases hd : decodeLE bs with
    | none => simp [hd] at this; simp [this]
    | some ws => simp [hd] at this; simp [this]

/-! ### Method selection -/

/-- The accepted spellings, written out independently of the source. -/
def methodName : Method → String
  | .single => "single" | .complete => "complete" | .average => "average"
  | .weighted => "weighted" | .ward => "ward" | .centroid => "centroid" | .median => "median"

theorem C18_method_parse (s : String) (m : Method) : Method.parse s = some m ↔ s = methodName m := by
  unfold Method.parse
  constructor
  · intro h
    repeat' split at h
    all_goals first | (cases h; subst_vars; rfl) | cases h
  · intro h
    subst h
    cases m <;> decide

theorem C18_method {α : Type} [Num α] [Word64 α] :
    -- no `--method`: single linkage
    selectMethod none = some Method.single ∧
    -- `--method s`: accepted iff `s` is one of the seven names, and then it is that method
    (∀ s m, selectMethod (some s) = some m ↔ s = methodName m) ∧
    -- anything else: exit status 1, nothing printed, nothing saved
    (∀ (sched : Sched) (s : String) (load : Option (List Nat)) (save : Bool) (n : Nat)
        (dist : Nat → Nat → α), (∀ m, s ≠ methodName m) →
        cliOn sched { method := some s, load := load, save := save } n dist = ⟨1, [], none⟩) := by
  refine ⟨rfl, fun s m => C18_method_parse s m, ?_⟩
  intro sched s load save n dist hs
  have : selectMethod (some s) = none := by
    cases h : selectMethod (some s) with
    | none => rfl
    | some m => exact absurd ((C18_method_parse s m).mp h) (hs m)
  simp only [cliOn, this]

/-! ### Output -/

theorem C18_output {α : Type} [Num α] [Word64 α] (sched : Sched) (meth : Option String)
    (m : Method) (save : Bool) (n : Nat) (dist : Nat → Nat → α)
    (hm : selectMethod meth = some m) :
    cliOn sched { method := meth, load := none, save := save } n dist
      = present (run false .linkage m (matrixSpec n dist).toArray n)
          (if save then some (encodeLE ((matrixSpec n dist).map Word64.toBits)) else none) := by
  simp only [cliOn, hm, C18_order]
  rfl

/-- With a known method and `--save-dist-to`, the file written is the little-endian image of the
specification matrix — whatever the method, the schedule, and whether `linkage` panics. -/
theorem C18_saved_bytes {α : Type} [Num α] [Word64 α] (sched : Sched) (meth : Option String)
    (m : Method) (n : Nat) (dist : Nat → Nat → α) (hm : selectMethod meth = some m) :
    (cliOn sched { method := meth, load := none, save := true } n dist).saved
      = some (encodeLE ((matrixSpec n dist).map Word64.toBits)) := by
  rw [C18_output sched meth m true n dist hm]
  cases run false .linkage m (matrixSpec n dist).toArray n <;> rfl

/-- Unfolded reading of `C18_output`: status and rows. -/
theorem C18_output_rows {α : Type} [Num α] [Word64 α] (sched : Sched) (meth : Option String)
    (m : Method) (save : Bool) (n : Nat) (dist : Nat → Nat → α)
    (hm : selectMethod meth = some m) :
    (∀ st d M, run false .linkage m (matrixSpec n dist).toArray n = .ok (st, d, M) →
      (cliOn sched { method := meth, load := none, save := save } n dist).exit = 0 ∧
      (cliOn sched { method := meth, load := none, save := save } n dist).rows
        = d.steps.toList.map (fun s => (s.c1, s.c2, s.d, s.size))) ∧
    (∀ p, run false .linkage m (matrixSpec n dist).toArray n = .error p →
      (cliOn sched { method := meth, load := none, save := save } n dist).exit = 101 ∧
      (cliOn sched { method := meth, load := none, save := save } n dist).rows = []) := by
  rw [C18_output sched meth m save n dist hm]
  constructor
  · intro st d M h; rw [h]; exact ⟨rfl, rfl⟩
  · intro p h; rw [h]; exact ⟨rfl, rfl⟩

/-- The tool on records: the matrix is the Haversine (or any other) distance of the records in
file order, row-major upper triangle. -/
theorem C18_output_records {ρ α : Type} [Inhabited ρ] [Num α] [Word64 α] (sched : Sched)
    (meth : Option String) (m : Method) (save : Bool) (records : Array ρ) (distance : ρ → ρ → α)
    (hm : selectMethod meth = some m) :
    cli sched { method := meth, load := none, save := save } records distance
      = present (run false .linkage m
          ((pairs records.size).map (fun p => distance records[p.1]! records[p.2]!)).toArray
          records.size)
          (if save then some (encodeLE (((pairs records.size).map
            (fun p => distance records[p.1]! records[p.2]!)).map Word64.toBits)) else none) :=
  C18_output sched meth m save records.size _ hm

/-! ### Save, then load -/

theorem C18_save_load {α : Type} [Num α] [Word64 α]
    (hround : ∀ x : α, Word64.ofBits (Word64.toBits x) = x)
    (hword : ∀ x : α, Word64.toBits x < 2 ^ 64)
    (s s' : Sched) (meth : Option String) (n : Nat) (dist dist' : Nat → Nat → α) (save : Bool)
    (bytes : List Nat)
    (hsaved : (cliOn s { method := meth, load := none, save := true } n dist).saved = some bytes) :
    cliOn s' { method := meth, load := some bytes, save := save } n dist'
      = { cliOn s { method := meth, load := none, save := true } n dist with
          saved := if save then some bytes else none } := by
  cases hm : selectMethod meth with
  | none => simp [cliOn, hm] at hsaved
  | some m =>
    rw [C18_output s meth m true n dist hm] at hsaved ⊢
    have hb : bytes = encodeLE ((matrixSpec n dist).map Word64.toBits) := by
      cases h : run false .linkage m (matrixSpec n dist).toArray n with
      | error p => rw [h] at hsaved; simpa [present] using hsaved.symm
      | ok r => rw [h] at hsaved; simpa [present] using hsaved.symm
    have hdec : decodeLE bytes = some ((matrixSpec n dist).map Word64.toBits) := by
      rw [hb]
      apply decodeLE_encodeLE
      intro w hw
      obtain ⟨x, _, rfl⟩ := List.mem_map.mp hw
      have := hword x
      omega
    have hback : ((matrixSpec n dist).map (Word64.toBits (α := α))).map Word64.ofBits
        = matrixSpec n dist := by
      rw [List.map_map]
      conv => rhs; rw [← List.map_id (matrixSpec n dist)]
      apply List.map_congr_left
      intro x _
      exact hround x
    simp only [cliOn, hm, hdec, Option.map_some, hback]
    rw [← hb]
    cases run false .linkage m (matrixSpec n dist).toArray n <;> cases save <;> rfl

/-- Consequence: same exit status, same rows. -/
theorem C18_save_load_rows {α : Type} [Num α] [Word64 α]
    (hround : ∀ x : α, Word64.ofBits (Word64.toBits x) = x)
    (hword : ∀ x : α, Word64.toBits x < 2 ^ 64)
    (s s' : Sched) (meth : Option String) (n : Nat) (dist dist' : Nat → Nat → α) (save : Bool)
    (bytes : List Nat)
    (hsaved : (cliOn s { method := meth, load := none, save := true } n dist).saved = some bytes) :
    (cliOn s' { method := meth, load := some bytes, save := save } n dist').exit
        = (cliOn s { method := meth, load := none, save := false } n dist).exit ∧
    (cliOn s' { method := meth, load := some bytes, save := save } n dist').rows
        = (cliOn s { method := meth, load := none, save := false } n dist).rows := by
  rw [C18_save_load hround hword s s' meth n dist dist' save bytes hsaved]
  cases hm : selectMethod meth with
  | none => simp [cliOn, hm]
  | some m =>
    rw [C18_output s meth m true n dist hm, C18_output s meth m false n dist hm]
    cases run false .linkage m (matrixSpec n dist).toArray n <;> exact ⟨rfl, rfl⟩

theorem C18_load_reject {α : Type} [Num α] [Word64 α] (sched : Sched) (meth : Option String)
    (save : Bool) (n : Nat) (dist : Nat → Nat → α) (bytes : List Nat)
    (hlen : bytes.length % 8 ≠ 0) :
    (cliOn sched { method := meth, load := some bytes, save := save } n dist).exit = 1 ∧
    (cliOn sched { method := meth, load := some bytes, save := save } n dist).rows = [] := by
  have hd : decodeLE bytes = none := (C18_codec.2.1 bytes).mpr hlen
  cases hm : selectMethod meth with
  | none => simp [cliOn, hm]
  | some m => simp [cliOn, hm, hd]

/-! ### Non-vacuity -/

/-- A concrete non-trivial schedule and execution order: hypotheses of `C18_order_jobs` hold and
the conclusion is the expected list. -/
example :
    let s : Sched := { outer := .node 2 .leaf (.node 1 .leaf .leaf),
                       inner := fun i => if i = 0 then .node 1 .leaf .leaf else .leaf }
    let ord := [4, 2, 0, 3, 1, 5, 2]
    (allJobs s 4).length = 5 ∧ (∀ i, i < (allJobs s 4).length → i ∈ ord) ∧
    parMatrixOrd s ord 4 (fun i j => 10 * i + j) = [1, 2, 3, 12, 13, 23] ∧
    parMatrix s 4 (fun i j => 10 * i + j) = [1, 2, 3, 12, 13, 23] := by
  decide

/-- Codec: a 64-bit pattern with all eight bytes distinct, and a 9-byte file. -/
example : encodeLE [0x0102030405060708, 2 ^ 64 - 1]
      = [8, 7, 6, 5, 4, 3, 2, 1, 255, 255, 255, 255, 255, 255, 255, 255] ∧
    decodeLE (encodeLE [0x0102030405060708, 2 ^ 64 - 1]) = some [0x0102030405060708, 2 ^ 64 - 1] ∧
    decodeLE [1, 2, 3, 4, 5, 6, 7, 8, 9] = none := by
  decide

/-- Method names: accepted, wrong case, near miss, empty. -/
example : selectMethod (some "ward") = some .ward ∧ selectMethod (some "Single") = none ∧
    selectMethod (some "wards") = none ∧ selectMethod (some "") = none ∧
    selectMethod none = some .single := by
  decide

/-- A number type on which the two `Word64` laws of `C18_save_load` hold (so its hypotheses are
satisfiable), with an order, used only for the examples below. -/
instance C18.numFin : Num (Fin 16) where
  lt a b := decide (a < b)
  beq a b := decide (a = b)
  add a b := a + b
  sub a b := a - b
  mul a b := a * b
  div a b := a / b
  ofNat n := Fin.ofNat 16 n
  half := 0
  quarter := 0
  sqrt a := a
  abs a := a
  maxValue := 15
  infinity := 15
  isNaN _ := false

instance C18.wordFin : Word64 (Fin 16) := ⟨fun x => x.val, fun n => Fin.ofNat 16 n⟩

example : (∀ x : Fin 16, Word64.ofBits (Word64.toBits x) = x) ∧
    (∀ x : Fin 16, Word64.toBits x < 2 ^ 64) := by
  decide

/-- The remaining hypothesis of `C18_save_load` (`hsaved`) is satisfiable: a run with a known method
and `--save-dist-to` does write a file, here 3 words = 24 bytes for 3 records. -/
example :
    (cliOn (α := Fin 16) { outer := .node 1 .leaf .leaf, inner := fun _ => .leaf }
      { method := some "complete", load := none, save := true } 3
      (fun i j => Fin.ofNat 16 (3 * i + 5 * j))).saved
    = some [5, 0, 0, 0, 0, 0, 0, 0, 10, 0, 0, 0, 0, 0, 0, 0, 13, 0, 0, 0, 0, 0, 0, 0] := by
  rw [C18_saved_bytes _ _ .complete _ _ (by decide)]
  decide

end Kodama
