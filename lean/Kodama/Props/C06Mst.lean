/-
C06 for `mst_with` / `linkage_with(.., Method::Single, ..)` — on tie-free input they return THE
greedy-valid dendrogram, hence agree with `primitive_with(.., Method::Single, ..)` and with every
greedy-valid reference, step for step (labels, sizes and heights).

Entry points: `mst_with` (model `mstWith`), `linkage_with` with `Method::Single`, compared with
`primitive_with` with `Method::Single` (model `primitiveWith … .single`); both build modes, every
prior state, every valid shape `2 ≤ n < 2^31`, `2·len = n(n-1)`.

Hypotheses (explicit): `OrderLaws α`, `LtTrichotomy α` (incomparable ⇒ equal; FALSE for IEEE floats
because of `±0` and NaN — these are exact-order statements, as `C03_mst` and `C03_primitive_single`
are), `NoNaN n data`, `InfTop n data` (the sentinel `T::infinity()` is not NaN and not strictly
below an entry), and TIE-FREENESS (`Spec.TieFreeFrom`: at every state of the replay the merged pair
is the strict minimum over the live pairs) of one greedy-valid run — a reference, or either output.
With ties two greedy runs may legitimately differ, so nothing is claimed without it.

* `C06_mst_unique`          `mstWith`'s steps ARE the steps of any tie-free greedy-valid reference
                            (`C03_mst` + `C06_unique`).
* `C06_mst_unique_self`     tie-freeness placed on the run of the output itself: every greedy-valid
                            list equals the output.
* `C06_mst_modes`           on tie-free input the returned steps depend neither on the build mode
                            nor on the prior state.
* `C06_mst_primitive_agree` both `primitiveWith … .single` and `mstWith` return, both outputs are
                            greedy-valid, and if the run of either is tie-free the two step lists are
                            EQUAL.  `C06_mst_primitive_agree_of_runs`: the same for given runs.
* `C06_mst_linkage_single`  the same for `linkageWith … .single` against a reference.
* `C06_mst_primitive_agree_exact`  exact arithmetic (`ExactLaws K`): the only hypotheses left are
                            the shape, "no entry exceeds the sentinel" and tie-freeness.  This is
                            `C06_primitive_mst_statement` of `Props/C06.lean` with the sentinel
                            hypothesis it lacks (for `fieldNum K` the sentinel is `0`).
-/
import Kodama.Props.C03Mst
import Kodama.Props.C06
namespace Kodama
open Spec
variable {α : Type} [Num α]

/-- **C06 for `mst_with`**: on tie-free input the returned steps are the steps of any greedy-valid
dendrogram of the same matrix. -/
theorem C06_mst_unique (L : OrderLaws α) (T : LtTrichotomy α) (chk : Bool) (st st' : State α)
    (d d' : Dendrogram α) (data : Array α) (n : Nat) (M' : Mat α) (h2 : 2 ≤ n)
    (hs : n < 2147483648) (hl : 2 * data.size = n * (n - 1)) (hnan : NoNaN n data)
    (hinf : InfTop n data) (hrun : mstWith chk st d data n = .ok (st', d', M'))
    (steps₀ : List (Step α)) (h₀ : GreedyValid .single n data steps₀)
    (htf : TieFreeFrom .single (init .single n data) steps₀) : d'.steps.toList = steps₀ :=
  (C06_unique .single n data steps₀ _ h₀
    (C03_mst L T chk st st' d d' data n M' h2 hs hl hnan hinf hrun) htf).symm

/-- The same with the tie-freeness hypothesis on the run of the returned steps. -/
theorem C06_mst_unique_self (L : OrderLaws α) (T : LtTrichotomy α) (chk : Bool) (st st' : State α)
    (d d' : Dendrogram α) (data : Array α) (n : Nat) (M' : Mat α) (h2 : 2 ≤ n)
    (hs : n < 2147483648) (hl : 2 * data.size = n * (n - 1)) (hnan : NoNaN n data)
    (hinf : InfTop n data) (hrun : mstWith chk st d data n = .ok (st', d', M'))
    (htf : TieFreeFrom .single (init .single n data) d'.steps.toList)
    (steps₂ : List (Step α)) (h₂ : GreedyValid .single n data steps₂) :
    steps₂ = d'.steps.toList :=
  (C06_unique .single n data _ steps₂
    (C03_mst L T chk st st' d d' data n M' h2 hs hl hnan hinf hrun) h₂ htf).symm

/-- On tie-free input the steps returned by `mst_with` depend neither on the build mode nor on the
prior state. -/
theorem C06_mst_modes (L : OrderLaws α) (T : LtTrichotomy α) (chk₁ chk₂ : Bool)
    (st₁ st₂ : State α) (d₁ d₂ : Dendrogram α) (data : Array α) (n : Nat) (h2 : 2 ≤ n)
    (hs : n < 2147483648) (hl : 2 * data.size = n * (n - 1)) (hnan : NoNaN n data)
    (hinf : InfTop n data) (steps₀ : List (Step α)) (h₀ : GreedyValid .single n data steps₀)
    (htf : TieFreeFrom .single (init .single n data) steps₀) :
    ∃ r₁ r₂, mstWith chk₁ st₁ d₁ data n = .ok r₁ ∧ mstWith chk₂ st₂ d₂ data n = .ok r₂ ∧
      r₁.2.1.steps.toList = steps₀ ∧ r₂.2.1.steps.toList = steps₀ := by
  obtain ⟨⟨s1, e1, M1⟩, hr1⟩ := C04_mst_total L chk₁ st₁ d₁ data n h2 hs hl hnan hinf
  obtain ⟨⟨s2, e2, M2⟩, hr2⟩ := C04_mst_total L chk₂ st₂ d₂ data n h2 hs hl hnan hinf
  exact ⟨_, _, hr1, hr2,
    C06_mst_unique L T chk₁ st₁ s1 d₁ e1 data n M1 h2 hs hl hnan hinf hr1 steps₀ h₀ htf,
    C06_mst_unique L T chk₂ st₂ s2 d₂ e2 data n M2 h2 hs hl hnan hinf hr2 steps₀ h₀ htf⟩

/-- **`primitive_with(Single)` and `mst_with` agree on tie-free input**: both return, both outputs
are greedy runs of the specification, and if the run of either output never meets a tie the two
step lists are equal. -/
theorem C06_mst_primitive_agree (L : OrderLaws α) (T : LtTrichotomy α) (chk₁ chk₂ : Bool)
    (st₁ st₂ : State α) (d₁ d₂ : Dendrogram α) (data : Array α) (n : Nat) (h2 : 2 ≤ n)
    (hs : n < 2147483648) (hl : 2 * data.size = n * (n - 1)) (hnan : NoNaN n data)
    (hinf : InfTop n data) :
    ∃ sp dp Mp sm dm Mm,
      primitiveWith chk₁ .single st₁ d₁ data n = .ok (sp, dp, Mp) ∧
      mstWith chk₂ st₂ d₂ data n = .ok (sm, dm, Mm) ∧
      GreedyValid .single n data dp.steps.toList ∧
      GreedyValid .single n data dm.steps.toList ∧
      (TieFreeFrom .single (init .single n data) dp.steps.toList ∨
          TieFreeFrom .single (init .single n data) dm.steps.toList →
        dp.steps.toList = dm.steps.toList) := by
  obtain ⟨sp, dp, Mp, hp, hgp⟩ := C03_primitive_single L T chk₁ st₁ d₁ data n h2 hs hl
    (initNoNaN_single_of_noNaN hnan)
  obtain ⟨sm, dm, Mm, hm, hgm⟩ := C03_mst_total L T chk₂ st₂ d₂ data n h2 hs hl hnan hinf
  refine ⟨sp, dp, Mp, sm, dm, Mm, hp, hm, hgp, hgm, ?_⟩
  rintro (ht | ht)
  · exact C06_unique .single n data _ _ hgp hgm ht
  · exact (C06_unique .single n data _ _ hgm hgp ht).symm

/-- The same for given successful runs and a tie-free greedy-valid reference: both outputs ARE the
reference. -/
theorem C06_mst_primitive_agree_of_runs (L : OrderLaws α) (T : LtTrichotomy α)
    (chk₁ chk₂ : Bool) (st₁ st₂ sp sm : State α) (d₁ d₂ dp dm : Dendrogram α) (data : Array α)
    (n : Nat) (Mp Mm : Mat α) (h2 : 2 ≤ n) (hs : n < 2147483648)
    (hl : 2 * data.size = n * (n - 1)) (hnan : NoNaN n data) (hinf : InfTop n data)
    (hp : primitiveWith chk₁ .single st₁ d₁ data n = .ok (sp, dp, Mp))
    (hm : mstWith chk₂ st₂ d₂ data n = .ok (sm, dm, Mm))
    (steps₀ : List (Step α)) (h₀ : GreedyValid .single n data steps₀)
    (htf : TieFreeFrom .single (init .single n data) steps₀) :
    dp.steps.toList = steps₀ ∧ dm.steps.toList = steps₀ := by
  obtain ⟨sp', dp', Mp', hp', hgp⟩ := C03_primitive_single L T chk₁ st₁ d₁ data n h2 hs hl
    (initNoNaN_single_of_noNaN hnan)
  rw [hp] at hp'
  simp only [Except.ok.injEq, Prod.mk.injEq] at hp'
  obtain ⟨-, rfl, -⟩ := hp'
  exact ⟨(C06_unique .single n data steps₀ _ h₀ hgp htf).symm,
    C06_mst_unique L T chk₂ st₂ sm d₂ dm data n Mm h2 hs hl hnan hinf hm steps₀ h₀ htf⟩

/-- **C06 through `linkage_with(.., Method::Single, ..)`.** -/
theorem C06_mst_linkage_single (L : OrderLaws α) (T : LtTrichotomy α) (chk : Bool)
    (st st' : State α) (d d' : Dendrogram α) (data : Array α) (n : Nat) (M' : Mat α) (h2 : 2 ≤ n)
    (hs : n < 2147483648) (hl : 2 * data.size = n * (n - 1)) (hnan : NoNaN n data)
    (hinf : InfTop n data) (hrun : linkageWith chk .single st d data n = .ok (st', d', M'))
    (steps₀ : List (Step α)) (h₀ : GreedyValid .single n data steps₀)
    (htf : TieFreeFrom .single (init .single n data) steps₀) : d'.steps.toList = steps₀ := by
  rw [linkage_single_eq] at hrun
  exact C06_mst_unique L T chk st st' d d' data n M' h2 hs hl hnan hinf hrun steps₀ h₀ htf

/-! ## Exact arithmetic -/

section Exact
variable {K : Type} [Field K] [LinearOrder K] [Num K]

/-- `C06_mst_primitive_agree` in exact arithmetic; `hinf`: no entry exceeds the sentinel. -/
theorem C06_mst_primitive_agree_exact (E : ExactLaws K) (chk₁ chk₂ : Bool) (st₁ st₂ : State K)
    (d₁ d₂ : Dendrogram K) (data : Array K) (n : Nat) (h2 : 2 ≤ n) (hs : n < 2147483648)
    (hl : 2 * data.size = n * (n - 1))
    (hinf : ∀ u v, u < n → v < n → u ≠ v →
      entry n data Num.infinity u v ≤ (Num.infinity : K))
    (steps₀ : List (Step K)) (h₀ : GreedyValid .single n data steps₀)
    (htf : TieFreeFrom .single (init .single n data) steps₀) :
    ∃ sp dp Mp sm dm Mm,
      primitiveWith chk₁ .single st₁ d₁ data n = .ok (sp, dp, Mp) ∧
      mstWith chk₂ st₂ d₂ data n = .ok (sm, dm, Mm) ∧
      dp.steps.toList = steps₀ ∧ dm.steps.toList = steps₀ := by
  have hnan : NoNaN n data := fun _ _ _ _ _ => E.noNaN _
  have hinf' : InfTop n data :=
    ⟨E.noNaN _, fun u v hu hv huv => E.field.lt_false.2 (hinf u v hu hv huv)⟩
  obtain ⟨sp, dp, Mp, sm, dm, Mm, hp, hm, -, -, -⟩ :=
    C06_mst_primitive_agree E.field.orderLaws E.field.ltTrichotomy chk₁ chk₂ st₁ st₂ d₁ d₂ data n
      h2 hs hl hnan hinf'
  obtain ⟨e1, e2⟩ := C06_mst_primitive_agree_of_runs E.field.orderLaws E.field.ltTrichotomy
    chk₁ chk₂ st₁ st₂ sp sm d₁ d₂ dp dm data n Mp Mm h2 hs hl hnan hinf' hp hm steps₀ h₀ htf
  exact ⟨sp, dp, Mp, sm, dm, Mm, hp, hm, e1, e2⟩

end Exact

/-! ### Non-vacuity -/

section NonVacuity
attribute [local instance] Toy.natNum

/-- Condensed matrix `d01=5 d02=9 d03=7 d12=8 d13=6 d23=1` (tie-free). -/
private def exData : Array Nat := #[5, 9, 7, 8, 6, 1]
private def exSteps : List (Step Nat) := [⟨2, 3, 1, 2⟩, ⟨0, 1, 5, 2⟩, ⟨4, 5, 6, 4⟩]

private theorem exNoNaN : NoNaN 4 exData := fun _ _ _ _ _ => rfl

private theorem exInfTop : InfTop 4 exData := by
  refine ⟨rfl, ?_⟩
  have : ∀ u, u < 4 → ∀ v, v < 4 → u ≠ v →
      Num.lt (Num.infinity : Nat) (entry 4 exData Num.infinity u v) = false := by decide
  intro u v hu hv huv
  exact this u hu v hv huv

/-- All hypotheses hold of a concrete tie-free instance: `mstWith` and `primitiveWith … .single`
both return exactly the hand-written greedy run. -/
example : ∃ sp dp Mp sm dm Mm,
    primitiveWith true .single State.new (Dendrogram.new 0) exData 4 = .ok (sp, dp, Mp) ∧
    mstWith false State.new (Dendrogram.new 4) exData 4 = .ok (sm, dm, Mm) ∧
    dp.steps.toList = exSteps ∧ dm.steps.toList = exSteps := by
  obtain ⟨sp, dp, Mp, sm, dm, Mm, hp, hm, -, -, -⟩ :=
    C06_mst_primitive_agree Toy.natOrderLaws Toy.natTrichotomy true false State.new State.new
      (Dendrogram.new 0) (Dendrogram.new 4) exData 4 (by decide) (by decide) (by decide)
      exNoNaN exInfTop
  obtain ⟨e1, e2⟩ := C06_mst_primitive_agree_of_runs Toy.natOrderLaws Toy.natTrichotomy true false
    _ _ sp sm _ _ dp dm exData 4 Mp Mm (by decide) (by decide) (by decide) exNoNaN exInfTop hp hm
    exSteps (by decide) (by decide)
  exact ⟨sp, dp, Mp, sm, dm, Mm, hp, hm, e1, e2⟩

end NonVacuity

/-! ### Non-vacuity over `ℚ` (an exact instance with sentinel `1000`) -/

section ExactExample

/-- `fieldNum ℚ` with the sentinels set to `1000`. -/
@[reducible] private def qNumInf : Num ℚ := { fieldNum ℚ with maxValue := 1000, infinity := 1000 }

private theorem qNumInf_exact : @ExactLaws ℚ _ _ qNumInf :=
  @ExactLaws.mk ℚ _ _ qNumInf
    (@FieldLaws.mk ℚ _ _ qNumInf (fun _ _ => rfl) (fun _ _ => rfl) (fun _ _ => rfl)
      (fun _ _ => rfl) (fun _ _ => rfl) (fun _ => rfl) rfl rfl)
    (fun _ => rfl)

attribute [local instance] qNumInf

/-- `d01 = 5, d02 = 2, d12 = 9`. -/
private def exQ : Array ℚ := #[5, 2, 9]
private def exQSteps : List (Step ℚ) := [⟨0, 2, 2, 2⟩, ⟨1, 3, 5, 3⟩]

private theorem exQ_inf : ∀ u v, u < 3 → v < 3 → u ≠ v →
    entry 3 exQ Num.infinity u v ≤ (Num.infinity : ℚ) := by
  have : ∀ u, u < 3 → ∀ v, v < 3 → u ≠ v →
      entry 3 exQ Num.infinity u v ≤ (Num.infinity : ℚ) := by decide
  intro u v hu hv huv
  exact this u hu v hv huv

/-- The exact corollary on a rational instance: both algorithms return the reference run. -/
example : ∃ sp dp Mp sm dm Mm,
    primitiveWith true .single State.new (Dendrogram.new 0) exQ 3 = .ok (sp, dp, Mp) ∧
    mstWith false State.new (Dendrogram.new 3) exQ 3 = .ok (sm, dm, Mm) ∧
    dp.steps.toList = exQSteps ∧ dm.steps.toList = exQSteps :=
  C06_mst_primitive_agree_exact qNumInf_exact true false _ _ _ _ exQ 3 (by decide) (by decide)
    (by decide) exQ_inf exQSteps (by decide) (by decide)

end ExactExample

end Kodama
