/-
C09 — scale equivariance: multiplying every input dissimilarity by 2ᵏ multiplies every output
height by 2ᵏ and changes nothing else.

`s : α → α` is the scaling map ("multiply by 2ᵏ").  What is assumed of it is the bundle
`ScaleLaws s` — HYPOTHESES, not axioms:

  order      `lt`, `beq`, `isNaN` are preserved,
  arithmetic `s (a+b) = s a + s b`, `s (a-b) = s a - s b`, `s (c*x) = c * s x`,
             `s (x*c) = s x * c`, `s (x/c) = s x / c`,
  roots      `sqrt (s (s x)) = s (sqrt x)`.

All of them are true of IEEE f32/f64 and `s = (· × 2ᵏ)` as long as no intermediate result
overflows or becomes subnormal (multiplication by a power of two is exact and commutes with
correctly rounded `+ - * / sqrt`); they are false at the edges of the exponent range, which is why
the run-time oracle keeps to the safe range.  They are assumed for ALL values; the intended reading
for floats is "for all values that occur in the run".

THE SENTINELS.  `×2ᵏ` fixes `T::infinity()` but NOT `T::max_value()`.  The model (like the Rust
code) uses
  * `T::infinity()` as the initial `min_dists` entry of `mst`  — hypothesis `s ∞ = ∞`, needed only
    for the calls that reach `mst` (`usesInf`), true of IEEE floats for every k;
  * `T::max_value()` in `generic` only (`usesMax`): initial minimum of the repair loop, priority of
    the last row, and the priority given to a row whose scan finds nothing.  These values are only
    ever COMPARED (`<`, `==`) with matrix cells and with each other — never fed into a formula,
    never output.  So instead of `s MAX = MAX` (false for floats) the theorem assumes
    `SentinelSafe s`:
        `s x < MAX ↔ x < MAX`,   `MAX < s x ↔ MAX < x`,   `s x == MAX ↔ x == MAX`
    which is true of IEEE floats for every `x` whose scaling does not overflow AND with `x ≠ MAX`,
    `s x ≠ MAX` (and for ±∞, NaN).  (CORRECTED after the law sampler `kodama-laws` found the
    counterexamples `x = MAX, k < 0` (`s x < MAX` but not `x < MAX`) and `x = MAX/2, k = 1`
    (`s x == MAX` but not `x == MAX`): an entry equal to `T::max_value()` or mapped onto it is outside
    the property's safe magnitude range anyway — its square overflows — and is excluded by `GoodSet`'s
    `ltMax` in every generic theorem; sampled as `SentinelSafe.*[scale,guard=strict]`.)  `s MAX = MAX` is the special case
    `SentinelSafe.of_fix`.  The proof (`Lemmas/NaturalityGenericRel.lean`) relates the heap
    priorities of the two runs by "image under `s`, or both are `MAX`".
  primitive, nnchain, mst and `linkage` for single/complete/average/weighted/Ward need no
  hypothesis about `MAX` at all (`C09_usesMax_false`).

Proved here, for the model, from these hypotheses (via `runWith_natural_safe`):

* `C09_formulas`     every generated update formula (`Gen.single … Gen.median`, regenerated from
                     `src/method.rs` on every run) commutes with `s`; hence also with `s ∘ s`, the map
                     on squared dissimilarities that Ward / centroid / median work with.
* `C09`              FULL statement for every entry point (`runWith`: primitive, nnchain, generic, mst,
                     linkage), every method, both build modes, every input and `n`, and ARBITRARY,
                     unrelated prior states/dendrograms on the two sides:  the call on `data.map s`
                     returns the dendrogram with the same labels and sizes and every height mapped
                     by `s`, leaves the matrix mapped by `s` (by `s ∘ s` for the methods that square
                     it), or panics with the same class.
* `C09_ok`, `C09_panic`  the same in elementary terms.
* `C09_rescaled_sentinels`  a variant with NO sentinel hypothesis at all: scaling the data by `s`
                     *and* replacing the two sentinel constants by their images gives the scaled
                     result (the naturality theorem relates two different `Num` instances).
* `C09_no_constants` the generated formulas read nothing of the number interface except
                     `lt add sub mul div ofNat half quarter`: two `Num` instances that agree on these
                     give the same seven formulas (so no sentinel, no `sqrt`/`abs`, no other literal
                     can occur in them).  Why this is the whole story: the translator's grammar for
                     `src/method.rs` has productions only for `+ - * /`, `<`, `from_usize(size)`,
                     `from_float(0.5)` and `from_float(0.25)`; any other literal would be emitted as
                     the undefined identifier `Gen.literal`, `Generated/Method.lean` would not compile,
                     and this file (which unfolds all seven definitions) would not build.

Not proved: that floats satisfy `ScaleLaws` / `SentinelSafe` on the safe range (trusted; tested
bit-for-bit by the C09 oracle on every drawn case).  The hypotheses quantify over all values, so
for floats they are idealisations (as every law bundle here that mentions arithmetic).
-/
import Kodama.Lemmas.NaturalitySafe
import Kodama.Lemmas.AverageClamp
import Kodama.Lemmas.WardClamp
namespace Kodama
variable {α : Type} [Num α]

/-- What is assumed of "multiply by 2ᵏ". -/
structure ScaleLaws (s : α → α) : Prop where
  ord : OrdHom s
  add : ∀ a b, s (Num.add a b) = Num.add (s a) (s b)
  sub : ∀ a b, s (Num.sub a b) = Num.sub (s a) (s b)
  mul_left : ∀ c x, s (Num.mul c x) = Num.mul c (s x)
  mul_right : ∀ x c, s (Num.mul x c) = Num.mul (s x) c
  div : ∀ x c, s (Num.div x c) = Num.div (s x) c
  sqrt : ∀ x, Num.sqrt (s (s x)) = s (Num.sqrt x)

/-- The map on the values the main loop works with: `s` itself, or `s ∘ s` on squares. -/
def scale₂ (m : Method) (s : α → α) : α → α := if m.onSquares then s ∘ s else s

/-- Every generated update formula commutes with the scaling map. -/
theorem C09_formulas {s : α → α} (L : ScaleLaws s) (m : Method) : UpdHom m s := by
  cases m
  · exact L.ord.single
  · exact L.ord.complete
  · intro a b sa sb
    -- the mean commutes with `s` (arithmetic laws); the clamp only compares and selects (`ord.lt`)
    refine Gen.average_hom L.ord.lt a b sa sb ?_
    simp only [Gen.averageMean, ← L.add, ← L.mul_left, ← L.div]
  · intro a b
    simp only [Gen.weighted, ← L.add, ← L.mul_left]
  · intro a b d sa sb sx
    -- the quotient commutes with `s` (arithmetic laws); guard and clamp only compare and select
    refine Gen.ward_hom L.ord.lt a b d sa sb sx ?_
    simp only [Gen.wardValue, ← L.add, ← L.sub, ← L.mul_left, ← L.div]
  · intro a b d sa sb
    simp only [Gen.centroid, ← L.add, ← L.sub, ← L.mul_left, ← L.div]
  · intro a b d
    simp only [Gen.median, ← L.add, ← L.sub, ← L.mul_left, ← L.mul_right]

theorem OrdHom.comp {β γ : Type} [Num β] [Num γ] {f : α → β} {g : β → γ} (F : OrdHom f)
    (G : OrdHom g) : OrdHom (g ∘ f) :=
  ⟨fun a b => by simp only [Function.comp, G.lt, F.lt],
   fun a b => by simp only [Function.comp, G.beq, F.beq],
   fun a => by simp only [Function.comp, G.isNaN, F.isNaN]⟩

theorem UpdHom.comp {β γ : Type} [Num β] [Num γ] {m : Method} {f : α → β} {g : β → γ}
    (F : UpdHom m f) (G : UpdHom m g) : UpdHom m (g ∘ f) := by
  cases m <;> simp only [UpdHom, Function.comp] at F G ⊢
  all_goals (intros; rw [F, G])

/-- `s` on inputs/outputs and `scale₂ m s` inside the loop form a homomorphism for method `m`. -/
theorem ScaleLaws.hom {s : α → α} (L : ScaleLaws s) (m : Method) : Hom m s (scale₂ m s) := by
  unfold scale₂
  cases ho : m.onSquares
  · exact ⟨L.ord, C09_formulas L m, SqHom.refl m ho s⟩
  · refine ⟨L.ord.comp L.ord, (C09_formulas L m).comp (C09_formulas L m), ?_, ?_, ?_⟩
    · intro _ x
      show s (s (Num.mul x x)) = Num.mul (s x) (s x)
      rw [L.mul_left, L.mul_right]
    · intro _ x
      exact L.sqrt x
    · intro e; rw [ho] at e; cases e

omit [Num α] in
theorem scale₂_fix {s : α → α} (m : Method) {c : α} (h : s c = c) : scale₂ m s c = c := by
  unfold scale₂; split
  · simp only [Function.comp, h]
  · exact h

theorem scale₂_safe {s : α → α} (m : Method) (h : SentinelSafe s) : SentinelSafe (scale₂ m s) := by
  unfold scale₂; split
  · exact h.comp h
  · exact h

/-- **C09.**  Labels and sizes identical, every height mapped by `s`, the matrix left behind mapped
by `scale₂ m s`, same panic class; for any prior objects on either side. -/
theorem C09 {s : α → α} (L : ScaleLaws s) (chk : Bool) (alg : Alg) (m : Method)
    (hmax : usesMax alg m = true → SentinelSafe s)
    (hinf : usesInf alg m = true → s Num.infinity = Num.infinity)
    (st st' : State α) (d d' : Dendrogram α) (data : Array α) (n : Nat) :
    out <$> runWith chk alg m st' d' (data.map s) n
      = mapOut s (scale₂ m s) <$> (out <$> runWith chk alg m st d data n) :=
  runWith_natural_safe (L.hom m) (fun e => scale₂_safe m (hmax e))
    (fun e => scale₂_fix m (hinf e)) chk st st' d d' data n

/-- No `max_value` hypothesis for the entry points that do not go through `generic`. -/
theorem C09_usesMax_false (alg : Alg) (m : Method)
    (h : alg = .primitive ∨ alg = .nnchain ∨ alg = .mst ∨
      (alg = .linkage ∧ m ≠ .centroid ∧ m ≠ .median)) : usesMax alg m = false := by
  rcases h with rfl | rfl | rfl | ⟨rfl, h1, h2⟩
  · rfl
  · rfl
  · rfl
  · cases m <;> simp [usesMax, dispatch, Method.intoMethodChain] at h1 h2 ⊢

/-- A successful call stays successful, with the mapped dendrogram. -/
theorem C09_ok {s : α → α} (L : ScaleLaws s) (chk : Bool) (alg : Alg) (m : Method)
    (hmax : usesMax alg m = true → SentinelSafe s)
    (hinf : usesInf alg m = true → s Num.infinity = Num.infinity)
    (st st' : State α) (d d' : Dendrogram α) (data : Array α) (n : Nat)
    (st1 : State α) (d1 : Dendrogram α) (M1 : Mat α)
    (h : runWith chk alg m st d data n = .ok (st1, d1, M1)) :
    ∃ st2, runWith chk alg m st' d' (data.map s) n
      = .ok (st2, mapDend s d1, mapMat (scale₂ m s) M1) := by
  have := C09 L chk alg m hmax hinf st st' d d' data n
  rw [h] at this
  cases h' : runWith chk alg m st' d' (data.map s) n with
  | error p => rw [h'] at this; cases this
  | ok r =>
    rw [h'] at this
    obtain ⟨st2, d2, M2⟩ := r
    simp only [map_ok', out, mapOut, Except.ok.injEq, Prod.mk.injEq] at this
    exact ⟨st2, by rw [this.1, this.2]⟩

/-- A panicking call panics with the same class. -/
theorem C09_panic {s : α → α} (L : ScaleLaws s) (chk : Bool) (alg : Alg) (m : Method)
    (hmax : usesMax alg m = true → SentinelSafe s)
    (hinf : usesInf alg m = true → s Num.infinity = Num.infinity)
    (st st' : State α) (d d' : Dendrogram α) (data : Array α) (n : Nat) (p : Panic)
    (h : runWith chk alg m st d data n = .error p) :
    runWith chk alg m st' d' (data.map s) n = .error p := by
  have := C09 L chk alg m hmax hinf st st' d d' data n
  rw [h] at this
  cases h' : runWith chk alg m st' d' (data.map s) n with
  | error q => rw [h'] at this; simpa using this
  | ok r => rw [h'] at this; cases this

/-! ### Without sentinel hypotheses: rescale the sentinels too -/

/-- The same number interface with the two sentinel constants replaced. -/
@[reducible] def withSentinels (I : Num α) (mx inf : α) : Num α :=
  { I with maxValue := mx, infinity := inf }

omit [Num α] in
theorem C09_rescaled_sentinels {I : Num α} {s : α → α} (L : @ScaleLaws α I s) (chk : Bool)
    (alg : Alg) (m : Method) (st st' : State α) (d d' : Dendrogram α) (data : Array α) (n : Nat) :
    out <$>
        @runWith α (withSentinels I (scale₂ m s I.maxValue) (scale₂ m s I.infinity))
          chk alg m st' d' (data.map s) n
      = @mapOut α α s (scale₂ m s) <$> (out <$> @runWith α I chk alg m st d data n) := by
  have A := @ScaleLaws.hom α I s L m
  let J : Num α := withSentinels I (scale₂ m s I.maxValue) (scale₂ m s I.infinity)
  have A1 : @OrdHom α α I I (scale₂ m s) := @Hom.ord α α I I m s _ A
  have A2 : @UpdHom α α I I m (scale₂ m s) := @Hom.upd α α I I m s _ A
  have A3 : @SqHom α α I I m s (scale₂ m s) := @Hom.sq α α I I m s _ A
  have ord : @OrdHom α α I J (scale₂ m s) :=
    @OrdHom.mk α α I J _ (@OrdHom.lt α α I I _ A1) (@OrdHom.beq α α I I _ A1)
      (@OrdHom.isNaN α α I I _ A1)
  have upd : @UpdHom α α I J m (scale₂ m s) := A2
  have sq : @SqHom α α I J m s (scale₂ m s) :=
    @SqHom.mk α α I J m s _ (@SqHom.sq α α I I m s _ A3) (@SqHom.sqrt α α I I m s _ A3)
      (@SqHom.same α α I I m s _ A3)
  exact @runWith_natural_out α α I J m s _ (@Hom.mk α α I J m s _ ord upd sq) alg
    (fun _ => rfl) (fun _ => rfl) chk st st' d d' data n

/-! ### The formulas read only `lt add sub mul div ofNat half quarter` -/

omit [Num α] in
theorem C09_no_constants (I J : Num α) (hlt : I.lt = J.lt) (hadd : I.add = J.add)
    (hsub : I.sub = J.sub) (hmul : I.mul = J.mul) (hdiv : I.div = J.div)
    (hofNat : I.ofNat = J.ofNat) (hhalf : I.half = J.half) (hquarter : I.quarter = J.quarter) :
    @Gen.single α I = @Gen.single α J ∧ @Gen.complete α I = @Gen.complete α J ∧
    @Gen.average α I = @Gen.average α J ∧ @Gen.weighted α I = @Gen.weighted α J ∧
    @Gen.ward α I = @Gen.ward α J ∧ @Gen.centroid α I = @Gen.centroid α J ∧
    @Gen.median α I = @Gen.median α J := by
  refine ⟨?_, ?_, ?_, ?_, ?_, ?_, ?_⟩
  · funext a b; simp only [Gen.single, hlt]
  · funext a b; simp only [Gen.complete, hlt]
  · funext a b sa sb; simp only [Gen.average, hlt, hadd, hmul, hdiv, hofNat]
  · funext a b; simp only [Gen.weighted, hadd, hmul, hhalf]
  · funext a b d sa sb sx; simp only [Gen.ward, hlt, hadd, hsub, hmul, hdiv, hofNat]
  · funext a b d sa sb; simp only [Gen.centroid, hadd, hsub, hmul, hdiv, hofNat]
  · funext a b d; simp only [Gen.median, hadd, hsub, hmul, hhalf, hquarter]

/-! ### Non-vacuity

(1) The law bundle and the sentinel hypotheses are jointly satisfiable by a map that is not the
identity: exact rationals with a top element (both sentinels), `s = (2 * ·)`.
(2) `SentinelSafe` is strictly weaker than `s MAX = MAX`: the same model with an (unobservable) tag
that `s` sets; there `s MAX ≠ MAX`, yet `ScaleLaws` and `SentinelSafe` hold. -/

namespace C09Example

/-- Exact rationals with a top element `none` that serves as both sentinels. -/
def lift₂ (f : Rat → Rat → Rat) : Option Rat → Option Rat → Option Rat
  | some x, some y => some (f x y)
  | _, _ => none

@[reducible] def numOptRat : Num (Option Rat) where
  lt a b := match a, b with
    | some x, some y => decide (x < y)
    | some _, none => true
    | none, _ => false
  beq a b := decide (a = b)
  add := lift₂ (· + ·)
  sub := lift₂ (· - ·)
  mul := lift₂ (· * ·)
  div := lift₂ (· / ·)
  ofNat n := some n
  half := some (1 / 2)
  quarter := some (1 / 4)
  sqrt a := a.map (fun _ => 0)
  abs a := a
  maxValue := none
  infinity := none
  isNaN _ := false

attribute [local instance] numOptRat

/-- "multiply by 2" -/
def dbl : Option Rat → Option Rat := Option.map (2 * ·)

theorem dbl_laws : ScaleLaws dbl := by
  refine ⟨⟨?_, ?_, ?_⟩, ?_, ?_, ?_, ?_, ?_, ?_⟩
  · intro a b; cases a <;> cases b <;> simp [dbl, Num.lt] <;> grind
  · intro a b; cases a <;> cases b <;> simp [dbl, Num.beq] <;> grind
  · intro a; rfl
  · intro a b; cases a <;> cases b <;> simp [dbl, Num.add, lift₂] <;> grind
  · intro a b; cases a <;> cases b <;> simp [dbl, Num.sub, lift₂] <;> grind
  · intro a b; cases a <;> cases b <;> simp [dbl, Num.mul, lift₂] <;> grind
  · intro a b; cases a <;> cases b <;> simp [dbl, Num.mul, lift₂] <;> grind
  · intro a b; cases a <;> cases b <;> simp [dbl, Num.div, lift₂] <;> grind
  · intro a; cases a <;> simp [dbl, Num.sqrt]

example : ScaleLaws dbl ∧ dbl ≠ id ∧ SentinelSafe dbl ∧ dbl Num.infinity = Num.infinity := by
  refine ⟨dbl_laws, ?_, SentinelSafe.of_fix dbl_laws.ord rfl, rfl⟩
  intro h
  have := congrFun h (some 1)
  simp [dbl] at this

/-- The same numbers with a tag that no comparison looks at. -/
@[reducible] def numTag : Num (Option Rat × Bool) where
  lt a b := Num.lt a.1 b.1
  beq a b := Num.beq a.1 b.1
  add a b := (Num.add a.1 b.1, a.2 || b.2)
  sub a b := (Num.sub a.1 b.1, a.2 || b.2)
  mul a b := (Num.mul a.1 b.1, a.2 || b.2)
  div a b := (Num.div a.1 b.1, a.2 || b.2)
  ofNat n := (Num.ofNat n, false)
  half := (Num.half, false)
  quarter := (Num.quarter, false)
  sqrt a := (Num.sqrt a.1, a.2)
  abs a := a
  maxValue := (Num.maxValue, false)
  infinity := (Num.infinity, false)
  isNaN _ := false

attribute [local instance] numTag

def dblT (a : Option Rat × Bool) : Option Rat × Bool := (dbl a.1, true)

example : ScaleLaws dblT ∧ SentinelSafe dblT ∧ dblT Num.maxValue ≠ Num.maxValue := by
  have L := dbl_laws
  refine ⟨⟨⟨?_, ?_, ?_⟩, ?_, ?_, ?_, ?_, ?_, ?_⟩, ⟨?_, ?_, ?_, rfl⟩, ?_⟩
  · intro a b; exact L.ord.lt a.1 b.1
  · intro a b; exact L.ord.beq a.1 b.1
  · intro a; rfl
  · intro a b; simp only [dblT, Num.add, Bool.or_self]; rw [Prod.mk.injEq]; exact ⟨L.add a.1 b.1, rfl⟩
  · intro a b; simp only [dblT, Num.sub, Bool.or_self]; rw [Prod.mk.injEq]; exact ⟨L.sub a.1 b.1, rfl⟩
  · intro a b; simp only [dblT, Num.mul, Bool.or_true]; rw [Prod.mk.injEq]
    exact ⟨L.mul_left a.1 b.1, rfl⟩
  · intro a b; simp only [dblT, Num.mul, Bool.true_or]; rw [Prod.mk.injEq]
    exact ⟨L.mul_right a.1 b.1, rfl⟩
  · intro a b; simp only [dblT, Num.div, Bool.true_or]; rw [Prod.mk.injEq]
    exact ⟨L.div a.1 b.1, rfl⟩
  · intro a; simp only [dblT, Num.sqrt]; rw [Prod.mk.injEq]; exact ⟨L.sqrt a.1, rfl⟩
  · intro x; exact L.ord.lt x.1 none
  · intro x; exact L.ord.lt none x.1
  · intro x; exact L.ord.beq x.1 none
  · intro h; cases h

end C09Example

end Kodama
