/-
C11 for SINGLE and COMPLETE linkage under hypotheses an IEEE float type satisfies (companion of
`Props/C03NaNFree.lean`, `C04NaNFree.lean`, `C06NaNFree.lean`).

* `C11_single_complete_float`   `data'` is the matrix of the renumbered observations, neither matrix has a NaN
  entry; if the input is tie-free read over the non-NaN subtype modulo order-equivalence (`TieFreeFrom` along a
  greedy-valid reference run `steps₀` of the projected `data`), `primitive_with` and `nnchain_with` applied to
  `data'` return steps that are images of steps `l` over `NonNaN α` with
  `steps₀ = (l projected).map (mapStep (σ π n))`: renumbering only renumbers.  Hypotheses: `OrderLaws α`,
  `BeqOrdOn α`, non-NaN sentinels — no type-level "no NaN", no trichotomy.
-/
import Kodama.Props.C03NaNFree
import Kodama.Props.C11Quotient
set_option linter.unusedSectionVars false
namespace Kodama
open Spec
variable {α : Type} [Num α]

theorem C11_single_complete_float (L : OrderLaws α) (B : BeqOrdOn α)
    (hmax : Num.isNaN (Num.maxValue : α) = false) (hinf : Num.isNaN (Num.infinity : α) = false)
    {m : Method} (hm : m.selectsOnly) (data data' : Array α) (n : Nat) (h2 : 2 ≤ n)
    (hs : n < 2147483648) (hl' : 2 * data'.size = n * (n - 1))
    (hdata : ∀ x ∈ data, Num.isNaN x = false) (hdata' : ∀ x ∈ data', Num.isNaN x = false)
    {π ρ : Nat → Nat} (hπ : IsPerm n π ρ)
    (hperm : ∀ i j, i < n → j < n →
      entry n data' Num.infinity i j = entry n data Num.infinity (π i) (π j)) :
    letI : Num (NonNaN α) := nnNum hmax hinf
    let Ls := nn_orderLaws hmax hinf L
    let hn := nn_noNaN hmax hinf (α := α)
    ∀ (steps₀ : List (Step (OrdQ Ls hn))),
      @GreedyValid _ (ordQNum Ls hn) m n ((nnData data hdata).map (OrdQ.mk Ls hn)) steps₀ →
      @TieFreeFrom _ (ordQNum Ls hn) m
        (@init _ (ordQNum Ls hn) m n ((nnData data hdata).map (OrdQ.mk Ls hn))) steps₀ →
      (∀ (chk : Bool) (st : State α) (d : Dendrogram α),
        ∃ st' e' M', primitiveWith chk m st d data' n = .ok (st', e', M') ∧
          ∃ l : List (Step (NonNaN α)), e'.steps.toList = l.map (mapStep Subtype.val) ∧
            steps₀ = (l.map (mapStep (OrdQ.mk Ls hn))).map (Spec.mapStep (σ π n))) ∧
      (∀ mc : MethodChain, m.intoMethodChain = some mc →
        ∀ (chk : Bool) (st : State α) (d : Dendrogram α),
          ∃ st' e' M', nnchainWith chk mc st d data' n = .ok (st', e', M') ∧
            ∃ l : List (Step (NonNaN α)), e'.steps.toList = l.map (mapStep Subtype.val) ∧
              steps₀ = (l.map (mapStep (OrdQ.mk Ls hn))).map (Spec.mapStep (σ π n))) := by
  intro Ls hn steps₀ h₀ ht
  letI : Num (NonNaN α) := nnNum hmax hinf
  have G := nn_ordHom hmax hinf (α := α)
  have hlS : 2 * (nnData data' hdata').size = n * (n - 1) := by rw [nnData_size]; exact hl'
  -- the renumbering relation between the two matrices over the subtype
  have hpermS : ∀ i j, i < n → j < n →
      entry n (nnData data' hdata') Num.infinity i j =
        entry n (nnData data hdata) Num.infinity (π i) (π j) := by
    intro i j hi hj
    apply Subtype.ext
    have e1 := entry_map (Subtype.val : NonNaN α → α) n (nnData data' hdata') Num.infinity i j
    have e2 := entry_map (Subtype.val : NonNaN α → α) n (nnData data hdata) Num.infinity (π i) (π j)
    rw [nnData_map] at e1 e2
    change entry n data' Num.infinity i j = _ at e1
    change entry n data Num.infinity (π i) (π j) = _ at e2
    rw [← e1, ← e2]
    exact hperm i j hi hj
  have up := C11_single_complete_upTo Ls hn (nn_beqOrd hmax hinf B) hm (nnData data hdata)
    (nnData data' hdata') n h2 hs hlS hπ hpermS steps₀ h₀ ht
  constructor
  · intro chk st d
    obtain ⟨sS, dS, MS, hrS, hg⟩ := up.1 chk (State.new : State (NonNaN α)) (Dendrogram.new 0)
    obtain ⟨st', e', M', hr, l, hP, hl2⟩ := nonNaN_transfer hmax hinf hm .primitive rfl rfl chk st d
      data' n hdata' (fun l => steps₀ = (l.map (mapStep (OrdQ.mk Ls hn))).map (Spec.mapStep (σ π n)))
      ⟨sS, dS, MS, hrS, hg⟩
    exact ⟨st', e', M', hr, l, hl2, hP⟩
  · intro mc hmc chk st d
    obtain ⟨sS, dS, MS, hrS, hg⟩ := up.2 mc hmc chk (State.new : State (NonNaN α)) (Dendrogram.new 0)
    have key := nonNaN_transfer hmax hinf hm .nnchain rfl rfl chk st d data' n hdata'
      (fun l => steps₀ = (l.map (mapStep (OrdQ.mk Ls hn))).map (Spec.mapStep (σ π n)))
    simp only [runWith, hmc] at key
    obtain ⟨st', e', M', hr, l, hP, hl2⟩ := key ⟨sS, dS, MS, hrS, hg⟩
    exact ⟨st', e', M', hr, l, hl2, hP⟩

end Kodama
