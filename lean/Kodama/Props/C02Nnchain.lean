/-
C02 for `nnchain_with`: the matrix the algorithm works on holds, at every time, the DOCUMENTED
linkage criterion of the two clusters (computed from the original matrix), and every height of the
returned dendrogram is the documented criterion of the two clusters it merges.

Scope.  EXACT ARITHMETIC ONLY: `K` a linearly ordered field whose `Num K` instance computes the field
operations and has no NaN (`ExactLaws K`).  IEEE floats are not a field (the closed forms of the
update formulas need associativity/distributivity); the float gap is measured by the oracles.
Entry point `nnchain_with` (model `nnchainWith`), both build modes, every prior state, every valid
matrix `2 ≤ n < 2^31`, `2·len = n(n−1)`, all five chain methods.

* `C02_nnchain_matrix_init`, `C02_nnchain_matrix`  (Stage A, F1) the loop invariant `ChainTreeInv`
      with `R = Crit.Criterion m d`, `d = (Spec.init m n data).D` (the input, squared iff the method
      works on squares): for all live indices `x ≠ y`, `M[x,y]` is the criterion between the merge
      tree of the cluster living at `x` and the one living at `y` (`σ.tree`, trees in execution order:
      `Rnn.IState`), recorded sizes are cluster cardinalities; it holds initially and every outer
      iteration preserves it (reusing `updateRows_dval` through `chainIter_ok_ext`, and
      `C02_lw_criterion`).
* `C02_nnchain_raw_heights`  every RAW recorded height (before the sort) is the criterion of the two
      merged trees, computed from the original matrix.
* `C02_nnchain`  the call returns and every returned step's height is the documented criterion of the
      two clusters it merges (the `Spec.leaves` of its two labels in the returned dendrogram):
      min / max / mean over cross pairs, the tree recursion for weighted, `Num.sqrt` of the Ward
      criterion.  (`C03_nnchain_exact` + `C02_greedy_heights_closed`.)
* `C02_nnchain_of_run`, `C02_linkage_nnchain`  for a given successful run / through `linkage_with`.
-/
import Kodama.Props.C03Nnchain
namespace Kodama
open Spec Crit MTree Finset
variable {K : Type} [Field K] [LinearOrder K] [IsStrictOrderedRing K] [Num K]

/-! ## Stage A: the matrix holds the criteria of the cluster trees -/

/-- The invariant holds before the first iteration. -/
theorem C02_nnchain_matrix_init (E : ExactLaws K) (mc : MethodChain) (data : Array K) (n : Nat)
    (h2 : 2 ≤ n) (hs : n < 2147483648) (hl : 2 * data.size = n * (n - 1)) :
    ChainTreeInv (Criterion mc.intoMethod (init mc.intoMethod n data).D) n 0 (List.range n)
      ({ (State.fresh n : State K) with chain := #[] }) (Dendrogram.new n)
      ({ data := squareData mc.intoMethod data, n := n, acc := 0 } : Mat K) (Rnn.IState.init n) :=
  chainTreeInv_init mc data n h2 hs hl (fun _ _ => E.noNaN _)
    (fun i j _ => Criterion.leaf mc.intoMethod i j)

/-- **F1.**  Every outer iteration of `nnchain_with` keeps the matrix equal to the documented
criterion of the cluster trees: `inv'.table : ∀ x y live, x ≠ y → Criterion m d (tree x) (tree y)
M'[x,y]`. -/
theorem C02_nnchain_matrix (E : ExactLaws K) (chk : Bool) (mc : MethodChain) (data : Array K)
    (n k : Nat) (live : List Nat) (st : State K) (dend : Dendrogram K) (M : Mat K)
    (σ : Rnn.IState) (hk : k + 1 < n)
    (inv : ChainTreeInv (Criterion mc.intoMethod (init mc.intoMethod n data).D) n k live st dend M σ) :
    ∃ st' dend' M' a b, chainIter chk mc ⟨st, dend, M⟩ = .ok ⟨st', dend', M'⟩ ∧
      ChainStepFacts mc n live st dend M st' dend' M' a b ∧
      ChainTreeInv (Criterion mc.intoMethod (init mc.intoMethod n data).D) n (k + 1)
        (live.filter (· ≠ a)) st' dend' M' (σ.merge a b) :=
  chainTreeInv_step E.field.orderLaws chk mc (chainReducible_exact E.field E.noNaN mc)
    (C02_lw_criterion E.field mc.intoMethod _ (init_D_symm mc.intoMethod n data))
    (fun s t v w => Criterion.unique mc.intoMethod s t v w) n k live st dend M σ hk inv

/-- Every raw height recorded by the loop is the documented criterion, computed from the ORIGINAL
matrix, of the two merged clusters (their merge trees in execution order), the two clusters are
reciprocal nearest neighbours for the criterion, and the recorded size is the merged size. -/
theorem C02_nnchain_raw_heights (E : ExactLaws K) (chk : Bool) (mc : MethodChain) (data : Array K)
    (n : Nat) (h2 : 2 ≤ n) (hs : n < 2147483648) (hl : 2 * data.size = n * (n - 1)) :
    ∃ s1 : ChainSt K,
      iterM (chainIter chk mc) (n - 1)
        ⟨{ (State.fresh n : State K) with chain := #[] }, Dendrogram.new n,
          { data := squareData mc.intoMethod data, n := n, acc := 0 }⟩ = .ok s1 ∧
      ∀ (i : Nat) (s : Step K), s1.dend.steps.toList[i]? = some s →
        let σ := Rnn.IState.replay (Rnn.IState.init n) (s1.dend.steps.toList.take i)
        Criterion mc.intoMethod (init mc.intoMethod n data).D (σ.tree s.c1) (σ.tree s.c2) s.d ∧
        s.size = (σ.tree s.c1).leaves.card + (σ.tree s.c2).leaves.card := by
  obtain ⟨s1, e, _, hrun⟩ := C03_nnchain_partial E.field.orderLaws chk mc
    (chainReducible_exact E.field E.noNaN mc)
    (C02_lw_criterion E.field mc.intoMethod _ (init_D_symm mc.intoMethod n data))
    (fun s t v w => Criterion.unique mc.intoMethod s t v w) data n h2 hs hl
    (fun _ _ => E.noNaN _) (fun i j _ => Criterion.leaf mc.intoMethod i j)
  refine ⟨s1, e, fun i s hi => ?_⟩
  have ok := Rnn.rnnFrom_get _ _ i s hrun hi
  exact ⟨ok.height, ok.size⟩

/-! ## The returned heights -/

/-- The documented criterion of each chain method in closed form: `v` is the recorded height of a
step merging the clusters with observation sets `A`, `B` (merge trees `T₁`, `T₂`), `dm` the base
matrix (squared for Ward). -/
def DocCriterion (mc : MethodChain) (dm : Nat → Nat → K) (A B : Finset Nat) (T₁ T₂ : MTree Nat)
    (v : K) : Prop :=
  match mc with
  | .single => IsMinOver dm A B v
  | .complete => IsMaxOver dm A B v
  | .average => v = avg dm A B
  | .weighted => v = wdist dm T₁ T₂
  | .ward => v = Num.sqrt (wardc dm A B)

/-- **C02 for `nnchain_with`, exact arithmetic, all five methods.** -/
theorem C02_nnchain (E : ExactLaws K) (chk : Bool) (mc : MethodChain) (st : State K)
    (d : Dendrogram K) (data : Array K) (n : Nat) (h2 : 2 ≤ n) (hs : n < 2147483648)
    (hl : 2 * data.size = n * (n - 1)) :
    ∃ st' d' M', nnchainWith chk mc st d data n = .ok (st', d', M') ∧
      ∀ (i : Nat) (s : Step K), d'.steps.toList[i]? = some s →
        let steps := d'.steps.toList
        let dm := (Spec.init mc.intoMethod n data).D
        let A := (Spec.leaves n steps steps.length s.c1).toFinset
        let B := (Spec.leaves n steps steps.length s.c2).toFinset
        let T₁ := clusterTree n steps s.c1
        let T₂ := clusterTree n steps s.c2
        DocCriterion mc dm A B T₁ T₂ s.d := by
  obtain ⟨st', d', M', hrun, hg⟩ := C03_nnchain_exact E chk mc st d data n h2 hs hl
  refine ⟨st', d', M', hrun, fun i s hi => ?_⟩
  have h := C02_greedy_heights_closed E.field mc.intoMethod n data d'.steps.toList hg i s hi
  unfold DocCriterion
  cases mc <;> exact h

/-- `C02_nnchain` for a given successful run. -/
theorem C02_nnchain_of_run (E : ExactLaws K) (chk : Bool) (mc : MethodChain) (st st' : State K)
    (d d' : Dendrogram K) (data : Array K) (n : Nat) (M' : Mat K) (h2 : 2 ≤ n)
    (hs : n < 2147483648) (hl : 2 * data.size = n * (n - 1))
    (hrun : nnchainWith chk mc st d data n = .ok (st', d', M'))
    (i : Nat) (s : Step K) (hi : d'.steps.toList[i]? = some s) :
    let steps := d'.steps.toList
    let dm := (Spec.init mc.intoMethod n data).D
    let A := (Spec.leaves n steps steps.length s.c1).toFinset
    let B := (Spec.leaves n steps steps.length s.c2).toFinset
    let T₁ := clusterTree n steps s.c1
    let T₂ := clusterTree n steps s.c2
    DocCriterion mc dm A B T₁ T₂ s.d := by
  have hg := C03_nnchain E chk mc st st' d d' M' data n h2 hs hl hrun
  have h := C02_greedy_heights_closed E.field mc.intoMethod n data d'.steps.toList hg i s hi
  unfold DocCriterion
  cases mc <;> exact h

/-- `C02_nnchain` through `linkage_with` (complete / average / weighted / Ward). -/
theorem C02_linkage_nnchain (E : ExactLaws K) (chk : Bool) (mc : MethodChain) (hm : mc ≠ .single)
    (st : State K) (d : Dendrogram K) (data : Array K) (n : Nat) (h2 : 2 ≤ n)
    (hs : n < 2147483648) (hl : 2 * data.size = n * (n - 1)) :
    ∃ st' d' M', linkageWith chk mc.intoMethod st d data n = .ok (st', d', M') ∧
      ∀ (i : Nat) (s : Step K), d'.steps.toList[i]? = some s →
        let steps := d'.steps.toList
        let dm := (Spec.init mc.intoMethod n data).D
        let A := (Spec.leaves n steps steps.length s.c1).toFinset
        let B := (Spec.leaves n steps steps.length s.c2).toFinset
        let T₁ := clusterTree n steps s.c1
        let T₂ := clusterTree n steps s.c2
        DocCriterion mc dm A B T₁ T₂ s.d := by
  rw [linkageWith_eq_nnchainWith chk mc hm]
  obtain ⟨st', d', M', hrun, h⟩ := C02_nnchain E chk mc st d data n h2 hs hl
  exact ⟨st', d', M', hrun, fun i s hi => h i s hi⟩

/-! ### Non-vacuity over `ℚ` -/

section Example

/-- Average linkage over `fieldNum ℚ` on `d01=1 d02=9 d12=4`: every returned height is the mean over
the cross pairs of the two merged clusters. -/
example : ∃ st' d' M',
    @nnchainWith ℚ (fieldNum ℚ) true .average State.new (Dendrogram.new 0) #[1, 9, 4] 3
      = .ok (st', d', M') ∧
    ∀ (i : Nat) (s : Step ℚ), d'.steps.toList[i]? = some s →
      s.d = avg (@Spec.init ℚ (fieldNum ℚ) .average 3 #[1, 9, 4]).D
        (Spec.leaves 3 d'.steps.toList d'.steps.toList.length s.c1).toFinset
        (Spec.leaves 3 d'.steps.toList d'.steps.toList.length s.c2).toFinset := by
  obtain ⟨st', d', M', hrun, h⟩ := @C02_nnchain ℚ _ _ _ (fieldNum ℚ) (exactLaws_fieldNum ℚ) true
    .average State.new (Dendrogram.new 0) #[1, 9, 4] 3 (by decide) (by decide) (by decide)
  exact ⟨st', d', M', hrun, fun i s hi => h i s hi⟩

end Example

end Kodama
