/-
C02 — the seven Lance–Williams update formulas compute the documented linkage criteria.

EXACT-ARITHMETIC theorems.  Everything below the single/complete block is stated over an arbitrary
linearly ordered field `K` (`[Field K] [LinearOrder K] [IsStrictOrderedRing K]`) whose `Num K`
instance computes the field operations (`FieldLaws K`, a hypothesis bundle — satisfied by
`fieldNum K` / `fieldNumWith K sqrt`, see `Lemmas/FieldNum.lean`).  IEEE floats do NOT satisfy field
laws; the float gap is MEASURED by the correspondence run (model over `Rat` vs. implementation,
tolerances 1e-9·scale for f64 / 1e-3·scale for f32 as in the property), not proved.

Proved here, against the formulas *regenerated from `src/method.rs`* (`Gen.single … Gen.median`; the
proofs unfold them and close by `field_simp`/`ring`, so a changed coefficient, a swapped size or a
dropped term breaks the build).  Notation: clusters are `Finset`s of observations,
`d` a symmetric base dissimilarity (already squared for Ward/centroid/median),
`S(A,B) = Σ_{a∈A,b∈B} d a b`, `W(A) = Σ_{unordered pairs of distinct a,a' ∈ A} d a a'`
(`Lemmas/Criteria.lean`).

* `C02_single`, `C02_complete`     `Gen.single a b = min a b`, `Gen.complete a b = max a b` (any linear
                    order whose `Num.lt` is `<`: `OrderNum`); `C02_single_criterion`,
                    `C02_complete_criterion`: if `a`, `b` are the attained min (max) of `d` over
                    `A×X`, `B×X` then the update is the attained min (max) over `(A∪B)×X`.
* `C02_average`     `Gen.average (avg A X) (avg B X) |A| |B| = avg (A∪B) X`, `avg A B = S(A,B)/(|A||B|)`.
* `C02_weighted`, `C02_weighted_comm`, `C02_weighted_tree`   `Gen.weighted a b = (a+b)/2`; it computes
                    the tree recursion `wdist` whichever side is split, and `wdist` is a function of
                    the two merge trees only (`Crit.wdist_node_right`, `Crit.wdist_symm`).
* `C02_median`, `C02_median_comm`, `C02_median_tree`   `Gen.median a b c = a/2 + b/2 − c/4`; same
                    statements for `mdist` (`Crit.mdist_node_right`, `Crit.mdist_symm`).
* `C02_centroid_recurrence`, `C02_centroid`   with `cen A B = S(A,B)/(|A||B|) − W(A)/|A|² − W(B)/|B|²`
                    (= squared distance of the centroids when `d` is a squared Euclidean distance):
                    `Gen.centroid (cen A X) (cen B X) (cen A B) |A| |B| = cen (A∪B) X`; the
                    `_recurrence` form has the sums abstracted to field elements.
* `C02_ward_recurrence`, `C02_ward`   with `wardc A B = 2|A||B|/(|A|+|B|) · cen A B`:
                    `Gen.ward (wardc A X) (wardc B X) (wardc A B) |A| |B| |X| = wardc (A∪B) X`.
* `C02_lw_criterion`, `C02_spec_invariant`   for ALL seven methods, one `Spec.merge` of the
                    label-based specification (`Spec/Naive.lean`) keeps "every live table entry is the
                    criterion of the two clusters, computed from the base matrix" (`Crit.Inv`,
                    `Crit.Criterion`).
* `C02_greedy_heights`, `C02_greedy_heights_closed`, `C02_greedy_clusters`   for every
                    `Spec.GreedyValid m n data steps` and every step, the recorded height is
                    `Spec.post m` (= `Num.sqrt` for the methods on squares, identity otherwise; `sqrt`
                    completely abstract) of the criterion of the two merged clusters — the clusters
                    of `Spec.leaves` — computed from the ORIGINAL matrix `(Spec.init m n data).D`.

NOT proved: anything about floats (see above); `height² = criterion` for the squared methods (needs
`sqrt v * sqrt v = v` and `0 ≤ criterion`, which fails for centroid/median on non-Euclidean input —
the theorems say `height = Num.sqrt criterion`); that the five Rust algorithms produce a
`GreedyValid` dendrogram (that is C03/C06, via the model's matrix invariant); that `cen` is a squared
centroid distance for Euclidean input (geometry, outside the crate: the crate only sees `d`).

Trusted: the translator (`tools/extract.py`) for `Generated/Method.lean` and `Generated/Tables.lean`
(`Method.onSquares`), additionally exercised by the bit-exact correspondence run; Lean kernel +
Mathlib (`propext`, `Classical.choice`, `Quot.sound`).
-/
import Kodama.Lemmas.FieldNum
import Kodama.Lemmas.Criteria
import Kodama.Lemmas.CriteriaSpec
import Kodama.Generated.Method
import Kodama.Spec.Naive
import Mathlib.Algebra.Order.Field.Rat
import Mathlib.Tactic.NormNum.Basic
import Kodama.Lemmas.FieldInstances
import Kodama.Lemmas.AverageExact
import Kodama.Lemmas.WardExact
import Kodama.Props.C03
namespace Kodama
open Crit Finset

/-! ## 1. single / complete -/

section order
variable {α : Type} [LinearOrder α] [Num α]

theorem C02_single (L : OrderNum α) (a b : α) : Gen.single a b = min a b := by
  unfold Gen.single
  simp only [L.lt, decide_eq_true_eq]
  by_cases h : a < b
  · rw [if_pos h, min_eq_left h.le]
  · rw [if_neg h, min_eq_right (not_lt.mp h)]

theorem C02_complete (L : OrderNum α) (a b : α) : Gen.complete a b = max a b := by
  unfold Gen.complete
  simp only [L.lt, decide_eq_true_eq]
  by_cases h : b < a
  · rw [if_pos h, max_eq_left h.le]
  · rw [if_neg h, max_eq_right (not_lt.mp h)]

variable {ι : Type} [DecidableEq ι] {d : ι → ι → α} {A B X : Finset ι} {a b : α}

theorem C02_single_criterion (L : OrderNum α) (ha : IsMinOver d A X a) (hb : IsMinOver d B X b) :
    IsMinOver d (A ∪ B) X (Gen.single a b) := by
  rw [C02_single L]; exact ha.union_left hb

theorem C02_complete_criterion (L : OrderNum α) (ha : IsMaxOver d A X a) (hb : IsMaxOver d B X b) :
    IsMaxOver d (A ∪ B) X (Gen.complete a b) := by
  rw [C02_complete L]; exact ha.union_left hb

end order

section field
variable {K : Type} [Field K] [LinearOrder K] [IsStrictOrderedRing K] [Num K]
variable {ι : Type} [DecidableEq ι]

omit [Num K] in
private theorem cast_ne {n : Nat} (h : 0 < n) : (n : K) ≠ 0 := Nat.cast_ne_zero.mpr (by omega)
omit [Num K] in
private theorem cast_add_ne {n m : Nat} (h : 0 < n) : (n : K) + (m : K) ≠ 0 := by
  exact_mod_cast (by omega : n + m ≠ 0)

/-! ## 2. average -/

theorem C02_average_recurrence (L : FieldLaws K) (sAX sBX : K) (na nb nx : Nat)
    (ha : 0 < na) (hb : 0 < nb) (hx : 0 < nx) :
    Gen.average (sAX / ((na : K) * nx)) (sBX / ((nb : K) * nx)) na nb
      = (sAX + sBX) / (((na : K) + nb) * nx) := by
  -- exact arithmetic, positive sizes: the clamp of `method::average` is a no-op
  rw [L.average_eq_mean _ _ na nb (by omega)]
  have h1 := cast_ne (K := K) ha
  have h2 := cast_ne (K := K) hb
  have h3 := cast_ne (K := K) hx
  have h4 := cast_add_ne (K := K) (m := nb) ha
  field_simp

theorem C02_average (L : FieldLaws K) (d : ι → ι → K) (A B X : Finset ι) (hAB : Disjoint A B)
    (hA : A.Nonempty) (hB : B.Nonempty) (hX : X.Nonempty) :
    Gen.average (avg d A X) (avg d B X) A.card B.card = avg d (A ∪ B) X := by
  unfold avg
  rw [C02_average_recurrence L _ _ _ _ _ hA.card_pos hB.card_pos hX.card_pos,
    S_union_left hAB, card_union_of_disjoint hAB, Nat.cast_add]

/-! ## 3. weighted -/

theorem C02_weighted (L : FieldLaws K) (a b : K) : Gen.weighted a b = (a + b) / 2 := by
  simp only [Gen.weighted, L.add, L.mul, L.half]; ring

theorem C02_weighted_comm (L : FieldLaws K) (a b : K) : Gen.weighted a b = Gen.weighted b a := by
  rw [C02_weighted L, C02_weighted L, add_comm]

omit [DecidableEq ι] in
theorem C02_weighted_tree (L : FieldLaws K) (d : ι → ι → K) (l r x : MTree ι) :
    Gen.weighted (wdist d l x) (wdist d r x) = wdist d (.node l r) x ∧
    Gen.weighted (wdist d x l) (wdist d x r) = wdist d x (.node l r) := by
  rw [C02_weighted L, C02_weighted L, wdist_node_left, wdist_node_right]; exact ⟨rfl, rfl⟩

/-! ## 4. median -/

theorem C02_median (L : FieldLaws K) (a b dab : K) :
    Gen.median a b dab = a / 2 + b / 2 - dab / 4 := by
  simp only [Gen.median, L.add, L.sub, L.mul, L.half, L.quarter]; ring

theorem C02_median_comm (L : FieldLaws K) (a b dab : K) :
    Gen.median a b dab = Gen.median b a dab := by
  rw [C02_median L, C02_median L]; ring

omit [DecidableEq ι] in
theorem C02_median_tree (L : FieldLaws K) (d : ι → ι → K) (l r x : MTree ι) :
    Gen.median (mdist d l x) (mdist d r x) (mdist d l r) = mdist d (.node l r) x ∧
    Gen.median (mdist d x l) (mdist d x r) (mdist d l r) = mdist d x (.node l r) := by
  rw [C02_median L, C02_median L, mdist_node_left, mdist_node_right]; exact ⟨rfl, rfl⟩

/-! ## 5. centroid -/

/-- Algebraic core: the sums are arbitrary field elements, the sizes positive naturals. -/
theorem C02_centroid_recurrence (L : FieldLaws K) (sAX sBX sAB wA wB wX : K) (na nb nx : Nat)
    (ha : 0 < na) (hb : 0 < nb) (hx : 0 < nx) :
    Gen.centroid
        (sAX / ((na : K) * nx) - wA / (na : K) ^ 2 - wX / (nx : K) ^ 2)
        (sBX / ((nb : K) * nx) - wB / (nb : K) ^ 2 - wX / (nx : K) ^ 2)
        (sAB / ((na : K) * nb) - wA / (na : K) ^ 2 - wB / (nb : K) ^ 2) na nb
      = (sAX + sBX) / (((na : K) + nb) * nx) - (wA + wB + sAB) / ((na : K) + nb) ^ 2
          - wX / (nx : K) ^ 2 := by
  simp only [Gen.centroid, L.add, L.sub, L.mul, L.div, L.ofNat]
  have h1 := cast_ne (K := K) ha
  have h2 := cast_ne (K := K) hb
  have h3 := cast_ne (K := K) hx
  have h4 := cast_add_ne (K := K) (m := nb) ha
  field_simp
  ring

theorem C02_centroid (L : FieldLaws K) (d : ι → ι → K) (hd : ∀ i j, d i j = d j i)
    (A B X : Finset ι) (hAB : Disjoint A B) (hA : A.Nonempty) (hB : B.Nonempty)
    (hX : X.Nonempty) :
    Gen.centroid (cen d A X) (cen d B X) (cen d A B) A.card B.card = cen d (A ∪ B) X := by
  unfold cen
  rw [C02_centroid_recurrence L _ _ _ _ _ _ _ _ _ hA.card_pos hB.card_pos hX.card_pos,
    S_union_left hAB, W_union hd hAB, card_union_of_disjoint hAB, Nat.cast_add]

/-! ## 6. Ward -/

theorem C02_ward_recurrence (L : FieldLaws K) (sAX sBX sAB wA wB wX : K) (na nb nx : Nat)
    (ha : 0 < na) (hb : 0 < nb) (hx : 0 < nx) :
    Gen.ward
        (2 * (na : K) * nx / ((na : K) + nx) *
          (sAX / ((na : K) * nx) - wA / (na : K) ^ 2 - wX / (nx : K) ^ 2))
        (2 * (nb : K) * nx / ((nb : K) + nx) *
          (sBX / ((nb : K) * nx) - wB / (nb : K) ^ 2 - wX / (nx : K) ^ 2))
        (2 * (na : K) * nb / ((na : K) + nb) *
          (sAB / ((na : K) * nb) - wA / (na : K) ^ 2 - wB / (nb : K) ^ 2)) na nb nx
      = 2 * ((na : K) + nb) * nx / (((na : K) + nb) + nx) *
          ((sAX + sBX) / (((na : K) + nb) * nx) - (wA + wB + sAB) / ((na : K) + nb) ^ 2
            - wX / (nx : K) ^ 2) := by
  -- exact arithmetic: the guarded clamp of the repaired `method::ward` is a no-op
  rw [L.ward_eq_formula _ _ _ na nb nx (by omega)]
  have h1 := cast_ne (K := K) ha
  have h2 := cast_ne (K := K) hb
  have h3 := cast_ne (K := K) hx
  have h4 := cast_add_ne (K := K) (m := nb) ha
  have h5 := cast_add_ne (K := K) (m := nx) ha
  have h6 := cast_add_ne (K := K) (m := nx) hb
  have h7 : (na : K) + nb + nx ≠ 0 := by exact_mod_cast (by omega : na + nb + nx ≠ 0)
  field_simp
  ring

theorem C02_ward (L : FieldLaws K) (d : ι → ι → K) (hd : ∀ i j, d i j = d j i)
    (A B X : Finset ι) (hAB : Disjoint A B) (hA : A.Nonempty) (hB : B.Nonempty)
    (hX : X.Nonempty) :
    Gen.ward (wardc d A X) (wardc d B X) (wardc d A B) A.card B.card X.card
      = wardc d (A ∪ B) X := by
  unfold wardc cen
  rw [C02_ward_recurrence L _ _ _ _ _ _ _ _ _ hA.card_pos hB.card_pos hX.card_pos,
    S_union_left hAB, W_union hd hAB, card_union_of_disjoint hAB, Nat.cast_add]

/-! ## 7. the label-based specification keeps the criteria -/

/-- All seven generated formulas propagate their documented criterion (and the criteria are
symmetric): the hypothesis `LWCompat` of the generic invariant. -/
theorem C02_lw_criterion (L : FieldLaws K) (m : Method) (d : Nat → Nat → K)
    (hd : ∀ i j, d i j = d j i) : LWCompat m (Criterion m d) := by
  refine ⟨Criterion.symm hd m, ?_⟩
  intro ta tb tx va vb vab hab hax hbx ha hb hab'
  have nA := ta.leaves_nonempty
  have nB := tb.leaves_nonempty
  have nX := tx.leaves_nonempty
  cases m <;> simp only [Criterion, Spec.lw, MTree.leaves_node] at ha hb hab' ⊢
  · exact C02_single_criterion L.toOrderNum ha hb
  · exact C02_complete_criterion L.toOrderNum ha hb
  · rw [ha, hb]; exact C02_average L d _ _ _ hab nA nB nX
  · rw [ha, hb]; exact (C02_weighted_tree L d ta tb tx).1
  · rw [ha, hb, hab']; exact C02_ward L d hd _ _ _ hab nA nB nX
  · rw [ha, hb, hab']; exact C02_centroid L d hd _ _ _ hab nA nB nX
  · rw [ha, hb, hab']; exact (C02_median_tree L d ta tb tx).1

/-- One merge of the label-based specification: if every live table entry is the criterion of
the two clusters, computed from the base matrix `d`, the same holds after `Spec.merge` with the
new label standing for the union (tree `node (cl a) (cl b)`).  All seven methods. -/
theorem C02_spec_invariant (L : FieldLaws K) (m : Method) (d : Nat → Nat → K)
    (hd : ∀ i j, d i j = d j i) {s : Spec.NState K} {cl : Nat → MTree Nat}
    (h : Inv (Criterion m d) s cl) {a b : Nat} (ha : a ∈ s.live) (hb : b ∈ s.live) (hab : a ≠ b) :
    Inv (Criterion m d) (Spec.merge m s a b) (mergeCl cl s.next a b) :=
  h.merge (C02_lw_criterion L m d hd) ha hb hab

/-- Every height of a greedy-valid dendrogram is (`post m` of) the documented criterion of the
two clusters it merges, computed from the ORIGINAL matrix (`(Spec.init m n data).D`: the input,
squared iff `m.onSquares`); `post m v = Num.sqrt v` for the methods on squares, `v` otherwise,
with `Num.sqrt` completely abstract. -/
theorem C02_greedy_heights (L : FieldLaws K) (m : Method) (n : Nat) (data : Array K)
    (steps : List (Step K)) (hg : Spec.GreedyValid m n data steps)
    (i : Nat) (st : Step K) (hi : steps[i]? = some st) :
    ∃ v, Criterion m (Spec.init m n data).D (clusterTree n steps st.c1) (clusterTree n steps st.c2) v
      ∧ st.d = Spec.post m v :=
  greedy_heights (C02_lw_criterion L m _ (init_D_symm m n data)) n data
    (fun i j _ => Criterion.leaf m i j) steps hg.2 i st hi

omit [Field K] [LinearOrder K] [IsStrictOrderedRing K] in
/-- The clusters in `C02_greedy_heights` are the ones of `Spec.leaves`. -/
theorem C02_greedy_clusters (m : Method) (n : Nat) (data : Array K)
    (steps : List (Step K)) (hg : Spec.GreedyValid m n data steps) (l : Nat)
    (hl : l < n + steps.length) :
    (clusterTree n steps l).leaves = (Spec.leaves n steps steps.length l).toFinset :=
  clusterTree_leaves n steps
    (greedy_labelsOrdered steps (Spec.init m n data) (fun _ hx => List.mem_range.mp hx) hg.2)
    steps.length l (by omega)

omit [IsStrictOrderedRing K] in
/-- The base matrix of `C02_greedy_heights`: the input entry, squared iff the method works on
squares. -/
theorem C02_base_matrix (L : FieldLaws K) (m : Method) (n : Nat) (data : Array K) (i j : Nat) :
    (Spec.init m n data).D i j =
      if m.onSquares then Spec.entry n data Num.infinity i j * Spec.entry n data Num.infinity i j
      else Spec.entry n data Num.infinity i j := by
  show (let x := Spec.entry n data Num.infinity i j; if m.onSquares then Num.mul x x else x) = _
  simp only [L.mul]

/-- `C02_greedy_heights` spelled out per method, with the clusters of `Spec.leaves`. -/
theorem C02_greedy_heights_closed (L : FieldLaws K) (m : Method) (n : Nat) (data : Array K)
    (steps : List (Step K)) (hg : Spec.GreedyValid m n data steps)
    (i : Nat) (st : Step K) (hi : steps[i]? = some st) :
    let d := (Spec.init m n data).D
    let A := (Spec.leaves n steps steps.length st.c1).toFinset
    let B := (Spec.leaves n steps steps.length st.c2).toFinset
    let T₁ := clusterTree n steps st.c1
    let T₂ := clusterTree n steps st.c2
    match m with
    | .single => IsMinOver d A B st.d
    | .complete => IsMaxOver d A B st.d
    | .average => st.d = avg d A B
    | .weighted => st.d = wdist d T₁ T₂
    | .ward => st.d = Num.sqrt (wardc d A B)
    | .centroid => st.d = Num.sqrt (cen d A B)
    | .median => st.d = Num.sqrt (mdist d T₁ T₂) := by
  obtain ⟨v, hv, hd⟩ := C02_greedy_heights L m n data steps hg i st hi
  have ho := greedy_labelsOrdered steps (Spec.init m n data) (fun _ hx => List.mem_range.mp hx) hg.2
      i st hi
  have hlen : i < steps.length := by
    rcases Nat.lt_or_ge i steps.length with h | h
    · exact h
    · rw [List.getElem?_eq_none h] at hi; cases hi
  have hn : (Spec.init m n data).next = n := rfl
  rw [hn] at ho
  have e1 := C02_greedy_clusters m n data steps hg st.c1 (by omega)
  have e2 := C02_greedy_clusters m n data steps hg st.c2 (by omega)
  intro d A B T₁ T₂
  cases m <;>
    simp only [Criterion, Spec.post, Method.onSquares, if_true, Bool.false_eq_true, if_false,
      e1, e2] at hv hd ⊢
  · rw [hd]; exact hv
  · rw [hd]; exact hv
  · rw [hd, hv]
  · rw [hd, hv]
  · rw [hd, hv]
  · rw [hd, hv]
  · rw [hd, hv]

end field

/-! ## 8. non-vacuity (over `ℚ`) -/

section examples

/-- The law bundle is inhabited. -/
example : @FieldLaws ℚ _ _ (fieldNum ℚ) ∧ @OrderNum ℚ _ (fieldNum ℚ) :=
  ⟨fieldNum_laws ℚ, @FieldLaws.toOrderNum ℚ _ _ (fieldNum ℚ) (fieldNum_laws ℚ)⟩

example : @Gen.single ℚ (fieldNum ℚ) 3 5 = 3 ∧ @Gen.complete ℚ (fieldNum ℚ) 3 5 = 5 := by
  norm_num [Gen.single, Gen.complete, fieldNumWith, Num.lt]
example : @Gen.average ℚ (fieldNum ℚ) 3 5 1 2 = 13 / 3 := by
  norm_num [Gen.average, fieldNumWith, Num.add, Num.mul, Num.div, Num.ofNat, Num.lt]
example : @Gen.weighted ℚ (fieldNum ℚ) 3 5 = 4 := by
  norm_num [Gen.weighted, fieldNumWith, Num.add, Num.mul, Num.half]
example : @Gen.median ℚ (fieldNum ℚ) 3 5 4 = 3 := by
  norm_num [Gen.median, fieldNumWith, Num.add, Num.sub, Num.mul, Num.half, Num.quarter]
example : @Gen.centroid ℚ (fieldNum ℚ) 3 5 4 1 2 = 31 / 9 := by
  norm_num [Gen.centroid, fieldNumWith, Num.add, Num.sub, Num.mul, Num.div, Num.ofNat]
example : @Gen.ward ℚ (fieldNum ℚ) 3 5 4 1 2 3 = 25 / 6 := by
  norm_num [Gen.ward, fieldNumWith, Num.add, Num.sub, Num.mul, Num.div, Num.ofNat, Num.lt]

/-- Squared distances of the three points 0, 1, 3 on a line. -/
private def dex : Nat → Nat → ℚ := fun i j =>
  if (i = 0 ∧ j = 1) ∨ (i = 1 ∧ j = 0) then 1
  else if (i = 0 ∧ j = 2) ∨ (i = 2 ∧ j = 0) then 9
  else if (i = 1 ∧ j = 2) ∨ (i = 2 ∧ j = 1) then 4 else 0

/-- `cen` is the squared centroid distance there: centroid of {0,1} is 1/2, `(3 - 1/2)² = 25/4`;
Ward: `2·2·1/3 · 25/4 = 25/3`; and the centroid update reproduces it from the singleton values. -/
example : cen dex {0, 1} {2} = 25 / 4 ∧ wardc dex {0, 1} {2} = 25 / 3 ∧
    @Gen.centroid ℚ (fieldNum ℚ) (cen dex {0} {2}) (cen dex {1} {2}) (cen dex {0} {1}) 1 1 = 25 / 4 := by
  have h1 : ({0, 1} : Finset ℕ).offDiag = {(0, 1), (1, 0)} := by decide
  have h2 : ({2} : Finset ℕ).offDiag = ∅ := by decide
  refine ⟨?_, ?_, ?_⟩
  · norm_num [cen, S, W, dex, h1, h2]
  · norm_num [wardc, cen, S, W, dex, h1, h2]
  · norm_num [Gen.centroid, fieldNumWith, Num.add, Num.sub, Num.mul, Num.div, Num.ofNat, dex]

/-- Weighted / median tree recursions on a three-leaf tree. -/
example : wdist dex (.node (.leaf 0) (.leaf 1)) (.leaf 2) = 13 / 2 ∧
    mdist dex (.node (.leaf 0) (.leaf 1)) (.leaf 2) = 25 / 4 := by
  refine ⟨?_, ?_⟩
  · norm_num [wdist, wdistLeaf, dex]
  · rw [mdist_node_left]; norm_num [dex]

@[reducible] private def exNum : Num ℚ := fieldNum ℚ
attribute [local instance] exNum

private def exData : Array ℚ := #[1, 9, 4]
private def exSteps : List (Step ℚ) := [⟨0, 1, 1, 2⟩, ⟨2, 3, 13 / 2, 3⟩]

private theorem e01 : Spec.entry 3 exData 0 0 1 = 1 := by decide
private theorem e02 : Spec.entry 3 exData 0 0 2 = 9 := by decide
private theorem e12 : Spec.entry 3 exData 0 1 2 = 4 := by decide
private theorem e10 : Spec.entry 3 exData 0 1 0 = 1 := by decide
private theorem e20 : Spec.entry 3 exData 0 2 0 = 9 := by decide
private theorem e21 : Spec.entry 3 exData 0 2 1 = 4 := by decide

/-- The hypothesis of `C02_greedy_heights` is satisfiable with a non-trivial second step: average
linkage on the matrix `d01 = 1, d02 = 9, d12 = 4` merges `{0,1}` at 1, then `{2}` with `{0,1}` at
`(9+4)/2`. -/
private theorem exGreedy : Spec.GreedyValid .average 3 exData exSteps := by
  refine ⟨rfl, ?_⟩
  simp only [exSteps, Spec.GreedyFrom, Spec.Admissible, and_true]
  simp [Spec.init, Spec.merge, Spec.post, Spec.lw, Gen.average, Method.onSquares, List.range,
    List.range.loop, Num.add, Num.mul, Num.div, Num.ofNat, Num.lt, Num.infinity,
    e01, e02, e12, e10, e20, e21]
  norm_num

example : ∃ v : ℚ, Criterion .average (Spec.init .average 3 exData).D
    (clusterTree 3 exSteps 2) (clusterTree 3 exSteps 3) v ∧ 13 / 2 = v :=
  C02_greedy_heights (fieldNum_laws ℚ) .average 3 exData exSteps exGreedy 1 ⟨2, 3, 13 / 2, 3⟩ rfl

end examples
/-! ## 9. EXACT ARITHMETIC: the heights returned by `primitive_with` (appended section)

Scope.  Exact arithmetic ONLY: `K` a linearly ordered field whose `Num K` instance computes the field
operations and has no NaN (`ExactLaws K`, `Lemmas/FieldInstances.lean`: `fieldNum K`,
`fieldNumWith K sq`).  IEEE floats are not a field; the float gap is measured by the oracles.

Entry point: `primitive_with` (model `primitiveWith`), both build modes, every prior state, every
valid matrix `2 ≤ n < 2^31`, `2·len = n(n-1)`, all seven methods.  No other hypothesis.

* `C02_primitive`         the call returns, and EVERY returned step's height is the documented
      criterion of the two clusters it merges (the `Spec.leaves` of its two labels in the returned
      dendrogram), computed from the ORIGINAL matrix `(Spec.init m n data).D` (= the input entries,
      squared iff `m.onSquares`: `C02_base_matrix`): min / max / mean over cross pairs for
      single / complete / average, the tree recursion for weighted, and `Num.sqrt` of the Ward /
      centroid / median criterion for the methods on squares (`Num.sqrt` abstract, as in
      `C02_greedy_heights_closed`).  Composition of `C03_primitive_exact` with
      `C02_greedy_heights_closed`.
* `C02_primitive_of_run`  the same for a given successful run `primitiveWith … = .ok (st', d', M')`.
-/

section primitive
variable {K : Type} [Field K] [LinearOrder K] [IsStrictOrderedRing K] [Num K]

/-- **C02 for `primitive_with`, exact arithmetic, all seven methods.** -/
theorem C02_primitive (E : ExactLaws K) (chk : Bool) (m : Method) (st : State K)
    (d : Dendrogram K) (data : Array K) (n : Nat) (h2 : 2 ≤ n) (hs : n < 2147483648)
    (hl : 2 * data.size = n * (n - 1)) :
    ∃ st' d' M', primitiveWith chk m st d data n = .ok (st', d', M') ∧
      ∀ (i : Nat) (s : Step K), d'.steps.toList[i]? = some s →
        let steps := d'.steps.toList
        let dm := (Spec.init m n data).D
        let A := (Spec.leaves n steps steps.length s.c1).toFinset
        let B := (Spec.leaves n steps steps.length s.c2).toFinset
        let T₁ := clusterTree n steps s.c1
        let T₂ := clusterTree n steps s.c2
        match m with
        | .single => IsMinOver dm A B s.d
        | .complete => IsMaxOver dm A B s.d
        | .average => s.d = avg dm A B
        | .weighted => s.d = wdist dm T₁ T₂
        | .ward => s.d = Num.sqrt (wardc dm A B)
        | .centroid => s.d = Num.sqrt (cen dm A B)
        | .median => s.d = Num.sqrt (mdist dm T₁ T₂) := by
  obtain ⟨st', d', M', hrun, hg⟩ := C03_primitive_exact E chk m st d data n h2 hs hl
  refine ⟨st', d', M', hrun, fun i s hi => ?_⟩
  have h := C02_greedy_heights_closed E.field m n data d'.steps.toList hg i s hi
  cases m <;> exact h

/-- `C02_primitive` for a given successful run. -/
theorem C02_primitive_of_run (E : ExactLaws K) (chk : Bool) (m : Method) (st st' : State K)
    (d d' : Dendrogram K) (data : Array K) (n : Nat) (M' : Mat K) (h2 : 2 ≤ n)
    (hs : n < 2147483648) (hl : 2 * data.size = n * (n - 1))
    (hrun : primitiveWith chk m st d data n = .ok (st', d', M'))
    (i : Nat) (s : Step K) (hi : d'.steps.toList[i]? = some s) :
    let steps := d'.steps.toList
    let dm := (Spec.init m n data).D
    let A := (Spec.leaves n steps steps.length s.c1).toFinset
    let B := (Spec.leaves n steps steps.length s.c2).toFinset
    let T₁ := clusterTree n steps s.c1
    let T₂ := clusterTree n steps s.c2
    match m with
    | .single => IsMinOver dm A B s.d
    | .complete => IsMaxOver dm A B s.d
    | .average => s.d = avg dm A B
    | .weighted => s.d = wdist dm T₁ T₂
    | .ward => s.d = Num.sqrt (wardc dm A B)
    | .centroid => s.d = Num.sqrt (cen dm A B)
    | .median => s.d = Num.sqrt (mdist dm T₁ T₂) := by
  obtain ⟨st'', d'', M'', hrun', hg⟩ := C03_primitive_exact E chk m st d data n h2 hs hl
  rw [hrun] at hrun'
  simp only [Except.ok.injEq, Prod.mk.injEq] at hrun'
  obtain ⟨-, rfl, -⟩ := hrun'
  have h := C02_greedy_heights_closed E.field m n data d'.steps.toList hg i s hi
  cases m <;> exact h

end primitive

/-! ### Non-vacuity over `ℚ` -/

section primitiveExample

/-- Average linkage over `fieldNum ℚ` on `d01=1 d02=9 d12=4`: every returned height is the mean
over the cross pairs of the two merged clusters. -/
example : ∃ st' d' M',
    @primitiveWith ℚ (fieldNum ℚ) true .average State.new (Dendrogram.new 0) #[1, 9, 4] 3
      = .ok (st', d', M') ∧
    ∀ (i : Nat) (s : Step ℚ), d'.steps.toList[i]? = some s →
      s.d = avg (@Spec.init ℚ (fieldNum ℚ) .average 3 #[1, 9, 4]).D
        (Spec.leaves 3 d'.steps.toList d'.steps.toList.length s.c1).toFinset
        (Spec.leaves 3 d'.steps.toList d'.steps.toList.length s.c2).toFinset :=
  @C02_primitive ℚ _ _ _ (fieldNum ℚ) (exactLaws_fieldNum ℚ) true .average _ _ _ 3
    (by decide) (by decide) (by decide)

end primitiveExample

end Kodama
