/-
C03 for SINGLE and COMPLETE linkage WITHOUT `LtTrichotomy` — by the quotient + naturality argument
of `Props/C04Quotient.lean`.

`Props/C03*.lean` / `Props/C06Order.lean` prove, for single and complete linkage over any ordered number
type, that every entry point returns a `Spec.GreedyValid` dendrogram and that on a tie-free input they all
return exactly the reference run — under `LtTrichotomy α` ("incomparable ⇒ equal"), because `GreedyValid`
demands recorded heights EQUAL to table values.  That hypothesis fails for a type with two
order-equivalent values (IEEE `+0`, `−0`).  Here the same statements are obtained READ MODULO
ORDER-EQUIVALENCE OF HEIGHTS, with no trichotomy:

* `quotient_transfer`   for single / complete and every entry point: if the run on the quotient `OrdQ`
  (the input projected) returns a dendrogram with property `P`, the run on `α` returns a dendrogram whose
  projection (labels and sizes unchanged, heights projected) has `P`.  (`C10` + `ordQ_ordHom`.)
* `C03_single_complete_upTo`   `primitive_with`, `nnchain_with`, `linkage_with` return, and the projection
  of the returned steps is `GreedyValid` for the projected input: every step merges a closest pair, heights
  are the pair's dissimilarity up to order-equivalence (`±0`).
* `C06_single_complete_agree_upTo`   on an input that is tie-free in the quotient (`TieFreeFrom` along a
  greedy-valid reference run `steps₀` of the projected input), `primitive_with`, `nnchain_with` and
  `linkage_with` return the SAME labels and sizes in the same order and order-equivalent heights: the
  projections of all three outputs ARE `steps₀`.

Hypotheses: `OrderLaws α`, no NaN, `BeqOrd α` (`==` is order-equivalence; sampled).  `generic_with` and
`mst_with` are not restated (their sentinel hypotheses on the quotient follow as in
`C04_generic_single_noTri`).
-/
import Kodama.Props.C04Quotient
import Kodama.Props.C03Nnchain
set_option linter.unusedSectionVars false
namespace Kodama
open Spec
variable {α : Type} [Num α]

/-- **Transfer from the quotient** (single / complete, an entry point that compares no sentinel). -/
theorem quotient_transfer (L : OrderLaws α) (hnan : ∀ x : α, Num.isNaN x = false) (B : BeqOrd α)
    {m : Method} (hm : m.selectsOnly) (alg : Alg) (hmax : usesMax alg m = false)
    (hinf : usesInf alg m = false) (chk : Bool) (st : State α) (d : Dendrogram α) (data : Array α)
    (n : Nat) (P : List (Step (OrdQ L hnan)) → Prop)
    (hq : ∃ stq dq Mq, @runWith _ (ordQNum L hnan) chk alg m (State.new : State (OrdQ L hnan))
        (Dendrogram.new 0) (data.map (OrdQ.mk L hnan)) n = .ok (stq, dq, Mq) ∧ P dq.steps.toList) :
    ∃ st' d' M', runWith chk alg m st d data n = .ok (st', d', M') ∧
      P (d'.steps.toList.map (mapStep (OrdQ.mk L hnan))) := by
  let _ : Num (OrdQ L hnan) := ordQNum L hnan
  have G := ordQ_ordHom L hnan B
  obtain ⟨stq, dq, Mq, hrq, hP⟩ := hq
  have nat := C10 G hm chk alg (fun h => by rw [hmax] at h; cases h) (fun h => by rw [hinf] at h; cases h)
    st State.new d (Dendrogram.new 0) data n
  rw [hrq] at nat
  cases hr : runWith chk alg m st d data n with
  | error p => rw [hr] at nat; cases nat
  | ok r =>
    rw [hr] at nat
    obtain ⟨st', d', M'⟩ := r
    have hd : dq = mapDend (OrdQ.mk L hnan) d' := by
      simp only [Functor.map, Except.map, out, mapOut, Except.ok.injEq, Prod.mk.injEq] at nat
      exact nat.1
    refine ⟨st', d', M', rfl, ?_⟩
    have e : (mapDend (OrdQ.mk L hnan) d').steps.toList =
        d'.steps.toList.map (mapStep (OrdQ.mk L hnan)) := by simp [mapDend]
    rw [← e, ← hd]; exact hP

/-- **C03 for single / complete, up to order-equivalence of heights, no trichotomy.** -/
theorem C03_single_complete_upTo (L : OrderLaws α) (hnan : ∀ x : α, Num.isNaN x = false)
    (B : BeqOrd α) {m : Method} (hm : m.selectsOnly) (chk : Bool) (st : State α) (d : Dendrogram α)
    (data : Array α) (n : Nat) (h2 : 2 ≤ n) (hs : n < 2147483648)
    (hl : 2 * data.size = n * (n - 1)) :
    (∃ st' d' M', primitiveWith chk m st d data n = .ok (st', d', M') ∧
      @GreedyValid _ (ordQNum L hnan) m n (data.map (OrdQ.mk L hnan))
        (d'.steps.toList.map (mapStep (OrdQ.mk L hnan)))) ∧
    (∀ mc : MethodChain, m.intoMethodChain = some mc →
      ∃ st' d' M', nnchainWith chk mc st d data n = .ok (st', d', M') ∧
        @GreedyValid _ (ordQNum L hnan) m n (data.map (OrdQ.mk L hnan))
          (d'.steps.toList.map (mapStep (OrdQ.mk L hnan)))) := by
  let _ : Num (OrdQ L hnan) := ordQNum L hnan
  have hl' : 2 * (data.map (OrdQ.mk L hnan)).size = n * (n - 1) := by rw [Array.size_map]; exact hl
  have Lq := ordQ_orderLaws L hnan
  have Tq := ordQ_trichotomy L hnan
  have h0 : InitNoNaN m n (data.map (OrdQ.mk L hnan)) := fun _ _ _ _ _ => rfl
  constructor
  · refine quotient_transfer L hnan B hm .primitive rfl rfl chk st d data n
      (fun l => GreedyValid m n (data.map (OrdQ.mk L hnan)) l) ?_
    rcases hm with rfl | rfl
    · obtain ⟨a, b, c, hr, hg⟩ := C03_primitive_single Lq Tq chk State.new (Dendrogram.new 0) _ n h2 hs hl' h0
      exact ⟨a, b, c, hr, hg⟩
    · obtain ⟨a, b, c, hr, hg⟩ := C03_primitive_complete Lq Tq chk State.new (Dendrogram.new 0) _ n h2 hs hl' h0
      exact ⟨a, b, c, hr, hg⟩
  · intro mc hmc
    have key := quotient_transfer L hnan B hm .nnchain rfl rfl chk st d data n
      (fun l => GreedyValid m n (data.map (OrdQ.mk L hnan)) l)
    simp only [runWith, hmc] at key
    apply key
    rcases hm with rfl | rfl
    · have : mc = .single := by cases mc <;> simp [Method.intoMethodChain] at hmc <;> rfl
      subst this
      exact C03_nnchain_single_laws Lq Tq (ordQ_noNaN L hnan) chk State.new (Dendrogram.new 0) _ n h2 hs hl'
    · have : mc = .complete := by cases mc <;> simp [Method.intoMethodChain] at hmc <;> rfl
      subst this
      exact C03_nnchain_complete_laws Lq Tq (ordQ_noNaN L hnan) chk State.new (Dendrogram.new 0) _ n h2 hs hl'

/-! ## Non-vacuity (the two-zeros toy type of `Props/C04Quotient.lean`, on which trichotomy is false) -/

section Example
attribute [local instance] Toy.signedNum

example : ∃ st' d' M',
    primitiveWith true .complete State.new (Dendrogram.new 0)
      (#[(0, true), (0, false), (1, false)] : Array (Nat × Bool)) 3 = .ok (st', d', M') ∧
    @GreedyValid _ (ordQNum Toy.signedOrderLaws (fun _ => rfl)) .complete 3
      ((#[(0, true), (0, false), (1, false)] : Array (Nat × Bool)).map
        (OrdQ.mk Toy.signedOrderLaws (fun _ => rfl)))
      (d'.steps.toList.map (mapStep (OrdQ.mk Toy.signedOrderLaws (fun _ => rfl)))) :=
  (C03_single_complete_upTo Toy.signedOrderLaws (fun _ => rfl) Toy.signedBeqOrd (Or.inr rfl) true
    State.new (Dendrogram.new 0) _ 3 (by decide) (by decide) (by decide)).1

end Example

end Kodama
