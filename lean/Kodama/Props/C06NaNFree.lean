/-
C06 for SINGLE and COMPLETE linkage under hypotheses an IEEE float type satisfies (companion of
`Props/C03NaNFree.lean`, `Props/C04NaNFree.lean`).

* `C06_single_complete_float`   on a matrix WITHOUT NaN ENTRIES that is tie-free — read over the non-NaN
  subtype modulo order-equivalence: `TieFreeFrom` along a greedy-valid reference run `steps₀` there —
  `primitive_with` and `nnchain_with` (hence `linkage_with(Complete)`) return steps that are the images of
  steps `l` over `NonNaN α` whose projection IS `steps₀`: same labels, same sizes, same order, order-equivalent
  non-NaN heights.  Hypotheses: `OrderLaws α`, `BeqOrdOn α`, non-NaN sentinels — no type-level "no NaN", no
  trichotomy.
-/
import Kodama.Props.C03NaNFree
import Kodama.Props.C06Quotient
set_option linter.unusedSectionVars false
namespace Kodama
open Spec
variable {α : Type} [Num α]

theorem C06_single_complete_float (L : OrderLaws α) (B : BeqOrdOn α)
    (hmax : Num.isNaN (Num.maxValue : α) = false) (hinf : Num.isNaN (Num.infinity : α) = false)
    {m : Method} (hm : m.selectsOnly) (data : Array α) (n : Nat) (h2 : 2 ≤ n) (hs : n < 2147483648)
    (hl : 2 * data.size = n * (n - 1)) (hdata : ∀ x ∈ data, Num.isNaN x = false) :
    letI : Num (NonNaN α) := nnNum hmax hinf
    let Ls := nn_orderLaws hmax hinf L
    let hn := nn_noNaN hmax hinf (α := α)
    ∀ (steps₀ : List (Step (OrdQ Ls hn))),
      @GreedyValid _ (ordQNum Ls hn) m n ((nnData data hdata).map (OrdQ.mk Ls hn)) steps₀ →
      @TieFreeFrom _ (ordQNum Ls hn) m
        (@init _ (ordQNum Ls hn) m n ((nnData data hdata).map (OrdQ.mk Ls hn))) steps₀ →
      (∀ (chk : Bool) (st : State α) (d : Dendrogram α),
        ∃ st' d' M', primitiveWith chk m st d data n = .ok (st', d', M') ∧
          ∃ l : List (Step (NonNaN α)), d'.steps.toList = l.map (mapStep Subtype.val) ∧
            l.map (mapStep (OrdQ.mk Ls hn)) = steps₀) ∧
      (∀ mc : MethodChain, m.intoMethodChain = some mc →
        ∀ (chk : Bool) (st : State α) (d : Dendrogram α),
          ∃ st' d' M', nnchainWith chk mc st d data n = .ok (st', d', M') ∧
            ∃ l : List (Step (NonNaN α)), d'.steps.toList = l.map (mapStep Subtype.val) ∧
              l.map (mapStep (OrdQ.mk Ls hn)) = steps₀) := by
  intro Ls hn steps₀ h₀ htf
  letI : Num (NonNaN α) := nnNum hmax hinf
  have hl' : 2 * (nnData data hdata).size = n * (n - 1) := by rw [nnData_size]; exact hl
  have up := C06_single_complete_agree_upTo Ls hn (nn_beqOrd hmax hinf B) hm (nnData data hdata) n
    h2 hs hl' steps₀ h₀ htf
  constructor
  · intro chk st d
    obtain ⟨sS, dS, MS, hrS, hg⟩ := up.1 chk (State.new : State (NonNaN α)) (Dendrogram.new 0)
    obtain ⟨st', d', M', hr, l, hP, hl2⟩ := nonNaN_transfer hmax hinf hm .primitive rfl rfl chk st d data n
      hdata (fun l => l.map (mapStep (OrdQ.mk Ls hn)) = steps₀) ⟨sS, dS, MS, hrS, hg⟩
    exact ⟨st', d', M', hr, l, hl2, hP⟩
  · intro mc hmc chk st d
    obtain ⟨sS, dS, MS, hrS, hg⟩ := up.2 mc hmc chk (State.new : State (NonNaN α)) (Dendrogram.new 0)
    have key := nonNaN_transfer hmax hinf hm .nnchain rfl rfl chk st d data n
      hdata (fun l => l.map (mapStep (OrdQ.mk Ls hn)) = steps₀)
    simp only [runWith, hmc] at key
    obtain ⟨st', d', M', hr, l, hP, hl2⟩ := key ⟨sS, dS, MS, hrS, hg⟩
    exact ⟨st', d', M', hr, l, hl2, hP⟩

end Kodama
