/-
C04 — single linkage is exact.

## Specification level (this section; `C04_mst`, `C04_nnchain_partial` … are added below it)

Proved here, against the label-based specification `Kodama/Spec/Naive.lean` with `m = .single`
(no algorithm model is mentioned), for every `n`, every input array `data` whose off-diagonal
entries are not NaN (`NoNaN n data`; ±0, ±∞ and ties are allowed), every number type satisfying
`OrderLaws`, and EVERY `GreedyValid .single n data steps`:

* `C04_min_invariant`  (a) before every step `i` of the replay, for any two distinct live labels
        `x`, `y`, the table entry `D x y` is a lower bound of `entry u v` over
        `leaves x × leaves y` and is attained there: `D x y = min` over cross pairs.
* `C04_heights_sorted` heights never decrease along the run (`¬ d_k < d_j` for `j ≤ k`), because
        `Gen.single` returns one of its arguments and so never creates a value below the current
        minimum; none of them is NaN (`C04_heights_notNaN`) and each is an entry of the matrix
        between the two merged clusters (`C04_height_is_entry`).
* `C04_of_greedy`      (b) threshold theorem, for EVERY level `h : α` (not only the heights that
        occur; `h` may even be NaN or ±∞): two observations `u, v < n` are joined by the steps of
        height `≤ h` (`SameCluster`: `u = v`, or some step `k` with `¬ h < d_k` has both among the
        `Spec.leaves` of its new label `n+k`) iff they are connected in the threshold graph
        `entry u v ≤ h` (`Reach` = `Relation.ReflTransGen` of `Thr`: `u ≠ v`, both `< n`,
        `¬ h < entry u v`).  In particular `SameCluster … h` is an equivalence relation and its
        classes are the connected components.
* `C04_count`          (c) the number of steps of height `≤ h` is `n −` the number of connected
        components of the threshold graph at `h`; the number of components is given concretely by
        a list of pairwise non-connected representatives to which every observation is connected.

Number laws used (hypotheses, never axioms): `OrderLaws α` — `asymm` and `cotrans` (through
non-NaN middle elements), both true of IEEE `f32`/`f64` including NaN, ±0, ±∞.  No arithmetic law,
no totality/antisymmetry law (`-0.0` and `+0.0` may both occur), no `MonoSqrt` (single linkage does
not work on squares: `Method.onSquares .single = false` is read from the generated table by `rfl`).
The input hypothesis `NoNaN` is needed: with a NaN entry `Gen.single` is not a minimum
(`single NaN x = x` but `single x NaN = NaN`).

NOT proved here: that any algorithm of the crate returns a `GreedyValid .single` list (C03; for
`mst` the separate Prim argument `C04_mst` below does NOT go through `GreedyValid`, it proves the
threshold characterisation directly); the "MST weight multiset" reading of `C04_count` beyond the
counting statement itself.
Trusted: the definitions in `Spec/Naive.lean`, `Spec/WellFormed.lean` (`leaves`), `Spec/Pairs.lean`.

## `mst_with` (section `mst_with` at the end of the file)

For the executable model `mstWith` (Prim over the condensed matrix, then `relabel .single`), every
valid shape `2 ≤ n < 2^31`, `2·len = n(n-1)`, both build modes, every prior state, every number type
with `OrderLaws`, every input without NaN (`NoNaN`) for which the sentinel `T::infinity()` is not
NaN and not strictly below an entry (`InfTop`; true of IEEE floats, ±∞ entries allowed):

* `C04_mst_weights`  value invariant of the loop: the raw steps are a Hamiltonian path in the order
        `ord` in which Prim adds the vertices; the step recorded when `ord[t+1]` is added joins
        `ord[t]` and `ord[t+1]` and its weight is a minimum (lower bound, reached up to
        order-equivalence at the new vertex, not NaN) of the entries crossing the cut
        `(ord[0..t], rest)` (`PrimRun`, `IsMinCross`).
* `C04_mst_interval` Prim interval lemma: at every level `h` the path edges of weight `≤ h` connect
        exactly the connected components of the threshold graph (`Reach ↔ LightConn`).
* `C04_mst_total`    under these hypotheses `mstWith` returns (the sort meets no NaN).
* `C04_mst`          the threshold theorem for the OUTPUT: for every level `h` and observations
        `u, v < n`, `SameCluster n d'.steps.toList h u v ↔ Reach n data h u v`.
* `C04_mst_sorted`, `C04_mst_count`  heights are non-decreasing; the number of output steps of
        height `≤ h` is `n −` the number of threshold components at `h` (same formulation as
        `C04_count`): the order-theoretic "heights = MST edge-weight multiset" statement.
* `C04_linkage_single`, `C04_linkage_single_count`  the same through `linkage_with` with
        `Method::Single` (generated dispatch table).
-/
import Kodama.Lemmas.SpecSingle
import Kodama.Lemmas.SpecDecide
import Kodama.Lemmas.MstPrimExact
import Kodama.Model.Linkage
import Kodama.Lemmas.FieldInstances
import Kodama.Props.C03
namespace Kodama
open Spec
variable {α : Type} [Num α]

/-! ## Specification level -/

/-- The relation "joined by the steps of height `≤ h`" on observations, read off the step list
alone: equal, or both beneath the label created by one step whose height is not above `h`. -/
def SameCluster (n : Nat) (steps : List (Step α)) (h : α) (u v : Nat) : Prop :=
  u = v ∨ ∃ (k : Nat) (st : Step α), steps[k]? = some st ∧ Num.lt h st.d = false ∧
    u ∈ leaves n steps steps.length (n + k) ∧ v ∈ leaves n steps steps.length (n + k)

/-- (a) `D x y` is the minimum of the matrix over the cross pairs of the two clusters. -/
theorem C04_min_invariant (L : OrderLaws α) (n : Nat) (data : Array α) (steps : List (Step α))
    (hnan : NoNaN n data) (hv : GreedyValid .single n data steps) (i : Nat)
    (hi : i ≤ steps.length) (x y : Nat)
    (hx : x ∈ (stateAt .single (init .single n data) steps i).live)
    (hy : y ∈ (stateAt .single (init .single n data) steps i).live) (hxy : x ≠ y) :
    (∀ u ∈ leaves n steps steps.length x, ∀ v ∈ leaves n steps steps.length y,
      Num.lt (entry n data Num.infinity u v)
        ((stateAt .single (init .single n data) steps i).D x y) = false) ∧
    (∃ u ∈ leaves n steps steps.length x, ∃ v ∈ leaves n steps steps.length y,
      (stateAt .single (init .single n data) steps i).D x y = entry n data Num.infinity u v) := by
  have hs := stateAt_SInv L hnan hv.2 i hi
  have hinv := stInv_at hv.2 i hi
  have hord := fun i s => greedy_ordered hv.2 i s
  have hxl : x < n + steps.length := by have := hinv.lt x hx; have := hinv.next; omega
  have hyl : y < n + steps.length := by have := hinv.lt y hy; have := hinv.next; omega
  constructor
  · intro u hu v hv'
    exact hs.lb x hx y hy hxy u v ((mem_leaves_iff hord _ x hxl).1 hu)
      ((mem_leaves_iff hord _ y hyl).1 hv')
  · obtain ⟨u, v, hu, hv', e⟩ := hs.att x hx y hy hxy
    exact ⟨u, (mem_leaves_iff hord _ x hxl).2 hu, v, (mem_leaves_iff hord _ y hyl).2 hv', e⟩

/-- Every height is an entry of the matrix between a leaf of each of the two merged clusters. -/
theorem C04_height_is_entry (L : OrderLaws α) (n : Nat) (data : Array α) (steps : List (Step α))
    (hnan : NoNaN n data) (hv : GreedyValid .single n data steps) (k : Nat) (st : Step α)
    (hst : steps[k]? = some st) :
    ∃ u ∈ leaves n steps steps.length st.c1, ∃ v ∈ leaves n steps steps.length st.c2,
      u ≠ v ∧ st.d = entry n data Num.infinity u v := by
  have hord := fun i s => greedy_ordered hv.2 i s
  have ho := greedy_ordered hv.2 k st hst
  have hk := getElem?_lt hst
  obtain ⟨u, v, hu, hv', huv, e⟩ := single_height_attained L hnan hv.2 hst
  exact ⟨u, (mem_leaves_iff hord _ _ (by omega)).2 hu, v,
    (mem_leaves_iff hord _ _ (by omega)).2 hv', huv, e⟩

theorem C04_heights_notNaN (L : OrderLaws α) (n : Nat) (data : Array α) (steps : List (Step α))
    (hnan : NoNaN n data) (hv : GreedyValid .single n data steps) (k : Nat) (st : Step α)
    (hst : steps[k]? = some st) : Num.isNaN st.d = false :=
  single_height_notNaN L hnan hv.2 hst

/-- Heights are non-decreasing in step order. -/
theorem C04_heights_sorted (L : OrderLaws α) (n : Nat) (data : Array α) (steps : List (Step α))
    (hnan : NoNaN n data) (hv : GreedyValid .single n data steps) :
    steps.Pairwise (fun s t => Num.lt t.d s.d = false) := by
  rw [List.pairwise_iff_getElem]
  intro j k hj hk hjk
  exact single_heights_mono L hnan hv.2 (j := j) (by simp [hj]) k _ (by omega) (by simp [hk])

/-- (b) Threshold theorem: the clusters formed by the steps of height `≤ h` are the connected
components of the threshold graph at `h`. -/
theorem C04_of_greedy (L : OrderLaws α) (n : Nat) (data : Array α) (steps : List (Step α))
    (hnan : NoNaN n data) (hv : GreedyValid .single n data steps) (h : α) (u v : Nat)
    (hu : u < n) : SameCluster n steps h u v ↔ Reach n data h u v := by
  have hord := fun i s => greedy_ordered hv.2 i s
  constructor
  · rintro (rfl | ⟨k, st, hst, hle, hul, hvl⟩)
    · exact Relation.ReflTransGen.refl
    · have hk := getElem?_lt hst
      exact under_reach L hnan hv.2 h k st hst hle u v
        ((mem_leaves_iff hord _ _ (by omega)).1 hul) ((mem_leaves_iff hord _ _ (by omega)).1 hvl)
  · intro hr
    obtain ⟨i, hi, hbelow, hcut⟩ := exists_cut steps h
    obtain ⟨x, hx, hux, hvx⟩ := reach_sameAt L hnan hv h i hcut hu hr
    have hinv := stInv_at hv.2 i hi
    by_cases hxn : x < n
    · left; rw [hux.eq_of_lt hxn, hvx.eq_of_lt hxn]
    · right
      obtain ⟨k, rfl⟩ : ∃ k, x = n + k := ⟨x - n, by omega⟩
      have hki : k < i := by have := hinv.lt _ hx; have := hinv.next; omega
      have hk : k < steps.length := by omega
      have hst : steps[k]? = some steps[k] := by simp [hk]
      exact ⟨k, _, hst, hbelow k _ hki hst, (mem_leaves_iff hord _ _ (by omega)).2 hux,
        (mem_leaves_iff hord _ _ (by omega)).2 hvx⟩

/-- Consequently "joined by the steps of height `≤ h`" is an equivalence relation on observations
(its classes are the threshold components). -/
theorem C04_sameCluster_equiv (L : OrderLaws α) (n : Nat) (data : Array α)
    (steps : List (Step α)) (hnan : NoNaN n data) (hv : GreedyValid .single n data steps) (h : α) :
    (∀ u, SameCluster n steps h u u) ∧
    (∀ u v, u < n → v < n → SameCluster n steps h u v → SameCluster n steps h v u) ∧
    (∀ u v w, u < n → v < n → SameCluster n steps h u v → SameCluster n steps h v w →
      SameCluster n steps h u w) := by
  refine ⟨fun u => Or.inl rfl, ?_, ?_⟩
  · intro u v hu hv' huv
    exact (C04_of_greedy L n data steps hnan hv h v u hv').2
      ((C04_of_greedy L n data steps hnan hv h u v hu).1 huv).symm
  · intro u v w hu hv' huv hvw
    exact (C04_of_greedy L n data steps hnan hv h u w hu).2
      (((C04_of_greedy L n data steps hnan hv h u v hu).1 huv).trans
        ((C04_of_greedy L n data steps hnan hv h v w hv').1 hvw))

/-- (c) The number of steps of height `≤ h` is `n` minus the number of connected components of the
threshold graph at `h` — the components being counted by a list of pairwise non-connected
representatives to which every observation is connected. -/
theorem C04_count (L : OrderLaws α) (n : Nat) (data : Array α) (steps : List (Step α))
    (hnan : NoNaN n data) (hv : GreedyValid .single n data steps) (h : α) :
    ∃ reps : List Nat,
      (steps.filter (fun st => !Num.lt h st.d)).length + reps.length = n ∧
      (∀ r ∈ reps, r < n) ∧
      reps.Pairwise (fun r r' => ¬ Reach n data h r r') ∧
      (∀ u, u < n → ∃ r ∈ reps, Reach n data h u r) :=
  single_count L hnan hv h

/-! ### Non-vacuity: a concrete instance (4 observations, exact toy numbers) -/

section NonVacuity
attribute [local instance] Toy.natNum

/-- Condensed matrix `d01=5 d02=9 d03=7 d12=8 d13=6 d23=1`. -/
private def exData : Array Nat := #[5, 9, 7, 8, 6, 1]
private def exSteps : List (Step Nat) := [⟨2, 3, 1, 2⟩, ⟨0, 1, 5, 2⟩, ⟨4, 5, 6, 4⟩]

private theorem exNoNaN : NoNaN 4 exData := fun _ _ _ _ _ => rfl
private theorem exValid : GreedyValid .single 4 exData exSteps := by decide

/-- All hypotheses of the section are satisfiable together. -/
example : OrderLaws Nat ∧ NoNaN 4 exData ∧ GreedyValid .single 4 exData exSteps :=
  ⟨Toy.natOrderLaws, exNoNaN, exValid⟩

/-- At level 5 observations 0 and 1 are in one component (step 1, height 5, leaves `[0, 1]`) … -/
example : Reach 4 exData 5 0 1 :=
  (C04_of_greedy Toy.natOrderLaws 4 exData exSteps exNoNaN exValid 5 0 1 (by decide)).1
    (Or.inr ⟨1, ⟨0, 1, 5, 2⟩, rfl, by decide, by decide, by decide⟩)

/-- … and 0 and 2 are not: the only step joining them has height 6. -/
example : ¬ Reach 4 exData 5 0 2 := by
  intro hr
  rcases (C04_of_greedy Toy.natOrderLaws 4 exData exSteps exNoNaN exValid 5 0 2 (by decide)).2 hr
    with h | ⟨k, st, hst, hle, hu, hv⟩
  · cases h
  · match k, hst with
    | 0, hst => cases hst; revert hu; decide
    | 1, hst => cases hst; revert hv; decide
    | 2, hst => cases hst; revert hle; decide
    | k + 3, hst => simp [exSteps] at hst

end NonVacuity

/-! ## mst_with -/

section Mst

/-- **Value invariant of the Prim loop** (stage 1): on a valid NaN-free matrix `mstWith` is its
main loop followed by `relabel .single`, and the loop leaves a Prim path: the raw steps join
consecutive vertices of the order `ord` in which the vertices were added, with minimum crossing
weights (`PathSteps`, `IsMinCross`). -/
theorem C04_mst_weights (L : OrderLaws α) (chk : Bool) (st : State α) (d : Dendrogram α)
    (data : Array α) (n : Nat) (h2 : 2 ≤ n) (hs : n < 2147483648)
    (hl : 2 * data.size = n * (n - 1)) (hnan : NoNaN n data) (hinf : InfTop n data) :
    ∃ st1 dend1 M1 ord, MstLoopResult n data st1 dend1 M1 ∧
      PrimRun n data ord dend1.steps.toList ∧
      mstWith chk st d data n =
        (relabel .single st1.set dend1 >>= fun r => pure ({ st1 with set := r.1 }, r.2, M1)) :=
  mstWith_prim L chk st d data n h2 hs hl hnan hinf

/-- **Prim interval lemma** (stage 2): for a Prim path and every level `h`, two observations are
connected in the threshold graph iff they are connected by path edges of weight `≤ h`. -/
theorem C04_mst_interval (L : OrderLaws α) (n : Nat) (data : Array α) (hnan : NoNaN n data)
    (ord : List Nat) (rs : List (Step α)) (run : PrimRun n data ord rs) (h : α) (u v : Nat)
    (hu : u < n) (hv : v < n) : Reach n data h u v ↔ LightConn rs h u v :=
  prim_interval L hnan run h u v hu hv

/-- A successful `mstWith` is the `relabel` of a Prim path. -/
private theorem mst_decompose (L : OrderLaws α) (chk : Bool) (st st' : State α)
    (d d' : Dendrogram α) (data : Array α) (n : Nat) (M' : Mat α) (h2 : 2 ≤ n)
    (hs : n < 2147483648) (hl : 2 * data.size = n * (n - 1)) (hnan : NoNaN n data)
    (hinf : InfTop n data) (hrun : mstWith chk st d data n = .ok (st', d', M')) :
    ∃ st1 dend1 M1 ord uf, MstLoopResult n data st1 dend1 M1 ∧
      PrimRun n data ord dend1.steps.toList ∧ relabel .single st1.set dend1 = .ok (uf, d') := by
  obtain ⟨st1, dend1, M1, ord, hres, hprim, heq⟩ :=
    mstWith_prim L chk st d data n h2 hs hl hnan hinf
  rw [heq] at hrun
  obtain ⟨⟨uf, rel⟩, hrel, hr⟩ := bind_ok.mp hrun
  simp only [pure_ok, Prod.mk.injEq] at hr
  rw [hr.2.1] at hrel
  exact ⟨st1, dend1, M1, ord, uf, hres, hprim, hrel⟩

/-- Under the hypotheses of this section `mstWith` returns: the only possible panic of `relabel`,
the NaN panic of the sort, cannot happen because every recorded weight is not NaN. -/
theorem C04_mst_total (L : OrderLaws α) (chk : Bool) (st : State α) (d : Dendrogram α)
    (data : Array α) (n : Nat) (h2 : 2 ≤ n) (hs : n < 2147483648)
    (hl : 2 * data.size = n * (n - 1)) (hnan : NoNaN n data) (hinf : InfTop n data) :
    ∃ r, mstWith chk st d data n = .ok r := by
  obtain ⟨st1, dend1, M1, ord, hres, hprim, heq⟩ :=
    mstWith_prim L chk st d data n h2 hs hl hnan hinf
  have hnn : ∀ s ∈ dend1.steps.toList, Num.isNaN s.d = false := by
    intro s hs'
    obtain ⟨t, ht⟩ := List.mem_iff_getElem?.mp hs'
    obtain ⟨_, _, _, _, _, mc⟩ := hprim.steps t s ht
    exact mc.nn
  obtain ⟨r, hr⟩ := relabel_total .single st1.set dend1 n h2 hres.obs hres.raw
    (Or.inr (Or.inr hnn))
  exact ⟨_, by rw [heq, hr]; rfl⟩

/-- **C04 for `mst_with`** (stage 3): the partition obtained by applying all output steps of height
`≤ h` is the partition into connected components of the threshold graph at `h`, for EVERY level
`h` (including levels that are not heights, ±∞, NaN). -/
theorem C04_mst (L : OrderLaws α) (chk : Bool) (st st' : State α) (d d' : Dendrogram α)
    (data : Array α) (n : Nat) (M' : Mat α) (h2 : 2 ≤ n) (hs : n < 2147483648)
    (hl : 2 * data.size = n * (n - 1)) (hnan : NoNaN n data) (hinf : InfTop n data)
    (hrun : mstWith chk st d data n = .ok (st', d', M')) (h : α) (u v : Nat) (hu : u < n) :
    SameCluster n d'.steps.toList h u v ↔ Reach n data h u v := by
  obtain ⟨st1, dend1, M1, ord, uf, hres, hprim, hrel⟩ :=
    mst_decompose L chk st st' d d' data n M' h2 hs hl hnan hinf hrun
  exact (mst_exact_core L n data h2 hnan ord dend1 d' st1.set uf hres.obs hres.raw hprim hrel h).1
    u v hu

/-- Heights of the output of `mst_with` are non-decreasing (and the dendrogram is well formed:
`C01_mst`). -/
theorem C04_mst_sorted (L : OrderLaws α) (chk : Bool) (st st' : State α) (d d' : Dendrogram α)
    (data : Array α) (n : Nat) (M' : Mat α) (h2 : 2 ≤ n) (hs : n < 2147483648)
    (hl : 2 * data.size = n * (n - 1)) (hnan : NoNaN n data) (hinf : InfTop n data)
    (hrun : mstWith chk st d data n = .ok (st', d', M')) :
    d'.steps.toList.Pairwise (fun s t => Num.lt t.d s.d = false) := by
  obtain ⟨st1, dend1, M1, ord, uf, hres, hprim, hrel⟩ :=
    mst_decompose L chk st st' d d' data n M' h2 hs hl hnan hinf hrun
  have := relabel_sorted L .single rfl dend1 d' st1.set uf hrel
  simpa [heights, HLe, List.pairwise_map] using this

/-- The number of output steps of height `≤ h` is `n` minus the number of connected components of
the threshold graph at `h` (components counted by pairwise non-connected representatives to which
every observation is connected) — for every `h`: the heights are, as a multiset up to
order-equivalence, the weights of a minimum spanning tree. -/
theorem C04_mst_count (L : OrderLaws α) (chk : Bool) (st st' : State α) (d d' : Dendrogram α)
    (data : Array α) (n : Nat) (M' : Mat α) (h2 : 2 ≤ n) (hs : n < 2147483648)
    (hl : 2 * data.size = n * (n - 1)) (hnan : NoNaN n data) (hinf : InfTop n data)
    (hrun : mstWith chk st d data n = .ok (st', d', M')) (h : α) :
    ∃ reps : List Nat,
      (d'.steps.toList.filter (fun st => !Num.lt h st.d)).length + reps.length = n ∧
      (∀ r ∈ reps, r < n) ∧
      reps.Pairwise (fun r r' => ¬ Reach n data h r r') ∧
      (∀ u, u < n → ∃ r ∈ reps, Reach n data h u r) := by
  obtain ⟨st1, dend1, M1, ord, uf, hres, hprim, hrel⟩ :=
    mst_decompose L chk st st' d d' data n M' h2 hs hl hnan hinf hrun
  exact (mst_exact_core L n data h2 hnan ord dend1 d' st1.set uf hres.obs hres.raw hprim hrel h).2

/-- Consequently "joined by the output steps of height `≤ h`" is an equivalence relation. -/
theorem C04_mst_sameCluster_equiv (L : OrderLaws α) (chk : Bool) (st st' : State α)
    (d d' : Dendrogram α) (data : Array α) (n : Nat) (M' : Mat α) (h2 : 2 ≤ n)
    (hs : n < 2147483648) (hl : 2 * data.size = n * (n - 1)) (hnan : NoNaN n data)
    (hinf : InfTop n data) (hrun : mstWith chk st d data n = .ok (st', d', M')) (h : α) :
    (∀ u, SameCluster n d'.steps.toList h u u) ∧
    (∀ u v, u < n → v < n → SameCluster n d'.steps.toList h u v →
      SameCluster n d'.steps.toList h v u) ∧
    (∀ u v w, u < n → v < n → SameCluster n d'.steps.toList h u v →
      SameCluster n d'.steps.toList h v w → SameCluster n d'.steps.toList h u w) := by
  have key := fun u v hu =>
    C04_mst L chk st st' d d' data n M' h2 hs hl hnan hinf hrun h u v hu
  refine ⟨fun u => Or.inl rfl, ?_, ?_⟩
  · intro u v hu hv huv
    exact (key v u hv).2 ((key u v hu).1 huv).symm
  · intro u v w hu hv huv hvw
    exact (key u w hu).2 (((key u v hu).1 huv).trans ((key v w hv).1 hvw))

/-- `linkage_with` with `Method::Single` is `mst_with` (generated dispatch table). -/
theorem linkage_single_eq (chk : Bool) (st : State α) (d : Dendrogram α) (data : Array α)
    (n : Nat) : linkageWith chk .single st d data n = mstWith chk st d data n := by
  unfold linkageWith; simp [dispatch]

/-- **C04 through `linkage_with(.., Method::Single, ..)`.** -/
theorem C04_linkage_single (L : OrderLaws α) (chk : Bool) (st st' : State α) (d d' : Dendrogram α)
    (data : Array α) (n : Nat) (M' : Mat α) (h2 : 2 ≤ n) (hs : n < 2147483648)
    (hl : 2 * data.size = n * (n - 1)) (hnan : NoNaN n data) (hinf : InfTop n data)
    (hrun : linkageWith chk .single st d data n = .ok (st', d', M')) (h : α) (u v : Nat)
    (hu : u < n) : SameCluster n d'.steps.toList h u v ↔ Reach n data h u v := by
  rw [linkage_single_eq] at hrun
  exact C04_mst L chk st st' d d' data n M' h2 hs hl hnan hinf hrun h u v hu

theorem C04_linkage_single_count (L : OrderLaws α) (chk : Bool) (st st' : State α)
    (d d' : Dendrogram α) (data : Array α) (n : Nat) (M' : Mat α) (h2 : 2 ≤ n)
    (hs : n < 2147483648) (hl : 2 * data.size = n * (n - 1)) (hnan : NoNaN n data)
    (hinf : InfTop n data) (hrun : linkageWith chk .single st d data n = .ok (st', d', M'))
    (h : α) :
    d'.steps.toList.Pairwise (fun s t => Num.lt t.d s.d = false) ∧
    ∃ reps : List Nat,
      (d'.steps.toList.filter (fun st => !Num.lt h st.d)).length + reps.length = n ∧
      (∀ r ∈ reps, r < n) ∧
      reps.Pairwise (fun r r' => ¬ Reach n data h r r') ∧
      (∀ u, u < n → ∃ r ∈ reps, Reach n data h u r) := by
  rw [linkage_single_eq] at hrun
  exact ⟨C04_mst_sorted L chk st st' d d' data n M' h2 hs hl hnan hinf hrun,
    C04_mst_count L chk st st' d d' data n M' h2 hs hl hnan hinf hrun h⟩

/-! ### Non-vacuity for `mst_with` (the 4-observation matrix of the previous section) -/

section NonVacuityMst
attribute [local instance] Toy.natNum

private def exData' : Array Nat := #[5, 9, 7, 8, 6, 1]

private theorem exNoNaN' : NoNaN 4 exData' := fun _ _ _ _ _ => rfl

private theorem exInfTop' : InfTop 4 exData' := by
  refine ⟨rfl, ?_⟩
  have : ∀ u, u < 4 → ∀ v, v < 4 → u ≠ v →
      Num.lt (Num.infinity : Nat) (entry 4 exData' Num.infinity u v) = false := by decide
  intro u v hu hv huv
  exact this u hu v hv huv

/-- All hypotheses of the section are satisfiable together (toy numbers, 4 observations), the run
returns, and the conclusion holds for it: at level 5 observations 0 and 1 are joined by the output
steps, 0 and 2 are not. -/
example : OrderLaws Nat ∧ NoNaN 4 exData' ∧ InfTop 4 exData' ∧
    ∃ st' d' M', mstWith true State.new (Dendrogram.new 4) exData' 4 = .ok (st', d', M') ∧
      SameCluster 4 d'.steps.toList 5 0 1 ∧ ¬ SameCluster 4 d'.steps.toList 5 0 2 := by
  refine ⟨Toy.natOrderLaws, exNoNaN', exInfTop', ?_⟩
  obtain ⟨⟨st', d', M'⟩, hr⟩ := C04_mst_total Toy.natOrderLaws true State.new (Dendrogram.new 4)
    exData' 4 (by decide) (by decide) (by decide) exNoNaN' exInfTop'
  have key := fun u v hu => C04_mst Toy.natOrderLaws true State.new st' (Dendrogram.new 4) d'
    exData' 4 M' (by decide) (by decide) (by decide) exNoNaN' exInfTop' hr 5 u v hu
  refine ⟨st', d', M', hr, (key 0 1 (by decide)).2 ?_, fun hsc => ?_⟩
  · exact Relation.ReflTransGen.single ⟨by decide, by decide, by decide, by decide⟩
  · have hreach := (key 0 2 (by decide)).1 hsc
    -- at level 5 the threshold graph has the edges 0–1 and 2–3 only
    have inv : ∀ x, Reach 4 exData' 5 0 x → x = 0 ∨ x = 1 := by
      intro x hx
      induction hx with
      | refl => exact Or.inl rfl
      | @tail y z _ h2 ih =>
        obtain ⟨hy, hz, hne, hle⟩ := h2
        have hall : ∀ y, y < 4 → ∀ z, z < 4 → (y = 0 ∨ y = 1) →
            Num.lt (5 : Nat) (entry 4 exData' Num.infinity y z) = false → (z = 0 ∨ z = 1) := by
          decide
        exact hall y hy z hz ih hle
    rcases inv 2 hreach with h | h <;> cases h

end NonVacuityMst

end Mst

/-! ## `primitive_with` with `Method::Single`, and `primitive_with` vs `mst_with`
## (appended section)

Entry points: `primitive_with(.., Method::Single, ..)` (model `primitiveWith … .single`) and
`mst_with` (model `mstWith`); both build modes, every prior state, every valid matrix
`2 ≤ n < 2^31`, `2·len = n(n-1)`.

Any number type `α` — hypotheses (all explicit):
  `OrderLaws α`, `LtTrichotomy α` (incomparable ⇒ equal; FALSE for IEEE floats because of `±0` and
  NaN — so these are exact-order statements; needed by `C03_primitive_single` for the symmetry of
  `min`), `NoNaN n data`; for the comparison with `mst_with` additionally `InfTop n data` (the
  sentinel `T::infinity()` is not NaN and not strictly below an entry — needed by `C04_mst`).

* `C04_primitive`        `primitiveWith … .single` returns, and for EVERY level `h` the returned steps
      of height `≤ h` join exactly the connected components of the threshold graph:
      `SameCluster … h u v ↔ Reach n data h u v`.  (`C03_primitive_single` + `C04_of_greedy`.)
* `C04_primitive_count`  the counting form (`C04_count`) and sortedness for the returned steps.
* `C04_primitive_mst_same_cuts`  both calls return and at every level `h` their outputs induce the
      SAME partition of the observations (`SameCluster` equivalent), whatever the build modes and
      prior states.  (`C04_primitive` + `C04_mst_total` + `C04_mst`.)  This is what is provable of
      "mst = primitive on single linkage" today: equality of the step LISTS on tie-free input needs
      `GreedyValid` of `mstWith`'s output, which is not available
      (`C06_primitive_mst_statement`).

EXACT ARITHMETIC corollaries (`K` a linearly ordered field with `ExactLaws K`: `fieldNum K`,
`fieldNumWith K sq`, or any exact run instance; IEEE floats are not a field, the float gap is
measured by the oracles): `C04_primitive_exact` (no hypothesis left besides the shape),
`C04_primitive_mst_same_cuts_exact` (hypothesis: every entry is `≤` the `infinity` sentinel of the
instance — for `fieldNum K`, whose sentinel is `0`, that restricts the input to non-positive
entries; use an exact instance with a large sentinel, as in the example).
-/

section Primitive

theorem initNoNaN_single_of_noNaN {n : Nat} {data : Array α} (h : NoNaN n data) :
    InitNoNaN .single n data := fun x y hx hy hxy => h x y hx hy hxy

/-- **C04 for `primitive_with(Method::Single)`**: threshold theorem for the returned steps. -/
theorem C04_primitive (L : OrderLaws α) (T : LtTrichotomy α) (chk : Bool) (st : State α)
    (d : Dendrogram α) (data : Array α) (n : Nat) (h2 : 2 ≤ n) (hs : n < 2147483648)
    (hl : 2 * data.size = n * (n - 1)) (hnan : NoNaN n data) :
    ∃ st' d' M', primitiveWith chk .single st d data n = .ok (st', d', M') ∧
      ∀ (h : α) (u v : Nat), u < n →
        (SameCluster n d'.steps.toList h u v ↔ Reach n data h u v) := by
  obtain ⟨st', d', M', hrun, hg⟩ := C03_primitive_single L T chk st d data n h2 hs hl
    (initNoNaN_single_of_noNaN hnan)
  exact ⟨st', d', M', hrun, fun h u v hu => C04_of_greedy L n data _ hnan hg h u v hu⟩

/-- Sortedness and the counting form for the steps returned by `primitive_with(Method::Single)`. -/
theorem C04_primitive_count (L : OrderLaws α) (T : LtTrichotomy α) (chk : Bool) (st : State α)
    (d : Dendrogram α) (data : Array α) (n : Nat) (h2 : 2 ≤ n) (hs : n < 2147483648)
    (hl : 2 * data.size = n * (n - 1)) (hnan : NoNaN n data) :
    ∃ st' d' M', primitiveWith chk .single st d data n = .ok (st', d', M') ∧
      d'.steps.toList.Pairwise (fun s t => Num.lt t.d s.d = false) ∧
      ∀ h : α, ∃ reps : List Nat,
        (d'.steps.toList.filter (fun st => !Num.lt h st.d)).length + reps.length = n ∧
        (∀ r ∈ reps, r < n) ∧
        reps.Pairwise (fun r r' => ¬ Reach n data h r r') ∧
        (∀ u, u < n → ∃ r ∈ reps, Reach n data h u r) := by
  obtain ⟨st', d', M', hrun, hg⟩ := C03_primitive_single L T chk st d data n h2 hs hl
    (initNoNaN_single_of_noNaN hnan)
  exact ⟨st', d', M', hrun, C04_heights_sorted L n data _ hnan hg,
    fun h => C04_count L n data _ hnan hg h⟩

/-- **`primitive_with(Single)` and `mst_with` cut identically at every level.** -/
theorem C04_primitive_mst_same_cuts (L : OrderLaws α) (T : LtTrichotomy α) (chk₁ chk₂ : Bool)
    (st₁ st₂ : State α) (d₁ d₂ : Dendrogram α) (data : Array α) (n : Nat) (h2 : 2 ≤ n)
    (hs : n < 2147483648) (hl : 2 * data.size = n * (n - 1)) (hnan : NoNaN n data)
    (hinf : InfTop n data) :
    ∃ sp dp Mp sm dm Mm,
      primitiveWith chk₁ .single st₁ d₁ data n = .ok (sp, dp, Mp) ∧
      mstWith chk₂ st₂ d₂ data n = .ok (sm, dm, Mm) ∧
      ∀ (h : α) (u v : Nat), u < n →
        (SameCluster n dp.steps.toList h u v ↔ SameCluster n dm.steps.toList h u v) := by
  obtain ⟨sp, dp, Mp, hp, hcp⟩ := C04_primitive L T chk₁ st₁ d₁ data n h2 hs hl hnan
  obtain ⟨⟨sm, dm, Mm⟩, hm⟩ := C04_mst_total L chk₂ st₂ d₂ data n h2 hs hl hnan hinf
  refine ⟨sp, dp, Mp, sm, dm, Mm, hp, hm, fun h u v hu => ?_⟩
  exact (hcp h u v hu).trans
    (C04_mst L chk₂ st₂ sm d₂ dm data n Mm h2 hs hl hnan hinf hm h u v hu).symm

/-- The same for given successful runs. -/
theorem C04_primitive_mst_same_cuts_of_runs (L : OrderLaws α) (T : LtTrichotomy α)
    (chk₁ chk₂ : Bool) (st₁ st₂ sp sm : State α) (d₁ d₂ dp dm : Dendrogram α) (data : Array α)
    (n : Nat) (Mp Mm : Mat α) (h2 : 2 ≤ n) (hs : n < 2147483648)
    (hl : 2 * data.size = n * (n - 1)) (hnan : NoNaN n data) (hinf : InfTop n data)
    (hp : primitiveWith chk₁ .single st₁ d₁ data n = .ok (sp, dp, Mp))
    (hm : mstWith chk₂ st₂ d₂ data n = .ok (sm, dm, Mm)) (h : α) (u v : Nat) (hu : u < n) :
    SameCluster n dp.steps.toList h u v ↔ SameCluster n dm.steps.toList h u v := by
  obtain ⟨sp', dp', Mp', hp', hcp⟩ := C04_primitive L T chk₁ st₁ d₁ data n h2 hs hl hnan
  rw [hp] at hp'
  simp only [Except.ok.injEq, Prod.mk.injEq] at hp'
  obtain ⟨-, rfl, -⟩ := hp'
  exact (hcp h u v hu).trans
    (C04_mst L chk₂ st₂ sm d₂ dm data n Mm h2 hs hl hnan hinf hm h u v hu).symm

end Primitive

section PrimitiveExact
variable {K : Type} [Field K] [LinearOrder K] [Num K]

theorem ExactLaws.noNaN_data (E : ExactLaws K) (n : Nat) (data : Array K) : NoNaN n data :=
  fun _ _ _ _ _ => E.noNaN _

/-- `C04_primitive` in exact arithmetic: no hypothesis besides the shape of the input. -/
theorem C04_primitive_exact (E : ExactLaws K) (chk : Bool) (st : State K) (d : Dendrogram K)
    (data : Array K) (n : Nat) (h2 : 2 ≤ n) (hs : n < 2147483648)
    (hl : 2 * data.size = n * (n - 1)) :
    ∃ st' d' M', primitiveWith chk .single st d data n = .ok (st', d', M') ∧
      ∀ (h : K) (u v : Nat), u < n →
        (SameCluster n d'.steps.toList h u v ↔ Reach n data h u v) :=
  C04_primitive E.field.orderLaws E.field.ltTrichotomy chk st d data n h2 hs hl (E.noNaN_data n data)

/-- `C04_primitive_mst_same_cuts` in exact arithmetic; `hinf`: no entry exceeds the sentinel. -/
theorem C04_primitive_mst_same_cuts_exact (E : ExactLaws K) (chk₁ chk₂ : Bool)
    (st₁ st₂ : State K) (d₁ d₂ : Dendrogram K) (data : Array K) (n : Nat) (h2 : 2 ≤ n)
    (hs : n < 2147483648) (hl : 2 * data.size = n * (n - 1))
    (hinf : ∀ u v, u < n → v < n → u ≠ v →
      entry n data Num.infinity u v ≤ (Num.infinity : K)) :
    ∃ sp dp Mp sm dm Mm,
      primitiveWith chk₁ .single st₁ d₁ data n = .ok (sp, dp, Mp) ∧
      mstWith chk₂ st₂ d₂ data n = .ok (sm, dm, Mm) ∧
      ∀ (h : K) (u v : Nat), u < n →
        (SameCluster n dp.steps.toList h u v ↔ SameCluster n dm.steps.toList h u v) :=
  C04_primitive_mst_same_cuts E.field.orderLaws E.field.ltTrichotomy chk₁ chk₂ st₁ st₂ d₁ d₂ data n
    h2 hs hl (E.noNaN_data n data)
    ⟨E.noNaN _, fun u v hu hv huv => E.field.lt_false.2 (hinf u v hu hv huv)⟩

end PrimitiveExact

/-! ### Non-vacuity over `ℚ` (an exact instance with sentinel `1000`) -/

section PrimitiveExample

/-- `fieldNum ℚ` with the sentinels set to `1000`. -/
@[reducible] private def qNumInf : Num ℚ := { fieldNum ℚ with maxValue := 1000, infinity := 1000 }

private theorem qNumInf_exact : @ExactLaws ℚ _ _ qNumInf :=
  @ExactLaws.mk ℚ _ _ qNumInf
    (@FieldLaws.mk ℚ _ _ qNumInf (fun _ _ => rfl) (fun _ _ => rfl) (fun _ _ => rfl)
      (fun _ _ => rfl) (fun _ _ => rfl) (fun _ => rfl) rfl rfl)
    (fun _ => rfl)

attribute [local instance] qNumInf

/-- `d01 = 5, d02 = 2, d12 = 9`. -/
private def exQ : Array ℚ := #[5, 2, 9]

private theorem exQ_inf : ∀ u v, u < 3 → v < 3 → u ≠ v →
    entry 3 exQ Num.infinity u v ≤ (Num.infinity : ℚ) := by
  have : ∀ u, u < 3 → ∀ v, v < 3 → u ≠ v →
      entry 3 exQ Num.infinity u v ≤ (Num.infinity : ℚ) := by decide
  intro u v hu hv huv
  exact this u hu v hv huv

/-- All hypotheses of the exact corollaries are satisfiable together; both algorithms return and
cut identically at every rational level. -/
example : ∃ sp dp Mp sm dm Mm,
    primitiveWith true .single State.new (Dendrogram.new 0) exQ 3 = .ok (sp, dp, Mp) ∧
    mstWith false State.new (Dendrogram.new 3) exQ 3 = .ok (sm, dm, Mm) ∧
    ∀ (h : ℚ) (u v : Nat), u < 3 →
      (SameCluster 3 dp.steps.toList h u v ↔ SameCluster 3 dm.steps.toList h u v) :=
  C04_primitive_mst_same_cuts_exact qNumInf_exact true false _ _ _ _ exQ 3 (by decide) (by decide)
    (by decide) exQ_inf

end PrimitiveExample

end Kodama
