/-
C04 — single linkage is exact.

## Specification level (this section; `C04_mst`, `C04_nnchain_partial` … are added below it)

Proved here, against the label-based specification `Kodama/Spec/Naive.lean` with `m = .single`
(no algorithm model is mentioned), for every `n`, every input array `data` whose off-diagonal
entries are not NaN (`NoNaN n data`; ±0, ±∞ and ties are allowed), every number type satisfying
`OrderLaws`, and EVERY `GreedyValid .single n data steps`:

* `C04_min_invariant`  (a) before every step `i` of the replay, for any two distinct live labels
        `x`, `y`, the table entry `D x y` is a lower bound of `entry u v` over
        `leaves x × leaves y` and is attained there: `D x y = min` over cross pairs.
* `C04_heights_sorted` heights never decrease along the run (`¬ d_k < d_j` for `j ≤ k`), because
        `Gen.single` returns one of its arguments and so never creates a value below the current
        minimum; none of them is NaN (`C04_heights_notNaN`) and each is an entry of the matrix
        between the two merged clusters (`C04_height_is_entry`).
* `C04_of_greedy`      (b) threshold theorem, for EVERY level `h : α` (not only the heights that
        occur; `h` may even be NaN or ±∞): two observations `u, v < n` are joined by the steps of
        height `≤ h` (`SameCluster`: `u = v`, or some step `k` with `¬ h < d_k` has both among the
        `Spec.leaves` of its new label `n+k`) iff they are connected in the threshold graph
        `entry u v ≤ h` (`Reach` = `Relation.ReflTransGen` of `Thr`: `u ≠ v`, both `< n`,
        `¬ h < entry u v`).  In particular `SameCluster … h` is an equivalence relation and its
        classes are the connected components.
* `C04_count`          (c) the number of steps of height `≤ h` is `n −` the number of connected
        components of the threshold graph at `h`; the number of components is given concretely by
        a list of pairwise non-connected representatives to which every observation is connected.

Number laws used (hypotheses, never axioms): `OrderLaws α` — `asymm` and `cotrans` (through
non-NaN middle elements), both true of IEEE `f32`/`f64` including NaN, ±0, ±∞.  No arithmetic law,
no totality/antisymmetry law (`-0.0` and `+0.0` may both occur), no `MonoSqrt` (single linkage does
not work on squares: `Method.onSquares .single = false` is read from the generated table by `rfl`).
The input hypothesis `NoNaN` is needed: with a NaN entry `Gen.single` is not a minimum
(`single NaN x = x` but `single x NaN = NaN`).

NOT proved here: that any algorithm of the crate returns a `GreedyValid .single` list (C03; for
`mst` the separate Prim argument `C04_mst`); the "MST weight multiset" reading of `C04_count`
beyond the counting statement itself.
Trusted: the definitions in `Spec/Naive.lean`, `Spec/WellFormed.lean` (`leaves`), `Spec/Pairs.lean`.
-/
import Kodama.Lemmas.SpecSingle
import Kodama.Lemmas.SpecDecide
namespace Kodama
open Spec
variable {α : Type} [Num α]

/-! ## Specification level -/

/-- The relation "joined by the steps of height `≤ h`" on observations, read off the step list
alone: equal, or both beneath the label created by one step whose height is not above `h`. -/
def SameCluster (n : Nat) (steps : List (Step α)) (h : α) (u v : Nat) : Prop :=
  u = v ∨ ∃ (k : Nat) (st : Step α), steps[k]? = some st ∧ Num.lt h st.d = false ∧
    u ∈ leaves n steps steps.length (n + k) ∧ v ∈ leaves n steps steps.length (n + k)

/-- (a) `D x y` is the minimum of the matrix over the cross pairs of the two clusters. -/
theorem C04_min_invariant (L : OrderLaws α) (n : Nat) (data : Array α) (steps : List (Step α))
    (hnan : NoNaN n data) (hv : GreedyValid .single n data steps) (i : Nat)
    (hi : i ≤ steps.length) (x y : Nat)
    (hx : x ∈ (stateAt .single (init .single n data) steps i).live)
    (hy : y ∈ (stateAt .single (init .single n data) steps i).live) (hxy : x ≠ y) :
    (∀ u ∈ leaves n steps steps.length x, ∀ v ∈ leaves n steps steps.length y,
      Num.lt (entry n data Num.infinity u v)
        ((stateAt .single (init .single n data) steps i).D x y) = false) ∧
    (∃ u ∈ leaves n steps steps.length x, ∃ v ∈ leaves n steps steps.length y,
      (stateAt .single (init .single n data) steps i).D x y = entry n data Num.infinity u v) := by
  have hs := stateAt_SInv L hnan hv.2 i hi
  have hinv := stInv_at hv.2 i hi
  have hord := fun i s => greedy_ordered hv.2 i s
  have hxl : x < n + steps.length := by have := hinv.lt x hx; have := hinv.next; omega
  have hyl : y < n + steps.length := by have := hinv.lt y hy; have := hinv.next; omega
  constructor
  · intro u hu v hv'
    exact hs.lb x hx y hy hxy u v ((mem_leaves_iff hord _ x hxl).1 hu)
      ((mem_leaves_iff hord _ y hyl).1 hv')
  · obtain ⟨u, v, hu, hv', e⟩ := hs.att x hx y hy hxy
    exact ⟨u, (mem_leaves_iff hord _ x hxl).2 hu, v, (mem_leaves_iff hord _ y hyl).2 hv', e⟩

/-- Every height is an entry of the matrix between a leaf of each of the two merged clusters. -/
theorem C04_height_is_entry (L : OrderLaws α) (n : Nat) (data : Array α) (steps : List (Step α))
    (hnan : NoNaN n data) (hv : GreedyValid .single n data steps) (k : Nat) (st : Step α)
    (hst : steps[k]? = some st) :
    ∃ u ∈ leaves n steps steps.length st.c1, ∃ v ∈ leaves n steps steps.length st.c2,
      u ≠ v ∧ st.d = entry n data Num.infinity u v := by
  have hord := fun i s => greedy_ordered hv.2 i s
  have ho := greedy_ordered hv.2 k st hst
  have hk := getElem?_lt hst
  obtain ⟨u, v, hu, hv', huv, e⟩ := single_height_attained L hnan hv.2 hst
  exact ⟨u, (mem_leaves_iff hord _ _ (by omega)).2 hu, v,
    (mem_leaves_iff hord _ _ (by omega)).2 hv', huv, e⟩

theorem C04_heights_notNaN (L : OrderLaws α) (n : Nat) (data : Array α) (steps : List (Step α))
    (hnan : NoNaN n data) (hv : GreedyValid .single n data steps) (k : Nat) (st : Step α)
    (hst : steps[k]? = some st) : Num.isNaN st.d = false :=
  single_height_notNaN L hnan hv.2 hst

/-- Heights are non-decreasing in step order. -/
theorem C04_heights_sorted (L : OrderLaws α) (n : Nat) (data : Array α) (steps : List (Step α))
    (hnan : NoNaN n data) (hv : GreedyValid .single n data steps) :
    steps.Pairwise (fun s t => Num.lt t.d s.d = false) := by
  rw [List.pairwise_iff_getElem]
  intro j k hj hk hjk
  exact single_heights_mono L hnan hv.2 (j := j) (by simp [hj]) k _ (by omega) (by simp [hk])

/-- (b) Threshold theorem: the clusters formed by the steps of height `≤ h` are the connected
components of the threshold graph at `h`. -/
theorem C04_of_greedy (L : OrderLaws α) (n : Nat) (data : Array α) (steps : List (Step α))
    (hnan : NoNaN n data) (hv : GreedyValid .single n data steps) (h : α) (u v : Nat)
    (hu : u < n) : SameCluster n steps h u v ↔ Reach n data h u v := by
  have hord := fun i s => greedy_ordered hv.2 i s
  constructor
  · rintro (rfl | ⟨k, st, hst, hle, hul, hvl⟩)
    · exact Relation.ReflTransGen.refl
    · have hk := getElem?_lt hst
      exact under_reach L hnan hv.2 h k st hst hle u v
        ((mem_leaves_iff hord _ _ (by omega)).1 hul) ((mem_leaves_iff hord _ _ (by omega)).1 hvl)
  · intro hr
    obtain ⟨i, hi, hbelow, hcut⟩ := exists_cut steps h
    obtain ⟨x, hx, hux, hvx⟩ := reach_sameAt L hnan hv h i hcut hu hr
    have hinv := stInv_at hv.2 i hi
    by_cases hxn : x < n
    · left; rw [hux.eq_of_lt hxn, hvx.eq_of_lt hxn]
    · right
      obtain ⟨k, rfl⟩ : ∃ k, x = n + k := ⟨x - n, by omega⟩
      have hki : k < i := by have := hinv.lt _ hx; have := hinv.next; omega
      have hk : k < steps.length := by omega
      have hst : steps[k]? = some steps[k] := by simp [hk]
      exact ⟨k, _, hst, hbelow k _ hki hst, (mem_leaves_iff hord _ _ (by omega)).2 hux,
        (mem_leaves_iff hord _ _ (by omega)).2 hvx⟩

/-- Consequently "joined by the steps of height `≤ h`" is an equivalence relation on observations
(its classes are the threshold components). -/
theorem C04_sameCluster_equiv (L : OrderLaws α) (n : Nat) (data : Array α)
    (steps : List (Step α)) (hnan : NoNaN n data) (hv : GreedyValid .single n data steps) (h : α) :
    (∀ u, SameCluster n steps h u u) ∧
    (∀ u v, u < n → v < n → SameCluster n steps h u v → SameCluster n steps h v u) ∧
    (∀ u v w, u < n → v < n → SameCluster n steps h u v → SameCluster n steps h v w →
      SameCluster n steps h u w) := by
  refine ⟨fun u => Or.inl rfl, ?_, ?_⟩
  · intro u v hu hv' huv
    exact (C04_of_greedy L n data steps hnan hv h v u hv').2
      ((C04_of_greedy L n data steps hnan hv h u v hu).1 huv).symm
  · intro u v w hu hv' huv hvw
    exact (C04_of_greedy L n data steps hnan hv h u w hu).2
      (((C04_of_greedy L n data steps hnan hv h u v hu).1 huv).trans
        ((C04_of_greedy L n data steps hnan hv h v w hv').1 hvw))

/-- (c) The number of steps of height `≤ h` is `n` minus the number of connected components of the
threshold graph at `h` — the components being counted by a list of pairwise non-connected
representatives to which every observation is connected. -/
theorem C04_count (L : OrderLaws α) (n : Nat) (data : Array α) (steps : List (Step α))
    (hnan : NoNaN n data) (hv : GreedyValid .single n data steps) (h : α) :
    ∃ reps : List Nat,
      (steps.filter (fun st => !Num.lt h st.d)).length + reps.length = n ∧
      (∀ r ∈ reps, r < n) ∧
      reps.Pairwise (fun r r' => ¬ Reach n data h r r') ∧
      (∀ u, u < n → ∃ r ∈ reps, Reach n data h u r) :=
  single_count L hnan hv h

/-! ### Non-vacuity: a concrete instance (4 observations, exact toy numbers) -/

section NonVacuity
attribute [local instance] Toy.natNum

/-- Condensed matrix `d01=5 d02=9 d03=7 d12=8 d13=6 d23=1`. -/
private def exData : Array Nat := #[5, 9, 7, 8, 6, 1]
private def exSteps : List (Step Nat) := [⟨2, 3, 1, 2⟩, ⟨0, 1, 5, 2⟩, ⟨4, 5, 6, 4⟩]

private theorem exNoNaN : NoNaN 4 exData := fun _ _ _ _ _ => rfl
private theorem exValid : GreedyValid .single 4 exData exSteps := by decide

/-- All hypotheses of the section are satisfiable together. -/
example : OrderLaws Nat ∧ NoNaN 4 exData ∧ GreedyValid .single 4 exData exSteps :=
  ⟨Toy.natOrderLaws, exNoNaN, exValid⟩

/-- At level 5 observations 0 and 1 are in one component (step 1, height 5, leaves `[0, 1]`) … -/
example : Reach 4 exData 5 0 1 :=
  (C04_of_greedy Toy.natOrderLaws 4 exData exSteps exNoNaN exValid 5 0 1 (by decide)).1
    (Or.inr ⟨1, ⟨0, 1, 5, 2⟩, rfl, by decide, by decide, by decide⟩)

/-- … and 0 and 2 are not: the only step joining them has height 6. -/
example : ¬ Reach 4 exData 5 0 2 := by
  intro hr
  rcases (C04_of_greedy Toy.natOrderLaws 4 exData exSteps exNoNaN exValid 5 0 2 (by decide)).2 hr
    with h | ⟨k, st, hst, hle, hu, hv⟩
  · cases h
  · match k, hst with
    | 0, hst => cases hst; revert hu; decide
    | 1, hst => cases hst; revert hv; decide
    | 2, hst => cases hst; revert hle; decide
    | k + 3, hst => simp [exSteps] at hst

end NonVacuity

end Kodama
