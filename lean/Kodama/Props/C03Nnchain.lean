/-
C03 for `nnchain_with` — the CORRECTNESS THEOREM OF THE NEAREST-NEIGHBOUR-CHAIN ALGORITHM
(Müllner 2011, Thm 3; Bruynooghe 1977; Murtagh 1983): the dendrogram returned by the model
`nnchainWith` of `src/chain.rs` — reciprocal-nearest-neighbour merges, stably sorted by height,
relabelled by union–find — is a GREEDY RUN of the independent label-based specification
`Spec.GreedyValid` (`Spec/Naive.lean`), ties included.  Hence also for `linkage_with` with
complete / average / weighted / Ward (which the generated `dispatch` table routes to nnchain).

## Scope of the statements

* EXACT ARITHMETIC for average / weighted / Ward: `K` a linearly ordered field whose `Num K` instance
  computes the field operations and has no NaN (`ExactLaws K`; `fieldNum K`, `fieldNumWith K sq`).
  IEEE floats are NOT a field and reducibility of the update formulas is FALSE under rounding
  (`(sa·x+sb·x)/(sa+sb) < x` in ~11 % of tied updates), so nothing here is a statement about
  `f32`/`f64` for these methods; the float claim for nnchain rests on the bit-exact correspondence
  run and the greedy-replay oracle (measured, not proved).
* single / complete: any number type whose `<` is a linear order without NaN, in two equivalent
  forms: `[LinearOrder α]` + `OrderNum α` (`Num.lt` is the order) + `∀ x, isNaN x = false`, or the
  law bundles `OrderLaws α` + `LtTrichotomy α` + `∀ x, isNaN x = false`.  (`LtTrichotomy` is false
  for IEEE floats because of `±0`; it is genuinely needed: `GreedyValid` demands the recorded height
  to EQUAL the spec's table value, and `min(+0,−0)` depends on the argument order.)
* entry point `nnchain_with` (model `nnchainWith`), both build modes `chk`, every prior
  `LinkageState`/`Dendrogram`, every valid matrix `2 ≤ n < 2^31`, `2·len = n(n−1)`.

## Theorems

Stage B (any number type, `OrderLaws` + `ChainReducible` as hypotheses — true of floats for
single/complete):
* `C03_nnchain_rnn`      every outer iteration merges two live clusters `a < b` that are RECIPROCAL
                         NEAREST NEIGHBOURS w.r.t. the current matrix, ties included (nothing is
                         strictly closer to `a` or to `b` than they are to each other), and records
                         `(a, b, M[a,b], |a|+|b|)`.
* `C03_nnchain_partial`  the whole loop: for every relation `R` propagated by the method's formula,
                         the raw dendrogram is a run of reciprocal-nearest-neighbour merges
                         (`Rnn.RnnFrom R`) of the clusters' `R`-dissimilarities (the statement promised
                         as `_nnchain_partial` in the design).
Stage C:
* `C03_nnchain_parent_ge_child`  in the raw dendrogram the step that consumes the cluster created by
                         step `i` is at least as high as step `i`.
* `C03_nnchain_sorted_run`  the stably sorted raw steps are again a run of reciprocal-nearest-neighbour
                         merges from the singletons (legality of the sorted replay included).
Stage D:
* `C03_nnchain_of_criterion`                  abstract form (any number type, hypotheses as law bundles).
* `C03_nnchain_exact`, `C03_nnchain`          all five methods over `ExactLaws K`.
* `C03_runWith_nnchain`                       the `C03_statement` instance for the entry point `nnchain`.
* `C03_nnchain_single`, `C03_nnchain_complete` (+ `_laws` forms) single / complete over a linear order.
* `C03_linkage_nnchain`  through `linkageWith` for complete / average / weighted / Ward.

## Proof (files `Lemmas/Rnn*.lean`)
`RnnState`: index-based runs; dissimilarities are a relation `R` on merge trees (`Crit.LWCompat`).
`RnnChain`: the loop performs such a run (matrix entry = `R`-value of the two trees: F1; the scan
gives reciprocal nearest neighbours: F2).  `RnnSort`: two ADJACENT steps with strictly decreasing
heights commute (they are independent by reducibility, F3; both stay reciprocal nearest neighbours),
so the stable (insertion) sort of the run is a run; a complete run with non-decreasing heights is
greedy (the pair member consumed first is then a reciprocal nearest neighbour at a height at least the
current one, while the other member is still alive and unchanged).  `RnnSpec`: index-based greedy run
⇒ `Spec.GreedyFrom` in merge-order labels.  `RnnRun`: `relabel` on the raw steps = `relabel` on the
sorted steps, whose union–find labels are the merge-order labels (`relabel_eq_mergeOrder`).

## Trusted
`Spec/Naive.lean`, `Spec/Pairs.lean` (the specification); that the model `nnchainWith` is the Rust
`nnchain_with` (translator + bit-exact correspondence run); std's `sort_by` being a stable sort
(`List.mergeSort`); Lean kernel + Mathlib (`propext`, `Classical.choice`, `Quot.sound`).
-/
import Kodama.Lemmas.RnnRun
import Kodama.Lemmas.RnnMono
import Kodama.Lemmas.ChainExact
import Kodama.Props.C02
namespace Kodama
open Spec Crit MTree
variable {α : Type} [Num α]

/-! ## Stage B: reciprocal nearest neighbours -/

/-- **F2.**  One outer iteration of `nnchain_with` merges two reciprocal nearest neighbours of the
current matrix (ties included) and records their entry as the height. -/
theorem C03_nnchain_rnn (L : OrderLaws α) (chk : Bool) (m : MethodChain) (hred : ChainReducible α m)
    (n k : Nat) (live : List Nat) (st : State α) (dend : Dendrogram α) (M : Mat α)
    (hk : k + 1 < n) (inv : ChainInv n k live st dend M) :
    ∃ st' dend' M' a b, chainIter chk m ⟨st, dend, M⟩ = .ok ⟨st', dend', M'⟩ ∧
      a < b ∧ a ∈ live ∧ b ∈ live ∧
      (∀ x ∈ live, x ≠ a → Num.lt (M.dval a x) (M.dval a b) = false) ∧
      (∀ x ∈ live, x ≠ b → Num.lt (M.dval b x) (M.dval a b) = false) ∧
      dend'.steps = dend.steps.push
        (Step.new a b (M.dval a b) (st.sizes.getD a 0 + st.sizes.getD b 0)) ∧
      ChainInv n (k + 1) (live.filter (· ≠ a)) st' dend' M' := by
  obtain ⟨st', dend', M', a, b, e, cinv, F⟩ := chainIter_ok_ext L chk m hred n k live st dend M hk inv
  exact ⟨st', dend', M', a, b, e, F.lt, F.ma, F.mb, F.nn a (Or.inl rfl), F.nn b (Or.inr rfl),
    F.steps, cinv⟩

/-- **The loop of `nnchain_with` is a run of reciprocal-nearest-neighbour merges** of the
`R`-dissimilarities of the clusters, for every relation `R` on merge trees that the method's
Lance–Williams formula propagates and that is functional.  Any number type; hypotheses: `OrderLaws`,
`ChainReducible`, no NaN in the (squared) input. -/
theorem C03_nnchain_partial (L : OrderLaws α) (chk : Bool) (mc : MethodChain)
    (hred : ChainReducible α mc) {R : MTree Nat → MTree Nat → α → Prop}
    (C : LWCompat mc.intoMethod R) (hu : ∀ s t v w, R s t v → R s t w → v = w)
    (data : Array α) (n : Nat) (h2 : 2 ≤ n) (hs : n < 2147483648)
    (hl : 2 * data.size = n * (n - 1)) (hnan : NoNaNData (squareData mc.intoMethod data))
    (hR : ∀ i j, i ≠ j → R (leaf i) (leaf j) ((init mc.intoMethod n data).D i j)) :
    ∃ s1 : ChainSt α,
      iterM (chainIter chk mc) (n - 1)
        ⟨{ (State.fresh n : State α) with chain := #[] }, Dendrogram.new n,
          { data := squareData mc.intoMethod data, n := n, acc := 0 }⟩ = .ok s1 ∧
      s1.dend.steps.size = n - 1 ∧
      Rnn.RnnFrom R (Rnn.IState.init n) s1.dend.steps.toList := by
  obtain ⟨s1, e, hres⟩ := chainLoop_rnn L chk mc hred C hu data n h2 hs hl hnan hR
  exact ⟨s1, e, hres.res.steps_sz, hres.run⟩

/-! ## Stage C: parent ≥ child, legality of the sorted replay -/

/-- **F4.**  In a run of reciprocal-nearest-neighbour merges from the singletons (in particular the
raw dendrogram of `nnchain_with`, `C03_nnchain_partial`), the first step after step `i` that touches the
index kept by step `i` — the merge consuming the cluster that step `i` created — is at least as high
as step `i`. -/
theorem C03_nnchain_parent_ge_child (L : OrderLaws α) (hnan : ∀ x : α, Num.isNaN x = false)
    {mc : MethodChain} (hred : ChainReducible α mc) {R : MTree Nat → MTree Nat → α → Prop}
    (C : LWCompat mc.intoMethod R) (hu : ∀ s t v w, R s t v → R s t w → v = w)
    (n : Nat) (data : Array α)
    (hR : ∀ i j, i ≠ j → R (leaf i) (leaf j) ((init mc.intoMethod n data).D i j))
    (raw : List (Step α)) (hrun : Rnn.RnnFrom R (Rnn.IState.init n) raw)
    (i j : Nat) (x y : Step α) (hij : i < j) (hx : raw[i]? = some x) (hy : raw[j]? = some y)
    (hbetween : ∀ k s, i < k → k < j → raw[k]? = some s → s.c1 ≠ x.c2 ∧ s.c2 ≠ x.c2)
    (htouch : y.c1 = x.c2 ∨ y.c2 = x.c2) : Num.lt y.d x.d = false :=
  Rnn.parent_ge_child_at (rlaws_of_reducible C hu hred hnan) L hnan
    (Rnn.sim_init mc.intoMethod n data hR).tab hrun i j x y hij hx hy hbetween htouch

/-- **The stably sorted raw steps are again a run of reciprocal-nearest-neighbour merges** from the
singletons (so they are a legal replay: every step merges two clusters alive at that time), and,
relabelled in that order, a greedy-valid dendrogram. -/
theorem C03_nnchain_sorted_run (L : OrderLaws α) (hnan : ∀ x : α, Num.isNaN x = false)
    {mc : MethodChain} (hred : ChainReducible α mc) (hsym : LwSymm α mc.intoMethod)
    {R : MTree Nat → MTree Nat → α → Prop}
    (C : LWCompat mc.intoMethod R) (hu : ∀ s t v w, R s t v → R s t w → v = w)
    (n : Nat) (h1 : 1 ≤ n) (data : Array α)
    (hR : ∀ i j, i ≠ j → R (leaf i) (leaf j) ((init mc.intoMethod n data).D i j))
    (raw : List (Step α)) (hlen : raw.length = n - 1)
    (hrun : Rnn.RnnFrom R (Rnn.IState.init n) raw) :
    Rnn.RnnFrom R (Rnn.IState.init n) (raw.mergeSort stepLe) ∧
    MergeTrace n (edgesOf (raw.mergeSort stepLe)) ∧
    GreedyValid mc.intoMethod n data (mergeOrder mc.intoMethod n (raw.mergeSort stepLe)) := by
  obtain ⟨hS, hg⟩ := sorted_rnn_greedyValid L hnan (rlaws_of_reducible C hu hred hnan) hsym n data hR
    raw hlen h1 hrun
  exact ⟨hS, Rnn.mergeTrace_of_rnn n _ hS, hg⟩

/-! ## Stage D: the returned dendrogram is greedy-valid -/

/-- **C03 for `nnchain_with`, abstract form** (any number type): under `OrderLaws`, absence of NaN,
reducibility (`ChainReducible`) and symmetry (`LwSymm`) of the method's update, and for ANY relation
`R` on merge trees that the update propagates (`LWCompat`), that is functional and that holds of the
input entries, `nnchainWith` returns and the returned steps are greedy-valid.  The theorems below
instantiate `R` with the documented criteria. -/
theorem C03_nnchain_of_criterion (L : OrderLaws α) (hnan : ∀ x : α, Num.isNaN x = false)
    (chk : Bool) (mc : MethodChain) (hred : ChainReducible α mc) (hsym : LwSymm α mc.intoMethod)
    {R : MTree Nat → MTree Nat → α → Prop} (C : LWCompat mc.intoMethod R)
    (hu : ∀ s t v w, R s t v → R s t w → v = w)
    (st : State α) (d : Dendrogram α) (data : Array α) (n : Nat) (h2 : 2 ≤ n)
    (hs : n < 2147483648) (hl : 2 * data.size = n * (n - 1))
    (hR : ∀ i j, i ≠ j → R (leaf i) (leaf j) ((init mc.intoMethod n data).D i j)) :
    ∃ st' d' M', nnchainWith chk mc st d data n = .ok (st', d', M') ∧
      GreedyValid mc.intoMethod n data d'.steps.toList :=
  nnchain_greedy L hnan chk mc hred hsym C hu st d data n h2 hs hl hR

section Exact
variable {K : Type} [Field K] [LinearOrder K] [IsStrictOrderedRing K] [Num K]

/-- **C03 for `nnchain_with` in exact arithmetic, all five methods**: the call returns normally and
the returned steps are a greedy run of the specification, ties included. -/
theorem C03_nnchain_exact (E : ExactLaws K) (chk : Bool) (mc : MethodChain) (st : State K)
    (d : Dendrogram K) (data : Array K) (n : Nat) (h2 : 2 ≤ n) (hs : n < 2147483648)
    (hl : 2 * data.size = n * (n - 1)) :
    ∃ st' d' M', nnchainWith chk mc st d data n = .ok (st', d', M') ∧
      GreedyValid mc.intoMethod n data d'.steps.toList :=
  nnchain_greedy E.field.orderLaws E.noNaN chk mc (chainReducible_exact E.field E.noNaN mc)
    (E.field.lwSymm mc.intoMethod)
    (C02_lw_criterion E.field mc.intoMethod _ (init_D_symm mc.intoMethod n data))
    (fun s t v w => Criterion.unique mc.intoMethod s t v w) st d data n h2 hs hl
    (fun i j _ => Criterion.leaf mc.intoMethod i j)

/-- **C03 for `nnchain_with`**, run form: whatever `nnchainWith` returns on a valid matrix is
greedy-valid. -/
theorem C03_nnchain (E : ExactLaws K) (chk : Bool) (mc : MethodChain) (st st' : State K)
    (d d' : Dendrogram K) (M' : Mat K) (data : Array K) (n : Nat) (h2 : 2 ≤ n)
    (hs : n < 2147483648) (hl : 2 * data.size = n * (n - 1))
    (hrun : nnchainWith chk mc st d data n = .ok (st', d', M')) :
    GreedyValid mc.intoMethod n data d'.steps.toList := by
  obtain ⟨st'', d'', M'', hrun', hg⟩ := C03_nnchain_exact E chk mc st d data n h2 hs hl
  rw [hrun] at hrun'
  simp only [Except.ok.injEq, Prod.mk.injEq] at hrun'
  obtain ⟨-, rfl, -⟩ := hrun'
  exact hg

omit [Field K] [LinearOrder K] [IsStrictOrderedRing K] in
/-- `linkage_with` routes complete / average / weighted / Ward to `nnchain_with`. -/
theorem linkageWith_eq_nnchainWith (chk : Bool) (mc : MethodChain) (hm : mc ≠ .single) (st : State K)
    (d : Dendrogram K) (data : Array K) (n : Nat) :
    linkageWith chk mc.intoMethod st d data n = nnchainWith chk mc st d data n := by
  cases mc with
  | single => exact absurd rfl hm
  | complete => rfl
  | average => rfl
  | weighted => rfl
  | ward => rfl

/-- **C03 for `linkage_with`** with complete / average / weighted / Ward (exact arithmetic). -/
theorem C03_linkage_nnchain (E : ExactLaws K) (chk : Bool) (mc : MethodChain) (hm : mc ≠ .single)
    (st : State K) (d : Dendrogram K) (data : Array K) (n : Nat) (h2 : 2 ≤ n)
    (hs : n < 2147483648) (hl : 2 * data.size = n * (n - 1)) :
    ∃ st' d' M', linkageWith chk mc.intoMethod st d data n = .ok (st', d', M') ∧
      GreedyValid mc.intoMethod n data d'.steps.toList := by
  rw [linkageWith_eq_nnchainWith chk mc hm]
  exact C03_nnchain_exact E chk mc st d data n h2 hs hl

omit [Field K] [LinearOrder K] [IsStrictOrderedRing K] in
theorem intoMethod_of_intoMethodChain {m : Method} {mc : MethodChain}
    (h : m.intoMethodChain = some mc) : mc.intoMethod = m := by
  cases m <;> simp [Method.intoMethodChain] at h <;> subst h <;> rfl

/-- **C03 for the entry point `nnchain`** in the form of `C03_statement` (`runWith .nnchain`): every
method the entry point accepts, exact arithmetic. -/
theorem C03_runWith_nnchain (E : ExactLaws K) (chk : Bool) (m : Method)
    (hacc : Alg.nnchain.accepts m = true) (st : State K) (d : Dendrogram K) (data : Array K)
    (n : Nat) (h2 : 2 ≤ n) (hs : n < 2147483648) (hl : 2 * data.size = n * (n - 1)) :
    ∃ st' d' M', runWith chk .nnchain m st d data n = .ok (st', d', M') ∧
      GreedyValid m n data d'.steps.toList := by
  simp only [Alg.accepts, Option.isSome_iff_exists] at hacc
  obtain ⟨mc, hmc⟩ := hacc
  have e := intoMethod_of_intoMethodChain hmc
  subst e
  simp only [runWith, hmc]
  exact C03_nnchain_exact E chk mc st d data n h2 hs hl

end Exact

/-! ### single / complete over any linear order without NaN -/

section Order
variable {β : Type} [LinearOrder β] [Num β]

theorem OrderNum.orderLaws (O : OrderNum β) : OrderLaws β where
  asymm a b h := by
    rw [O.lt, decide_eq_true_eq] at h
    rw [O.lt, decide_eq_false_iff_not]
    exact not_lt.mpr h.le
  cotrans a b c _ h := by
    rw [O.lt, decide_eq_true_eq] at h
    rw [O.lt, O.lt, decide_eq_true_eq, decide_eq_true_eq]
    rcases lt_or_ge a b with h' | h'
    · exact Or.inl h'
    · exact Or.inr (lt_of_le_of_lt h' h)

theorem OrderNum.ltTrichotomy (O : OrderNum β) : LtTrichotomy β := by
  intro a b h1 h2
  rw [O.lt, decide_eq_false_iff_not, not_lt] at h1 h2
  exact le_antisymm h2 h1

/-- The minimum over the cross pairs is propagated by the single-linkage update. -/
theorem lwCompat_single (O : OrderNum β) (d : Nat → Nat → β) (hd : ∀ i j, d i j = d j i) :
    LWCompat .single (fun s t v => IsMinOver d s.leaves t.leaves v) where
  symm := fun _ _ _ h => h.symm hd
  step := by
    intro ta tb tx va vb vab _ _ _ ha hb _
    simp only [leaves_node, Spec.lw]
    exact C02_single_criterion O ha hb

/-- The maximum over the cross pairs is propagated by the complete-linkage update. -/
theorem lwCompat_complete (O : OrderNum β) (d : Nat → Nat → β) (hd : ∀ i j, d i j = d j i) :
    LWCompat .complete (fun s t v => IsMaxOver d s.leaves t.leaves v) where
  symm := fun _ _ _ h => h.symm hd
  step := by
    intro ta tb tx va vb vab _ _ _ ha hb _
    simp only [leaves_node, Spec.lw]
    exact C02_complete_criterion O ha hb

/-- **C03 for `nnchain_with`, single linkage**, over any linearly ordered number type without NaN. -/
theorem C03_nnchain_single (O : OrderNum β) (hnan : ∀ x : β, Num.isNaN x = false) (chk : Bool)
    (st : State β) (d : Dendrogram β) (data : Array β) (n : Nat) (h2 : 2 ≤ n)
    (hs : n < 2147483648) (hl : 2 * data.size = n * (n - 1)) :
    ∃ st' d' M', nnchainWith chk .single st d data n = .ok (st', d', M') ∧
      GreedyValid .single n data d'.steps.toList :=
  nnchain_greedy O.orderLaws hnan chk .single chainReducible_single
    (lwSymm_single O.orderLaws O.ltTrichotomy)
    (lwCompat_single O _ (init_D_symm .single n data))
    (fun _ _ _ _ h1 h2 => h1.unique h2) st d data n h2 hs hl
    (fun i j _ => IsMinOver.singleton i j)

/-- **C03 for `nnchain_with`, complete linkage**, over any linearly ordered number type without
NaN. -/
theorem C03_nnchain_complete (O : OrderNum β) (hnan : ∀ x : β, Num.isNaN x = false) (chk : Bool)
    (st : State β) (d : Dendrogram β) (data : Array β) (n : Nat) (h2 : 2 ≤ n)
    (hs : n < 2147483648) (hl : 2 * data.size = n * (n - 1)) :
    ∃ st' d' M', nnchainWith chk .complete st d data n = .ok (st', d', M') ∧
      GreedyValid .complete n data d'.steps.toList :=
  nnchain_greedy O.orderLaws hnan chk .complete chainReducible_complete
    (lwSymm_complete O.orderLaws O.ltTrichotomy)
    (lwCompat_complete O _ (init_D_symm .complete n data))
    (fun _ _ _ _ h1 h2 => h1.unique h2) st d data n h2 hs hl
    (fun i j _ => IsMaxOver.singleton i j)

end Order

/-! ### single / complete from the law bundles -/

/-- `OrderLaws` + `LtTrichotomy` + "no NaN" make `Num.lt` the strict part of a linear order. -/
@[reducible] def linearOrderOfLaws (L : OrderLaws α) (T : LtTrichotomy α)
    (hnan : ∀ x : α, Num.isNaN x = false) : LinearOrder α where
  le a b := Num.lt b a = false
  lt a b := Num.lt a b = true
  le_refl a := L.irrefl a
  le_trans a b c h1 h2 := L.le_trans a b c (hnan b) h1 h2
  lt_iff_le_not_ge a b := by
    constructor
    · intro h; exact ⟨L.asymm a b h, by simp [h]⟩
    · intro h; simpa using h.2
  le_antisymm a b h1 h2 := T a b h2 h1
  le_total a b := L.le_total a b
  toDecidableLE := fun a b => inferInstanceAs (Decidable (Num.lt b a = false))
  toDecidableLT := fun a b => inferInstanceAs (Decidable (Num.lt a b = true))

theorem orderNum_ofLaws (L : OrderLaws α) (T : LtTrichotomy α)
    (hnan : ∀ x : α, Num.isNaN x = false) : @OrderNum α (linearOrderOfLaws L T hnan) _ :=
  @OrderNum.mk α (linearOrderOfLaws L T hnan) _ (fun a b => by
    show Num.lt a b = decide (Num.lt a b = true)
    simp)

/-- `C03_nnchain_single` from the law bundles. -/
theorem C03_nnchain_single_laws (L : OrderLaws α) (T : LtTrichotomy α)
    (hnan : ∀ x : α, Num.isNaN x = false) (chk : Bool)
    (st : State α) (d : Dendrogram α) (data : Array α) (n : Nat) (h2 : 2 ≤ n)
    (hs : n < 2147483648) (hl : 2 * data.size = n * (n - 1)) :
    ∃ st' d' M', nnchainWith chk .single st d data n = .ok (st', d', M') ∧
      GreedyValid .single n data d'.steps.toList :=
  @C03_nnchain_single α (linearOrderOfLaws L T hnan) _ (orderNum_ofLaws L T hnan) hnan chk st d data
    n h2 hs hl

/-- `C03_nnchain_complete` from the law bundles. -/
theorem C03_nnchain_complete_laws (L : OrderLaws α) (T : LtTrichotomy α)
    (hnan : ∀ x : α, Num.isNaN x = false) (chk : Bool)
    (st : State α) (d : Dendrogram α) (data : Array α) (n : Nat) (h2 : 2 ≤ n)
    (hs : n < 2147483648) (hl : 2 * data.size = n * (n - 1)) :
    ∃ st' d' M', nnchainWith chk .complete st d data n = .ok (st', d', M') ∧
      GreedyValid .complete n data d'.steps.toList :=
  @C03_nnchain_complete α (linearOrderOfLaws L T hnan) _ (orderNum_ofLaws L T hnan) hnan chk st d
    data n h2 hs hl

/-! ## Non-vacuity -/

section Example

/-- All five methods over `fieldNum ℚ` on `d01=1 d02=9 d12=4` (and every `sqrt`). -/
example (sq : ℚ → ℚ) (mc : MethodChain) : ∃ st' d' M',
    @nnchainWith ℚ (fieldNumWith ℚ sq) true mc State.new (Dendrogram.new 0) #[1, 9, 4] 3
      = .ok (st', d', M') ∧
    @GreedyValid ℚ (fieldNumWith ℚ sq) mc.intoMethod 3 #[1, 9, 4] d'.steps.toList :=
  @C03_nnchain_exact ℚ _ _ _ (fieldNumWith ℚ sq) (exactLaws_fieldNumWith ℚ sq) true mc _ _ _ 3
    (by decide) (by decide) (by decide)

/-- Ward through `linkage_with`, with ties (`d01 = d23 = 1`, everything else `4`). -/
example : ∃ st' d' M',
    @linkageWith ℚ (fieldNum ℚ) false .ward State.new (Dendrogram.new 0) #[1, 4, 4, 4, 4, 1] 4
      = .ok (st', d', M') ∧
    @GreedyValid ℚ (fieldNum ℚ) .ward 4 #[1, 4, 4, 4, 4, 1] d'.steps.toList :=
  @C03_linkage_nnchain ℚ _ _ _ (fieldNum ℚ) (exactLaws_fieldNum ℚ) false .ward (by decide) _ _ _ 4
    (by decide) (by decide) (by decide)

section
attribute [local instance] Toy.natNum

/-- Single linkage over the toy numbers `Nat` (a linear order that is not a field), with ties. -/
example : ∃ st' d' M',
    nnchainWith true .single State.new (Dendrogram.new 0) (#[5, 1, 4, 3, 1, 2] : Array Nat) 4
      = .ok (st', d', M') ∧
    GreedyValid .single 4 (#[5, 1, 4, 3, 1, 2] : Array Nat) d'.steps.toList :=
  C03_nnchain_single_laws Toy.natOrderLaws Toy.natTrichotomy (fun _ => rfl) true _ _ _ 4
    (by decide) (by decide) (by decide)

end

end Example

end Kodama
