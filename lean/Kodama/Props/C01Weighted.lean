/-
C01 for WEIGHTED linkage through `nnchain_with` / `linkage_with`, for every ordered number type whose
`+` and `½·` satisfy `HalfAddLaws` on a domain `ok` that contains the input.

Background.  `nnchain_with` is only correct for REDUCIBLE updates; on the model side this is the
hypothesis `ChainReducible α mc` of `C01_nnchain` / `C12_nnchain_ok` / `C14_nnchain`
(`Lemmas/ChainIter.lean`), which quantifies over ALL non-NaN values.  For the weighted update
`½·(a + b)` (`Gen.weighted`, `Kodama/Generated/Method.lean`) older headers (`Props/C01.lean`,
`C12.lean`, `C14.lean`, `C01Average.lean`, `Lemmas/ChainInv.lean`, `ChainExact.lean`) call that
hypothesis "false for IEEE floats under rounding".  The unrestricted statement IS false for floats, but
NOT through rounding: the only failures are overflow (`a = b = t = −max_value`: `a + b = −∞`) and
`∞ + (−∞) = NaN`.  On finite values of moderate magnitude reducibility of the midpoint follows from
monotonicity of `+` and `½·` and exactness of doubling/halving (`HalfAddLaws.mid_ge`,
`Lemmas/WeightedMono.lean`).  The chain invariant applies reducibility to matrix entries between live
clusters only, so reducibility ON A DOMAIN closed under the update suffices (`ChainReducibleOn`,
`chainIter_ok_on` … `nnchainWith_eq_on`, `Lemmas/ChainOn.lean`).

Proved here, for every valid matrix (2 ≤ n < 2^31, 2·len = n(n−1)), both build modes, every prior state:

* `C01_nnchain_on`        (any chain method, any domain) `nnchainWith chk mc …` returning `(st', d', M')`
                          implies `d'.obs = n ∧ WellFormed n d'.steps`, under `ChainReducibleOn α ok mc`;
* `C01_nnchain_weighted`  the same for `.weighted` under `HalfAddLaws α ok`;
* `C01_linkage_weighted`  the same through `linkageWith chk .weighted` (routed to nnchain by the
                          generated dispatch table).

Hypotheses (explicit):
* `OrderLaws α`        `<` is a strict weak order on the non-NaN values (true of IEEE `<`);
* `NoNaNData data`     no NaN in the input (weighted does not square the input);
* `OkData ok data`     every input entry lies in the domain `ok`;
* `HalfAddLaws α ok`   on `ok` values: `+` monotone in each argument, `½·` monotone on sums,
                       `½·(t + t) ≥ t`, the midpoint is not NaN and is `ok` again.

TRUSTED, not proved: `HalfAddLaws` for IEEE `f32`/`f64` on `ok := moderate` (not NaN,
`0 ≤ v ≤ 2^(bias/2)`).  `Float` is opaque in Lean; the six laws are SAMPLED by `kodama-laws`
(`check_HalfAddLaws_*`, `Kodama/LawsSample.lean`: no counterexample on the guarded domain; without the
guard `half_double` / `mid_ge` fail exactly at `−max_value` and `mid_notNaN` at `∞ + (−∞)`).  Each law is
a textbook property of round-to-nearest.  PROVED: the laws for exact arithmetic
(`halfAddLaws_of_fieldLaws`, `Lemmas/WeightedExact.lean`), so the theorems are not vacuous (ℚ, below).

Ward: its `ChainReducible` was false under rounding (the sampler found counterexamples on the moderate
domain too) until the second `fix:` commit of the crate (guarded clamp of the quotient from below); it
is now a theorem for every `OrderLaws α`, see `Props/C01Ward.lean`.
-/
import Kodama.Props.C01
import Kodama.Lemmas.WeightedExact
namespace Kodama
open Spec
variable {α : Type} [Num α]

theorem squareData_weighted (data : Array α) :
    squareData (MethodChain.intoMethod .weighted) data = data := by
  simp [squareData, MethodChain.intoMethod, Method.onSquares]

/-- **C01 through `nnchain_with` for a method that is reducible on a domain containing the (squared)
input.**  `C01_nnchain` is the case `ok := fun _ => True`. -/
theorem C01_nnchain_on (L : OrderLaws α) (chk : Bool) (mc : MethodChain) (ok : α → Prop)
    (hred : ChainReducibleOn α ok mc)
    (st st' : State α) (d d' : Dendrogram α) (data : Array α) (n : Nat) (M' : Mat α)
    (h2 : 2 ≤ n) (hs : n < 2147483648) (hl : 2 * data.size = n * (n - 1))
    (hnan : NoNaNData (squareData mc.intoMethod data))
    (hd : OkData ok (squareData mc.intoMethod data))
    (h : nnchainWith chk mc st d data n = .ok (st', d', M')) :
    d'.obs = n ∧ WellFormed n d'.steps.toList := by
  obtain ⟨s1, hres, heq⟩ := nnchainWith_eq_on L chk mc ok hred st d data n h2 hs hl hnan hd
  rw [heq] at h
  obtain ⟨⟨uf, rel⟩, hrel, hr⟩ := bind_ok.mp h
  simp only [pure_ok, Prod.mk.injEq] at hr
  rw [← hr.2.1]
  have := C01_relabel mc.intoMethod s1.st.set uf s1.dend rel n h2 hres.obs hres.raw hrel
  refine ⟨?_, wellFormed_sqrtSteps mc.intoMethod n rel this.2⟩
  unfold sqrtSteps; split <;> exact this.1

/-- **C01, weighted linkage through `nnchain_with`**, input in a domain on which `HalfAddLaws` holds. -/
theorem C01_nnchain_weighted (L : OrderLaws α) (ok : α → Prop) (H : HalfAddLaws α ok) (chk : Bool)
    (st st' : State α) (d d' : Dendrogram α) (data : Array α) (n : Nat) (M' : Mat α)
    (h2 : 2 ≤ n) (hs : n < 2147483648) (hl : 2 * data.size = n * (n - 1))
    (hnan : NoNaNData data) (hd : OkData ok data)
    (h : nnchainWith chk .weighted st d data n = .ok (st', d', M')) :
    d'.obs = n ∧ WellFormed n d'.steps.toList :=
  C01_nnchain_on L chk .weighted ok (chainReducibleOn_weighted L H) st st' d d' data n M' h2 hs hl
    (by rw [squareData_weighted]; exact hnan) (by rw [squareData_weighted]; exact hd) h

/-- **C01, weighted linkage through `linkage_with`** (dispatched to `nnchain_with`). -/
theorem C01_linkage_weighted (L : OrderLaws α) (ok : α → Prop) (H : HalfAddLaws α ok) (chk : Bool)
    (st st' : State α) (d d' : Dendrogram α) (data : Array α) (n : Nat) (M' : Mat α)
    (h2 : 2 ≤ n) (hs : n < 2147483648) (hl : 2 * data.size = n * (n - 1))
    (hnan : NoNaNData data) (hd : OkData ok data)
    (h : linkageWith chk .weighted st d data n = .ok (st', d', M')) :
    d'.obs = n ∧ WellFormed n d'.steps.toList := by
  rw [linkageWith_nnchain chk .weighted .weighted (by decide) rfl] at h
  exact C01_nnchain_weighted L ok H chk st st' d d' data n M' h2 hs hl hnan hd h

/-! ### Non-vacuity (ℚ with its field operations, a valid 4-point matrix, the domain `0 ≤ ·`) -/

section NonVacuity
attribute [local instance] fieldNum

theorem Toy.ratOrderLaws : OrderLaws ℚ := orderLaws_of_fieldLaws (fieldNum_laws ℚ)
theorem Toy.ratHalfAddLaws : HalfAddLaws ℚ (fun x => 0 ≤ x) :=
  halfAddLaws_nonneg (fieldNum_laws ℚ) (fun _ => rfl)

/-- The six entries of the example matrix are non-negative. -/
theorem Toy.ratOkData : OkData (fun x : ℚ => 0 ≤ x) (#[5, 2, 9, 7, 4, 1] : Array ℚ) := by
  intro i h
  have h6 : i < 6 := h
  match i, h6 with
  | 0, _ | 1, _ | 2, _ | 3, _ | 4, _ | 5, _ => simp

/-- The hypotheses are jointly satisfiable. -/
example : OrderLaws ℚ ∧ HalfAddLaws ℚ (fun x => 0 ≤ x) ∧
    NoNaNData (#[5, 2, 9, 7, 4, 1] : Array ℚ) ∧
    OkData (fun x : ℚ => 0 ≤ x) (#[5, 2, 9, 7, 4, 1] : Array ℚ) :=
  ⟨Toy.ratOrderLaws, Toy.ratHalfAddLaws, fun _ _ => rfl, Toy.ratOkData⟩

example (st' : State ℚ) (d' : Dendrogram ℚ) (M' : Mat ℚ)
    (h : nnchainWith true .weighted State.new (Dendrogram.new 4)
      (#[5, 2, 9, 7, 4, 1] : Array ℚ) 4 = .ok (st', d', M')) :
    d'.obs = 4 ∧ WellFormed 4 d'.steps.toList :=
  C01_nnchain_weighted Toy.ratOrderLaws _ Toy.ratHalfAddLaws true _ st' _ d' _ 4 M'
    (by decide) (by decide) (by decide) (fun _ _ => rfl) Toy.ratOkData h

end NonVacuity

end Kodama
