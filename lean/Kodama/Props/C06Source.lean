/-
C06 (tie to the source) — fingerprints of the hand-modelled functions this property's theorems are about.

The model of these functions is written by hand and tied to the crate by the bit-exact correspondence
run, which is bounded by the sizes it generates.  `Generated/Bodies.lean` is re-emitted from /repo on
every run with a fingerprint of each function's NORMALISED body (comments, attributes, cfg(test) items
and whitespace removed; parameters and local bindings alpha-renamed; tools/extract_bodies.py); each
theorem below pins the fingerprint of the text the model was written against.  A theorem that no longer
checks names the function that was edited: the model may no longer describe it (for instance on sizes the
correspondence run does not reach), and `check` searches for a failing input.  Written by
tools/mk_source_snapshot.py — by hand, after the model has been brought up to date, never by a check.
-/
import Kodama.Generated.Bodies
namespace Kodama

theorem C06_source_primitive_primitive_with : Gen.bodyHash "primitive.rs::primitive_with" = some 761770269870546089 := by decide
theorem C06_source_primitive_argmin : Gen.bodyHash "primitive.rs::argmin" = some 1121607890787478695 := by decide
theorem C06_source_chain_nnchain_with : Gen.bodyHash "chain.rs::nnchain_with" = some 106125546475694288 := by decide
theorem C06_source_generic_generic_with : Gen.bodyHash "generic.rs::generic_with" = some 666595537043039253 := by decide
theorem C06_source_spanning_mst_with : Gen.bodyHash "spanning.rs::mst_with" = some 666729020279403072 := by decide
theorem C06_source_primitive_primitive : Gen.bodyHash "primitive.rs::primitive" = some 1103101677825009426 := by decide
theorem C06_source_chain_nnchain : Gen.bodyHash "chain.rs::nnchain" = some 24852539402900289 := by decide
theorem C06_source_generic_generic : Gen.bodyHash "generic.rs::generic" = some 580816253015378521 := by decide
theorem C06_source_spanning_mst : Gen.bodyHash "spanning.rs::mst" = some 18907340084940961 := by decide
theorem C06_source_lib_linkage : Gen.bodyHash "lib.rs::linkage" = some 1100865002720859849 := by decide
theorem C06_source_lib_linkage_with : Gen.bodyHash "lib.rs::linkage_with" = some 71898259211120550 := by decide

end Kodama
