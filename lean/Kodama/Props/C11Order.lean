/-
C11 for SINGLE and COMPLETE linkage over ANY ordered number type — no field, no rounding (the companion of
`Props/C06Order.lean`).

Single and complete linkage only select input entries, so renumbering invariance holds EXACTLY (heights
included) over every number type with `OrderLaws α` + `LtTrichotomy α`, NaN-free:

* `C11_single_complete_order`  `data'` is the matrix of the renumbered observations (`hperm`); on a tie-free
  input (`TieFreeFrom` along a greedy-valid reference run `steps₀` of `data`), `primitive_with` and
  `nnchain_with` applied to `data'` return steps `e'` with `steps₀ = e'.map (mapStep (σ π n))`: the same
  heights and sizes step by step, and the cluster created by step `i`, mapped back through `π`, is the
  cluster created by step `i` of the reference.

(Exact arithmetic, all methods: `Props/C11*.lean`; average / weighted under rounding: `C11Rounding*.lean`.)
-/
import Kodama.Props.C11
import Kodama.Props.C03Nnchain
set_option linter.unusedSectionVars false
namespace Kodama
open Spec
variable {α : Type} [Num α]

theorem C11_single_complete_order (L : OrderLaws α) (T : LtTrichotomy α)
    (hnan : ∀ x : α, Num.isNaN x = false) (m : Method) (hm : m = .single ∨ m = .complete)
    (data data' : Array α) (n : Nat) (h2 : 2 ≤ n) (hs : n < 2147483648)
    (hl' : 2 * data'.size = n * (n - 1))
    {π ρ : Nat → Nat} (hπ : IsPerm n π ρ)
    (hperm : ∀ i j, i < n → j < n →
      entry n data' Num.infinity i j = entry n data Num.infinity (π i) (π j))
    (steps₀ : List (Step α)) (h₀ : GreedyValid m n data steps₀)
    (ht : TieFreeFrom m (init m n data) steps₀) :
    (∀ (chk : Bool) (st : State α) (d : Dendrogram α),
      ∃ st' e' M', primitiveWith chk m st d data' n = .ok (st', e', M') ∧
        steps₀ = e'.steps.toList.map (mapStep (σ π n)) ∧
        steps₀.map (·.d) = e'.steps.toList.map (·.d) ∧
        steps₀.map (·.size) = e'.steps.toList.map (·.size) ∧
        ∀ i, (leaves n steps₀ steps₀.length (n + i)).Perm
          ((leaves n e'.steps.toList e'.steps.toList.length (n + i)).map π)) ∧
    (∀ mc : MethodChain, mc.intoMethod = m → ∀ (chk : Bool) (st : State α) (d : Dendrogram α),
      ∃ st' e' M', nnchainWith chk mc st d data' n = .ok (st', e', M') ∧
        steps₀ = e'.steps.toList.map (mapStep (σ π n)) ∧
        steps₀.map (·.d) = e'.steps.toList.map (·.d) ∧
        steps₀.map (·.size) = e'.steps.toList.map (·.size) ∧
        ∀ i, (leaves n steps₀ steps₀.length (n + i)).Perm
          ((leaves n e'.steps.toList e'.steps.toList.length (n + i)).map π)) := by
  have h0' : InitNoNaN m n data' := fun _ _ _ _ _ => hnan _
  have hS : LwSymm α m := by
    rcases hm with rfl | rfl
    · exact lwSymm_single L T
    · exact lwSymm_complete L T
  constructor
  · intro chk st d
    rcases hm with rfl | rfl
    · obtain ⟨st', e', M', hr, hg⟩ := C03_primitive_single L T chk st d data' n h2 hs hl' h0'
      exact ⟨st', e', M', hr, C11_spec_unique hπ hS hperm hg h₀ ht⟩
    · obtain ⟨st', e', M', hr, hg⟩ := C03_primitive_complete L T chk st d data' n h2 hs hl' h0'
      exact ⟨st', e', M', hr, C11_spec_unique hπ hS hperm hg h₀ ht⟩
  · intro mc e chk st d
    rcases hm with rfl | rfl
    · have : mc = .single := by cases mc <;> simp [MethodChain.intoMethod] at e <;> rfl
      subst this
      obtain ⟨st', e', M', hr, hg⟩ := C03_nnchain_single_laws L T hnan chk st d data' n h2 hs hl'
      exact ⟨st', e', M', hr, C11_spec_unique hπ hS hperm hg h₀ ht⟩
    · have : mc = .complete := by cases mc <;> simp [MethodChain.intoMethod] at e <;> rfl
      subst this
      obtain ⟨st', e', M', hr, hg⟩ := C03_nnchain_complete_laws L T hnan chk st d data' n h2 hs hl'
      exact ⟨st', e', M', hr, C11_spec_unique hπ hS hperm hg h₀ ht⟩

/-! ## Non-vacuity (toy exact numbers `Nat`; the 4-observation matrix of `Props/C06.lean`, observations
`0 ↔ 3` exchanged) -/

section Example
attribute [local instance] Toy.natNum

private def exπ (i : Nat) : Nat := if i = 0 then 3 else if i = 3 then 0 else i

private theorem exπ_perm : IsPerm 4 exπ exπ := by
  refine ⟨?_, ?_, ?_, ?_⟩ <;> intro i hi <;> (have : i = 0 ∨ i = 1 ∨ i = 2 ∨ i = 3 := by omega) <;>
    rcases this with rfl | rfl | rfl | rfl <;> decide

private theorem ex_hperm : ∀ i j, i < 4 → j < 4 →
    entry 4 (#[6, 1, 7, 8, 5, 9] : Array Nat) Num.infinity i j =
      entry 4 (#[5, 9, 7, 8, 6, 1] : Array Nat) Num.infinity (exπ i) (exπ j) := by
  intro i j hi hj
  have : i = 0 ∨ i = 1 ∨ i = 2 ∨ i = 3 := by omega
  have : j = 0 ∨ j = 1 ∨ j = 2 ∨ j = 3 := by omega
  rcases ‹i = 0 ∨ i = 1 ∨ i = 2 ∨ i = 3› with rfl | rfl | rfl | rfl <;>
    rcases ‹j = 0 ∨ j = 1 ∨ j = 2 ∨ j = 3› with rfl | rfl | rfl | rfl <;> rfl

/-- Complete linkage on the renumbered matrix returns the reference run of the original one, mapped. -/
example : ∃ st' e' M',
    primitiveWith true .complete State.new (Dendrogram.new 0) (#[6, 1, 7, 8, 5, 9] : Array Nat) 4
      = .ok (st', e', M') ∧
    ([⟨2, 3, 1, 2⟩, ⟨0, 1, 5, 2⟩, ⟨4, 5, 9, 4⟩] : List (Step Nat)) =
      e'.steps.toList.map (mapStep (σ exπ 4)) := by
  obtain ⟨st', e', M', hr, he, _⟩ := (C11_single_complete_order Toy.natOrderLaws Toy.natTrichotomy
    (fun _ => rfl) .complete (Or.inr rfl) #[5, 9, 7, 8, 6, 1] #[6, 1, 7, 8, 5, 9] 4 (by decide)
    (by decide) (by decide) exπ_perm ex_hperm [⟨2, 3, 1, 2⟩, ⟨0, 1, 5, 2⟩, ⟨4, 5, 9, 4⟩]
    (by decide) (by decide)).1 true State.new (Dendrogram.new 0)
  exact ⟨st', e', M', hr, he⟩

end Example

end Kodama
