/-
C02 for `generic_with`, `mst_with` and `linkage_with`: every height of the RETURNED dendrogram is the
documented linkage criterion of the two clusters it merges, computed from the ORIGINAL matrix.

## Scope
EXACT ARITHMETIC ONLY: `K` a linearly ordered field whose `Num K` instance computes the field
operations and has no NaN (`ExactLaws K`).  IEEE floats are not a field (the closed forms of the
update formulas need associativity / distributivity); the float gap is measured by the oracles.
Both build modes, every prior state, every valid matrix `2 ≤ n < 2^31`, `2·len = n(n−1)`.

## Statement (same conclusion as `C02_primitive`, `Props/C02.lean`)
The call returns, and for EVERY returned step `s` with `A`, `B` the observation sets
(`Spec.leaves`) of its two labels in the returned dendrogram, `T₁`, `T₂` their merge trees
(`clusterTree`) and `dm = (Spec.init m n data).D` the base matrix (= the input entries, squared iff
`m.onSquares`: `C02_base_matrix`):
  single   `IsMinOver dm A B s.d`  (attained minimum over the cross pairs)
  complete `IsMaxOver dm A B s.d`
  average  `s.d = avg dm A B`      (mean over the cross pairs)
  weighted `s.d = wdist dm T₁ T₂`  (the tree recursion)
  Ward / centroid / median  `s.d = Num.sqrt` of `wardc dm A B` / `cen dm A B` / `mdist dm T₁ T₂`
  (`Num.sqrt` completely abstract, as in `C02_greedy_heights_closed`).

* `C02_generic`, `C02_generic_of_run`   `genericWith`, all seven methods; hypotheses `BeqExact K`,
                                        `GenericSafe m data` (`Props/C03Generic.lean`).
* `C02_mst`, `C02_mst_of_run`           `mstWith` (single linkage); hypothesis `InfSafe n data`.
* `C02_linkage`, `C02_linkage_of_run`   `linkageWith`, all seven methods; `InfSafe n data` if routed to
                                        mst (single), `BeqExact K ∧ GenericSafe m data` if routed to
                                        generic (centroid, median), nothing otherwise.
Proof: the returned steps are `Spec.GreedyValid` (`C03_generic_exact`, `C03_mst_total`,
`C03_linkage_exact`) and every greedy-valid dendrogram has these heights
(`C02_greedy_heights_closed`).

NOT proved: anything about floats; `height² = criterion` for the methods on squares (needs
`sqrt v · sqrt v = v`, `0 ≤ criterion`); `GenericSafe` for Ward/centroid/median from a bound on the
input (limitation stated in `Props/C03Generic.lean`).
-/
import Kodama.Props.C03Generic
import Kodama.Props.C02
namespace Kodama
open Spec Crit Finset
variable {K : Type} [Field K] [LinearOrder K] [IsStrictOrderedRing K] [Num K]

/-- **C02 for `generic_with`, exact arithmetic, all seven methods.** -/
theorem C02_generic (E : ExactLaws K) (B : BeqExact K) (chk : Bool) (m : Method) (st : State K)
    (d : Dendrogram K) (data : Array K) (n : Nat) (h2 : 2 ≤ n) (hs : n < 2147483648)
    (hl : 2 * data.size = n * (n - 1)) (S : GenericSafe m data) :
    ∃ st' d' M', genericWith chk m st d data n = .ok (st', d', M') ∧
      ∀ (i : Nat) (s : Step K), d'.steps.toList[i]? = some s →
        let steps := d'.steps.toList
        let dm := (Spec.init m n data).D
        let A := (Spec.leaves n steps steps.length s.c1).toFinset
        let B := (Spec.leaves n steps steps.length s.c2).toFinset
        let T₁ := clusterTree n steps s.c1
        let T₂ := clusterTree n steps s.c2
        match m with
        | .single => IsMinOver dm A B s.d
        | .complete => IsMaxOver dm A B s.d
        | .average => s.d = avg dm A B
        | .weighted => s.d = wdist dm T₁ T₂
        | .ward => s.d = Num.sqrt (wardc dm A B)
        | .centroid => s.d = Num.sqrt (cen dm A B)
        | .median => s.d = Num.sqrt (mdist dm T₁ T₂) := by
  obtain ⟨st', d', M', hrun, hg⟩ := C03_generic_exact E B chk m st d data n h2 hs hl S
  refine ⟨st', d', M', hrun, fun i s hi => ?_⟩
  have h := C02_greedy_heights_closed E.field m n data d'.steps.toList hg i s hi
  cases m <;> exact h

/-- `C02_generic` for a given successful run. -/
theorem C02_generic_of_run (E : ExactLaws K) (B : BeqExact K) (chk : Bool) (m : Method)
    (st st' : State K) (d d' : Dendrogram K) (data : Array K) (n : Nat) (M' : Mat K) (h2 : 2 ≤ n)
    (hs : n < 2147483648) (hl : 2 * data.size = n * (n - 1)) (S : GenericSafe m data)
    (hrun : genericWith chk m st d data n = .ok (st', d', M'))
    (i : Nat) (s : Step K) (hi : d'.steps.toList[i]? = some s) :
    let steps := d'.steps.toList
    let dm := (Spec.init m n data).D
    let A := (Spec.leaves n steps steps.length s.c1).toFinset
    let B := (Spec.leaves n steps steps.length s.c2).toFinset
    let T₁ := clusterTree n steps s.c1
    let T₂ := clusterTree n steps s.c2
    match m with
    | .single => IsMinOver dm A B s.d
    | .complete => IsMaxOver dm A B s.d
    | .average => s.d = avg dm A B
    | .weighted => s.d = wdist dm T₁ T₂
    | .ward => s.d = Num.sqrt (wardc dm A B)
    | .centroid => s.d = Num.sqrt (cen dm A B)
    | .median => s.d = Num.sqrt (mdist dm T₁ T₂) := by
  have hg := C03_generic E B chk m st st' d d' M' data n h2 hs hl S hrun
  have h := C02_greedy_heights_closed E.field m n data d'.steps.toList hg i s hi
  cases m <;> exact h

/-- **C02 for `mst_with`** (single linkage), exact arithmetic: every returned height is the attained
minimum of the original matrix over the cross pairs of the two merged clusters. -/
theorem C02_mst (E : ExactLaws K) (chk : Bool) (st : State K) (d : Dendrogram K)
    (data : Array K) (n : Nat) (h2 : 2 ≤ n) (hs : n < 2147483648)
    (hl : 2 * data.size = n * (n - 1)) (hinf : InfSafe n data) :
    ∃ st' d' M', mstWith chk st d data n = .ok (st', d', M') ∧
      ∀ (i : Nat) (s : Step K), d'.steps.toList[i]? = some s →
        let steps := d'.steps.toList
        IsMinOver (Spec.init .single n data).D
          (Spec.leaves n steps steps.length s.c1).toFinset
          (Spec.leaves n steps steps.length s.c2).toFinset s.d := by
  obtain ⟨st', d', M', hrun, hg⟩ := C03_mst_total E.field.orderLaws E.field.ltTrichotomy chk st d
    data n h2 hs hl (E.noNaN_data n data) (infSafe_infTop E hinf)
  exact ⟨st', d', M', hrun, fun i s hi =>
    C02_greedy_heights_closed E.field .single n data d'.steps.toList hg i s hi⟩

/-- `C02_mst` for a given successful run. -/
theorem C02_mst_of_run (E : ExactLaws K) (chk : Bool) (st st' : State K) (d d' : Dendrogram K)
    (data : Array K) (n : Nat) (M' : Mat K) (h2 : 2 ≤ n) (hs : n < 2147483648)
    (hl : 2 * data.size = n * (n - 1)) (hinf : InfSafe n data)
    (hrun : mstWith chk st d data n = .ok (st', d', M'))
    (i : Nat) (s : Step K) (hi : d'.steps.toList[i]? = some s) :
    let steps := d'.steps.toList
    IsMinOver (Spec.init .single n data).D
      (Spec.leaves n steps steps.length s.c1).toFinset
      (Spec.leaves n steps steps.length s.c2).toFinset s.d :=
  C02_greedy_heights_closed E.field .single n data d'.steps.toList
    (C03_mst E.field.orderLaws E.field.ltTrichotomy chk st st' d d' data n M' h2 hs hl
      (E.noNaN_data n data) (infSafe_infTop E hinf) hrun) i s hi

/-- **C02 for `linkage_with`, exact arithmetic, all seven methods.** -/
theorem C02_linkage (E : ExactLaws K) (chk : Bool) (m : Method) (st : State K)
    (d : Dendrogram K) (data : Array K) (n : Nat) (h2 : 2 ≤ n) (hs : n < 2147483648)
    (hl : 2 * data.size = n * (n - 1))
    (hinf : dispatch m = .mst → InfSafe n data)
    (hgen : dispatch m = .generic → BeqExact K ∧ GenericSafe m data) :
    ∃ st' d' M', linkageWith chk m st d data n = .ok (st', d', M') ∧
      ∀ (i : Nat) (s : Step K), d'.steps.toList[i]? = some s →
        let steps := d'.steps.toList
        let dm := (Spec.init m n data).D
        let A := (Spec.leaves n steps steps.length s.c1).toFinset
        let B := (Spec.leaves n steps steps.length s.c2).toFinset
        let T₁ := clusterTree n steps s.c1
        let T₂ := clusterTree n steps s.c2
        match m with
        | .single => IsMinOver dm A B s.d
        | .complete => IsMaxOver dm A B s.d
        | .average => s.d = avg dm A B
        | .weighted => s.d = wdist dm T₁ T₂
        | .ward => s.d = Num.sqrt (wardc dm A B)
        | .centroid => s.d = Num.sqrt (cen dm A B)
        | .median => s.d = Num.sqrt (mdist dm T₁ T₂) := by
  obtain ⟨st', d', M', hrun, hg⟩ := C03_linkage_exact E chk m st d data n h2 hs hl hinf hgen
  refine ⟨st', d', M', hrun, fun i s hi => ?_⟩
  have h := C02_greedy_heights_closed E.field m n data d'.steps.toList hg i s hi
  cases m <;> exact h

/-- `C02_linkage` for a given successful run. -/
theorem C02_linkage_of_run (E : ExactLaws K) (chk : Bool) (m : Method) (st st' : State K)
    (d d' : Dendrogram K) (data : Array K) (n : Nat) (M' : Mat K) (h2 : 2 ≤ n)
    (hs : n < 2147483648) (hl : 2 * data.size = n * (n - 1))
    (hinf : dispatch m = .mst → InfSafe n data)
    (hgen : dispatch m = .generic → BeqExact K ∧ GenericSafe m data)
    (hrun : linkageWith chk m st d data n = .ok (st', d', M'))
    (i : Nat) (s : Step K) (hi : d'.steps.toList[i]? = some s) :
    let steps := d'.steps.toList
    let dm := (Spec.init m n data).D
    let A := (Spec.leaves n steps steps.length s.c1).toFinset
    let B := (Spec.leaves n steps steps.length s.c2).toFinset
    let T₁ := clusterTree n steps s.c1
    let T₂ := clusterTree n steps s.c2
    match m with
    | .single => IsMinOver dm A B s.d
    | .complete => IsMaxOver dm A B s.d
    | .average => s.d = avg dm A B
    | .weighted => s.d = wdist dm T₁ T₂
    | .ward => s.d = Num.sqrt (wardc dm A B)
    | .centroid => s.d = Num.sqrt (cen dm A B)
    | .median => s.d = Num.sqrt (mdist dm T₁ T₂) := by
  have hg := C03_linkage E chk m st st' d d' M' data n h2 hs hl hinf hgen hrun
  have h := C02_greedy_heights_closed E.field m n data d'.steps.toList hg i s hi
  cases m <;> exact h

/-! ### Non-vacuity over `ℚ` (`ratNumMax 1000`) -/

section Example

private theorem ex_lt : ∀ v ∈ (#[1, 9, 4] : Array ℚ).toList,
    v < (@Num.maxValue ℚ (ratNumMax 1000)) := by
  intro v hv
  have : v = 1 ∨ v = 9 ∨ v = 4 := by simpa using hv
  show v < (1000 : ℚ)
  rcases this with rfl | rfl | rfl <;> norm_num

/-- Average linkage through `generic_with` on `d01=1 d02=9 d12=4`: every returned height is the mean
over the cross pairs of the two merged clusters. -/
example : ∃ st' d' M',
    @genericWith ℚ (ratNumMax 1000) true .average State.new (Dendrogram.new 0) #[1, 9, 4] 3
      = .ok (st', d', M') ∧
    ∀ (i : Nat) (s : Step ℚ), d'.steps.toList[i]? = some s →
      s.d = avg (@Spec.init ℚ (ratNumMax 1000) .average 3 #[1, 9, 4]).D
        (Spec.leaves 3 d'.steps.toList d'.steps.toList.length s.c1).toFinset
        (Spec.leaves 3 d'.steps.toList d'.steps.toList.length s.c2).toFinset :=
  @C02_generic ℚ _ _ _ (ratNumMax 1000) (ratNumMax_exact 1000) (ratNumMax_beq 1000) true .average
    _ _ _ 3 (by decide) (by decide) (by decide)
    (@genericSafe_of_lt_max ℚ _ _ _ (ratNumMax 1000) (ratNumMax_exact 1000) .average rfl _ ex_lt)

/-- Single linkage through `mst_with` on the same matrix: every returned height is the attained
minimum over the cross pairs (sentinel hypothesis: `1, 9, 4 ≤ 1000`). -/
example : ∃ st' d' M',
    @mstWith ℚ (ratNumMax 1000) false State.new (Dendrogram.new 3) #[1, 9, 4] 3
      = .ok (st', d', M') ∧
    ∀ (i : Nat) (s : Step ℚ), d'.steps.toList[i]? = some s →
      IsMinOver (@Spec.init ℚ (ratNumMax 1000) .single 3 #[1, 9, 4]).D
        (Spec.leaves 3 d'.steps.toList d'.steps.toList.length s.c1).toFinset
        (Spec.leaves 3 d'.steps.toList d'.steps.toList.length s.c2).toFinset s.d :=
  @C02_mst ℚ _ _ _ (ratNumMax 1000) (ratNumMax_exact 1000) false _ _ _ 3 (by decide) (by decide)
    (by decide) (by
      have : ∀ u, u < 3 → ∀ v, v < 3 → u ≠ v →
          @entry ℚ 3 #[1, 9, 4] (1000 : ℚ) u v ≤ (1000 : ℚ) := by decide
      intro u v hu hv huv
      exact this u hu v hv huv)

/-- Ward through `linkage_with` (routed to `nnchain_with`: no sentinel hypothesis). -/
example : ∃ st' d' M',
    @linkageWith ℚ (fieldNum ℚ) true .ward State.new (Dendrogram.new 0) #[1, 9, 4] 3
      = .ok (st', d', M') ∧
    ∀ (i : Nat) (s : Step ℚ), d'.steps.toList[i]? = some s →
      s.d = @Num.sqrt ℚ (fieldNum ℚ) (wardc (@Spec.init ℚ (fieldNum ℚ) .ward 3 #[1, 9, 4]).D
        (Spec.leaves 3 d'.steps.toList d'.steps.toList.length s.c1).toFinset
        (Spec.leaves 3 d'.steps.toList d'.steps.toList.length s.c2).toFinset) :=
  @C02_linkage ℚ _ _ _ (fieldNum ℚ) (exactLaws_fieldNum ℚ) true .ward _ _ _ 3 (by decide)
    (by decide) (by decide) (fun h => by cases h) (fun h => by cases h)

end Example

end Kodama
