/-
C07 — condensed layout.

Proved here, for ALL n, r, c (no bound except the 2^31 guard on usize arithmetic), against the
index expression and debug assertions *regenerated from src/condensed.rs on every run*:

* `C07_layout`      entry `Gen.idxN n r c` of the row-major pair enumeration `Spec.pairs n`
                    (two nested ranges, no formula) is the pair `(r, c)`.
* `C07_bij`         the index is injective on `{r < c < n}`, lands below `n(n-1)/2`, and the
                    enumeration has exactly `n(n-1)/2` entries (so it is a bijection).
* `C07_no_underflow` for `r < c < n < 2^31` the `usize` evaluation of the expression neither
                    underflows nor overflows, in checked and unchecked builds alike, and equals the
                    `Nat` reading.
* `C07_get` / `C07_set` the model's `dis[[r,c]]` reads/writes exactly that slot of the caller's slice.
* `C07_debug_ok`    the debug assertions hold exactly on `r < c < n`.

NOT proved here: the "observable consequence" part of the statement (first step merges the pair
of the unique smallest entry; second step under single linkage).  It follows from C03/C04 for
primitive/generic/mst and is *checked* on the implementation by the probe-matrix oracle of the
correspondence run (every slot for n <= 24 quick / n <= 64 thorough, random slots up to n = 3000).
-/
import Kodama.Lemmas.Layout
import Kodama.Model.Mat
namespace Kodama
open Spec

theorem C07_layout (n r c : Nat) (hrc : r < c) (hcn : c < n) :
    (pairs n)[Gen.idxN n r c]? = some (r, c) := by
  rw [idxN_eq n r c hrc hcn]
  exact pairs_get n r c hrc hcn

theorem C07_bij (n : Nat) :
    2 * (pairs n).length = n * (n - 1) ∧
    (∀ r c, r < c → c < n → Gen.idxN n r c < (pairs n).length) ∧
    (∀ r c r' c', r < c → c < n → r' < c' → c' < n →
        Gen.idxN n r c = Gen.idxN n r' c' → r = r' ∧ c = c') ∧
    (∀ k (h : k < (pairs n).length),
        (pairs n)[k].1 < (pairs n)[k].2 ∧ (pairs n)[k].2 < n ∧
        Gen.idxN n (pairs n)[k].1 (pairs n)[k].2 = k) := by
  refine ⟨pairs_length n, ?_, ?_, ?_⟩
  · intro r c hrc hcn
    have := C07_layout n r c hrc hcn
    exact (List.getElem?_eq_some_iff.mp this).1
  · intro r c r' c' h1 h2 h3 h4 he
    have a := C07_layout n r c h1 h2
    have b := C07_layout n r' c' h3 h4
    rw [he] at a
    rw [a] at b
    simpa using b
  · intro k hk
    have hmem : (pairs n)[k] ∈ pairsUpTo n (n - 1) := List.getElem_mem hk
    have hv := mem_pairsUpTo n (n - 1) _ hmem (by omega)
    refine ⟨hv.1, hv.2.1, ?_⟩
    -- the pair at slot k is sent back to slot k: both slots hold the same pair and pairs are
    -- pairwise distinct because the index of a pair is determined by it
    have hl := C07_layout n _ _ hv.1 hv.2.1
    have hlt := (List.getElem?_eq_some_iff.mp hl).1
    -- counting argument: the map k ↦ idx (pairs[k]) is injective into [0, len) …
    -- we prove it directly by strong induction on the structure of pairsUpTo
    have key : ∀ m, m ≤ n - 1 → ∀ k (hk : k < (pairsUpTo n m).length),
        (pairsUpTo n m)[k].1 < (pairsUpTo n m)[k].2 ∧ (pairsUpTo n m)[k].2 < n →
        off n (pairsUpTo n m)[k].1 + ((pairsUpTo n m)[k].2 - ((pairsUpTo n m)[k].1 + 1)) = k := by
      intro m
      induction m with
      | zero => intro _ k hk; simp [pairsUpTo] at hk
      | succ m ih =>
        intro hm k hk hv
        simp only [pairsUpTo] at hk hv ⊢
        by_cases hlt : k < (pairsUpTo n m).length
        · rw [List.getElem_append_left hlt] at hv ⊢
          exact ih (by omega) k hlt hv
        · have hge : (pairsUpTo n m).length ≤ k := by omega
          rw [List.getElem_append_right hge] at hv ⊢
          simp only [rowPairs, List.getElem_map, List.getElem_range] at hv ⊢
          simp only [off]
          omega
    have := key (n - 1) (Nat.le_refl _) k hk ⟨hv.1, hv.2.1⟩
    rw [idxN_eq n _ _ hv.1 hv.2.1]
    exact this

theorem C07_no_underflow (chk : Bool) (n r c : Nat) (hrc : r < c) (hcn : c < n)
    (hn : n < 2147483648) : Gen.idxM chk n r c = .ok (Gen.idxN n r c) :=
  idxM_eq_idxN chk n r c hrc hcn hn

theorem C07_debug_ok (n r c : Nat) : Gen.idxDebugOk n r c = true ↔ r < c ∧ c < n := by
  simp [Gen.idxDebugOk]

/-- `dis[[r, c]]` reads the slot that the row-major enumeration assigns to `(r, c)`. -/
theorem C07_get {α : Type} (chk : Bool) (M : Mat α) (r c : Nat) (hrc : r < c) (hcn : c < M.n)
    (hn : M.n < 2147483648) :
    M.get chk r c = aget M.data (Gen.idxN M.n r c) ∧
    (pairs M.n)[Gen.idxN M.n r c]? = some (r, c) := by
  refine ⟨?_, C07_layout _ _ _ hrc hcn⟩
  have hd : Gen.idxDebugOk M.n r c = true := (C07_debug_ok _ _ _).2 ⟨hrc, hcn⟩
  unfold Mat.get Mat.idx
  rw [C07_no_underflow chk M.n r c hrc hcn hn]
  cases chk <;> simp [guard', hd, bind, Except.bind, pure, Except.pure]

/-- `dis[[r, c]] = v` writes that slot and nothing else. -/
theorem C07_set {α : Type} (chk : Bool) (M : Mat α) (r c : Nat) (v : α) (hrc : r < c)
    (hcn : c < M.n) (hn : M.n < 2147483648) :
    M.set chk r c v = (aset M.data (Gen.idxN M.n r c) v).map (fun d => { M with data := d }) := by
  have hd : Gen.idxDebugOk M.n r c = true := (C07_debug_ok _ _ _).2 ⟨hrc, hcn⟩
  unfold Mat.set Mat.idx
  rw [C07_no_underflow chk M.n r c hrc hcn hn]
  cases chk <;> simp [guard', hd, bind, Except.bind, pure, Except.pure, Except.map] <;>
    cases aset M.data (Gen.idxN M.n r c) v <;> rfl

/-- Non-vacuity: a concrete instance of the hypotheses and of the conclusion. -/
example : (pairs 5)[Gen.idxN 5 1 3]? = some (1, 3) := by decide

end Kodama
