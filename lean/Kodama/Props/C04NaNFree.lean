/-
C04 for single linkage with hypotheses that an IEEE float type actually satisfies.

Every theorem about `nnchain_with` / `generic_with` so far assumed `∀ x : α, Num.isNaN x = false` — no NaN
in the TYPE — which no float type satisfies (the theorems were about "a carrier without NaN").  Here that
type-level hypothesis is replaced by hypotheses on the DATA and on non-NaN values only, by one more
application of the naturality theorem `C10`:

* `NonNaN α` is the subtype of non-NaN values with the comparison and `==` restricted, the sentinels (assumed
  non-NaN) and junk-totalised arithmetic (single linkage never calls it); it has no NaN by construction
  (`nn_noNaN`), inherits `OrderLaws` (`nn_orderLaws`) and `BeqOrd` from `BeqOrdOn α` — `==` is
  order-equivalence ON NON-NaN VALUES (`nn_beqOrd`);
* the inclusion `NonNaN α → α` is an order homomorphism that maps the sentinels to the sentinels
  (`nn_ordHom`), so the run on `α` of a NaN-free matrix is the image of the run on `NonNaN α`;
* `C04_nnchain_single_noTri` / `C04_generic_single_noTri` on `NonNaN α` (no trichotomy) transfer back through
  `sameCluster_map` / `reach_map`.

Results — `C04_nnchain_single_float`, `C04_generic_single_float`: hypotheses `OrderLaws α` (true of IEEE
`<`, NaN included), `BeqOrdOn α`, `max_value` / `infinity` not NaN, every ENTRY of the matrix not NaN (`∀ x ∈ data`)
(generic: and strictly below `max_value`).  No type-level "no NaN", no trichotomy.
-/
import Kodama.Props.C04Quotient
set_option linter.unusedSectionVars false
namespace Kodama
open Spec
variable {α : Type} [Num α]

/-- `==` is order-equivalence on non-NaN values. -/
def BeqOrdOn (α : Type) [Num α] : Prop :=
  ∀ a b : α, Num.isNaN a = false → Num.isNaN b = false →
    Num.beq a b = (!Num.lt a b && !Num.lt b a)

/-- The non-NaN values. -/
abbrev NonNaN (α : Type) [Num α] : Type := { x : α // Num.isNaN x = false }

/-- Totalise an operation into `NonNaN α` (the junk branch is never reached by single / complete linkage,
which do no arithmetic). -/
def NonNaN.lift (dflt : NonNaN α) (v : α) : NonNaN α :=
  if h : Num.isNaN v = false then ⟨v, h⟩ else dflt

@[instance_reducible] def nnNum (hmax : Num.isNaN (Num.maxValue : α) = false)
    (hinf : Num.isNaN (Num.infinity : α) = false) : Num (NonNaN α) where
  lt a b := Num.lt a.1 b.1
  beq a b := Num.beq a.1 b.1
  add a b := NonNaN.lift a (Num.add a.1 b.1)
  sub a b := NonNaN.lift a (Num.sub a.1 b.1)
  mul a b := NonNaN.lift a (Num.mul a.1 b.1)
  div a b := NonNaN.lift a (Num.div a.1 b.1)
  ofNat k := NonNaN.lift ⟨Num.maxValue, hmax⟩ (Num.ofNat k)
  half := NonNaN.lift ⟨Num.maxValue, hmax⟩ Num.half
  quarter := NonNaN.lift ⟨Num.maxValue, hmax⟩ Num.quarter
  sqrt a := NonNaN.lift a (Num.sqrt a.1)
  abs a := NonNaN.lift a (Num.abs a.1)
  maxValue := ⟨Num.maxValue, hmax⟩
  infinity := ⟨Num.infinity, hinf⟩
  isNaN _ := false

section
variable (hmax : Num.isNaN (Num.maxValue : α) = false) (hinf : Num.isNaN (Num.infinity : α) = false)

theorem nn_noNaN (x : NonNaN α) : @Num.isNaN _ (nnNum hmax hinf) x = false := rfl

theorem nn_orderLaws (L : OrderLaws α) : @OrderLaws (NonNaN α) (nnNum hmax hinf) :=
  @OrderLaws.mk _ (nnNum hmax hinf) (fun a b => L.asymm a.1 b.1)
    (fun a b c _ => L.cotrans a.1 b.1 c.1 b.2)

theorem nn_beqOrd (B : BeqOrdOn α) : @BeqOrd (NonNaN α) (nnNum hmax hinf) :=
  fun a b => B a.1 b.1 a.2 b.2

theorem nn_ordHom : @OrdHom (NonNaN α) α (nnNum hmax hinf) _ Subtype.val :=
  @OrdHom.mk (NonNaN α) α (nnNum hmax hinf) _ _ (fun _ _ => rfl) (fun _ _ => rfl) (fun a => a.2)

end

/-- A NaN-free array as an array over `NonNaN α`. -/
def nnData (data : Array α) (h : ∀ x ∈ data, Num.isNaN x = false) : Array (NonNaN α) :=
  data.attach.map (fun x => ⟨x.1, h x.1 x.2⟩)

theorem nnData_map (data : Array α) (h : ∀ x ∈ data, Num.isNaN x = false) :
    (nnData data h).map Subtype.val = data := by
  simp [nnData, Array.map_map, Function.comp_def]

theorem nnData_size (data : Array α) (h : ∀ x ∈ data, Num.isNaN x = false) :
    (nnData data h).size = data.size := by simp [nnData]

theorem nnData_get (data : Array α) (h : ∀ x ∈ data, Num.isNaN x = false) (i : Nat)
    (hi : i < (nnData data h).size) :
    ((nnData data h)[i]).1 = data[i]'(by simpa [nnData] using hi) := by
  simp [nnData]

/-- **C04 for `nnchain_with(Single)` under hypotheses true of IEEE floats.** -/
theorem C04_nnchain_single_float (L : OrderLaws α) (B : BeqOrdOn α)
    (hmax : Num.isNaN (Num.maxValue : α) = false) (hinf : Num.isNaN (Num.infinity : α) = false)
    (chk : Bool) (st : State α) (d : Dendrogram α) (data : Array α) (n : Nat) (h2 : 2 ≤ n)
    (hs : n < 2147483648) (hl : 2 * data.size = n * (n - 1))
    (hdata : ∀ x ∈ data, Num.isNaN x = false) :
    ∃ st' d' M', nnchainWith chk .single st d data n = .ok (st', d', M') ∧
      ∀ (h : α) (u v : Nat), Num.isNaN h = false → u < n →
        (SameCluster n d'.steps.toList h u v ↔ Reach n data h u v) := by
  let _ : Num (NonNaN α) := nnNum hmax hinf
  have G := nn_ordHom hmax hinf
  have hl' : 2 * (nnData data hdata).size = n * (n - 1) := by rw [nnData_size]; exact hl
  obtain ⟨sS, dS, MS, hrS, hS⟩ := C04_nnchain_single_noTri (nn_orderLaws hmax hinf L)
    (nn_noNaN hmax hinf) (nn_beqOrd hmax hinf B) chk (State.new) (Dendrogram.new 0)
    (nnData data hdata) n h2 hs hl'
  have hrS' : runWith chk .nnchain .single State.new (Dendrogram.new 0) (nnData data hdata) n
      = .ok (sS, dS, MS) := hrS
  obtain ⟨st2, hr2⟩ := C10_ok G (m := .single) (Or.inl rfl) chk .nnchain (fun h => by cases h)
    (fun h => by cases h) State.new st (Dendrogram.new 0) d (nnData data hdata) n sS dS MS hrS'
  rw [nnData_map] at hr2
  refine ⟨st2, mapDend Subtype.val dS, mapMat Subtype.val MS, hr2, fun h u v hh hu => ?_⟩
  have := hS ⟨h, hh⟩ u v hu
  have e : (mapDend Subtype.val dS).steps.toList = dS.steps.toList.map (mapStep Subtype.val) := by
    simp [mapDend]
  rw [e]
  have s1 := sameCluster_map G n dS.steps.toList ⟨h, hh⟩ u v
  have s2 := reach_map G (β := α) rfl n (nnData data hdata) ⟨h, hh⟩ u v
  rw [nnData_map] at s2
  exact s1.trans (this.trans s2.symm)

/-- **C04 for `generic_with(Single)` under hypotheses true of IEEE floats.** -/
theorem C04_generic_single_float (L : OrderLaws α) (B : BeqOrdOn α)
    (hmax : Num.isNaN (Num.maxValue : α) = false) (hinf : Num.isNaN (Num.infinity : α) = false)
    (chk : Bool) (st : State α) (d : Dendrogram α) (data : Array α) (n : Nat) (h2 : 2 ≤ n)
    (hs : n < 2147483648) (hl : 2 * data.size = n * (n - 1))
    (hdata : ∀ x ∈ data, Num.isNaN x = false)
    (hin : ∀ i (hi : i < data.size), Num.lt data[i] (Num.maxValue : α) = true) :
    ∃ st' d' M', genericWith chk .single st d data n = .ok (st', d', M') ∧
      ∀ (h : α) (u v : Nat), Num.isNaN h = false → u < n →
        (SameCluster n d'.steps.toList h u v ↔ Reach n data h u v) := by
  let _ : Num (NonNaN α) := nnNum hmax hinf
  have G := nn_ordHom hmax hinf
  have hl' : 2 * (nnData data hdata).size = n * (n - 1) := by rw [nnData_size]; exact hl
  obtain ⟨sS, dS, MS, hrS, hS⟩ := C04_generic_single_noTri (nn_orderLaws hmax hinf L)
    (nn_noNaN hmax hinf) (nn_beqOrd hmax hinf B) chk (State.new) (Dendrogram.new 0)
    (nnData data hdata) n h2 hs hl' (by
      intro i hi
      have hi' : i < data.size := by rw [nnData_size] at hi; exact hi
      show Num.lt ((nnData data hdata)[i]).1 (Num.maxValue : α) = true
      rw [nnData_get]
      exact hin i hi')
  have hrS' : runWith chk .generic .single State.new (Dendrogram.new 0) (nnData data hdata) n
      = .ok (sS, dS, MS) := hrS
  obtain ⟨st2, hr2⟩ := C10_ok G (m := .single) (Or.inl rfl) chk .generic
    (fun _ => SentinelSafe.of_fix G rfl) (fun h => by cases h) State.new st (Dendrogram.new 0) d
    (nnData data hdata) n sS dS MS hrS'
  rw [nnData_map] at hr2
  refine ⟨st2, mapDend Subtype.val dS, mapMat Subtype.val MS, hr2, fun h u v hh hu => ?_⟩
  have := hS ⟨h, hh⟩ u v hu
  have e : (mapDend Subtype.val dS).steps.toList = dS.steps.toList.map (mapStep Subtype.val) := by
    simp [mapDend]
  rw [e]
  have s1 := sameCluster_map G n dS.steps.toList ⟨h, hh⟩ u v
  have s2 := reach_map G (β := α) rfl n (nnData data hdata) ⟨h, hh⟩ u v
  rw [nnData_map] at s2
  exact s1.trans (this.trans s2.symm)

/-! ## Non-vacuity: a number type that HAS a NaN -/

section Example

/-- Naturals with a NaN (`none`): every comparison with it is false, it is not equal to itself. -/
@[reducible] def Toy.nanNum : Num (Option Nat) where
  lt a b := match a, b with | some x, some y => decide (x < y) | _, _ => false
  beq a b := match a, b with | some x, some y => decide (x = y) | _, _ => false
  add a b := match a, b with | some x, some y => some (x + y) | _, _ => none
  sub a b := match a, b with | some x, some y => if y ≤ x then some (x - y) else none | _, _ => none
  mul a b := match a, b with | some x, some y => some (x * y) | _, _ => none
  div a b := match a, b with | some x, some y => if y = 0 then none else some (x / y) | _, _ => none
  ofNat k := some k
  half := some 0
  quarter := some 0
  sqrt a := a
  abs a := a
  maxValue := some 1000000
  infinity := some 1000000
  isNaN a := a.isNone

attribute [local instance] Toy.nanNum

theorem Toy.nanOrderLaws : OrderLaws (Option Nat) := by
  refine ⟨?_, ?_⟩
  · intro a b h
    cases a <;> cases b <;> simp_all [Num.lt] <;> omega
  · intro a b c hb h
    cases a <;> cases b <;> cases c <;> simp_all [Num.lt, Num.isNaN] <;> omega

theorem Toy.nanBeqOrdOn : BeqOrdOn (Option Nat) := by
  intro a b ha hb
  cases a <;> cases b <;> simp_all [Num.lt, Num.beq, Num.isNaN]
  rename_i x y
  by_cases h1 : x < y <;> by_cases h2 : y < x <;> by_cases h3 : x = y <;> simp [h1, h2, h3] <;> omega

/-- The type-level hypothesis of the earlier theorems is FALSE here … -/
example : ¬ ∀ x : Option Nat, Num.isNaN x = false := fun h => by
  have := h none
  cases this

/-- … and the theorem applies to a NaN-free matrix over it. -/
example : ∃ st' d' M',
    nnchainWith true .single State.new (Dendrogram.new 0)
      (#[some 0, some 5, some 3] : Array (Option Nat)) 3 = .ok (st', d', M') ∧
    ∀ (h : Option Nat) (u v : Nat), Num.isNaN h = false → u < 3 →
      (SameCluster 3 d'.steps.toList h u v ↔
        Reach 3 (#[some 0, some 5, some 3] : Array (Option Nat)) h u v) :=
  C04_nnchain_single_float Toy.nanOrderLaws Toy.nanBeqOrdOn rfl rfl true State.new
    (Dendrogram.new 0) _ 3 (by decide) (by decide) (by decide) (by
      intro x hx
      simp only [Array.mem_def, List.mem_cons, List.mem_nil_iff, or_false] at hx
      rcases hx with rfl | rfl | rfl <;> rfl)

end Example

/-! ## Non-vacuity, stronger: a comparison-faithful miniature of IEEE values — a NaN AND two zeros -/

section Example2

/-- `nan`, or an integer value with a sign-of-zero flag (`num 0 true` is `−0`, `num 0 false` is `+0`; the
flag is ignored by every comparison, as IEEE `<` and `==` ignore the sign of zero). -/
inductive Toy.Cmp where
  | nan
  | num (v : Int) (negZero : Bool)
  deriving DecidableEq

@[reducible] def Toy.cmpNum : Num Toy.Cmp where
  lt a b := match a, b with | .num x _, .num y _ => decide (x < y) | _, _ => false
  beq a b := match a, b with | .num x _, .num y _ => decide (x = y) | _, _ => false
  add a b := match a, b with | .num x _, .num y _ => .num (x + y) false | _, _ => .nan
  sub a b := match a, b with | .num x _, .num y _ => .num (x - y) false | _, _ => .nan
  mul a b := match a, b with | .num x _, .num y _ => .num (x * y) false | _, _ => .nan
  div a b := match a, b with | .num x _, .num y _ => if y = 0 then .nan else .num (x / y) false | _, _ => .nan
  ofNat k := .num k false
  half := .num 0 false
  quarter := .num 0 false
  sqrt a := a
  abs a := match a with | .num x _ => .num x.natAbs false | .nan => .nan
  maxValue := .num 1000000 false
  infinity := .num 1000001 false
  isNaN a := match a with | .nan => true | _ => false

attribute [local instance] Toy.cmpNum

theorem Toy.cmpOrderLaws : OrderLaws Toy.Cmp := by
  refine ⟨?_, ?_⟩
  · intro a b h
    cases a <;> cases b <;> simp_all [Num.lt] <;> omega
  · intro a b c hb h
    cases a <;> cases b <;> cases c <;> simp_all [Num.lt, Num.isNaN] <;> omega

theorem Toy.cmpBeqOrdOn : BeqOrdOn Toy.Cmp := by
  intro a b ha hb
  cases a <;> cases b <;> simp_all [Num.lt, Num.beq, Num.isNaN]
  rename_i x _ y _
  by_cases h1 : x < y <;> by_cases h2 : y < x <;> by_cases h3 : x = y <;> simp [h1, h2, h3] <;> omega

/-- Neither type-level hypothesis of the earlier theorems holds here … -/
example : (¬ ∀ x : Toy.Cmp, Num.isNaN x = false) ∧ ¬ LtTrichotomy Toy.Cmp := by
  constructor
  · intro h; have := h .nan; cases this
  · intro T
    have := T (.num 0 true) (.num 0 false) rfl rfl
    cases this

/-- … and the threshold theorem applies to a matrix holding `−0`, `+0` and a negative entry. -/
example : ∃ st' d' M',
    nnchainWith true .single State.new (Dendrogram.new 0)
      (#[.num 0 true, .num 0 false, .num (-3) false] : Array Toy.Cmp) 3 = .ok (st', d', M') ∧
    ∀ (h : Toy.Cmp) (u v : Nat), Num.isNaN h = false → u < 3 →
      (SameCluster 3 d'.steps.toList h u v ↔
        Reach 3 (#[.num 0 true, .num 0 false, .num (-3) false] : Array Toy.Cmp) h u v) :=
  C04_nnchain_single_float Toy.cmpOrderLaws Toy.cmpBeqOrdOn rfl rfl true State.new
    (Dendrogram.new 0) _ 3 (by decide) (by decide) (by decide) (by
      intro x hx
      simp only [Array.mem_def, List.mem_cons, List.mem_nil_iff, or_false] at hx
      rcases hx with rfl | rfl | rfl <;> rfl)

end Example2

end Kodama
