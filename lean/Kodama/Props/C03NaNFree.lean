/-
C03 for SINGLE and COMPLETE linkage under hypotheses an IEEE float type satisfies (companion of
`Props/C04NaNFree.lean`): no type-level "no NaN", no `LtTrichotomy`.

* `nonNaN_transfer`   for single / complete and an entry point that compares no sentinel: if the run over
  the subtype `NonNaN α` (the NaN-free matrix read as a matrix over the subtype) returns steps with property
  `P`, the run over `α` returns exactly the images of such steps (inclusion `NonNaN α → α`; `C10`).
* `C03_single_complete_float`   `primitive_with` and `nnchain_with` on a matrix WITHOUT NaN ENTRIES return, their
  heights are not NaN, and — read over `NonNaN α` modulo order-equivalence (`OrdQ`) — the returned steps are
  `Spec.GreedyValid` for the projected input: every step merges a closest pair of the clusters then present, at
  that pair's dissimilarity up to order-equivalence (`±0`).

Hypotheses: `OrderLaws α`, `BeqOrdOn α` (`==` is order-equivalence on non-NaN values), the two sentinels not
NaN, `∀ x ∈ data, ¬NaN x` — all true of `f32` / `f64` (sampled on every run).
-/
import Kodama.Props.C04NaNFree
import Kodama.Props.C03Quotient
set_option linter.unusedSectionVars false
namespace Kodama
open Spec
variable {α : Type} [Num α]

/-- **Transfer from the NaN-free subtype.** -/
theorem nonNaN_transfer (hmax : Num.isNaN (Num.maxValue : α) = false)
    (hinf : Num.isNaN (Num.infinity : α) = false) {m : Method} (hm : m.selectsOnly) (alg : Alg)
    (hmaxU : usesMax alg m = false) (hinfU : usesInf alg m = false) (chk : Bool) (st : State α)
    (d : Dendrogram α) (data : Array α) (n : Nat) (hdata : ∀ x ∈ data, Num.isNaN x = false)
    (P : List (Step (NonNaN α)) → Prop)
    (hq : ∃ sS dS MS, @runWith _ (nnNum hmax hinf) chk alg m (State.new : State (NonNaN α))
        (Dendrogram.new 0) (nnData data hdata) n = .ok (sS, dS, MS) ∧ P dS.steps.toList) :
    ∃ st' d' M', runWith chk alg m st d data n = .ok (st', d', M') ∧
      ∃ l : List (Step (NonNaN α)), P l ∧ d'.steps.toList = l.map (mapStep Subtype.val) := by
  let _ : Num (NonNaN α) := nnNum hmax hinf
  have G := nn_ordHom hmax hinf
  obtain ⟨sS, dS, MS, hrS, hP⟩ := hq
  obtain ⟨st2, hr2⟩ := C10_ok G hm chk alg (fun h => by rw [hmaxU] at h; cases h)
    (fun h => by rw [hinfU] at h; cases h) State.new st (Dendrogram.new 0) d (nnData data hdata) n
    sS dS MS hrS
  rw [nnData_map] at hr2
  exact ⟨st2, mapDend Subtype.val dS, mapMat Subtype.val MS, hr2, dS.steps.toList, hP, by simp [mapDend]⟩

/-- **C03 for single / complete under float-ready hypotheses.** -/
theorem C03_single_complete_float (L : OrderLaws α) (B : BeqOrdOn α)
    (hmax : Num.isNaN (Num.maxValue : α) = false) (hinf : Num.isNaN (Num.infinity : α) = false)
    {m : Method} (hm : m.selectsOnly) (chk : Bool) (st : State α) (d : Dendrogram α)
    (data : Array α) (n : Nat) (h2 : 2 ≤ n) (hs : n < 2147483648)
    (hl : 2 * data.size = n * (n - 1)) (hdata : ∀ x ∈ data, Num.isNaN x = false) :
    letI : Num (NonNaN α) := nnNum hmax hinf
    let Ls := nn_orderLaws hmax hinf L
    let hn := nn_noNaN hmax hinf (α := α)
    (∃ st' d' M', primitiveWith chk m st d data n = .ok (st', d', M') ∧
      ∃ l : List (Step (NonNaN α)), d'.steps.toList = l.map (mapStep Subtype.val) ∧
        @GreedyValid _ (ordQNum Ls hn) m n ((nnData data hdata).map (OrdQ.mk Ls hn))
          (l.map (mapStep (OrdQ.mk Ls hn)))) ∧
    (∀ mc : MethodChain, m.intoMethodChain = some mc →
      ∃ st' d' M', nnchainWith chk mc st d data n = .ok (st', d', M') ∧
        ∃ l : List (Step (NonNaN α)), d'.steps.toList = l.map (mapStep Subtype.val) ∧
          @GreedyValid _ (ordQNum Ls hn) m n ((nnData data hdata).map (OrdQ.mk Ls hn))
            (l.map (mapStep (OrdQ.mk Ls hn)))) := by
  intro Ls hn
  letI : Num (NonNaN α) := nnNum hmax hinf
  have hl' : 2 * (nnData data hdata).size = n * (n - 1) := by rw [nnData_size]; exact hl
  have up := C03_single_complete_upTo Ls hn (nn_beqOrd hmax hinf B) hm chk
    (State.new : State (NonNaN α)) (Dendrogram.new 0) (nnData data hdata) n h2 hs hl'
  constructor
  · obtain ⟨sS, dS, MS, hrS, hg⟩ := up.1
    obtain ⟨st', d', M', hr, l, hP, hl2⟩ := nonNaN_transfer hmax hinf hm .primitive rfl rfl chk st d data n
      hdata (fun l => @GreedyValid _ (ordQNum Ls hn) m n ((nnData data hdata).map (OrdQ.mk Ls hn))
        (l.map (mapStep (OrdQ.mk Ls hn)))) ⟨sS, dS, MS, hrS, hg⟩
    exact ⟨st', d', M', hr, l, hl2, hP⟩
  · intro mc hmc
    obtain ⟨sS, dS, MS, hrS, hg⟩ := up.2 mc hmc
    have key := nonNaN_transfer hmax hinf hm .nnchain rfl rfl chk st d data n
      hdata (fun l => @GreedyValid _ (ordQNum Ls hn) m n ((nnData data hdata).map (OrdQ.mk Ls hn))
        (l.map (mapStep (OrdQ.mk Ls hn))))
    simp only [runWith, hmc] at key
    obtain ⟨st', d', M', hr, l, hP, hl2⟩ := key ⟨sS, dS, MS, hrS, hg⟩
    exact ⟨st', d', M', hr, l, hl2, hP⟩

/-! ## Non-vacuity (the toy type with a NaN of `Props/C04NaNFree.lean`) -/

section Example
attribute [local instance] Toy.nanNum

example : ∃ st' d' M',
    primitiveWith true .complete State.new (Dendrogram.new 0)
      (#[some 0, some 5, some 3] : Array (Option Nat)) 3 = .ok (st', d', M') :=
  let h := (C03_single_complete_float Toy.nanOrderLaws Toy.nanBeqOrdOn rfl rfl (m := .complete)
    (Or.inr rfl) true State.new (Dendrogram.new 0) (#[some 0, some 5, some 3] : Array (Option Nat)) 3
    (by decide) (by decide) (by decide) (by
      intro x hx
      simp only [Array.mem_def, List.mem_cons, List.mem_nil_iff, or_false] at hx
      rcases hx with rfl | rfl | rfl <;> rfl)).1
  ⟨h.choose, h.choose_spec.choose, h.choose_spec.choose_spec.choose,
    h.choose_spec.choose_spec.choose_spec.1⟩

end Example

end Kodama
