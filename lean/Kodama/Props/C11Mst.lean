/-
C11 for `mst_with` / `linkage_with(.., Method::Single, ..)` — renumbering the observations renumbers
the returned dendrogram, on tie-free input.

Entry point: `mst_with` (model `mstWith`), called twice — on `data` and on the renumbered matrix
`data'` — with arbitrary (possibly different) build modes and prior states; both matrices of valid
shape `2 ≤ n < 2^31`, `2·len = n(n-1)`.  `C11_mst_linkage_single`: the same through `linkage_with`
with `Method::Single`.

Setting as in `Props/C11.lean`: `π` a permutation of `0 … n-1` with inverse `ρ` (`IsPerm n π ρ`);
`data'` is characterised entrywise by `hperm : entry n data' ∞ i j = entry n data ∞ (π i) (π j)`;
`σ π n` is `π` on observations and the identity on internal labels; `mapStep (σ π n)` relabels the
two children of a step, smaller label first.

Hypotheses (explicit): `OrderLaws α`, `LtTrichotomy α` (FALSE for IEEE floats: `±0`, NaN — an
exact-order statement, needed by `C03_mst` and by the symmetry of `min`, `lwSymm_single`),
`NoNaN n data`, `InfTop n data` (both are inherited by `data'` through `hperm`:
`noNaN_perm`, `infTop_perm`), and tie-freeness — in `C11_mst` of ANY greedy-valid reference run of
`data`, in `C11_mst_self` of the run of either returned dendrogram.  With ties two greedy runs may
legitimately differ (and `mst_with` breaks ties by Prim order, which is not equivariant), so no such
statement holds without it.

Conclusion: both calls return; the steps returned on `data` are the steps returned on `data'`
relabelled by `σ π n`; hence same heights, same sizes, and the leaf set of every internal label
`n+i` in the first is the `π`-image of its leaf set in the second.
(`C03_mst` twice + `C11_spec_unique` / `C11_spec_unique'`.)
-/
import Kodama.Props.C03Mst
import Kodama.Props.C11
namespace Kodama
open Spec
variable {α : Type} [Num α]

theorem perm_ne {n : Nat} {π ρ : Nat → Nat} (hπ : IsPerm n π ρ) {u v : Nat} (hu : u < n)
    (hv : v < n) (huv : u ≠ v) : π u ≠ π v := by
  intro e
  have := congrArg ρ e
  rw [hπ.left u hu, hπ.left v hv] at this
  exact huv this

/-- `NoNaN` is inherited by the renumbered matrix. -/
theorem noNaN_perm {n : Nat} {π ρ : Nat → Nat} {data data' : Array α} (hπ : IsPerm n π ρ)
    (hperm : ∀ i j, i < n → j < n →
      entry n data' Num.infinity i j = entry n data Num.infinity (π i) (π j))
    (hnan : NoNaN n data) : NoNaN n data' := by
  intro u v hu hv huv
  rw [hperm u v hu hv]
  exact hnan _ _ (hπ.lt u hu) (hπ.lt v hv) (perm_ne hπ hu hv huv)

/-- `InfTop` is inherited by the renumbered matrix. -/
theorem infTop_perm {n : Nat} {π ρ : Nat → Nat} {data data' : Array α} (hπ : IsPerm n π ρ)
    (hperm : ∀ i j, i < n → j < n →
      entry n data' Num.infinity i j = entry n data Num.infinity (π i) (π j))
    (hinf : InfTop n data) : InfTop n data' := by
  refine ⟨hinf.1, ?_⟩
  intro u v hu hv huv
  rw [hperm u v hu hv]
  exact hinf.2 _ _ (hπ.lt u hu) (hπ.lt v hv) (perm_ne hπ hu hv huv)

/-- **C11 for `mst_with`, tie-free input.** -/
theorem C11_mst (L : OrderLaws α) (T : LtTrichotomy α) (chk chk' : Bool) (st st' : State α)
    (d d' : Dendrogram α) (data data' : Array α) (n : Nat) (h2 : 2 ≤ n) (hs : n < 2147483648)
    (hl : 2 * data.size = n * (n - 1)) (hl' : 2 * data'.size = n * (n - 1))
    {π ρ : Nat → Nat} (hπ : IsPerm n π ρ)
    (hperm : ∀ i j, i < n → j < n →
      entry n data' Num.infinity i j = entry n data Num.infinity (π i) (π j))
    (hnan : NoNaN n data) (hinf : InfTop n data)
    (steps₀ : List (Step α)) (h₀ : GreedyValid .single n data steps₀)
    (ht : TieFreeFrom .single (init .single n data) steps₀) :
    ∃ s₁ e M₁ s₂ e' M₂,
      mstWith chk st d data n = .ok (s₁, e, M₁) ∧
      mstWith chk' st' d' data' n = .ok (s₂, e', M₂) ∧
      e.steps.toList = e'.steps.toList.map (mapStep (σ π n)) ∧
      e.steps.toList.map (·.d) = e'.steps.toList.map (·.d) ∧
      e.steps.toList.map (·.size) = e'.steps.toList.map (·.size) ∧
      ∀ i, (leaves n e.steps.toList e.steps.toList.length (n + i)).Perm
        ((leaves n e'.steps.toList e'.steps.toList.length (n + i)).map π) := by
  obtain ⟨s₁, e, M₁, hr, hg⟩ := C03_mst_total L T chk st d data n h2 hs hl hnan hinf
  obtain ⟨s₂, e', M₂, hr', hg'⟩ := C03_mst_total L T chk' st' d' data' n h2 hs hl'
    (noNaN_perm hπ hperm hnan) (infTop_perm hπ hperm hinf)
  have he : steps₀ = e.steps.toList :=
    greedyFrom_unique _ steps₀ _ (h₀.1.trans hg.1.symm) h₀.2 hg.2 ht
  subst he
  exact ⟨s₁, e, M₁, s₂, e', M₂, hr, hr', C11_spec_unique hπ (lwSymm_single L T) hperm hg' hg ht⟩

/-- The same with the tie-freeness hypothesis on the run of either returned dendrogram. -/
theorem C11_mst_self (L : OrderLaws α) (T : LtTrichotomy α) (chk chk' : Bool) (st st' : State α)
    (d d' : Dendrogram α) (data data' : Array α) (n : Nat) (h2 : 2 ≤ n) (hs : n < 2147483648)
    (hl : 2 * data.size = n * (n - 1)) (hl' : 2 * data'.size = n * (n - 1))
    {π ρ : Nat → Nat} (hπ : IsPerm n π ρ)
    (hperm : ∀ i j, i < n → j < n →
      entry n data' Num.infinity i j = entry n data Num.infinity (π i) (π j))
    (hnan : NoNaN n data) (hinf : InfTop n data) :
    ∃ s₁ e M₁ s₂ e' M₂,
      mstWith chk st d data n = .ok (s₁, e, M₁) ∧
      mstWith chk' st' d' data' n = .ok (s₂, e', M₂) ∧
      (TieFreeFrom .single (init .single n data) e.steps.toList ∨
          TieFreeFrom .single (init .single n data') e'.steps.toList →
        e.steps.toList = e'.steps.toList.map (mapStep (σ π n)) ∧
        e.steps.toList.map (·.d) = e'.steps.toList.map (·.d) ∧
        e.steps.toList.map (·.size) = e'.steps.toList.map (·.size) ∧
        ∀ i, (leaves n e.steps.toList e.steps.toList.length (n + i)).Perm
          ((leaves n e'.steps.toList e'.steps.toList.length (n + i)).map π)) := by
  obtain ⟨s₁, e, M₁, hr, hg⟩ := C03_mst_total L T chk st d data n h2 hs hl hnan hinf
  obtain ⟨s₂, e', M₂, hr', hg'⟩ := C03_mst_total L T chk' st' d' data' n h2 hs hl'
    (noNaN_perm hπ hperm hnan) (infTop_perm hπ hperm hinf)
  refine ⟨s₁, e, M₁, s₂, e', M₂, hr, hr', ?_⟩
  rintro (ht | ht)
  · exact C11_spec_unique hπ (lwSymm_single L T) hperm hg' hg ht
  · exact C11_spec_unique' hπ (lwSymm_single L T) hperm hg' ht hg

/-- **C11 through `linkage_with(.., Method::Single, ..)`.** -/
theorem C11_mst_linkage_single (L : OrderLaws α) (T : LtTrichotomy α) (chk chk' : Bool)
    (st st' : State α) (d d' : Dendrogram α) (data data' : Array α) (n : Nat) (h2 : 2 ≤ n)
    (hs : n < 2147483648) (hl : 2 * data.size = n * (n - 1))
    (hl' : 2 * data'.size = n * (n - 1)) {π ρ : Nat → Nat} (hπ : IsPerm n π ρ)
    (hperm : ∀ i j, i < n → j < n →
      entry n data' Num.infinity i j = entry n data Num.infinity (π i) (π j))
    (hnan : NoNaN n data) (hinf : InfTop n data)
    (steps₀ : List (Step α)) (h₀ : GreedyValid .single n data steps₀)
    (ht : TieFreeFrom .single (init .single n data) steps₀) :
    ∃ s₁ e M₁ s₂ e' M₂,
      linkageWith chk .single st d data n = .ok (s₁, e, M₁) ∧
      linkageWith chk' .single st' d' data' n = .ok (s₂, e', M₂) ∧
      e.steps.toList = e'.steps.toList.map (mapStep (σ π n)) ∧
      e.steps.toList.map (·.d) = e'.steps.toList.map (·.d) ∧
      e.steps.toList.map (·.size) = e'.steps.toList.map (·.size) ∧
      ∀ i, (leaves n e.steps.toList e.steps.toList.length (n + i)).Perm
        ((leaves n e'.steps.toList e'.steps.toList.length (n + i)).map π) := by
  rw [linkage_single_eq, linkage_single_eq]
  exact C11_mst L T chk chk' st st' d d' data data' n h2 hs hl hl' hπ hperm hnan hinf steps₀ h₀ ht

/-! ### Non-vacuity (toy exact numbers, `n = 3`, the 3-cycle) -/

section NonVacuity
attribute [local instance] Toy.natNum

/-- The 3-cycle `0 ↦ 1 ↦ 2 ↦ 0` and its inverse. -/
private def cyc : Nat → Nat
  | 0 => 1 | 1 => 2 | 2 => 0 | k => k
private def cycInv : Nat → Nat
  | 0 => 2 | 1 => 0 | 2 => 1 | k => k

private theorem cyc_isPerm : IsPerm 3 cyc cycInv := by
  refine ⟨?_, ?_, ?_, ?_⟩ <;> intro i hi <;>
    (have h : i = 0 ∨ i = 1 ∨ i = 2 := by omega) <;>
    rcases h with rfl | rfl | rfl <;> decide

/-- `d(0,1) = 5, d(0,2) = 2, d(1,2) = 9` and its renumbering `d'(i,j) = d(π i, π j)`. -/
private def exData : Array Nat := #[5, 2, 9]
private def exData' : Array Nat := #[9, 5, 2]
private def exSteps : List (Step Nat) := [⟨0, 2, 2, 2⟩, ⟨1, 3, 5, 3⟩]

private theorem ex_hperm : ∀ i j, i < 3 → j < 3 →
    entry 3 exData' Num.infinity i j = entry 3 exData Num.infinity (cyc i) (cyc j) := by
  intro i j hi hj
  have h : i = 0 ∨ i = 1 ∨ i = 2 := by omega
  have h' : j = 0 ∨ j = 1 ∨ j = 2 := by omega
  rcases h with rfl | rfl | rfl <;> rcases h' with rfl | rfl | rfl <;> decide

private theorem exNoNaN : NoNaN 3 exData := fun _ _ _ _ _ => rfl

private theorem exInfTop : InfTop 3 exData := by
  refine ⟨rfl, ?_⟩
  have : ∀ u, u < 3 → ∀ v, v < 3 → u ≠ v →
      Num.lt (Num.infinity : Nat) (entry 3 exData Num.infinity u v) = false := by decide
  intro u v hu hv huv
  exact this u hu v hv huv

/-- All hypotheses of `C11_mst` hold of a concrete instance with a non-trivial permutation
(different build modes for the two calls). -/
example : ∃ s₁ e M₁ s₂ e' M₂,
    mstWith true State.new (Dendrogram.new 0) exData 3 = .ok (s₁, e, M₁) ∧
    mstWith false State.new (Dendrogram.new 3) exData' 3 = .ok (s₂, e', M₂) ∧
    e.steps.toList = e'.steps.toList.map (mapStep (σ cyc 3)) ∧
    e.steps.toList.map (·.d) = e'.steps.toList.map (·.d) ∧
    e.steps.toList.map (·.size) = e'.steps.toList.map (·.size) ∧
    ∀ i, (leaves 3 e.steps.toList e.steps.toList.length (3 + i)).Perm
      ((leaves 3 e'.steps.toList e'.steps.toList.length (3 + i)).map cyc) :=
  C11_mst Toy.natOrderLaws Toy.natTrichotomy true false _ _ _ _ exData exData' 3 (by decide)
    (by decide) (by decide) (by decide) cyc_isPerm ex_hperm exNoNaN exInfTop exSteps (by decide)
    (by decide)

end NonVacuity

end Kodama
