/-
C02 UNDER FLOATING-POINT ROUNDING, ENTRY POINT `primitive_with` — the rounding-error theorems of
`Props/C02Rounding.lean` (average and weighted linkage through the nearest-neighbour chain) for the
O(n³) algorithm of `src/primitive.rs`, which also accepts `Method::Average` and `Method::Weighted`.
Property C02 quantifies over ALL entry points; with this file two of them (`nnchain_with` /
`linkage_with`, and `primitive_with`) are covered by the SAME statement, so the two compose.

## What is proved

* `C02_primitive_average_rounded`   under EXACTLY the hypotheses of `C02_nnchain_average_rounded`
      (`OrderLaws α`; the standard model `Round.Model val fin u lo hi N`; a valid matrix `2 ≤ n < 2³¹`,
      `2·len = n(n−1)`; every entry finite and `0` or in `[dlo, dhi]`; `Round.RangeOk`: no overflow /
      underflow) the call `primitiveWith chk .average st d data n` RETURNS, and EVERY returned step
      `(c1, c2, h, size)` satisfies, with `A`, `B` the observation sets of the labels `c1`, `c2` in the
      returned dendrogram (`Spec.leaves`) and `mean` the EXACT mean of `val (input entry (x, y))` over the
      cross pairs `x ∈ A`, `y ∈ B` (`Crit.avg (valD val n data) A B`):

          h finite,   A ∩ B = ∅,   size = |A| + |B| ≤ n,   0 ≤ mean,
          Round.Near u (4·(size − 2)) mean (val h)

      — word for word the conclusion of the nnchain theorem (same constant `c = 4`).
* `C02_primitive_average_rounded_bounds`   the same with `Near` unfolded.
* `C02_average_rounded_agree`       the `Near` calculus has no triangle lemma; this is it:
      `Near u k A x → Near u k A y → Near u (2k) x y`  (`Round.Near.agree`).
* `C02_average_rounded_nnchain_primitive_agree`   COMPOSITION: on the same valid input both
      `nnchainWith` and `primitiveWith` return, and whenever a step of the one and a step of the other
      merge the same two observation sets, their sizes are equal and their heights are within
      `2·4·(size − 2)` rounding factors of each other.
* `C02_primitive_average_rounded_gamma`, `_1e9` (`u ≤ 2⁻⁵³`, `n ≤ 10⁶` ⇒ relative error `≤ 10⁻⁹`),
  `_1e3` (`u ≤ 2⁻²⁴`, `n ≤ 2000` ⇒ `≤ 10⁻³`): the numeric corollaries, via the `Near`-level lemma
      `near_rel_le` exactly as for nnchain.
* `C02_primitive_weighted_rounded`  WEIGHTED linkage, strictly positive entries in `[dlo, dhi]`,
      `Round.RangeOkW`, under the same explicit reducibility hypothesis `ChainGeOn ok .weighted` as
      `C02_nnchain_weighted_rounded` (and `hok`: the domain contains the range of the run): every
      returned height is within `2·(size − 2)` factors of the recursively halved mean `Crit.wdist` of
      the original entries over the merge trees `Crit.clusterTree` of the two merged labels.
* `C02_primitive_weighted_rounded_of_halfAdd`   the same with reducibility from the monotonicity laws
      `HalfAddLaws α ok` (`Lemmas/WeightedMono.lean`).
* Non-vacuity: exact `ℚ` (`u = 0`: heights ARE the means / the halved means), the round-down toy type
  `downNum` (`u = 1/1000`, average), the round-up toy type `upNum` (weighted).

## Hypotheses, and why each is needed

As in `Props/C02Rounding.lean` (non-negativity for relative bounds, `RangeOk` for the model's laws,
no run-level "`ok`" hypothesis: finiteness of every value of the run is DERIVED).  Specific to this
entry point:

* NO reducibility is needed for termination (`C12_primitive_total`: the loop is total for any number
  operations), and none for "the matrix holds `RAvg`/`RWgt` values of the cluster trees".  Reducibility
  enters only through the SORT: `relabel` sorts the raw steps stably by height, and that is a legal
  replay of the merges only if every raw step is at least as high as the earlier steps inside its
  two clusters.  For `primitive` the loop invariant is stronger and simpler than the chain's: every
  recorded step is at most as high as EVERY current live entry (`RoundInvP.below`), because the
  merged pair is a GLOBAL minimum (`argmin_min`) and the update never falls below it
  (`LwGeOn`: for the clamped average a theorem of `OrderLaws`, `Gen.average_not_lt`; for the
  midpoint `half·(a+b)` the hypothesis `ChainGeOn ok .weighted`, as for nnchain).

## What is NOT proved

* That IEEE-754 arithmetic satisfies `Round.Model` (textbook; hypothesis), and that it satisfies
  `ChainGeOn ok .weighted` / `HalfAddLaws` (monotone rounding; sampled, hypothesis) — as in
  `Props/C02Rounding.lean`.
* The entry point `generic_with` (done separately, with the extra hypotheses that entry point needs: `Props/C02RoundingGeneric.lean`), Ward / centroid /
  median (cancellation), single / complete (exact, no rounding analysis needed).
* That the two entry points return THE SAME clusters: under rounding they need not (near-ties may be
  resolved differently); `C02_average_rounded_nnchain_primitive_agree` is conditional on a step of
  each merging the same two sets.

## Proof

`Lemmas/RoundPrimitive.lean`: `primIter_facts` (one iteration in `Mat.dval` form: `argmin_min`,
`updateRows_dval`, `merge_ok`), `RoundInvP` / `roundInvP_step` (the invariant above, for any relation
propagated by the update: `Crit.LWCompat`), `roundPrimLoop`, `primitiveWith_round`.  Then the generic
sort/relabel stage `relabel_round` / `relabel_round_sw` (`Lemmas/RoundSort.lean`) and the tree-level
relations `RAvg` (`Lemmas/RoundTree.lean`), `RWgt` (`Lemmas/RoundWeighted.lean`) are reused unchanged.
-/
import Kodama.Lemmas.RoundPrimitive
import Kodama.Props.C02Rounding
set_option linter.unusedSectionVars false
namespace Kodama
open Spec Crit MTree Finset Round

variable {K : Type} [Field K] [LinearOrder K] [IsStrictOrderedRing K]
variable {α : Type} [Num α]

/-- The triangle lemma of the `Near` calculus: two values within `k` factors of the same quantity are
within `2k` factors of each other. -/
theorem Round.Near.agree {u A x y : K} {k : Nat} (hu : u < 1) (hx : Near u k A x)
    (hy : Near u k A y) : Near u (2 * k) x y := by
  have hw : 0 ≤ (1 - u) ^ k := (pow_w_pos hu k).le
  have e : (1 - u) ^ (2 * k) = (1 - u) ^ k * (1 - u) ^ k := by rw [two_mul, pow_add]
  unfold Near at *
  rw [e]
  constructor
  · calc x * ((1 - u) ^ k * (1 - u) ^ k) = x * (1 - u) ^ k * (1 - u) ^ k := by ring
      _ ≤ A * (1 - u) ^ k := mul_le_mul_of_nonneg_right hx.2 hw
      _ ≤ y := hy.1
  · calc y * ((1 - u) ^ k * (1 - u) ^ k) = y * (1 - u) ^ k * (1 - u) ^ k := by ring
      _ ≤ A * (1 - u) ^ k := mul_le_mul_of_nonneg_right hy.2 hw
      _ ≤ x := hx.1

/-- **Two computed heights of the same mean agree up to twice the factors**: if two entry points
return heights `x`, `y` that are both within `k` rounding factors of the same exact quantity `A`
(e.g. the mean over the cross pairs of the same two clusters, `k = 4·(size − 2)`), then `x` and `y`
are within `2k` factors of each other. -/
theorem C02_average_rounded_agree {u A x y : K} {k : Nat} (hu : u < 1) (hx : Near u k A x)
    (hy : Near u k A y) : Near u (2 * k) x y := hx.agree hu hy

/-- **C02 for average linkage through `primitive_with`, under the standard model of floating-point
arithmetic.**  Same hypotheses and same conclusion as `C02_nnchain_average_rounded`; see the file
header. -/
theorem C02_primitive_average_rounded (L : OrderLaws α) {val : α → K} {fin : α → Prop}
    {u lo hi : K} {N : Nat} (RM : Round.Model val fin u lo hi N)
    (chk : Bool) (st : State α) (d : Dendrogram α) (data : Array α) (n : Nat)
    (h2 : 2 ≤ n) (hs : n < 2147483648) (hl : 2 * data.size = n * (n - 1))
    {dlo dhi : K} (hdlo : 0 < dlo) (hdle : dlo ≤ dhi)
    (hdata : ∀ (k : Nat) (h : k < data.size), fin data[k] ∧ In0 dlo dhi (val data[k]))
    (Rg : RangeOk u lo hi N n dlo dhi) :
    ∃ st' d' M', primitiveWith chk .average st d data n = .ok (st', d', M') ∧
      ∀ (i : Nat) (s : Step α), d'.steps.toList[i]? = some s →
        let steps := d'.steps.toList
        let A := (Spec.leaves n steps steps.length s.c1).toFinset
        let B := (Spec.leaves n steps steps.length s.c2).toFinset
        fin s.d ∧ Disjoint A B ∧ s.size = A.card + B.card ∧ s.size ≤ n ∧
          0 ≤ avg (valD val n data) A B ∧
          Near u (4 * (s.size - 2)) (avg (valD val n data) A B) (val s.d) := by
  have B := baseOk_valD (val := val) (fin := fin) data n h2 hs hl hdlo hdle hdata
  have C : LWCompat Method.average (RAvg val fin u n (valD val n data)) := lwCompat_RAvg RM B Rg
  obtain ⟨st1, dend1, M1, uf, d', hres, hr, hrun⟩ :=
    primitiveWith_round L chk .average (lwGeOn_average L (fun _ => True)) C
      (fun _ _ _ h => RM.notNaN _ h.fin) (fun _ _ _ _ => trivial) st d data n h2 hs hl
      (fun i j hi hj hij => by
        obtain ⟨k, hk, e⟩ := init_D_average_mem data n h2 hs hl i j hi hj hij
        refine RAvg.leaf hi hj ?_ rfl
        show fin ((Spec.init .average n data).D i j)
        rw [e]; exact (hdata k hk).1)
  obtain ⟨hwf, hall⟩ := relabel_round L .average rfl st1.set uf dend1 d'
    n h2 hres.obs hres.raw hres.heights hres.run hr
  have hsqrt : sqrtSteps Method.average d' = d' := by
    simp [sqrtSteps, Method.onSquares]
  refine ⟨{ st1 with set := uf }, d', M1, by rw [hrun, hsqrt], ?_⟩
  intro i s hi
  obtain ⟨T₁, T₂, hR, hdisj, hleaves, hsize⟩ := hall i s hi
  have hcard : T₁.leaves.card + T₂.leaves.card ≤ n := by
    have : (T₁.leaves ∪ T₂.leaves).card ≤ n :=
      card_le_of_lt (fun x hx => by
        rcases mem_union.mp hx with h' | h'
        · exact hR.ls x h'
        · exact hR.lt x h')
    rwa [card_union_of_disjoint hdisj] at this
  have hnn := B.avg_nonneg hR.ls hR.lt hdisj T₁.leaves_nonempty T₂.leaves_nonempty
  rcases hleaves with ⟨e1, e2⟩ | ⟨e1, e2⟩
  · simp only [e1, e2]
    exact ⟨hR.fin, hdisj, hsize, by omega, hnn, by rw [hsize]; exact hR.near⟩
  · have hR' := hR.symm B
    simp only [e1, e2]
    refine ⟨hR.fin, hdisj.symm, by omega, by omega, ?_, ?_⟩
    · rw [avg_symm B.symm]; exact hnn
    · rw [hsize, Nat.add_comm]; exact hR'.near

/-- `C02_primitive_average_rounded` with the two-sided bound written out. -/
theorem C02_primitive_average_rounded_bounds (L : OrderLaws α) {val : α → K} {fin : α → Prop}
    {u lo hi : K} {N : Nat} (RM : Round.Model val fin u lo hi N)
    (chk : Bool) (st : State α) (d : Dendrogram α) (data : Array α) (n : Nat)
    (h2 : 2 ≤ n) (hs : n < 2147483648) (hl : 2 * data.size = n * (n - 1))
    {dlo dhi : K} (hdlo : 0 < dlo) (hdle : dlo ≤ dhi)
    (hdata : ∀ (k : Nat) (h : k < data.size), fin data[k] ∧ In0 dlo dhi (val data[k]))
    (Rg : RangeOk u lo hi N n dlo dhi) :
    ∃ st' d' M', primitiveWith chk .average st d data n = .ok (st', d', M') ∧
      ∀ (i : Nat) (s : Step α), d'.steps.toList[i]? = some s →
        let steps := d'.steps.toList
        let A := (Spec.leaves n steps steps.length s.c1).toFinset
        let B := (Spec.leaves n steps steps.length s.c2).toFinset
        let mean := avg (valD val n data) A B
        mean * (1 - u) ^ (4 * (s.size - 2)) ≤ val s.d ∧
          val s.d * (1 - u) ^ (4 * (s.size - 2)) ≤ mean := by
  obtain ⟨st', d', M', hrun, h⟩ :=
    C02_primitive_average_rounded L RM chk st d data n h2 hs hl hdlo hdle hdata Rg
  exact ⟨st', d', M', hrun, fun i s hi => (h i s hi).2.2.2.2.2⟩

/-- **Composition of the two entry points.**  On the same valid input (hypotheses of either theorem)
both `nnchainWith` and `primitiveWith` return, and whenever a returned step `s` of the first and a
returned step `s'` of the second merge THE SAME TWO observation sets, `s.size = s'.size` and the two
heights are within `2·4·(size − 2)` rounding factors of each other. -/
theorem C02_average_rounded_nnchain_primitive_agree (L : OrderLaws α) {val : α → K}
    {fin : α → Prop} {u lo hi : K} {N : Nat} (RM : Round.Model val fin u lo hi N)
    (chk : Bool) (st : State α) (d : Dendrogram α) (data : Array α) (n : Nat)
    (h2 : 2 ≤ n) (hs : n < 2147483648) (hl : 2 * data.size = n * (n - 1))
    {dlo dhi : K} (hdlo : 0 < dlo) (hdle : dlo ≤ dhi)
    (hdata : ∀ (k : Nat) (h : k < data.size), fin data[k] ∧ In0 dlo dhi (val data[k]))
    (Rg : RangeOk u lo hi N n dlo dhi) :
    ∃ st₁ d₁ M₁ st₂ d₂ M₂,
      nnchainWith chk .average st d data n = .ok (st₁, d₁, M₁) ∧
      primitiveWith chk .average st d data n = .ok (st₂, d₂, M₂) ∧
      ∀ (i j : Nat) (s s' : Step α), d₁.steps.toList[i]? = some s → d₂.steps.toList[j]? = some s' →
        (Spec.leaves n d₁.steps.toList d₁.steps.toList.length s.c1).toFinset =
          (Spec.leaves n d₂.steps.toList d₂.steps.toList.length s'.c1).toFinset →
        (Spec.leaves n d₁.steps.toList d₁.steps.toList.length s.c2).toFinset =
          (Spec.leaves n d₂.steps.toList d₂.steps.toList.length s'.c2).toFinset →
        s.size = s'.size ∧ Near u (2 * (4 * (s.size - 2))) (val s.d) (val s'.d) := by
  obtain ⟨st₁, d₁, M₁, hrun₁, h₁⟩ :=
    C02_nnchain_average_rounded L RM chk st d data n h2 hs hl hdlo hdle hdata Rg
  obtain ⟨st₂, d₂, M₂, hrun₂, h₂⟩ :=
    C02_primitive_average_rounded L RM chk st d data n h2 hs hl hdlo hdle hdata Rg
  refine ⟨st₁, d₁, M₁, st₂, d₂, M₂, hrun₁, hrun₂, fun i j s s' hi hj eA eB => ?_⟩
  obtain ⟨_, _, hsz₁, _, _, hn₁⟩ := h₁ i s hi
  obtain ⟨_, _, hsz₂, _, _, hn₂⟩ := h₂ j s' hj
  have hsize : s.size = s'.size := by rw [hsz₁, hsz₂, eA, eB]
  refine ⟨hsize, ?_⟩
  rw [← eA, ← eB, ← hsize] at hn₂
  exact C02_average_rounded_agree RM.u_lt_one hn₁ hn₂

/-! ## Numeric corollaries (identical to the nnchain ones: `near_rel_le` is about `Near`) -/

/-- **Relative-error form**: every height returned by `primitive_with` is within `γ · mean` of the
exact mean whenever `4·n·u ≤ c` and `1 ≤ (1+γ)(1−c)`. -/
theorem C02_primitive_average_rounded_gamma (L : OrderLaws α) {val : α → K} {fin : α → Prop}
    {u lo hi : K} {N : Nat} (RM : Round.Model val fin u lo hi N)
    (chk : Bool) (st : State α) (d : Dendrogram α) (data : Array α) (n : Nat)
    (h2 : 2 ≤ n) (hs : n < 2147483648) (hl : 2 * data.size = n * (n - 1))
    {dlo dhi : K} (hdlo : 0 < dlo) (hdle : dlo ≤ dhi)
    (hdata : ∀ (k : Nat) (h : k < data.size), fin data[k] ∧ In0 dlo dhi (val data[k]))
    (Rg : RangeOk u lo hi N n dlo dhi)
    {c γ : K} (hc : 4 * (n : K) * u ≤ c) (hγ0 : 0 ≤ γ) (hγ : 1 ≤ (1 + γ) * (1 - c)) :
    ∃ st' d' M', primitiveWith chk .average st d data n = .ok (st', d', M') ∧
      ∀ (i : Nat) (s : Step α), d'.steps.toList[i]? = some s →
        let steps := d'.steps.toList
        let A := (Spec.leaves n steps steps.length s.c1).toFinset
        let B := (Spec.leaves n steps steps.length s.c2).toFinset
        |val s.d - avg (valD val n data) A B| ≤ γ * avg (valD val n data) A B := by
  obtain ⟨st', d', M', hrun, h⟩ :=
    C02_primitive_average_rounded L RM chk st d data n h2 hs hl hdlo hdle hdata Rg
  refine ⟨st', d', M', hrun, fun i s hi => ?_⟩
  obtain ⟨_, _, _, hle, hnn, hnear⟩ := h i s hi
  refine near_rel_le RM.u_nonneg RM.u_lt_one hnn hnear ?_ hγ0 hγ
  have hk : ((4 * (s.size - 2) : Nat) : K) ≤ 4 * (n : K) := by
    have : 4 * (s.size - 2) ≤ 4 * n := by omega
    exact_mod_cast this
  exact le_trans (mul_le_mul_of_nonneg_right hk RM.u_nonneg) hc

/-- **The tolerance of the property for `f64`, entry point `primitive_with`**: `u ≤ 2⁻⁵³`,
`n ≤ 10⁶` ⇒ every returned height is within `10⁻⁹` (relative) of the exact mean. -/
theorem C02_primitive_average_rounded_1e9 (L : OrderLaws α) {val : α → K} {fin : α → Prop}
    {u lo hi : K} {N : Nat} (RM : Round.Model val fin u lo hi N)
    (chk : Bool) (st : State α) (d : Dendrogram α) (data : Array α) (n : Nat)
    (h2 : 2 ≤ n) (hs : n < 2147483648) (hl : 2 * data.size = n * (n - 1))
    {dlo dhi : K} (hdlo : 0 < dlo) (hdle : dlo ≤ dhi)
    (hdata : ∀ (k : Nat) (h : k < data.size), fin data[k] ∧ In0 dlo dhi (val data[k]))
    (Rg : RangeOk u lo hi N n dlo dhi)
    (hu : u ≤ 1 / 2 ^ 53) (hn : n ≤ 1000000) :
    ∃ st' d' M', primitiveWith chk .average st d data n = .ok (st', d', M') ∧
      ∀ (i : Nat) (s : Step α), d'.steps.toList[i]? = some s →
        let steps := d'.steps.toList
        let A := (Spec.leaves n steps steps.length s.c1).toFinset
        let B := (Spec.leaves n steps steps.length s.c2).toFinset
        |val s.d - avg (valD val n data) A B| ≤ 1 / 1000000000 * avg (valD val n data) A B := by
  have hnK : (n : K) ≤ 1000000 := by exact_mod_cast hn
  have hn0 : (0 : K) ≤ (n : K) := Nat.cast_nonneg n
  refine C02_primitive_average_rounded_gamma L RM chk st d data n h2 hs hl hdlo hdle hdata Rg
    (c := 4 * 1000000 * (1 / 2 ^ 53)) ?_ (by norm_num) (by norm_num)
  have h1 : 4 * (n : K) * u ≤ 4 * (n : K) * (1 / 2 ^ 53) :=
    mul_le_mul_of_nonneg_left hu (by linarith)
  have h2' : 4 * (n : K) * (1 / 2 ^ 53) ≤ 4 * 1000000 * (1 / 2 ^ 53) :=
    mul_le_mul_of_nonneg_right (by linarith) (by norm_num)
  linarith

/-- **The tolerance of the property for `f32`, entry point `primitive_with`**: `u ≤ 2⁻²⁴`,
`n ≤ 2000` ⇒ relative error at most `10⁻³`. -/
theorem C02_primitive_average_rounded_1e3 (L : OrderLaws α) {val : α → K} {fin : α → Prop}
    {u lo hi : K} {N : Nat} (RM : Round.Model val fin u lo hi N)
    (chk : Bool) (st : State α) (d : Dendrogram α) (data : Array α) (n : Nat)
    (h2 : 2 ≤ n) (hs : n < 2147483648) (hl : 2 * data.size = n * (n - 1))
    {dlo dhi : K} (hdlo : 0 < dlo) (hdle : dlo ≤ dhi)
    (hdata : ∀ (k : Nat) (h : k < data.size), fin data[k] ∧ In0 dlo dhi (val data[k]))
    (Rg : RangeOk u lo hi N n dlo dhi)
    (hu : u ≤ 1 / 2 ^ 24) (hn : n ≤ 2000) :
    ∃ st' d' M', primitiveWith chk .average st d data n = .ok (st', d', M') ∧
      ∀ (i : Nat) (s : Step α), d'.steps.toList[i]? = some s →
        let steps := d'.steps.toList
        let A := (Spec.leaves n steps steps.length s.c1).toFinset
        let B := (Spec.leaves n steps steps.length s.c2).toFinset
        |val s.d - avg (valD val n data) A B| ≤ 1 / 1000 * avg (valD val n data) A B := by
  have hnK : (n : K) ≤ 2000 := by exact_mod_cast hn
  have hn0 : (0 : K) ≤ (n : K) := Nat.cast_nonneg n
  refine C02_primitive_average_rounded_gamma L RM chk st d data n h2 hs hl hdlo hdle hdata Rg
    (c := 4 * 2000 * (1 / 2 ^ 24)) ?_ (by norm_num) (by norm_num)
  have h1 : 4 * (n : K) * u ≤ 4 * (n : K) * (1 / 2 ^ 24) :=
    mul_le_mul_of_nonneg_left hu (by linarith)
  have h2' : 4 * (n : K) * (1 / 2 ^ 24) ≤ 4 * 2000 * (1 / 2 ^ 24) :=
    mul_le_mul_of_nonneg_right (by linarith) (by norm_num)
  linarith

/-! ## Weighted linkage (under the same explicit reducibility hypothesis as for nnchain) -/

/-- **C02 for weighted linkage through `primitive_with`, under the standard model AND reducibility of
the weighted update on a domain** — same hypotheses and conclusion as `C02_nnchain_weighted_rounded`.
Reducibility is NOT needed for the call to return, nor for the matrix to hold `RWgt` values; it is
what makes the stable sort of `relabel` a legal replay (see the file header). -/
theorem C02_primitive_weighted_rounded (L : OrderLaws α) {val : α → K} {fin : α → Prop}
    {u lo hi : K} {N : Nat} (RM : Round.Model val fin u lo hi N)
    {ok : α → Prop} (hge : ChainGeOn ok .weighted)
    (chk : Bool) (st : State α) (d : Dendrogram α) (data : Array α) (n : Nat)
    (h2 : 2 ≤ n) (hs : n < 2147483648) (hl : 2 * data.size = n * (n - 1))
    {dlo dhi : K} (hdlo : 0 < dlo)
    (hdata : ∀ (k : Nat) (h : k < data.size),
      fin data[k] ∧ dlo ≤ val data[k] ∧ val data[k] ≤ dhi)
    (Rg : RangeOkW u lo hi n dlo dhi)
    (hok : ∀ v, fin v → dlo * (1 - u) ^ (2 * n) ≤ val v → val v ≤ dhi / (1 - u) ^ (2 * n) → ok v) :
    ∃ st' d' M', primitiveWith chk .weighted st d data n = .ok (st', d', M') ∧
      ∀ (i : Nat) (s : Step α), d'.steps.toList[i]? = some s →
        let steps := d'.steps.toList
        let w := wdist (valD val n data) (clusterTree n steps s.c1) (clusterTree n steps s.c2)
        fin s.d ∧ s.size ≤ n ∧ 0 ≤ w ∧ Near u (2 * (s.size - 2)) w (val s.d) := by
  have B : BaseOkW n (valD val n data) dlo dhi :=
    { symm := fun i j => by unfold valD; rw [init_D_symm]
      dlo_pos := hdlo
      entry := fun i j hi hj hij => by
        obtain ⟨k, hk, e⟩ := init_D_average_mem data n h2 hs hl i j hi hj hij
        unfold valD; rw [e]; exact (hdata k hk).2 }
  have C : LWCompat Method.weighted (RWgt val fin u n (valD val n data)) := lwCompat_RWgt RM B Rg
  have hge' : LwGeOn ok Method.weighted := hge.lw
  obtain ⟨st1, dend1, M1, uf, d', hres, hr, hrun⟩ :=
    primitiveWith_round L chk .weighted hge' C
      (fun _ _ _ h => RM.notNaN _ h.fin)
      (fun _ _ v h => hok v h.fin (h.range RM.u_nonneg RM.u_lt_one B).1
        (h.range RM.u_nonneg RM.u_lt_one B).2) st d data n h2 hs hl
      (fun i j hi hj hij => by
        obtain ⟨k, hk, e⟩ := init_D_average_mem data n h2 hs hl i j hi hj hij
        refine RWgt.leaf hi hj hij ?_ rfl
        show fin ((Spec.init .average n data).D i j)
        rw [e]; exact (hdata k hk).1)
  obtain ⟨hwf, hall⟩ := relabel_round_sw L .weighted rfl st1.set uf dend1 d'
    n h2 hres.obs hres.raw hres.heights hres.run hr
  have hsqrt : sqrtSteps Method.weighted d' = d' := by
    simp [sqrtSteps, Method.onSquares]
  refine ⟨{ st1 with set := uf }, d', M1, by rw [hrun, hsqrt], ?_⟩
  intro i s hi
  obtain ⟨T₁, T₂, hR, hdisj, hsw, hsize⟩ := hall i s hi
  have hcard : T₁.leaves.card + T₂.leaves.card ≤ n := by
    have : (T₁.leaves ∪ T₂.leaves).card ≤ n :=
      card_le_of_lt (fun x hx => by
        rcases mem_union.mp hx with h' | h'
        · exact hR.ls x h'
        · exact hR.lt x h')
    rwa [card_union_of_disjoint hdisj] at this
  have hnn : 0 ≤ wdist (valD val n data) T₁ T₂ :=
    le_trans hdlo.le (B.wdist_mem T₁ T₂ hR.ls hR.lt hdisj).1
  have hw : wdist (valD val n data) (clusterTree n d'.steps.toList s.c1)
      (clusterTree n d'.steps.toList s.c2) = wdist (valD val n data) T₁ T₂ := by
    rcases hsw with ⟨a, b⟩ | ⟨a, b⟩
    · rw [a.wdist_left, b.wdist_right]
    · rw [a.wdist_left, b.wdist_right, wdist_symm B.symm]
  simp only [hw]
  exact ⟨hR.fin, by omega, hnn, by rw [hsize]; exact hR.near⟩

/-- `C02_primitive_weighted_rounded` with reducibility obtained from the monotonicity laws of `+` and
`½·` on a domain (`HalfAddLaws α ok`, `Lemmas/WeightedMono.lean`). -/
theorem C02_primitive_weighted_rounded_of_halfAdd (L : OrderLaws α) {val : α → K} {fin : α → Prop}
    {u lo hi : K} {N : Nat} (RM : Round.Model val fin u lo hi N)
    {ok : α → Prop} (H : HalfAddLaws α ok)
    (chk : Bool) (st : State α) (d : Dendrogram α) (data : Array α) (n : Nat)
    (h2 : 2 ≤ n) (hs : n < 2147483648) (hl : 2 * data.size = n * (n - 1))
    {dlo dhi : K} (hdlo : 0 < dlo)
    (hdata : ∀ (k : Nat) (h : k < data.size),
      fin data[k] ∧ dlo ≤ val data[k] ∧ val data[k] ≤ dhi)
    (Rg : RangeOkW u lo hi n dlo dhi)
    (hok : ∀ v, fin v → dlo * (1 - u) ^ (2 * n) ≤ val v → val v ≤ dhi / (1 - u) ^ (2 * n) → ok v) :
    ∃ st' d' M', primitiveWith chk .weighted st d data n = .ok (st', d', M') ∧
      ∀ (i : Nat) (s : Step α), d'.steps.toList[i]? = some s →
        let steps := d'.steps.toList
        let w := wdist (valD val n data) (clusterTree n steps s.c1) (clusterTree n steps s.c2)
        fin s.d ∧ s.size ≤ n ∧ 0 ≤ w ∧ Near u (2 * (s.size - 2)) w (val s.d) :=
  C02_primitive_weighted_rounded L RM (chainReducibleOn_weighted L H).chainGeOn chk st d data n h2 hs
    hl hdlo hdata Rg hok

/-! ## Non-vacuity (the number types and the data of `Props/C02Rounding.lean`) -/

section Examples

section ExactRat
attribute [local instance] ratNum

/-- Exact `ℚ`: all hypotheses hold, and (with `u = 0`, so `Near` is equality) every height returned
by `primitive_with` IS the mean over the cross pairs. -/
example : ∃ st' d' M',
    primitiveWith true .average State.new (Dendrogram.new 0) (#[1, 9, 4] : Array ℚ) 3
      = .ok (st', d', M') ∧
    ∀ (i : Nat) (s : Step ℚ), d'.steps.toList[i]? = some s →
      s.d = avg (valD (fun x : ℚ => x) 3 #[1, 9, 4])
        (Spec.leaves 3 d'.steps.toList d'.steps.toList.length s.c1).toFinset
        (Spec.leaves 3 d'.steps.toList d'.steps.toList.length s.c2).toFinset := by
  have RM : Round.Model (fun x : ℚ => x) (fun _ => True) 0 (1 / 100) 100 10 :=
    model_of_exact (exactLaws_fieldNum ℚ) (by norm_num) (by norm_num) (by norm_num)
  obtain ⟨st', d', M', hrun, h⟩ := C02_primitive_average_rounded_bounds
    (exactLaws_fieldNum ℚ).field.orderLaws RM true State.new (Dendrogram.new 0) #[1, 9, 4] 3
    (by decide) (by decide) (by decide) (dlo := 1) (dhi := 9) (by norm_num) (by norm_num)
    example_data_ok ⟨by decide, by norm_num, by norm_num⟩
  refine ⟨st', d', M', hrun, fun i s hi => ?_⟩
  have := h i s hi
  simp only [sub_zero, one_pow, mul_one] at this
  exact le_antisymm this.2 this.1

/-- Exact `ℚ`, weighted linkage through `primitive_with`: every returned height IS the recursively
halved mean. -/
example : ∃ st' d' M',
    primitiveWith true .weighted State.new (Dendrogram.new 0) (#[1, 9, 4] : Array ℚ) 3
      = .ok (st', d', M') ∧
    ∀ (i : Nat) (s : Step ℚ), d'.steps.toList[i]? = some s →
      s.d = wdist (valD (fun x : ℚ => x) 3 #[1, 9, 4])
        (clusterTree 3 d'.steps.toList s.c1) (clusterTree 3 d'.steps.toList s.c2) := by
  have E := exactLaws_fieldNum ℚ
  have RM : Round.Model (fun x : ℚ => x) (fun _ => True) 0 (1 / 100) 100 10 :=
    model_of_exact E (by norm_num) (by norm_num) (by norm_num)
  obtain ⟨st', d', M', hrun, h⟩ := C02_primitive_weighted_rounded E.field.orderLaws RM
    ((chainReducible_exact E.field E.noNaN .weighted).chainGe.on (fun _ => True)) true State.new
    (Dendrogram.new 0) #[1, 9, 4] 3 (by decide) (by decide) (by decide) (dlo := 1) (dhi := 9)
    (by norm_num) example_data_pos ⟨by norm_num, by norm_num⟩ (fun _ _ _ _ => trivial)
  refine ⟨st', d', M', hrun, fun i s hi => ?_⟩
  obtain ⟨_, _, _, hn⟩ := h i s hi
  have := hn
  unfold Near at this
  simp only [sub_zero, one_pow, mul_one] at this
  exact le_antisymm this.2 this.1

end ExactRat

section RoundDown
attribute [local instance] downNum

/-- The round-down toy type (`u = 1/1000`; the clamp does fire on it): all hypotheses hold, so
`primitive_with` returns and every returned height is within `4·(size − 2)` factors `(1 − 1/1000)` of
the exact mean over the cross pairs. -/
example : ∃ st' d' M',
    primitiveWith true .average State.new (Dendrogram.new 0) (#[1, 9, 4] : Array ℚ) 3
      = .ok (st', d', M') ∧
    ∀ (i : Nat) (s : Step ℚ), d'.steps.toList[i]? = some s →
      let A := (Spec.leaves 3 d'.steps.toList d'.steps.toList.length s.c1).toFinset
      let B := (Spec.leaves 3 d'.steps.toList d'.steps.toList.length s.c2).toFinset
      let mean := avg (valD (fun x : ℚ => x) 3 #[1, 9, 4]) A B
      mean * (1 - 1 / 1000) ^ (4 * (s.size - 2)) ≤ s.d ∧
        s.d * (1 - 1 / 1000) ^ (4 * (s.size - 2)) ≤ mean :=
  C02_primitive_average_rounded_bounds downNum_orderLaws
    (downNum_model (lo := 1 / 100) (hi := 100) (N := 10) (by norm_num) (by norm_num) (by norm_num))
    true State.new (Dendrogram.new 0) #[1, 9, 4] 3 (by decide) (by decide) (by decide)
    (dlo := 1) (dhi := 9) (by norm_num) (by norm_num)
    example_data_ok ⟨by decide, by norm_num, by norm_num⟩

/-- On the round-down toy type the two entry points compose: whenever `nnchain_with` and
`primitive_with` merge the same two sets, the heights agree up to `8·(size − 2)` factors. -/
example : ∃ st₁ d₁ M₁ st₂ d₂ M₂,
    nnchainWith true .average State.new (Dendrogram.new 0) (#[1, 9, 4] : Array ℚ) 3
      = .ok (st₁, d₁, M₁) ∧
    primitiveWith true .average State.new (Dendrogram.new 0) (#[1, 9, 4] : Array ℚ) 3
      = .ok (st₂, d₂, M₂) ∧
    ∀ (i j : Nat) (s s' : Step ℚ), d₁.steps.toList[i]? = some s → d₂.steps.toList[j]? = some s' →
      (Spec.leaves 3 d₁.steps.toList d₁.steps.toList.length s.c1).toFinset =
        (Spec.leaves 3 d₂.steps.toList d₂.steps.toList.length s'.c1).toFinset →
      (Spec.leaves 3 d₁.steps.toList d₁.steps.toList.length s.c2).toFinset =
        (Spec.leaves 3 d₂.steps.toList d₂.steps.toList.length s'.c2).toFinset →
      s.size = s'.size ∧ Near (1 / 1000 : ℚ) (2 * (4 * (s.size - 2))) s.d s'.d :=
  C02_average_rounded_nnchain_primitive_agree downNum_orderLaws
    (downNum_model (lo := 1 / 100) (hi := 100) (N := 10) (by norm_num) (by norm_num) (by norm_num))
    true State.new (Dendrogram.new 0) #[1, 9, 4] 3 (by decide) (by decide) (by decide)
    (dlo := 1) (dhi := 9) (by norm_num) (by norm_num)
    example_data_ok ⟨by decide, by norm_num, by norm_num⟩

end RoundDown

section RoundUp
attribute [local instance] upNum

/-- The round-up toy type, weighted linkage through `primitive_with`: all hypotheses hold (standard
model with `u = 1/1000`, reducibility by monotonicity), so every returned height is within
`2·(size − 2)` factors of the recursively halved mean of the original entries. -/
example : ∃ st' d' M',
    primitiveWith true .weighted State.new (Dendrogram.new 0) (#[1, 9, 4] : Array ℚ) 3
      = .ok (st', d', M') ∧
    ∀ (i : Nat) (s : Step ℚ), d'.steps.toList[i]? = some s →
      let w := wdist (valD (fun x : ℚ => x) 3 #[1, 9, 4])
        (clusterTree 3 d'.steps.toList s.c1) (clusterTree 3 d'.steps.toList s.c2)
      Near (1 / 1000 : ℚ) (2 * (s.size - 2)) w s.d := by
  obtain ⟨st', d', M', hrun, h⟩ := C02_primitive_weighted_rounded upNum_orderLaws
    (upNum_model (lo := 1 / 100) (hi := 100) (N := 10) (by norm_num) (by norm_num) (by norm_num))
    (upNum_chainGe_weighted.on (fun _ => True)) true State.new (Dendrogram.new 0) #[1, 9, 4] 3
    (by decide) (by decide) (by decide) (dlo := 1) (dhi := 9) (by norm_num)
    example_data_pos ⟨by norm_num, by norm_num⟩ (fun _ _ _ _ => trivial)
  exact ⟨st', d', M', hrun, fun i s hi => (h i s hi).2.2.2⟩

end RoundUp

end Examples

end Kodama
