/-
C04 WITHOUT `LtTrichotomy` — single linkage through `nnchain_with` and `generic_with` is exact also on
inputs that contain both `+0.0` and `−0.0` (or any other pair of distinct but order-equivalent values).

`Props/C04Single.lean` proves the threshold theorem for these two entry points through
`Spec.GreedyValid`, whose replay demands recorded heights EQUAL to table values; that needs
"incomparable ⇒ equal" (`LtTrichotomy α`), which is false for IEEE floats because of `±0`.  The gap is
closed here by a QUOTIENT + NATURALITY argument that touches none of those proofs:

* `OrdQ L hnan` is `α` modulo order-equivalence (`a ~ b :⇔ ¬ a < b ∧ ¬ b < a`), with the comparison
  lifted; it satisfies `OrderLaws` AND `LtTrichotomy` by construction (`ordQ_orderLaws`,
  `ordQ_trichotomy`);
* the projection `α → OrdQ` is an order homomorphism (`ordQ_ordHom`; uses `BeqOrd α`: `==` is
  order-equivalence — true of IEEE `==` on non-NaN values, `±0` included) that maps the sentinels to the
  sentinels, so by the naturality theorem `C10` (every model function commutes with order homomorphisms
  for single/complete) the run on `α` returns iff the run on the quotient does, with the same labels
  and sizes and the projected heights;
* `SameCluster` and `Reach` only compare (`sameCluster_map`, `reach_map`), so the threshold theorem
  proved on the quotient (`C04_nnchain_single`, `C04_generic_single`) IS the threshold theorem on `α`.

Results: `C04_nnchain_single_noTri`, `C04_nnchain_single_count_noTri` (heights sorted; #steps ≤ h = n − #components),
`C04_generic_single_noTri` — hypotheses `OrderLaws α`, no NaN,
`BeqOrd α` (generic: in addition every entry strictly below `T::max_value()`), NO trichotomy.
With `C04_mst`, `C04_linkage_single` and `C04_primitive` (which never needed it) the threshold
characterisation of single linkage now holds for all five entry points on the float widths, `±0` included.
-/
import Kodama.Props.C04Single
import Kodama.Props.C10
set_option linter.unusedSectionVars false
namespace Kodama
open Spec
variable {α : Type} [Num α]

/-- `==` is order-equivalence (IEEE `==` on non-NaN values; `+0 == −0`). -/
def BeqOrd (α : Type) [Num α] : Prop :=
  ∀ a b : α, Num.beq a b = (!Num.lt a b && !Num.lt b a)

/-! ## The quotient -/

/-- Order-equivalence. -/
def ordSetoid (L : OrderLaws α) (hnan : ∀ x : α, Num.isNaN x = false) : Setoid α where
  r a b := Num.lt a b = false ∧ Num.lt b a = false
  iseqv := by
    refine ⟨fun a => ?_, fun h => ⟨h.2, h.1⟩, fun {a b c} h1 h2 => ?_⟩
    · have : Num.lt a a = false := by
        cases h : Num.lt a a
        · rfl
        · have := L.asymm a a h; rw [h] at this; cases this
      exact ⟨this, this⟩
    · constructor
      · cases h : Num.lt a c
        · rfl
        · rcases L.cotrans a b c (hnan b) h with h' | h'
          · rw [h1.1] at h'; cases h'
          · rw [h2.1] at h'; cases h'
      · cases h : Num.lt c a
        · rfl
        · rcases L.cotrans c b a (hnan b) h with h' | h'
          · rw [h2.2] at h'; cases h'
          · rw [h1.2] at h'; cases h'

/-- `α` modulo order-equivalence. -/
def OrdQ (L : OrderLaws α) (hnan : ∀ x : α, Num.isNaN x = false) : Type :=
  Quotient (ordSetoid L hnan)


/-- The comparison respects order-equivalence. -/
theorem lt_congr (L : OrderLaws α) (hnan : ∀ x : α, Num.isNaN x = false) {a a' b b' : α} (ha : Num.lt a a' = false ∧ Num.lt a' a = false)
    (hb : Num.lt b b' = false ∧ Num.lt b' b = false) : Num.lt a b = Num.lt a' b' := by
  have key : ∀ {x x' y y' : α}, (Num.lt x x' = false ∧ Num.lt x' x = false) →
      (Num.lt y y' = false ∧ Num.lt y' y = false) → Num.lt x y = true → Num.lt x' y' = true := by
    intro x x' y y' hx hy h
    rcases L.cotrans x x' y (hnan x') h with h' | h'
    · rw [hx.1] at h'; cases h'
    · rcases L.cotrans x' y' y (hnan y') h' with h'' | h''
      · exact h''
      · rw [hy.2] at h''; cases h''
  cases h : Num.lt a b <;> cases h' : Num.lt a' b'
  · rfl
  · have := key ⟨ha.2, ha.1⟩ ⟨hb.2, hb.1⟩ h'; rw [h] at this; cases this
  · have := key ha hb h; rw [h'] at this; cases this
  · rfl

/-- The lifted comparison. -/
def OrdQ.lt (L : OrderLaws α) (hnan : ∀ x : α, Num.isNaN x = false) (x y : OrdQ L hnan) : Bool :=
  Quotient.liftOn₂ x y (fun a b => Num.lt a b) (fun _ _ _ _ ha hb => lt_congr L hnan ha hb)

/-- The number structure of the quotient: the comparison is lifted, `==` is equality of classes, there is
no NaN, the sentinels are the classes of the sentinels; the arithmetic operations (never used by single
and complete linkage) act on representatives. -/
@[instance_reducible] noncomputable def ordQNum (L : OrderLaws α) (hnan : ∀ x : α, Num.isNaN x = false) :
    Num (OrdQ L hnan) where
  lt := OrdQ.lt L hnan
  beq x y := !OrdQ.lt L hnan x y && !OrdQ.lt L hnan y x
  add x y := Quotient.mk _ (Num.add x.out y.out)
  sub x y := Quotient.mk _ (Num.sub x.out y.out)
  mul x y := Quotient.mk _ (Num.mul x.out y.out)
  div x y := Quotient.mk _ (Num.div x.out y.out)
  ofNat k := Quotient.mk _ (Num.ofNat k)
  half := Quotient.mk _ Num.half
  quarter := Quotient.mk _ Num.quarter
  sqrt x := Quotient.mk _ (Num.sqrt x.out)
  abs x := Quotient.mk _ (Num.abs x.out)
  maxValue := Quotient.mk _ Num.maxValue
  infinity := Quotient.mk _ Num.infinity
  isNaN _ := false

/-- The projection. -/
def OrdQ.mk (L : OrderLaws α) (hnan : ∀ x : α, Num.isNaN x = false) (a : α) : OrdQ L hnan :=
  Quotient.mk _ a

theorem ordQ_lt_mk (L : OrderLaws α) (hnan : ∀ x : α, Num.isNaN x = false) (a b : α) :
    @Num.lt _ (ordQNum L hnan) (OrdQ.mk L hnan a) (OrdQ.mk L hnan b) = Num.lt a b := rfl

theorem ordQ_orderLaws (L : OrderLaws α) (hnan : ∀ x : α, Num.isNaN x = false) : @OrderLaws (OrdQ L hnan) (ordQNum L hnan) := by
  refine @OrderLaws.mk _ (ordQNum L hnan) ?_ ?_
  · intro x y
    induction x using Quotient.ind with | _ a =>
    induction y using Quotient.ind with | _ b =>
    exact L.asymm a b
  · intro x y z _
    induction x using Quotient.ind with | _ a =>
    induction y using Quotient.ind with | _ b =>
    induction z using Quotient.ind with | _ c =>
    exact L.cotrans a b c (hnan b)

theorem ordQ_trichotomy (L : OrderLaws α) (hnan : ∀ x : α, Num.isNaN x = false) : @LtTrichotomy (OrdQ L hnan) (ordQNum L hnan) := by
  intro x y
  induction x using Quotient.ind with | _ a =>
  induction y using Quotient.ind with | _ b =>
  intro h1 h2
  exact Quotient.sound ⟨h1, h2⟩

theorem ordQ_noNaN (L : OrderLaws α) (hnan : ∀ x : α, Num.isNaN x = false) (x : OrdQ L hnan) : @Num.isNaN _ (ordQNum L hnan) x = false := rfl

theorem ordQ_ordHom (L : OrderLaws α) (hnan : ∀ x : α, Num.isNaN x = false) (B : BeqOrd α) : @OrdHom α (OrdQ L hnan) _ (ordQNum L hnan) (OrdQ.mk L hnan) := by
  refine @OrdHom.mk α (OrdQ L hnan) _ (ordQNum L hnan) _ (fun _ _ => rfl) (fun a b => ?_)
    (fun a => (hnan a).symm)
  show (!Num.lt a b && !Num.lt b a) = Num.beq a b
  exact (B a b).symm

/-! ## Transfer of the two relations of the threshold theorem -/

section Transfer
variable {β : Type} [Num β]

theorem entry_map (g : α → β) (n : Nat) (data : Array α) (dflt : α) (i j : Nat) :
    entry n (data.map g) (g dflt) i j = g (entry n data dflt i j) := by
  unfold entry
  dsimp only
  generalize (pairs n).findIdx? (fun x => x == if i < j then (i, j) else (j, i)) = o
  cases o with
  | none => rfl
  | some k =>
    simp only [Array.getD_eq_getD_getElem?, Array.getElem?_map]
    cases data[k]? <;> rfl

theorem reach_map {g : α → β} (G : OrdHom g) (hinf : g Num.infinity = Num.infinity) (n : Nat)
    (data : Array α) (h : α) (u v : Nat) :
    Reach n (data.map g) (g h) u v ↔ Reach n data h u v := by
  have thr : ∀ a b, Thr n (data.map g) (g h) a b ↔ Thr n data h a b := by
    intro a b
    unfold Thr
    rw [← hinf, entry_map, G.lt]
  unfold Reach
  constructor
  · intro r
    induction r with
    | refl => exact Relation.ReflTransGen.refl
    | tail _ e ih => exact Relation.ReflTransGen.tail ih ((thr _ _).mp e)
  · intro r
    induction r with
    | refl => exact Relation.ReflTransGen.refl
    | tail _ e ih => exact Relation.ReflTransGen.tail ih ((thr _ _).mpr e)

/-- Observation sets do not look at heights. -/
theorem leaves_mapHeights (g : α → β) (n : Nat) (steps : List (Step α)) (fuel l : Nat) :
    leaves n (steps.map (mapStep g)) fuel l = leaves n steps fuel l := by
  induction fuel generalizing l with
  | zero => simp [leaves]
  | succ f ih =>
    unfold leaves
    by_cases hl : l < n
    · simp [hl]
    · simp only [hl, if_false, List.getElem?_map]
      cases steps[l - n]? with
      | none => rfl
      | some s => simp only [Option.map_some, mapStep_c1, mapStep_c2, ih]

theorem sameCluster_map {g : α → β} (G : OrdHom g) (n : Nat) (steps : List (Step α)) (h : α)
    (u v : Nat) :
    SameCluster n (steps.map (mapStep g)) (g h) u v ↔ SameCluster n steps h u v := by
  unfold SameCluster
  constructor
  · rintro (e | ⟨k, st', hk, hlt, hu, hv⟩)
    · exact Or.inl e
    · rw [List.getElem?_map] at hk
      cases hs : steps[k]? with
      | none => rw [hs] at hk; cases hk
      | some st =>
        rw [hs] at hk
        simp only [Option.map_some, Option.some.injEq] at hk
        subst hk
        rw [mapStep_d, G.lt] at hlt
        rw [List.length_map, leaves_mapHeights] at hu hv
        exact Or.inr ⟨k, st, hs, hlt, hu, hv⟩
  · rintro (e | ⟨k, st, hk, hlt, hu, hv⟩)
    · exact Or.inl e
    · refine Or.inr ⟨k, mapStep g st, by rw [List.getElem?_map, hk]; rfl, ?_, ?_, ?_⟩
      · rw [mapStep_d, G.lt]; exact hlt
      · rw [List.length_map, leaves_mapHeights]; exact hu
      · rw [List.length_map, leaves_mapHeights]; exact hv

end Transfer

/-! ## `nnchain_with(.., Single, ..)` without trichotomy -/

/-- **C04 for `nnchain_with(Single)`, no `LtTrichotomy`.** -/
theorem C04_nnchain_single_noTri (L : OrderLaws α) (hnan : ∀ x : α, Num.isNaN x = false) (B : BeqOrd α)
    (chk : Bool) (st : State α) (d : Dendrogram α)
    (data : Array α) (n : Nat) (h2 : 2 ≤ n) (hs : n < 2147483648)
    (hl : 2 * data.size = n * (n - 1)) :
    ∃ st' d' M', nnchainWith chk .single st d data n = .ok (st', d', M') ∧
      ∀ (h : α) (u v : Nat), u < n →
        (SameCluster n d'.steps.toList h u v ↔ Reach n data h u v) := by
  letI : Num (OrdQ L hnan) := ordQNum L hnan
  have G := ordQ_ordHom L hnan B
  have hl' : 2 * (data.map (OrdQ.mk L hnan)).size = n * (n - 1) := by rw [Array.size_map]; exact hl
  -- the theorem on the quotient
  obtain ⟨stq, dq, Mq, hrq, hq⟩ := C04_nnchain_single (ordQ_orderLaws L hnan) (ordQ_trichotomy L hnan)
    (ordQ_noNaN L hnan) chk (State.new) (Dendrogram.new 0) (data.map (OrdQ.mk L hnan)) n h2 hs hl'
  -- naturality: the run on α returns, and its dendrogram projects onto `dq`
  have nat := C10 G (m := .single) (Or.inl rfl) chk .nnchain (fun h => by cases h) (fun h => by cases h)
    st State.new d (Dendrogram.new 0) data n
  have hrq' : runWith chk .nnchain .single State.new (Dendrogram.new 0)
      (data.map (OrdQ.mk L hnan)) n = .ok (stq, dq, Mq) := hrq
  rw [hrq'] at nat
  cases hr : runWith chk .nnchain .single st d data n with
  | error p => rw [hr] at nat; cases nat
  | ok r =>
    rw [hr] at nat
    obtain ⟨st', d', M'⟩ := r
    have hd : dq = mapDend (OrdQ.mk L hnan) d' := by
      simp only [Functor.map, Except.map, out, mapOut, Except.ok.injEq, Prod.mk.injEq] at nat
      exact nat.1
    refine ⟨st', d', M', hr, fun h u v hu => ?_⟩
    have := hq (OrdQ.mk L hnan h) u v hu
    rw [hd] at this
    have e : (mapDend (OrdQ.mk L hnan) d').steps.toList = d'.steps.toList.map (mapStep (OrdQ.mk L hnan)) := by
      simp [mapDend]
    rw [e, sameCluster_map G, reach_map G rfl] at this
    exact this

/-! ## The counting form (heights sorted; #steps ≤ h = n − #components) without trichotomy -/

section Count
variable {β : Type} [Num β]

theorem pairwise_sorted_map {g : α → β} (G : OrdHom g) (steps : List (Step α)) :
    (steps.map (mapStep g)).Pairwise (fun s t => Num.lt t.d s.d = false) ↔
      steps.Pairwise (fun s t => Num.lt t.d s.d = false) := by
  rw [List.pairwise_map]
  simp only [mapStep_d, G.lt]

theorem filter_le_map {g : α → β} (G : OrdHom g) (steps : List (Step α)) (h : α) :
    ((steps.map (mapStep g)).filter (fun st => !Num.lt (g h) st.d)).length =
      (steps.filter (fun st => !Num.lt h st.d)).length := by
  rw [List.filter_map, List.length_map]
  congr 2
  funext st
  simp only [Function.comp, mapStep_d, G.lt]

end Count

/-- **Counting form for `nnchain_with(Single)`, no `LtTrichotomy`**: the returned heights are
non-decreasing and for every level `h` the number of steps of height `≤ h` is `n` minus the number of
connected components of the threshold graph at `h` (the MST weight multiset, order-theoretically). -/
theorem C04_nnchain_single_count_noTri (L : OrderLaws α) (hnan : ∀ x : α, Num.isNaN x = false)
    (B : BeqOrd α) (chk : Bool) (st : State α) (d : Dendrogram α)
    (data : Array α) (n : Nat) (h2 : 2 ≤ n) (hs : n < 2147483648)
    (hl : 2 * data.size = n * (n - 1)) :
    ∃ st' d' M', nnchainWith chk .single st d data n = .ok (st', d', M') ∧
      d'.steps.toList.Pairwise (fun s t => Num.lt t.d s.d = false) ∧
      ∀ h : α, ∃ reps : List Nat,
        (d'.steps.toList.filter (fun st => !Num.lt h st.d)).length + reps.length = n ∧
        (∀ r ∈ reps, r < n) ∧
        reps.Pairwise (fun r r' => ¬ Reach n data h r r') ∧
        (∀ u, u < n → ∃ r ∈ reps, Reach n data h u r) := by
  letI : Num (OrdQ L hnan) := ordQNum L hnan
  have G := ordQ_ordHom L hnan B
  have hl' : 2 * (data.map (OrdQ.mk L hnan)).size = n * (n - 1) := by rw [Array.size_map]; exact hl
  obtain ⟨stq, dq, Mq, hrq, hsorted, hcount⟩ := C04_nnchain_single_count (ordQ_orderLaws L hnan)
    (ordQ_trichotomy L hnan) (ordQ_noNaN L hnan) chk (State.new) (Dendrogram.new 0)
    (data.map (OrdQ.mk L hnan)) n h2 hs hl'
  have nat := C10 G (m := .single) (Or.inl rfl) chk .nnchain (fun h => by cases h) (fun h => by cases h)
    st State.new d (Dendrogram.new 0) data n
  have hrq' : runWith chk .nnchain .single State.new (Dendrogram.new 0)
      (data.map (OrdQ.mk L hnan)) n = .ok (stq, dq, Mq) := hrq
  rw [hrq'] at nat
  cases hr : runWith chk .nnchain .single st d data n with
  | error p => rw [hr] at nat; cases nat
  | ok r =>
    rw [hr] at nat
    obtain ⟨st', d', M'⟩ := r
    have hd : dq = mapDend (OrdQ.mk L hnan) d' := by
      simp only [Functor.map, Except.map, out, mapOut, Except.ok.injEq, Prod.mk.injEq] at nat
      exact nat.1
    have e : dq.steps.toList = d'.steps.toList.map (mapStep (OrdQ.mk L hnan)) := by
      rw [hd]; simp [mapDend]
    refine ⟨st', d', M', hr, ?_, fun h => ?_⟩
    · rw [e] at hsorted
      exact (pairwise_sorted_map G _).mp hsorted
    · obtain ⟨reps, h1, h2', h3, h4⟩ := hcount (OrdQ.mk L hnan h)
      rw [e, filter_le_map G] at h1
      refine ⟨reps, h1, h2', ?_, ?_⟩
      · exact h3.imp (fun hne hr' => hne ((reach_map G rfl n data h _ _).mpr hr'))
      · intro u hu
        obtain ⟨r, hr1, hr2⟩ := h4 u hu
        exact ⟨r, hr1, (reach_map G rfl n data h u r).mp hr2⟩


/-! ## `generic_with(.., Single, ..)` without trichotomy -/

theorem ordQ_beqLe (L : OrderLaws α) (hnan : ∀ x : α, Num.isNaN x = false) :
    @BeqLe (OrdQ L hnan) (ordQNum L hnan) := by
  intro x y h
  change (!OrdQ.lt L hnan x y && !OrdQ.lt L hnan y x) = true at h
  simp only [Bool.and_eq_true, Bool.not_eq_true'] at h
  exact h.2

/-- On the quotient: the classes strictly below the class of `T::max_value()`. -/
def ordQGood (L : OrderLaws α) (hnan : ∀ x : α, Num.isNaN x = false) (x : OrdQ L hnan) : Prop :=
  @Num.lt _ (ordQNum L hnan) x (@Num.maxValue _ (ordQNum L hnan)) = true

theorem ordQ_goodSet (L : OrderLaws α) (hnan : ∀ x : α, Num.isNaN x = false) :
    @GoodSet (OrdQ L hnan) (ordQNum L hnan) (ordQGood L hnan) := by
  refine @GoodSet.mk _ (ordQNum L hnan) _ (fun _ _ => rfl) (fun _ h => h) (fun v _ => ?_)
  induction v using Quotient.ind with | _ a =>
  have : Num.lt a a = false := by
    cases h : Num.lt a a
    · rfl
    · have := L.asymm a a h; rw [h] at this; cases this
  show (!Num.lt a a && !Num.lt a a) = true
  rw [this]; rfl

/-- **C04 for `generic_with(Single)`, no `LtTrichotomy`**: every entry strictly below `T::max_value()`
(what `generic_with` needs to run at all), `==` order-equivalence. -/
theorem C04_generic_single_noTri (L : OrderLaws α) (hnan : ∀ x : α, Num.isNaN x = false)
    (B : BeqOrd α) (chk : Bool) (st : State α) (d : Dendrogram α)
    (data : Array α) (n : Nat) (h2 : 2 ≤ n) (hs : n < 2147483648)
    (hl : 2 * data.size = n * (n - 1))
    (hin : ∀ i (h : i < data.size), Num.lt data[i] (Num.maxValue : α) = true) :
    ∃ st' d' M', genericWith chk .single st d data n = .ok (st', d', M') ∧
      ∀ (h : α) (u v : Nat), u < n →
        (SameCluster n d'.steps.toList h u v ↔ Reach n data h u v) := by
  letI : Num (OrdQ L hnan) := ordQNum L hnan
  have G := ordQ_ordHom L hnan B
  have hl' : 2 * (data.map (OrdQ.mk L hnan)).size = n * (n - 1) := by rw [Array.size_map]; exact hl
  have hsq : squareData Method.single (data.map (OrdQ.mk L hnan)) = data.map (OrdQ.mk L hnan) := by
    simp [squareData, Method.onSquares]
  obtain ⟨stq, dq, Mq, hrq, hq⟩ := C04_generic_single (ordQ_orderLaws L hnan) (ordQ_trichotomy L hnan)
    (ordQ_beqLe L hnan) (ordQ_goodSet L hnan) chk rfl (State.new) (Dendrogram.new 0)
    (data.map (OrdQ.mk L hnan)) n h2 hs hl' (by
      rw [hsq]
      intro i hi
      have hi' : i < data.size := by simpa using hi
      simp only [Array.getElem_map]
      exact hin i hi')
  have nat := C10 G (m := .single) (Or.inl rfl) chk .generic
    (fun _ => SentinelSafe.of_fix G rfl) (fun h => by cases h)
    st State.new d (Dendrogram.new 0) data n
  have hrq' : runWith chk .generic .single State.new (Dendrogram.new 0)
      (data.map (OrdQ.mk L hnan)) n = .ok (stq, dq, Mq) := hrq
  rw [hrq'] at nat
  cases hr : runWith chk .generic .single st d data n with
  | error p => rw [hr] at nat; cases nat
  | ok r =>
    rw [hr] at nat
    obtain ⟨st', d', M'⟩ := r
    have hd : dq = mapDend (OrdQ.mk L hnan) d' := by
      simp only [Functor.map, Except.map, out, mapOut, Except.ok.injEq, Prod.mk.injEq] at nat
      exact nat.1
    refine ⟨st', d', M', hr, fun h u v hu => ?_⟩
    have := hq (OrdQ.mk L hnan h) u v hu
    rw [hd] at this
    have e : (mapDend (OrdQ.mk L hnan) d').steps.toList = d'.steps.toList.map (mapStep (OrdQ.mk L hnan)) := by
      simp [mapDend]
    rw [e, sameCluster_map G, reach_map G rfl] at this
    exact this

/-- **Counting form for `generic_with(Single)`, no `LtTrichotomy`.** -/
theorem C04_generic_single_count_noTri (L : OrderLaws α) (hnan : ∀ x : α, Num.isNaN x = false)
    (B : BeqOrd α) (chk : Bool) (st : State α) (d : Dendrogram α)
    (data : Array α) (n : Nat) (h2 : 2 ≤ n) (hs : n < 2147483648)
    (hl : 2 * data.size = n * (n - 1))
    (hin : ∀ i (h : i < data.size), Num.lt data[i] (Num.maxValue : α) = true) :
    ∃ st' d' M', genericWith chk .single st d data n = .ok (st', d', M') ∧
      d'.steps.toList.Pairwise (fun s t => Num.lt t.d s.d = false) ∧
      ∀ h : α, ∃ reps : List Nat,
        (d'.steps.toList.filter (fun st => !Num.lt h st.d)).length + reps.length = n ∧
        (∀ r ∈ reps, r < n) ∧
        reps.Pairwise (fun r r' => ¬ Reach n data h r r') ∧
        (∀ u, u < n → ∃ r ∈ reps, Reach n data h u r) := by
  letI : Num (OrdQ L hnan) := ordQNum L hnan
  have G := ordQ_ordHom L hnan B
  have hl' : 2 * (data.map (OrdQ.mk L hnan)).size = n * (n - 1) := by rw [Array.size_map]; exact hl
  have hsq : squareData Method.single (data.map (OrdQ.mk L hnan)) = data.map (OrdQ.mk L hnan) := by
    simp [squareData, Method.onSquares]
  obtain ⟨stq, dq, Mq, hrq, hsorted, hcount⟩ := C04_generic_single_count (ordQ_orderLaws L hnan)
    (ordQ_trichotomy L hnan) (ordQ_beqLe L hnan) (ordQ_goodSet L hnan) chk rfl (State.new)
    (Dendrogram.new 0) (data.map (OrdQ.mk L hnan)) n h2 hs hl' (by
      rw [hsq]
      intro i hi
      have hi' : i < data.size := by simpa using hi
      simp only [Array.getElem_map]
      exact hin i hi')
  have nat := C10 G (m := .single) (Or.inl rfl) chk .generic
    (fun _ => SentinelSafe.of_fix G rfl) (fun h => by cases h)
    st State.new d (Dendrogram.new 0) data n
  have hrq' : runWith chk .generic .single State.new (Dendrogram.new 0)
      (data.map (OrdQ.mk L hnan)) n = .ok (stq, dq, Mq) := hrq
  rw [hrq'] at nat
  cases hr : runWith chk .generic .single st d data n with
  | error p => rw [hr] at nat; cases nat
  | ok r =>
    rw [hr] at nat
    obtain ⟨st', d', M'⟩ := r
    have hd : dq = mapDend (OrdQ.mk L hnan) d' := by
      simp only [Functor.map, Except.map, out, mapOut, Except.ok.injEq, Prod.mk.injEq] at nat
      exact nat.1
    have e : dq.steps.toList = d'.steps.toList.map (mapStep (OrdQ.mk L hnan)) := by
      rw [hd]; simp [mapDend]
    refine ⟨st', d', M', hr, ?_, fun h => ?_⟩
    · rw [e] at hsorted
      exact (pairwise_sorted_map G _).mp hsorted
    · obtain ⟨reps, h1, h2', h3, h4⟩ := hcount (OrdQ.mk L hnan h)
      rw [e, filter_le_map G] at h1
      refine ⟨reps, h1, h2', ?_, ?_⟩
      · exact h3.imp (fun hne hr' => hne ((reach_map G rfl n data h _ _).mpr hr'))
      · intro u hu
        obtain ⟨r, hr1, hr2⟩ := h4 u hu
        exact ⟨r, hr1, (reach_map G rfl n data h u r).mp hr2⟩

/-- **Single linkage cuts identically through `nnchain_with` and `generic_with` at every level, `±0`
included** (both are the threshold components). -/
theorem C04_nnchain_generic_same_cuts_noTri (L : OrderLaws α) (hnan : ∀ x : α, Num.isNaN x = false)
    (B : BeqOrd α) (chk₁ chk₂ : Bool) (st₁ st₂ : State α) (d₁ d₂ : Dendrogram α)
    (data : Array α) (n : Nat) (h2 : 2 ≤ n) (hs : n < 2147483648)
    (hl : 2 * data.size = n * (n - 1))
    (hin : ∀ i (h : i < data.size), Num.lt data[i] (Num.maxValue : α) = true) :
    ∃ s₁ e₁ M₁ s₂ e₂ M₂,
      nnchainWith chk₁ .single st₁ d₁ data n = .ok (s₁, e₁, M₁) ∧
      genericWith chk₂ .single st₂ d₂ data n = .ok (s₂, e₂, M₂) ∧
      ∀ (h : α) (u v : Nat), u < n →
        (SameCluster n e₁.steps.toList h u v ↔ SameCluster n e₂.steps.toList h u v) := by
  obtain ⟨s₁, e₁, M₁, r₁, h₁⟩ := C04_nnchain_single_noTri L hnan B chk₁ st₁ d₁ data n h2 hs hl
  obtain ⟨s₂, e₂, M₂, r₂, h₂⟩ := C04_generic_single_noTri L hnan B chk₂ st₂ d₂ data n h2 hs hl hin
  exact ⟨s₁, e₁, M₁, s₂, e₂, M₂, r₁, r₂, fun h u v hu => (h₁ h u v hu).trans (h₂ h u v hu).symm⟩

/-! ## Non-vacuity: a number type with two order-equivalent zeros -/

section Example

/-- Naturals with a sign bit that the comparison ignores: `(0, true)` and `(0, false)` play `−0`, `+0`. -/
@[reducible] def Toy.signedNum : Num (Nat × Bool) where
  lt a b := decide (a.1 < b.1)
  beq a b := decide (a.1 = b.1)
  add a b := (a.1 + b.1, a.2)
  sub a b := (a.1 - b.1, a.2)
  mul a b := (a.1 * b.1, a.2)
  div a b := (a.1 / b.1, a.2)
  ofNat k := (k, false)
  half := (0, false)
  quarter := (0, false)
  sqrt a := a
  abs a := (a.1, false)
  maxValue := (1000000, false)
  infinity := (1000000, false)
  isNaN _ := false

attribute [local instance] Toy.signedNum

theorem Toy.signedOrderLaws : OrderLaws (Nat × Bool) := by
  refine ⟨?_, ?_⟩
  · intro a b h
    change decide (a.1 < b.1) = true at h
    change decide (b.1 < a.1) = false
    simp only [decide_eq_true_eq, decide_eq_false_iff_not] at h ⊢
    omega
  · intro a b c _ h
    change decide (a.1 < c.1) = true at h
    change decide (a.1 < b.1) = true ∨ decide (b.1 < c.1) = true
    simp only [decide_eq_true_eq] at h ⊢
    omega

theorem Toy.signedBeqOrd : BeqOrd (Nat × Bool) := by
  intro a b
  change decide (a.1 = b.1) = (!decide (a.1 < b.1) && !decide (b.1 < a.1))
  by_cases h1 : a.1 < b.1 <;> by_cases h2 : b.1 < a.1 <;> by_cases h3 : a.1 = b.1 <;>
    simp [h1, h2, h3] <;> omega

/-- Trichotomy FAILS on this type … -/
example : ¬ LtTrichotomy (Nat × Bool) := by
  intro T
  have := T (0, true) (0, false) rfl rfl
  cases this

/-- … and the theorems apply: a matrix holding both zeros (`d01 = −0`, `d02 = +0`, `d12 = 1`). -/
example : ∃ st' d' M',
    nnchainWith true .single State.new (Dendrogram.new 0)
      (#[(0, true), (0, false), (1, false)] : Array (Nat × Bool)) 3 = .ok (st', d', M') ∧
    ∀ (h : Nat × Bool) (u v : Nat), u < 3 →
      (SameCluster 3 d'.steps.toList h u v ↔
        Reach 3 (#[(0, true), (0, false), (1, false)] : Array (Nat × Bool)) h u v) :=
  C04_nnchain_single_noTri Toy.signedOrderLaws (fun _ => rfl) Toy.signedBeqOrd true State.new
    (Dendrogram.new 0) _ 3 (by decide) (by decide) (by decide)

end Example

end Kodama
