/-
C12 — total and terminating on the valid domain; outputs finite.

Model: every `assert!`, `debug_assert!`, `unwrap/expect`, slice index, usize overflow (checked
builds) and every potentially unbounded Rust loop (fuel) is a `Panic` constructor; "returns
normally" is `= .ok _`.

Proved here:
* `C12_empty`          n ≤ 1 with an empty matrix: every entry point, method, build mode and prior
                       state returns normally with an EMPTY dendrogram.
* `C12_mst_total`, `C12_primitive_total`  for every valid matrix (2 ≤ n < 2^31), both build modes,
                       every prior state, all methods (primitive) and ANY behaviour of the number
                       operations: the call either returns normally or stops in the ONE documented
                       panic "NaNs not allowed in dendrogram" (a NaN height reaching the sort).
                       No index out of bounds, no failed (debug) assertion, no `unwrap` on `None`,
                       no usize overflow, no exhausted fuel is reachable.  With non-NaN heights the
                       call returns normally (`relabel_total`).
* `C12_mst_loop_total` for every valid matrix (2 ≤ n < 2^31), both build modes, every prior state
                       and — crucially — ANY behaviour of the comparisons (no law about `<` is
                       assumed, so NaN, ties, ±0, ∞ are all covered): the whole main loop of
                       `mst_with` (shape guard, resets, n-1 Prim iterations with their index
                       computations, `merge`, `push`, active-list removal) never panics, and
                       `mst_with` IS that loop followed by `relabel`.
  The heap used by `generic` is proved panic-free, fuel-sufficient and order-preserving on its own
  (`Lemmas/HeapInv*.lean`); the composition with `generic_with` is not done yet.

NOT proved: finiteness / non-NaN-ness / non-negativity of heights under IEEE rounding in the safe
magnitude range (a float-range fact: no usable IEEE formalisation in Mathlib v4.33); termination
and panic-freedom of nnchain and generic were open when this header was written (they need the chain
/ heap invariants; fuel exhaustion is `Panic.fuel` in the model, so a hang of the real code shows up
as a model/implementation difference or as the harness watchdog firing) — they are now proved under
explicit hypotheses in the sections appended at the end of this file (`C12_generic_*`;
`C12_nnchain_*`: unconditional beyond `OrderLaws` + NaN-free input for single/complete, under the
named hypothesis `ChainReducible` for average/weighted/Ward, which is FALSE for IEEE floats for
the unguarded weighted and, since the two `fix:` commits, a theorem for average and for Ward:
`Props/C12Average.lean`, `Props/C12Ward.lean`).  These are covered by the correspondence run in BOTH
build profiles (dev: debug assertions + overflow checks; release) and by the oracle (finite,
non-negative, returns within a polynomial watchdog) on tie-saturated, all-zero, negative, 1e±150,
duplicate-point and collinear inputs.
-/
import Kodama.Lemmas.MstRun
import Kodama.Lemmas.Tail
import Kodama.Lemmas.PrimRun
import Kodama.Lemmas.GenericRun
import Kodama.Lemmas.GenericExample
import Kodama.Lemmas.RelabelWF
import Kodama.Lemmas.ChainRun
import Kodama.Lemmas.ChainExact
import Kodama.Lemmas.SpecDecide
namespace Kodama
variable {α : Type} [Num α]

theorem C12_empty (chk : Bool) (alg : Alg) (m : Method) (hacc : alg.accepts m = true)
    (st : State α) (d : Dendrogram α) (n : Nat) (hn : n ≤ 1) :
    ∃ st' M', runWith chk alg m st d (#[] : Array α) n = .ok (st', ⟨#[], 0⟩, M') := by
  have hsq : ∀ m' : Method, squareData m' (#[] : Array α) = #[] := by
    intro m'; unfold squareData; split <;> simp
  have hnew : Mat.new chk (#[] : Array α) n = .ok { data := #[], n := 0, acc := 0 } := by
    simp [Mat.new, Gen.shapeM, guard', hn, bind, Except.bind, pure, Except.pure]
  have hres : d.reset 0 = ⟨#[], 0⟩ := by rw [dendrogramReset_eq]; rfl
  have hP : ∀ m', ∃ st' M', primitiveWith chk m' st d (#[] : Array α) n = .ok (st', ⟨#[], 0⟩, M') := by
    intro m'; unfold primitiveWith
    simp only [hsq, hnew, bind, Except.bind, if_true, hres]; exact ⟨_, _, rfl⟩
  have hG : ∀ m', ∃ st' M', genericWith chk m' st d (#[] : Array α) n = .ok (st', ⟨#[], 0⟩, M') := by
    intro m'; unfold genericWith
    simp only [hsq, hnew, bind, Except.bind, if_true, hres]; exact ⟨_, _, rfl⟩
  have hM : ∃ st' M', mstWith chk st d (#[] : Array α) n = .ok (st', ⟨#[], 0⟩, M') := by
    unfold mstWith
    simp only [hnew, bind, Except.bind, if_true, hres]; exact ⟨_, _, rfl⟩
  have hC : ∀ mc, ∃ st' M', nnchainWith chk mc st d (#[] : Array α) n = .ok (st', ⟨#[], 0⟩, M') := by
    intro mc; unfold nnchainWith
    simp only [hsq, hnew, bind, Except.bind, if_true, hres]; exact ⟨_, _, rfl⟩
  cases alg <;> simp only [runWith]
  · exact hP m
  · cases hm : m.intoMethodChain with
    | none => simp [Alg.accepts, hm] at hacc
    | some mc => exact hC mc
  · exact hG m
  · have : m = .single := by simpa [Alg.accepts] using hacc
    simp only [this, if_true]; exact hM
  · unfold linkageWith
    cases hd : dispatch m with
    | mst => exact hM
    | nnchain =>
      cases hm : m.intoMethodChain with
      | none => cases m <;> simp [dispatch, Method.intoMethodChain] at hd hm
      | some mc => exact hC mc
    | generic => exact hG m
    | primitive => exact hP m
    | linkage => cases m <;> simp [dispatch, Method.intoMethodChain] at hd

/-- The main loop of `mst_with` is total on every valid matrix, whatever the comparisons answer. -/
theorem C12_mst_loop_total (chk : Bool) (st : State α) (d : Dendrogram α) (data : Array α)
    (n : Nat) (h2 : 2 ≤ n) (hs : n < 2147483648) (hl : 2 * data.size = n * (n - 1)) :
    ∃ st1 dend1 M1, MstLoopResult n data st1 dend1 M1 ∧
      mstWith chk st d data n =
        (relabel .single st1.set dend1 >>= fun r => pure ({ st1 with set := r.1 }, r.2, M1)) :=
  mstWith_eq chk st d data n h2 hs hl

/-- On a spanning tree `relabel` either succeeds or stops in the sort's NaN panic. -/
theorem relabel_ok_or_nan (m : Method) (uf0 : UF) (d : Dendrogram α) (n : Nat) (hn : 2 ≤ n)
    (hobs : d.obs = n) (hraw : Spec.RawTree n (rawOf d)) :
    (∃ r, relabel m uf0 d = .ok r) ∨ relabel m uf0 d = .error .nanInSort := by
  by_cases hm : m.requiresSorting = true
  · by_cases hnan : d.steps.size ≥ 2 ∧ d.steps.any (fun s => Num.isNaN s.d) = true
    · right
      unfold relabel
      simp only [hm, if_true, sortSteps, hnan, and_self, bind, Except.bind]
    · left
      apply relabel_total m uf0 d n hn hobs hraw
      by_cases hsz : d.steps.size < 2
      · exact Or.inr (Or.inl hsz)
      · right; right
        intro s hs
        have hany : ¬ d.steps.any (fun s => Num.isNaN s.d) = true := fun h => hnan ⟨by omega, h⟩
        simp only [Array.any_eq_true, not_exists, Bool.not_eq_true] at hany
        obtain ⟨i, hi, rfl⟩ := List.getElem_of_mem hs
        simpa using hany i (by simpa using hi)
  · left
    exact relabel_total m uf0 d n hn hobs hraw (Or.inl (by simpa using hm))

theorem C12_mst_total (chk : Bool) (st : State α) (d : Dendrogram α) (data : Array α)
    (n : Nat) (h2 : 2 ≤ n) (hs : n < 2147483648) (hl : 2 * data.size = n * (n - 1)) :
    (∃ r, mstWith chk st d data n = .ok r) ∨ mstWith chk st d data n = .error .nanInSort := by
  obtain ⟨st1, dend1, M1, hres, heq⟩ := mstWith_eq chk st d data n h2 hs hl
  rw [heq]
  rcases relabel_ok_or_nan .single st1.set dend1 n h2 hres.obs hres.raw with ⟨r, hr⟩ | hr
  · left; exact ⟨_, by rw [hr]; rfl⟩
  · right; rw [hr]; rfl

theorem C12_primitive_total (chk : Bool) (m : Method) (st : State α) (d : Dendrogram α)
    (data : Array α) (n : Nat) (h2 : 2 ≤ n) (hs : n < 2147483648)
    (hl : 2 * data.size = n * (n - 1)) :
    (∃ r, primitiveWith chk m st d data n = .ok r) ∨
      primitiveWith chk m st d data n = .error .nanInSort := by
  obtain ⟨st1, dend1, M1, hres, heq⟩ := primitiveWith_eq chk m st d data n h2 hs hl
  rw [heq]
  rcases relabel_ok_or_nan m st1.set dend1 n h2 hres.obs hres.raw with ⟨r, hr⟩ | hr
  · left; exact ⟨_, by rw [hr]; rfl⟩
  · right; rw [hr]; rfl

/-- Non-vacuity: a valid shape. -/
example : (2 : Nat) ≤ 4 ∧ 4 < 2147483648 ∧ 2 * (#[1, 2, 3, 4, 5, 6] : Array Nat).size = 4 * (4 - 1) := by
  decide

end Kodama

/-!
### Appended: `generic_with`

Under the explicit value hypotheses of `Lemmas/GenericInv.lean` (`GoodSet G`, `UpdClosed G m`,
every (squared) input in `G`, `max_value` not NaN, `OrderLaws`):

* `C12_generic_total`  `generic_with` returns normally or stops in the sort's NaN panic — no index
                       out of bounds, failed (debug) assertion, `unwrap` on `None`, usize overflow or
                       exhausted fuel (the lazy repair `loop` terminates within `n + 2` rounds).
* `C12_generic_ok`     … and, since every recorded height is a matrix entry and hence in `G`
                       (not NaN), it in fact always returns normally.
-/
namespace Kodama
variable {α : Type} [Num α]

theorem C12_generic_total {G : α → Prop} (L : OrderLaws α) (gs : GoodSet G) (chk : Bool)
    (m : Method) (hcl : UpdClosed G m) (hmax : Num.isNaN (Num.maxValue : α) = false)
    (st : State α) (d : Dendrogram α) (data : Array α) (n : Nat) (h2 : 2 ≤ n)
    (hs : n < 2147483648) (hl : 2 * data.size = n * (n - 1))
    (hin : ∀ i (h : i < (squareData m data).size), G (squareData m data)[i]) :
    (∃ r, genericWith chk m st d data n = .ok r) ∨
      genericWith chk m st d data n = .error .nanInSort := by
  obtain ⟨st1, dend1, M1, hres, _, heq⟩ :=
    genericWith_eq L gs chk m hcl hmax st d data n h2 hs hl hin
  rw [heq]
  rcases relabel_ok_or_nan m st1.set dend1 n h2 hres.obs hres.raw with ⟨r, hr⟩ | hr
  · left; exact ⟨_, by rw [hr]; rfl⟩
  · right; rw [hr]; rfl

theorem C12_generic_ok {G : α → Prop} (L : OrderLaws α) (gs : GoodSet G) (chk : Bool)
    (m : Method) (hcl : UpdClosed G m) (hmax : Num.isNaN (Num.maxValue : α) = false)
    (st : State α) (d : Dendrogram α) (data : Array α) (n : Nat) (h2 : 2 ≤ n)
    (hs : n < 2147483648) (hl : 2 * data.size = n * (n - 1))
    (hin : ∀ i (h : i < (squareData m data).size), G (squareData m data)[i]) :
    ∃ r, genericWith chk m st d data n = .ok r := by
  obtain ⟨st1, dend1, M1, hres, hdg, heq⟩ :=
    genericWith_eq L gs chk m hcl hmax st d data n h2 hs hl hin
  rw [heq]
  obtain ⟨r, hr⟩ := relabel_total m st1.set dend1 n h2 hres.obs hres.raw
    (Or.inr (Or.inr (fun s hs' => gs.notNaN _ (hdg s hs'))))
  exact ⟨_, by rw [hr]; rfl⟩

end Kodama

/-! Non-vacuity of the `generic_with` hypotheses: on the toy exact number type every method has a
good set closed under its update (`GenericExample.hyps_satisfiable`), and the totality theorem
applies to a concrete 5-point average-linkage run. -/
section GenericNonVacuity
open Kodama Kodama.Spec Kodama.GenericExample
attribute [local instance] Toy.natNum

example : ∃ r, genericWith true .average State.new (Dendrogram.new 0)
    #[3, 1, 4, 1, 5, 9, 2, 6, 5, 3] 5 = .ok r :=
  C12_generic_ok Toy.natOrderLaws goodSet_G true .average closed_average GenericExample.hmax
    State.new (Dendrogram.new 0) _ 5 (by decide) (by decide) (by decide)
    (squareData_good .average _ (by simp [G, Method.onSquares]))

end GenericNonVacuity

/-!
### Appended: `nnchain_with` (chain invariant, `Lemmas/Chain{Mat,Scan,Inv,Iter,Run,Exact}.lean`)

Hypotheses: (i) `OrderLaws α` (`<` is a strict weak order on the non-NaN values; IEEE `<` satisfies
it), (ii) `NoNaNData`: no NaN among the (squared, for Ward) input distances, (iii) the named ALGEBRAIC
hypothesis `ChainReducible α mc` (`Lemmas/ChainIter.lean`): whenever `d(a,b) ≤ t ≤ d(a,x), d(b,x)`
(non-NaN, positive sizes) the Lance–Williams update `d(a∪b,x)` is non-NaN and `≥ t`.

* `C12_nnchain_ok`, `C12_nnchain_total`  `nnchain_with` on every valid matrix (2 ≤ n < 2^31), both
      build modes, every prior state, under (i)–(iii): the call RETURNS NORMALLY — no index out of
      bounds, no failed (debug) assertion, no `unwrap` on `None`, no overflow, the fuel
      `data.size + 2` of the inner `loop` is never exhausted (the chain entries are pairwise distinct
      live clusters, `ChainL`), and no NaN reaches the sort (every height is a matrix entry between
      live clusters).  `C12_nnchain_total` is the same in the "ok or nanInSort" form.
* `C12_nnchain_ok_single_complete`, `C12_nnchain_total_single_complete`  `Single` / `Complete`
      WITHOUT (iii): their update returns one of its arguments (`chainReducible_single/complete`).
* `C12_nnchain_ok_exact`  all five chain methods in exact arithmetic (`FieldLaws K`, no NaN):
      (i) and (iii) are theorems there (`Lemmas/ChainExact.lean`).
* `C12_linkage_ok`  the same through `linkage_with` for the four methods it routes to nnchain.

`ChainReducible` over IEEE floats: weighted: `Props/C12Weighted.lean`, reducible on floats under the
sampled laws `HalfAddLaws`.  For AVERAGE it was false until the `fix:` commit of the crate (clamp of
the mean from below); it is now a theorem for every `OrderLaws α`: `Props/C12Average.lean`
(`C12_nnchain_average_ok/_total`).  For WARD it was false too (rounding broke reducibility in ~11% of
tied updates) until the second `fix:` commit (guarded clamp of the quotient from below); it is now a
theorem for every `OrderLaws α`: `Props/C12Ward.lean` (`C12_nnchain_ward_ok/_total`).
-/
namespace Kodama
variable {α : Type} [Num α]


/-- `nnchain_with` returns normally on every valid NaN-free matrix, for a reducible method. -/
theorem C12_nnchain_ok (L : OrderLaws α) (chk : Bool) (mc : MethodChain) (hred : ChainReducible α mc)
    (st : State α) (d : Dendrogram α) (data : Array α) (n : Nat) (h2 : 2 ≤ n)
    (hs : n < 2147483648) (hl : 2 * data.size = n * (n - 1))
    (hnan : NoNaNData (squareData mc.intoMethod data)) :
    ∃ r, nnchainWith chk mc st d data n = .ok r := by
  obtain ⟨s1, hres, heq⟩ := nnchainWith_eq L chk mc hred st d data n h2 hs hl hnan
  rw [heq]
  obtain ⟨r, hr⟩ := relabel_total mc.intoMethod s1.st.set s1.dend n h2 hres.obs hres.raw
    (Or.inr (Or.inr hres.heights))
  exact ⟨_, by rw [hr]; rfl⟩

/-- The same in the form of `C12_mst_total` / `C12_primitive_total`. -/
theorem C12_nnchain_total (L : OrderLaws α) (chk : Bool) (mc : MethodChain)
    (hred : ChainReducible α mc) (st : State α) (d : Dendrogram α) (data : Array α) (n : Nat)
    (h2 : 2 ≤ n) (hs : n < 2147483648) (hl : 2 * data.size = n * (n - 1))
    (hnan : NoNaNData (squareData mc.intoMethod data)) :
    (∃ r, nnchainWith chk mc st d data n = .ok r) ∨
      nnchainWith chk mc st d data n = .error .nanInSort :=
  Or.inl (C12_nnchain_ok L chk mc hred st d data n h2 hs hl hnan)

theorem chainReducible_single_complete (mc : MethodChain) (hmc : mc = .single ∨ mc = .complete) :
    ChainReducible α mc := by
  rcases hmc with rfl | rfl
  · exact chainReducible_single
  · exact chainReducible_complete

theorem squareData_single_complete (mc : MethodChain) (hmc : mc = .single ∨ mc = .complete)
    (data : Array α) : squareData mc.intoMethod data = data := by
  rcases hmc with rfl | rfl <;> simp [squareData, MethodChain.intoMethod, Method.onSquares]

/-- Single and complete linkage: no reducibility hypothesis. -/
theorem C12_nnchain_ok_single_complete (L : OrderLaws α) (chk : Bool) (mc : MethodChain)
    (hmc : mc = .single ∨ mc = .complete) (st : State α) (d : Dendrogram α) (data : Array α)
    (n : Nat) (h2 : 2 ≤ n) (hs : n < 2147483648) (hl : 2 * data.size = n * (n - 1))
    (hnan : NoNaNData data) :
    ∃ r, nnchainWith chk mc st d data n = .ok r :=
  C12_nnchain_ok L chk mc (chainReducible_single_complete mc hmc) st d data n h2 hs hl
    (by rw [squareData_single_complete mc hmc]; exact hnan)

theorem C12_nnchain_total_single_complete (L : OrderLaws α) (chk : Bool) (mc : MethodChain)
    (hmc : mc = .single ∨ mc = .complete) (st : State α) (d : Dendrogram α) (data : Array α)
    (n : Nat) (h2 : 2 ≤ n) (hs : n < 2147483648) (hl : 2 * data.size = n * (n - 1))
    (hnan : NoNaNData data) :
    (∃ r, nnchainWith chk mc st d data n = .ok r) ∨
      nnchainWith chk mc st d data n = .error .nanInSort :=
  Or.inl (C12_nnchain_ok_single_complete L chk mc hmc st d data n h2 hs hl hnan)

/-- All five chain methods in exact arithmetic (a linearly ordered field without NaN). -/
theorem C12_nnchain_ok_exact {K : Type} [Field K] [LinearOrder K] [IsStrictOrderedRing K] [Num K]
    (F : FieldLaws K) (hnn : ∀ x : K, Num.isNaN x = false) (chk : Bool) (mc : MethodChain)
    (st : State K) (d : Dendrogram K) (data : Array K) (n : Nat) (h2 : 2 ≤ n)
    (hs : n < 2147483648) (hl : 2 * data.size = n * (n - 1)) :
    ∃ r, nnchainWith chk mc st d data n = .ok r :=
  C12_nnchain_ok (orderLaws_of_fieldLaws F) chk mc (chainReducible_exact F hnn mc) st d data n h2 hs hl
    (fun _ _ => hnn _)

/-- `linkage_with` routes complete / average / weighted / Ward to `nnchain_with`. -/
theorem linkageWith_nnchain (chk : Bool) (m : Method) (mc : MethodChain) (hm : m ≠ .single)
    (hmc : m.intoMethodChain = some mc) (st : State α) (d : Dendrogram α) (data : Array α)
    (n : Nat) : linkageWith chk m st d data n = nnchainWith chk mc st d data n := by
  unfold linkageWith dispatch
  simp [hm, hmc]

theorem C12_linkage_ok (L : OrderLaws α) (chk : Bool) (m : Method) (mc : MethodChain)
    (hm : m ≠ .single) (hmc : m.intoMethodChain = some mc) (hred : ChainReducible α mc)
    (st : State α) (d : Dendrogram α) (data : Array α) (n : Nat) (h2 : 2 ≤ n)
    (hs : n < 2147483648) (hl : 2 * data.size = n * (n - 1))
    (hnan : NoNaNData (squareData mc.intoMethod data)) :
    ∃ r, linkageWith chk m st d data n = .ok r := by
  rw [linkageWith_nnchain chk m mc hm hmc]
  exact C12_nnchain_ok L chk mc hred st d data n h2 hs hl hnan

/-! Non-vacuity: the hypotheses of the nnchain theorems are satisfiable — a toy exact number type,
a valid 4-point matrix, and the theorem applied to it. -/
section NonVacuity
open Spec
attribute [local instance] Toy.natNum

example : ∃ r, nnchainWith true .complete State.new (Dendrogram.new 4)
    (#[5, 2, 9, 7, 4, 1] : Array Nat) 4 = .ok r :=
  C12_nnchain_ok_single_complete Toy.natOrderLaws true .complete (Or.inr rfl) _ _ _ 4
    (by decide) (by decide) (by decide) (fun _ _ => rfl)

/-- `ChainReducible` is satisfiable beyond single/complete: the toy `Nat` average (floor division,
clamped from below as in the repaired `method::average`); see `Props/C12Average.lean`. -/
example : ChainReducible Nat .average :=
  chainReducible_average Toy.natOrderLaws (fun _ _ _ _ _ _ _ _ _ _ _ _ _ _ _ _ => rfl)

end NonVacuity

end Kodama
