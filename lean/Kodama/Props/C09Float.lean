/-
C09 / C10 (tie to src/float.rs) — the number operations the crate uses ARE the IEEE operations the model's
`Num Float` / `Num Float32` instances use, and nothing else.

`Generated/FloatImpl.lean` is re-emitted from src/float.rs on every run: the supertraits of `trait Float`
(the only operators generic code may apply to a `T`) and, for `f32` and `f64`, every method of the `impl`
with its body.  The theorems below pin that table to the one the model mirrors:

| Rust (float.rs)                       | model (`Kodama/Num.lean`)                                   |
|---------------------------------------|-------------------------------------------------------------|
| `+ - * /`, `<` (`PartialOrd`), `==`    | `Float(32).add/sub/mul/div`, `<`, `==` (native IEEE)         |
| `v as fN`                              | `Float(32).ofNat`                                           |
| `from_float(0.5 / 0.25)`               | `half`, `quarter` (exact in both widths)                     |
| `fN::INFINITY`, `fN::MAX`              | `infinity`, `maxValue` (bit patterns `0x7FF0…`, `0x7FEF…F`)   |
| `fN::sqrt`, `fN::abs`                  | `Float(32).sqrt`, `.abs`                                    |

* `C09_float_impl`         the fourteen method bodies are exactly these library calls — no literal, no
  epsilon, no clamping, no width mix-up (`f32::MAX` in the `f64` impl was a seeded change, C09-2);
* `C09_float_supertraits`  generic code can use `+ - * /`, comparison and equality on `T`, nothing more.

A change to float.rs makes one of the two `decide`s fail: the check then searches with the C09/C10/C12
oracles (scaling, monotone maps, finiteness) for an input on which the real crate misbehaves.
-/
import Kodama.Generated.FloatImpl
namespace Kodama

theorem C09_float_impl : Gen.floatImpls = [
    ("f32", "from_usize", "v: usize -> f32", "v as f32"),
    ("f32", "from_float", "v: F -> f32", "v.to_f64() as f32"),
    ("f32", "to_f64", "self -> f64", "self as f64"),
    ("f32", "infinity", " -> f32", "f32::INFINITY"),
    ("f32", "max_value", " -> f32", "f32::MAX"),
    ("f32", "sqrt", "self -> f32", "f32::sqrt(self)"),
    ("f32", "abs", "self -> f32", "f32::abs(self)"),
    ("f64", "from_usize", "v: usize -> f64", "v as f64"),
    ("f64", "from_float", "v: F -> f64", "v.to_f64()"),
    ("f64", "to_f64", "self -> f64", "self"),
    ("f64", "infinity", " -> f64", "f64::INFINITY"),
    ("f64", "max_value", " -> f64", "f64::MAX"),
    ("f64", "sqrt", "self -> f64", "f64::sqrt(self)"),
    ("f64", "abs", "self -> f64", "f64::abs(self)")] := by decide

theorem C09_float_supertraits : Gen.floatSupertraits =
    ["self::private::Sealed", "Copy", "Clone", "PartialEq", "PartialOrd", "Add<Self,Output=Self>",
      "Sub<Self,Output=Self>", "Div<Self,Output=Self>", "Mul<Self,Output=Self>"] := by decide

end Kodama
