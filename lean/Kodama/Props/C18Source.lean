/-
C18 (tie to the source) — fingerprints of the hand-modelled functions this property's theorems are about.

The model of these functions is written by hand and tied to the crate by the bit-exact correspondence
run, which is bounded by the sizes it generates.  `Generated/Bodies.lean` is re-emitted from /repo on
every run with a fingerprint of each function's NORMALISED body (comments, attributes, cfg(test) items
and whitespace removed; parameters and local bindings alpha-renamed; tools/extract_bodies.py); each
theorem below pins the fingerprint of the text the model was written against.  A theorem that no longer
checks names the function that was edited: the model may no longer describe it (for instance on sizes the
correspondence run does not reach), and `check` searches for a failing input.  Written by
tools/mk_source_snapshot.py — by hand, after the model has been brought up to date, never by a check.
-/
import Kodama.Generated.Bodies
namespace Kodama

theorem C18_source_locations_parse_csv : Gen.bodyHash "locations.rs::parse_csv" = some 1144687331912683259 := by decide
theorem C18_source_locations_haversine : Gen.bodyHash "locations.rs::haversine" = some 821127512965112566 := by decide
theorem C18_source_locations_condensed_distance_matrix : Gen.bodyHash "locations.rs::condensed_distance_matrix" = some 17542018274466823 := by decide
theorem C18_source_locations_run : Gen.bodyHash "locations.rs::run" = some 1002521549618140644 := by decide
theorem C18_source_locations_main : Gen.bodyHash "locations.rs::main" = some 310570631244868488 := by decide
theorem C18_source_locations_vec_f64_from_file : Gen.bodyHash "locations.rs::vec_f64_from_file" = some 894567470244353663 := by decide
theorem C18_source_locations_vec_f64_to_file : Gen.bodyHash "locations.rs::vec_f64_to_file" = some 1101432952975330267 := by decide

end Kodama
