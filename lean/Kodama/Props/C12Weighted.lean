/-
C12 (totality: no panic) for WEIGHTED linkage through `nnchain_with` / `linkage_with`, for every ordered
number type whose `+` and `½·` satisfy `HalfAddLaws` on a domain `ok` that contains the input.

`C12_nnchain_ok` / `C12_nnchain_total` need `ChainReducible α .weighted`, a statement about ALL non-NaN
values; it is false for IEEE floats — through overflow (`a = b = t = −max_value`) and `∞ + (−∞)` only,
NOT through rounding as several older headers say.  On a domain `ok` of values on which the textbook
laws `HalfAddLaws α ok` hold (`Lemmas/WeightedMono.lean`: `+` and `½·` monotone, `½·(t + t) ≥ t`, no
NaN, closure) the weighted update is reducible (`chainReducibleOn_weighted`), and the chain invariant
goes through with "every live matrix entry is `ok`" as an extra invariant (`Lemmas/ChainOn.lean`).

Proved here, for every valid matrix (2 ≤ n < 2^31, 2·len = n(n−1)), both build modes, every prior state:

* `C12_nnchain_ok_on`          (any chain method, any domain) under `ChainReducibleOn α ok mc`;
* `C12_nnchain_weighted_ok`    `nnchainWith chk .weighted …` RETURNS NORMALLY: no index out of bounds, no
                               failed (debug) assertion, no `unwrap` on `None`, no overflow, the fuel of
                               the inner `loop` is never exhausted, no NaN reaches the sort;
* `C12_nnchain_weighted_total` the same in the "ok or nanInSort" form of the other C12 theorems;
* `C12_linkage_weighted_ok`    the same through `linkageWith chk .weighted`.

Hypotheses (explicit): `OrderLaws α` (true of IEEE `<`), `NoNaNData data`, `OkData ok data` (every
input entry in the domain), `HalfAddLaws α ok`.

TRUSTED, not proved: `HalfAddLaws` for IEEE `f32`/`f64` on `ok := moderate` (not NaN,
`0 ≤ v ≤ 2^(bias/2)`) — sampled by `kodama-laws` (`check_HalfAddLaws_*`), no counterexample; see the
header of `Props/C01Weighted.lean`.  PROVED for exact arithmetic (`halfAddLaws_of_fieldLaws`).

Ward (reducible since the second `fix:` commit of the crate, from `OrderLaws` alone): `Props/C12Ward.lean`.
-/
import Kodama.Props.C12
import Kodama.Props.C01Weighted
namespace Kodama
open Spec
variable {α : Type} [Num α]

/-- `nnchain_with` returns normally on every valid NaN-free matrix with entries in `ok`, for a method
that is reducible on `ok`.  `C12_nnchain_ok` is the case `ok := fun _ => True`. -/
theorem C12_nnchain_ok_on (L : OrderLaws α) (chk : Bool) (mc : MethodChain) (ok : α → Prop)
    (hred : ChainReducibleOn α ok mc)
    (st : State α) (d : Dendrogram α) (data : Array α) (n : Nat) (h2 : 2 ≤ n)
    (hs : n < 2147483648) (hl : 2 * data.size = n * (n - 1))
    (hnan : NoNaNData (squareData mc.intoMethod data))
    (hd : OkData ok (squareData mc.intoMethod data)) :
    ∃ r, nnchainWith chk mc st d data n = .ok r := by
  obtain ⟨s1, hres, heq⟩ := nnchainWith_eq_on L chk mc ok hred st d data n h2 hs hl hnan hd
  rw [heq]
  obtain ⟨r, hr⟩ := relabel_total mc.intoMethod s1.st.set s1.dend n h2 hres.obs hres.raw
    (Or.inr (Or.inr hres.heights))
  exact ⟨_, by rw [hr]; rfl⟩

/-- **C12, weighted linkage through `nnchain_with`**: returns normally. -/
theorem C12_nnchain_weighted_ok (L : OrderLaws α) (ok : α → Prop) (H : HalfAddLaws α ok) (chk : Bool)
    (st : State α) (d : Dendrogram α) (data : Array α) (n : Nat) (h2 : 2 ≤ n)
    (hs : n < 2147483648) (hl : 2 * data.size = n * (n - 1)) (hnan : NoNaNData data)
    (hd : OkData ok data) :
    ∃ r, nnchainWith chk .weighted st d data n = .ok r :=
  C12_nnchain_ok_on L chk .weighted ok (chainReducibleOn_weighted L H) st d data n h2 hs hl
    (by rw [squareData_weighted]; exact hnan) (by rw [squareData_weighted]; exact hd)

/-- The same in the form of `C12_nnchain_total` / `C12_mst_total` / `C12_primitive_total`. -/
theorem C12_nnchain_weighted_total (L : OrderLaws α) (ok : α → Prop) (H : HalfAddLaws α ok)
    (chk : Bool) (st : State α) (d : Dendrogram α) (data : Array α) (n : Nat) (h2 : 2 ≤ n)
    (hs : n < 2147483648) (hl : 2 * data.size = n * (n - 1)) (hnan : NoNaNData data)
    (hd : OkData ok data) :
    (∃ r, nnchainWith chk .weighted st d data n = .ok r) ∨
      nnchainWith chk .weighted st d data n = .error .nanInSort :=
  Or.inl (C12_nnchain_weighted_ok L ok H chk st d data n h2 hs hl hnan hd)

/-- Through `linkage_with` (dispatched to `nnchain_with`). -/
theorem C12_linkage_weighted_ok (L : OrderLaws α) (ok : α → Prop) (H : HalfAddLaws α ok) (chk : Bool)
    (st : State α) (d : Dendrogram α) (data : Array α) (n : Nat) (h2 : 2 ≤ n)
    (hs : n < 2147483648) (hl : 2 * data.size = n * (n - 1)) (hnan : NoNaNData data)
    (hd : OkData ok data) :
    ∃ r, linkageWith chk .weighted st d data n = .ok r := by
  rw [linkageWith_nnchain chk .weighted .weighted (by decide) rfl]
  exact C12_nnchain_weighted_ok L ok H chk st d data n h2 hs hl hnan hd

/-! ### Non-vacuity (ℚ with its field operations, a valid 4-point matrix, the domain `0 ≤ ·`) -/

section NonVacuity
attribute [local instance] fieldNum

example : ∃ r, nnchainWith true .weighted State.new (Dendrogram.new 4)
    (#[5, 2, 9, 7, 4, 1] : Array ℚ) 4 = .ok r :=
  C12_nnchain_weighted_ok Toy.ratOrderLaws _ Toy.ratHalfAddLaws true _ _ _ 4
    (by decide) (by decide) (by decide) (fun _ _ => rfl) Toy.ratOkData

example : ∃ r, linkageWith false .weighted State.new (Dendrogram.new 4)
    (#[5, 2, 9, 7, 4, 1] : Array ℚ) 4 = .ok r :=
  C12_linkage_weighted_ok Toy.ratOrderLaws _ Toy.ratHalfAddLaws false _ _ _ 4
    (by decide) (by decide) (by decide) (fun _ _ => rfl) Toy.ratOkData

end NonVacuity

end Kodama
