/-
C11 for `nnchain_with`: permutation equivariance on tie-free input.

Scope.  EXACT ARITHMETIC ONLY (`ExactLaws K`, see `Props/C03Nnchain.lean`); entry point `nnchain_with`
(model `nnchainWith`) called twice — on `data` and on the renumbered matrix `data'` — with arbitrary
build modes and prior states; all five chain methods; both matrices of valid shape.

Hypotheses: `IsPerm n π ρ`; `hperm` (`data'` is `data` renumbered by `π`, entrywise); tie-freeness — in
`C11_nnchain` of ANY greedy-valid reference run `steps₀` of `data`, in `C11_nnchain_self` of the run
of either returned dendrogram.  Conclusion: both calls return; the steps returned on `data` are the
steps returned on `data'` relabelled by `σ π n`; same heights, same sizes, and the leaf set of every
internal label `n+i` in the first is the `π`-image of its leaf set in the second.
(`C03_nnchain_exact` twice + `C11_spec_unique` / `C11_spec_unique'`.)
-/
import Kodama.Props.C03Nnchain
import Kodama.Props.C11
namespace Kodama
open Spec
variable {K : Type} [Field K] [LinearOrder K] [IsStrictOrderedRing K] [Num K]

/-- **C11 for `nnchain_with`, exact arithmetic, tie-free input.** -/
theorem C11_nnchain (E : ExactLaws K) (chk chk' : Bool) (mc : MethodChain) (st st' : State K)
    (d d' : Dendrogram K) (data data' : Array K) (n : Nat) (h2 : 2 ≤ n) (hs : n < 2147483648)
    (hl : 2 * data.size = n * (n - 1)) (hl' : 2 * data'.size = n * (n - 1))
    {π ρ : Nat → Nat} (hπ : IsPerm n π ρ)
    (hperm : ∀ i j, i < n → j < n →
      entry n data' Num.infinity i j = entry n data Num.infinity (π i) (π j))
    (steps₀ : List (Step K)) (h₀ : GreedyValid mc.intoMethod n data steps₀)
    (ht : TieFreeFrom mc.intoMethod (init mc.intoMethod n data) steps₀) :
    ∃ s₁ e M₁ s₂ e' M₂,
      nnchainWith chk mc st d data n = .ok (s₁, e, M₁) ∧
      nnchainWith chk' mc st' d' data' n = .ok (s₂, e', M₂) ∧
      e.steps.toList = e'.steps.toList.map (mapStep (σ π n)) ∧
      e.steps.toList.map (·.d) = e'.steps.toList.map (·.d) ∧
      e.steps.toList.map (·.size) = e'.steps.toList.map (·.size) ∧
      ∀ i, (leaves n e.steps.toList e.steps.toList.length (n + i)).Perm
        ((leaves n e'.steps.toList e'.steps.toList.length (n + i)).map π) := by
  obtain ⟨s₁, e, M₁, hr, hg⟩ := C03_nnchain_exact E chk mc st d data n h2 hs hl
  obtain ⟨s₂, e', M₂, hr', hg'⟩ := C03_nnchain_exact E chk' mc st' d' data' n h2 hs hl'
  have he : steps₀ = e.steps.toList :=
    greedyFrom_unique _ steps₀ _ (h₀.1.trans hg.1.symm) h₀.2 hg.2 ht
  subst he
  exact ⟨s₁, e, M₁, s₂, e', M₂, hr, hr',
    C11_spec_unique hπ (E.field.lwSymm mc.intoMethod) hperm hg' hg ht⟩

/-- The same with the tie-freeness hypothesis on the run of either returned dendrogram. -/
theorem C11_nnchain_self (E : ExactLaws K) (chk chk' : Bool) (mc : MethodChain) (st st' : State K)
    (d d' : Dendrogram K) (data data' : Array K) (n : Nat) (h2 : 2 ≤ n) (hs : n < 2147483648)
    (hl : 2 * data.size = n * (n - 1)) (hl' : 2 * data'.size = n * (n - 1))
    {π ρ : Nat → Nat} (hπ : IsPerm n π ρ)
    (hperm : ∀ i j, i < n → j < n →
      entry n data' Num.infinity i j = entry n data Num.infinity (π i) (π j)) :
    ∃ s₁ e M₁ s₂ e' M₂,
      nnchainWith chk mc st d data n = .ok (s₁, e, M₁) ∧
      nnchainWith chk' mc st' d' data' n = .ok (s₂, e', M₂) ∧
      (TieFreeFrom mc.intoMethod (init mc.intoMethod n data) e.steps.toList ∨
          TieFreeFrom mc.intoMethod (init mc.intoMethod n data') e'.steps.toList →
        e.steps.toList = e'.steps.toList.map (mapStep (σ π n)) ∧
        e.steps.toList.map (·.d) = e'.steps.toList.map (·.d) ∧
        e.steps.toList.map (·.size) = e'.steps.toList.map (·.size) ∧
        ∀ i, (leaves n e.steps.toList e.steps.toList.length (n + i)).Perm
          ((leaves n e'.steps.toList e'.steps.toList.length (n + i)).map π)) := by
  obtain ⟨s₁, e, M₁, hr, hg⟩ := C03_nnchain_exact E chk mc st d data n h2 hs hl
  obtain ⟨s₂, e', M₂, hr', hg'⟩ := C03_nnchain_exact E chk' mc st' d' data' n h2 hs hl'
  refine ⟨s₁, e, M₁, s₂, e', M₂, hr, hr', ?_⟩
  rintro (ht | ht)
  · exact C11_spec_unique hπ (E.field.lwSymm mc.intoMethod) hperm hg' hg ht
  · exact C11_spec_unique' hπ (E.field.lwSymm mc.intoMethod) hperm hg' ht hg

end Kodama
