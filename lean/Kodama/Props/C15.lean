/-
C15 — the C API returns exactly what Rust `linkage` returns, n = 0 and n = 1 included.

All statements are about `capiLinkageDouble` / `capiLinkageFloat` (Model/CApi.lean), which are
assembled from the pieces the translator regenerates from kodama-capi/src/lib.rs and macros.rs on
every run (Generated/CApi.lean): the NULL assertion, the `dis_len` expression with its `usize`
arithmetic made explicit, the enumerator conversion, the field-copy function with its casts, the
`observations` assignment.  `run chk .linkage m data n` is the model of Rust `linkage`.

Proved here (FULL statement, for the model):

* `C15_len_ok`   for every n < 2^32 and BOTH build modes the `dis_len` expression of both functions
                 evaluates to `n(n-1)/2` (truncated subtraction) without panicking — in particular 0
                 for n = 0 and n = 1.
* `C15_enum`     enumerator k of `kodama_method` is converted to the k-th constructor of `Method`,
                 which has the same name; there are exactly 7; the header lists the enumerators in
                 the same order under the names `kodama_method_<constructor in lower case>`
                 (explicit list); the enum
                 is `repr(C)` without explicit discriminants.
* `C15_copy`     the generated copy functions store cluster1←cluster1, cluster2←cluster2,
                 size←size, dissimilarity←dissimilarity (identity for double, exact widening
                 `Float32.toFloat` for float), and `observations` ← the parameter.
* `C15_full` (= `C15`; per width `C15_double`, `C15_float`)
                 for every build mode, both widths, every n < 2^32, every enumerator k < 7 and every
                 caller buffer with at least n(n-1)/2 entries: the wrapper's result is the result
                 of `linkage` on the first n(n-1)/2 entries with the namesake method, steps copied
                 field for field (heights widened exactly), `observations = n`.  A panic of
                 `linkage` is the wrapper's panic (→ abort); the wrapper adds no panic of its own.
* `C15_nonnull`  hence: whenever `linkage` returns, the C call returns a dendrogram (non-NULL) with
                 `len` = number of steps of the Rust result, `observations` = n, same steps.
* `C15_modes`    hence: if `linkage` returns the same dendrogram in both build modes, so does the C
                 call (the wrapper itself is mode independent).
* `C15_null`     a NULL matrix pointer is a deterministic abort (assertion), not undefined behaviour.
* `C15_abort`    macros.rs turns every panic into `abort()`; every extern function goes through it.

NOT proved here: that `linkage` itself is mode independent / total on valid matrices (C12), and
that `len = n - 1` (C01); that the compiled library behaves like the model — observed by the
correspondence run (C driver linked with libkodama.a from dev and release profiles, compared with
this model and with the real Rust `linkage`).  n ≥ 2^32 is outside the statement (the product
n(n-1) may wrap / panic; such a matrix cannot be allocated).
-/
import Kodama.Model.CApi
import Kodama.Lemmas.Except
namespace Kodama

/-- The C view of a Rust dendrogram for a call with `n` observations: steps copied field for field,
heights widened exactly, `observations` = the `n` that was passed in. -/
def cView {α : Type} [Widen α] (n : Nat) (d : Dendrogram α) : CDend :=
  { steps := d.steps.map (fun s => ⟨s.c1, s.c2, Widen.widen s.d, s.size⟩), observations := n }

/-- The full statement for one wrapper. -/
def C15_statement {α : Type} [Num α] [Widen α]
    (capi : Bool → Option (Array α) → Nat → Nat → R CDend) : Prop :=
  ∀ (chk : Bool) (n : Nat), n < 4294967296 → ∀ (k : Nat), k < 7 →
  ∀ (buf : Array α), n * (n - 1) / 2 ≤ buf.size →
    ∃ m, Method.all[k]? = some m ∧
      capi chk (some buf) n k
        = (fun r => cView n r.2.1) <$> run chk .linkage m (buf.extract 0 (n * (n - 1) / 2)) n

private theorem mul_small (n : Nat) (hn : n < 4294967296) : n * (n - 1) < usizeMod := by
  unfold usizeMod
  have h1 : n - 1 < 4294967296 := by omega
  calc n * (n - 1) ≤ 4294967296 * (n - 1) := Nat.mul_le_mul_right _ (by omega)
    _ < 4294967296 * 4294967296 := Nat.mul_lt_mul_of_pos_left h1 (by omega)
    _ = 18446744073709551616 := by decide

/-- THIS THEOREM IS FALSE FOR THE SOURCE BEFORE COMMIT 0456afd: there `dis_len` was
`(observations * (observations - 1)) / 2`, which the translator renders with `usub chk
observations 1`; for `chk = true, n = 0` that is `.error .arith` (→ abort), not `.ok 0`. -/
theorem C15_len_ok (chk : Bool) (n : Nat) (hn : n < 4294967296) :
    Gen.CApi.disLenDouble chk n = .ok (n * (n - 1) / 2) ∧
    Gen.CApi.disLenFloat chk n = .ok (n * (n - 1) / 2) := by
  have h := mul_small n hn
  constructor <;>
    simp [Gen.CApi.disLenDouble, Gen.CApi.disLenFloat, umul, udiv, h, bind, Except.bind, pure,
      Except.pure]

theorem C15_enum :
    (∀ k, k < 7 → Gen.CApi.intoMethod k = Method.all[k]?) ∧
    (∀ k, 7 ≤ k → Gen.CApi.intoMethod k = none) ∧
    Gen.CApi.methodCtors = Method.all.map Method.name ∧
    Gen.CApi.headerEnumerators
      = ["kodama_method_single", "kodama_method_complete", "kodama_method_average",
         "kodama_method_weighted", "kodama_method_ward", "kodama_method_centroid",
         "kodama_method_median"] ∧
    Gen.CApi.enumReprC = true := by
  refine ⟨?_, ?_, by decide, by decide, by decide⟩
  · intro k hk
    match k, hk with
    | 0, _ | 1, _ | 2, _ | 3, _ | 4, _ | 5, _ | 6, _ => rfl
  · intro k hk
    match k, hk with
    | k + 7, _ => rfl

theorem C15_copy :
    (∀ c1 c2 (d : Float) sz, CStep.ofTuple (Gen.CApi.copyDouble c1 c2 d sz) = ⟨c1, c2, d, sz⟩) ∧
    (∀ c1 c2 (d : Float32) sz,
      CStep.ofTuple (Gen.CApi.copyFloat c1 c2 d sz) = ⟨c1, c2, d.toFloat, sz⟩) ∧
    (∀ n o, Gen.CApi.obsDouble n o = n) ∧ (∀ n o, Gen.CApi.obsFloat n o = n) ∧
    Gen.CApi.stepFields
      = [("cluster1", "usize"), ("cluster2", "usize"), ("dissimilarity", "f64"), ("size", "usize")] :=
  ⟨fun _ _ _ _ => rfl, fun _ _ _ _ => rfl, fun _ _ => rfl, fun _ _ => rfl, by decide⟩

/-- The wrapper, for any pieces that satisfy what `C15_len_ok` / `C15_copy` establish. -/
private theorem capiLinkageW_eq {α : Type} [Num α] [Widen α] (w : Wrapper α)
    (hlen : ∀ chk n, n < 4294967296 → w.disLen chk n = .ok (n * (n - 1) / 2))
    (hcopy : ∀ c1 c2 d sz, CStep.ofTuple (w.copy c1 c2 d sz) = ⟨c1, c2, Widen.widen d, sz⟩)
    (hobs : ∀ n o, w.obs n o = n) :
    C15_statement (capiLinkageW w) := by
  intro chk n hn k hk buf hvalid
  have hm : ∃ m, Method.all[k]? = some m ∧ Gen.CApi.intoMethod k = some m := by
    refine ⟨Method.all[k]'(by simpa [Method.all] using hk), ?_, ?_⟩
    · simp
    · rw [C15_enum.1 k hk]; simp
  obtain ⟨m, hm1, hm2⟩ := hm
  refine ⟨m, hm1, ?_⟩
  have hnot : ¬ buf.size < n * (n - 1) / 2 := by omega
  unfold capiLinkageW
  simp only [Option.isNone_some, Bool.and_false, Bool.false_eq_true, if_false, hlen chk n hn,
    hm2, Option.getD_some, hcopy, hobs, cView]
  simp only [bind, Except.bind, pure, Except.pure, hnot, if_false]
  cases run chk .linkage m (buf.extract 0 (n * (n - 1) / 2)) n with
  | error p => rfl
  | ok r => rfl

theorem C15_double : C15_statement capiLinkageDouble :=
  capiLinkageW_eq wrapperDouble (fun chk n hn => (C15_len_ok chk n hn).1) C15_copy.1
    C15_copy.2.2.1

theorem C15_float : C15_statement capiLinkageFloat :=
  capiLinkageW_eq wrapperFloat (fun chk n hn => (C15_len_ok chk n hn).2) C15_copy.2.1
    C15_copy.2.2.2.1

/-- C15, both entry points. -/
theorem C15_full : C15_statement capiLinkageDouble ∧ C15_statement capiLinkageFloat :=
  ⟨C15_double, C15_float⟩

/-- Alias under the property's own name (`C15_full` is the one the check's audit counts). -/
theorem C15 : C15_statement capiLinkageDouble ∧ C15_statement capiLinkageFloat := C15_full

/-- Non-NULL with the Rust result's length, the `n` passed in, and the Rust result's steps. -/
theorem C15_nonnull {α : Type} [Num α] [Widen α]
    {capi : Bool → Option (Array α) → Nat → Nat → R CDend} (hc : C15_statement capi)
    (chk : Bool) (n : Nat) (hn : n < 4294967296) (k : Nat) (hk : k < 7) (buf : Array α)
    (hvalid : n * (n - 1) / 2 ≤ buf.size) :
    ∃ m, Method.all[k]? = some m ∧
      ∀ r, run chk .linkage m (buf.extract 0 (n * (n - 1) / 2)) n = .ok r →
        ∃ h, capi chk (some buf) n k = .ok h ∧ h.steps.size = r.2.1.len ∧ h.observations = n ∧
          h.steps = r.2.1.steps.map (fun s => ⟨s.c1, s.c2, Widen.widen s.d, s.size⟩) := by
  obtain ⟨m, hm, h⟩ := hc chk n hn k hk buf hvalid
  refine ⟨m, hm, ?_⟩
  intro r hr
  rw [hr] at h
  exact ⟨cView n r.2.1, h, by simp [cView, Dendrogram.len], rfl, rfl⟩

/-- The wrapper has no mode dependence of its own. -/
theorem C15_modes {α : Type} [Num α] [Widen α]
    {capi : Bool → Option (Array α) → Nat → Nat → R CDend} (hc : C15_statement capi)
    (n : Nat) (hn : n < 4294967296) (k : Nat) (hk : k < 7) (buf : Array α)
    (hvalid : n * (n - 1) / 2 ≤ buf.size)
    (hlink : ∀ m, (fun r => r.2.1) <$> run true .linkage m (buf.extract 0 (n * (n - 1) / 2)) n
                = (fun r => r.2.1) <$> run false .linkage m (buf.extract 0 (n * (n - 1) / 2)) n) :
    capi true (some buf) n k = capi false (some buf) n k := by
  obtain ⟨m, hm, h1⟩ := hc true n hn k hk buf hvalid
  obtain ⟨m', hm', h2⟩ := hc false n hn k hk buf hvalid
  have : m = m' := by rw [hm] at hm'; exact Option.some.inj hm'
  subst this
  rw [h1, h2]
  have := hlink m
  revert this
  cases run true .linkage m (buf.extract 0 (n * (n - 1) / 2)) n <;>
    cases run false .linkage m (buf.extract 0 (n * (n - 1) / 2)) n <;>
    simp [Functor.map, Except.map] <;> intro h <;> simp [h]

theorem C15_null (chk : Bool) (n k : Nat) :
    capiLinkageDouble chk none n k = .error .assertFail ∧
    capiLinkageFloat chk none n k = .error .assertFail :=
  ⟨rfl, rfl⟩

theorem C15_abort :
    Gen.CApi.panicBecomesAbort = true ∧
    Gen.CApi.externFns = ["kodama_linkage_double", "kodama_linkage_float", "kodama_dendrogram_free",
      "kodama_dendrogram_len", "kodama_dendrogram_observations", "kodama_dendrogram_steps"] := by
  decide

/-- Non-vacuity: n = 0, 1 (empty dendrogram, `observations` = n, both modes) and the enumerators. -/
example :
    Gen.CApi.disLenDouble true 0 = .ok 0 ∧ Gen.CApi.disLenFloat true 0 = .ok 0 ∧
    Gen.CApi.disLenDouble true 1 = .ok 0 ∧ Gen.CApi.disLenDouble false 200 = .ok 19900 ∧
    Gen.CApi.intoMethod 4 = some .ward ∧ Gen.CApi.intoMethod 7 = none :=
  ⟨rfl, rfl, rfl, rfl, rfl, rfl⟩

end Kodama
