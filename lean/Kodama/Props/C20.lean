/-
C20 — auxiliary memory is linear in n; the matrix is never copied; `_with` amortises.

What is PROVED here is about the MODEL `Kodama/Model/Alloc.lean`: an executable replay of the
capacity-relevant `Vec` operations of a clustering call (`with_capacity`, `clear`, `resize`, `push`,
the sort's scratch buffer, `drop`) under std's growth policy, producing the list of allocator
calls.  All statements are for EVERY n (no bound), every algorithm, method, width, entry form and
every prior capacity assignment of the 12 buffers.

* `C20_peak`      the peak of the bytes live beyond what the objects held on entry (and beyond the
                  caller's matrix, which the model never allocates) is ≤ 512n + 4096 — for the
                  allocating wrappers and for `_with` on objects in ANY prior condition
                  (`C20_total`: even the sum of all requests of the call is).
* `C20_no_matrix_sized_request`  every single request is ≤ 64n + 1024 bytes, hence for n ≥ 64
                  strictly smaller than the n(n-1)/2-entry matrix of either width: no copy of the
                  matrix is ever made.
* `C20_in_place`  in the clustering model (`Model/*.lean`), for every entry point, method, build
                  mode, prior state and input: a successful run hands back a matrix whose `data`
                  array has the length of the input — the only functions that produce a `Mat` are
                  `Mat.new` (wraps the caller's array), `Mat.tick` and `Mat.set` (one `Array.set`),
                  plus the in-place squaring; no second array of matrix length exists in the model.
                  `C20_in_place_mst`: `mst_with` hands back the caller's array itself, unwritten.
* `C20_warm`      if every capacity is at least what n needs (`Warm c n`), the `_with` call leaves
                  all capacities unchanged and its events are either none or exactly one
                  allocation (freed again) of ≤ 32(n-1) ≤ 64n + 1024 bytes: the sort's scratch.
* `C20_warm_after_use`  after ANY history of `_with` calls one of which was for ≥ n observations,
                  the objects are `Warm` for n (capacities never shrink: `C20_capacity_monotone`;
                  a call for n' leaves room for n': `C20_call_makes_warm`).  Together with
                  `C20_warm`: repeated clustering of small matrices does not allocate scratch space
                  per call.
* `C20_value_independent`  `Alloc.call` does not take the matrix: by construction its events are a
                  function of (n, capacities, algorithm, method, width, form) only.  The theorem
                  makes the one data-dependent `Vec` traffic explicit: for every script of
                  `chain.push / pop / clear` operations (whatever the matrix values make
                  `nnchain_with` do) that keeps the chain within n entries, the call has exactly
                  the events and final capacities of `Alloc.callWith`.  The other candidate, the
                  sort's scratch, is a function of the number of steps only (`sortScratch s len`).
* `C20_buffers_match_reset`  the buffer table of the cost model is tied to the reset bodies
                  TRANSLATED FROM THE SOURCE on every run: destructuring `State`, `Active`, `UF`,
                  `Heap` exhaustively (a new field breaks the build), the length of every array
                  after `Gen.stateReset st m` is `Buf.needObs m` of the corresponding table entry,
                  in the same order; `LinkageState::new()` holds only empty vectors;
                  `Gen.dendrogramReset` leaves 0 steps (pushes start at length 0).

Why the chain is within n entries.  `state.reset(n)` leaves `chain` with capacity ≥ n
(`C20_call_makes_warm`), so `chain.push` reallocates only if the chain holds more than n entries.
Consecutive chain entries have strictly decreasing dissimilarities (a push happens only after a
strict `<` test), and entries below the top three are untouched by a merge, so as long as every
chain entry is a distinct live cluster the length is ≤ n.  Distinctness is the nearest-neighbour
chain invariant; it is a theorem for reducible update formulas in exact arithmetic and is NOT
proved here for rounded arithmetic (for the clamped average / Ward of the repaired crate it follows
from `OrderLaws`: `chainReducible_average`, `chainReducible_ward`, `Lemmas/ChainIter.lean`).  The
correspondence run compares the allocation count of every nnchain call exactly, so a chain that
outgrew n would be reported.

NOT verified (modelled from measurements, re-validated by every correspondence run, which compares
count / peak / largest / total / frees of every call exactly with this model): std's `Vec` growth
policy (`RawVec::grow_amortized`, `MIN_NON_ZERO_CAP`), `Vec::with_capacity` allocating exactly,
`clear`/`pop` keeping the allocation, the stable sort's scratch size and its 4 KiB stack buffer
(toolchain-specific; pinned to rustc 1.95), `size_of::<Step<T>>() = 32`; the system allocator's own
overhead and rounding; that the hand-written sequence of `Vec` operations in `Alloc.callWith`
is the sequence the Rust code performs (tied by the correspondence run and, for the buffer list
and lengths, by `C20_buffers_match_reset`).
-/
import Kodama.Lemmas.Alloc
import Kodama.Lemmas.Reset
import Kodama.Lemmas.Except
import Kodama.Model.Linkage
namespace Kodama
open Alloc

/-! ### the buffer table against the translated reset bodies -/

/-- Length of every array of the scratch state, by exhaustive destructuring (anonymous
constructors: adding a field to `State`, `Active`, `UF` or `Heap` makes this ill-typed). -/
def Alloc.stateBufLens {α : Type} : State α → List (Buf × Nat)
  | ⟨sizes, ⟨_, prev, next⟩, minDists, ⟨parents, _⟩, chain, ⟨heap, obs, prio, removed⟩, nearest⟩ =>
    [(.sizes, sizes.size), (.activePrev, prev.size), (.activeNext, next.size),
     (.minDists, minDists.size), (.setParents, parents.size), (.chain, chain.size),
     (.queueHeap, heap.size), (.queueObservations, obs.size), (.queuePriorities, prio.size),
     (.queueRemoved, removed.size), (.nearest, nearest.size)]

theorem C20_buffers_match_reset {α : Type} [Num α] (st : State α) (h : Heap α) (u : UF)
    (d : Dendrogram α) (m : Nat) :
    stateBufLens (Gen.stateReset st m) = Buf.stateBufs.map (fun b => (b, b.needObs m)) ∧
    stateBufLens (State.new : State α) = Buf.stateBufs.map (fun b => (b, 0)) ∧
    (let h' := Gen.heapReset h m
     [h'.heap.size, h'.obs.size, h'.prio.size, h'.removed.size] = Buf.heapBufs.map (·.needObs m)) ∧
    (Gen.ufReset u m).parents.size = Buf.setParents.needObs m ∧
    (Gen.dendrogramReset d m).steps.size = 0 ∧
    Buf.all.length = 12 ∧ Buf.all.Nodup ∧ (∀ b : Buf, b ∈ Buf.all) := by
  refine ⟨?_, ?_, ?_, ?_, ?_, by decide, by decide, fun b => by cases b <;> decide⟩
  · have := State.reset_eq_fresh st m
    unfold State.reset at this
    rw [this]
    simp [stateBufLens, State.fresh, Active.fresh, UF.fresh, UF.sizeFor, Heap.fresh, Buf.stateBufs,
      Buf.needObs]
  · simp [stateBufLens, State.new, Active.new, UF.fresh, UF.sizeFor, Heap.new, Buf.stateBufs]
  · rw [heapReset_eq_fresh]
    simp [Heap.fresh, Buf.heapBufs, Buf.needObs]
  · rw [ufReset_eq_fresh]
    simp [UF.fresh, UF.sizeFor, Buf.needObs]
  · simp [Gen.dendrogramReset, vclear]

/-! ### bounds on the events of a call -/

/-- The events of the `_with` form, piece by piece, with what each piece can request. -/
theorem Alloc.callWith_events (c : Caps) (alg : Alg) (meth : Method) (w : Width) (n : Nat)
    (hm : normObs n ≠ 0) :
    ∃ e1 e2 e3 e4 e5 : List Ev, (callWith c alg meth w n).2 = e1 ++ e2 ++ e3 ++ e4 ++ e5 ∧
      (total e1 ≤ 178 * normObs n + 632 ∧ largest e1 ≤ 32 * normObs n + 64) ∧
      (total e2 ≤ 50 * normObs n + 200 ∧ largest e2 ≤ 16 * normObs n + 64) ∧
      (total e3 ≤ 128 * normObs n + 256 ∧ largest e3 ≤ 64 * normObs n + 128) ∧
      (total e4 ≤ 32 * normObs n + 48 ∧ largest e4 ≤ 32 * normObs n + 48) ∧
      (total e5 ≤ 32 * normObs n ∧ largest e5 ≤ 32 * normObs n) := by
  unfold callWith
  simp only [hm, if_false]
  refine ⟨_, _, _, _, _, rfl, ⟨?_, ?_⟩, ⟨?_, ?_⟩, ⟨?_, ?_⟩, ⟨?_, ?_⟩, ⟨?_, ?_⟩⟩
  · refine Nat.le_trans (ensureAll_total_le ..) ?_
    cases w <;> simp [boundSum, bufBound, Buf.stateBufs, Buf.needObs, Buf.elem, Width.bytes, hm] <;> omega
  · apply ensureAll_largest_le
    intro b hb
    cases w <;> cases b <;> simp [Buf.stateBufs] at hb <;>
      simp [bufBound, Buf.needObs, Buf.elem, Width.bytes, hm] <;> omega
  · split
    · refine Nat.le_trans (ensureAll_total_le ..) ?_
      cases w <;> simp [boundSum, bufBound, Buf.heapBufs, Buf.needObs, Buf.elem, Width.bytes] <;> omega
    · simp [total]
  · split
    · apply ensureAll_largest_le
      intro b hb
      cases w <;> cases b <;> simp [Buf.heapBufs] at hb <;>
        simp [bufBound, Buf.needObs, Buf.elem, Width.bytes] <;> omega
    · simp [largest]
  · refine Nat.le_trans (pushN_total_le _ _ _ _ (Nat.zero_le _)) ?_
    rw [elem_steps]
    have : minNonZeroCap 32 = 4 := by decide
    rw [this]; omega
  · refine Nat.le_trans (pushN_largest_le _ _ _ _ (Nat.zero_le _)) ?_
    rw [elem_steps]
    have : minNonZeroCap 32 = 4 := by decide
    rw [this]; omega
  · refine Nat.le_trans (ensureAll_total_le ..) ?_
    simp [boundSum, bufBound, Buf.needObs, Buf.elem, hm]; omega
  · apply ensureAll_largest_le
    intro b hb
    simp at hb; subst hb
    simp [bufBound, Buf.needObs, Buf.elem, hm]; omega
  · split
    · rw [sortScratch_total, elem_steps]
      have := sortScratchBytes_le (normObs n - 1); omega
    · simp [total]
  · split
    · rw [sortScratch_largest, elem_steps]
      have := sortScratchBytes_le (normObs n - 1); omega
    · simp [largest]

theorem Alloc.callWith_total_le (c : Caps) (alg : Alg) (meth : Method) (w : Width) (n : Nat) :
    total (callWith c alg meth w n).2 ≤ 420 * n + 1136 := by
  by_cases hm : normObs n = 0
  · simp [callWith, hm, total]
  · obtain ⟨e1, e2, e3, e4, e5, he, h1, h2, h3, h4, h5⟩ := callWith_events c alg meth w n hm
    have := normObs_le n
    rw [he]; simp only [total_append]; omega

theorem Alloc.callWith_largest_le (c : Caps) (alg : Alg) (meth : Method) (w : Width) (n : Nat) :
    largest (callWith c alg meth w n).2 ≤ 64 * n + 128 := by
  by_cases hm : normObs n = 0
  · simp [callWith, hm, largest]
  · obtain ⟨e1, e2, e3, e4, e5, he, h1, h2, h3, h4, h5⟩ := callWith_events c alg meth w n hm
    have := normObs_le n
    rw [he]; simp only [largest_append]; omega

/-- The sum of all requests of a call — either form, any prior capacities. -/
theorem C20_total (wrapper : Bool) (c : Caps) (alg : Alg) (meth : Method) (w : Width) (n : Nat) :
    total (call wrapper c alg meth w n).2 ≤ 512 * n + 4096 := by
  unfold call
  cases wrapper
  · have := callWith_total_le c alg meth w n
    simp only [Bool.false_eq_true, if_false]; omega
  · simp only [if_true, callWrapper, total_append, withCapacity_total, dropState_total, elem_steps]
    have := callWith_total_le (Caps.empty.set .steps (withCapacity 32 n).1) alg meth w n
    omega

/-- Peak auxiliary memory of a call is linear in n. -/
theorem C20_peak (wrapper : Bool) (c : Caps) (alg : Alg) (meth : Method) (w : Width) (n : Nat) :
    peakAux wrapper c alg meth w n ≤ 512 * n + 4096 := by
  unfold peakAux
  have h1 := peakFrom_le (baseBytes wrapper c w) (call wrapper c alg meth w n).2
  have h2 := C20_total wrapper c alg meth w n
  omega

/-- No single request comes near the size of the matrix. -/
theorem C20_no_matrix_sized_request (wrapper : Bool) (c : Caps) (alg : Alg) (meth : Method)
    (w : Width) (n : Nat) :
    largest (call wrapper c alg meth w n).2 ≤ 64 * n + 1024 ∧
    (64 ≤ n → largest (call wrapper c alg meth w n).2 < n * (n - 1) / 2 * w.bytes) := by
  have hl : largest (call wrapper c alg meth w n).2 ≤ 64 * n + 1024 := by
    unfold call
    cases wrapper
    · have := callWith_largest_le c alg meth w n
      simp only [Bool.false_eq_true, if_false]; omega
    · simp only [if_true, callWrapper, largest_append, dropState_largest, elem_steps]
      have := callWith_largest_le (Caps.empty.set .steps (withCapacity 32 n).1) alg meth w n
      have h2 := largest_le_total (withCapacity 32 n).2
      rw [withCapacity_total] at h2
      omega
  refine ⟨hl, fun hn => ?_⟩
  have h63 : n * 63 ≤ n * (n - 1) := Nat.mul_le_mul_left n (by omega)
  have hw : 4 ≤ w.bytes := by cases w <;> decide
  have h4 : n * (n - 1) / 2 * 4 ≤ n * (n - 1) / 2 * w.bytes := Nat.mul_le_mul_left _ hw
  omega

/-! ### warm calls -/

/-- Every buffer already has the capacity a call for `n` observations needs. -/
def Alloc.Warm (c : Caps) (n : Nat) : Prop := ∀ b : Buf, b.need n ≤ c b

instance (c : Caps) (n : Nat) : Decidable (Warm c n) :=
  decidable_of_iff (∀ b ∈ Buf.all, b.need n ≤ c b)
    ⟨fun h b => h b (by cases b <;> decide), fun h b _ => h b⟩

theorem C20_warm (c : Caps) (alg : Alg) (meth : Method) (w : Width) (n : Nat) (h : Warm c n) :
    (callWith c alg meth w n).1 = c ∧
    ((callWith c alg meth w n).2 = [] ∨
      ∃ bytes, (callWith c alg meth w n).2 = [.alloc bytes, .free bytes] ∧
        bytes ≤ 32 * (n - 1)) ∧
    count (callWith c alg meth w n).2 ≤ 1 ∧
    largest (callWith c alg meth w n).2 ≤ 64 * n + 1024 ∧
    total (callWith c alg meth w n).2 ≤ 64 * n + 1024 := by
  have hev : (callWith c alg meth w n).1 = c ∧
      ((callWith c alg meth w n).2 = [] ∨
        ∃ bytes, (callWith c alg meth w n).2 = [.alloc bytes, .free bytes] ∧
          bytes ≤ 32 * (n - 1)) := by
    unfold callWith
    by_cases hm : normObs n = 0
    · simp [hm]
    · have hw : ∀ b : Buf, b.needObs (normObs n) ≤ c b := h
      have e1 : ensureAll w (normObs n) Buf.stateBufs c = (c, []) := ensureAll_warm _ _ _ _ (fun b _ => hw b)
      have e2 : ensureAll w (normObs n) Buf.heapBufs c = (c, []) := ensureAll_warm _ _ _ _ (fun b _ => hw b)
      have e3 : pushN (Buf.steps.elem w) (normObs n - 1) (c .steps) 0 = (c .steps, []) :=
        pushN_free _ _ _ _ (by have := hw .steps; simp only [Buf.needObs] at this; omega)
      have e4 : ensureAll w (normObs n) [.setParents] c = (c, []) := ensureAll_warm _ _ _ _ (fun b _ => hw b)
      simp only [hm, if_false, e1, e2, ite_self, e3, Caps.set_self, e4, List.append_nil, List.nil_append,
        true_and]
      split
      · rcases sortScratch_cases (Buf.steps.elem w) (normObs n - 1) with h0 | h1
        · left; exact h0
        · right
          refine ⟨_, h1, ?_⟩
          rw [elem_steps]
          have := sortScratchBytes_le (normObs n - 1)
          have := normObs_le n
          omega
      · left; rfl
  refine ⟨hev.1, hev.2, ?_, ?_, ?_⟩
  all_goals
    rcases hev.2 with h0 | ⟨bytes, h1, hb⟩
    · simp [h0, count, largest, total]
    · simp [h1, count, List.filter, largest, total, Ev.isReq, Ev.req]; try omega

/-- Capacities never shrink. -/
theorem C20_capacity_monotone (c : Caps) (alg : Alg) (meth : Method) (w : Width) (n : Nat) (b : Buf) :
    c b ≤ (callWith c alg meth w n).1 b := by
  unfold callWith
  by_cases hm : normObs n = 0
  · simp [hm]
  · simp only [hm, if_false]
    refine Nat.le_trans ?_ (ensureAll_mono ..)
    have h1 := ensureAll_mono w (normObs n) Buf.stateBufs c b
    refine Nat.le_trans h1 ?_
    have h2 : ∀ c' : Caps, c' b ≤ (if route alg meth = .generic
        then ensureAll w (normObs n) Buf.heapBufs c' else (c', [])).1 b := by
      intro c'; split
      · exact ensureAll_mono ..
      · exact Nat.le_refl _
    refine Nat.le_trans (h2 _) ?_
    by_cases hb : b = .steps
    · subst hb
      rw [Caps.set_same]
      exact (pushN_cap _ _ _ _ (Nat.zero_le _)).1
    · rw [Caps.set_other _ _ _ _ hb]
      exact Nat.le_refl _

/-- A call for `n` observations leaves objects that are warm for `n`. -/
theorem C20_call_makes_warm (c : Caps) (alg : Alg) (meth : Method) (w : Width) (n : Nat) :
    Warm (callWith c alg meth w n).1 n := by
  intro b
  unfold callWith Buf.need
  by_cases hm : normObs n = 0
  · simp only [hm, if_true]
    cases b <;> simp [Buf.needObs]
  · simp only [hm, if_false]
    refine Nat.le_trans ?_ (ensureAll_mono ..)
    by_cases hb : b = .steps
    · subst hb
      rw [Caps.set_same]
      have := (pushN_cap (Buf.steps.elem w) (normObs n - 1)
        ((if route alg meth = .generic
          then ensureAll w (normObs n) Buf.heapBufs (ensureAll w (normObs n) Buf.stateBufs c).1
          else ((ensureAll w (normObs n) Buf.stateBufs c).1, [])).1 .steps) 0 (Nat.zero_le _)).2.1
      simp only [Buf.needObs]
      omega
    · rw [Caps.set_other _ _ _ _ hb]
      have hmem : b ∈ Buf.stateBufs := by cases b <;> first | decide | exact absurd rfl hb
      have h1 := ensureAll_ge_need w (normObs n) Buf.stateBufs c b hmem
      refine Nat.le_trans h1 ?_
      split
      · exact ensureAll_mono ..
      · exact Nat.le_refl _

/-- One `_with` request of a history (the width is that of the objects). -/
structure Alloc.ACall where
  alg : Alg
  meth : Method
  n : Nat

/-- Capacities after a history of `_with` calls. -/
def Alloc.afterCalls (w : Width) (c : Caps) (hist : List ACall) : Caps :=
  hist.foldl (fun c k => (callWith c k.alg k.meth w k.n).1) c

theorem Alloc.warm_preserved (w : Width) (hist : List ACall) (c : Caps) (n : Nat) (h : Warm c n) :
    Warm (afterCalls w c hist) n := by
  induction hist generalizing c with
  | nil => exact h
  | cons k ks ih =>
    apply ih
    intro b
    exact Nat.le_trans (h b) (C20_capacity_monotone c k.alg k.meth w k.n b)

/-- Objects that were used for at least `n` observations at some point of their history — whatever
came before and after — are warm for `n`. -/
theorem C20_warm_after_use (w : Width) (c : Caps) (hist : List ACall) (n : Nat)
    (h : ∃ k ∈ hist, n ≤ k.n) : Warm (afterCalls w c hist) n := by
  induction hist generalizing c with
  | nil => obtain ⟨k, hk, _⟩ := h; cases hk
  | cons k ks ih =>
    obtain ⟨k', hk', hn⟩ := h
    rcases List.mem_cons.mp hk' with heq | hmem
    · subst heq
      show Warm (afterCalls w (callWith c k'.alg k'.meth w k'.n).1 ks) n
      apply warm_preserved
      intro b
      exact Nat.le_trans (need_mono hn b) (C20_call_makes_warm c k'.alg k'.meth w k'.n b)
    · exact ih _ ⟨k', hmem, hn⟩

/-! ### value independence -/

theorem C20_value_independent (c : Caps) (alg : Alg) (meth : Method) (w : Width) (n : Nat)
    (script : List ChainOp) (h : chainMaxLen 0 script ≤ normObs n) :
    callWithScript c alg meth w n script = callWith c alg meth w n := by
  unfold callWithScript callWith
  by_cases hm : normObs n = 0
  · simp [hm]
  · simp only [hm, if_false]
    by_cases hn : route alg meth = .nnchain
    · -- the chain's capacity after `state.reset` is at least n
      have hcap : normObs n ≤ (ensureAll w (normObs n) Buf.stateBufs c).1 .chain := by
        have := ensureAll_ge_need w (normObs n) Buf.stateBufs c .chain (by decide)
        simpa only [Buf.needObs] using this
      simp only [hn, reduceCtorEq, ↓reduceIte]
      have hf := chainScript_free _ 0 script (Nat.le_trans h hcap)
      rw [hf.1, hf.2, Caps.set_self]
      simp
    · simp only [hn, ↓reduceIte, Caps.set_self]
      simp

/-! ### the matrix is updated in place

(helper lemmas live in the namespace `Kodama.C20`) -/

theorem C20.iterM_inv {σ : Type} (P : σ → Prop) (f : σ → R σ)
    (hstep : ∀ s s', P s → f s = .ok s' → P s') :
    ∀ (k : Nat) (s s' : σ), P s → iterM f k s = .ok s' → P s' := by
  intro k
  induction k with
  | zero => intro s s' hs h; simp only [iterM, pure_ok] at h; subst h; exact hs
  | succ k ih =>
    intro s s' hs h
    simp only [iterM, bind_ok] at h
    obtain ⟨s1, h1, h2⟩ := h
    exact ih s1 s' (hstep s s1 hs h1) h2

open C20

section InPlace
variable {α : Type} [Num α]

omit [Num α] in
theorem C20.Mat.new_data {chk : Bool} {data : Array α} {n : Nat} {M : Mat α}
    (h : Mat.new chk data n = .ok M) : M.data = data := by
  simp only [Mat.new, bind_ok, pure_ok] at h
  obtain ⟨_, _, h⟩ := h
  rw [← h]

theorem C20.mstScanStep_data {chk : Bool} {cluster : Nat} {lower : Bool} {s s' : MstScan α} {x : Nat}
    (h : mstScanStep chk cluster lower s x = .ok s') : s'.M.data = s.M.data := by
  cases lower <;>
  · simp only [mstScanStep, bind_ok, Bool.false_eq_true, if_false, if_true] at h
    obtain ⟨_, _, _, _, _, _, h⟩ := h
    split at h <;> (simp only [pure_ok] at h; rw [← h]; rfl)

theorem C20.mstIter_data {chk : Bool} {s s' : State α × Dendrogram α × Mat α × Nat}
    (h : mstIter chk s = .ok s') : s'.2.2.1.data = s.2.2.1.data := by
  obtain ⟨st, dend, M, cluster⟩ := s
  simp only [mstIter, bind_ok, pure_ok] at h
  obtain ⟨_, _, _, _, _, _, _, _, sc1, h1, _, _, sc2, h2, ⟨_, _⟩, _, h⟩ := h
  have e1 : sc1.M.data = M.data :=
    foldlM_inv (fun (sc : MstScan α) => sc.M.data = M.data) _ _
      (fun s x s' _ hs hx => by rw [mstScanStep_data hx]; exact hs) _ _ rfl h1
  have e2 : sc2.M.data = M.data :=
    foldlM_inv (fun (sc : MstScan α) => sc.M.data = M.data) _ _
      (fun s x s' _ hs hx => by rw [mstScanStep_data hx]; exact hs) _ _ e1 h2
  rw [← h]; exact e2

/-- `mst_with` never writes to the matrix: the array it returns is the array it was given. -/
theorem C20_in_place_mst (chk : Bool) (st st' : State α) (d d' : Dendrogram α) (data : Array α)
    (n : Nat) (M : Mat α) (h : mstWith chk st d data n = .ok (st', d', M)) :
    M.data = data ∧ M.data.size = data.size := by
  have : M.data = data := by
    simp only [mstWith, bind_ok] at h
    obtain ⟨M0, h0, h⟩ := h
    have hd := Mat.new_data h0
    split at h
    · simp only [pure_ok, Prod.mk.injEq] at h
      rw [← h.2.2]; exact hd
    · simp only [bind_ok, pure_ok] at h
      obtain ⟨_, _, ⟨st1, d1, M1, c1⟩, hit, _, _, h⟩ := h
      have := iterM_inv (fun (s : State α × Dendrogram α × Mat α × Nat) => s.2.2.1.data = data)
        (mstIter chk) (fun s s' hs hx => by rw [mstIter_data hx]; exact hs) _ _ _ hd hit
      simp only [Prod.mk.injEq] at h
      rw [← h.2.2]; exact this
  exact ⟨this, by rw [this]⟩

omit [Num α] in
theorem C20.Mat.set_size {chk : Bool} {M M' : Mat α} {r c : Nat} {v : α}
    (h : M.set chk r c v = .ok M') : M'.data.size = M.data.size := by
  simp only [Mat.set, bind_ok, pure_ok] at h
  obtain ⟨i, _, d, hd, h⟩ := h
  obtain ⟨_, rfl⟩ := aset_ok.mp hd
  rw [← h]; simp

omit [Num α] in
theorem C20.Mat.update_size {chk : Bool} {M M' : Mat α} {upd : Nat → α → α → R α} {x ra ca rb cb : Nat}
    (h : M.update chk upd x ra ca rb cb = .ok M') : M'.data.size = M.data.size := by
  simp only [Mat.update, bind_ok, pure_ok] at h
  obtain ⟨_, _, _, _, _, _, M1, h1, h⟩ := h
  rw [← h]; exact (Mat.set_size h1 : M1.data.size = M.data.size)

omit [Num α] in
theorem C20.updateRows_size {chk : Bool} {act : Active} {upd : Nat → α → α → R α} {a b : Nat}
    {M M' : Mat α} (h : updateRows chk act upd a b M = .ok M') : M'.data.size = M.data.size := by
  simp only [updateRows, bind_ok] at h
  obtain ⟨r1, _, M1, h1, r2, _, M2, h2, r3, _, h3⟩ := h
  have e1 : M1.data.size = M.data.size :=
    foldlM_inv (fun (X : Mat α) => X.data.size = M.data.size) _ _
      (fun s x s' _ hs hx => by rw [Mat.update_size hx]; exact hs) _ _ rfl h1
  have e2 : M2.data.size = M.data.size :=
    foldlM_inv (fun (X : Mat α) => X.data.size = M.data.size) _ _
      (fun s x s' _ hs hx => by rw [Mat.update_size hx]; exact hs) _ _ e1 h2
  exact foldlM_inv (fun (X : Mat α) => X.data.size = M.data.size) _ _
      (fun s x s' _ hs hx => by rw [Mat.update_size hx]; exact hs) _ _ e2 h3

theorem C20.primitiveIter_size {chk : Bool} {m : Method} {s s' : State α × Dendrogram α × Mat α}
    (h : primitiveIter chk m s = .ok s') : s'.2.2.data.size = s.2.2.data.size := by
  obtain ⟨st, dend, M⟩ := s
  simp only [primitiveIter, bind_ok, pure_ok] at h
  obtain ⟨_, _, ⟨a, b, dist⟩, _, _, _, _, _, M1, h1, ⟨_, _⟩, _, h⟩ := h
  rw [← h]; exact updateRows_size h1

theorem C20.squareData_size (m : Method) (data : Array α) : (squareData m data).size = data.size := by
  unfold squareData; split <;> simp

theorem C20_in_place_primitive (chk : Bool) (m : Method) (st st' : State α) (d d' : Dendrogram α)
    (data : Array α) (n : Nat) (M : Mat α) (h : primitiveWith chk m st d data n = .ok (st', d', M)) :
    M.data.size = data.size := by
  simp only [primitiveWith, bind_ok] at h
  obtain ⟨M0, h0, h⟩ := h
  have hd : M0.data.size = data.size := by rw [Mat.new_data h0, squareData_size]
  split at h
  · simp only [pure_ok, Prod.mk.injEq] at h
    rw [← h.2.2]; exact hd
  · simp only [bind_ok, pure_ok] at h
    obtain ⟨⟨st1, d1, M1⟩, hit, _, _, h⟩ := h
    have := iterM_inv (fun (s : State α × Dendrogram α × Mat α) => s.2.2.data.size = data.size)
      (primitiveIter chk m) (fun s s' hs hx => by rw [primitiveIter_size hx]; exact hs) _ _ _ hd hit
    simp only [Prod.mk.injEq] at h
    rw [← h.2.2]; exact this


/-! generic -/

theorem C20.genericL1_size {chk : Bool} {mode : L1Mode} {upd : Nat → α → α → R α} {a b x : Nat}
    {s s' : State α × Mat α} (h : genericL1 chk mode upd a b s x = .ok s') :
    s'.2.data.size = s.2.data.size := by
  obtain ⟨st, M⟩ := s
  simp only [genericL1, bind_ok] at h
  obtain ⟨M1, h1, h⟩ := h
  have e := Mat.update_size h1
  cases mode
  · simp only [bind_ok] at h
    obtain ⟨_, _, h⟩ := h
    split at h
    · simp only [bind_ok, pure_ok] at h
      obtain ⟨_, _, h⟩ := h
      rw [← h]; exact e
    · simp only [pure_ok] at h
      rw [← h]; exact e
  · simp only [bind_ok] at h
    obtain ⟨_, _, _, _, h⟩ := h
    split at h
    · simp only [bind_ok, pure_ok] at h
      obtain ⟨_, _, _, _, h⟩ := h
      rw [← h]; exact e
    · simp only [bind_ok] at h
      obtain ⟨_, _, h⟩ := h
      split at h
      · simp only [bind_ok, pure_ok] at h
        obtain ⟨_, _, h⟩ := h
        rw [← h]; exact e
      · simp only [pure_ok] at h
        rw [← h]; exact e

theorem C20.genericL2_size {chk : Bool} {track : Bool} {upd : Nat → α → α → R α} {a b x : Nat}
    {s s' : State α × Mat α} (h : genericL2 chk track upd a b s x = .ok s') :
    s'.2.data.size = s.2.data.size := by
  obtain ⟨st, M⟩ := s
  simp only [genericL2, bind_ok] at h
  obtain ⟨M1, h1, h⟩ := h
  have e := Mat.update_size h1
  split at h
  · simp only [pure_ok] at h
    rw [← h]; exact e
  · simp only [bind_ok] at h
    obtain ⟨_, _, _, _, h⟩ := h
    split at h
    · simp only [bind_ok, pure_ok] at h
      obtain ⟨_, _, _, _, h⟩ := h
      rw [← h]; exact e
    · simp only [pure_ok] at h
      rw [← h]; exact e

theorem C20.genericL3_size {chk : Bool} {track : Bool} {upd : Nat → α → α → R α} {a b x : Nat}
    {s s' : State α × Mat α × α} (h : genericL3 chk track upd a b s x = .ok s') :
    s'.2.1.data.size = s.2.1.data.size := by
  obtain ⟨st, M, mn⟩ := s
  simp only [genericL3, bind_ok] at h
  obtain ⟨M1, h1, h⟩ := h
  have e := Mat.update_size h1
  split at h
  · simp only [pure_ok] at h
    rw [← h]; exact e
  · simp only [bind_ok] at h
    obtain ⟨_, _, h⟩ := h
    split at h
    · simp only [bind_ok, pure_ok] at h
      obtain ⟨_, _, _, _, h⟩ := h
      rw [← h]; exact e
    · simp only [pure_ok] at h
      rw [← h]; exact e

theorem C20.genericUpdate_size {chk : Bool} {m : Method} {st : State α} {a b : Nat} {M : Mat α}
    {r : State α × Mat α} (h : genericUpdate chk m st a b M = .ok r) :
    r.2.data.size = M.data.size := by
  cases m <;>
  · unfold genericUpdate at h
    simp only [bind_ok, Bool.false_eq_true, if_false, if_true, tracksPriorities] at h
    obtain ⟨_, _, _, _, _, _, _, _, ⟨st1, M1⟩, h1, _, _, ⟨st2, M2⟩, h2, _, _, _, _, ⟨st3, M3, mn⟩, h3, h⟩ := h
    have e1 : M1.data.size = M.data.size :=
      foldlM_inv (fun (X : State α × Mat α) => X.2.data.size = M.data.size) _ _
        (fun s x s' _ hs hx => by rw [genericL1_size hx]; exact hs) _ _ rfl h1
    have e2 : M2.data.size = M.data.size :=
      foldlM_inv (fun (X : State α × Mat α) => X.2.data.size = M.data.size) _ _
        (fun s x s' _ hs hx => by rw [genericL2_size hx]; exact hs) _ _ e1 h2
    have e3 : M3.data.size = M.data.size :=
      foldlM_inv (fun (X : State α × Mat α × α) => X.2.1.data.size = M.data.size) _ _
        (fun s x s' _ hs hx => by rw [genericL3_size hx]; exact hs) _ _ e2 h3
    simp only [pure_ok] at h
    rw [← h]; exact e3

theorem C20.genericIter_size {chk : Bool} {m : Method} {s s' : State α × Dendrogram α × Mat α}
    (h : genericIter chk m s = .ok s') : s'.2.2.data.size = s.2.2.data.size := by
  obtain ⟨st, dend, M⟩ := s
  simp only [genericIter, bind_ok, pure_ok] at h
  obtain ⟨_, _, ⟨oa, q⟩, _, _, _, _, _, _, _, ⟨st1, M1⟩, h1, ⟨_, _⟩, _, h⟩ := h
  rw [← h]; exact genericUpdate_size h1

theorem C20_in_place_generic (chk : Bool) (m : Method) (st st' : State α) (d d' : Dendrogram α)
    (data : Array α) (n : Nat) (M : Mat α) (h : genericWith chk m st d data n = .ok (st', d', M)) :
    M.data.size = data.size := by
  simp only [genericWith, bind_ok] at h
  obtain ⟨M0, h0, h⟩ := h
  have hd : M0.data.size = data.size := by rw [Mat.new_data h0, squareData_size]
  split at h
  · simp only [pure_ok, Prod.mk.injEq] at h
    rw [← h.2.2]; exact hd
  · simp only [bind_ok, pure_ok] at h
    obtain ⟨_, _, _, _, ⟨st1, d1, M1⟩, hit, _, _, h⟩ := h
    have := iterM_inv (fun (s : State α × Dendrogram α × Mat α) => s.2.2.data.size = data.size)
      (genericIter chk m) (fun s s' hs hx => by rw [genericIter_size hx]; exact hs) _ _ _ hd hit
    simp only [Prod.mk.injEq] at h
    rw [← h.2.2]; exact this


/-! nnchain -/

theorem C20.nnStep_data {chk : Bool} {fixed : Nat} {ff : Bool} {s s' : NN α} {x : Nat}
    (h : nnStep chk fixed ff s x = .ok s') : s'.M.data = s.M.data := by
  cases ff <;>
  · simp only [nnStep, bind_ok, Bool.false_eq_true, if_false, if_true] at h
    obtain ⟨_, _, h⟩ := h
    split at h <;> (simp only [pure_ok] at h; rw [← h]; rfl)

theorem C20.nnFold_data {chk : Bool} {fixed : Nat} {ff : Bool} {l : List Nat} {s s' : NN α}
    (h : l.foldlM (nnStep chk fixed ff) s = .ok s') : s'.M.data = s.M.data :=
  foldlM_inv (fun (X : NN α) => X.M.data = s.M.data) _ _
    (fun t x t' _ ht hx => by rw [nnStep_data hx]; exact ht) _ _ rfl h

theorem C20.chainGrow_data {chk : Bool} {act : Active} :
    ∀ (fuel : Nat) (chain : Array Nat) (a b : Nat) (mn : α) (M : Mat α)
      (r : Nat × Nat × α × Array Nat × Mat α),
      chainGrow chk act fuel chain a b mn M = .ok r → r.2.2.2.2.data = M.data := by
  intro fuel
  induction fuel with
  | zero => intro chain a b mn M r h; simp [chainGrow] at h
  | succ fuel ih =>
    intro chain a b mn M r h
    simp only [chainGrow, bind_ok] at h
    obtain ⟨_, _, s1, h1, _, _, s2, h2, _, _, _, _, h⟩ := h
    have e1 := nnFold_data h1
    have e2 := nnFold_data h2
    split at h
    · simp only [pure_ok] at h
      rw [← h]; simp only []; rw [e2, e1]
    · rw [ih _ _ _ _ _ _ h, e2, e1]

theorem C20.chainUpdate_size {chk : Bool} {m : MethodChain} {st : State α} {a b : Nat} {M M' : Mat α}
    (h : chainUpdate chk m st a b M = .ok M') : M'.data.size = M.data.size := by
  cases m <;> simp only [chainUpdate, bind_ok] at h
  · exact updateRows_size h
  · exact updateRows_size h
  · obtain ⟨_, _, _, _, h⟩ := h
    exact updateRows_size h
  · exact updateRows_size h
  · obtain ⟨_, _, _, _, _, _, h⟩ := h
    exact (updateRows_size h).trans rfl

theorem C20.chainIter_size {chk : Bool} {m : MethodChain} {s s' : ChainSt α}
    (h : chainIter chk m s = .ok s') : s'.M.data.size = s.M.data.size := by
  simp only [chainIter] at h
  split at h
  · simp only [bind_ok] at h
    obtain ⟨_, _, _, _, _, _, _, _, _, _, sc, hsc, x1, hx1, x2, h2, M3, h3, _, _, h⟩ := h
    simp only [pure_ok] at hx1 h
    subst hx1
    have e0 := nnFold_data hsc
    have e2 := chainGrow_data _ _ _ _ _ _ _ h2
    have e3 := chainUpdate_size h3
    rw [← h]; simp only []; rw [e3, e2]; simp only []; rw [e0]; rfl
  · simp only [bind_ok] at h
    obtain ⟨_, _, _, _, h⟩ := h
    split at h <;>
    · simp only [bind_ok] at h
      obtain ⟨_, _, x1, hx1, x2, h2, M3, h3, _, _, h⟩ := h
      simp only [pure_ok] at hx1 h
      subst hx1
      have e2 := chainGrow_data _ _ _ _ _ _ _ h2
      have e3 := chainUpdate_size h3
      rw [← h]; simp only []; rw [e3, e2]; rfl

theorem C20_in_place_nnchain (chk : Bool) (m : MethodChain) (st st' : State α) (d d' : Dendrogram α)
    (data : Array α) (n : Nat) (M : Mat α) (h : nnchainWith chk m st d data n = .ok (st', d', M)) :
    M.data.size = data.size := by
  simp only [nnchainWith, bind_ok] at h
  obtain ⟨M0, h0, h⟩ := h
  have hd : M0.data.size = data.size := by rw [Mat.new_data h0, squareData_size]
  split at h
  · simp only [pure_ok, Prod.mk.injEq] at h
    rw [← h.2.2]; exact hd
  · simp only [bind_ok, pure_ok] at h
    obtain ⟨s1, hit, _, _, h⟩ := h
    have := iterM_inv (fun (s : ChainSt α) => s.M.data.size = data.size)
      (chainIter chk m) (fun s s' hs hx => by rw [chainIter_size hx]; exact hs) _ _ _ hd hit
    simp only [Prod.mk.injEq] at h
    rw [← h.2.2]; exact this


/-- Every entry point (the `_with` forms on any prior objects, hence also the wrappers, which are
`runWith` on fresh ones): the matrix handed back is an array of the input's length — it was only
ever changed by `Mat.set` (and the in-place squaring) on the array passed in. -/
theorem C20_in_place (chk : Bool) (alg : Alg) (m : Method) (st st' : State α) (d d' : Dendrogram α)
    (data : Array α) (n : Nat) (M : Mat α) (h : runWith chk alg m st d data n = .ok (st', d', M)) :
    M.data.size = data.size := by
  cases alg <;> simp only [runWith] at h
  · exact C20_in_place_primitive _ _ _ _ _ _ _ _ _ h
  · cases hmc : m.intoMethodChain with
    | none => rw [hmc] at h; simp at h
    | some mc => rw [hmc] at h; exact C20_in_place_nnchain _ _ _ _ _ _ _ _ _ h
  · exact C20_in_place_generic _ _ _ _ _ _ _ _ _ h
  · split at h
    · exact (C20_in_place_mst _ _ _ _ _ _ _ _ h).2
    · simp at h
  · unfold linkageWith at h
    cases hd : dispatch m with
    | mst => rw [hd] at h; exact (C20_in_place_mst _ _ _ _ _ _ _ _ h).2
    | nnchain =>
      rw [hd] at h
      cases hmc : m.intoMethodChain with
      | none => rw [hmc] at h; simp at h
      | some mc => rw [hmc] at h; exact C20_in_place_nnchain _ _ _ _ _ _ _ _ _ h
    | generic => rw [hd] at h; exact C20_in_place_generic _ _ _ _ _ _ _ _ _ h
    | primitive => rw [hd] at h; exact C20_in_place_primitive _ _ _ _ _ _ _ _ _ h
    | linkage => rw [hd] at h; simp at h

end InPlace

/-! ### non-vacuity: the model on concrete calls (numbers as measured on the real crate) -/

/-- A cold `linkage(.., 130, Average)` in f64: 13 allocations, 19 850 bytes at the peak
(`121 n - 8` for kodama's buffers plus the sort's `32 (n - 1)`), largest request 4160. -/
example :
    let es := (call true Caps.empty .linkage .average .f64 130).2
    (count es, peakFrom 0 es, largest es, total es, frees es) = (13, 19850, 4160, 19850, 12) := by
  decide +kernel

/-- Centroid does not sort: 12 allocations of `121 n - 8` bytes. -/
example : total (call true Caps.empty .generic .centroid .f64 130).2 = 121 * 130 - 8 := by decide +kernel

/-- The bound of `C20_peak` is not vacuous and not tight: n = 130 uses 19 850 of 70 656 bytes. -/
example : peakAux true Caps.empty .linkage .average .f64 130 = 19850 := by decide +kernel

/-- A history 200, 150, 200 on fresh objects: the first call allocates, the second and third are
warm and make exactly one allocation (the sort's scratch). -/
example :
    let c1 := (callWith Caps.empty .linkage .average .f64 200).1
    Warm c1 150 ∧ Warm c1 200 ∧ ¬ Warm c1 300 ∧
    (callWith c1 .linkage .average .f64 150).2 = [.alloc 4768, .free 4768] ∧
    (callWith c1 .generic .median .f64 150).2 = [] := by
  decide +kernel

/-- `Warm` is satisfiable and `C20_warm_after_use` applies to a concrete history. -/
example : Warm (afterCalls .f32 Caps.empty [⟨.mst, .single, 7⟩, ⟨.nnchain, .ward, 40⟩, ⟨.generic, .median, 3⟩]) 33 :=
  C20_warm_after_use _ _ _ _ ⟨⟨.nnchain, .ward, 40⟩, by simp, by decide⟩

/-- A chain script within the bound exists, and one outside it does allocate (so the hypothesis of
`C20_value_independent` is needed). -/
example : chainMaxLen 0 [.push, .push, .push, .pop, .pop, .clear, .push] ≤ normObs 3 := by decide +kernel
example : (chainScript 2 0 [.push, .push, .push]).2.2 ≠ [] := by decide +kernel

end Kodama
