/-
C12 (totality: no panic) for WARD linkage through `nnchain_with` / `linkage_with`, for EVERY
ordered number type — the formal counterpart of the SECOND `fix:` commit of the crate.

Before the fix `C12_nnchain_ok` / `C12_nnchain_total` needed the hypothesis `ChainReducible α .ward`,
which was FALSE for IEEE floats: the rounded quotient `((sx+sa)·a + (sx+sb)·b − sx·c)/(sa+sb+sx)` can
be below both `a` and `b` although `c ≤ min(a,b)` (the law sampler found 1 906 violations in 4.1 million
sampled updates), the chain then revisits a cluster and a dead cluster is merged (a concrete failing
run of the real crate exists: n = 32, f64, near-tied input; release builds returned an invalid
dendrogram with last step `(61, 61, size 60)`, debug builds hit an assertion).  The repaired
`method::ward` clamps the quotient from below by the smaller argument whenever the merged distance is
not above it; for that formula `ChainReducible α .ward` is a THEOREM from `OrderLaws α` plus the
no-NaN-generation hypothesis (`chainReducible_ward`, `Lemmas/ChainIter.lean`; `Gen.ward_not_lt`,
`Lemmas/WardClamp.lean`) — no field law, no exact arithmetic.

Proved here (by instantiating `C12_nnchain_ok` / `C12_nnchain_total` / `C12_linkage_ok`), for every
valid matrix (2 ≤ n < 2^31, 2·len = n(n−1)), both build modes, every prior state:

* `C12_nnchain_ward_ok`     `nnchainWith chk .ward …` RETURNS NORMALLY: no index out of bounds, no
                            failed (debug) assertion, no `unwrap` on `None`, no overflow, the fuel of
                            the inner `loop` is never exhausted, no NaN reaches the sort;
* `C12_nnchain_ward_total`  the same in the "ok or nanInSort" form of the other C12 theorems;
* `C12_linkage_ward_ok`     the same through `linkageWith chk .ward`.

Hypotheses (explicit): `OrderLaws α` (true of IEEE `<`), `hsq` (no SQUARED input entry is NaN — Ward
squares the input; for floats: no NaN in the input), `WardNoNaN α` (the update of non-NaN values with
`d(a,b) ≤ d(x,a), d(x,b)` and positive sizes is not NaN; for floats: the numerator does not overflow to
`∞ − ∞`; hypothesis, not proved for floats).

NOT proved: `WardNoNaN` for floats; weighted: `Props/C12Weighted.lean`; average: `Props/C12Average.lean`.
-/
import Kodama.Props.C12
import Kodama.Props.C01Ward
namespace Kodama
open Spec
variable {α : Type} [Num α]

/-- **C12, Ward linkage through `nnchain_with`, any ordered number type**: returns normally. -/
theorem C12_nnchain_ward_ok (L : OrderLaws α) (hn : WardNoNaN α) (chk : Bool)
    (st : State α) (d : Dendrogram α) (data : Array α) (n : Nat) (h2 : 2 ≤ n)
    (hs : n < 2147483648) (hl : 2 * data.size = n * (n - 1))
    (hsq : ∀ (i : Nat) (h : i < data.size), Num.isNaN (Num.mul data[i] data[i]) = false) :
    ∃ r, nnchainWith chk .ward st d data n = .ok r :=
  C12_nnchain_ok L chk .ward (chainReducible_ward L hn) st d data n h2 hs hl
    (noNaNData_squareData_ward hsq)

/-- The same in the form of `C12_nnchain_total` / `C12_mst_total` / `C12_primitive_total`. -/
theorem C12_nnchain_ward_total (L : OrderLaws α) (hn : WardNoNaN α) (chk : Bool)
    (st : State α) (d : Dendrogram α) (data : Array α) (n : Nat) (h2 : 2 ≤ n)
    (hs : n < 2147483648) (hl : 2 * data.size = n * (n - 1))
    (hsq : ∀ (i : Nat) (h : i < data.size), Num.isNaN (Num.mul data[i] data[i]) = false) :
    (∃ r, nnchainWith chk .ward st d data n = .ok r) ∨
      nnchainWith chk .ward st d data n = .error .nanInSort :=
  C12_nnchain_total L chk .ward (chainReducible_ward L hn) st d data n h2 hs hl
    (noNaNData_squareData_ward hsq)

/-- Through `linkage_with` (dispatched to `nnchain_with`). -/
theorem C12_linkage_ward_ok (L : OrderLaws α) (hn : WardNoNaN α) (chk : Bool)
    (st : State α) (d : Dendrogram α) (data : Array α) (n : Nat) (h2 : 2 ≤ n)
    (hs : n < 2147483648) (hl : 2 * data.size = n * (n - 1))
    (hsq : ∀ (i : Nat) (h : i < data.size), Num.isNaN (Num.mul data[i] data[i]) = false) :
    ∃ r, linkageWith chk .ward st d data n = .ok r :=
  C12_linkage_ok L chk .ward .ward (by decide) rfl (chainReducible_ward L hn) st d data n
    h2 hs hl (noNaNData_squareData_ward hsq)

/-! ### Non-vacuity (toy exact number type, a valid 4-point matrix) -/

section NonVacuity
attribute [local instance] Toy.natNum

example : ∃ r, nnchainWith true .ward State.new (Dendrogram.new 4)
    (#[5, 2, 9, 7, 4, 1] : Array Nat) 4 = .ok r :=
  C12_nnchain_ward_ok Toy.natOrderLaws (fun _ _ _ _ _ _ _ _ _ _ _ _ _ _ _ _ => rfl) true _ _ _ 4
    (by decide) (by decide) (by decide) (fun _ _ => rfl)

/-- … and on the rounding toy type on which the UNCLAMPED quotient is not reducible
(`UnclampedWardDefect.unclamped_not_reducible`, `Props/C01Ward.lean`). -/
example : ∃ r, @nnchainWith Nat UnclampedDefect.truncNum true .ward State.new (Dendrogram.new 4)
    (#[5, 2, 9, 7, 4, 1] : Array Nat) 4 = .ok r :=
  @C12_nnchain_ward_ok Nat UnclampedDefect.truncNum UnclampedDefect.truncNum_orderLaws
    (fun _ _ _ _ _ _ _ _ _ _ _ _ _ _ _ _ => rfl) true _ _ _ 4
    (by decide) (by decide) (by decide) (fun _ _ => rfl)

end NonVacuity

end Kodama
