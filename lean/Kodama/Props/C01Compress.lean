/-
C01 (union–find part, tightened tie) — `relabel` with the REAL `find`, path compression included.

`Model/UnionFind.lean` models `LinkageUnionFind::find` without its second, compressing loop and every
C01 theorem was proved about that abstraction; the text of DESIGN §12.2 used to justify the
abstraction in prose ("compression never changes a root").  This file replaces the prose by theorems
about the faithful model `Model/UnionFindC.lean` (`UF.findC`, `UF.unionC`, `relabelC`: both `while
let` loops of src/union.rs:73-89, the rewritten `parents` array threaded through `union` and the
relabel loop), whose `parents` arrays are ALSO compared with the real `LinkageUnionFind` after every
operation (unit-level session `uf` through the hook `verif::VUnionFind`):

* `C01_compress_invisible`  for every method, prior union–find and every raw dendrogram whose labels
  are observation indices, `relabelC` and `relabel` panic alike or return the same dendrogram;
* `C01_findC_root`          on a well-shaped union–find `findC` returns exactly what `find` returns
  and leaves every label's root unchanged (so compression can never be observed through `find`);
* `C01_relabelC`            whenever the raw steps form a spanning tree, the compressing `relabelC`
  returns a `Spec.WellFormed` dendrogram with `observations = n` — C01 for the real relabel;
* `C01_relabelC_total`      and it does return (no panic, fuel of both loops suffices).

Non-vacuity: `example`s below — a union–find on which compression really rewrites `parents`, and the
toy raw tree of `Lemmas/RelabelWF.lean` relabelled by `relabelC`.
-/
import Kodama.Lemmas.UnionFindCompress
import Kodama.Lemmas.RelabelWF
import Kodama.Lemmas.MstInv
namespace Kodama
open Spec
variable {α : Type} [Num α]

theorem C01_compress_invisible (m : Method) (uf0 : UF) (d : Dendrogram α)
    (hlab : ∀ s ∈ d.steps.toList, s.c1 < d.obs ∧ s.c2 < d.obs) :
    (Prod.snd <$> relabelC m uf0 d) = (Prod.snd <$> relabel m uf0 d) :=
  relabelC_eq m uf0 d hlab

theorem C01_findC_root {u : UF} (w : UFW u) (x : Nat) :
    (∀ p, u.find x = .error p → u.findC x = .error p) ∧
    (∀ r, u.find x = .ok r → ∃ u', u.findC x = .ok (r, u') ∧ u'.next = u.next ∧
      u'.parents.size = u.parents.size ∧ UFW u' ∧
      ∀ y ry, RootOf u.parents y ry ↔ RootOf u'.parents y ry) := by
  rcases findC_cases (UFEq.refl w) x with ⟨p, hf, hc⟩ | ⟨r, u', hf, hc, e⟩
  · refine ⟨fun p' h => ?_, fun r h => ?_⟩
    · rw [hf] at h; cases h; exact hc
    · rw [hf] at h; cases h
  · refine ⟨fun p' h => ?_, fun r' h => ?_⟩
    · rw [hf] at h; cases h
    · rw [hf] at h; cases h
      exact ⟨u', hc, e.next.symm, e.same.1.symm, e.wv, e.same.2⟩

/-- Raw steps that form a spanning tree of `0..n` mention observation indices only. -/
theorem labels_of_rawTree {n : Nat} {d : Dendrogram α} (hobs : d.obs = n)
    (hraw : RawTree n (rawOf d)) : ∀ s ∈ d.steps.toList, s.c1 < d.obs ∧ s.c2 < d.obs := by
  intro s hs
  have := hraw.inRange (s.c1, s.c2) (by
    unfold rawOf; exact List.mem_map.mpr ⟨s, hs, rfl⟩)
  rw [hobs]; exact this

theorem C01_relabelC (m : Method) (uf0 uf : UF) (d d' : Dendrogram α) (n : Nat) (hn : 2 ≤ n)
    (hobs : d.obs = n) (hraw : RawTree n (rawOf d))
    (h : relabelC m uf0 d = .ok (uf, d')) : d'.obs = n ∧ WellFormed n d'.steps.toList := by
  have heq := relabelC_eq m uf0 d (labels_of_rawTree hobs hraw)
  rw [h] at heq
  cases hr : relabel m uf0 d with
  | error p => rw [hr] at heq; cases heq
  | ok r =>
    rw [hr] at heq
    obtain ⟨uf', d''⟩ := r
    have : d' = d'' := by
      simp only [Functor.map, Except.map] at heq
      injection heq
    subst this
    exact relabel_wellFormed m uf0 uf' d d' n hn hobs hraw hr

theorem C01_relabelC_total (m : Method) (uf0 : UF) (d : Dendrogram α) (n : Nat) (hn : 2 ≤ n)
    (hobs : d.obs = n) (hraw : RawTree n (rawOf d))
    (hsort : m.requiresSorting = false ∨ d.steps.size < 2 ∨
      ∀ s ∈ d.steps.toList, Num.isNaN s.d = false) :
    ∃ r, relabelC m uf0 d = .ok r := by
  obtain ⟨r, hr⟩ := relabel_total m uf0 d n hn hobs hraw hsort
  have heq := relabelC_eq m uf0 d (labels_of_rawTree hobs hraw)
  rw [hr] at heq
  cases hc : relabelC m uf0 d with
  | error p => rw [hc] at heq; cases heq
  | ok r' => exact ⟨r', rfl⟩

/-! ### Non-vacuity -/

/-- Compression really rewrites `parents`: 0 → 3 → 4 becomes 0 → 4. -/
example : (UF.mk #[3, 3, 4, 4, 4, 5, 6] 5).findC 0 = .ok (4, UF.mk #[4, 3, 4, 4, 4, 5, 6] 5) := by
  rfl

/-- … on a union–find that meets the hypothesis of `C01_findC_root`. -/
example : UFW (UF.mk #[3, 3, 4, 4, 4, 5, 6] 5) := by
  refine ⟨by decide, ?_, ?_⟩
  · intro x y h
    have hx : x < 7 := (Array.getElem?_eq_some_iff.mp h).1
    have : ∀ x < 7, ∀ y, (#[3, 3, 4, 4, 4, 5, 6] : Array Nat)[x]? = some y → y = x ∨ (x < y ∧ y < 5) := by
      decide
    exact this x hx y h
  · intro x h1 h2
    have : ∀ x < 7, 5 ≤ x → (#[3, 3, 4, 4, 4, 5, 6] : Array Nat)[x]? = some x := by decide
    exact this x h2 h1

/-- The toy raw tree of `Lemmas/RelabelWF.lean` through the compressing relabel: same dendrogram as
through `relabel` (`toy_relabel_single`). -/
example : (Prod.snd <$> @relabelC Nat toyNum .single ⟨#[9, 9], 3⟩ toyRaw) =
    (Prod.snd <$> @relabel Nat toyNum .single ⟨#[9, 9], 3⟩ toyRaw) :=
  @relabelC_eq Nat toyNum .single ⟨#[9, 9], 3⟩ toyRaw (by decide)

end Kodama
