/-
C02 UNDER FLOATING-POINT ROUNDING — a rounding-error theorem for AVERAGE linkage through the
nearest-neighbour-chain algorithm (`nnchain_with`, and `linkage_with(Method::Average)`, which the
generated dispatch table routes to it).

The other C02 files prove "reported height = documented criterion of the two merged clusters" in
EXACT arithmetic only (`ExactLaws K`).  Here the number type `α` is ABSTRACT and is only assumed to
satisfy THE STANDARD MODEL OF FLOATING-POINT ARITHMETIC `Round.Model val fin u lo hi N`
(`Lemmas/RoundModel.lean`): on finite arguments whose exact result is `0` or has magnitude in
`[lo, hi]`, each of `+ × /` returns the exact result times `(1 + δ)`, `|δ| ≤ u`; sizes `≤ N` convert
exactly; `<` is the order of the values; finite numbers are not NaN.

## What is proved

* `C02_nnchain_average_rounded`   for every valid matrix the call RETURNS, and EVERY returned step
      `(c1, c2, h, size)` satisfies, with `A`, `B` the observation sets of the labels `c1`, `c2` in the
      returned dendrogram (`Spec.leaves`, as in `C02_nnchain`) and `mean` the EXACT arithmetic mean of
      `val (input entry (x, y))` over the cross pairs `x ∈ A`, `y ∈ B` (`Crit.avg`):

          h finite,   size = |A| + |B| ≤ n,   A ∩ B = ∅,
          mean · (1−u)^k ≤ val h      and      val h · (1−u)^k ≤ mean,        k = 4·(size − 2)

      (`Round.Near u k mean (val h)`: `val h = mean · ∏ (1+δᵢ)^{±1}` with `k` factors — the classical
      `θ_k`).  CONSTANT: `c = 4` rounding factors per unit of cluster size (`×`, `+`, the rounded
      denominator `sa + sb`, `/`; comparisons and the clamp cost nothing).
* `C02_nnchain_average_rounded_bounds`  the same with `Near` unfolded.
* `C02_nnchain_average_rounded_one_add` the weaker form `mean·(1−u)^(4·size) ≤ val h ≤ mean·(1+u)^(8·size)`
      (`u ≤ 1/2`).
* `C02_linkage_average_rounded`   the same through `linkageWith … .average`.
* `C02_average_rounded_gamma`     hence `|val h − mean| ≤ γ · mean` whenever `4·n·u ≤ c < 1` and
      `1 ≤ (1+γ)(1−c)`;
* `C02_average_rounded_1e9`       `u ≤ 2⁻⁵³`, `n ≤ 10⁶`  ⇒  `|val h − mean| ≤ 10⁻⁹ · mean`
      (`≤ 10⁻⁹ ×` the input scale, since `mean ≤ dhi`): the tolerance of the property for `f64`;
* `C02_average_rounded_1e3`       `u ≤ 2⁻²⁴`, `n ≤ 2000`  ⇒  `|val h − mean| ≤ 10⁻³ · mean`: for `f32`.
* `C02_nnchain_weighted_rounded`, `C02_linkage_weighted_rounded`   WEIGHTED linkage, strictly positive
      entries in `[dlo, dhi]`, under the ADDITIONAL hypothesis `ChainGeOn ok .weighted` (see "not proved"):
      every returned height is within `2·(size − 2)` factors (`c = 2`: `+`, `× half`) of the recursively
      halved mean `Crit.wdist` of the original entries over the merge trees `Crit.clusterTree` of the
      two merged labels (tree level: `Round.wgtComputed_near`, `Lemmas/RoundWeighted.lean`).
* Non-vacuity: the bundle and all hypotheses are satisfied by exact `ℚ` (`u = 0`), by a toy type that
  rounds every operation DOWN by the factor `1 − 1/1000` (average; on it the clamp does fire), and by a
  toy type that rounds every operation toward `+∞` (weighted; monotone rounding, hence reducible).

## Hypotheses, and why each is needed

* `OrderLaws α`             `<` is a strict weak order off NaN (true of IEEE): the chain invariant.
* `Round.Model …`           the rounding model (TRUSTED for IEEE floats, see below).
* `2 ≤ n < 2³¹`, `2·len = n(n−1)`   a valid condensed matrix (as everywhere).
* every input entry is finite and `0` or in `[dlo, dhi]`, `0 < dlo ≤ dhi` (`hdata`):
      NON-NEGATIVITY — there is no cancellation, so RELATIVE error bounds compose (a sum of
      non-negative terms known up to `k` factors is known up to `k` factors); with entries of both
      signs no relative bound on the mean exists.  The interval `[dlo, dhi]` feeds the range analysis.
* `Round.RangeOk u lo hi N n dlo dhi`:  `n ≤ N`, `lo·n³ ≤ dlo·(1−u)^(4n+3)`, `n·dhi ≤ hi·(1−u)^(4n+3)`:
      NO OVERFLOW / UNDERFLOW — every exact intermediate result of every update is then `0` or normal,
      which is what the model's laws require.  (All values of a run are `0` or in
      `[dlo/n²·(1−u)^(4n), dhi/(1−u)^(4n)]`, `Round.RAvg.range`.)  There is NO run-level "`ok`"
      hypothesis: finiteness of every value of the run is DERIVED.

## What is NOT proved

* That IEEE-754 binary64/binary32 with round-to-nearest satisfy `Round.Model` with `u = 2⁻⁵³/2⁻²⁴`,
  `lo` = least positive normal, `hi` = largest finite, `N = 2⁵³/2²⁴` — the textbook fact
  (Higham, *Accuracy and Stability of Numerical Algorithms*, §2.2); it is a hypothesis here.
* Ward / centroid / median: their formulas subtract, cancellation forbids a relative bound.
* Reducibility of the WEIGHTED update `half·(a+b) ≥ min(a,b)`: it holds of IEEE arithmetic because
  rounding is monotone, but it does not follow from the standard model (and `method::weighted` has no
  clamp), so `C02_nnchain_weighted_rounded` takes it as the explicit hypothesis `ChainGeOn ok .weighted`
  on a domain `ok` containing the values of the run (the unrestricted `ChainGe α .weighted` is false of
  floats by overflow at `−max_value`; on a domain of moderate finite values it is what
  `Lemmas/WeightedMono.lean` derives from the sampled `HalfAddLaws`).
  Single / complete need no rounding analysis (exact, `Props/C03Nnchain`).
* Other entry points than `nnchain_with` / `linkage_with` (`primitive`, `generic`).

## Proof

`Lemmas/RoundModel.lean` (one update: `Model.average_near`, clamp included), `RoundTree.lean`
(`RAvg`: "within `4(|s|+|t|−2)` factors of the mean over the cross pairs of merge trees `s`, `t`" is
propagated by the update), `RoundChain.lean` (the loop keeps the matrix `RAvg`-related to the cluster
trees and every raw step at least as high as the earlier steps inside its two clusters),
`RoundSort.lean` (hence the stable sort is a legal replay and the union–find labels of `relabel` name
exactly those clusters).  The clamped average is reducible in every ordered type
(`chainGe_average`); absence of NaN is derived from finiteness.
-/
import Kodama.Lemmas.RoundTree
import Kodama.Lemmas.RoundWeighted
import Kodama.Lemmas.WeightedMono
import Kodama.Lemmas.RoundSort
import Kodama.Props.C03Nnchain
import Mathlib.Tactic.NormNum
set_option linter.unusedSectionVars false
namespace Kodama
open Spec Crit MTree Finset Round

variable {K : Type} [Field K] [LinearOrder K] [IsStrictOrderedRing K]
variable {α : Type} [Num α]

/-- The exact base dissimilarities of a run: the values of the input entries. -/
def valD (val : α → K) (n : Nat) (data : Array α) : Nat → Nat → K :=
  fun i j => val ((Spec.init .average n data).D i j)

/-- Every off-diagonal entry of the spec's initial table is an entry of the input array. -/
theorem init_D_average_mem (data : Array α) (n : Nat) (h2 : 2 ≤ n) (hs : n < 2147483648)
    (hl : 2 * data.size = n * (n - 1)) (i j : Nat) (hi : i < n) (hj : j < n) (hij : i ≠ j) :
    ∃ (k : Nat) (h : k < data.size), (Spec.init .average n data).D i j = data[k] := by
  have e := init_dval .average data n h2 hs hl i j hi hj hij
  have hsq : squareData Method.average data = data := by simp [squareData, Method.onSquares]
  rw [hsq] at e
  have h1 := idxN_lt n (min i j) (max i j) (by omega) (by omega)
  have hlt : Gen.idxN n (min i j) (max i j) < data.size := by omega
  refine ⟨_, hlt, ?_⟩
  rw [← e]
  unfold Mat.dval
  simp [Array.getD, hlt]

theorem baseOk_valD {val : α → K} {fin : α → Prop} {dlo dhi : K} (data : Array α) (n : Nat)
    (h2 : 2 ≤ n) (hs : n < 2147483648) (hl : 2 * data.size = n * (n - 1))
    (hdlo : 0 < dlo) (hdle : dlo ≤ dhi)
    (hdata : ∀ (k : Nat) (h : k < data.size), fin data[k] ∧ In0 dlo dhi (val data[k])) :
    BaseOk n (valD val n data) dlo dhi where
  symm := fun i j => by unfold valD; rw [init_D_symm]
  dlo_pos := hdlo
  dlo_le := hdle
  entry := fun i j hi hj hij => by
    obtain ⟨k, hk, e⟩ := init_D_average_mem data n h2 hs hl i j hi hj hij
    unfold valD; rw [e]; exact (hdata k hk).2

/-- **C02 for average linkage through `nnchain_with`, under the standard model of floating-point
arithmetic.**  See the file header for the statement in words, the hypotheses and the constant. -/
theorem C02_nnchain_average_rounded (L : OrderLaws α) {val : α → K} {fin : α → Prop}
    {u lo hi : K} {N : Nat} (RM : Round.Model val fin u lo hi N)
    (chk : Bool) (st : State α) (d : Dendrogram α) (data : Array α) (n : Nat)
    (h2 : 2 ≤ n) (hs : n < 2147483648) (hl : 2 * data.size = n * (n - 1))
    {dlo dhi : K} (hdlo : 0 < dlo) (hdle : dlo ≤ dhi)
    (hdata : ∀ (k : Nat) (h : k < data.size), fin data[k] ∧ In0 dlo dhi (val data[k]))
    (Rg : RangeOk u lo hi N n dlo dhi) :
    ∃ st' d' M', nnchainWith chk .average st d data n = .ok (st', d', M') ∧
      ∀ (i : Nat) (s : Step α), d'.steps.toList[i]? = some s →
        let steps := d'.steps.toList
        let A := (Spec.leaves n steps steps.length s.c1).toFinset
        let B := (Spec.leaves n steps steps.length s.c2).toFinset
        fin s.d ∧ Disjoint A B ∧ s.size = A.card + B.card ∧ s.size ≤ n ∧
          0 ≤ avg (valD val n data) A B ∧
          Near u (4 * (s.size - 2)) (avg (valD val n data) A B) (val s.d) := by
  have B := baseOk_valD (val := val) (fin := fin) data n h2 hs hl hdlo hdle hdata
  have C : LWCompat (MethodChain.intoMethod .average) (RAvg val fin u n (valD val n data)) :=
    lwCompat_RAvg RM B Rg
  have hsq : squareData (MethodChain.intoMethod .average) data = data := by
    simp [squareData, MethodChain.intoMethod, Method.onSquares]
  have hnan : NoNaNData (squareData (MethodChain.intoMethod .average) data) := by
    rw [hsq]; exact fun k hk => RM.notNaN _ (hdata k hk).1
  have hl' : 2 * (squareData (MethodChain.intoMethod .average) data).size = n * (n - 1) := by
    rw [squareData_size]; exact hl
  obtain ⟨s1, hloop, hres⟩ := roundLoop L chk .average ((chainGe_average L).on (fun _ => True)) C
    (fun _ _ _ h => RM.notNaN _ h.fin) (fun _ _ _ _ => trivial) data n h2 hs hl hnan
    (fun i j hi hj hij => by
      obtain ⟨k, hk, e⟩ := init_D_average_mem data n h2 hs hl i j hi hj hij
      refine RAvg.leaf hi hj ?_ rfl
      show fin ((Spec.init .average n data).D i j)
      rw [e]; exact (hdata k hk).1)
  -- `nnchainWith` is the loop followed by `relabel` and `sqrt`
  have heq : nnchainWith chk .average st d data n =
      (relabel (MethodChain.intoMethod .average) s1.st.set s1.dend >>= fun r =>
        pure ({ s1.st with set := r.1 }, sqrtSteps (MethodChain.intoMethod .average) r.2, s1.M)) := by
    unfold nnchainWith
    simp only []
    rw [Mat.new_ok chk (squareData (MethodChain.intoMethod .average) data) n h2 hs hl']
    have hn0 : ¬ n = 0 := by omega
    simp only [bind, Except.bind, hn0, if_false, State.reset_eq_fresh, dendrogramReset_eq, hloop]
  obtain ⟨⟨uf, d'⟩, hr⟩ := relabel_total (MethodChain.intoMethod .average) s1.st.set s1.dend n h2
    hres.res.obs hres.res.raw (Or.inr (Or.inr hres.res.heights))
  obtain ⟨hwf, hall⟩ := relabel_round L (MethodChain.intoMethod .average) rfl s1.st.set uf s1.dend d'
    n h2 hres.res.obs hres.res.raw hres.res.heights hres.run hr
  have hsqrt : sqrtSteps (MethodChain.intoMethod .average) d' = d' := by
    simp [sqrtSteps, MethodChain.intoMethod, Method.onSquares]
  refine ⟨{ s1.st with set := uf }, d', s1.M, ?_, ?_⟩
  · rw [heq, hr]; simp only [bind, Except.bind, pure, Except.pure, hsqrt]
  · intro i s hi
    obtain ⟨T₁, T₂, hR, hdisj, hleaves, hsize⟩ := hall i s hi
    have hcard : T₁.leaves.card + T₂.leaves.card ≤ n := by
      have : (T₁.leaves ∪ T₂.leaves).card ≤ n :=
        card_le_of_lt (fun x hx => by
          rcases mem_union.mp hx with h' | h'
          · exact hR.ls x h'
          · exact hR.lt x h')
      rwa [card_union_of_disjoint hdisj] at this
    have hnn := B.avg_nonneg hR.ls hR.lt hdisj T₁.leaves_nonempty T₂.leaves_nonempty
    rcases hleaves with ⟨e1, e2⟩ | ⟨e1, e2⟩
    · simp only [e1, e2]
      exact ⟨hR.fin, hdisj, hsize, by omega, hnn, by rw [hsize]; exact hR.near⟩
    · have hR' := hR.symm B
      simp only [e1, e2]
      refine ⟨hR.fin, hdisj.symm, by omega, by omega, ?_, ?_⟩
      · rw [avg_symm B.symm]; exact hnn
      · rw [hsize, Nat.add_comm]; exact hR'.near

/-- `C02_nnchain_average_rounded` with the two-sided bound written out. -/
theorem C02_nnchain_average_rounded_bounds (L : OrderLaws α) {val : α → K} {fin : α → Prop}
    {u lo hi : K} {N : Nat} (RM : Round.Model val fin u lo hi N)
    (chk : Bool) (st : State α) (d : Dendrogram α) (data : Array α) (n : Nat)
    (h2 : 2 ≤ n) (hs : n < 2147483648) (hl : 2 * data.size = n * (n - 1))
    {dlo dhi : K} (hdlo : 0 < dlo) (hdle : dlo ≤ dhi)
    (hdata : ∀ (k : Nat) (h : k < data.size), fin data[k] ∧ In0 dlo dhi (val data[k]))
    (Rg : RangeOk u lo hi N n dlo dhi) :
    ∃ st' d' M', nnchainWith chk .average st d data n = .ok (st', d', M') ∧
      ∀ (i : Nat) (s : Step α), d'.steps.toList[i]? = some s →
        let steps := d'.steps.toList
        let A := (Spec.leaves n steps steps.length s.c1).toFinset
        let B := (Spec.leaves n steps steps.length s.c2).toFinset
        let mean := avg (valD val n data) A B
        mean * (1 - u) ^ (4 * (s.size - 2)) ≤ val s.d ∧
          val s.d * (1 - u) ^ (4 * (s.size - 2)) ≤ mean := by
  obtain ⟨st', d', M', hrun, h⟩ :=
    C02_nnchain_average_rounded L RM chk st d data n h2 hs hl hdlo hdle hdata Rg
  exact ⟨st', d', M', hrun, fun i s hi => (h i s hi).2.2.2.2.2⟩

/-- The bound in the `(1−u)` / `(1+u)` form with exponents proportional to the step's `size`:
`mean·(1−u)^(4·size) ≤ val h ≤ mean·(1+u)^(8·size)` for `u ≤ 1/2` (`1/(1−u) ≤ (1+u)²` there; the
sharper two-sided statement is `C02_nnchain_average_rounded_bounds`). -/
theorem C02_nnchain_average_rounded_one_add (L : OrderLaws α) {val : α → K} {fin : α → Prop}
    {u lo hi : K} {N : Nat} (RM : Round.Model val fin u lo hi N) (hu2 : u ≤ 1 / 2)
    (chk : Bool) (st : State α) (d : Dendrogram α) (data : Array α) (n : Nat)
    (h2 : 2 ≤ n) (hs : n < 2147483648) (hl : 2 * data.size = n * (n - 1))
    {dlo dhi : K} (hdlo : 0 < dlo) (hdle : dlo ≤ dhi)
    (hdata : ∀ (k : Nat) (h : k < data.size), fin data[k] ∧ In0 dlo dhi (val data[k]))
    (Rg : RangeOk u lo hi N n dlo dhi) :
    ∃ st' d' M', nnchainWith chk .average st d data n = .ok (st', d', M') ∧
      ∀ (i : Nat) (s : Step α), d'.steps.toList[i]? = some s →
        let steps := d'.steps.toList
        let A := (Spec.leaves n steps steps.length s.c1).toFinset
        let B := (Spec.leaves n steps steps.length s.c2).toFinset
        let mean := avg (valD val n data) A B
        mean * (1 - u) ^ (4 * s.size) ≤ val s.d ∧ val s.d ≤ mean * (1 + u) ^ (8 * s.size) := by
  obtain ⟨st', d', M', hrun, h⟩ :=
    C02_nnchain_average_rounded L RM chk st d data n h2 hs hl hdlo hdle hdata Rg
  refine ⟨st', d', M', hrun, fun i s hi => ?_⟩
  obtain ⟨_, _, _, _, hnn, hnear⟩ := h i s hi
  have hk : 4 * (s.size - 2) ≤ 4 * s.size := by omega
  have hnear' := hnear.mono RM.u_nonneg RM.u_lt_one hnn hk
  refine ⟨hnear'.1, ?_⟩
  have := hnear'.le_mul_one_add_pow RM.u_nonneg hu2 hnn
  have e : 2 * (4 * s.size) = 8 * s.size := by ring
  rw [e] at this
  exact this

/-- **The same through `linkage_with(Method::Average)`** (dispatched to `nnchain_with`). -/
theorem C02_linkage_average_rounded (L : OrderLaws α) {val : α → K} {fin : α → Prop}
    {u lo hi : K} {N : Nat} (RM : Round.Model val fin u lo hi N)
    (chk : Bool) (st : State α) (d : Dendrogram α) (data : Array α) (n : Nat)
    (h2 : 2 ≤ n) (hs : n < 2147483648) (hl : 2 * data.size = n * (n - 1))
    {dlo dhi : K} (hdlo : 0 < dlo) (hdle : dlo ≤ dhi)
    (hdata : ∀ (k : Nat) (h : k < data.size), fin data[k] ∧ In0 dlo dhi (val data[k]))
    (Rg : RangeOk u lo hi N n dlo dhi) :
    ∃ st' d' M', linkageWith chk .average st d data n = .ok (st', d', M') ∧
      ∀ (i : Nat) (s : Step α), d'.steps.toList[i]? = some s →
        let steps := d'.steps.toList
        let A := (Spec.leaves n steps steps.length s.c1).toFinset
        let B := (Spec.leaves n steps steps.length s.c2).toFinset
        fin s.d ∧ Disjoint A B ∧ s.size = A.card + B.card ∧ s.size ≤ n ∧
          0 ≤ avg (valD val n data) A B ∧
          Near u (4 * (s.size - 2)) (avg (valD val n data) A B) (val s.d) := by
  have e := linkageWith_eq_nnchainWith chk .average (by decide) st d data n
  rw [show MethodChain.intoMethod .average = Method.average from rfl] at e
  rw [e]
  exact C02_nnchain_average_rounded L RM chk st d data n h2 hs hl hdlo hdle hdata Rg

/-! ## Numeric corollaries -/

/-- Bernoulli: `1 − k·u ≤ (1−u)^k`. -/
theorem one_sub_mul_le_pow_w {u : K} (hu : u < 1) (k : Nat) : 1 - (k : K) * u ≤ (1 - u) ^ k := by
  have := one_add_mul_le_pow (R := K) (a := -u) (by linarith) k
  have e : (1 : K) + -u = 1 - u := by ring
  rw [e] at this
  linarith

/-- From `k` rounding factors to a relative error `γ`: enough that `k·u ≤ c` and
`1 ≤ (1+γ)(1−c)`. -/
theorem near_rel_le {u c γ A x : K} {k : Nat} (h0 : 0 ≤ u) (hu : u < 1) (hA : 0 ≤ A)
    (h : Near u k A x) (hc : (k : K) * u ≤ c) (hγ0 : 0 ≤ γ) (hγ : 1 ≤ (1 + γ) * (1 - c)) :
    |x - A| ≤ γ * A := by
  refine near_abs_sub_le h0 hu hA h ?_
  have h1 := one_sub_mul_le_pow_w hu k
  calc (1 : K) ≤ (1 + γ) * (1 - c) := hγ
    _ ≤ (1 + γ) * (1 - (k : K) * u) := mul_le_mul_of_nonneg_left (by linarith) (by linarith)
    _ ≤ (1 + γ) * (1 - u) ^ k := mul_le_mul_of_nonneg_left h1 (by linarith)

/-- **Relative-error form**: every returned height is within `γ · mean` of the exact mean whenever
`4·n·u ≤ c` and `1 ≤ (1+γ)(1−c)` (e.g. `γ = c/(1−c)`). -/
theorem C02_average_rounded_gamma (L : OrderLaws α) {val : α → K} {fin : α → Prop}
    {u lo hi : K} {N : Nat} (RM : Round.Model val fin u lo hi N)
    (chk : Bool) (st : State α) (d : Dendrogram α) (data : Array α) (n : Nat)
    (h2 : 2 ≤ n) (hs : n < 2147483648) (hl : 2 * data.size = n * (n - 1))
    {dlo dhi : K} (hdlo : 0 < dlo) (hdle : dlo ≤ dhi)
    (hdata : ∀ (k : Nat) (h : k < data.size), fin data[k] ∧ In0 dlo dhi (val data[k]))
    (Rg : RangeOk u lo hi N n dlo dhi)
    {c γ : K} (hc : 4 * (n : K) * u ≤ c) (hγ0 : 0 ≤ γ) (hγ : 1 ≤ (1 + γ) * (1 - c)) :
    ∃ st' d' M', linkageWith chk .average st d data n = .ok (st', d', M') ∧
      ∀ (i : Nat) (s : Step α), d'.steps.toList[i]? = some s →
        let steps := d'.steps.toList
        let A := (Spec.leaves n steps steps.length s.c1).toFinset
        let B := (Spec.leaves n steps steps.length s.c2).toFinset
        |val s.d - avg (valD val n data) A B| ≤ γ * avg (valD val n data) A B := by
  obtain ⟨st', d', M', hrun, h⟩ :=
    C02_linkage_average_rounded L RM chk st d data n h2 hs hl hdlo hdle hdata Rg
  refine ⟨st', d', M', hrun, fun i s hi => ?_⟩
  obtain ⟨_, _, _, hle, hnn, hnear⟩ := h i s hi
  refine near_rel_le RM.u_nonneg RM.u_lt_one hnn hnear ?_ hγ0 hγ
  have hk : ((4 * (s.size - 2) : Nat) : K) ≤ 4 * (n : K) := by
    have : 4 * (s.size - 2) ≤ 4 * n := by omega
    exact_mod_cast this
  exact le_trans (mul_le_mul_of_nonneg_right hk RM.u_nonneg) hc

/-- **The tolerance of the property for `f64`**: unit roundoff at most `2⁻⁵³`, at most `10⁶`
observations ⇒ every returned height is within `10⁻⁹` (relative) of the exact mean over the cross
pairs of the original matrix. -/
theorem C02_average_rounded_1e9 (L : OrderLaws α) {val : α → K} {fin : α → Prop}
    {u lo hi : K} {N : Nat} (RM : Round.Model val fin u lo hi N)
    (chk : Bool) (st : State α) (d : Dendrogram α) (data : Array α) (n : Nat)
    (h2 : 2 ≤ n) (hs : n < 2147483648) (hl : 2 * data.size = n * (n - 1))
    {dlo dhi : K} (hdlo : 0 < dlo) (hdle : dlo ≤ dhi)
    (hdata : ∀ (k : Nat) (h : k < data.size), fin data[k] ∧ In0 dlo dhi (val data[k]))
    (Rg : RangeOk u lo hi N n dlo dhi)
    (hu : u ≤ 1 / 2 ^ 53) (hn : n ≤ 1000000) :
    ∃ st' d' M', linkageWith chk .average st d data n = .ok (st', d', M') ∧
      ∀ (i : Nat) (s : Step α), d'.steps.toList[i]? = some s →
        let steps := d'.steps.toList
        let A := (Spec.leaves n steps steps.length s.c1).toFinset
        let B := (Spec.leaves n steps steps.length s.c2).toFinset
        |val s.d - avg (valD val n data) A B| ≤ 1 / 1000000000 * avg (valD val n data) A B := by
  have hnK : (n : K) ≤ 1000000 := by exact_mod_cast hn
  have hn0 : (0 : K) ≤ (n : K) := Nat.cast_nonneg n
  refine C02_average_rounded_gamma L RM chk st d data n h2 hs hl hdlo hdle hdata Rg
    (c := 4 * 1000000 * (1 / 2 ^ 53)) ?_ (by norm_num) (by norm_num)
  have h1 : 4 * (n : K) * u ≤ 4 * (n : K) * (1 / 2 ^ 53) :=
    mul_le_mul_of_nonneg_left hu (by linarith)
  have h2' : 4 * (n : K) * (1 / 2 ^ 53) ≤ 4 * 1000000 * (1 / 2 ^ 53) :=
    mul_le_mul_of_nonneg_right (by linarith) (by norm_num)
  linarith

/-- **The tolerance of the property for `f32`**: unit roundoff at most `2⁻²⁴`, at most `2000`
observations ⇒ relative error at most `10⁻³`. -/
theorem C02_average_rounded_1e3 (L : OrderLaws α) {val : α → K} {fin : α → Prop}
    {u lo hi : K} {N : Nat} (RM : Round.Model val fin u lo hi N)
    (chk : Bool) (st : State α) (d : Dendrogram α) (data : Array α) (n : Nat)
    (h2 : 2 ≤ n) (hs : n < 2147483648) (hl : 2 * data.size = n * (n - 1))
    {dlo dhi : K} (hdlo : 0 < dlo) (hdle : dlo ≤ dhi)
    (hdata : ∀ (k : Nat) (h : k < data.size), fin data[k] ∧ In0 dlo dhi (val data[k]))
    (Rg : RangeOk u lo hi N n dlo dhi)
    (hu : u ≤ 1 / 2 ^ 24) (hn : n ≤ 2000) :
    ∃ st' d' M', linkageWith chk .average st d data n = .ok (st', d', M') ∧
      ∀ (i : Nat) (s : Step α), d'.steps.toList[i]? = some s →
        let steps := d'.steps.toList
        let A := (Spec.leaves n steps steps.length s.c1).toFinset
        let B := (Spec.leaves n steps steps.length s.c2).toFinset
        |val s.d - avg (valD val n data) A B| ≤ 1 / 1000 * avg (valD val n data) A B := by
  have hnK : (n : K) ≤ 2000 := by exact_mod_cast hn
  have hn0 : (0 : K) ≤ (n : K) := Nat.cast_nonneg n
  refine C02_average_rounded_gamma L RM chk st d data n h2 hs hl hdlo hdle hdata Rg
    (c := 4 * 2000 * (1 / 2 ^ 24)) ?_ (by norm_num) (by norm_num)
  have h1 : 4 * (n : K) * u ≤ 4 * (n : K) * (1 / 2 ^ 24) :=
    mul_le_mul_of_nonneg_left hu (by linarith)
  have h2' : 4 * (n : K) * (1 / 2 ^ 24) ≤ 4 * 2000 * (1 / 2 ^ 24) :=
    mul_le_mul_of_nonneg_right (by linarith) (by norm_num)
  linarith

/-! ## Weighted linkage (under an explicit reducibility hypothesis) -/

theorem init_D_weighted_eq (n : Nat) (data : Array α) :
    (Spec.init .weighted n data).D = (Spec.init .average n data).D := rfl

/-- **C02 for weighted linkage through `nnchain_with`, under the standard model AND reducibility of
the weighted update ON A DOMAIN** (`hge : ChainGeOn ok .weighted`: `half·(a+b) ≥ t` whenever `a, b ≥ t`,
all in `ok`; `hok`: the domain contains every finite value in `[dlo·(1−u)^(2n), dhi/(1−u)^(2n)]`, the
range of all values of the run).  For IEEE arithmetic `ChainGeOn ok .weighted` holds on finite values
of moderate magnitude because rounding is monotone (`ChainReducibleOn.chainGeOn`,
`chainReducibleOn_weighted`, `HalfAddLaws`: `Lemmas/WeightedMono.lean`, sampled not proved); it is NOT
a consequence of the standard model, and the crate's `method::weighted` has no clamp.  Entries
strictly positive, in `[dlo, dhi]`.  Every returned height
is within `2·(size − 2)` rounding factors of the recursively halved mean `Crit.wdist` of the original
entries over the merge trees of the two merged clusters. -/
theorem C02_nnchain_weighted_rounded (L : OrderLaws α) {val : α → K} {fin : α → Prop}
    {u lo hi : K} {N : Nat} (RM : Round.Model val fin u lo hi N)
    {ok : α → Prop} (hge : ChainGeOn ok .weighted)
    (chk : Bool) (st : State α) (d : Dendrogram α) (data : Array α) (n : Nat)
    (h2 : 2 ≤ n) (hs : n < 2147483648) (hl : 2 * data.size = n * (n - 1))
    {dlo dhi : K} (hdlo : 0 < dlo)
    (hdata : ∀ (k : Nat) (h : k < data.size),
      fin data[k] ∧ dlo ≤ val data[k] ∧ val data[k] ≤ dhi)
    (Rg : RangeOkW u lo hi n dlo dhi)
    (hok : ∀ v, fin v → dlo * (1 - u) ^ (2 * n) ≤ val v → val v ≤ dhi / (1 - u) ^ (2 * n) → ok v) :
    ∃ st' d' M', nnchainWith chk .weighted st d data n = .ok (st', d', M') ∧
      ∀ (i : Nat) (s : Step α), d'.steps.toList[i]? = some s →
        let steps := d'.steps.toList
        let w := wdist (valD val n data) (clusterTree n steps s.c1) (clusterTree n steps s.c2)
        fin s.d ∧ s.size ≤ n ∧ 0 ≤ w ∧ Near u (2 * (s.size - 2)) w (val s.d) := by
  have B : BaseOkW n (valD val n data) dlo dhi :=
    { symm := fun i j => by unfold valD; rw [init_D_symm]
      dlo_pos := hdlo
      entry := fun i j hi hj hij => by
        obtain ⟨k, hk, e⟩ := init_D_average_mem data n h2 hs hl i j hi hj hij
        unfold valD; rw [e]; exact (hdata k hk).2 }
  have C : LWCompat (MethodChain.intoMethod .weighted) (RWgt val fin u n (valD val n data)) :=
    lwCompat_RWgt RM B Rg
  have hsq : squareData (MethodChain.intoMethod .weighted) data = data := by
    simp [squareData, MethodChain.intoMethod, Method.onSquares]
  have hnan : NoNaNData (squareData (MethodChain.intoMethod .weighted) data) := by
    rw [hsq]; exact fun k hk => RM.notNaN _ (hdata k hk).1
  have hl' : 2 * (squareData (MethodChain.intoMethod .weighted) data).size = n * (n - 1) := by
    rw [squareData_size]; exact hl
  obtain ⟨s1, hloop, hres⟩ := roundLoop L chk .weighted hge C
    (fun _ _ _ h => RM.notNaN _ h.fin)
    (fun _ _ v h => hok v h.fin (h.range RM.u_nonneg RM.u_lt_one B).1
      (h.range RM.u_nonneg RM.u_lt_one B).2) data n h2 hs hl hnan
    (fun i j hi hj hij => by
      obtain ⟨k, hk, e⟩ := init_D_average_mem data n h2 hs hl i j hi hj hij
      refine RWgt.leaf hi hj hij ?_ rfl
      show fin ((Spec.init .average n data).D i j)
      rw [e]; exact (hdata k hk).1)
  have heq : nnchainWith chk .weighted st d data n =
      (relabel (MethodChain.intoMethod .weighted) s1.st.set s1.dend >>= fun r =>
        pure ({ s1.st with set := r.1 }, sqrtSteps (MethodChain.intoMethod .weighted) r.2, s1.M)) := by
    unfold nnchainWith
    simp only []
    rw [Mat.new_ok chk (squareData (MethodChain.intoMethod .weighted) data) n h2 hs hl']
    have hn0 : ¬ n = 0 := by omega
    simp only [bind, Except.bind, hn0, if_false, State.reset_eq_fresh, dendrogramReset_eq, hloop]
  obtain ⟨⟨uf, d'⟩, hr⟩ := relabel_total (MethodChain.intoMethod .weighted) s1.st.set s1.dend n h2
    hres.res.obs hres.res.raw (Or.inr (Or.inr hres.res.heights))
  obtain ⟨hwf, hall⟩ := relabel_round_sw L (MethodChain.intoMethod .weighted) rfl s1.st.set uf
    s1.dend d' n h2 hres.res.obs hres.res.raw hres.res.heights hres.run hr
  have hsqrt : sqrtSteps (MethodChain.intoMethod .weighted) d' = d' := by
    simp [sqrtSteps, MethodChain.intoMethod, Method.onSquares]
  refine ⟨{ s1.st with set := uf }, d', s1.M, ?_, ?_⟩
  · rw [heq, hr]; simp only [bind, Except.bind, pure, Except.pure, hsqrt]
  · intro i s hi
    obtain ⟨T₁, T₂, hR, hdisj, hsw, hsize⟩ := hall i s hi
    have hcard : T₁.leaves.card + T₂.leaves.card ≤ n := by
      have : (T₁.leaves ∪ T₂.leaves).card ≤ n :=
        card_le_of_lt (fun x hx => by
          rcases mem_union.mp hx with h' | h'
          · exact hR.ls x h'
          · exact hR.lt x h')
      rwa [card_union_of_disjoint hdisj] at this
    have hnn : 0 ≤ wdist (valD val n data) T₁ T₂ :=
      le_trans hdlo.le (B.wdist_mem T₁ T₂ hR.ls hR.lt hdisj).1
    have hw : wdist (valD val n data) (clusterTree n d'.steps.toList s.c1)
        (clusterTree n d'.steps.toList s.c2) = wdist (valD val n data) T₁ T₂ := by
      rcases hsw with ⟨a, b⟩ | ⟨a, b⟩
      · rw [a.wdist_left, b.wdist_right]
      · rw [a.wdist_left, b.wdist_right, wdist_symm B.symm]
    simp only [hw]
    exact ⟨hR.fin, by omega, hnn, by rw [hsize]; exact hR.near⟩

/-- `C02_nnchain_weighted_rounded` with reducibility obtained from the monotonicity laws of `+` and
`½·` on a domain (`HalfAddLaws α ok`, `Lemmas/WeightedMono.lean`: true of exact arithmetic, sampled on
`Float`/`Float32` grids by `kodama-laws`). -/
theorem C02_nnchain_weighted_rounded_of_halfAdd (L : OrderLaws α) {val : α → K} {fin : α → Prop}
    {u lo hi : K} {N : Nat} (RM : Round.Model val fin u lo hi N)
    {ok : α → Prop} (H : HalfAddLaws α ok)
    (chk : Bool) (st : State α) (d : Dendrogram α) (data : Array α) (n : Nat)
    (h2 : 2 ≤ n) (hs : n < 2147483648) (hl : 2 * data.size = n * (n - 1))
    {dlo dhi : K} (hdlo : 0 < dlo)
    (hdata : ∀ (k : Nat) (h : k < data.size),
      fin data[k] ∧ dlo ≤ val data[k] ∧ val data[k] ≤ dhi)
    (Rg : RangeOkW u lo hi n dlo dhi)
    (hok : ∀ v, fin v → dlo * (1 - u) ^ (2 * n) ≤ val v → val v ≤ dhi / (1 - u) ^ (2 * n) → ok v) :
    ∃ st' d' M', nnchainWith chk .weighted st d data n = .ok (st', d', M') ∧
      ∀ (i : Nat) (s : Step α), d'.steps.toList[i]? = some s →
        let steps := d'.steps.toList
        let w := wdist (valD val n data) (clusterTree n steps s.c1) (clusterTree n steps s.c2)
        fin s.d ∧ s.size ≤ n ∧ 0 ≤ w ∧ Near u (2 * (s.size - 2)) w (val s.d) :=
  C02_nnchain_weighted_rounded L RM (chainReducibleOn_weighted L H).chainGeOn chk st d data n h2 hs hl
    hdlo hdata Rg hok

/-- The same through `linkage_with(Method::Weighted)`. -/
theorem C02_linkage_weighted_rounded (L : OrderLaws α) {val : α → K} {fin : α → Prop}
    {u lo hi : K} {N : Nat} (RM : Round.Model val fin u lo hi N)
    {ok : α → Prop} (hge : ChainGeOn ok .weighted)
    (chk : Bool) (st : State α) (d : Dendrogram α) (data : Array α) (n : Nat)
    (h2 : 2 ≤ n) (hs : n < 2147483648) (hl : 2 * data.size = n * (n - 1))
    {dlo dhi : K} (hdlo : 0 < dlo)
    (hdata : ∀ (k : Nat) (h : k < data.size),
      fin data[k] ∧ dlo ≤ val data[k] ∧ val data[k] ≤ dhi)
    (Rg : RangeOkW u lo hi n dlo dhi)
    (hok : ∀ v, fin v → dlo * (1 - u) ^ (2 * n) ≤ val v → val v ≤ dhi / (1 - u) ^ (2 * n) → ok v) :
    ∃ st' d' M', linkageWith chk .weighted st d data n = .ok (st', d', M') ∧
      ∀ (i : Nat) (s : Step α), d'.steps.toList[i]? = some s →
        let steps := d'.steps.toList
        let w := wdist (valD val n data) (clusterTree n steps s.c1) (clusterTree n steps s.c2)
        fin s.d ∧ s.size ≤ n ∧ 0 ≤ w ∧ Near u (2 * (s.size - 2)) w (val s.d) := by
  have e := linkageWith_eq_nnchainWith chk .weighted (by decide) st d data n
  rw [show MethodChain.intoMethod .weighted = Method.weighted from rfl] at e
  rw [e]
  exact C02_nnchain_weighted_rounded L RM hge chk st d data n h2 hs hl hdlo hdata Rg hok

/-! ## Non-vacuity

1. Every exact number type (`ExactLaws K`, e.g. `fieldNum ℚ`) satisfies the bundle with `u = 0`.
2. `downNum`: `ℚ` with every `+ − × /` followed by a multiplication by `999/1000` ("round down by one
   part in a thousand") satisfies it with `u = 1/1000`; on it the UNCLAMPED mean of `7, 7` is
   `7·(999/1000)² < 7` and the clamp returns `7`.
Both are run on the matrix `d01 = 1, d02 = 9, d12 = 4`. -/

section Examples

/-- Exact arithmetic is the standard model with `u = 0` (any thresholds). -/
theorem model_of_exact {K : Type} [Field K] [LinearOrder K] [IsStrictOrderedRing K] [Num K]
    (E : ExactLaws K) {lo hi : K} {N : Nat} (hlo : 0 < lo) (hlo1 : lo ≤ 1) (hN : (N : K) ≤ hi) :
    Round.Model (fun x : K => x) (fun _ => True) 0 lo hi N where
  u_nonneg := le_rfl
  u_lt_one := zero_lt_one
  lo_pos := hlo
  lo_le_one := hlo1
  nat_le_hi := hN
  add := fun a b _ _ _ => ⟨trivial, 0, by simp, by simp [E.field.add]⟩
  mul := fun a b _ _ _ => ⟨trivial, 0, by simp, by simp [E.field.mul]⟩
  div := fun a b _ _ _ _ => ⟨trivial, 0, by simp, by simp [E.field.div]⟩
  ofNat := fun k _ => ⟨trivial, E.field.ofNat k⟩
  half := ⟨trivial, E.field.half⟩
  lt := fun a b _ _ => by rw [E.field.lt, decide_eq_true_eq]
  notNaN := fun a _ => E.noNaN a

/-- The entries `1, 9, 4` are finite and in `[1, 9]`. -/
theorem example_data_ok : ∀ (k : Nat) (h : k < (#[1, 9, 4] : Array ℚ).size),
    (fun _ : ℚ => True) (#[1, 9, 4] : Array ℚ)[k] ∧
      In0 (1 : ℚ) 9 ((fun x : ℚ => x) (#[1, 9, 4] : Array ℚ)[k]) := by
  intro k hk
  have hk' : k = 0 ∨ k = 1 ∨ k = 2 := by
    simp only [List.size_toArray, List.length_cons, List.length_nil] at hk; omega
  rcases hk' with rfl | rfl | rfl
  · exact ⟨trivial, Or.inr ⟨by norm_num, by norm_num⟩⟩
  · exact ⟨trivial, Or.inr ⟨by norm_num, by norm_num⟩⟩
  · exact ⟨trivial, Or.inr ⟨by norm_num, by norm_num⟩⟩

/-- `ℚ` with every arithmetic result multiplied by `999/1000`. -/
@[reducible] def downNum : Num ℚ where
  lt a b := decide (a < b)
  beq a b := decide (a = b)
  add a b := (a + b) * (999 / 1000)
  sub a b := (a - b) * (999 / 1000)
  mul a b := a * b * (999 / 1000)
  div a b := a / b * (999 / 1000)
  ofNat n := (n : ℚ)
  half := 1 / 2
  quarter := 1 / 4
  sqrt a := a
  abs a := |a|
  maxValue := 0
  infinity := 0
  isNaN _ := false

/-- Exact rational arithmetic. -/
@[reducible] def ratNum : Num ℚ := fieldNum ℚ

section ExactRat
attribute [local instance] ratNum

/-- Exact `ℚ`: all hypotheses hold, and (with `u = 0`, so `Near` is equality) every returned height
IS the mean over the cross pairs. -/
example : ∃ st' d' M',
    nnchainWith true .average State.new (Dendrogram.new 0) (#[1, 9, 4] : Array ℚ) 3
      = .ok (st', d', M') ∧
    ∀ (i : Nat) (s : Step ℚ), d'.steps.toList[i]? = some s →
      s.d = avg (valD (fun x : ℚ => x) 3 #[1, 9, 4])
        (Spec.leaves 3 d'.steps.toList d'.steps.toList.length s.c1).toFinset
        (Spec.leaves 3 d'.steps.toList d'.steps.toList.length s.c2).toFinset := by
  have RM : Round.Model (fun x : ℚ => x) (fun _ => True) 0 (1 / 100) 100 10 :=
    model_of_exact (exactLaws_fieldNum ℚ) (by norm_num) (by norm_num) (by norm_num)
  obtain ⟨st', d', M', hrun, h⟩ := C02_nnchain_average_rounded_bounds
    (exactLaws_fieldNum ℚ).field.orderLaws RM true State.new (Dendrogram.new 0) #[1, 9, 4] 3
    (by decide) (by decide) (by decide) (dlo := 1) (dhi := 9) (by norm_num) (by norm_num)
    example_data_ok ⟨by decide, by norm_num, by norm_num⟩
  refine ⟨st', d', M', hrun, fun i s hi => ?_⟩
  have := h i s hi
  simp only [sub_zero, one_pow, mul_one] at this
  exact le_antisymm this.2 this.1

end ExactRat

section RoundDown
attribute [local instance] downNum

theorem downNum_orderLaws : OrderLaws ℚ :=
  OrderNum.orderLaws (OrderNum.mk (fun _ _ => rfl))

/-- `downNum` satisfies the standard model with unit roundoff `1/1000` (`δ = −1/1000` always). -/
theorem downNum_model {lo hi : ℚ} {N : Nat} (hlo : 0 < lo) (hlo1 : lo ≤ 1) (hN : (N : ℚ) ≤ hi) :
    Round.Model (fun x : ℚ => x) (fun _ => True) (1 / 1000) lo hi N where
  u_nonneg := by norm_num
  u_lt_one := by norm_num
  lo_pos := hlo
  lo_le_one := hlo1
  nat_le_hi := hN
  add := fun a b _ _ _ => ⟨trivial, -(1 / 1000), by norm_num [abs_le], by
    show (a + b) * (999 / 1000) = _; ring⟩
  mul := fun a b _ _ _ => ⟨trivial, -(1 / 1000), by norm_num [abs_le], by
    show a * b * (999 / 1000) = _; ring⟩
  div := fun a b _ _ _ _ => ⟨trivial, -(1 / 1000), by norm_num [abs_le], by
    show a / b * (999 / 1000) = _; ring⟩
  ofNat := fun k _ => ⟨trivial, rfl⟩
  half := ⟨trivial, rfl⟩
  lt := fun a b _ _ => by show decide (a < b) = true ↔ a < b; rw [decide_eq_true_eq]
  notNaN := fun a _ => rfl

/-- On `downNum` the computed mean of `7` and `7` (sizes `1`, `2`) is strictly below both arguments
— the clamp fires and returns `7`. -/
example : Gen.averageMean (7 : ℚ) 7 1 2 < 7 ∧ Gen.average (7 : ℚ) 7 1 2 = 7 := by
  constructor
  · norm_num [Gen.averageMean, Num.add, Num.mul, Num.div, Num.ofNat]
  · norm_num [Gen.average, Num.add, Num.mul, Num.div, Num.ofNat, Num.lt]

/-- The rounding toy type: all hypotheses of the theorem hold, so the call returns and every returned
height is within `4·(size − 2)` factors `(1 − 1/1000)` of the exact mean over the cross pairs. -/
example : ∃ st' d' M',
    nnchainWith true .average State.new (Dendrogram.new 0) (#[1, 9, 4] : Array ℚ) 3
      = .ok (st', d', M') ∧
    ∀ (i : Nat) (s : Step ℚ), d'.steps.toList[i]? = some s →
      let A := (Spec.leaves 3 d'.steps.toList d'.steps.toList.length s.c1).toFinset
      let B := (Spec.leaves 3 d'.steps.toList d'.steps.toList.length s.c2).toFinset
      let mean := avg (valD (fun x : ℚ => x) 3 #[1, 9, 4]) A B
      mean * (1 - 1 / 1000) ^ (4 * (s.size - 2)) ≤ s.d ∧
        s.d * (1 - 1 / 1000) ^ (4 * (s.size - 2)) ≤ mean :=
  C02_nnchain_average_rounded_bounds downNum_orderLaws
    (downNum_model (lo := 1 / 100) (hi := 100) (N := 10) (by norm_num) (by norm_num) (by norm_num))
    true State.new (Dendrogram.new 0) #[1, 9, 4] 3 (by decide) (by decide) (by decide)
    (dlo := 1) (dhi := 9) (by norm_num) (by norm_num)
    example_data_ok ⟨by decide, by norm_num, by norm_num⟩

end RoundDown

/-! ### Weighted linkage: exact `ℚ`, and a type that rounds every operation toward `+∞` -/

/-- The entries `1, 9, 4` are finite and in `[1, 9]` (form used by the weighted theorems). -/
theorem example_data_pos : ∀ (k : Nat) (h : k < (#[1, 9, 4] : Array ℚ).size),
    (fun _ : ℚ => True) (#[1, 9, 4] : Array ℚ)[k] ∧
      (1 : ℚ) ≤ (fun x : ℚ => x) (#[1, 9, 4] : Array ℚ)[k] ∧
      (fun x : ℚ => x) (#[1, 9, 4] : Array ℚ)[k] ≤ 9 := by
  intro k hk
  have hk' : k = 0 ∨ k = 1 ∨ k = 2 := by
    simp only [List.size_toArray, List.length_cons, List.length_nil] at hk; omega
  rcases hk' with rfl | rfl | rfl <;> exact ⟨trivial, by norm_num, by norm_num⟩

section ExactRatWeighted
attribute [local instance] ratNum

/-- Exact `ℚ`, weighted linkage: all hypotheses hold (reducibility from `chainReducible_exact`), and
every returned height IS the recursively halved mean. -/
example : ∃ st' d' M',
    nnchainWith true .weighted State.new (Dendrogram.new 0) (#[1, 9, 4] : Array ℚ) 3
      = .ok (st', d', M') ∧
    ∀ (i : Nat) (s : Step ℚ), d'.steps.toList[i]? = some s →
      s.d = wdist (valD (fun x : ℚ => x) 3 #[1, 9, 4])
        (clusterTree 3 d'.steps.toList s.c1) (clusterTree 3 d'.steps.toList s.c2) := by
  have E := exactLaws_fieldNum ℚ
  have RM : Round.Model (fun x : ℚ => x) (fun _ => True) 0 (1 / 100) 100 10 :=
    model_of_exact E (by norm_num) (by norm_num) (by norm_num)
  obtain ⟨st', d', M', hrun, h⟩ := C02_nnchain_weighted_rounded E.field.orderLaws RM
    ((chainReducible_exact E.field E.noNaN .weighted).chainGe.on (fun _ => True)) true State.new
    (Dendrogram.new 0) #[1, 9, 4] 3 (by decide) (by decide) (by decide) (dlo := 1) (dhi := 9)
    (by norm_num) example_data_pos ⟨by norm_num, by norm_num⟩ (fun _ _ _ _ => trivial)
  refine ⟨st', d', M', hrun, fun i s hi => ?_⟩
  obtain ⟨_, _, _, hn⟩ := h i s hi
  have := hn
  unfold Near at this
  simp only [sub_zero, one_pow, mul_one] at this
  exact le_antisymm this.2 this.1

end ExactRatWeighted

/-- Relative rounding toward `+∞` by one part in a thousand. -/
def rup (x : ℚ) : ℚ := if 0 ≤ x then x * (1001 / 1000) else x * (999 / 1000)

theorem le_rup (x : ℚ) : x ≤ rup x := by
  unfold rup; split <;> nlinarith

theorem rup_eq (x : ℚ) : ∃ δ : ℚ, |δ| ≤ 1 / 1000 ∧ rup x = x * (1 + δ) := by
  unfold rup
  split
  · exact ⟨1 / 1000, by norm_num [abs_le], by ring⟩
  · exact ⟨-(1 / 1000), by norm_num [abs_le], by ring⟩

/-- `ℚ` with every arithmetic result rounded toward `+∞` (relatively, by `1/1000`): a MONOTONE
rounding, as IEEE's. -/
@[reducible] def upNum : Num ℚ where
  lt a b := decide (a < b)
  beq a b := decide (a = b)
  add a b := rup (a + b)
  sub a b := rup (a - b)
  mul a b := rup (a * b)
  div a b := rup (a / b)
  ofNat n := (n : ℚ)
  half := 1 / 2
  quarter := 1 / 4
  sqrt a := a
  abs a := |a|
  maxValue := 0
  infinity := 0
  isNaN _ := false

section RoundUp
attribute [local instance] upNum

theorem upNum_orderLaws : OrderLaws ℚ :=
  OrderNum.orderLaws (OrderNum.mk (fun _ _ => rfl))

theorem upNum_model {lo hi : ℚ} {N : Nat} (hlo : 0 < lo) (hlo1 : lo ≤ 1) (hN : (N : ℚ) ≤ hi) :
    Round.Model (fun x : ℚ => x) (fun _ => True) (1 / 1000) lo hi N where
  u_nonneg := by norm_num
  u_lt_one := by norm_num
  lo_pos := hlo
  lo_le_one := hlo1
  nat_le_hi := hN
  add := fun a b _ _ _ => ⟨trivial, rup_eq (a + b)⟩
  mul := fun a b _ _ _ => ⟨trivial, rup_eq (a * b)⟩
  div := fun a b _ _ _ _ => ⟨trivial, rup_eq (a / b)⟩
  ofNat := fun k _ => ⟨trivial, rfl⟩
  half := ⟨trivial, rfl⟩
  lt := fun a b _ _ => by show decide (a < b) = true ↔ a < b; rw [decide_eq_true_eq]
  notNaN := fun a _ => rfl

/-- Monotone rounding makes the weighted update reducible. -/
theorem upNum_chainGe_weighted : ChainGe ℚ .weighted := by
  intro sizes sa sb dab x va vb v t _ _ _ _ _ _ _ h1 h2 h
  simp only [chainUpdFn, updFn, pure, Except.pure, Except.ok.injEq] at h
  subst h
  have g1 : t ≤ va := by
    have : decide (va < t) = false := h1
    simpa using this
  have g2 : t ≤ vb := by
    have : decide (vb < t) = false := h2
    simpa using this
  show decide (rup (1 / 2 * rup (va + vb)) < t) = false
  rw [decide_eq_false_iff_not, not_lt]
  have e1 := le_rup (va + vb)
  have e2 := le_rup (1 / 2 * rup (va + vb))
  linarith

/-- The round-up toy type, weighted linkage: all hypotheses hold (standard model with `u = 1/1000`,
reducibility by monotonicity), so every returned height is within `2·(size − 2)` factors of the
recursively halved mean of the original entries. -/
example : ∃ st' d' M',
    nnchainWith true .weighted State.new (Dendrogram.new 0) (#[1, 9, 4] : Array ℚ) 3
      = .ok (st', d', M') ∧
    ∀ (i : Nat) (s : Step ℚ), d'.steps.toList[i]? = some s →
      let w := wdist (valD (fun x : ℚ => x) 3 #[1, 9, 4])
        (clusterTree 3 d'.steps.toList s.c1) (clusterTree 3 d'.steps.toList s.c2)
      Near (1 / 1000 : ℚ) (2 * (s.size - 2)) w s.d := by
  obtain ⟨st', d', M', hrun, h⟩ := C02_nnchain_weighted_rounded upNum_orderLaws
    (upNum_model (lo := 1 / 100) (hi := 100) (N := 10) (by norm_num) (by norm_num) (by norm_num))
    (upNum_chainGe_weighted.on (fun _ => True)) true State.new (Dendrogram.new 0) #[1, 9, 4] 3
    (by decide) (by decide) (by decide) (dlo := 1) (dhi := 9) (by norm_num)
    example_data_pos ⟨by norm_num, by norm_num⟩ (fun _ _ _ _ => trivial)
  exact ⟨st', d', M', hrun, fun i s hi => (h i s hi).2.2.2⟩

end RoundUp

end Examples

end Kodama
