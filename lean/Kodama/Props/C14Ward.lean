/-
C14 (work bound: number of condensed-index computations) for WARD linkage through `nnchain_with` /
`linkage_with`, for EVERY ordered number type — the formal counterpart of the SECOND `fix:` commit of
the crate.

Before the fix `C14_nnchain` / `C14_linkage` needed the hypothesis `ChainReducible α .ward`, FALSE for
IEEE floats (the rounded quotient `((sx+sa)·a + (sx+sb)·b − sx·c)/(sa+sb+sx)` can be below both `a` and
`b` although `c ≤ min(a,b)`: 1 906 violations in 4.1 million sampled updates; a concrete failing run of
the real crate exists: n = 32, f64 — the chain entries are then no longer pairwise distinct live
clusters, which is what the potential argument of `C14_nnchain_tight` charges against).  The repaired
`method::ward` clamps the quotient from below by the smaller argument whenever the merged distance is
not above it; for that formula `ChainReducible α .ward` is a THEOREM from `OrderLaws α` plus the
no-NaN-generation hypothesis (`chainReducible_ward`, `Lemmas/ChainIter.lean`) — no field law, no exact
arithmetic.

Proved here (by instantiating `C14_nnchain_tight` / `C14_nnchain` / `C14_linkage`), for every valid
matrix (2 ≤ n < 2^31, 2·len = n(n−1)), both build modes, every prior state, whenever the call returns
`(st', d', M')` (it does: `C12_nnchain_ward_ok`):

* `C14_nnchain_ward_tight`  at most `7·n(n+1) − 10` index computations;
* `C14_nnchain_ward`        hence `≤ 10 n² + 50 n`;
* `C14_linkage_ward`        the same through `linkageWith chk .ward`.

Hypotheses (explicit): `OrderLaws α` (true of IEEE `<`), `hsq` (no SQUARED input entry is NaN),
`WardNoNaN α` (the update of non-NaN values with `d(a,b) ≤ d(x,a), d(x,b)` and positive sizes is not
NaN; hypothesis, not proved for floats).

NOT proved: `WardNoNaN` for floats (weighted: `Props/C14Weighted.lean`; average: `Props/C14Average.lean`).
-/
import Kodama.Props.C14
import Kodama.Props.C12Ward
namespace Kodama
open Spec
variable {α : Type} [Num α]

theorem C14_nnchain_ward_tight (L : OrderLaws α) (hn : WardNoNaN α) (chk : Bool)
    (st st' : State α) (d d' : Dendrogram α) (data : Array α) (n : Nat) (M' : Mat α)
    (h2 : 2 ≤ n) (hs : n < 2147483648) (hl : 2 * data.size = n * (n - 1))
    (hsq : ∀ (i : Nat) (h : i < data.size), Num.isNaN (Num.mul data[i] data[i]) = false)
    (h : nnchainWith chk .ward st d data n = .ok (st', d', M')) :
    M'.acc + 10 ≤ 7 * (n * (n + 1)) :=
  C14_nnchain_tight L chk .ward (chainReducible_ward L hn) st st' d d' data n M' h2 hs hl
    (noNaNData_squareData_ward hsq) h

/-- **C14, Ward linkage through `nnchain_with`, any ordered number type.** -/
theorem C14_nnchain_ward (L : OrderLaws α) (hn : WardNoNaN α) (chk : Bool)
    (st st' : State α) (d d' : Dendrogram α) (data : Array α) (n : Nat) (M' : Mat α)
    (h2 : 2 ≤ n) (hs : n < 2147483648) (hl : 2 * data.size = n * (n - 1))
    (hsq : ∀ (i : Nat) (h : i < data.size), Num.isNaN (Num.mul data[i] data[i]) = false)
    (h : nnchainWith chk .ward st d data n = .ok (st', d', M')) :
    M'.acc ≤ 10 * (n * n) + 50 * n :=
  C14_nnchain L chk .ward (chainReducible_ward L hn) st st' d d' data n M' h2 hs hl
    (noNaNData_squareData_ward hsq) h

/-- **C14, Ward linkage through `linkage_with`** (dispatched to `nnchain_with`). -/
theorem C14_linkage_ward (L : OrderLaws α) (hn : WardNoNaN α) (chk : Bool)
    (st st' : State α) (d d' : Dendrogram α) (data : Array α) (n : Nat) (M' : Mat α)
    (h2 : 2 ≤ n) (hs : n < 2147483648) (hl : 2 * data.size = n * (n - 1))
    (hsq : ∀ (i : Nat) (h : i < data.size), Num.isNaN (Num.mul data[i] data[i]) = false)
    (h : linkageWith chk .ward st d data n = .ok (st', d', M')) :
    M'.acc ≤ 10 * (n * n) + 50 * n :=
  C14_linkage L chk .ward rfl
    (by
      intro mc hmc
      simp only [Method.intoMethodChain, Option.some.injEq] at hmc
      rw [← hmc]; exact chainReducible_ward L hn)
    st st' d d' data n M' h2 hs hl
    (fun _ => noNaNData_squareData_ward hsq)
    h

/-! ### Non-vacuity (toy exact number type, a valid 4-point matrix) -/

section NonVacuity
attribute [local instance] Toy.natNum

example (st' : State Nat) (d' : Dendrogram Nat) (M' : Mat Nat)
    (h : nnchainWith true .ward State.new (Dendrogram.new 4)
      (#[5, 2, 9, 7, 4, 1] : Array Nat) 4 = .ok (st', d', M')) :
    M'.acc ≤ 10 * (4 * 4) + 50 * 4 :=
  C14_nnchain_ward Toy.natOrderLaws (fun _ _ _ _ _ _ _ _ _ _ _ _ _ _ _ _ => rfl) true _ st' _ d'
    _ 4 M' (by decide) (by decide) (by decide) (fun _ _ => rfl) h

end NonVacuity

end Kodama
