/-
C12 (totality: no panic) for AVERAGE linkage through `nnchain_with` / `linkage_with`, for EVERY
ordered number type — the formal counterpart of the `fix:` commit of the crate.

Before the fix `C12_nnchain_ok` / `C12_nnchain_total` needed the hypothesis `ChainReducible α .average`,
which was FALSE for IEEE floats: the rounded mean `(sa·a + sb·b)/(sa + sb)` can be one ulp below both
arguments, the chain then revisits a cluster and a dead cluster is merged (a concrete failing run of the
real crate exists: n = 14, f32; release builds returned an invalid dendrogram, debug builds hit an
assertion).  The repaired `method::average` clamps the mean from below by the smaller argument; for
that formula `ChainReducible α .average` is a THEOREM from `OrderLaws α` plus the no-NaN-generation
hypothesis (`chainReducible_average`, `Lemmas/ChainIter.lean`; `Gen.average_not_lt`,
`Lemmas/AverageClamp.lean`) — no field law, no exact arithmetic.

Proved here (by instantiating `C12_nnchain_ok` / `C12_nnchain_total` / `C12_linkage_ok`), for every
valid matrix (2 ≤ n < 2^31, 2·len = n(n−1)), both build modes, every prior state:

* `C12_nnchain_average_ok`     `nnchainWith chk .average …` RETURNS NORMALLY: no index out of bounds, no
                               failed (debug) assertion, no `unwrap` on `None`, no overflow, the fuel of
                               the inner `loop` is never exhausted, no NaN reaches the sort;
* `C12_nnchain_average_total`  the same in the "ok or nanInSort" form of the other C12 theorems;
* `C12_linkage_average_ok`     the same through `linkageWith chk .average`.

Hypotheses (explicit): `OrderLaws α` (true of IEEE `<`), `NoNaNData data` (no NaN in the input),
`AverageNoNaN α` (the update of two non-NaN values with positive sizes is not NaN; for floats: the
size-weighted sum does not overflow to `∞ − ∞`; hypothesis, not proved for floats).

Ward (repaired by the second `fix:` commit of the crate): `Props/C12Ward.lean`; weighted: `Props/C12Weighted.lean`.
-/
import Kodama.Props.C12
import Kodama.Props.C01Average
namespace Kodama
open Spec
variable {α : Type} [Num α]

/-- **C12, average linkage through `nnchain_with`, any ordered number type**: returns normally. -/
theorem C12_nnchain_average_ok (L : OrderLaws α) (hn : AverageNoNaN α) (chk : Bool)
    (st : State α) (d : Dendrogram α) (data : Array α) (n : Nat) (h2 : 2 ≤ n)
    (hs : n < 2147483648) (hl : 2 * data.size = n * (n - 1)) (hnan : NoNaNData data) :
    ∃ r, nnchainWith chk .average st d data n = .ok r :=
  C12_nnchain_ok L chk .average (chainReducible_average L hn) st d data n h2 hs hl
    (by rw [squareData_average]; exact hnan)

/-- The same in the form of `C12_nnchain_total` / `C12_mst_total` / `C12_primitive_total`. -/
theorem C12_nnchain_average_total (L : OrderLaws α) (hn : AverageNoNaN α) (chk : Bool)
    (st : State α) (d : Dendrogram α) (data : Array α) (n : Nat) (h2 : 2 ≤ n)
    (hs : n < 2147483648) (hl : 2 * data.size = n * (n - 1)) (hnan : NoNaNData data) :
    (∃ r, nnchainWith chk .average st d data n = .ok r) ∨
      nnchainWith chk .average st d data n = .error .nanInSort :=
  C12_nnchain_total L chk .average (chainReducible_average L hn) st d data n h2 hs hl
    (by rw [squareData_average]; exact hnan)

/-- Through `linkage_with` (dispatched to `nnchain_with`). -/
theorem C12_linkage_average_ok (L : OrderLaws α) (hn : AverageNoNaN α) (chk : Bool)
    (st : State α) (d : Dendrogram α) (data : Array α) (n : Nat) (h2 : 2 ≤ n)
    (hs : n < 2147483648) (hl : 2 * data.size = n * (n - 1)) (hnan : NoNaNData data) :
    ∃ r, linkageWith chk .average st d data n = .ok r :=
  C12_linkage_ok L chk .average .average (by decide) rfl (chainReducible_average L hn) st d data n
    h2 hs hl (by rw [squareData_average]; exact hnan)

/-! ### Non-vacuity (toy exact number type, a valid 4-point matrix) -/

section NonVacuity
attribute [local instance] Toy.natNum

example : ∃ r, nnchainWith true .average State.new (Dendrogram.new 4)
    (#[5, 2, 9, 7, 4, 1] : Array Nat) 4 = .ok r :=
  C12_nnchain_average_ok Toy.natOrderLaws (fun _ _ _ _ _ _ _ _ _ _ _ _ _ _ _ _ => rfl) true _ _ _ 4
    (by decide) (by decide) (by decide) (fun _ _ => rfl)

/-- … and on the rounding toy type on which the UNCLAMPED mean is not reducible
(`UnclampedDefect.unclamped_not_reducible`, `Props/C01Average.lean`). -/
example : ∃ r, @nnchainWith Nat UnclampedDefect.truncNum true .average State.new (Dendrogram.new 4)
    (#[5, 2, 9, 7, 4, 1] : Array Nat) 4 = .ok r :=
  @C12_nnchain_average_ok Nat UnclampedDefect.truncNum UnclampedDefect.truncNum_orderLaws
    (fun _ _ _ _ _ _ _ _ _ _ _ _ _ _ _ _ => rfl) true _ _ _ 4
    (by decide) (by decide) (by decide) (fun _ _ => rfl)

end NonVacuity

end Kodama
