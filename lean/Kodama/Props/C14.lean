/-
C14 — quadratic work (matrix index computations ≤ 10 n² + 50 n) for mst / nnchain / linkage with the
five reducible methods.

The model threads a counter `Mat.acc` through `mst` and `nnchain` that ticks exactly where the
`kodama_verif` hook in `matrix_to_condensed_idx` ticks; the correspondence run compares the model's
count with the hook's count EXACTLY on every generated case (same floats ⇒ same control flow ⇒ same
count), so a semantically invisible slowdown (chain restarted every iteration, an extra rescan)
changes the count and breaks the tie.

Proved here:
* `C14_mst`        for every valid matrix (2 ≤ n < 2^31), every comparison behaviour (NO law about
                   `<` is used), both build modes and every prior state: `mst_with` performs EXACTLY
                   n(n-1)/2 index computations — in particular ≤ 10 n² + 50 n (`C14_mst_bound`).
* `C14_small`      for n ≤ 1 (empty matrix) no index computation happens, on every entry point.
* `C14_dispatch`   `linkage` routes exactly the five methods to mst (single) or nnchain
                   (generated table, `decide`), never to generic/primitive.

NOT proved: the bound for `nnchain` (needs the chain invariant "chain entries are live and pairwise
distinct" plus an Abel-summation argument; the measured worst case is 3.5 n²).  For nnchain the
claim rests on (i) the exact model/hook count correspondence and (ii) the oracle checking the bound
on the real crate on adversarial inputs (sorted / reverse-sorted entries, all ties, geometric
progressions with chains of length ~n) up to n = 2000.
-/
import Kodama.Lemmas.MstRun
import Kodama.Lemmas.Tail
namespace Kodama
variable {α : Type} [Num α]

theorem C14_mst (chk : Bool) (st st' : State α) (d d' : Dendrogram α) (data : Array α) (n : Nat)
    (M' : Mat α) (h2 : 2 ≤ n) (hs : n < 2147483648) (hl : 2 * data.size = n * (n - 1))
    (h : mstWith chk st d data n = .ok (st', d', M')) :
    2 * M'.acc = n * (n - 1) := by
  obtain ⟨st1, dend1, M1, hres, heq⟩ := mstWith_eq chk st d data n h2 hs hl
  rw [heq] at h
  obtain ⟨r, _, hr⟩ := bind_ok.mp h
  simp only [pure_ok, Prod.mk.injEq] at hr
  rw [← hr.2.2]
  exact hres.acc

theorem C14_mst_bound (chk : Bool) (st st' : State α) (d d' : Dendrogram α) (data : Array α)
    (n : Nat) (M' : Mat α) (h2 : 2 ≤ n) (hs : n < 2147483648)
    (hl : 2 * data.size = n * (n - 1))
    (h : mstWith chk st d data n = .ok (st', d', M')) :
    M'.acc ≤ 10 * (n * n) + 50 * n := by
  have := C14_mst chk st st' d d' data n M' h2 hs hl h
  have h1 : n * (n - 1) ≤ n * n := Nat.mul_le_mul_left n (by omega)
  omega

/-- `n ≤ 1`: the matrix must be empty and nothing is ever indexed, on every entry point. -/
theorem C14_small (chk : Bool) (alg : Alg) (m : Method) (st st' : State α) (d d' : Dendrogram α)
    (n : Nat) (M' : Mat α) (hn : n ≤ 1)
    (h : runWith chk alg m st d (#[] : Array α) n = .ok (st', d', M')) : M'.acc = 0 := by
  have hsq : ∀ m' : Method, squareData m' (#[] : Array α) = #[] := by
    intro m'; unfold squareData; split <;> simp
  have hnew : Mat.new chk (#[] : Array α) n = .ok { data := #[], n := 0, acc := 0 } := by
    simp [Mat.new, Gen.shapeM, guard', hn, bind, Except.bind, pure, Except.pure]
  have hP : ∀ m', primitiveWith chk m' st d (#[] : Array α) n = .ok (st', d', M') → M'.acc = 0 := by
    intro m' h
    unfold primitiveWith at h
    simp only [hsq, hnew, bind, Except.bind, if_true, pure, Except.pure, Except.ok.injEq,
      Prod.mk.injEq] at h
    rw [← h.2.2]
  have hG : ∀ m', genericWith chk m' st d (#[] : Array α) n = .ok (st', d', M') → M'.acc = 0 := by
    intro m' h
    unfold genericWith at h
    simp only [hsq, hnew, bind, Except.bind, if_true, pure, Except.pure, Except.ok.injEq,
      Prod.mk.injEq] at h
    rw [← h.2.2]
  have hM : mstWith chk st d (#[] : Array α) n = .ok (st', d', M') → M'.acc = 0 := by
    intro h
    unfold mstWith at h
    simp only [hnew, bind, Except.bind, if_true, pure, Except.pure, Except.ok.injEq,
      Prod.mk.injEq] at h
    rw [← h.2.2]
  have hC : ∀ mc, nnchainWith chk mc st d (#[] : Array α) n = .ok (st', d', M') → M'.acc = 0 := by
    intro mc h
    unfold nnchainWith at h
    simp only [hsq, hnew, bind, Except.bind, if_true, pure, Except.pure, Except.ok.injEq,
      Prod.mk.injEq] at h
    rw [← h.2.2]
  cases alg <;> simp only [runWith] at h
  · exact hP m h
  · cases hm : m.intoMethodChain with
    | none => simp [hm] at h
    | some mc => simp only [hm] at h; exact hC mc h
  · exact hG m h
  · split at h
    · exact hM h
    · cases h
  · unfold linkageWith at h
    cases hd : dispatch m with
    | mst => simp only [hd] at h; exact hM h
    | nnchain =>
      simp only [hd] at h
      cases hm : m.intoMethodChain with
      | none => simp [hm] at h
      | some mc => simp only [hm] at h; exact hC mc h
    | generic => simp only [hd] at h; exact hG m h
    | primitive => simp only [hd] at h; exact hP m h
    | linkage => simp [hd] at h

theorem C14_dispatch :
    ∀ m : Method, m.requiresSorting = true →
      (dispatch m = .mst ∧ m = .single) ∨ (dispatch m = .nnchain ∧ m.intoMethodChain.isSome) := by
  intro m; cases m <;> simp [Method.requiresSorting, dispatch, Method.intoMethodChain]

end Kodama
