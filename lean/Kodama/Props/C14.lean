/-
C14 — quadratic work (matrix index computations ≤ 10 n² + 50 n) for mst / nnchain / linkage with the
five reducible methods.

The model threads a counter `Mat.acc` through `mst` and `nnchain` that ticks exactly where the
`kodama_verif` hook in `matrix_to_condensed_idx` ticks; the correspondence run compares the model's
count with the hook's count EXACTLY on every generated case (same floats ⇒ same control flow ⇒ same
count), so a semantically invisible slowdown (chain restarted every iteration, an extra rescan)
changes the count and breaks the tie.

Proved here:
* `C14_mst`        for every valid matrix (2 ≤ n < 2^31), every comparison behaviour (NO law about
                   `<` is used), both build modes and every prior state: `mst_with` performs EXACTLY
                   n(n-1)/2 index computations — in particular ≤ 10 n² + 50 n (`C14_mst_bound`).
* `C14_small`      for n ≤ 1 (empty matrix) no index computation happens, on every entry point.
* `C14_dispatch`   `linkage` routes exactly the five methods to mst (single) or nnchain
                   (generated table, `decide`), never to generic/primitive.

NOT proved when this header was written — NOW PROVED under explicit hypotheses in the section
appended at the end of this file (`C14_nnchain*`, `C14_linkage*`): the bound for `nnchain` (needs the chain invariant "chain entries are live and pairwise
distinct" plus an Abel-summation argument; the measured worst case is 3.5 n²).  For nnchain the
claim rests on (i) the exact model/hook count correspondence and (ii) the oracle checking the bound
on the real crate on adversarial inputs (sorted / reverse-sorted entries, all ties, geometric
progressions with chains of length ~n) up to n = 2000.
-/
import Kodama.Lemmas.MstRun
import Kodama.Lemmas.Tail
import Kodama.Props.C12
namespace Kodama
variable {α : Type} [Num α]

theorem C14_mst (chk : Bool) (st st' : State α) (d d' : Dendrogram α) (data : Array α) (n : Nat)
    (M' : Mat α) (h2 : 2 ≤ n) (hs : n < 2147483648) (hl : 2 * data.size = n * (n - 1))
    (h : mstWith chk st d data n = .ok (st', d', M')) :
    2 * M'.acc = n * (n - 1) := by
  obtain ⟨st1, dend1, M1, hres, heq⟩ := mstWith_eq chk st d data n h2 hs hl
  rw [heq] at h
  obtain ⟨r, _, hr⟩ := bind_ok.mp h
  simp only [pure_ok, Prod.mk.injEq] at hr
  rw [← hr.2.2]
  exact hres.acc

theorem C14_mst_bound (chk : Bool) (st st' : State α) (d d' : Dendrogram α) (data : Array α)
    (n : Nat) (M' : Mat α) (h2 : 2 ≤ n) (hs : n < 2147483648)
    (hl : 2 * data.size = n * (n - 1))
    (h : mstWith chk st d data n = .ok (st', d', M')) :
    M'.acc ≤ 10 * (n * n) + 50 * n := by
  have := C14_mst chk st st' d d' data n M' h2 hs hl h
  have h1 : n * (n - 1) ≤ n * n := Nat.mul_le_mul_left n (by omega)
  omega

/-- `n ≤ 1`: the matrix must be empty and nothing is ever indexed, on every entry point. -/
theorem C14_small (chk : Bool) (alg : Alg) (m : Method) (st st' : State α) (d d' : Dendrogram α)
    (n : Nat) (M' : Mat α) (hn : n ≤ 1)
    (h : runWith chk alg m st d (#[] : Array α) n = .ok (st', d', M')) : M'.acc = 0 := by
  have hsq : ∀ m' : Method, squareData m' (#[] : Array α) = #[] := by
    intro m'; unfold squareData; split <;> simp
  have hnew : Mat.new chk (#[] : Array α) n = .ok { data := #[], n := 0, acc := 0 } := by
    simp [Mat.new, Gen.shapeM, guard', hn, bind, Except.bind, pure, Except.pure]
  have hP : ∀ m', primitiveWith chk m' st d (#[] : Array α) n = .ok (st', d', M') → M'.acc = 0 := by
    intro m' h
    unfold primitiveWith at h
    simp only [hsq, hnew, bind, Except.bind, if_true, pure, Except.pure, Except.ok.injEq,
      Prod.mk.injEq] at h
    rw [← h.2.2]
  have hG : ∀ m', genericWith chk m' st d (#[] : Array α) n = .ok (st', d', M') → M'.acc = 0 := by
    intro m' h
    unfold genericWith at h
    simp only [hsq, hnew, bind, Except.bind, if_true, pure, Except.pure, Except.ok.injEq,
      Prod.mk.injEq] at h
    rw [← h.2.2]
  have hM : mstWith chk st d (#[] : Array α) n = .ok (st', d', M') → M'.acc = 0 := by
    intro h
    unfold mstWith at h
    simp only [hnew, bind, Except.bind, if_true, pure, Except.pure, Except.ok.injEq,
      Prod.mk.injEq] at h
    rw [← h.2.2]
  have hC : ∀ mc, nnchainWith chk mc st d (#[] : Array α) n = .ok (st', d', M') → M'.acc = 0 := by
    intro mc h
    unfold nnchainWith at h
    simp only [hsq, hnew, bind, Except.bind, if_true, pure, Except.pure, Except.ok.injEq,
      Prod.mk.injEq] at h
    rw [← h.2.2]
  cases alg <;> simp only [runWith] at h
  · exact hP m h
  · cases hm : m.intoMethodChain with
    | none => simp [hm] at h
    | some mc => simp only [hm] at h; exact hC mc h
  · exact hG m h
  · split at h
    · exact hM h
    · cases h
  · unfold linkageWith at h
    cases hd : dispatch m with
    | mst => simp only [hd] at h; exact hM h
    | nnchain =>
      simp only [hd] at h
      cases hm : m.intoMethodChain with
      | none => simp [hm] at h
      | some mc => simp only [hm] at h; exact hC mc h
    | generic => simp only [hd] at h; exact hG m h
    | primitive => simp only [hd] at h; exact hP m h
    | linkage => simp [hd] at h

theorem C14_dispatch :
    ∀ m : Method, m.requiresSorting = true →
      (dispatch m = .mst ∧ m = .single) ∨ (dispatch m = .nnchain ∧ m.intoMethodChain.isSome) := by
  intro m; cases m <;> simp [Method.requiresSorting, dispatch, Method.intoMethodChain]

end Kodama

/-!
### Appended: `nnchain_with` (chain invariant, `Lemmas/Chain{Mat,Scan,Inv,Iter,Run,Exact}.lean`)

* `C14_nnchain`    `nnchain_with` on every valid matrix, under `OrderLaws α`, NaN-free (squared) input
                   and the named algebraic hypothesis `ChainReducible α mc`: at most `7·n(n+1) − 10`
                   index computations (`C14_nnchain_tight`), in particular ≤ 10 n² + 50 n.  Proof: the
                   chain entries are pairwise distinct live clusters (`ChainL`), so with ℓ live
                   clusters each push costs ≤ 2ℓ (one test + at most one improvement per scanned
                   cluster), the restart scan ≤ 1 + 2ℓ, the update = 2(ℓ−2) (+1 for Ward); an outer
                   iteration pops at most 3 entries, and the potential
                   `acc + 7·ℓ(ℓ+1) ≤ 7·n(n+1) + 2·ℓ·chain.len` (Abel summation in disguise: a chain
                   entry pushed when ℓ clusters were live is charged 2ℓ) is an invariant
                   (`ChainInv.work`, `chainWork_step`).  The model's `acc` equals the instrumented
                   crate's count EXACTLY on every correspondence case, so this is a statement about
                   the code's control flow, not about a re-implementation.
* `C14_nnchain_single_complete`  `Single` / `Complete` without the reducibility hypothesis;
  `C14_nnchain_exact`  all five methods in exact arithmetic.
* `C14_linkage`    `linkage_with` for the five methods (generated dispatch table: single → mst, exact
                   count; complete/average/weighted/Ward → nnchain): ≤ 10 n² + 50 n under the same
                   hypotheses; `C14_linkage_single_complete` unconditionally (single needs NO
                   hypothesis on the numbers at all, complete `OrderLaws` + NaN-free input).

`ChainReducible` over IEEE floats: weighted: `Props/C14Weighted.lean`; for AVERAGE it is a theorem since
the `fix:` commit of the crate, `Props/C14Average.lean`: `C14_nnchain_average`, `C14_linkage_average`;
for WARD (false before: ~11% of tied updates) since the second `fix:` commit, `Props/C14Ward.lean`:
`C14_nnchain_ward`, `C14_linkage_ward`.  Independently the bound is checked by (i) the exact model/hook
count correspondence and (ii) the oracle on the real crate on adversarial inputs up to n = 2000; the
measured worst case is 3.5 n².
-/
namespace Kodama
variable {α : Type} [Num α]


/-- The bound the potential argument gives: `acc ≤ 7·n(n+1) − 10`. -/
theorem C14_nnchain_tight (L : OrderLaws α) (chk : Bool) (mc : MethodChain) (hred : ChainReducible α mc)
    (st st' : State α) (d d' : Dendrogram α) (data : Array α) (n : Nat) (M' : Mat α)
    (h2 : 2 ≤ n) (hs : n < 2147483648) (hl : 2 * data.size = n * (n - 1))
    (hnan : NoNaNData (squareData mc.intoMethod data))
    (h : nnchainWith chk mc st d data n = .ok (st', d', M')) :
    M'.acc + 10 ≤ 7 * (n * (n + 1)) := by
  obtain ⟨s1, hres, heq⟩ := nnchainWith_eq L chk mc hred st d data n h2 hs hl hnan
  rw [heq] at h
  obtain ⟨r, _, hr⟩ := bind_ok.mp h
  simp only [pure_ok, Prod.mk.injEq] at hr
  rw [← hr.2.2]
  exact hres.acc

theorem C14_nnchain (L : OrderLaws α) (chk : Bool) (mc : MethodChain) (hred : ChainReducible α mc)
    (st st' : State α) (d d' : Dendrogram α) (data : Array α) (n : Nat) (M' : Mat α)
    (h2 : 2 ≤ n) (hs : n < 2147483648) (hl : 2 * data.size = n * (n - 1))
    (hnan : NoNaNData (squareData mc.intoMethod data))
    (h : nnchainWith chk mc st d data n = .ok (st', d', M')) :
    M'.acc ≤ 10 * (n * n) + 50 * n := by
  have := C14_nnchain_tight L chk mc hred st st' d d' data n M' h2 hs hl hnan h
  have e : n * (n + 1) = n * n + n := by rw [Nat.mul_add, Nat.mul_one]
  rw [e] at this
  omega

theorem C14_nnchain_single_complete (L : OrderLaws α) (chk : Bool) (mc : MethodChain)
    (hmc : mc = .single ∨ mc = .complete) (st st' : State α) (d d' : Dendrogram α)
    (data : Array α) (n : Nat) (M' : Mat α) (h2 : 2 ≤ n) (hs : n < 2147483648)
    (hl : 2 * data.size = n * (n - 1)) (hnan : NoNaNData data)
    (h : nnchainWith chk mc st d data n = .ok (st', d', M')) :
    M'.acc ≤ 10 * (n * n) + 50 * n :=
  C14_nnchain L chk mc (chainReducible_single_complete mc hmc) st st' d d' data n M' h2 hs hl
    (by rw [squareData_single_complete mc hmc]; exact hnan) h

theorem C14_nnchain_exact {K : Type} [Field K] [LinearOrder K] [IsStrictOrderedRing K] [Num K]
    (F : FieldLaws K) (hnn : ∀ x : K, Num.isNaN x = false) (chk : Bool) (mc : MethodChain)
    (st st' : State K) (d d' : Dendrogram K) (data : Array K) (n : Nat) (M' : Mat K) (h2 : 2 ≤ n)
    (hs : n < 2147483648) (hl : 2 * data.size = n * (n - 1))
    (h : nnchainWith chk mc st d data n = .ok (st', d', M')) :
    M'.acc ≤ 10 * (n * n) + 50 * n :=
  C14_nnchain (orderLaws_of_fieldLaws F) chk mc (chainReducible_exact F hnn mc) st st' d d' data n M'
    h2 hs hl (fun _ _ => hnn _) h

/-- `linkage_with`, the five methods of C14, through the generated dispatch table. -/
theorem C14_linkage (L : OrderLaws α) (chk : Bool) (m : Method)
    (hm : m.requiresSorting = true)
    (hred : ∀ mc, m.intoMethodChain = some mc → ChainReducible α mc)
    (st st' : State α) (d d' : Dendrogram α) (data : Array α) (n : Nat) (M' : Mat α)
    (h2 : 2 ≤ n) (hs : n < 2147483648) (hl : 2 * data.size = n * (n - 1))
    (hnan : m ≠ .single → NoNaNData (squareData m data))
    (h : linkageWith chk m st d data n = .ok (st', d', M')) :
    M'.acc ≤ 10 * (n * n) + 50 * n := by
  by_cases hsingle : m = .single
  · subst hsingle
    have : linkageWith chk .single st d data n = mstWith chk st d data n := by
      unfold linkageWith; simp [dispatch]
    rw [this] at h
    exact C14_mst_bound chk st st' d d' data n M' h2 hs hl h
  · cases hmc : m.intoMethodChain with
    | none => cases m <;> simp [Method.intoMethodChain, Method.requiresSorting] at hmc hm
    | some mc =>
      rw [linkageWith_nnchain chk m mc hsingle hmc] at h
      have hround := intoMethodChain_roundtrip m mc hmc
      exact C14_nnchain L chk mc (hred mc hmc) st st' d d' data n M' h2 hs hl
        (by rw [hround]; exact hnan hsingle) h

/-- Single (no hypothesis on the numbers at all: mst) and complete (`OrderLaws` + NaN-free input). -/
theorem C14_linkage_single_complete (L : OrderLaws α) (chk : Bool) (m : Method)
    (hm : m = .single ∨ m = .complete)
    (st st' : State α) (d d' : Dendrogram α) (data : Array α) (n : Nat) (M' : Mat α)
    (h2 : 2 ≤ n) (hs : n < 2147483648) (hl : 2 * data.size = n * (n - 1))
    (hnan : m = .complete → NoNaNData data)
    (h : linkageWith chk m st d data n = .ok (st', d', M')) :
    M'.acc ≤ 10 * (n * n) + 50 * n := by
  rcases hm with rfl | rfl
  · exact C14_linkage L chk .single rfl
      (by intro mc hmc; simp only [Method.intoMethodChain, Option.some.injEq] at hmc
          rw [← hmc]; exact chainReducible_single)
      st st' d d' data n M' h2 hs hl (fun h => absurd rfl h) h
  · exact C14_linkage L chk .complete rfl
      (by intro mc hmc; simp only [Method.intoMethodChain, Option.some.injEq] at hmc
          rw [← hmc]; exact chainReducible_complete)
      st st' d d' data n M' h2 hs hl
      (fun _ => by
        have : squareData Method.complete data = data := by simp [squareData, Method.onSquares]
        rw [this]; exact hnan rfl) h

/-- Non-vacuity (hypotheses satisfiable: toy exact number type, valid 4-point matrix; see also the
`example`s at the end of `Props/C12.lean`). -/
example (st' : State Nat) (d' : Dendrogram Nat) (M' : Mat Nat)
    (h : @nnchainWith Nat Spec.Toy.natNum true .complete State.new (Dendrogram.new 4)
      (#[5, 2, 9, 7, 4, 1] : Array Nat) 4 = .ok (st', d', M')) :
    M'.acc ≤ 10 * (4 * 4) + 50 * 4 :=
  @C14_nnchain_single_complete Nat Spec.Toy.natNum Spec.Toy.natOrderLaws true .complete (Or.inr rfl)
    _ st' _ d' _ 4 M' (by decide) (by decide) (by decide) (fun _ _ => rfl) h

end Kodama
