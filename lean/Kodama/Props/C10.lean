/-
C10 — single and complete linkage depend only on the ORDER of the dissimilarities.

Let `g : α → β` be any map that preserves every decision the code can take on values
(`OrdHom g`: `lt`, `beq`, `isNaN` — for floats: any strictly increasing map on the values that
occur, NaN to NaN; ties are preserved because `beq` is).  Nothing arithmetic is assumed of `g`.

Proved here, for the model (via the naturality theorem `runWith_natural_out`):

* `C10_formulas`  `Gen.single` and `Gen.complete` (regenerated from `src/method.rs` on every run)
                  commute with every such `g`, because they only select one of their arguments
                  after one `<` test.  (The proof unfolds the generated definitions; if either
                  formula acquired any arithmetic this file would stop building.)
* `C10`           FULL statement for `m ∈ {single, complete}`, every entry point (`runWith`:
                  primitive, nnchain, generic, mst, linkage — for a pair the Rust API does not offer,
                  e.g. mst with complete, both sides are the same `unwrapNone` panic), both build
                  modes, every input and `n`, and ARBITRARY unrelated prior states/dendrograms on
                  the two sides: running on `data.map g` gives the same merges (labels, sizes, order
                  of steps) with every height mapped by `g`, leaves the matrix mapped by `g`, or
                  panics with the same class.  Holds under ties.
                  SENTINEL HYPOTHESES, explicit in the statement and only where the sentinel is
                  compared with data:
                    `hinf : usesInf alg m → g ∞ = ∞`         (mst; linkage/single),
                    `hmax : usesMax alg m → SentinelSafe g`  (generic only; `linkage` never routes
                            single/complete to `generic`): comparisons with `T::max_value()` agree,
                            `g x < MAX ↔ x < MAX`, `MAX < g x ↔ MAX < x`, `g x == MAX ↔ x == MAX`
                            — implied by `g MAX = MAX` (`SentinelSafe.of_fix`), and true of any
                            increasing float map whose values stay below `MAX`.
                  For primitive and nnchain there is no hypothesis besides `OrdHom g`.
* `C10_linkage_no_max`  `usesMax .linkage m = false` for both methods.
* `C10_ok`, `C10_panic`  the same in elementary terms.

Not proved: that a concrete float function is an `OrdHom` (that is a fact about the function, e.g.
`v ↦ v³ + 3` on the value range used by the oracle).
-/
import Kodama.Lemmas.NaturalitySafe
namespace Kodama
variable {α β : Type} [Num α] [Num β]

/-- The two methods that only select. -/
def Method.selectsOnly (m : Method) : Prop := m = .single ∨ m = .complete

theorem C10_formulas {g : α → β} (G : OrdHom g) {m : Method} (hm : m.selectsOnly) :
    UpdHom m g := by
  rcases hm with rfl | rfl
  · exact G.single
  · exact G.complete

theorem C10_hom {g : α → β} (G : OrdHom g) {m : Method} (hm : m.selectsOnly) : Hom m g g :=
  ⟨G, C10_formulas G hm, SqHom.refl m (by rcases hm with rfl | rfl <;> rfl) g⟩

/-- **C10.** -/
theorem C10 {g : α → β} (G : OrdHom g) {m : Method} (hm : m.selectsOnly) (chk : Bool) (alg : Alg)
    (hmax : usesMax alg m = true → SentinelSafe g)
    (hinf : usesInf alg m = true → g Num.infinity = Num.infinity)
    (st : State α) (st' : State β) (d : Dendrogram α) (d' : Dendrogram β) (data : Array α)
    (n : Nat) :
    out <$> runWith chk alg m st' d' (data.map g) n
      = mapOut g g <$> (out <$> runWith chk alg m st d data n) :=
  runWith_natural_safe (C10_hom G hm) hmax hinf chk st st' d d' data n

theorem C10_linkage_no_max {m : Method} (hm : m.selectsOnly) : usesMax .linkage m = false := by
  rcases hm with rfl | rfl <;> rfl

theorem C10_ok {g : α → β} (G : OrdHom g) {m : Method} (hm : m.selectsOnly) (chk : Bool)
    (alg : Alg)
    (hmax : usesMax alg m = true → SentinelSafe g)
    (hinf : usesInf alg m = true → g Num.infinity = Num.infinity)
    (st : State α) (st' : State β) (d : Dendrogram α) (d' : Dendrogram β) (data : Array α)
    (n : Nat) (st1 : State α) (d1 : Dendrogram α) (M1 : Mat α)
    (h : runWith chk alg m st d data n = .ok (st1, d1, M1)) :
    ∃ st2, runWith chk alg m st' d' (data.map g) n = .ok (st2, mapDend g d1, mapMat g M1) := by
  have := C10 G hm chk alg hmax hinf st st' d d' data n
  rw [h] at this
  cases h' : runWith chk alg m st' d' (data.map g) n with
  | error p => rw [h'] at this; cases this
  | ok r =>
    rw [h'] at this
    obtain ⟨st2, d2, M2⟩ := r
    simp only [map_ok', out, mapOut, Except.ok.injEq, Prod.mk.injEq] at this
    exact ⟨st2, by rw [this.1, this.2]⟩

theorem C10_panic {g : α → β} (G : OrdHom g) {m : Method} (hm : m.selectsOnly) (chk : Bool)
    (alg : Alg)
    (hmax : usesMax alg m = true → SentinelSafe g)
    (hinf : usesInf alg m = true → g Num.infinity = Num.infinity)
    (st : State α) (st' : State β) (d : Dendrogram α) (d' : Dendrogram β) (data : Array α)
    (n : Nat) (p : Panic) (h : runWith chk alg m st d data n = .error p) :
    runWith chk alg m st' d' (data.map g) n = .error p := by
  have := C10 G hm chk alg hmax hinf st st' d d' data n
  rw [h] at this
  cases h' : runWith chk alg m st' d' (data.map g) n with
  | error q => rw [h'] at this; simpa using this
  | ok r => rw [h'] at this; cases this

/-! ### Non-vacuity

A strictly increasing map between two different finite chains that sends top to top (so both
sentinel hypotheses hold) and is not surjective: `0 ↦ 0, 1 ↦ 2, 2 ↦ 4`.
(C09.lean has an example where `SentinelSafe` holds although the sentinel is not fixed.) -/

namespace C10Example

@[reducible] def numFin (k : Nat) : Num (Fin (k + 1)) where
  lt a b := decide (a < b)
  beq a b := decide (a = b)
  add a _ := a
  sub a _ := a
  mul a _ := a
  div a _ := a
  ofNat _ := 0
  half := 0
  quarter := 0
  sqrt a := a
  abs a := a
  maxValue := Fin.last k
  infinity := Fin.last k
  isNaN _ := false

attribute [local instance] numFin

def g : Fin 3 → Fin 5 := fun i => ⟨2 * i.val, by omega⟩

theorem g_ord : OrdHom g := ⟨by decide, by decide, by decide⟩

example : OrdHom g ∧ SentinelSafe g ∧ g Num.infinity = Num.infinity :=
  ⟨g_ord, SentinelSafe.of_fix g_ord (by decide), by decide⟩

end C10Example

end Kodama
