/-
C06 UNDER FLOATING-POINT ROUNDING, WEIGHTED LINKAGE (WPGMA) — the companion of `Props/C06Rounding.lean`.

The criterion of weighted linkage is the recursively halved mean `Crit.wdist` over the MERGE TREES of
the two clusters (not only over their observation sets), so the margin and the uniqueness argument are
stated over `clusterTree n steps l`:

* `WgtMarginAlong D u n steps` — along the run, the merged pair's exact `wdist` beats every other present
  pair's by more than the factor `(1−u)^K`, `K = 2·(|A|+|B|−2) + 2·(|X|+|Y|−2)` (the looseness of
  `WgtGreedyUpTo`, `Props/C03Rounding.lean`);
* `C06_weighted_rounded_labels_unique`, `C06_weighted_rounded_unique` — a well-formed run with the margin
  and any well-formed run that is greedy up to rounding (`WgtGreedyUpTo`) merge the same labels and report
  the same sizes at every position (hence have the same merge trees: `clusterTree_lab`);
* `C06_weighted_rounded_agree` — and their heights are within `2·2·(size−2)` rounding factors of each
  other when both are within rounding of the exact `wdist` (what the C02 rounding theorems state);
* `C06_primitive_nnchain_weighted_rounded`, `C06_primitive_linkage_weighted_rounded`,
  `C06_primitive_generic_weighted_rounded` — entry points, under exactly the hypotheses of the C02/C03
  rounding theorems for weighted linkage.

* `C06_weighted_margin_of_gap` — the margin in numbers: a relative gap `γ` with `8·n·u ≤ c`, `1 ≤ (1+γ)(1−c)`.

Not proved: that IEEE arithmetic satisfies `Round.Model` / `ChainGeOn ok .weighted` (hypotheses; sampled).
-/
import Kodama.Props.C06Rounding
set_option linter.unusedSectionVars false
namespace Kodama
open Spec Crit MTree Finset Round

variable {K : Type} [Field K] [LinearOrder K] [IsStrictOrderedRing K]
variable {α : Type} [Num α]

/-! ## Merge trees depend on the labels only -/

/-- The merge tree of a label below `n + i` only looks at the LABELS of the steps before `i`. -/
theorem clusterTree_lab {n i : Nat} {L L' : List (Step α)} (h : LabAgree i L L')
    (ho : LabelsOrdered n L) (ho' : LabelsOrdered n L') (hi : i ≤ L.length) :
    ∀ l, l < n + i → clusterTree n L l = clusterTree n L' l := by
  intro l
  induction l using Nat.strong_induction_on with
  | _ l ih =>
    intro hl
    by_cases c : l < n
    · simp [clusterTree, finalCl_of_lt _ _ _ _ c]
    · obtain ⟨j, rfl⟩ : ∃ j, l = n + j := ⟨l - n, by omega⟩
      have hj : j < i := by omega
      cases hs : L[j]? with
      | none =>
        have e1 : L.length ≤ j := List.getElem?_eq_none_iff.mp hs
        omega
      | some s =>
        obtain ⟨s', hs', e1, e2⟩ := h.get hj hs
        have o := ho j s hs
        unfold clusterTree
        rw [finalCl_step leaf n L ho j s hs, finalCl_step leaf n L' ho' j s' hs', e1, e2]
        have h1 := ih s.c1 (by omega) (by omega)
        have h2 := ih s.c2 (by omega) (by omega)
        unfold clusterTree at h1 h2
        rw [h1, h2]

/-! ## The margin -/

/-- **Rounding-safe margin along a run, weighted linkage.** -/
def WgtMarginAlong (D : Nat → Nat → K) (u : K) (n : Nat) (steps : List (Step α)) : Prop :=
  ∀ (i : Nat) (s : Step α), steps[i]? = some s →
    ∀ p q : Nat, PresentBefore n steps i p → PresentBefore n steps i q → p < q →
      ¬ (p = s.c1 ∧ q = s.c2) →
      let TA := clusterTree n steps s.c1
      let TB := clusterTree n steps s.c2
      let TX := clusterTree n steps p
      let TY := clusterTree n steps q
      wdist D TA TB < wdist D TX TY *
        (1 - u) ^ (2 * (TA.leaves.card + TB.leaves.card - 2) + 2 * (TX.leaves.card + TY.leaves.card - 2))

theorem labelsOrdered_of_wf {n : Nat} {L : List (Step α)} (wf : WellFormed n L) : LabelsOrdered n L := by
  intro i st hi
  have := wf.ordered i st hi
  omega

/-- **Labels are unique under the margin (weighted linkage).** -/
theorem C06_weighted_rounded_labels_unique {D : Nat → Nat → K} {u : K} {n : Nat}
    {s₁ s₂ : List (Step α)} (wf₁ : WellFormed n s₁) (wf₂ : WellFormed n s₂)
    (m₁ : WgtMarginAlong D u n s₁) (g₂ : WgtGreedyUpTo D u n s₂) :
    ∀ i, LabAgree i s₁ s₂ := by
  have ho₁ := labelsOrdered_of_wf wf₁
  have ho₂ := labelsOrdered_of_wf wf₂
  intro i
  induction i with
  | zero => intro j hj; omega
  | succ i ih =>
    intro j hj
    by_cases hji : j < i
    · exact ih j hji
    have hj' : j = i := by omega
    subst hj'
    cases ha : s₁[j]? with
    | none =>
      have h1 : s₁.length ≤ j := List.getElem?_eq_none_iff.mp ha
      have h2 : s₂[j]? = none := List.getElem?_eq_none_iff.mpr (by rw [wf₂.len, ← wf₁.len]; exact h1)
      rw [h2]
    | some a =>
      have hjl : j < s₁.length := (List.getElem?_eq_some_iff.mp ha).1
      have hjl2 : j < s₂.length := by rw [wf₂.len, ← wf₁.len]; exact hjl
      obtain ⟨b, hb⟩ : ∃ b, s₂[j]? = some b := ⟨s₂[j], List.getElem?_eq_getElem hjl2⟩
      rw [hb]
      simp only [Option.map_some, Option.some.injEq, Prod.mk.injEq]
      by_contra hne
      obtain ⟨pa1, pa2, hane⟩ := C03_rounded_merged_present wf₁ j a ha
      obtain ⟨pb1, pb2, _⟩ := C03_rounded_merged_present wf₂ j b hb
      have oa := wf₁.ordered j a ha
      have ob := wf₂.ordered j b hb
      have pa1' := presentBefore_lab ih a.c1 pa1
      have pa2' := presentBefore_lab ih a.c2 pa2
      have pb1' := presentBefore_lab ih.symm b.c1 pb1
      have pb2' := presentBefore_lab ih.symm b.c2 pb2
      have htr : ∀ l, l < n + j → clusterTree n s₁ l = clusterTree n s₂ l :=
        clusterTree_lab ih ho₁ ho₂ (by omega)
      have g := g₂ j b hb a.c1 a.c2 pa1' pa2' hane
      have m := m₁ j a ha b.c1 b.c2 pb1' pb2' ob.1 (fun h => hne ⟨h.1.symm, h.2.symm⟩)
      simp only at g m
      obtain ⟨_, _, _, _, g⟩ := g
      rw [← htr a.c1 (by omega), ← htr a.c2 (by omega)] at g
      rw [htr b.c1 (by omega), htr b.c2 (by omega)] at m
      rw [Nat.add_comm (2 * _) (2 * _)] at m
      exact absurd (lt_of_lt_of_le m g) (lt_irrefl _)

/-- **C06 under rounding, labels and sizes, weighted linkage.** -/
theorem C06_weighted_rounded_unique {D : Nat → Nat → K} {u : K} {n : Nat}
    {s₁ s₂ : List (Step α)} (wf₁ : WellFormed n s₁) (wf₂ : WellFormed n s₂)
    (m₁ : WgtMarginAlong D u n s₁) (g₂ : WgtGreedyUpTo D u n s₂) :
    ∀ i : Nat, (s₁[i]?).map (fun s : Step α => (s.c1, s.c2, s.size)) =
      (s₂[i]?).map (fun s : Step α => (s.c1, s.c2, s.size)) := by
  intro i
  have hl := C06_weighted_rounded_labels_unique wf₁ wf₂ m₁ g₂
  have hs := C06_average_rounded_sizes_unique wf₁ wf₂ hl (i + 1) i (Nat.lt_succ_self i)
  have hli := hl (i + 1) i (Nat.lt_succ_self i)
  cases h1 : s₁[i]? <;> cases h2 : s₂[i]? <;> rw [h1, h2] at hs hli <;>
    simp only [Option.map_some, Option.map_none, Option.some.injEq, reduceCtorEq, Prod.mk.injEq] at hs hli ⊢
  exact ⟨hli.1, hli.2, hs⟩

/-! ## Heights -/

/-- What the C02 rounding theorems say about the heights, weighted linkage. -/
def WgtHeightsNear (D : Nat → Nat → K) (u : K) (n : Nat) (val : α → K) (steps : List (Step α)) : Prop :=
  ∀ (i : Nat) (s : Step α), steps[i]? = some s →
    Near u (2 * (s.size - 2))
      (wdist D (clusterTree n steps s.c1) (clusterTree n steps s.c2)) (val s.d)

/-- **C06 under rounding, weighted linkage, entry-point independent form.** -/
theorem C06_weighted_rounded_agree {D : Nat → Nat → K} {u : K} {n : Nat} {val : α → K}
    {s₁ s₂ : List (Step α)} (hu : u < 1) (wf₁ : WellFormed n s₁) (wf₂ : WellFormed n s₂)
    (m₁ : WgtMarginAlong D u n s₁) (g₂ : WgtGreedyUpTo D u n s₂)
    (h₁ : WgtHeightsNear D u n val s₁) (h₂ : WgtHeightsNear D u n val s₂) :
    s₁.length = s₂.length ∧
    ∀ (i : Nat) (a b : Step α), s₁[i]? = some a → s₂[i]? = some b →
      a.c1 = b.c1 ∧ a.c2 = b.c2 ∧ a.size = b.size ∧
        Near u (2 * (2 * (a.size - 2))) (val a.d) (val b.d) := by
  refine ⟨by rw [wf₁.len, wf₂.len], fun i a b ha hb => ?_⟩
  have hlab := C06_weighted_rounded_labels_unique wf₁ wf₂ m₁ g₂
  obtain ⟨b', hb', e1, e2⟩ := (hlab (i + 1)).get (Nat.lt_succ_self i) ha
  rw [hb] at hb'; cases hb'
  have hsz := C06_average_rounded_sizes_unique wf₁ wf₂ hlab (i + 1) i (Nat.lt_succ_self i)
  rw [ha, hb] at hsz
  simp only [Option.map_some, Option.some.injEq] at hsz
  have oa := wf₁.ordered i a ha
  have hil : i < s₁.length := (List.getElem?_eq_some_iff.mp ha).1
  have htr := clusterTree_lab (hlab i) (labelsOrdered_of_wf wf₁) (labelsOrdered_of_wf wf₂) (by omega)
  have n1 := h₁ i a ha
  have n2 := h₂ i b hb
  rw [e1, e2, ← htr a.c1 (by omega), ← htr a.c2 (by omega), ← hsz] at n2
  exact ⟨e1.symm, e2.symm, hsz, C02_average_rounded_agree hu n1 n2⟩

/-! ## Entry points -/

section EntryPoints
variable {val : α → K} {fin : α → Prop} {u lo hi : K} {N : Nat}

/-- Both calls return, and IF the margin holds along the first output THEN the two outputs agree. -/
def AgreeIfMarginW (D : Nat → Nat → K) (u : K) (n : Nat) (val : α → K) (d₁ d₂ : Dendrogram α) : Prop :=
  WgtMarginAlong D u n d₁.steps.toList →
    d₁.steps.toList.length = d₂.steps.toList.length ∧
    ∀ (i : Nat) (a b : Step α), d₁.steps.toList[i]? = some a → d₂.steps.toList[i]? = some b →
      a.c1 = b.c1 ∧ a.c2 = b.c2 ∧ a.size = b.size ∧
        Near u (2 * (2 * (a.size - 2))) (val a.d) (val b.d)

theorem C06_primitive_nnchain_weighted_rounded (L : OrderLaws α)
    (RM : Round.Model val fin u lo hi N) {ok : α → Prop} (hge : ChainGeOn ok .weighted)
    (chk : Bool) (st : State α) (d : Dendrogram α) (data : Array α) (n : Nat)
    (h2 : 2 ≤ n) (hs : n < 2147483648) (hl : 2 * data.size = n * (n - 1))
    {dlo dhi : K} (hdlo : 0 < dlo)
    (hdata : ∀ (k : Nat) (h : k < data.size), fin data[k] ∧ dlo ≤ val data[k] ∧ val data[k] ≤ dhi)
    (Rg : RangeOkW u lo hi n dlo dhi)
    (hok : ∀ v, fin v → dlo * (1 - u) ^ (2 * n) ≤ val v → val v ≤ dhi / (1 - u) ^ (2 * n) → ok v) :
    ∃ st₁ d₁ M₁ st₂ d₂ M₂,
      primitiveWith chk .weighted st d data n = .ok (st₁, d₁, M₁) ∧
      nnchainWith chk .weighted st d data n = .ok (st₂, d₂, M₂) ∧
      AgreeIfMarginW (valD val n data) u n val d₁ d₂ := by
  obtain ⟨st₁, d₁, M₁, r₁, wf₁, _⟩ :=
    C03_primitive_weighted_rounded L RM hge chk st d data n h2 hs hl hdlo hdata Rg hok
  obtain ⟨st₁', d₁', M₁', r₁', c₁⟩ :=
    C02_primitive_weighted_rounded L RM hge chk st d data n h2 hs hl hdlo hdata Rg hok
  obtain ⟨st₂, d₂, M₂, r₂, wf₂, g₂⟩ :=
    C03_nnchain_weighted_rounded L RM hge chk st d data n h2 hs hl hdlo hdata Rg hok
  obtain ⟨st₂', d₂', M₂', r₂', c₂⟩ :=
    C02_nnchain_weighted_rounded L RM hge chk st d data n h2 hs hl hdlo hdata Rg hok
  rw [r₁] at r₁'; cases r₁'
  rw [r₂] at r₂'; cases r₂'
  refine ⟨st₁, d₁, M₁, st₂, d₂, M₂, r₁, r₂, fun m₁ => ?_⟩
  exact C06_weighted_rounded_agree RM.u_lt_one wf₁ wf₂ m₁ g₂
    (fun i s hi => (c₁ i s hi).2.2.2) (fun i s hi => (c₂ i s hi).2.2.2)

theorem C06_primitive_linkage_weighted_rounded (L : OrderLaws α)
    (RM : Round.Model val fin u lo hi N) {ok : α → Prop} (hge : ChainGeOn ok .weighted)
    (chk : Bool) (st : State α) (d : Dendrogram α) (data : Array α) (n : Nat)
    (h2 : 2 ≤ n) (hs : n < 2147483648) (hl : 2 * data.size = n * (n - 1))
    {dlo dhi : K} (hdlo : 0 < dlo)
    (hdata : ∀ (k : Nat) (h : k < data.size), fin data[k] ∧ dlo ≤ val data[k] ∧ val data[k] ≤ dhi)
    (Rg : RangeOkW u lo hi n dlo dhi)
    (hok : ∀ v, fin v → dlo * (1 - u) ^ (2 * n) ≤ val v → val v ≤ dhi / (1 - u) ^ (2 * n) → ok v) :
    ∃ st₁ d₁ M₁ st₂ d₂ M₂,
      primitiveWith chk .weighted st d data n = .ok (st₁, d₁, M₁) ∧
      linkageWith chk .weighted st d data n = .ok (st₂, d₂, M₂) ∧
      AgreeIfMarginW (valD val n data) u n val d₁ d₂ := by
  obtain ⟨st₁, d₁, M₁, r₁, wf₁, _⟩ :=
    C03_primitive_weighted_rounded L RM hge chk st d data n h2 hs hl hdlo hdata Rg hok
  obtain ⟨st₁', d₁', M₁', r₁', c₁⟩ :=
    C02_primitive_weighted_rounded L RM hge chk st d data n h2 hs hl hdlo hdata Rg hok
  obtain ⟨st₂, d₂, M₂, r₂, wf₂, g₂⟩ :=
    C03_linkage_weighted_rounded L RM hge chk st d data n h2 hs hl hdlo hdata Rg hok
  obtain ⟨st₂', d₂', M₂', r₂', c₂⟩ :=
    C02_linkage_weighted_rounded L RM hge chk st d data n h2 hs hl hdlo hdata Rg hok
  rw [r₁] at r₁'; cases r₁'
  rw [r₂] at r₂'; cases r₂'
  refine ⟨st₁, d₁, M₁, st₂, d₂, M₂, r₁, r₂, fun m₁ => ?_⟩
  exact C06_weighted_rounded_agree RM.u_lt_one wf₁ wf₂ m₁ g₂
    (fun i s hi => (c₁ i s hi).2.2.2) (fun i s hi => (c₂ i s hi).2.2.2)

theorem C06_primitive_generic_weighted_rounded (L : OrderLaws α) (hbeq : BeqLe α)
    (RM : Round.Model val fin u lo hi N)
    (hmax : Num.isNaN (Num.maxValue : α) = false) {G : α → Prop} (gs : GoodSet G)
    (hge : ChainGeOn G .weighted)
    (chk : Bool) (st : State α) (d : Dendrogram α) (data : Array α) (n : Nat)
    (h2 : 2 ≤ n) (hs : n < 2147483648) (hl : 2 * data.size = n * (n - 1))
    {dlo dhi : K} (hdlo : 0 < dlo)
    (hdata : ∀ (k : Nat) (h : k < data.size), fin data[k] ∧ dlo ≤ val data[k] ∧ val data[k] ≤ dhi)
    (Rg : RangeOkW u lo hi n dlo dhi)
    (hG : ∀ v, fin v → dlo * (1 - u) ^ (2 * n) ≤ val v → val v ≤ dhi / (1 - u) ^ (2 * n) → G v) :
    ∃ st₁ d₁ M₁ st₂ d₂ M₂,
      primitiveWith chk .weighted st d data n = .ok (st₁, d₁, M₁) ∧
      genericWith chk .weighted st d data n = .ok (st₂, d₂, M₂) ∧
      AgreeIfMarginW (valD val n data) u n val d₁ d₂ := by
  obtain ⟨st₁, d₁, M₁, r₁, wf₁, _⟩ :=
    C03_primitive_weighted_rounded L RM hge chk st d data n h2 hs hl hdlo hdata Rg hG
  obtain ⟨st₁', d₁', M₁', r₁', c₁⟩ :=
    C02_primitive_weighted_rounded L RM hge chk st d data n h2 hs hl hdlo hdata Rg hG
  obtain ⟨st₂, d₂, M₂, r₂, wf₂, g₂⟩ :=
    C03_generic_weighted_rounded L hbeq RM hmax gs hge chk st d data n h2 hs hl hdlo hdata Rg hG
  obtain ⟨st₂', d₂', M₂', r₂', c₂⟩ :=
    C02_generic_weighted_rounded L hbeq RM hmax gs hge chk st d data n h2 hs hl hdlo hdata Rg hG
  rw [r₁] at r₁'; cases r₁'
  rw [r₂] at r₂'; cases r₂'
  refine ⟨st₁, d₁, M₁, st₂, d₂, M₂, r₁, r₂, fun m₁ => ?_⟩
  exact C06_weighted_rounded_agree RM.u_lt_one wf₁ wf₂ m₁ g₂
    (fun i s hi => (c₁ i s hi).2.2.2) (fun i s hi => (c₂ i s hi).2.2.2)

end EntryPoints

/-! ## The margin in numbers -/

/-- Merge trees of a step list have at most `n` leaves. -/
theorem card_clusterTree_le {n : Nat} {steps : List (Step α)} (ho : LabelsOrdered n steps) (l : Nat)
    (hl : l < n + steps.length) : (clusterTree n steps l).leaves.card ≤ n := by
  rw [clusterTree_leaves n steps ho steps.length l
    (by by_cases c : l < n; exact Or.inl c; exact Or.inr ⟨hl, by omega⟩)]
  exact card_leaves_le n steps steps.length l

/-- **The margin in the property's words, weighted linkage**: a RELATIVE GAP `γ` between the exact
`wdist` of the merged pair (non-negative) and that of every other present pair is a rounding-safe margin as
soon as `8·n·u ≤ c` and `1 ≤ (1+γ)(1−c)`. -/
theorem C06_weighted_margin_of_gap {D : Nat → Nat → K} {u : K} {n : Nat} {steps : List (Step α)}
    (wf : WellFormed n steps)
    (h0 : 0 ≤ u) (hu : u < 1) {c γ : K} (hc : 8 * (n : K) * u ≤ c) (hγ0 : 0 ≤ γ)
    (hγ : 1 ≤ (1 + γ) * (1 - c))
    (hgap : ∀ (i : Nat) (s : Step α), steps[i]? = some s →
      ∀ p q : Nat, PresentBefore n steps i p → PresentBefore n steps i q → p < q →
        ¬ (p = s.c1 ∧ q = s.c2) →
        0 ≤ wdist D (clusterTree n steps s.c1) (clusterTree n steps s.c2) ∧
        wdist D (clusterTree n steps s.c1) (clusterTree n steps s.c2) * (1 + γ) <
          wdist D (clusterTree n steps p) (clusterTree n steps q)) :
    WgtMarginAlong D u n steps := by
  have ho := labelsOrdered_of_wf wf
  intro i s hi p q hp hq hpq hne
  obtain ⟨hnn, hlt⟩ := hgap i s hi p q hp hq hpq hne
  have hil : i < steps.length := (List.getElem?_eq_some_iff.mp hi).1
  have o := wf.ordered i s hi
  simp only
  have cA := card_clusterTree_le ho s.c1 (by omega)
  have cB := card_clusterTree_le ho s.c2 (by omega)
  have cX := card_clusterTree_le ho p (by have := hp.1; omega)
  have cY := card_clusterTree_le ho q (by have := hq.1; omega)
  generalize (clusterTree n steps s.c1).leaves.card = a at cA ⊢
  generalize (clusterTree n steps s.c2).leaves.card = b at cB ⊢
  generalize (clusterTree n steps p).leaves.card = x at cX ⊢
  generalize (clusterTree n steps q).leaves.card = y at cY ⊢
  generalize wdist D (clusterTree n steps s.c1) (clusterTree n steps s.c2) = mAB at hnn hlt ⊢
  generalize wdist D (clusterTree n steps p) (clusterTree n steps q) = mXY at hlt ⊢
  have hK : 2 * (a + b - 2) + 2 * (x + y - 2) ≤ 8 * n := by omega
  have hw1 : (1 - u) ≤ 1 := by linarith
  have hw0 : 0 ≤ (1 - u) := by linarith
  have hmono : (1 - u) ^ (8 * n) ≤ (1 - u) ^ (2 * (a + b - 2) + 2 * (x + y - 2)) :=
    pow_le_pow_of_le_one hw0 hw1 hK
  have h1 := one_sub_mul_le_pow_w hu (8 * n)
  have hk : ((8 * n : Nat) : K) * u = 8 * (n : K) * u := by push_cast; ring
  rw [hk] at h1
  have hg : 0 < 1 + γ := by linarith
  have hw : 1 ≤ (1 + γ) * (1 - u) ^ (2 * (a + b - 2) + 2 * (x + y - 2)) :=
    calc (1 : K) ≤ (1 + γ) * (1 - c) := hγ
      _ ≤ (1 + γ) * (1 - 8 * (n : K) * u) := mul_le_mul_of_nonneg_left (by linarith) hg.le
      _ ≤ (1 + γ) * (1 - u) ^ (8 * n) := mul_le_mul_of_nonneg_left h1 hg.le
      _ ≤ _ := mul_le_mul_of_nonneg_left hmono hg.le
  calc mAB = mAB * 1 := (mul_one _).symm
    _ ≤ mAB * ((1 + γ) * (1 - u) ^ (2 * (a + b - 2) + 2 * (x + y - 2))) :=
        mul_le_mul_of_nonneg_left hw hnn
    _ = (mAB * (1 + γ)) * (1 - u) ^ (2 * (a + b - 2) + 2 * (x + y - 2)) := by ring
    _ < mXY * (1 - u) ^ (2 * (a + b - 2) + 2 * (x + y - 2)) :=
        mul_lt_mul_of_pos_right hlt (pow_pos (by linarith) _)

end Kodama
