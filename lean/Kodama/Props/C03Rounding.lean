/-
C03 UNDER FLOATING-POINT ROUNDING — "each step merges a closest pair of the clusters then existing",
for AVERAGE (and weighted) linkage with an explicit rounding tolerance, for ALL entry points that accept
these methods: `primitive_with`, `generic_with`, `nnchain_with`, `linkage_with`.

`Props/C03*.lean` prove C03 (`Spec.GreedyValid`) in exact arithmetic (and, for single / complete, over
any linear order).  For average linkage the computed matrix entries are NOT the exact means, so the
merged pair need not be an exact minimiser of the documented criterion; what is true — and proved here —
is that it is a minimiser UP TO THE ROUNDING FACTOR `(1−u)^(−K)`, stated about the EXACT criterion of the
ORIGINAL matrix and about the RETURNED (stably sorted, relabelled) list of steps.

## The statement (`AvgGreedyUpTo D u n steps`, a definition)

For every step `s = (c1, c2, h, size)` at position `i` of the returned list `steps`, and for every two
DISTINCT labels `p ≠ q` naming clusters that are present after steps `0..i−1`
(`PresentBefore n steps i l  :=  l < n + i ∧ ¬ Spec.UsedBefore steps i l`: a singleton or a cluster created
by an earlier step, not consumed by an earlier step — by `C03_rounded_merged_present` the two merged
labels `c1`, `c2` are themselves such labels), with `A`, `B`, `X`, `Y` the observation sets
(`Spec.leaves`) of `c1`, `c2`, `p`, `q` and `mean` the EXACT mean of `D` over the cross pairs
(`Crit.avg`; in the theorems `D = valD val n data`, the values of the input entries):

    mean(A,B) · (1−u)^K ≤ mean(X,Y),      K = 4·(|A|+|B|−2) + 4·(|X|+|Y|−2)   (≤ 8n − 16)

(and `X`, `Y` are non-empty and disjoint, `|A|+|B| ≤ n`, `|X|+|Y| ≤ n`, `0 ≤ mean(A,B)`).  With `u = 0`
this is exactly "the merged pair minimises the mean over all pairs of clusters present".

## What is proved

* `C03_primitive_average_rounded`   under EXACTLY the hypotheses of `C02_primitive_average_rounded`
      (`OrderLaws α`; the standard model `Round.Model val fin u lo hi N`; valid matrix `2 ≤ n < 2³¹`,
      `2·len = n(n−1)`; every entry finite and `0` or in `[dlo, dhi]`; `Round.RangeOk`) the call
      `primitiveWith chk .average st d data n` returns a well-formed dendrogram `d'` with
      `AvgGreedyUpTo (valD val n data) u n d'.steps.toList`.
* `C03_generic_average_rounded`     the same for `genericWith`, under exactly the hypotheses of
      `C02_generic_average_rounded` (in addition: `BeqLe α`, `max_value` not NaN, `GoodSet G`, `hG` —
      what `generic_with` needs to run at all; see `Props/C02RoundingGeneric.lean`).
* `C03_average_rounded_uniform`     `AvgGreedyUpTo` ⇒ the same inequality with the uniform `K = 8n`.
* `C03_average_rounded_gamma`, `_1e9`, `_1e3`   numeric corollaries of `AvgGreedyUpTo`
      (entry-point independent): if `8·n·u ≤ c` and `1 ≤ (1+γ)(1−c)` then
      `mean(A,B) ≤ (1+γ)·mean(X,Y)`; with `u ≤ 2⁻⁵³`, `n ≤ 10⁶`: `mean(A,B) ≤ (1 + 10⁻⁹)·mean(X,Y)`;
      with `u ≤ 2⁻²⁴`, `n ≤ 2000`: `≤ (1 + 10⁻³)·mean(X,Y)`.
* `C03_nnchain_average_rounded`, `C03_linkage_average_rounded`   the same for the nearest-neighbour chain
      (`nnchainWith`, and `linkageWith` which dispatches to it), under exactly the hypotheses of
      `C02_nnchain_average_rounded`, WITH THE SAME CONSTANT `K` — although there the raw order is not the
      returned order and the raw steps are not global minima (see "Proof" below).
* `C03_primitive_average_rounded_1e9`, `C03_generic_average_rounded_1e9`,
  `C03_linkage_average_rounded_1e9`   entry point + numeric corollary combined.
* WEIGHTED linkage (`WgtGreedyUpTo`: the same statement for the recursively halved mean `Crit.wdist`
  over the merge trees `Crit.clusterTree` of the labels, `K = 2·(|A|+|B|−2) + 2·(|X|+|Y|−2)`):
  `C03_primitive_weighted_rounded`, `C03_generic_weighted_rounded`, `C03_nnchain_weighted_rounded`,
  `C03_linkage_weighted_rounded`, under the hypotheses of the corresponding C02 theorems (strictly positive
  entries, `RangeOkW`, reducibility of the midpoint on a domain `ChainGeOn ok .weighted`), and
  `C03_weighted_rounded_uniform` (`K = 4n`).
* Non-vacuity: exact `ℚ` (`u = 0`: the merged pair is an exact minimiser of the mean), the round-down toy
  type `downNum` (`u = 1/1000`), for primitive, generic and nnchain/linkage.

## Why the hypotheses

Those of the C02 rounding theorems, for the same reasons (non-negative entries for relative bounds;
`RangeOk` so that the model's laws apply to every intermediate result; finiteness of all values of the
run is DERIVED).  No further hypothesis is needed for C03.

## Proof

Common part (`Lemmas/RoundGreedy.lean`, `greedy_sw_core`): if the list `S` in which `relabel` processes the
raw steps is a legal replay in which every step is a global minimum of `R`-VALUES of the pairs then live
(`Rnn.GMinRun`: for every live pair `{x,y}` there EXISTS `v` with `R (tree x) (tree y) v` and
`¬ v < height`), then — `relabel`'s labels being the merge-order labels of `S` (`relabel_mergeorder`) and
the labels not yet consumed being exactly the labels of the live indices (`Rnn.label_of_unused`) — the
returned list has that property in terms of labels.  With `R = RAvg` ("finite and within
`4(|s|+|t|−2)` factors of the exact mean", `Lemmas/RoundTree.lean`):
`mean(A,B)·(1−u)^{k(A,B)} ≤ height ≤ v ≤ mean(X,Y)·(1−u)^{−k(X,Y)}` (`Round.Near.chain_le`).

* `primitive_with`, `generic_with`: the merged pair is a global minimum of the COMPUTED live entries
  (`argmin_min`; `generic_pop_min`; `MergeFacts.min`), each an `RAvg`-value of its two clusters
  (`RoundCore.table`), so the RAW steps are `GMinRun` (`greedyCore_step`); and the clamped average never
  falls below the smaller argument (`lwGeOn_average`, a theorem of `OrderLaws`), so the raw heights are
  already non-decreasing (`RoundCore.below`), the stable sort is the identity (`processed_of_pairwise`)
  and `S` is the raw list.
* `nnchain_with` / `linkage_with` (`Lemmas/RoundGreedyChain.lean`): the raw steps merge reciprocal nearest
  neighbours of the computed matrix (`ChainStepFacts.nn` ⇒ `Rnn.NnRun`); `S` is the insertion sort of the
  raw list (`Rnn.runFrom_isort`).  `Rnn.nnFrom_swap`: exchanging two adjacent steps `x, y` with
  `y.d < x.d` keeps "reciprocal nearest neighbours up to `R`" — for `x` against the cluster newly created
  by `y` the witness is the value the update formula WOULD compute from `x`'s two witnesses and `y.d`
  (`LWCompat.step`: an `RAvg`-value of the right trees, within the SAME `4(|s|+|t|−2)` factors; `LwGeOn`:
  not below `x.d`) — this is where the existential form of `GMinRun` is essential, the pair need never
  have been a matrix entry of the actual run.  `Rnn.gmin_of_sorted`: in a SORTED complete run of
  reciprocal nearest neighbours every step is a global minimum (a live pair untouched by the current step
  is still live, unchanged, at the next step, which is at least as high).

## What is NOT proved

* That IEEE-754 arithmetic satisfies `Round.Model` (textbook; hypothesis), `BeqLe`, `ChainGeOn ok
  .weighted` (monotone rounding; sampled) — as in the C02 rounding files.
* Ward / centroid / median (cancellation); single / complete need no rounding analysis (`Props/C03.lean`,
  `C03Generic.lean`).  `mst_with` accepts only single linkage.
* Which of several near-minimal pairs is merged, and that two entry points return the same clusters
  (under rounding they need not; neither is part of the property).
* The statement is about the exact criterion (`Crit.avg` / `Crit.wdist` of the input values), not about
  `Spec.GreedyValid` (which replays the COMPUTED Lance–Williams table of `Spec/Naive.lean`).
-/
import Kodama.Lemmas.RoundGreedyGeneric
import Kodama.Lemmas.RoundGreedyChain
import Kodama.Props.C02RoundingGeneric
set_option linter.unusedSectionVars false
namespace Kodama
open Spec Crit MTree Finset Round

variable {K : Type} [Field K] [LinearOrder K] [IsStrictOrderedRing K]
variable {α : Type} [Num α]

/-! ## The statement -/

/-- Label `l` names a cluster that is present after steps `0..i−1` of `steps`: an observation or a
cluster created by an earlier step (`l < n + i`) that no earlier step has consumed. -/
def PresentBefore (n : Nat) (steps : List (Step α)) (i l : Nat) : Prop :=
  l < n + i ∧ ¬ Spec.UsedBefore steps i l

/-- **Greedy up to rounding, average linkage** (see the file header): at every step the exact mean of
the merged pair is minimal among all pairs of distinct clusters then present, up to the factor
`(1−u)^(−K)`, `K = 4·(|A|+|B|−2) + 4·(|X|+|Y|−2)`. -/
def AvgGreedyUpTo (D : Nat → Nat → K) (u : K) (n : Nat) (steps : List (Step α)) : Prop :=
  ∀ (i : Nat) (s : Step α), steps[i]? = some s →
    ∀ p q : Nat, PresentBefore n steps i p → PresentBefore n steps i q → p ≠ q →
      let A := (Spec.leaves n steps steps.length s.c1).toFinset
      let B := (Spec.leaves n steps steps.length s.c2).toFinset
      let X := (Spec.leaves n steps steps.length p).toFinset
      let Y := (Spec.leaves n steps steps.length q).toFinset
      X.Nonempty ∧ Y.Nonempty ∧ Disjoint X Y ∧ A.card + B.card ≤ n ∧ X.card + Y.card ≤ n ∧
        0 ≤ avg D A B ∧
        avg D A B * (1 - u) ^ (4 * (A.card + B.card - 2) + 4 * (X.card + Y.card - 2)) ≤ avg D X Y

/-- **Greedy up to rounding, weighted linkage**: the same for the recursively halved mean `Crit.wdist`
over the merge trees of the labels, `K = 2·(|A|+|B|−2) + 2·(|X|+|Y|−2)`. -/
def WgtGreedyUpTo (D : Nat → Nat → K) (u : K) (n : Nat) (steps : List (Step α)) : Prop :=
  ∀ (i : Nat) (s : Step α), steps[i]? = some s →
    ∀ p q : Nat, PresentBefore n steps i p → PresentBefore n steps i q → p ≠ q →
      let TA := clusterTree n steps s.c1
      let TB := clusterTree n steps s.c2
      let TX := clusterTree n steps p
      let TY := clusterTree n steps q
      Disjoint TX.leaves TY.leaves ∧ TA.leaves.card + TB.leaves.card ≤ n ∧
        TX.leaves.card + TY.leaves.card ≤ n ∧ 0 ≤ wdist D TA TB ∧
        wdist D TA TB *
            (1 - u) ^ (2 * (TA.leaves.card + TB.leaves.card - 2)
              + 2 * (TX.leaves.card + TY.leaves.card - 2)) ≤ wdist D TX TY

omit [Num α] in
/-- The quantification over present pairs is not vacuous: in a well-formed dendrogram the two labels a
step merges are distinct and present when it happens. -/
theorem C03_rounded_merged_present {n : Nat} {steps : List (Step α)} (hwf : WellFormed n steps)
    (i : Nat) (s : Step α) (hi : steps[i]? = some s) :
    PresentBefore n steps i s.c1 ∧ PresentBefore n steps i s.c2 ∧ s.c1 ≠ s.c2 := by
  have ho := hwf.ordered i s hi
  have hf := hwf.fresh i s hi
  exact ⟨⟨by omega, hf.1⟩, ⟨by omega, hf.2⟩, by omega⟩

/-! ## From "computed minimum" to "exact minimum up to rounding" -/

/-- The chain of inequalities: `A ≈ h ≤ v ≈ X` gives `A·(1−u)^(k₁+k₂) ≤ X`. -/
theorem Round.Near.chain_le {u A X h v : K} {k₁ k₂ : Nat} (hu : u < 1) (h1 : Near u k₁ A h)
    (h2 : Near u k₂ X v) (hle : h ≤ v) : A * (1 - u) ^ (k₁ + k₂) ≤ X := by
  have hp := (pow_w_pos hu k₂).le
  calc A * (1 - u) ^ (k₁ + k₂) = A * (1 - u) ^ k₁ * (1 - u) ^ k₂ := by rw [pow_add]; ring
    _ ≤ h * (1 - u) ^ k₂ := mul_le_mul_of_nonneg_right h1.1 hp
    _ ≤ v * (1 - u) ^ k₂ := mul_le_mul_of_nonneg_right hle hp
    _ ≤ X := h2.2

omit [Num α] in
/-- The observation set of a label below `n + length` is the leaf set of its cluster tree. -/
theorem obs_eq_clusterTree_leaves {n : Nat} {steps : List (Step α)} (hwf : WellFormed n steps)
    (l : Nat) (hl : l < n + steps.length) :
    (Spec.leaves n steps steps.length l).toFinset = (clusterTree n steps l).leaves := by
  have hord : LabelsOrdered n steps := by
    intro i st hi
    have := hwf.ordered i st hi
    omega
  by_cases c : l < n
  · exact (clusterTree_leaves n steps hord steps.length l (Or.inl c)).symm
  · exact (clusterTree_leaves n steps hord steps.length l (Or.inr ⟨hl, by omega⟩)).symm

/-- The output of `relabel_greedy_sw` for the relation `RAvg` is `AvgGreedyUpTo`. -/
theorem avgGreedyUpTo_of_sw {val : α → K} {fin : α → Prop} {u lo hi dlo dhi : K} {N n : Nat}
    {D : Nat → Nat → K} (RM : Round.Model val fin u lo hi N) (B : BaseOk n D dlo dhi)
    {steps : List (Step α)} (hwf : WellFormed n steps)
    (hall : ∀ (i : Nat) (s' : Step α), steps[i]? = some s' →
      (∃ T₁ T₂ : MTree Nat, RAvg val fin u n D T₁ T₂ s'.d ∧ Disjoint T₁.leaves T₂.leaves ∧
        ((Rnn.Sw (clusterTree n steps s'.c1) T₁ ∧ Rnn.Sw (clusterTree n steps s'.c2) T₂) ∨
         (Rnn.Sw (clusterTree n steps s'.c1) T₂ ∧ Rnn.Sw (clusterTree n steps s'.c2) T₁)) ∧
        s'.size = T₁.leaves.card + T₂.leaves.card) ∧
      ∀ p q : Nat, p < n + i → q < n + i → p ≠ q →
        ¬ UsedBefore steps i p → ¬ UsedBefore steps i q →
        ∃ (U V : MTree Nat) (v : α), RAvg val fin u n D U V v ∧ Disjoint U.leaves V.leaves ∧
          Rnn.Sw (clusterTree n steps p) U ∧ Rnn.Sw (clusterTree n steps q) V ∧
          Num.lt v s'.d = false) :
    AvgGreedyUpTo D u n steps := by
  intro i s hi p q hp hq hpq
  have hiD : i < steps.length := (List.getElem?_eq_some_iff.mp hi).1
  have ho := hwf.ordered i s hi
  obtain ⟨⟨T₁, T₂, hR, hdisj, hsw, _⟩, hmin⟩ := hall i s hi
  obtain ⟨U, V, v, hUV, hdUV, swp, swq, hlt⟩ := hmin p q hp.1 hq.1 hpq hp.2 hq.2
  have eA := obs_eq_clusterTree_leaves hwf s.c1 (by omega)
  have eB := obs_eq_clusterTree_leaves hwf s.c2 (by omega)
  have eX := obs_eq_clusterTree_leaves hwf p (by have := hp.1; omega)
  have eY := obs_eq_clusterTree_leaves hwf q (by have := hq.1; omega)
  have hle : val s.d ≤ val v := (RM.lt_false hUV.fin hR.fin).mp hlt
  have hcard : ∀ {S T : MTree Nat} {w : α}, RAvg val fin u n D S T w →
      Disjoint S.leaves T.leaves → S.leaves.card + T.leaves.card ≤ n := by
    intro S T w h hd
    have : (S.leaves ∪ T.leaves).card ≤ n :=
      card_le_of_lt (fun x hx => by
        rcases mem_union.mp hx with h' | h'
        · exact h.ls x h'
        · exact h.lt x h')
    rwa [card_union_of_disjoint hd] at this
  have hnn := B.avg_nonneg hR.ls hR.lt hdisj T₁.leaves_nonempty T₂.leaves_nonempty
  have key := Round.Near.chain_le RM.u_lt_one hR.near hUV.near hle
  simp only [eA, eB, eX, eY, swp.leaves_eq, swq.leaves_eq]
  refine ⟨U.leaves_nonempty, V.leaves_nonempty, hdUV, ?_, hcard hUV hdUV, ?_, ?_⟩
  · rcases hsw with ⟨a, b⟩ | ⟨a, b⟩
    · rw [a.leaves_eq, b.leaves_eq]; exact hcard hR hdisj
    · rw [a.leaves_eq, b.leaves_eq, Nat.add_comm]; exact hcard hR hdisj
  · rcases hsw with ⟨a, b⟩ | ⟨a, b⟩
    · rw [a.leaves_eq, b.leaves_eq]; exact hnn
    · rw [a.leaves_eq, b.leaves_eq, avg_symm B.symm]; exact hnn
  · rcases hsw with ⟨a, b⟩ | ⟨a, b⟩
    · rw [a.leaves_eq, b.leaves_eq]; exact key
    · rw [a.leaves_eq, b.leaves_eq, avg_symm B.symm, Nat.add_comm T₂.leaves.card]; exact key

/-! ## The two entry points -/

/-- **C03 for average linkage through `primitive_with`, under the standard model of floating-point
arithmetic**: the call returns a well-formed dendrogram whose every step merges a pair that minimises
the EXACT mean over all pairs of clusters then present, up to the factor `(1−u)^(−K)`,
`K = 4·(|A|+|B|−2) + 4·(|X|+|Y|−2)`.  Hypotheses: those of `C02_primitive_average_rounded`. -/
theorem C03_primitive_average_rounded (L : OrderLaws α) {val : α → K} {fin : α → Prop}
    {u lo hi : K} {N : Nat} (RM : Round.Model val fin u lo hi N)
    (chk : Bool) (st : State α) (d : Dendrogram α) (data : Array α) (n : Nat)
    (h2 : 2 ≤ n) (hs : n < 2147483648) (hl : 2 * data.size = n * (n - 1))
    {dlo dhi : K} (hdlo : 0 < dlo) (hdle : dlo ≤ dhi)
    (hdata : ∀ (k : Nat) (h : k < data.size), fin data[k] ∧ In0 dlo dhi (val data[k]))
    (Rg : RangeOk u lo hi N n dlo dhi) :
    ∃ st' d' M', primitiveWith chk .average st d data n = .ok (st', d', M') ∧
      WellFormed n d'.steps.toList ∧ AvgGreedyUpTo (valD val n data) u n d'.steps.toList := by
  have B := baseOk_valD (val := val) (fin := fin) data n h2 hs hl hdlo hdle hdata
  have C : LWCompat Method.average (RAvg val fin u n (valD val n data)) := lwCompat_RAvg RM B Rg
  obtain ⟨st1, dend1, M1, uf, d', hres, hg, hr, hrun⟩ :=
    primitiveWith_greedy L chk .average (lwGeOn_average L (fun _ => True)) C
      (fun _ _ _ h => RM.notNaN _ h.fin) (fun _ _ _ _ => trivial) st d data n h2 hs hl
      (fun i j hi hj hij => by
        obtain ⟨k, hk, e⟩ := init_D_average_mem data n h2 hs hl i j hi hj hij
        refine RAvg.leaf hi hj ?_ rfl
        show fin ((Spec.init .average n data).D i j)
        rw [e]; exact (hdata k hk).1)
  obtain ⟨hwf, hall⟩ := relabel_greedy_sw .average st1.set uf dend1 d'
    n h2 hres.obs hres.raw hres.run hg hr
  have hsqrt : sqrtSteps Method.average d' = d' := by
    simp [sqrtSteps, Method.onSquares]
  exact ⟨{ st1 with set := uf }, d', M1, by rw [hrun, hsqrt], hwf,
    avgGreedyUpTo_of_sw RM B hwf hall⟩

/-- **C03 for average linkage through `generic_with`, under the standard model of floating-point
arithmetic**: as `C03_primitive_average_rounded`.  Hypotheses: those of `C02_generic_average_rounded`. -/
theorem C03_generic_average_rounded (L : OrderLaws α) (hbeq : BeqLe α) {val : α → K}
    {fin : α → Prop} {u lo hi : K} {N : Nat} (RM : Round.Model val fin u lo hi N)
    (hmax : Num.isNaN (Num.maxValue : α) = false) {G : α → Prop} (gs : GoodSet G)
    (chk : Bool) (st : State α) (d : Dendrogram α) (data : Array α) (n : Nat)
    (h2 : 2 ≤ n) (hs : n < 2147483648) (hl : 2 * data.size = n * (n - 1))
    {dlo dhi : K} (hdlo : 0 < dlo) (hdle : dlo ≤ dhi)
    (hdata : ∀ (k : Nat) (h : k < data.size), fin data[k] ∧ In0 dlo dhi (val data[k]))
    (Rg : RangeOk u lo hi N n dlo dhi)
    (hG : ∀ v, fin v → In0 (vlo u n dlo) (vhi u n dhi) (val v) → G v) :
    ∃ st' d' M', genericWith chk .average st d data n = .ok (st', d', M') ∧
      WellFormed n d'.steps.toList ∧ AvgGreedyUpTo (valD val n data) u n d'.steps.toList := by
  have B := baseOk_valD (val := val) (fin := fin) data n h2 hs hl hdlo hdle hdata
  have C : LWCompat Method.average (RAvg val fin u n (valD val n data)) := lwCompat_RAvg RM B Rg
  have hsq : squareData Method.average data = data := by simp [squareData, Method.onSquares]
  have hin : ∀ i (h : i < (squareData Method.average data).size),
      G (squareData Method.average data)[i] := by
    rw [hsq]
    intro i hi
    exact hG _ (hdata i hi).1
      (in0_base_run RM.u_nonneg RM.u_lt_one (by omega) hdlo hdle (hdata i hi).2)
  obtain ⟨st1, dend1, M1, uf, d', hres, hg, hr, hrun⟩ :=
    genericWith_greedy L hbeq gs chk .average (fun _ => lbClosed_average L gs) hmax
      (lwGeOn_average L (fun _ => True)) C
      (fun _ _ _ h => RM.notNaN _ h.fin) (fun _ _ _ _ => trivial)
      (fun _ _ v hd h => hG v h.fin (h.range RM.u_nonneg RM.u_lt_one B hd))
      st d data n h2 hs hl hin
      (fun i j hi hj hij => by
        obtain ⟨k, hk, e⟩ := init_D_average_mem data n h2 hs hl i j hi hj hij
        refine RAvg.leaf hi hj ?_ rfl
        show fin ((Spec.init .average n data).D i j)
        rw [e]; exact (hdata k hk).1)
  obtain ⟨hwf, hall⟩ := relabel_greedy_sw .average st1.set uf dend1 d'
    n h2 hres.obs hres.raw hres.run hg hr
  have hsqrt : sqrtSteps Method.average d' = d' := by
    simp [sqrtSteps, Method.onSquares]
  exact ⟨{ st1 with set := uf }, d', M1, by rw [hrun, hsqrt], hwf,
    avgGreedyUpTo_of_sw RM B hwf hall⟩

/-! ## Uniform exponent and numeric corollaries (entry-point independent) -/

omit [Num α] in
/-- `AvgGreedyUpTo` with the uniform exponent `K = 8n`. -/
theorem C03_average_rounded_uniform {D : Nat → Nat → K} {u : K} {n : Nat} {steps : List (Step α)}
    (h0 : 0 ≤ u) (hu : u < 1) (h : AvgGreedyUpTo D u n steps)
    (i : Nat) (s : Step α) (hi : steps[i]? = some s) (p q : Nat)
    (hp : PresentBefore n steps i p) (hq : PresentBefore n steps i q) (hpq : p ≠ q) :
    avg D (Spec.leaves n steps steps.length s.c1).toFinset
        (Spec.leaves n steps steps.length s.c2).toFinset * (1 - u) ^ (8 * n)
      ≤ avg D (Spec.leaves n steps steps.length p).toFinset
          (Spec.leaves n steps steps.length q).toFinset := by
  obtain ⟨_, _, _, hAB, hXY, hnn, hle⟩ := h i s hi p q hp hq hpq
  refine le_trans (mul_le_mul_of_nonneg_left (pow_w_anti h0 hu ?_) hnn) hle
  omega

omit [Num α] in
/-- **Relative form**: if `8·n·u ≤ c` and `1 ≤ (1+γ)(1−c)` then the exact mean of the merged pair is at
most `(1+γ)` times the exact mean of every pair of clusters then present. -/
theorem C03_average_rounded_gamma {D : Nat → Nat → K} {u : K} {n : Nat} {steps : List (Step α)}
    (h0 : 0 ≤ u) (hu : u < 1) (h : AvgGreedyUpTo D u n steps)
    {c γ : K} (hc : 8 * (n : K) * u ≤ c) (hγ0 : 0 ≤ γ) (hγ : 1 ≤ (1 + γ) * (1 - c))
    (i : Nat) (s : Step α) (hi : steps[i]? = some s) (p q : Nat)
    (hp : PresentBefore n steps i p) (hq : PresentBefore n steps i q) (hpq : p ≠ q) :
    avg D (Spec.leaves n steps steps.length s.c1).toFinset
        (Spec.leaves n steps steps.length s.c2).toFinset
      ≤ (1 + γ) * avg D (Spec.leaves n steps steps.length p).toFinset
          (Spec.leaves n steps steps.length q).toFinset := by
  have hle := C03_average_rounded_uniform h0 hu h i s hi p q hp hq hpq
  obtain ⟨_, _, _, _, _, hnn, _⟩ := h i s hi p q hp hq hpq
  generalize avg D (Spec.leaves n steps steps.length s.c1).toFinset
    (Spec.leaves n steps steps.length s.c2).toFinset = mAB at hle hnn ⊢
  generalize avg D (Spec.leaves n steps steps.length p).toFinset
    (Spec.leaves n steps steps.length q).toFinset = mXY at hle ⊢
  have h1 := one_sub_mul_le_pow_w hu (8 * n)
  have hk : ((8 * n : Nat) : K) * u = 8 * (n : K) * u := by push_cast; ring
  rw [hk] at h1
  have hw : 1 ≤ (1 + γ) * (1 - u) ^ (8 * n) :=
    calc (1 : K) ≤ (1 + γ) * (1 - c) := hγ
      _ ≤ (1 + γ) * (1 - 8 * (n : K) * u) := mul_le_mul_of_nonneg_left (by linarith) (by linarith)
      _ ≤ (1 + γ) * (1 - u) ^ (8 * n) := mul_le_mul_of_nonneg_left h1 (by linarith)
  calc mAB = mAB * 1 := (mul_one _).symm
    _ ≤ mAB * ((1 + γ) * (1 - u) ^ (8 * n)) := mul_le_mul_of_nonneg_left hw hnn
    _ = (1 + γ) * (mAB * (1 - u) ^ (8 * n)) := by ring
    _ ≤ (1 + γ) * mXY := mul_le_mul_of_nonneg_left hle (by linarith)

omit [Num α] in
/-- **The tolerance of the property for `f64`**: `u ≤ 2⁻⁵³`, `n ≤ 10⁶` ⇒ the exact mean of the merged
pair is at most `(1 + 10⁻⁹)` times the exact mean of every pair of clusters then present. -/
theorem C03_average_rounded_1e9 {D : Nat → Nat → K} {u : K} {n : Nat} {steps : List (Step α)}
    (h0 : 0 ≤ u) (hu : u ≤ 1 / 2 ^ 53) (hn : n ≤ 1000000) (h : AvgGreedyUpTo D u n steps)
    (i : Nat) (s : Step α) (hi : steps[i]? = some s) (p q : Nat)
    (hp : PresentBefore n steps i p) (hq : PresentBefore n steps i q) (hpq : p ≠ q) :
    avg D (Spec.leaves n steps steps.length s.c1).toFinset
        (Spec.leaves n steps steps.length s.c2).toFinset
      ≤ (1 + 1 / 1000000000) * avg D (Spec.leaves n steps steps.length p).toFinset
          (Spec.leaves n steps steps.length q).toFinset := by
  have hnK : (n : K) ≤ 1000000 := by exact_mod_cast hn
  have hn0 : (0 : K) ≤ (n : K) := Nat.cast_nonneg n
  have hu1 : u < 1 := lt_of_le_of_lt hu (by norm_num)
  refine C03_average_rounded_gamma h0 hu1 h (c := 8 * 1000000 * (1 / 2 ^ 53)) ?_ (by norm_num)
    (by norm_num) i s hi p q hp hq hpq
  have h1 : 8 * (n : K) * u ≤ 8 * (n : K) * (1 / 2 ^ 53) :=
    mul_le_mul_of_nonneg_left hu (by linarith)
  have h2' : 8 * (n : K) * (1 / 2 ^ 53) ≤ 8 * 1000000 * (1 / 2 ^ 53) :=
    mul_le_mul_of_nonneg_right (by linarith) (by norm_num)
  linarith

omit [Num α] in
/-- **The tolerance of the property for `f32`**: `u ≤ 2⁻²⁴`, `n ≤ 2000` ⇒ factor `(1 + 10⁻³)`. -/
theorem C03_average_rounded_1e3 {D : Nat → Nat → K} {u : K} {n : Nat} {steps : List (Step α)}
    (h0 : 0 ≤ u) (hu : u ≤ 1 / 2 ^ 24) (hn : n ≤ 2000) (h : AvgGreedyUpTo D u n steps)
    (i : Nat) (s : Step α) (hi : steps[i]? = some s) (p q : Nat)
    (hp : PresentBefore n steps i p) (hq : PresentBefore n steps i q) (hpq : p ≠ q) :
    avg D (Spec.leaves n steps steps.length s.c1).toFinset
        (Spec.leaves n steps steps.length s.c2).toFinset
      ≤ (1 + 1 / 1000) * avg D (Spec.leaves n steps steps.length p).toFinset
          (Spec.leaves n steps steps.length q).toFinset := by
  have hnK : (n : K) ≤ 2000 := by exact_mod_cast hn
  have hn0 : (0 : K) ≤ (n : K) := Nat.cast_nonneg n
  have hu1 : u < 1 := lt_of_le_of_lt hu (by norm_num)
  refine C03_average_rounded_gamma h0 hu1 h (c := 8 * 2000 * (1 / 2 ^ 24)) ?_ (by norm_num)
    (by norm_num) i s hi p q hp hq hpq
  have h1 : 8 * (n : K) * u ≤ 8 * (n : K) * (1 / 2 ^ 24) :=
    mul_le_mul_of_nonneg_left hu (by linarith)
  have h2' : 8 * (n : K) * (1 / 2 ^ 24) ≤ 8 * 2000 * (1 / 2 ^ 24) :=
    mul_le_mul_of_nonneg_right (by linarith) (by norm_num)
  linarith

/-- **C03 for `f64` average linkage through `primitive_with`, tolerance `10⁻⁹`**: `u ≤ 2⁻⁵³`, `n ≤ 10⁶`
⇒ the call returns, and at every returned step the exact mean of the merged pair is at most
`(1 + 10⁻⁹)` times the exact mean of every pair of distinct clusters then present. -/
theorem C03_primitive_average_rounded_1e9 (L : OrderLaws α) {val : α → K} {fin : α → Prop}
    {u lo hi : K} {N : Nat} (RM : Round.Model val fin u lo hi N)
    (chk : Bool) (st : State α) (d : Dendrogram α) (data : Array α) (n : Nat)
    (h2 : 2 ≤ n) (hs : n < 2147483648) (hl : 2 * data.size = n * (n - 1))
    {dlo dhi : K} (hdlo : 0 < dlo) (hdle : dlo ≤ dhi)
    (hdata : ∀ (k : Nat) (h : k < data.size), fin data[k] ∧ In0 dlo dhi (val data[k]))
    (Rg : RangeOk u lo hi N n dlo dhi) (hu : u ≤ 1 / 2 ^ 53) (hn : n ≤ 1000000) :
    ∃ st' d' M', primitiveWith chk .average st d data n = .ok (st', d', M') ∧
      ∀ (i : Nat) (s : Step α), d'.steps.toList[i]? = some s →
        ∀ p q : Nat, PresentBefore n d'.steps.toList i p → PresentBefore n d'.steps.toList i q →
          p ≠ q →
          let steps := d'.steps.toList
          avg (valD val n data) (Spec.leaves n steps steps.length s.c1).toFinset
              (Spec.leaves n steps steps.length s.c2).toFinset
            ≤ (1 + 1 / 1000000000) *
              avg (valD val n data) (Spec.leaves n steps steps.length p).toFinset
                (Spec.leaves n steps steps.length q).toFinset := by
  obtain ⟨st', d', M', hrun, _, h⟩ :=
    C03_primitive_average_rounded L RM chk st d data n h2 hs hl hdlo hdle hdata Rg
  exact ⟨st', d', M', hrun, fun i s hi p q hp hq hpq =>
    C03_average_rounded_1e9 RM.u_nonneg hu hn h i s hi p q hp hq hpq⟩

/-- **C03 for `f64` average linkage through `generic_with`, tolerance `10⁻⁹`.** -/
theorem C03_generic_average_rounded_1e9 (L : OrderLaws α) (hbeq : BeqLe α) {val : α → K}
    {fin : α → Prop} {u lo hi : K} {N : Nat} (RM : Round.Model val fin u lo hi N)
    (hmax : Num.isNaN (Num.maxValue : α) = false) {G : α → Prop} (gs : GoodSet G)
    (chk : Bool) (st : State α) (d : Dendrogram α) (data : Array α) (n : Nat)
    (h2 : 2 ≤ n) (hs : n < 2147483648) (hl : 2 * data.size = n * (n - 1))
    {dlo dhi : K} (hdlo : 0 < dlo) (hdle : dlo ≤ dhi)
    (hdata : ∀ (k : Nat) (h : k < data.size), fin data[k] ∧ In0 dlo dhi (val data[k]))
    (Rg : RangeOk u lo hi N n dlo dhi)
    (hG : ∀ v, fin v → In0 (vlo u n dlo) (vhi u n dhi) (val v) → G v)
    (hu : u ≤ 1 / 2 ^ 53) (hn : n ≤ 1000000) :
    ∃ st' d' M', genericWith chk .average st d data n = .ok (st', d', M') ∧
      ∀ (i : Nat) (s : Step α), d'.steps.toList[i]? = some s →
        ∀ p q : Nat, PresentBefore n d'.steps.toList i p → PresentBefore n d'.steps.toList i q →
          p ≠ q →
          let steps := d'.steps.toList
          avg (valD val n data) (Spec.leaves n steps steps.length s.c1).toFinset
              (Spec.leaves n steps steps.length s.c2).toFinset
            ≤ (1 + 1 / 1000000000) *
              avg (valD val n data) (Spec.leaves n steps steps.length p).toFinset
                (Spec.leaves n steps steps.length q).toFinset := by
  obtain ⟨st', d', M', hrun, _, h⟩ :=
    C03_generic_average_rounded L hbeq RM hmax gs chk st d data n h2 hs hl hdlo hdle hdata Rg hG
  exact ⟨st', d', M', hrun, fun i s hi p q hp hq hpq =>
    C03_average_rounded_1e9 RM.u_nonneg hu hn h i s hi p q hp hq hpq⟩

/-! ## Weighted linkage -/

/-- The output of `relabel_greedy_sw` for the relation `RWgt` is `WgtGreedyUpTo`. -/
theorem wgtGreedyUpTo_of_sw {val : α → K} {fin : α → Prop} {u lo hi dlo dhi : K} {N n : Nat}
    {D : Nat → Nat → K} (RM : Round.Model val fin u lo hi N) (B : BaseOkW n D dlo dhi)
    {steps : List (Step α)}
    (hall : ∀ (i : Nat) (s' : Step α), steps[i]? = some s' →
      (∃ T₁ T₂ : MTree Nat, RWgt val fin u n D T₁ T₂ s'.d ∧ Disjoint T₁.leaves T₂.leaves ∧
        ((Rnn.Sw (clusterTree n steps s'.c1) T₁ ∧ Rnn.Sw (clusterTree n steps s'.c2) T₂) ∨
         (Rnn.Sw (clusterTree n steps s'.c1) T₂ ∧ Rnn.Sw (clusterTree n steps s'.c2) T₁)) ∧
        s'.size = T₁.leaves.card + T₂.leaves.card) ∧
      ∀ p q : Nat, p < n + i → q < n + i → p ≠ q →
        ¬ UsedBefore steps i p → ¬ UsedBefore steps i q →
        ∃ (U V : MTree Nat) (v : α), RWgt val fin u n D U V v ∧ Disjoint U.leaves V.leaves ∧
          Rnn.Sw (clusterTree n steps p) U ∧ Rnn.Sw (clusterTree n steps q) V ∧
          Num.lt v s'.d = false) :
    WgtGreedyUpTo D u n steps := by
  intro i s hi p q hp hq hpq
  obtain ⟨⟨T₁, T₂, hR, hdisj, hsw, _⟩, hmin⟩ := hall i s hi
  obtain ⟨U, V, v, hUV, hdUV, swp, swq, hlt⟩ := hmin p q hp.1 hq.1 hpq hp.2 hq.2
  have hle : val s.d ≤ val v := (RM.lt_false hUV.fin hR.fin).mp hlt
  have hcard : ∀ {S T : MTree Nat} {w : α}, RWgt val fin u n D S T w →
      S.leaves.card + T.leaves.card ≤ n := by
    intro S T w h
    have : (S.leaves ∪ T.leaves).card ≤ n :=
      card_le_of_lt (fun x hx => by
        rcases mem_union.mp hx with h' | h'
        · exact h.ls x h'
        · exact h.lt x h')
    rwa [card_union_of_disjoint h.disj] at this
  have hnn : 0 ≤ wdist D T₁ T₂ := le_trans B.dlo_pos.le (B.wdist_mem T₁ T₂ hR.ls hR.lt hdisj).1
  have key := Round.Near.chain_le RM.u_lt_one hR.near hUV.near hle
  have hXY : wdist D (clusterTree n steps p) (clusterTree n steps q) = wdist D U V := by
    rw [swp.wdist_left, swq.wdist_right]
  simp only [hXY, swp.leaves_eq, swq.leaves_eq]
  rcases hsw with ⟨a, b⟩ | ⟨a, b⟩
  · have hAB : wdist D (clusterTree n steps s.c1) (clusterTree n steps s.c2) = wdist D T₁ T₂ := by
      rw [a.wdist_left, b.wdist_right]
    rw [hAB, a.leaves_eq, b.leaves_eq]
    exact ⟨hdUV, hcard hR, hcard hUV, hnn, key⟩
  · have hAB : wdist D (clusterTree n steps s.c1) (clusterTree n steps s.c2) = wdist D T₁ T₂ := by
      rw [a.wdist_left, b.wdist_right, wdist_symm B.symm]
    rw [hAB, a.leaves_eq, b.leaves_eq, Nat.add_comm T₂.leaves.card]
    exact ⟨hdUV, hcard hR, hcard hUV, hnn, key⟩

/-- **C03 for weighted linkage through `primitive_with`, under the standard model and reducibility of
the midpoint on a domain**: the call returns a well-formed dendrogram whose every step merges a pair
that minimises the recursively halved mean `Crit.wdist` of the original entries over all pairs of
clusters then present, up to `(1−u)^(−K)`, `K = 2·(|A|+|B|−2) + 2·(|X|+|Y|−2)`.  Hypotheses: those of
`C02_primitive_weighted_rounded`. -/
theorem C03_primitive_weighted_rounded (L : OrderLaws α) {val : α → K} {fin : α → Prop}
    {u lo hi : K} {N : Nat} (RM : Round.Model val fin u lo hi N)
    {ok : α → Prop} (hge : ChainGeOn ok .weighted)
    (chk : Bool) (st : State α) (d : Dendrogram α) (data : Array α) (n : Nat)
    (h2 : 2 ≤ n) (hs : n < 2147483648) (hl : 2 * data.size = n * (n - 1))
    {dlo dhi : K} (hdlo : 0 < dlo)
    (hdata : ∀ (k : Nat) (h : k < data.size),
      fin data[k] ∧ dlo ≤ val data[k] ∧ val data[k] ≤ dhi)
    (Rg : RangeOkW u lo hi n dlo dhi)
    (hok : ∀ v, fin v → dlo * (1 - u) ^ (2 * n) ≤ val v → val v ≤ dhi / (1 - u) ^ (2 * n) → ok v) :
    ∃ st' d' M', primitiveWith chk .weighted st d data n = .ok (st', d', M') ∧
      WellFormed n d'.steps.toList ∧ WgtGreedyUpTo (valD val n data) u n d'.steps.toList := by
  have B : BaseOkW n (valD val n data) dlo dhi :=
    { symm := fun i j => by unfold valD; rw [init_D_symm]
      dlo_pos := hdlo
      entry := fun i j hi hj hij => by
        obtain ⟨k, hk, e⟩ := init_D_average_mem data n h2 hs hl i j hi hj hij
        unfold valD; rw [e]; exact (hdata k hk).2 }
  have C : LWCompat Method.weighted (RWgt val fin u n (valD val n data)) := lwCompat_RWgt RM B Rg
  obtain ⟨st1, dend1, M1, uf, d', hres, hg, hr, hrun⟩ :=
    primitiveWith_greedy L chk .weighted hge.lw C
      (fun _ _ _ h => RM.notNaN _ h.fin)
      (fun _ _ v h => hok v h.fin (h.range RM.u_nonneg RM.u_lt_one B).1
        (h.range RM.u_nonneg RM.u_lt_one B).2) st d data n h2 hs hl
      (fun i j hi hj hij => by
        obtain ⟨k, hk, e⟩ := init_D_average_mem data n h2 hs hl i j hi hj hij
        refine RWgt.leaf hi hj hij ?_ rfl
        show fin ((Spec.init .average n data).D i j)
        rw [e]; exact (hdata k hk).1)
  obtain ⟨hwf, hall⟩ := relabel_greedy_sw .weighted st1.set uf dend1 d'
    n h2 hres.obs hres.raw hres.run hg hr
  have hsqrt : sqrtSteps Method.weighted d' = d' := by
    simp [sqrtSteps, Method.onSquares]
  exact ⟨{ st1 with set := uf }, d', M1, by rw [hrun, hsqrt], hwf, wgtGreedyUpTo_of_sw RM B hall⟩

/-- **C03 for weighted linkage through `generic_with`**: as `C03_primitive_weighted_rounded`.
Hypotheses: those of `C02_generic_weighted_rounded`. -/
theorem C03_generic_weighted_rounded (L : OrderLaws α) (hbeq : BeqLe α) {val : α → K}
    {fin : α → Prop} {u lo hi : K} {N : Nat} (RM : Round.Model val fin u lo hi N)
    (hmax : Num.isNaN (Num.maxValue : α) = false) {G : α → Prop} (gs : GoodSet G)
    (hge : ChainGeOn G .weighted)
    (chk : Bool) (st : State α) (d : Dendrogram α) (data : Array α) (n : Nat)
    (h2 : 2 ≤ n) (hs : n < 2147483648) (hl : 2 * data.size = n * (n - 1))
    {dlo dhi : K} (hdlo : 0 < dlo)
    (hdata : ∀ (k : Nat) (h : k < data.size),
      fin data[k] ∧ dlo ≤ val data[k] ∧ val data[k] ≤ dhi)
    (Rg : RangeOkW u lo hi n dlo dhi)
    (hG : ∀ v, fin v → dlo * (1 - u) ^ (2 * n) ≤ val v → val v ≤ dhi / (1 - u) ^ (2 * n) → G v) :
    ∃ st' d' M', genericWith chk .weighted st d data n = .ok (st', d', M') ∧
      WellFormed n d'.steps.toList ∧ WgtGreedyUpTo (valD val n data) u n d'.steps.toList := by
  have B : BaseOkW n (valD val n data) dlo dhi :=
    { symm := fun i j => by unfold valD; rw [init_D_symm]
      dlo_pos := hdlo
      entry := fun i j hi hj hij => by
        obtain ⟨k, hk, e⟩ := init_D_average_mem data n h2 hs hl i j hi hj hij
        unfold valD; rw [e]; exact (hdata k hk).2 }
  have C : LWCompat Method.weighted (RWgt val fin u n (valD val n data)) := lwCompat_RWgt RM B Rg
  have hge' : LwGeOn G Method.weighted := hge.lw
  have hRG : ∀ s t v, RWgt val fin u n (valD val n data) s t v → G v := fun _ _ v h =>
    hG v h.fin (h.range RM.u_nonneg RM.u_lt_one B).1 (h.range RM.u_nonneg RM.u_lt_one B).2
  have hsq : squareData Method.weighted data = data := by simp [squareData, Method.onSquares]
  have hw := pow_w_pos RM.u_lt_one (2 * n)
  have hw1 := pow_w_le_one RM.u_nonneg RM.u_lt_one (2 * n)
  have hin : ∀ i (h : i < (squareData Method.weighted data).size),
      G (squareData Method.weighted data)[i] := by
    rw [hsq]
    intro i hi
    obtain ⟨f, l1, l2⟩ := hdata i hi
    refine hG _ f ?_ ?_
    · calc dlo * (1 - u) ^ (2 * n) ≤ dlo * 1 := mul_le_mul_of_nonneg_left hw1 hdlo.le
        _ = dlo := mul_one _
        _ ≤ _ := l1
    · rw [le_div_iff₀ hw]
      have hv0 : 0 ≤ val data[i] := le_trans hdlo.le l1
      calc val data[i] * (1 - u) ^ (2 * n) ≤ val data[i] * 1 :=
            mul_le_mul_of_nonneg_left hw1 hv0
        _ = val data[i] := mul_one _
        _ ≤ dhi := l2
  obtain ⟨st1, dend1, M1, uf, d', hres, hg, hr, hrun⟩ :=
    genericWith_greedy L hbeq gs chk .weighted
      (fun _ => lbClosed_weighted_of_chainGeOn L gs hge) hmax hge' C
      (fun _ _ _ h => RM.notNaN _ h.fin) hRG (fun s t v _ h => hRG s t v h)
      st d data n h2 hs hl hin
      (fun i j hi hj hij => by
        obtain ⟨k, hk, e⟩ := init_D_average_mem data n h2 hs hl i j hi hj hij
        refine RWgt.leaf hi hj hij ?_ rfl
        show fin ((Spec.init .average n data).D i j)
        rw [e]; exact (hdata k hk).1)
  obtain ⟨hwf, hall⟩ := relabel_greedy_sw .weighted st1.set uf dend1 d'
    n h2 hres.obs hres.raw hres.run hg hr
  have hsqrt : sqrtSteps Method.weighted d' = d' := by
    simp [sqrtSteps, Method.onSquares]
  exact ⟨{ st1 with set := uf }, d', M1, by rw [hrun, hsqrt], hwf, wgtGreedyUpTo_of_sw RM B hall⟩

omit [Num α] in
/-- `WgtGreedyUpTo` with the uniform exponent `K = 4n`. -/
theorem C03_weighted_rounded_uniform {D : Nat → Nat → K} {u : K} {n : Nat} {steps : List (Step α)}
    (h0 : 0 ≤ u) (hu : u < 1) (h : WgtGreedyUpTo D u n steps)
    (i : Nat) (s : Step α) (hi : steps[i]? = some s) (p q : Nat)
    (hp : PresentBefore n steps i p) (hq : PresentBefore n steps i q) (hpq : p ≠ q) :
    wdist D (clusterTree n steps s.c1) (clusterTree n steps s.c2) * (1 - u) ^ (4 * n)
      ≤ wdist D (clusterTree n steps p) (clusterTree n steps q) := by
  obtain ⟨_, hAB, hXY, hnn, hle⟩ := h i s hi p q hp hq hpq
  refine le_trans (mul_le_mul_of_nonneg_left (pow_w_anti h0 hu ?_) hnn) hle
  omega

/-! ## The nearest-neighbour chain: `nnchain_with`, `linkage_with` -/

/-- **C03 for average linkage through `nnchain_with`, under the standard model of floating-point
arithmetic**: the call returns a well-formed dendrogram whose every step — in the RETURNED, stably sorted
order — merges a pair that minimises the EXACT mean over all pairs of clusters then present, up to the
factor `(1−u)^(−K)`, `K = 4·(|A|+|B|−2) + 4·(|X|+|Y|−2)`.  Hypotheses: those of
`C02_nnchain_average_rounded`. -/
theorem C03_nnchain_average_rounded (L : OrderLaws α) {val : α → K} {fin : α → Prop}
    {u lo hi : K} {N : Nat} (RM : Round.Model val fin u lo hi N)
    (chk : Bool) (st : State α) (d : Dendrogram α) (data : Array α) (n : Nat)
    (h2 : 2 ≤ n) (hs : n < 2147483648) (hl : 2 * data.size = n * (n - 1))
    {dlo dhi : K} (hdlo : 0 < dlo) (hdle : dlo ≤ dhi)
    (hdata : ∀ (k : Nat) (h : k < data.size), fin data[k] ∧ In0 dlo dhi (val data[k]))
    (Rg : RangeOk u lo hi N n dlo dhi) :
    ∃ st' d' M', nnchainWith chk .average st d data n = .ok (st', d', M') ∧
      WellFormed n d'.steps.toList ∧ AvgGreedyUpTo (valD val n data) u n d'.steps.toList := by
  have B := baseOk_valD (val := val) (fin := fin) data n h2 hs hl hdlo hdle hdata
  have C : LWCompat (MethodChain.intoMethod .average) (RAvg val fin u n (valD val n data)) :=
    lwCompat_RAvg RM B Rg
  have hsq : squareData (MethodChain.intoMethod .average) data = data := by
    simp [squareData, MethodChain.intoMethod, Method.onSquares]
  have hnan : NoNaNData (squareData (MethodChain.intoMethod .average) data) := by
    rw [hsq]; exact fun k hk => RM.notNaN _ (hdata k hk).1
  have hl' : 2 * (squareData (MethodChain.intoMethod .average) data).size = n * (n - 1) := by
    rw [squareData_size]; exact hl
  have hRnan : ∀ s t v, RAvg val fin u n (valD val n data) s t v → Num.isNaN v = false :=
    fun _ _ _ h => RM.notNaN _ h.fin
  obtain ⟨s1, hloop, hres, hnn⟩ := roundLoop_nn L chk .average
    ((chainGe_average L).on (fun _ => True)) C hRnan (fun _ _ _ _ => trivial) data n h2 hs hl hnan
    (fun i j hi hj hij => by
      obtain ⟨k, hk, e⟩ := init_D_average_mem data n h2 hs hl i j hi hj hij
      refine RAvg.leaf hi hj ?_ rfl
      show fin ((Spec.init .average n data).D i j)
      rw [e]; exact (hdata k hk).1)
  have heq : nnchainWith chk .average st d data n =
      (relabel (MethodChain.intoMethod .average) s1.st.set s1.dend >>= fun r =>
        pure ({ s1.st with set := r.1 }, sqrtSteps (MethodChain.intoMethod .average) r.2, s1.M)) := by
    unfold nnchainWith
    simp only []
    rw [Mat.new_ok chk (squareData (MethodChain.intoMethod .average) data) n h2 hs hl']
    have hn0 : ¬ n = 0 := by omega
    simp only [bind, Except.bind, hn0, if_false, State.reset_eq_fresh, dendrogramReset_eq, hloop]
  obtain ⟨⟨uf, d'⟩, hr⟩ := relabel_total (MethodChain.intoMethod .average) s1.st.set s1.dend n h2
    hres.res.obs hres.res.raw (Or.inr (Or.inr hres.res.heights))
  obtain ⟨hwf, hall⟩ := relabel_greedy_chain_sw L (MethodChain.intoMethod .average) rfl
    (lwGeOn_average L (fun _ => True)) C hRnan (fun _ _ _ _ => trivial) s1.st.set uf s1.dend d'
    n h2 hres.res.obs hres.res.raw hres.res.heights hres.run hnn hr
  have hsqrt : sqrtSteps (MethodChain.intoMethod .average) d' = d' := by
    simp [sqrtSteps, MethodChain.intoMethod, Method.onSquares]
  refine ⟨{ s1.st with set := uf }, d', s1.M, ?_, hwf, avgGreedyUpTo_of_sw RM B hwf hall⟩
  rw [heq, hr]; simp only [bind, Except.bind, pure, Except.pure, hsqrt]

/-- The same through `linkage_with(Method::Average)` (which dispatches to `nnchain_with`). -/
theorem C03_linkage_average_rounded (L : OrderLaws α) {val : α → K} {fin : α → Prop}
    {u lo hi : K} {N : Nat} (RM : Round.Model val fin u lo hi N)
    (chk : Bool) (st : State α) (d : Dendrogram α) (data : Array α) (n : Nat)
    (h2 : 2 ≤ n) (hs : n < 2147483648) (hl : 2 * data.size = n * (n - 1))
    {dlo dhi : K} (hdlo : 0 < dlo) (hdle : dlo ≤ dhi)
    (hdata : ∀ (k : Nat) (h : k < data.size), fin data[k] ∧ In0 dlo dhi (val data[k]))
    (Rg : RangeOk u lo hi N n dlo dhi) :
    ∃ st' d' M', linkageWith chk .average st d data n = .ok (st', d', M') ∧
      WellFormed n d'.steps.toList ∧ AvgGreedyUpTo (valD val n data) u n d'.steps.toList := by
  have e := linkageWith_eq_nnchainWith chk .average (by decide) st d data n
  rw [show MethodChain.intoMethod .average = Method.average from rfl] at e
  rw [e]
  exact C03_nnchain_average_rounded L RM chk st d data n h2 hs hl hdlo hdle hdata Rg

/-- **C03 for `f64` average linkage through `linkage_with`, tolerance `10⁻⁹`**: `u ≤ 2⁻⁵³`, `n ≤ 10⁶` ⇒
the call returns, and at every returned step the exact mean of the merged pair is at most `(1 + 10⁻⁹)`
times the exact mean of every pair of distinct clusters then present. -/
theorem C03_linkage_average_rounded_1e9 (L : OrderLaws α) {val : α → K} {fin : α → Prop}
    {u lo hi : K} {N : Nat} (RM : Round.Model val fin u lo hi N)
    (chk : Bool) (st : State α) (d : Dendrogram α) (data : Array α) (n : Nat)
    (h2 : 2 ≤ n) (hs : n < 2147483648) (hl : 2 * data.size = n * (n - 1))
    {dlo dhi : K} (hdlo : 0 < dlo) (hdle : dlo ≤ dhi)
    (hdata : ∀ (k : Nat) (h : k < data.size), fin data[k] ∧ In0 dlo dhi (val data[k]))
    (Rg : RangeOk u lo hi N n dlo dhi) (hu : u ≤ 1 / 2 ^ 53) (hn : n ≤ 1000000) :
    ∃ st' d' M', linkageWith chk .average st d data n = .ok (st', d', M') ∧
      ∀ (i : Nat) (s : Step α), d'.steps.toList[i]? = some s →
        ∀ p q : Nat, PresentBefore n d'.steps.toList i p → PresentBefore n d'.steps.toList i q →
          p ≠ q →
          let steps := d'.steps.toList
          avg (valD val n data) (Spec.leaves n steps steps.length s.c1).toFinset
              (Spec.leaves n steps steps.length s.c2).toFinset
            ≤ (1 + 1 / 1000000000) *
              avg (valD val n data) (Spec.leaves n steps steps.length p).toFinset
                (Spec.leaves n steps steps.length q).toFinset := by
  obtain ⟨st', d', M', hrun, _, h⟩ :=
    C03_linkage_average_rounded L RM chk st d data n h2 hs hl hdlo hdle hdata Rg
  exact ⟨st', d', M', hrun, fun i s hi p q hp hq hpq =>
    C03_average_rounded_1e9 RM.u_nonneg hu hn h i s hi p q hp hq hpq⟩

/-- **C03 for weighted linkage through `nnchain_with`**, under the hypotheses of
`C02_nnchain_weighted_rounded`: as `C03_primitive_weighted_rounded`. -/
theorem C03_nnchain_weighted_rounded (L : OrderLaws α) {val : α → K} {fin : α → Prop}
    {u lo hi : K} {N : Nat} (RM : Round.Model val fin u lo hi N)
    {ok : α → Prop} (hge : ChainGeOn ok .weighted)
    (chk : Bool) (st : State α) (d : Dendrogram α) (data : Array α) (n : Nat)
    (h2 : 2 ≤ n) (hs : n < 2147483648) (hl : 2 * data.size = n * (n - 1))
    {dlo dhi : K} (hdlo : 0 < dlo)
    (hdata : ∀ (k : Nat) (h : k < data.size),
      fin data[k] ∧ dlo ≤ val data[k] ∧ val data[k] ≤ dhi)
    (Rg : RangeOkW u lo hi n dlo dhi)
    (hok : ∀ v, fin v → dlo * (1 - u) ^ (2 * n) ≤ val v → val v ≤ dhi / (1 - u) ^ (2 * n) → ok v) :
    ∃ st' d' M', nnchainWith chk .weighted st d data n = .ok (st', d', M') ∧
      WellFormed n d'.steps.toList ∧ WgtGreedyUpTo (valD val n data) u n d'.steps.toList := by
  have B : BaseOkW n (valD val n data) dlo dhi :=
    { symm := fun i j => by unfold valD; rw [init_D_symm]
      dlo_pos := hdlo
      entry := fun i j hi hj hij => by
        obtain ⟨k, hk, e⟩ := init_D_average_mem data n h2 hs hl i j hi hj hij
        unfold valD; rw [e]; exact (hdata k hk).2 }
  have C : LWCompat (MethodChain.intoMethod .weighted) (RWgt val fin u n (valD val n data)) :=
    lwCompat_RWgt RM B Rg
  have hsq : squareData (MethodChain.intoMethod .weighted) data = data := by
    simp [squareData, MethodChain.intoMethod, Method.onSquares]
  have hnan : NoNaNData (squareData (MethodChain.intoMethod .weighted) data) := by
    rw [hsq]; exact fun k hk => RM.notNaN _ (hdata k hk).1
  have hl' : 2 * (squareData (MethodChain.intoMethod .weighted) data).size = n * (n - 1) := by
    rw [squareData_size]; exact hl
  have hRnan : ∀ s t v, RWgt val fin u n (valD val n data) s t v → Num.isNaN v = false :=
    fun _ _ _ h => RM.notNaN _ h.fin
  have hRok : ∀ s t v, RWgt val fin u n (valD val n data) s t v → ok v :=
    fun _ _ v h => hok v h.fin (h.range RM.u_nonneg RM.u_lt_one B).1
      (h.range RM.u_nonneg RM.u_lt_one B).2
  obtain ⟨s1, hloop, hres, hnn⟩ := roundLoop_nn L chk .weighted hge C hRnan hRok
    data n h2 hs hl hnan
    (fun i j hi hj hij => by
      obtain ⟨k, hk, e⟩ := init_D_average_mem data n h2 hs hl i j hi hj hij
      refine RWgt.leaf hi hj hij ?_ rfl
      show fin ((Spec.init .average n data).D i j)
      rw [e]; exact (hdata k hk).1)
  have heq : nnchainWith chk .weighted st d data n =
      (relabel (MethodChain.intoMethod .weighted) s1.st.set s1.dend >>= fun r =>
        pure ({ s1.st with set := r.1 }, sqrtSteps (MethodChain.intoMethod .weighted) r.2, s1.M)) := by
    unfold nnchainWith
    simp only []
    rw [Mat.new_ok chk (squareData (MethodChain.intoMethod .weighted) data) n h2 hs hl']
    have hn0 : ¬ n = 0 := by omega
    simp only [bind, Except.bind, hn0, if_false, State.reset_eq_fresh, dendrogramReset_eq, hloop]
  obtain ⟨⟨uf, d'⟩, hr⟩ := relabel_total (MethodChain.intoMethod .weighted) s1.st.set s1.dend n h2
    hres.res.obs hres.res.raw (Or.inr (Or.inr hres.res.heights))
  obtain ⟨hwf, hall⟩ := relabel_greedy_chain_sw L (MethodChain.intoMethod .weighted) rfl
    hge.lw C hRnan hRok s1.st.set uf s1.dend d'
    n h2 hres.res.obs hres.res.raw hres.res.heights hres.run hnn hr
  have hsqrt : sqrtSteps (MethodChain.intoMethod .weighted) d' = d' := by
    simp [sqrtSteps, MethodChain.intoMethod, Method.onSquares]
  refine ⟨{ s1.st with set := uf }, d', s1.M, ?_, hwf, wgtGreedyUpTo_of_sw RM B hall⟩
  rw [heq, hr]; simp only [bind, Except.bind, pure, Except.pure, hsqrt]

/-- The same through `linkage_with(Method::Weighted)`. -/
theorem C03_linkage_weighted_rounded (L : OrderLaws α) {val : α → K} {fin : α → Prop}
    {u lo hi : K} {N : Nat} (RM : Round.Model val fin u lo hi N)
    {ok : α → Prop} (hge : ChainGeOn ok .weighted)
    (chk : Bool) (st : State α) (d : Dendrogram α) (data : Array α) (n : Nat)
    (h2 : 2 ≤ n) (hs : n < 2147483648) (hl : 2 * data.size = n * (n - 1))
    {dlo dhi : K} (hdlo : 0 < dlo)
    (hdata : ∀ (k : Nat) (h : k < data.size),
      fin data[k] ∧ dlo ≤ val data[k] ∧ val data[k] ≤ dhi)
    (Rg : RangeOkW u lo hi n dlo dhi)
    (hok : ∀ v, fin v → dlo * (1 - u) ^ (2 * n) ≤ val v → val v ≤ dhi / (1 - u) ^ (2 * n) → ok v) :
    ∃ st' d' M', linkageWith chk .weighted st d data n = .ok (st', d', M') ∧
      WellFormed n d'.steps.toList ∧ WgtGreedyUpTo (valD val n data) u n d'.steps.toList := by
  have e := linkageWith_eq_nnchainWith chk .weighted (by decide) st d data n
  rw [show MethodChain.intoMethod .weighted = Method.weighted from rfl] at e
  rw [e]
  exact C03_nnchain_weighted_rounded L RM hge chk st d data n h2 hs hl hdlo hdata Rg hok

/-! ## Non-vacuity (the number types and the data of the C02 rounding files: `d01 = 1, d02 = 9, d12 = 4`) -/

section Examples

section ExactRat
attribute [local instance] ratNum

/-- Exact `ℚ`, `primitive_with`: all hypotheses hold, and (with `u = 0`) at every returned step the
merged pair is an EXACT minimiser of the mean over the cross pairs among all pairs of clusters then
present. -/
example : ∃ st' d' M',
    primitiveWith true .average State.new (Dendrogram.new 0) (#[1, 9, 4] : Array ℚ) 3
      = .ok (st', d', M') ∧
    ∀ (i : Nat) (s : Step ℚ), d'.steps.toList[i]? = some s →
      ∀ p q : Nat, PresentBefore 3 d'.steps.toList i p → PresentBefore 3 d'.steps.toList i q →
        p ≠ q →
        avg (valD (fun x : ℚ => x) 3 #[1, 9, 4])
            (Spec.leaves 3 d'.steps.toList d'.steps.toList.length s.c1).toFinset
            (Spec.leaves 3 d'.steps.toList d'.steps.toList.length s.c2).toFinset
          ≤ avg (valD (fun x : ℚ => x) 3 #[1, 9, 4])
            (Spec.leaves 3 d'.steps.toList d'.steps.toList.length p).toFinset
            (Spec.leaves 3 d'.steps.toList d'.steps.toList.length q).toFinset := by
  have RM : Round.Model (fun x : ℚ => x) (fun _ => True) 0 (1 / 100) 100 10 :=
    model_of_exact (exactLaws_fieldNum ℚ) (by norm_num) (by norm_num) (by norm_num)
  obtain ⟨st', d', M', hrun, _, h⟩ := C03_primitive_average_rounded
    (exactLaws_fieldNum ℚ).field.orderLaws RM true State.new (Dendrogram.new 0) #[1, 9, 4] 3
    (by decide) (by decide) (by decide) (dlo := 1) (dhi := 9) (by norm_num) (by norm_num)
    example_data_ok ⟨by decide, by norm_num, by norm_num⟩
  refine ⟨st', d', M', hrun, fun i s hi p q hp hq hpq => ?_⟩
  have := (h i s hi p q hp hq hpq).2.2.2.2.2.2
  simpa only [sub_zero, one_pow, mul_one] using this

/-- Exact `ℚ`, weighted linkage through `primitive_with`: the merged pair is an exact minimiser of the
recursively halved mean. -/
example : ∃ st' d' M',
    primitiveWith true .weighted State.new (Dendrogram.new 0) (#[1, 9, 4] : Array ℚ) 3
      = .ok (st', d', M') ∧
    ∀ (i : Nat) (s : Step ℚ), d'.steps.toList[i]? = some s →
      ∀ p q : Nat, PresentBefore 3 d'.steps.toList i p → PresentBefore 3 d'.steps.toList i q →
        p ≠ q →
        wdist (valD (fun x : ℚ => x) 3 #[1, 9, 4])
            (clusterTree 3 d'.steps.toList s.c1) (clusterTree 3 d'.steps.toList s.c2)
          ≤ wdist (valD (fun x : ℚ => x) 3 #[1, 9, 4])
            (clusterTree 3 d'.steps.toList p) (clusterTree 3 d'.steps.toList q) := by
  have E := exactLaws_fieldNum ℚ
  have RM : Round.Model (fun x : ℚ => x) (fun _ => True) 0 (1 / 100) 100 10 :=
    model_of_exact E (by norm_num) (by norm_num) (by norm_num)
  obtain ⟨st', d', M', hrun, _, h⟩ := C03_primitive_weighted_rounded E.field.orderLaws RM
    ((chainReducible_exact E.field E.noNaN .weighted).chainGe.on (fun _ => True)) true State.new
    (Dendrogram.new 0) #[1, 9, 4] 3 (by decide) (by decide) (by decide) (dlo := 1) (dhi := 9)
    (by norm_num) example_data_pos ⟨by norm_num, by norm_num⟩ (fun _ _ _ _ => trivial)
  refine ⟨st', d', M', hrun, fun i s hi p q hp hq hpq => ?_⟩
  have := (h i s hi p q hp hq hpq).2.2.2.2
  simpa only [sub_zero, one_pow, mul_one] using this

/-- Exact `ℚ`, `linkage_with` (nearest-neighbour chain + stable sort): at every returned step the merged
pair is an EXACT minimiser of the mean among all pairs of clusters then present. -/
example : ∃ st' d' M',
    linkageWith true .average State.new (Dendrogram.new 0) (#[1, 9, 4] : Array ℚ) 3
      = .ok (st', d', M') ∧
    ∀ (i : Nat) (s : Step ℚ), d'.steps.toList[i]? = some s →
      ∀ p q : Nat, PresentBefore 3 d'.steps.toList i p → PresentBefore 3 d'.steps.toList i q →
        p ≠ q →
        avg (valD (fun x : ℚ => x) 3 #[1, 9, 4])
            (Spec.leaves 3 d'.steps.toList d'.steps.toList.length s.c1).toFinset
            (Spec.leaves 3 d'.steps.toList d'.steps.toList.length s.c2).toFinset
          ≤ avg (valD (fun x : ℚ => x) 3 #[1, 9, 4])
            (Spec.leaves 3 d'.steps.toList d'.steps.toList.length p).toFinset
            (Spec.leaves 3 d'.steps.toList d'.steps.toList.length q).toFinset := by
  have RM : Round.Model (fun x : ℚ => x) (fun _ => True) 0 (1 / 100) 100 10 :=
    model_of_exact (exactLaws_fieldNum ℚ) (by norm_num) (by norm_num) (by norm_num)
  obtain ⟨st', d', M', hrun, _, h⟩ := C03_linkage_average_rounded
    (exactLaws_fieldNum ℚ).field.orderLaws RM true State.new (Dendrogram.new 0) #[1, 9, 4] 3
    (by decide) (by decide) (by decide) (dlo := 1) (dhi := 9) (by norm_num) (by norm_num)
    example_data_ok ⟨by decide, by norm_num, by norm_num⟩
  refine ⟨st', d', M', hrun, fun i s hi p q hp hq hpq => ?_⟩
  have := (h i s hi p q hp hq hpq).2.2.2.2.2.2
  simpa only [sub_zero, one_pow, mul_one] using this

end ExactRat

section RoundDown
attribute [local instance] downNum

/-- The round-down toy type (`u = 1/1000`; the clamp does fire on it), `primitive_with`: all hypotheses
hold, so the returned dendrogram is well formed and greedy up to the factor `(1 − 1/1000)^(−K)`. -/
example : ∃ st' d' M',
    primitiveWith true .average State.new (Dendrogram.new 0) (#[1, 9, 4] : Array ℚ) 3
      = .ok (st', d', M') ∧
    WellFormed 3 d'.steps.toList ∧
    AvgGreedyUpTo (valD (fun x : ℚ => x) 3 #[1, 9, 4]) (1 / 1000 : ℚ) 3 d'.steps.toList :=
  C03_primitive_average_rounded downNum_orderLaws
    (downNum_model (lo := 1 / 100) (hi := 100) (N := 10) (by norm_num) (by norm_num) (by norm_num))
    true State.new (Dendrogram.new 0) #[1, 9, 4] 3 (by decide) (by decide) (by decide)
    (dlo := 1) (dhi := 9) (by norm_num) (by norm_num)
    example_data_ok ⟨by decide, by norm_num, by norm_num⟩

/-- The round-down toy type, `nnchain_with`: all hypotheses hold, so the returned (sorted) dendrogram is
well formed and greedy up to the factor `(1 − 1/1000)^(−K)`. -/
example : ∃ st' d' M',
    nnchainWith true .average State.new (Dendrogram.new 0) (#[1, 9, 4] : Array ℚ) 3
      = .ok (st', d', M') ∧
    WellFormed 3 d'.steps.toList ∧
    AvgGreedyUpTo (valD (fun x : ℚ => x) 3 #[1, 9, 4]) (1 / 1000 : ℚ) 3 d'.steps.toList :=
  C03_nnchain_average_rounded downNum_orderLaws
    (downNum_model (lo := 1 / 100) (hi := 100) (N := 10) (by norm_num) (by norm_num) (by norm_num))
    true State.new (Dendrogram.new 0) #[1, 9, 4] 3 (by decide) (by decide) (by decide)
    (dlo := 1) (dhi := 9) (by norm_num) (by norm_num)
    example_data_ok ⟨by decide, by norm_num, by norm_num⟩

end RoundDown

section ExactRat1000
attribute [local instance] ratNum1000

/-- Exact `ℚ` (sentinel `1000`), `generic_with`: the merged pair is an exact minimiser of the mean. -/
example : ∃ st' d' M',
    genericWith true .average State.new (Dendrogram.new 0) (#[1, 9, 4] : Array ℚ) 3
      = .ok (st', d', M') ∧
    ∀ (i : Nat) (s : Step ℚ), d'.steps.toList[i]? = some s →
      ∀ p q : Nat, PresentBefore 3 d'.steps.toList i p → PresentBefore 3 d'.steps.toList i q →
        p ≠ q →
        avg (valD (fun x : ℚ => x) 3 #[1, 9, 4])
            (Spec.leaves 3 d'.steps.toList d'.steps.toList.length s.c1).toFinset
            (Spec.leaves 3 d'.steps.toList d'.steps.toList.length s.c2).toFinset
          ≤ avg (valD (fun x : ℚ => x) 3 #[1, 9, 4])
            (Spec.leaves 3 d'.steps.toList d'.steps.toList.length p).toFinset
            (Spec.leaves 3 d'.steps.toList d'.steps.toList.length q).toFinset := by
  have E := ratNumMax_exact 1000
  have Bq := ratNumMax_beq 1000
  have RM : Round.Model (fun x : ℚ => x) (fun _ => True) 0 (1 / 100) 100 10 :=
    model_of_exact E (by norm_num) (by norm_num) (by norm_num)
  obtain ⟨st', d', M', hrun, _, h⟩ := C03_generic_average_rounded E.field.orderLaws
    (Bq.beqLe E) RM (E.noNaN _) (goodSet_exact Bq E (G := fun v => v < 1000) (fun _ h => h))
    true State.new (Dendrogram.new 0) #[1, 9, 4] 3
    (by decide) (by decide) (by decide) (dlo := 1) (dhi := 9) (by norm_num) (by norm_num)
    example_data_ok ⟨by decide, by norm_num, by norm_num⟩ run_range_lt_1000_exact
  refine ⟨st', d', M', hrun, fun i s hi p q hp hq hpq => ?_⟩
  have := (h i s hi p q hp hq hpq).2.2.2.2.2.2
  simpa only [sub_zero, one_pow, mul_one] using this

end ExactRat1000

section RoundDown1000
attribute [local instance] downNum1000

/-- The round-down toy type with sentinel `1000`, `generic_with`: all hypotheses hold, so the returned
dendrogram is well formed and greedy up to the factor `(1 − 1/1000)^(−K)`. -/
example : ∃ st' d' M',
    genericWith true .average State.new (Dendrogram.new 0) (#[1, 9, 4] : Array ℚ) 3
      = .ok (st', d', M') ∧
    WellFormed 3 d'.steps.toList ∧
    AvgGreedyUpTo (valD (fun x : ℚ => x) 3 #[1, 9, 4]) (1 / 1000 : ℚ) 3 d'.steps.toList :=
  C03_generic_average_rounded downNum1000_orderLaws downNum1000_beqLe
    (downNum1000_model (lo := 1 / 100) (hi := 100) (N := 10) (by norm_num) (by norm_num)
      (by norm_num)) rfl downNum1000_goodSet
    true State.new (Dendrogram.new 0) #[1, 9, 4] 3 (by decide) (by decide) (by decide)
    (dlo := 1) (dhi := 9) (by norm_num) (by norm_num)
    example_data_ok ⟨by decide, by norm_num, by norm_num⟩
    (by
      intro v _ h
      have e : vhi (1 / 1000 : ℚ) 3 9 ≤ 10 := by norm_num [vhi]
      show v < 1000
      rcases h with h | ⟨_, h⟩
      · rw [h]; norm_num
      · linarith)

end RoundDown1000

end Examples

end Kodama
