/-
C19 — the `Dendrogram` / `Step` container contract (src/dendrogram.rs).

Proved here (FULL statement, for the hand-written container model `Model/Dendrogram.lean` and the
op language `Model/DendrogramOps.lean` — the same `Dendrogram.apply` the driver executes):

* `C19_push_inv`  the invariant `len ≤ observations - 1` (truncated subtraction) holds in every
                  state reachable from `new n` (or from `reset n` of any value, or from any value
                  satisfying it) by ANY sequence of ops (`new / reset / push /
                  set_clusters / read-only`), each op run under `catch_unwind` (`Dendrogram.step`:
                  a panicking op leaves the value unchanged).
* `C19_push`      starting from `Dendrogram.new n`, or from `reset n` applied to ANY dendrogram,
                  after any sequence `pre` of pushes, `set_clusters` calls (in or out of range) and
                  read-only ops containing `k` pushes: `observations = n`, `len = min k (n-1)`, and the
                  next push succeeds (appending the step) iff `k < n-1`, otherwise it is
                  `Panic.assertFail`.  Hence exactly `n-1` pushes succeed, the `n`-th and all later
                  ones panic, and for `n ≤ 1` the very first push panics (`C19_push_small`).
* `C19_reset`     `reset n` — the body TRANSLATED from the source (`Gen.dendrogramReset`) — yields
                  `Dendrogram.new n` from ANY state: `len = 0`, `is_empty`, `observations = n`.
* `C19_norm`      `Step.new a b x size = ⟨min a b, max a b, x, size⟩` and
                  `s.setClusters a b = ⟨min a b, max a b, s.d, s.size⟩`.
* `C19_size`      `cluster_size l = 1` for `l < observations`; `= steps[l - observations].size` when
                  that step exists; `Panic.indexOOB` when it does not; and for every dendrogram whose
                  step list is `Spec.WellFormed` and every label `l < n + len`,
                  `cluster_size l = (Spec.leaves n steps steps.length l).length`, where that leaf
                  list has no duplicates and consists of observations `< n` — i.e. the value is the
                  number of distinct observations beneath the label.
* `C19_eq`        over any linearly ordered additive commutative group (`Num` ops instantiated by
                  the group's `-`, `|·|`, `<`, `=`; `groupNum`), for `ε ≥ 0`:
                  `eq_with_epsilon d e ε = true ↔ len d = len e ∧ ∀ i, c1, c2, size equal ∧
                  |dᵢ - eᵢ| ≤ ε` (`C19_eq_step` is the per-step statement).  The `self == other`
                  shortcut is consistent because `|h - h| = 0 ≤ ε`; `observations` is NOT compared
                  (neither does the code).

NOT proved here: that the dendrograms returned by the clustering functions are `Spec.WellFormed`
(that is C01; `C19_size` takes it as a hypothesis).  `C19_eq` is a statement about exact group
arithmetic: for IEEE floats "differ by at most ε" is evaluated as the code does, on the rounded
difference `fl(a - b)` (the oracle sweeps ε ∈ {pred δ, δ, succ δ} around the computed δ), and a step
pair with equal labels and size but a NaN dissimilarity compares as equal in the code (and in the
model) whatever ε — outside the property's domain (non-NaN).

Trusted/modelled: `Model/Dendrogram.lean` is a hand model of `new / push / len / is_empty /
cluster_size / Step::new / set_clusters / eq_with_epsilon` (derived `PartialEq` of `Step` = fieldwise
`==` in declaration order); `set_clusters` reached through `IndexMut` panics before writing.  Tied to
the code by the bit-exact op-sequence correspondence run (`harness/src/container.rs`).
-/
import Kodama.Lemmas.Container
import Mathlib.Algebra.Order.Group.Abs
import Mathlib.Algebra.Order.Group.Int
namespace Kodama
open Dendrogram

/-! ## C19_push -/
section
variable {α : Type} [Num α]

theorem C19_push_inv (n : Nat) (d0 d : Dendrogram α) (ops : List (DOp α)) :
    (ops.foldl step (Dendrogram.new n : Dendrogram α)).Inv ∧
    (ops.foldl step (d0.reset n)).Inv ∧
    (d.Inv → (ops.foldl step d).Inv) :=
  ⟨foldl_step_inv ops _ (inv_new n),
   foldl_step_inv ops _ (by rw [dendrogramReset_eq]; exact inv_new n),
   foldl_step_inv ops d⟩

theorem C19_push (n : Nat) (d0 : Dendrogram α) (pre : List (DOp α))
    (hpre : ∀ op ∈ pre, op.keepsObs = true) (s : Step α) :
    let k := pre.countP DOp.isPush
    (∀ start : Dendrogram α, (start = Dendrogram.new n ∨ start = d0.reset n) →
      let d := pre.foldl step start
      d.obs = n ∧ d.len = min k (n - 1) ∧
      (k < n - 1 → d.apply (.push s) = .ok ⟨d.steps.push s, n⟩) ∧
      (n - 1 ≤ k → d.apply (.push s) = .error .assertFail)) := by
  intro k start hstart
  have hs : start = Dendrogram.new n := by
    rcases hstart with h | h
    · exact h
    · rw [h, dendrogramReset_eq]
  subst hs
  have ⟨h1, h2⟩ := foldl_step_count pre (Dendrogram.new n) (inv_new n) hpre
  have h1' : (pre.foldl step (Dendrogram.new n : Dendrogram α)).obs = n := h1
  have h2' : (pre.foldl step (Dendrogram.new n : Dendrogram α)).len = min k (n - 1) := by
    rw [h2]; simp [Dendrogram.new, len, k]
  refine ⟨h1', h2', ?_, ?_⟩
  · intro hk
    have := push_ok (pre.foldl step (Dendrogram.new n : Dendrogram α)) s (by rw [h1', h2']; omega)
    simp only [apply, this, h1']
  · intro hk
    exact push_full _ s (by rw [h1', h2']; omega)

/-- For `n ≤ 1` the very first push panics. -/
theorem C19_push_small (n : Nat) (hn : n ≤ 1) (d0 : Dendrogram α) (s : Step α) :
    (Dendrogram.new n : Dendrogram α).apply (.push s) = .error .assertFail ∧
    (d0.reset n).apply (.push s) = .error .assertFail := by
  have h := C19_push n d0 [] (by simp) s
  simp only [List.countP_nil, List.foldl_nil] at h
  exact ⟨(h _ (Or.inl rfl)).2.2.2 (by omega), (h _ (Or.inr rfl)).2.2.2 (by omega)⟩

end

/-! ## C19_reset -/
theorem C19_reset {α : Type} [Num α] (d : Dendrogram α) (n : Nat) :
    d.apply (.reset n) = .ok (d.reset n) ∧
    d.reset n = Dendrogram.new n ∧ (d.reset n).len = 0 ∧ (d.reset n).isEmpty = true ∧
    (d.reset n).obs = n := by
  refine ⟨rfl, dendrogramReset_eq d n, ?_, ?_, ?_⟩ <;>
  simp [dendrogramReset_eq, Dendrogram.new, len, isEmpty]

/-! ## C19_norm -/
theorem C19_norm {α : Type} (a b : Nat) (x : α) (size : Nat) (s : Step α) :
    Step.new a b x size = ⟨min a b, max a b, x, size⟩ ∧
    s.setClusters a b = ⟨min a b, max a b, s.d, s.size⟩ := by
  unfold Step.new Step.setClusters
  by_cases h : b < a
  · have h1 : min a b = b := by omega
    have h2 : max a b = a := by omega
    simp [h, h1, h2]
  · have h1 : min a b = a := by omega
    have h2 : max a b = b := by omega
    simp [h, h1, h2]

/-! ## C19_size -/
theorem C19_size {α : Type} (d : Dendrogram α) (l : Nat) :
    (l < d.obs → d.clusterSize l = .ok 1) ∧
    (∀ (_ : d.obs ≤ l) (h : l - d.obs < d.steps.size),
      d.clusterSize l = .ok d.steps[l - d.obs].size) ∧
    (d.obs ≤ l → d.steps.size ≤ l - d.obs → d.clusterSize l = .error .indexOOB) ∧
    (Spec.WellFormed d.obs d.steps.toList → l < d.obs + d.steps.toList.length →
      d.clusterSize l = .ok (Spec.leaves d.obs d.steps.toList d.steps.toList.length l).length ∧
      (Spec.leaves d.obs d.steps.toList d.steps.toList.length l).Nodup ∧
      ∀ x ∈ Spec.leaves d.obs d.steps.toList d.steps.toList.length l, x < d.obs) := by
  refine ⟨?_, ?_, ?_, ?_⟩
  · intro h
    simp [clusterSize, clusterSizeOf, h, pure, Except.pure]
  · intro h1 h2
    have : ¬ l < d.obs := by omega
    simp [clusterSize, clusterSizeOf, this, aget, h2, bind, Except.bind, pure, Except.pure]
  · intro h1 h2
    have h3 : ¬ l < d.obs := by omega
    have : d.steps[l - d.obs]? = none := by simp; omega
    simp [clusterSize, clusterSizeOf, h3, aget, this, bind, Except.bind]
  · intro W hl
    refine ⟨?_, Spec.leaves_nodup _ _ W l hl, Spec.leaves_lt _ _ _ l⟩
    rw [← Spec.sz_eq_length_leaves d.obs d.steps.toList W _ l hl (by omega)]
    have hl' : l < d.obs + d.steps.size := by simpa using hl
    unfold clusterSize clusterSizeOf Spec.sz
    by_cases h : l < d.obs
    · simp [h, pure, Except.pure]
    · have h2 : l - d.obs < d.steps.size := by omega
      simp [h, aget, h2, bind, Except.bind, pure, Except.pure]

/-! ## C19_eq -/

/-- The `Num` operations of a linearly ordered additive commutative group: `sub`, `abs`, `<`, `=`
are the group's; the remaining fields are not used by `eq_with_epsilon` and are dummies. -/
@[reducible] def groupNum (α : Type) [AddCommGroup α] [LinearOrder α] : Num α where
  lt a b := decide (a < b)
  beq a b := decide (a = b)
  add a b := a + b
  sub a b := a - b
  mul a _ := a
  div a _ := a
  ofNat _ := 0
  half := 0
  quarter := 0
  sqrt a := a
  abs a := |a|
  maxValue := 0
  infinity := 0
  isNaN _ := false

section
variable {α : Type} [AddCommGroup α] [LinearOrder α] [IsOrderedAddMonoid α]

theorem C19_eq_step (s t : Step α) (ε : α) (hε : 0 ≤ ε) :
    @Dendrogram.Step.eqWithEpsilon α (groupNum α) s t ε = true ↔
      s.c1 = t.c1 ∧ s.c2 = t.c2 ∧ s.size = t.size ∧ |s.d - t.d| ≤ ε := by
  unfold Dendrogram.Step.eqWithEpsilon
  by_cases h1 : s.c1 = t.c1 <;> by_cases h2 : s.c2 = t.c2 <;> by_cases h3 : s.size = t.size <;>
    simp [h1, h2, h3, Num.beq, Num.lt, Num.abs, Num.sub]
  by_cases h4 : s.d = t.d
  · simp [h4, hε]
  · simp [h4]

theorem C19_eq (d e : Dendrogram α) (ε : α) (hε : 0 ≤ ε) :
    @Dendrogram.eqWithEpsilon α (groupNum α) d e ε = true ↔
      d.len = e.len ∧
      ∀ (i : Nat) (h1 : i < d.steps.size) (h2 : i < e.steps.size),
        d.steps[i].c1 = e.steps[i].c1 ∧ d.steps[i].c2 = e.steps[i].c2 ∧
        d.steps[i].size = e.steps[i].size ∧ |d.steps[i].d - e.steps[i].d| ≤ ε := by
  unfold Dendrogram.eqWithEpsilon len
  by_cases hl : d.steps.size = e.steps.size
  · simp only [hl, bne_self_eq_false, Bool.false_eq_true, if_false, true_and, List.all_eq_true]
    constructor
    · intro h i h1 h2
      have hm : (d.steps[i], e.steps[i]) ∈ d.steps.toList.zip e.steps.toList := by
        rw [List.mem_iff_getElem]
        refine ⟨i, by simp; omega, by simp⟩
      exact (C19_eq_step _ _ ε hε).mp (h _ hm)
    · intro h p hp
      obtain ⟨i, hi, rfl⟩ := List.mem_iff_getElem.mp hp
      simp at hi
      have := h i (by omega) (by omega)
      simp only [List.getElem_zip, Array.getElem_toList]
      exact (C19_eq_step _ _ ε hε).mpr this
  · simp [hl]
end

/-! ## Non-vacuity -/

/-- A well-formed dendrogram exists (3 observations: {0,1} then {{0,1},2}); its leaf lists. -/
def exSteps : List (Step Unit) := [⟨0, 1, (), 2⟩, ⟨2, 3, (), 3⟩]

example : Spec.WellFormed 3 exSteps := by
  refine ⟨rfl, ?_, ?_, ?_⟩
  · intro i s h
    match i, h with
    | 0, h => cases h; decide
    | 1, h => cases h; decide
    | i + 2, h => simp [exSteps] at h
  · intro i s h
    match i, h with
    | 0, h => cases h; constructor <;> (rintro ⟨j, _, hj, _⟩; omega)
    | 1, h =>
      cases h
      constructor <;>
      · rintro ⟨j, s', hj, hs', hc⟩
        have : j = 0 := by omega
        subst this
        cases hs'
        simp at hc
    | i + 2, h => simp [exSteps] at h
  · intro i s h
    match i, h with
    | 0, h => cases h; decide
    | 1, h => cases h; decide
    | i + 2, h => simp [exSteps] at h

example : Spec.leaves 3 exSteps 2 4 = [2, 0, 1] ∧
    (⟨exSteps.toArray, 3⟩ : Dendrogram Unit).clusterSize 4 = .ok 3 ∧
    (⟨exSteps.toArray, 3⟩ : Dendrogram Unit).clusterSize 5 = .error .indexOOB := by decide

/-- The integers are a linearly ordered additive commutative group: `eq_with_epsilon` there. -/
example :
    let d : Dendrogram Int := ⟨#[⟨0, 1, 5, 2⟩], 2⟩
    let e : Dendrogram Int := ⟨#[⟨0, 1, 7, 2⟩], 2⟩
    @Dendrogram.eqWithEpsilon Int (groupNum Int) d e 2 = true ∧
    @Dendrogram.eqWithEpsilon Int (groupNum Int) d e 1 = false ∧
    @Dendrogram.eqWithEpsilon Int (groupNum Int) d d 0 = true := by decide

example (d e : Dendrogram Int) :
    @Dendrogram.eqWithEpsilon Int (groupNum Int) d e 0 = true ↔
      d.len = e.len ∧ ∀ (i : Nat) (h1 : i < d.steps.size) (h2 : i < e.steps.size),
        d.steps[i].c1 = e.steps[i].c1 ∧ d.steps[i].c2 = e.steps[i].c2 ∧
        d.steps[i].size = e.steps[i].size ∧ |d.steps[i].d - e.steps[i].d| ≤ 0 :=
  C19_eq d e 0 (le_refl 0)

/-- Capacity on a concrete run: 3 observations accept 2 pushes (read-only ops and an out-of-range
`set_clusters` interleaved), the third push panics; 1 observation accepts none. -/
example :
    let _ : Num Int := groupNum Int
    let s : Step Int := Step.new 1 0 5 2
    let d := [DOp.push s, .readOnly, .setClusters 7 1 0, .push s].foldl step (Dendrogram.new 3)
    d.len = 2 ∧ d.apply (.push s) = .error .assertFail ∧
    (Dendrogram.new 1 : Dendrogram Int).apply (.push s) = .error .assertFail ∧
    s.c1 = 0 ∧ s.c2 = 1 := by decide

end Kodama
