/-
C04 — single linkage is exact, for the two remaining entry points that accept `Method::Single`:
`nnchain_with(.., MethodChain::Single, ..)` and `generic_with(.., Method::Single, ..)`.
(`mst_with`, `linkage_with(Single)` and `primitive_with(Single)`: `C04_mst`, `C04_linkage_single`,
`C04_primitive` in `Props/C04.lean`.)

## Statement (same conclusion as `C04_primitive` / `C04_mst`)
The call returns, and for EVERY level `h` (not only the heights that occur) and observations
`u, v < n`: `u`, `v` are joined by the returned steps of height `≤ h`
(`SameCluster n steps h u v`: `u = v`, or some step `k` with `¬ h < d_k` has both among the
`Spec.leaves` of its new label `n+k`) IFF they are connected in the threshold graph `entry u v ≤ h`
(`Reach n data h u v`).  `_count` forms: the returned heights are non-decreasing and the number of
steps of height `≤ h` is `n −` the number of connected components of the threshold graph at `h`.
Both build modes, every prior state, every valid matrix `2 ≤ n < 2^31`, `2·len = n(n−1)`.

## Hypotheses (abstract number type `α`; explicit, never axioms)
* `C04_nnchain_single`, `C04_nnchain_single_count`:  `OrderLaws α`, `LtTrichotomy α` (incomparable ⇒
  equal), `∀ x, Num.isNaN x = false` — the hypotheses of `C03_nnchain_single_laws`.
  `C04_nnchain_single_order`: the equivalent `[LinearOrder α]` + `OrderNum α` form.
* `C04_generic_single`, `C04_generic_single_count`:  `OrderLaws α`, `LtTrichotomy α`, `BeqLe α`
  (`a == b → ¬ b < a`), `GoodSet G` (members non-NaN, `< T::max_value()`, `v == v`), `max_value` not
  NaN, all input entries in `G` — the hypotheses of `C03_generic_single`.  `NoNaN n data` is derived
  from them (`noNaN_of_good`).
  `LtTrichotomy` is FALSE for IEEE floats (`±0`, NaN): as for `C04_primitive`, these are
  exact-order statements (for floats: about inputs on which incomparable values are equal).  It is
  inherited from `C03_nnchain_single_laws` / `C03_generic_single`, which prove `Spec.GreedyValid`
  (recorded height EQUAL to the table value); `C04_of_greedy` itself needs only `OrderLaws` and
  `NoNaN`.  The NaN/±0-robust statement for single linkage is `C04_mst` (`OrderLaws`, `NoNaN`,
  `InfTop` only).
* `C04_nnchain_single_exact`, `C04_generic_single_exact`: exact arithmetic (`ExactLaws K`); nnchain:
  no further hypothesis; generic: `BeqExact K` and "every entry `< T::max_value()`".

Proof: `C03_nnchain_single_laws` / `C03_generic_single` (`Spec.GreedyValid .single`) +
`C04_of_greedy` / `C04_heights_sorted` / `C04_count` (`Props/C04.lean`).

NOT proved: these statements without `LtTrichotomy` (i.e. for floats with `±0`).
-/
import Kodama.Props.C03Generic
import Kodama.Props.C04
import Kodama.Lemmas.ComposePerm
namespace Kodama
open Spec
variable {α : Type} [Num α]

/-! ## `nnchain_with(.., Single, ..)` -/

/-- **C04 for `nnchain_with(Single)`**: threshold theorem for the returned steps. -/
theorem C04_nnchain_single (L : OrderLaws α) (T : LtTrichotomy α)
    (hnan : ∀ x : α, Num.isNaN x = false) (chk : Bool) (st : State α) (d : Dendrogram α)
    (data : Array α) (n : Nat) (h2 : 2 ≤ n) (hs : n < 2147483648)
    (hl : 2 * data.size = n * (n - 1)) :
    ∃ st' d' M', nnchainWith chk .single st d data n = .ok (st', d', M') ∧
      ∀ (h : α) (u v : Nat), u < n →
        (SameCluster n d'.steps.toList h u v ↔ Reach n data h u v) := by
  obtain ⟨st', d', M', hrun, hg⟩ := C03_nnchain_single_laws L T hnan chk st d data n h2 hs hl
  exact ⟨st', d', M', hrun, fun h u v hu =>
    C04_of_greedy L n data _ (fun _ _ _ _ _ => hnan _) hg h u v hu⟩

/-- Sortedness and the counting form for the steps returned by `nnchain_with(Single)`. -/
theorem C04_nnchain_single_count (L : OrderLaws α) (T : LtTrichotomy α)
    (hnan : ∀ x : α, Num.isNaN x = false) (chk : Bool) (st : State α) (d : Dendrogram α)
    (data : Array α) (n : Nat) (h2 : 2 ≤ n) (hs : n < 2147483648)
    (hl : 2 * data.size = n * (n - 1)) :
    ∃ st' d' M', nnchainWith chk .single st d data n = .ok (st', d', M') ∧
      d'.steps.toList.Pairwise (fun s t => Num.lt t.d s.d = false) ∧
      ∀ h : α, ∃ reps : List Nat,
        (d'.steps.toList.filter (fun st => !Num.lt h st.d)).length + reps.length = n ∧
        (∀ r ∈ reps, r < n) ∧
        reps.Pairwise (fun r r' => ¬ Reach n data h r r') ∧
        (∀ u, u < n → ∃ r ∈ reps, Reach n data h u r) := by
  obtain ⟨st', d', M', hrun, hg⟩ := C03_nnchain_single_laws L T hnan chk st d data n h2 hs hl
  have hnn : NoNaN n data := fun _ _ _ _ _ => hnan _
  exact ⟨st', d', M', hrun, C04_heights_sorted L n data _ hnn hg,
    fun h => C04_count L n data _ hnn hg h⟩

/-- `C04_nnchain_single` over a linearly ordered number type whose `Num.lt` is the order. -/
theorem C04_nnchain_single_order {β : Type} [LinearOrder β] [Num β] (O : OrderNum β)
    (hnan : ∀ x : β, Num.isNaN x = false) (chk : Bool) (st : State β) (d : Dendrogram β)
    (data : Array β) (n : Nat) (h2 : 2 ≤ n) (hs : n < 2147483648)
    (hl : 2 * data.size = n * (n - 1)) :
    ∃ st' d' M', nnchainWith chk .single st d data n = .ok (st', d', M') ∧
      ∀ (h : β) (u v : Nat), u < n →
        (SameCluster n d'.steps.toList h u v ↔ Reach n data h u v) :=
  C04_nnchain_single O.orderLaws O.ltTrichotomy hnan chk st d data n h2 hs hl

/-! ## `generic_with(.., Single, ..)` -/

section Generic
variable {G : α → Prop}

/-- **C04 for `generic_with(Single)`**: threshold theorem for the returned steps. -/
theorem C04_generic_single (L : OrderLaws α) (T : LtTrichotomy α) (hbeq : BeqLe α)
    (gs : GoodSet G) (chk : Bool) (hmax : Num.isNaN (Num.maxValue : α) = false)
    (st : State α) (d : Dendrogram α) (data : Array α) (n : Nat) (h2 : 2 ≤ n)
    (hs : n < 2147483648) (hl : 2 * data.size = n * (n - 1))
    (hin : ∀ i (h : i < (squareData .single data).size), G (squareData .single data)[i]) :
    ∃ st' d' M', genericWith chk .single st d data n = .ok (st', d', M') ∧
      ∀ (h : α) (u v : Nat), u < n →
        (SameCluster n d'.steps.toList h u v ↔ Reach n data h u v) := by
  obtain ⟨st', d', M', hrun, hg⟩ :=
    C03_generic_single L T hbeq gs chk hmax st d data n h2 hs hl hin
  have hnn : NoNaN n data := noNaN_of_good gs .single rfl n data hl hin
  exact ⟨st', d', M', hrun, fun h u v hu => C04_of_greedy L n data _ hnn hg h u v hu⟩

/-- Sortedness and the counting form for the steps returned by `generic_with(Single)`. -/
theorem C04_generic_single_count (L : OrderLaws α) (T : LtTrichotomy α) (hbeq : BeqLe α)
    (gs : GoodSet G) (chk : Bool) (hmax : Num.isNaN (Num.maxValue : α) = false)
    (st : State α) (d : Dendrogram α) (data : Array α) (n : Nat) (h2 : 2 ≤ n)
    (hs : n < 2147483648) (hl : 2 * data.size = n * (n - 1))
    (hin : ∀ i (h : i < (squareData .single data).size), G (squareData .single data)[i]) :
    ∃ st' d' M', genericWith chk .single st d data n = .ok (st', d', M') ∧
      d'.steps.toList.Pairwise (fun s t => Num.lt t.d s.d = false) ∧
      ∀ h : α, ∃ reps : List Nat,
        (d'.steps.toList.filter (fun st => !Num.lt h st.d)).length + reps.length = n ∧
        (∀ r ∈ reps, r < n) ∧
        reps.Pairwise (fun r r' => ¬ Reach n data h r r') ∧
        (∀ u, u < n → ∃ r ∈ reps, Reach n data h u r) := by
  obtain ⟨st', d', M', hrun, hg⟩ :=
    C03_generic_single L T hbeq gs chk hmax st d data n h2 hs hl hin
  have hnn : NoNaN n data := noNaN_of_good gs .single rfl n data hl hin
  exact ⟨st', d', M', hrun, C04_heights_sorted L n data _ hnn hg,
    fun h => C04_count L n data _ hnn hg h⟩

end Generic

/-- **`nnchain_with(Single)`, `generic_with(Single)` and `primitive_with(Single)` cut identically at
every level** (all three are the threshold components). -/
theorem C04_single_same_cuts {G : α → Prop} (L : OrderLaws α) (T : LtTrichotomy α)
    (hnan : ∀ x : α, Num.isNaN x = false) (hbeq : BeqLe α) (gs : GoodSet G)
    (chk₁ chk₂ chk₃ : Bool) (st₁ st₂ st₃ : State α) (d₁ d₂ d₃ : Dendrogram α) (data : Array α)
    (n : Nat) (h2 : 2 ≤ n) (hs : n < 2147483648) (hl : 2 * data.size = n * (n - 1))
    (hin : ∀ i (h : i < (squareData .single data).size), G (squareData .single data)[i]) :
    ∃ sc dc Mc sg dg Mg sp dp Mp,
      nnchainWith chk₁ .single st₁ d₁ data n = .ok (sc, dc, Mc) ∧
      genericWith chk₂ .single st₂ d₂ data n = .ok (sg, dg, Mg) ∧
      primitiveWith chk₃ .single st₃ d₃ data n = .ok (sp, dp, Mp) ∧
      ∀ (h : α) (u v : Nat), u < n →
        (SameCluster n dc.steps.toList h u v ↔ SameCluster n dg.steps.toList h u v) ∧
        (SameCluster n dc.steps.toList h u v ↔ SameCluster n dp.steps.toList h u v) := by
  obtain ⟨sc, dc, Mc, hc, hcc⟩ := C04_nnchain_single L T hnan chk₁ st₁ d₁ data n h2 hs hl
  obtain ⟨sg, dg, Mg, hg, hcg⟩ :=
    C04_generic_single L T hbeq gs chk₂ (hnan _) st₂ d₂ data n h2 hs hl hin
  obtain ⟨sp, dp, Mp, hp, hcp⟩ :=
    C04_primitive L T chk₃ st₃ d₃ data n h2 hs hl (fun _ _ _ _ _ => hnan _)
  exact ⟨sc, dc, Mc, sg, dg, Mg, sp, dp, Mp, hc, hg, hp, fun h u v hu =>
    ⟨(hcc h u v hu).trans (hcg h u v hu).symm, (hcc h u v hu).trans (hcp h u v hu).symm⟩⟩

/-! ## Exact arithmetic -/

section Exact
variable {K : Type} [Field K] [LinearOrder K] [Num K]

/-- `C04_nnchain_single` in exact arithmetic: no hypothesis besides the shape of the input. -/
theorem C04_nnchain_single_exact (E : ExactLaws K) (chk : Bool) (st : State K)
    (d : Dendrogram K) (data : Array K) (n : Nat) (h2 : 2 ≤ n) (hs : n < 2147483648)
    (hl : 2 * data.size = n * (n - 1)) :
    ∃ st' d' M', nnchainWith chk .single st d data n = .ok (st', d', M') ∧
      ∀ (h : K) (u v : Nat), u < n →
        (SameCluster n d'.steps.toList h u v ↔ Reach n data h u v) :=
  C04_nnchain_single E.field.orderLaws E.field.ltTrichotomy E.noNaN chk st d data n h2 hs hl

/-- `C04_generic_single` in exact arithmetic: `==` is equality and every entry is strictly below
`T::max_value()`. -/
theorem C04_generic_single_exact (E : ExactLaws K) (B : BeqExact K) (chk : Bool) (st : State K)
    (d : Dendrogram K) (data : Array K) (n : Nat) (h2 : 2 ≤ n) (hs : n < 2147483648)
    (hl : 2 * data.size = n * (n - 1)) (hin : ∀ v ∈ data.toList, v < (Num.maxValue : K)) :
    ∃ st' d' M', genericWith chk .single st d data n = .ok (st', d', M') ∧
      ∀ (h : K) (u v : Nat), u < n →
        (SameCluster n d'.steps.toList h u v ↔ Reach n data h u v) :=
  C04_generic_single (G := fun v : K => v < (Num.maxValue : K)) E.field.orderLaws
    E.field.ltTrichotomy (B.beqLe E) (goodSet_exact B E (fun _ h => h)) chk (E.noNaN _) st d data
    n h2 hs hl (squareData_good (G := fun v : K => v < (Num.maxValue : K)) .single data
      (fun v hv => hin v hv))

end Exact

/-! ### Non-vacuity -/

section NonVacuity
attribute [local instance] Toy.natNum

/-- Condensed matrix `d01=5 d02=9 d03=7 d12=8 d13=6 d23=1` over the toy numbers `Nat`
(`max_value = 10^6`): all hypotheses of `C04_single_same_cuts` hold together. -/
example : ∃ sc dc Mc sg dg Mg sp dp Mp,
    nnchainWith true .single State.new (Dendrogram.new 0) (#[5, 9, 7, 8, 6, 1] : Array Nat) 4
      = .ok (sc, dc, Mc) ∧
    genericWith false .single State.new (Dendrogram.new 4) (#[5, 9, 7, 8, 6, 1] : Array Nat) 4
      = .ok (sg, dg, Mg) ∧
    primitiveWith true .single State.new (Dendrogram.new 0) (#[5, 9, 7, 8, 6, 1] : Array Nat) 4
      = .ok (sp, dp, Mp) ∧
    ∀ (h : Nat) (u v : Nat), u < 4 →
      (SameCluster 4 dc.steps.toList h u v ↔ SameCluster 4 dg.steps.toList h u v) ∧
      (SameCluster 4 dc.steps.toList h u v ↔ SameCluster 4 dp.steps.toList h u v) :=
  C04_single_same_cuts Toy.natOrderLaws Toy.natTrichotomy (fun _ => rfl) Toy.natBeqLe
    GenericExample.goodSet_G true false true _ _ _ _ _ _ _ 4 (by decide) (by decide) (by decide)
    (squareData_good .single _ (by simp [GenericExample.G, Method.onSquares]))

end NonVacuity

section ExactExample

/-- Exact arithmetic over `ℚ` with sentinel `1000`, `d01 = 5, d02 = 2, d12 = 9`. -/
example : ∃ st' d' M',
    @genericWith ℚ (ratNumMax 1000) true .single State.new (Dendrogram.new 0) #[5, 2, 9] 3
      = .ok (st', d', M') ∧
    ∀ (h : ℚ) (u v : Nat), u < 3 →
      (@SameCluster ℚ (ratNumMax 1000) 3 d'.steps.toList h u v ↔
        @Reach ℚ (ratNumMax 1000) 3 #[5, 2, 9] h u v) :=
  @C04_generic_single_exact ℚ _ _ (ratNumMax 1000) (ratNumMax_exact 1000) (ratNumMax_beq 1000) true
    _ _ _ 3 (by decide) (by decide) (by decide) (by
      intro v hv
      have : v = 5 ∨ v = 2 ∨ v = 9 := by simpa using hv
      show v < (1000 : ℚ)
      rcases this with rfl | rfl | rfl <;> norm_num)

example : ∃ st' d' M',
    @nnchainWith ℚ (fieldNum ℚ) false .single State.new (Dendrogram.new 0) #[5, 2, 9] 3
      = .ok (st', d', M') ∧
    ∀ (h : ℚ) (u v : Nat), u < 3 →
      (@SameCluster ℚ (fieldNum ℚ) 3 d'.steps.toList h u v ↔
        @Reach ℚ (fieldNum ℚ) 3 #[5, 2, 9] h u v) :=
  @C04_nnchain_single_exact ℚ _ _ (fieldNum ℚ) (exactLaws_fieldNum ℚ) false _ _ _ 3 (by decide)
    (by decide) (by decide)

end ExactExample

end Kodama
