/-
C01 for AVERAGE linkage through `nnchain_with` / `linkage_with`, for EVERY ordered number type —
the formal counterpart of the `fix:` commit of the crate.

The defect.  `nnchain_with` is only correct for REDUCIBLE updates (`d(x, a∪b) ≥ min(d(x,a), d(x,b))`).
The original `method::average` computed `(sa·a + sb·b)/(sa + sb)`; under floating-point rounding this
can come out one ulp BELOW both arguments, a cluster is then pushed on the chain twice and a dead
cluster is merged: the crate returned an INVALID dendrogram (a concrete failing run of the real crate
exists: n = 14, f32, near-tied input).  On the model side this was the hypothesis
`ChainReducible α .average` of `C01_nnchain` / `C12_nnchain_total` / `C14_nnchain`
(`Lemmas/ChainIter.lean`), which was FALSE for IEEE floats and provable in exact arithmetic only.

The fix.  `method::average` now clamps the mean from below by the smaller argument
(`least := if a < b then a else b; *b = if mean < least then least else mean`,
`Kodama/Generated/Method.lean`, regenerated from `src/method.rs`).  For the clamped formula the `ge`
clause of `ChainReducible α .average` follows from `OrderLaws α` ALONE (`Gen.average_not_lt`,
`Lemmas/AverageClamp.lean`; `chainReducible_average`, `Lemmas/ChainIter.lean`): no field law, no exact
arithmetic, no assumption on how `+ × /` round.

Proved here (by instantiating `C01_nnchain` / `C01_linkage`), for every valid matrix
(2 ≤ n < 2^31, 2·len = n(n−1)), both build modes, every prior state:

* `C01_nnchain_average`  `nnchainWith chk .average …` returning `(st', d', M')` implies
                         `d'.obs = n ∧ WellFormed n d'.steps`;
* `C01_linkage_average`  the same through `linkageWith chk .average` (routed to nnchain by the generated
                         dispatch table).

Hypotheses (explicit; all hold of IEEE f32/f64 as stated):
* `OrderLaws α`     `<` is a strict weak order on the non-NaN values (IEEE `<`: NaN compares false);
* `NoNaNData data`  no NaN in the input (average does not square the input);
* `AverageNoNaN α`  the `nan` clause of `ChainReducible α .average`: the update of two non-NaN values
                    with positive sizes is not NaN.  For floats: no overflow of `sa·a + sb·b` to
                    `∞ − ∞`; it holds on finite inputs whose size-weighted sums stay finite.  Sufficient:
                    the MEAN is not NaN (`averageNoNaN_of_mean`) — the clamp never creates a NaN.
                    It is a hypothesis, not proved for floats.

NOT proved here: weighted is handled in `Props/C01Weighted.lean`; Ward — whose `ChainReducible` was
false under rounding in the same way, a second genuine defect repaired by the second `fix:` commit of
the crate — in `Props/C01Ward.lean`.  Not proved: `AverageNoNaN` for `Float`/`Float32`.

Also here (`UnclampedDefect`): a model-level witness of the DEFECT.  On a toy number type with a
4-bit significand rounding toward zero (`UnclampedDefect.truncNum`, which satisfies `OrderLaws`) the unclamped
mean of `7` and `7` with sizes `1`, `2` is `6` — strictly below BOTH arguments — while the clamped
`Gen.average` returns `7`.
-/
import Kodama.Props.C01
namespace Kodama
open Spec
variable {α : Type} [Num α]

theorem squareData_average (data : Array α) :
    squareData (MethodChain.intoMethod .average) data = data := by
  simp [squareData, MethodChain.intoMethod, Method.onSquares]

/-- **C01, average linkage through `nnchain_with`, any ordered number type.**  No reducibility
hypothesis: the clamped update is reducible by `OrderLaws` alone. -/
theorem C01_nnchain_average (L : OrderLaws α) (hn : AverageNoNaN α) (chk : Bool)
    (st st' : State α) (d d' : Dendrogram α) (data : Array α) (n : Nat) (M' : Mat α)
    (h2 : 2 ≤ n) (hs : n < 2147483648) (hl : 2 * data.size = n * (n - 1))
    (hnan : NoNaNData data)
    (h : nnchainWith chk .average st d data n = .ok (st', d', M')) :
    d'.obs = n ∧ WellFormed n d'.steps.toList :=
  C01_nnchain L chk .average (chainReducible_average L hn) st st' d d' data n M' h2 hs hl
    (by rw [squareData_average]; exact hnan) h

/-- **C01, average linkage through `linkage_with`** (dispatched to `nnchain_with`). -/
theorem C01_linkage_average (L : OrderLaws α) (hn : AverageNoNaN α) (chk : Bool)
    (st st' : State α) (d d' : Dendrogram α) (data : Array α) (n : Nat) (M' : Mat α)
    (h2 : 2 ≤ n) (hs : n < 2147483648) (hl : 2 * data.size = n * (n - 1))
    (hnan : NoNaNData data)
    (h : linkageWith chk .average st d data n = .ok (st', d', M')) :
    d'.obs = n ∧ WellFormed n d'.steps.toList :=
  C01_linkage L chk .average
    (by
      intro mc hmc
      simp only [Method.intoMethodChain, Option.some.injEq] at hmc
      rw [← hmc]; exact chainReducible_average L hn)
    rfl st st' d d' data n M' h2 hs hl
    (fun _ => by
      have : squareData Method.average data = data := by simp [squareData, Method.onSquares]
      rw [this]; exact hnan)
    h

/-! ### Non-vacuity (toy exact number type `Toy.natNum`, a valid 4-point matrix) -/

section NonVacuity
attribute [local instance] Toy.natNum

/-- The hypotheses are jointly satisfiable. -/
example : OrderLaws Nat ∧ AverageNoNaN Nat ∧ NoNaNData (#[5, 2, 9, 7, 4, 1] : Array Nat) :=
  ⟨Toy.natOrderLaws, fun _ _ _ _ _ _ _ _ _ _ _ _ _ _ _ _ => rfl, fun _ _ => rfl⟩

example (st' : State Nat) (d' : Dendrogram Nat) (M' : Mat Nat)
    (h : nnchainWith true .average State.new (Dendrogram.new 4)
      (#[5, 2, 9, 7, 4, 1] : Array Nat) 4 = .ok (st', d', M')) :
    d'.obs = 4 ∧ WellFormed 4 d'.steps.toList :=
  C01_nnchain_average Toy.natOrderLaws (fun _ _ _ _ _ _ _ _ _ _ _ _ _ _ _ _ => rfl) true _ st' _ d'
    _ 4 M' (by decide) (by decide) (by decide) (fun _ _ => rfl) h

end NonVacuity

/-! ### The defect, at the level of the model

`truncNum`: natural numbers with a 4-bit significand, every arithmetic result rounded TOWARD ZERO
to a representable value (`< 16`: exact; `16 … 31`: multiples of 2; `32 … 63`: multiples of 4; …;
three binades are enough here).  The order is the usual one, so `OrderLaws` holds; what fails is the
algebra — exactly the situation of IEEE floats. -/

namespace UnclampedDefect

/-- Round toward zero to a 4-bit significand (three binades above 16 suffice for the witness). -/
def trunc (x : Nat) : Nat :=
  if x < 16 then x else if x < 32 then x / 2 * 2 else if x < 64 then x / 4 * 4 else x / 8 * 8

@[reducible] def truncNum : Num Nat where
  lt a b := decide (a < b)
  beq a b := decide (a = b)
  add a b := trunc (a + b)
  sub a b := trunc (a - b)
  mul a b := trunc (a * b)
  div a b := trunc (a / b)
  ofNat n := trunc n
  half := 0
  quarter := 0
  sqrt a := a
  abs a := a
  maxValue := 1000000
  infinity := 1000000
  isNaN _ := false

theorem truncNum_orderLaws : @OrderLaws Nat truncNum := by
  refine @OrderLaws.mk Nat truncNum ?_ ?_
  · intro a b h
    change decide (a < b) = true at h
    change decide (b < a) = false
    simp only [decide_eq_true_eq, decide_eq_false_iff_not] at h ⊢
    omega
  · intro a b c _ h
    change decide (a < c) = true at h
    change decide (a < b) = true ∨ decide (b < c) = true
    simp only [decide_eq_true_eq] at h ⊢
    omega

attribute [local instance] truncNum

/-- **The unclamped formula is not reducible under rounding.**  `1·7 + 2·7 = 21` rounds to `20`,
`20 / 3 = 6`: the "mean" of `7` and `7` is `6`, strictly below both arguments. -/
theorem unclamped_mean_below_both :
    Gen.averageMean (7 : Nat) 7 1 2 = 6 ∧
      Num.lt (Gen.averageMean (7 : Nat) 7 1 2) (7 : Nat) = true := by decide

/-- The clamped `method::average` returns `7` on the same input … -/
theorem clamped_average_on_witness : Gen.average (7 : Nat) 7 1 2 = 7 := by decide

/-- … and is reducible on this number type altogether (as on every ordered number type). -/
example : ChainReducible Nat .average :=
  chainReducible_average truncNum_orderLaws (fun _ _ _ _ _ _ _ _ _ _ _ _ _ _ _ _ => rfl)

/-- Hence no theorem "the unclamped mean is `≥` a common lower bound of its arguments" can follow from
`OrderLaws` (plus absence of NaN): `t = 7` is a lower bound of both arguments and not of the mean. -/
theorem unclamped_not_reducible :
    ¬ ∀ (a b t : Nat) (sa sb : Nat), 0 < sa → 0 < sb → Num.lt a t = false → Num.lt b t = false →
        Num.lt (Gen.averageMean a b sa sb) t = false := by
  intro h
  have := h 7 7 7 1 2 (by decide) (by decide) (by decide) (by decide)
  revert this; decide

end UnclampedDefect

end Kodama
